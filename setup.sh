#!/bin/sh
# Builds the framework from files on disk only (offline) and warms the Go build cache.
set -e
cd "$(dirname "$0")"
. ./env.sh
mkdir -p bin evidence replays
if [ -d cmd/vinstr ]; then (cd cmd && $GO build -o ../bin/vinstr ./vinstr); fi
./vcheck --prebuild
