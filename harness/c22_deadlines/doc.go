//go:build verif

// Package h_c22 hosts the E4 harness of property C22 (deadlines and
// cancellation propagate to both ends): a real grpc.ClientConn (and, where a
// handler is needed, a real grpc.Server) against scripted raw HTTP/2 peers
// inside synctest bubbles, with exact virtual-time checks.
package h_c22
