//go:build verif

package h_c22

// "Gap" histories: the RPC's context is cancelled, its deadline passes, or the
// ClientConn is closed at every point of the client's API sequence, including
// the gaps in which the application is not inside any gRPC call, for every
// kind of StreamDesc. Observed on the raw server peer: the server must learn
// about the end (RST_STREAM, or the connection going away) within the
// quiescence step of the event even if the application never touches the
// stream again; afterwards every API call reports CANCELLED / DEADLINE_EXCEEDED.

import (
	"context"
	"fmt"
	"io"
	"runtime"
	"sync"
	"testing"
	"testing/synctest"
	"time"

	"golang.org/x/net/http2"
	"google.golang.org/grpc"
	"google.golang.org/grpc/codes"
	"google.golang.org/grpc/connectivity"
	"google.golang.org/grpc/metadata"
	"google.golang.org/grpc/status"
)

type c22GapCase struct {
	Desc string `json:"gap_desc"` // invoke | none | client | server | bidi
	Stop string `json:"stop"`     // where the application is when the event happens
	End  string `json:"end"`      // cancel | deadline | ccclose
}

func (c c22GapCase) String() string { return fmt.Sprintf("gap/%s/%s/%s", c.Desc, c.Stop, c.End) }

var c22GapDescs = map[string]*grpc.StreamDesc{
	"none":   {StreamName: "m"},
	"client": {StreamName: "m", ClientStreams: true},
	"server": {StreamName: "m", ServerStreams: true},
	"bidi":   {StreamName: "m", ClientStreams: true, ServerStreams: true},
}

func c22GapCases() []c22GapCase {
	var out []c22GapCase
	ends := []string{"cancel", "deadline", "ccclose"}
	for _, stop := range []string{"in-Invoke-noheaders", "in-Invoke-headers", "in-Invoke-zerowin"} {
		for _, end := range ends {
			out = append(out, c22GapCase{"invoke", stop, end})
		}
	}
	for _, d := range []string{"none", "client", "server", "bidi"} {
		stops := []string{"after-NewStream", "after-SendMsg", "after-SendMsg-zerowin", "after-CloseSend", "in-Header", "after-Header", "in-RecvMsg"}
		if c22GapDescs[d].ClientStreams {
			stops = append(stops, "in-SendMsg-flowctl") // needs a second SendMsg
		}
		for _, stop := range stops {
			for _, end := range ends {
				out = append(out, c22GapCase{d, stop, end})
			}
		}
	}
	return out
}

// c22GapApp is the application: it walks the API sequence, pausing (outside
// any gRPC call) after the step named gapAfter until resume is closed.
type c22GapApp struct {
	rpc    *c22RPC
	mu     sync.Mutex
	atGap  bool
	resume chan struct{}
}

func (a *c22GapApp) inGap() bool {
	a.mu.Lock()
	defer a.mu.Unlock()
	return a.atGap
}

func c22GapStart(w *c22World, ctx context.Context, c c22GapCase, payload []byte, nsend int) *c22GapApp {
	a := &c22GapApp{rpc: &c22RPC{w: w}, resume: make(chan struct{})}
	r := a.rpc
	opts := []grpc.CallOption{grpc.ForceCodecV2(c22Codec{})}
	gapAfter := ""
	switch c.Stop {
	case "after-NewStream":
		gapAfter = "NewStream"
	case "after-SendMsg", "after-SendMsg-zerowin":
		gapAfter = "SendMsg"
	case "after-CloseSend":
		gapAfter = "CloseSend"
	case "after-Header":
		gapAfter = "Header"
	}
	gap := func(step string) {
		if step != gapAfter {
			return
		}
		a.mu.Lock()
		a.atGap = true
		a.mu.Unlock()
		<-a.resume
		a.mu.Lock()
		a.atGap = false
		a.mu.Unlock()
	}
	go func() {
		defer func() {
			r.mu.Lock()
			r.fin = true
			r.mu.Unlock()
		}()
		if c.Desc == "invoke" {
			var reply []byte
			r.op("Invoke", func() error { return w.cc.Invoke(ctx, "/s/m", payload, &reply, opts...) })
			return
		}
		var cs grpc.ClientStream
		if r.op("NewStream", func() error {
			var e error
			cs, e = w.cc.NewStream(ctx, c22GapDescs[c.Desc], "/s/m", opts...)
			return e
		}) != nil {
			return
		}
		gap("NewStream")
		for i := 0; i < nsend; i++ {
			if err := r.op("SendMsg", func() error { return cs.SendMsg(payload) }); err != nil {
				break
			}
		}
		gap("SendMsg")
		r.op("CloseSend", cs.CloseSend)
		gap("CloseSend")
		r.op("Header", func() error {
			var md metadata.MD
			md, err := cs.Header()
			_ = md
			return err
		})
		gap("Header")
		for i := 0; i < 3; i++ {
			var m []byte
			if err := r.op("RecvMsg", func() error { return cs.RecvMsg(&m) }); err != nil {
				return
			}
		}
	}()
	return a
}

func c22GapRun(t *testing.T, c c22GapCase) (res c22Result) {
	if c22GoroutineDelta < 0 {
		base := runtime.NumGoroutine()
		c22Bubble(t, func(*testing.T) { c22GoroutineDelta = runtime.NumGoroutine() - base })
	}
	base := runtime.NumGoroutine()
	problem := c22Bubble(t, func(t *testing.T) {
		c22GapRunInBubble(t, c, &res)
		synctest.Wait()
		if extra := runtime.NumGoroutine() - base - c22GoroutineDelta; extra > 0 && res.Engine == "" {
			buf := make([]byte, 1<<16)
			buf = buf[:runtime.Stack(buf, true)]
			res.Fails = append(res.Fails, c22Fail{"leak", fmt.Sprintf("%d goroutine(s) still alive after the RPC ended and everything was closed:\n%s", extra, c22TrimStacks(string(buf)))})
		}
	})
	if problem != "" {
		if res.Engine == "" && len(res.Fails) == 0 {
			res.Engine = problem
		} else {
			res.Trace += " | " + problem
		}
	}
	return res
}

func c22GapRunInBubble(t *testing.T, c c22GapCase, res *c22Result) {
	fail := func(class, format string, a ...any) {
		res.Fails = append(res.Fails, c22Fail{class, fmt.Sprintf(format, a...)})
	}
	zeroWin := c.Stop == "after-SendMsg-zerowin" || c.Stop == "in-SendMsg-flowctl" || c.Stop == "in-Invoke-zerowin"
	plan := func(int) c22ConnPlan {
		p := c22ConnPlan{Settings: []http2.Setting{{ID: http2.SettingMaxConcurrentStreams, Val: 100}}}
		if zeroWin {
			p.Settings = append(p.Settings, http2.Setting{ID: http2.SettingInitialWindowSize, Val: 0})
		}
		return p
	}
	w := c22NewWorld(t, c22ServiceConfigLB, true, plan)
	defer w.close()
	if w.cc == nil {
		res.Engine = w.engineErr()
		return
	}
	w.connect()
	if lb := w.getLB(); lb == nil || lb.state0() != connectivity.Ready {
		res.Engine = "set-up: LB/SubConn not ready: " + w.engineErr()
		return
	}
	w.publish(c22KReady, nil)
	synctest.Wait()

	const d = time.Second
	ctx, cancel := w.ctx(0)
	if c.End == "deadline" {
		var cancel2 context.CancelFunc
		ctx, cancel2 = context.WithTimeout(ctx, d)
		defer cancel2()
	}
	payload, nsend := []byte("req"), 1
	if zeroWin {
		payload = make([]byte, 100<<10)
	}
	if c.Stop == "in-SendMsg-flowctl" {
		nsend = 2
	}
	app := c22GapStart(w, ctx, c, payload, nsend)
	rpc := app.rpc
	synctest.Wait()
	ss := w.newStreams()
	if len(ss) != 1 {
		res.Engine = fmt.Sprintf("script drift: %d request streams on the wire; %s", len(ss), rpc)
		return
	}
	req := ss[0]
	switch c.Stop {
	case "after-Header", "in-RecvMsg", "in-Invoke-headers":
		req.Peer.WriteHeaders(req.ID, c22RespHdr, false)
		synctest.Wait()
	}
	// the application must be exactly where the case says
	wantBlocked := ""
	switch c.Stop {
	case "in-Invoke-noheaders", "in-Invoke-headers", "in-Invoke-zerowin":
		wantBlocked = "Invoke"
	case "in-SendMsg-flowctl":
		wantBlocked = "SendMsg"
	case "in-Header":
		wantBlocked = "Header"
	case "in-RecvMsg":
		wantBlocked = "RecvMsg"
	}
	switch {
	case rpc.finished():
		res.Engine = "script drift: the application finished before the event; " + rpc.String()
		return
	case wantBlocked == "" && (!app.inGap() || rpc.blockedIn() != ""):
		res.Engine = fmt.Sprintf("script drift: application not in the gap %s (inGap=%v, blocked in %q); %s", c.Stop, app.inGap(), rpc.blockedIn(), rpc)
		return
	case wantBlocked != "" && rpc.blockedIn() != wantBlocked:
		res.Engine = fmt.Sprintf("script drift: application blocked in %q, want %q; %s", rpc.blockedIn(), wantBlocked, rpc)
		return
	}
	res.Nontrivial = true

	// ---- the event ----
	wantCodes := []codes.Code{codes.Canceled}
	var eventAt time.Duration
	switch c.End {
	case "cancel":
		cancel()
	case "ccclose":
		wantCodes = []codes.Code{codes.Canceled, codes.Unavailable}
		w.cc.Close()
	case "deadline":
		wantCodes = []codes.Code{codes.DeadlineExceeded}
		eventAt = d
		time.Sleep(d - time.Since(w.epoch))
	}
	synctest.Wait()

	// ---- server side: told within the quiescence step of the event, with the application idle ----
	told := ""
	for _, f := range req.Peer.Log() {
		if f.Type == "RST_STREAM" && f.Stream == req.ID {
			told = fmt.Sprintf("RST_STREAM(code=%d)", f.Code)
		}
	}
	if told == "" && req.Peer.Closed() {
		told = "connection closed"
	}
	if told == "" {
		fail("server-not-told", "%s at +%v while the application was %s (StreamDesc %s): by quiescence at +%v the server has received neither RST_STREAM for stream %d nor a connection close, so a handler's context would stay live; server saw: %s",
			c.End, eventAt, c.Stop, c.Desc, time.Since(w.epoch), req.ID, req.Peer.LogString())
	}
	// a call that was blocked must have been released at the event instant
	if wantBlocked != "" {
		if cur := rpc.blockedIn(); cur == wantBlocked {
			fail("no-termination", "%s at +%v: the call blocked in %s was not released by quiescence; %s", c.End, eventAt, wantBlocked, rpc)
		}
	}

	// ---- the application comes back a second later ----
	time.Sleep(time.Second)
	synctest.Wait()
	resumeAt := time.Since(w.epoch)
	close(app.resume)
	synctest.Wait()
	time.Sleep(time.Second)
	synctest.Wait()
	if !rpc.finished() {
		fail("no-termination", "%s at +%v: the application's remaining API calls did not all return (blocked in %s); %s", c.End, eventAt, rpc.blockedIn(), rpc)
	} else {
		var terminal error
		for _, o := range rpc.snapshot() {
			if o.Done && o.Begin <= eventAt && o.End > eventAt {
				fail("wrong-time", "%s was in flight at the event (+%v) and returned only at +%v", o.Name, eventAt, o.End)
			}
			if o.Done && o.Begin >= resumeAt && o.End != o.Begin {
				fail("wrong-time", "%s called at +%v after the RPC had ended returned only at +%v", o.Name, o.Begin, o.End)
			}
			if o.Err == nil || (o.Err == io.EOF && o.Name == "SendMsg") {
				continue
			}
			if o.End < eventAt {
				fail("early", "%s returned %v at +%v, before the event at +%v", o.Name, o.Err, o.End, eventAt)
				continue
			}
			st, ok := status.FromError(o.Err)
			good := false
			for _, wc := range wantCodes {
				if ok && st.Code() == wc {
					good = true
				}
			}
			if !good {
				fail("wrong-code", "%s returned %v after %s, want %v", o.Name, o.Err, c.End, wantCodes)
			}
			if o.Name == "RecvMsg" || o.Name == "Invoke" {
				terminal = o.Err
			}
		}
		if terminal == nil {
			fail("wrong-code", "after %s neither Invoke nor RecvMsg reported the RPC's end (want %v); %s", c.End, wantCodes, rpc)
		}
	}
	ferr, _ := rpc.final()
	res.Outcome = fmt.Sprintf("gap: %s/%s -> %v, server told by %s", c.Stop, c.End, status.Code(ferr), told)
	res.Trace = fmt.Sprintf("%s | event=%s@+%v server told: %q | server saw: %s", rpc, c.End, eventAt, told, req.Peer.LogString())
	if e := w.engineErr(); e != "" && res.Engine == "" {
		res.Engine = e
	}
}
