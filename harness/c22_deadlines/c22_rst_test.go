//go:build verif

package h_c22

// Boundary-instant histories: an RPC with deadline d that the application never
// cancels; the scripted raw server resets the stream with RST_STREAM(CANCEL)
// (what a real server's per-stream deadline timer sends) at d-δ, exactly d and
// d+δ. To make "the reset is processed before the client acted on its own
// context expiry" deterministic, a variant gives the RPC a legal
// context.Context whose Deadline() is d while its Done() closes L later.

import (
	"context"
	"fmt"
	"io"
	"runtime"
	"testing"
	"testing/synctest"
	"time"

	"golang.org/x/net/http2"
	"google.golang.org/grpc"
	"google.golang.org/grpc/codes"
	"google.golang.org/grpc/connectivity"
	"google.golang.org/grpc/status"
)

const c22RstDeadline = time.Second

type c22RstCase struct {
	RstPoint string `json:"rst_point"` // recv (response headers, no message) | flowctl (zero window)
	API      string `json:"api"`       // unary | stream
	Off      int64  `json:"off_ns"`    // instant of the server's RST_STREAM(CANCEL) relative to the deadline
	Late     int64  `json:"late_ns"`   // ctx.Done() closes this long after ctx.Deadline() (0 = context.WithDeadline)
}

func (c c22RstCase) String() string {
	off := time.Duration(c.Off).String()
	if c.Off >= 0 {
		off = "+" + off
	}
	return fmt.Sprintf("rst-at-deadline/%s/%s/rst=d%s/done=d+%v", c.RstPoint, c.API, off, time.Duration(c.Late))
}

func c22RstCases(thorough bool) []c22RstCase {
	offs := []time.Duration{-time.Millisecond, -1, 0, 1, time.Millisecond}
	lates := []time.Duration{0, 1, time.Millisecond}
	if thorough {
		offs = []time.Duration{-time.Millisecond, -time.Microsecond, -1, 0, 1, 2, time.Microsecond, time.Millisecond, 2 * time.Millisecond}
		lates = []time.Duration{0, 1, 2, time.Microsecond, time.Millisecond, 10 * time.Millisecond}
	}
	var out []c22RstCase
	for _, pt := range []string{"recv", "flowctl"} {
		for _, api := range []string{"unary", "stream"} {
			for _, off := range offs {
				for _, late := range lates {
					out = append(out, c22RstCase{RstPoint: pt, API: api, Off: int64(off), Late: int64(late)})
				}
			}
		}
	}
	return out
}

// c22LateCtx is a context whose Deadline() is d but whose Done()/Err() come
// from a parent that expires later.
type c22LateCtx struct {
	context.Context
	d time.Time
}

func (c c22LateCtx) Deadline() (time.Time, bool) { return c.d, true }

func c22RstRun(t *testing.T, c c22RstCase) (res c22Result) {
	if c22GoroutineDelta < 0 {
		base := runtime.NumGoroutine()
		c22Bubble(t, func(*testing.T) { c22GoroutineDelta = runtime.NumGoroutine() - base })
	}
	base := runtime.NumGoroutine()
	problem := c22Bubble(t, func(t *testing.T) {
		c22RstRunInBubble(t, c, &res)
		synctest.Wait()
		if extra := runtime.NumGoroutine() - base - c22GoroutineDelta; extra > 0 && res.Engine == "" {
			buf := make([]byte, 1<<16)
			buf = buf[:runtime.Stack(buf, true)]
			res.Fails = append(res.Fails, c22Fail{"leak", fmt.Sprintf("%d goroutine(s) still alive after the RPC ended and everything was closed:\n%s", extra, c22TrimStacks(string(buf)))})
		}
	})
	if problem != "" {
		if res.Engine == "" && len(res.Fails) == 0 {
			res.Engine = problem
		} else {
			res.Trace += " | " + problem
		}
	}
	return res
}

func c22RstRunInBubble(t *testing.T, c c22RstCase, res *c22Result) {
	fail := func(class, format string, a ...any) {
		res.Fails = append(res.Fails, c22Fail{class, fmt.Sprintf(format, a...)})
	}
	plan := func(int) c22ConnPlan {
		p := c22ConnPlan{Settings: []http2.Setting{{ID: http2.SettingMaxConcurrentStreams, Val: 100}}}
		if c.RstPoint == "flowctl" {
			p.Settings = append(p.Settings, http2.Setting{ID: http2.SettingInitialWindowSize, Val: 0})
		}
		return p
	}
	w := c22NewWorld(t, c22ServiceConfigLB, true, plan)
	defer w.close()
	if w.cc == nil {
		res.Engine = w.engineErr()
		return
	}
	w.connect()
	if lb := w.getLB(); lb == nil || lb.state0() != connectivity.Ready {
		res.Engine = "set-up: LB/SubConn not ready: " + w.engineErr()
		return
	}
	w.publish(c22KReady, nil)
	synctest.Wait()

	d := c22RstDeadline
	late := time.Duration(c.Late)
	tr := d + time.Duration(c.Off) // instant of the server's reset
	td := d + late                 // instant at which the RPC's ctx.Done() closes
	parent, _ := w.ctx(0)
	ctx, cancelDL := context.WithDeadline(parent, w.epoch.Add(td))
	defer cancelDL()
	if late > 0 {
		ctx = c22LateCtx{Context: ctx, d: w.epoch.Add(d)}
	}
	payload, nsend := []byte("req"), 1
	if c.RstPoint == "flowctl" {
		payload, nsend = make([]byte, 100<<10), 2
	}
	var rpc *c22RPC
	if c.API == "unary" {
		rpc = w.startUnary(ctx, "/s/m", payload)
	} else {
		rpc = w.startStream(ctx, "/s/m", payload, nsend)
	}
	synctest.Wait()
	ss := w.newStreams()
	if len(ss) != 1 {
		res.Engine = fmt.Sprintf("script drift: %d request streams on the wire; %s", len(ss), rpc)
		return
	}
	req := ss[0]
	if c.RstPoint == "recv" {
		req.Peer.WriteHeaders(req.ID, c22RespHdr, false)
		synctest.Wait()
	}
	wantOp := "Invoke"
	if c.API == "stream" {
		wantOp = "RecvMsg"
		if c.RstPoint == "flowctl" {
			wantOp = "SendMsg"
		}
	}
	// Expected end, from the property text: the first of {server reset, ctx.Done}
	// ends the call; it ends CANCELLED only if that happens strictly before the
	// deadline (then it can only be the reset), otherwise DEADLINE_EXCEEDED.
	wantAt := min(tr, td)
	wantCode := codes.DeadlineExceeded
	if tr < d {
		wantCode = codes.Canceled
	}

	// just before the first event the call must still be blocked where intended
	time.Sleep(wantAt - 1 - time.Since(w.epoch))
	synctest.Wait()
	if rpc.finished() {
		e, at := rpc.final()
		fail("early", "the RPC returned %v at +%v, before both the server's reset (+%v) and its ctx.Done (+%v)", e, at, tr, td)
	} else if got := rpc.blockedIn(); got != wantOp {
		res.Engine = fmt.Sprintf("script drift: RPC blocked in %q, scenario expects %q; %s", got, wantOp, rpc)
		return
	} else {
		res.Nontrivial = true
	}
	time.Sleep(tr - time.Since(w.epoch))
	req.Peer.WriteRST(req.ID, http2.ErrCodeCancel)
	synctest.Wait()
	time.Sleep(td + time.Second - time.Since(w.epoch))
	synctest.Wait()

	if !rpc.finished() {
		fail("no-termination", "RPC still blocked (in %s) at +%v; deadline +%v, server reset at +%v, ctx.Done at +%v; %s", rpc.blockedIn(), time.Since(w.epoch), d, tr, td, rpc)
	} else {
		ferr, at := rpc.final()
		st, ok := status.FromError(ferr)
		switch {
		case ferr == nil || !ok:
			fail("wrong-code", "RPC ended with %v, want %v", ferr, wantCode)
		case st.Code() == codes.Canceled && wantCode == codes.DeadlineExceeded:
			fail("cancelled-at-or-after-deadline", "the application never cancelled; Deadline()=+%v; the terminal status was produced at +%v >= deadline (server RST_STREAM(CANCEL) at +%v, ctx.Done at +%v) but the RPC ended CANCELLED (%q), want DEADLINE_EXCEEDED", d, at, tr, td, ferr)
		case st.Code() != wantCode:
			fail("wrong-code", "RPC ended with %v, want %v (deadline +%v, server reset at +%v, ctx.Done at +%v)", ferr, wantCode, d, tr, td)
		}
		if at != wantAt {
			fail("wrong-time", "RPC returned at +%v, want exactly +%v (deadline +%v, server reset at +%v, ctx.Done at +%v)", at, wantAt, d, tr, td)
		}
		// exactly one terminal status: every error any call returned is that status (or io.EOF from SendMsg)
		for _, o := range rpc.snapshot() {
			if !o.Done || o.Err == nil || (o.Err == io.EOF && o.Name == "SendMsg") {
				continue
			}
			if status.Code(o.Err) != status.Code(ferr) {
				fail("two-terminal-statuses", "%s returned %v although the call's terminal status is %v", o.Name, o.Err, ferr)
			}
			if o.End > td {
				fail("wrong-time", "%s returned at +%v, after ctx.Done at +%v", o.Name, o.End, td)
			}
		}
	}
	ferr, at := rpc.final()
	first := "reset"
	if td < tr {
		first = "ctx"
	} else if td == tr {
		first = "tie"
	}
	res.Outcome = fmt.Sprintf("rst-at-deadline: first=%s resetBeforeDeadline=%v -> %v", first, tr < d, status.Code(ferr))
	res.Trace = fmt.Sprintf("%s | end=+%v deadline=+%v reset=+%v ctxDone=+%v", rpc, at, d, tr, td)
	if e := w.engineErr(); e != "" && res.Engine == "" {
		res.Engine = e
	}
	_ = grpc.WaitForReady
}
