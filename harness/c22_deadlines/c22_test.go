//go:build verif

package h_c22

import (
	"context"
	"encoding/json"
	"fmt"
	"os"
	"regexp"
	"runtime"
	"strconv"
	"strings"
	"sync"
	"testing"
	"testing/synctest"
	"time"

	"golang.org/x/net/http2"
	"google.golang.org/grpc"
	"google.golang.org/grpc/codes"
	"google.golang.org/grpc/connectivity"
	"google.golang.org/grpc/internal/verif/vk"
	"google.golang.org/grpc/internal/verif/wire"
	"google.golang.org/grpc/status"
)

const c22ServiceConfigLB = `{"loadBalancingConfig": [{"` + c22LBName + `": {}}]}`
const c22ServiceConfigPF = `{}`

// retry policy with a long backoff (8..12 s with the 0.8-1.2 jitter; exactly 8 s with server pushback)
const c22ServiceConfigRetry = `{"loadBalancingConfig": [{"` + c22LBName + `": {}}],
 "methodConfig": [{"name": [{"service": "s"}],
   "retryPolicy": {"maxAttempts": 3, "initialBackoff": "10s", "maxBackoff": "10s", "backoffMultiplier": 1, "retryableStatusCodes": ["UNAVAILABLE"]}}]}`

// c22BackoffMin: every timing applied to the backoff points ends before the backoff can.
const c22BackoffMin = 5 * time.Second

// blocking points
var c22Points = []string{
	"noresolve",     // (a) resolver has produced nothing: blocked before the first pick
	"nopicker",      // (a) LB policy has not published a picker
	"nosc",          // (b) picker returns ErrNoSubConnAvailable
	"nonready",      // (b) picker returns a SubConn that is not READY
	"pickerr-wfr",   // (b) picker returns a plain error, RPC is wait-for-ready
	"pf-connecting", // (b) real pick_first, dial hangs / fails for ever, RPC is wait-for-ready
	"quota0",        // (c) MAX_CONCURRENT_STREAMS=0
	"quota1",        // (c) MAX_CONCURRENT_STREAMS=1, one stream held open
	"flowctl",       // (d) INITIAL_WINDOW_SIZE=0, never a WINDOW_UPDATE, 100 KB messages
	"recv",          // (e) server sent response headers, no message
	"handler",       // (f) real server, handler blocks on its ctx
	// (g) in retry backoff: retryPolicy with a 10 s backoff, the raw server answered the first
	// attempt trailers-only UNAVAILABLE (second variant: with grpc-retry-pushback-ms: 8000)
	"backoff", "backoff-pushback",
	// "late" points: blocked as named first, unblocked 400 ms into the call, then the
	// (raw) server never answers: the rest of the deadline is spent waiting for headers.
	"noresolve>recv", "nosc>recv", "quota1>recv",
}

const c22LateAt = 400 * time.Millisecond

type c22Case struct {
	Point  string `json:"point"`
	API    string `json:"api"`    // unary | stream
	Timing string `json:"timing"` // dl:<ns> | cancel:before | cancel:at | cancel:+<ns>
	WFR    bool   `json:"wfr"`
}

func (c c22Case) String() string {
	m := "ff"
	if c.WFR {
		m = "wfr"
	}
	t := c.Timing
	if i := strings.IndexAny(t, ":"); i >= 0 {
		if n, err := strconv.ParseInt(strings.TrimPrefix(t[i+1:], "+"), 10, 64); err == nil {
			pre := t[:i+1]
			if strings.HasPrefix(t[i+1:], "+") {
				pre += "+"
			}
			t = pre + time.Duration(n).String()
		}
	}
	return fmt.Sprintf("%s/%s/%s/%s", c.Point, c.API, m, t)
}

// timing decoding
func (c c22Case) deadline() (time.Duration, bool) {
	if strings.HasPrefix(c.Timing, "dl:") {
		n, _ := strconv.ParseInt(c.Timing[3:], 10, 64)
		return time.Duration(n), true
	}
	return 0, false
}
func (c c22Case) cancelAfter() (time.Duration, bool) {
	if strings.HasPrefix(c.Timing, "cancel:+") {
		n, _ := strconv.ParseInt(c.Timing[8:], 10, 64)
		return time.Duration(n), true
	}
	return 0, false
}

func c22Cases(thorough bool) []c22Case {
	dls := []time.Duration{0, time.Millisecond, time.Second}
	cancels := []time.Duration{500 * time.Millisecond}
	if thorough {
		dls = []time.Duration{0, 1, time.Microsecond, time.Millisecond, 50 * time.Millisecond, time.Second, time.Hour}
		cancels = []time.Duration{1, 500 * time.Millisecond, time.Hour}
	}
	var timings []string
	for _, d := range dls {
		timings = append(timings, fmt.Sprintf("dl:%d", int64(d)))
	}
	timings = append(timings, "cancel:before", "cancel:at")
	for _, d := range cancels {
		timings = append(timings, fmt.Sprintf("cancel:+%d", int64(d)))
	}
	var out []c22Case
	for _, pt := range c22Points {
		var wfrs []bool
		switch pt {
		case "pickerr-wfr", "pf-connecting":
			wfrs = []bool{true}
		case "noresolve", "nopicker", "nosc", "nonready":
			wfrs = []bool{false, true}
		default:
			wfrs = []bool{false}
			if thorough {
				wfrs = []bool{false, true}
			}
		}
		for _, api := range []string{"unary", "stream"} {
			for _, tm := range timings {
				c := c22Case{Point: pt, API: api, Timing: tm}
				if strings.HasPrefix(pt, "backoff") {
					// the timing must end while the backoff is still running
					d, _ := c.deadline()
					ca, _ := c.cancelAfter()
					if d >= c22BackoffMin || ca >= c22BackoffMin {
						continue
					}
				}
				if strings.Contains(pt, ">") {
					// only timings that outlive the unblocking instant say something new
					d, isDL := c.deadline()
					ca, isCA := c.cancelAfter()
					if !(isDL && d > c22LateAt) && !(isCA && ca > c22LateAt) {
						continue
					}
				}
				for _, wfr := range wfrs {
					c.WFR = wfr
					out = append(out, c)
				}
			}
		}
	}
	return out
}

type c22Fail struct{ Class, Desc string }

type c22Result struct {
	Fails      []c22Fail
	Engine     string
	Outcome    string
	Trace      string
	Nontrivial bool
}

// ---- real server with a blocking handler (point "handler" and the raw-client leg) ----

type c22HCall struct {
	Started  time.Duration
	HasDL    bool
	DL       time.Duration // absolute, as offset from the epoch
	DoneSet  bool
	DoneAt   time.Duration
	CtxErr   error
	Returned bool
}

type c22Server struct {
	epoch    time.Time
	srv      *grpc.Server
	lis      *wire.Listener
	mu       sync.Mutex
	calls    []*c22HCall
	stubborn bool          // handler ignores its ctx until release is closed
	release  chan struct{} // closed by the driver
}

func c22NewServer(epoch time.Time, stubborn bool) *c22Server {
	s := &c22Server{epoch: epoch, lis: wire.NewListener(), stubborn: stubborn, release: make(chan struct{})}
	s.srv = grpc.NewServer(grpc.UnknownServiceHandler(func(_ any, ss grpc.ServerStream) error {
		ctx := ss.Context()
		hc := &c22HCall{Started: time.Since(s.epoch)}
		if dl, ok := ctx.Deadline(); ok {
			hc.HasDL, hc.DL = true, dl.Sub(s.epoch)
		}
		s.mu.Lock()
		s.calls = append(s.calls, hc)
		s.mu.Unlock()
		<-ctx.Done()
		s.mu.Lock()
		hc.DoneSet, hc.DoneAt, hc.CtxErr = true, time.Since(s.epoch), ctx.Err()
		s.mu.Unlock()
		if s.stubborn {
			<-s.release
		}
		s.mu.Lock()
		hc.Returned = true
		s.mu.Unlock()
		return status.FromContextError(ctx.Err()).Err()
	}))
	go s.srv.Serve(s.lis)
	return s
}

func (s *c22Server) snapshot() []c22HCall {
	s.mu.Lock()
	defer s.mu.Unlock()
	out := make([]c22HCall, len(s.calls))
	for i, c := range s.calls {
		out[i] = *c
	}
	return out
}

func (s *c22Server) stop() {
	select {
	case <-s.release:
	default:
		close(s.release)
	}
	s.srv.Stop()
}

// ---- independent decoder of the grpc-timeout header (gRPC HTTP/2 spec: 1-8 digits + unit) ----

var c22TimeoutRE = regexp.MustCompile(`^([0-9]{1,8})([HMSmun])$`)

func c22DecodeTimeout(v string) (time.Duration, bool) {
	m := c22TimeoutRE.FindStringSubmatch(v)
	if m == nil {
		return 0, false
	}
	n, _ := strconv.ParseInt(m[1], 10, 64)
	unit := map[string]time.Duration{"H": time.Hour, "M": time.Minute, "S": time.Second, "m": time.Millisecond, "u": time.Microsecond, "n": time.Nanosecond}[m[2]]
	return time.Duration(n) * unit, true
}

// c22GoroutineDelta is runtime.NumGoroutine() inside an otherwise empty bubble
// minus the count outside (calibrated once per process).
var c22GoroutineDelta = -1

func c22Run(t *testing.T, c c22Case) (res c22Result) {
	if c22GoroutineDelta < 0 {
		base := runtime.NumGoroutine()
		c22Bubble(t, func(*testing.T) { c22GoroutineDelta = runtime.NumGoroutine() - base })
	}
	base := runtime.NumGoroutine()
	problem := c22Bubble(t, func(t *testing.T) {
		c22RunInBubble(t, c, &res)
		synctest.Wait()
		if extra := runtime.NumGoroutine() - base - c22GoroutineDelta; extra > 0 && res.Engine == "" {
			buf := make([]byte, 1<<16)
			buf = buf[:runtime.Stack(buf, true)]
			res.Fails = append(res.Fails, c22Fail{"leak", fmt.Sprintf("%d goroutine(s) still alive after the RPC ended and ClientConn/server/peers were closed:\n%s", extra, c22TrimStacks(string(buf)))})
		}
	})
	if problem != "" {
		if res.Engine == "" && len(res.Fails) == 0 {
			res.Engine = problem
		} else {
			res.Trace += " | " + problem
		}
	}
	return res
}

func c22TrimStacks(s string) string {
	var keep []string
	for _, g := range strings.Split(s, "\n\n") {
		if strings.Contains(g, "synctest") && !strings.Contains(g, "testing.tRunner") && !strings.Contains(g, "c22Run") {
			keep = append(keep, g)
		}
	}
	out := strings.Join(keep, "\n\n")
	if len(out) > 3000 {
		out = out[:3000]
	}
	return out
}

func c22RunInBubble(t *testing.T, c c22Case, res *c22Result) {
	fail := func(class, format string, a ...any) {
		res.Fails = append(res.Fails, c22Fail{class, fmt.Sprintf(format, a...)})
	}
	base := c.Point
	late := false
	if i := strings.Index(base, ">"); i >= 0 {
		base, late = base[:i], true
	}
	var server *c22Server
	plan := func(n int) c22ConnPlan {
		p := c22ConnPlan{Settings: []http2.Setting{{ID: http2.SettingMaxConcurrentStreams, Val: 100}}}
		switch base {
		case "pf-connecting":
			if n%2 == 0 {
				p.Hang = true
			} else {
				p.Fail = fmt.Errorf("scripted dial error")
			}
		case "quota0":
			p.Settings = []http2.Setting{{ID: http2.SettingMaxConcurrentStreams, Val: 0}}
		case "quota1":
			p.Settings = []http2.Setting{{ID: http2.SettingMaxConcurrentStreams, Val: 1}}
		case "flowctl":
			p.Settings = append(p.Settings, http2.Setting{ID: http2.SettingInitialWindowSize, Val: 0})
		case "handler":
			p.Listener = server.lis
		}
		return p
	}
	sc := c22ServiceConfigLB
	inBackoff := strings.HasPrefix(base, "backoff")
	if inBackoff {
		sc = c22ServiceConfigRetry
	}
	if base == "pf-connecting" {
		sc = c22ServiceConfigPF
	}
	w := c22NewWorld(t, sc, base != "noresolve", plan)
	if base == "handler" {
		server = c22NewServer(w.epoch, false)
	}
	defer func() {
		w.close()
		if server != nil {
			server.stop()
		}
		synctest.Wait()
	}()
	if w.cc == nil {
		res.Engine = w.engineErr()
		return
	}
	w.connect()

	// ---- drive the channel to the blocking point's start state ----
	usesLB := base != "pf-connecting" && base != "noresolve"
	if usesLB {
		lb := w.getLB()
		if lb == nil || lb.state0() != connectivity.Ready {
			res.Engine = "set-up: LB/SubConn not ready: " + w.engineErr()
			return
		}
		switch base {
		case "nopicker":
		case "nosc":
			w.publish(c22KNoSC, nil)
		case "nonready":
			w.publish(c22KNonReady, nil)
		case "pickerr-wfr":
			w.publish(c22KPlain, fmt.Errorf("scripted plain picker error"))
		default:
			w.publish(c22KReady, nil)
		}
		synctest.Wait()
	}
	var holder c22Stream
	if base == "quota1" {
		hctx, _ := w.ctx(0)
		if _, err := w.cc.NewStream(hctx, c22BidiDesc, "/s/hold", grpc.ForceCodecV2(c22Codec{})); err != nil {
			res.Engine = "set-up: holder stream: " + err.Error()
			return
		}
		var ok bool
		if holder, ok = w.awaitStream(false); !ok {
			res.Engine = "set-up: holder stream did not reach the wire"
			return
		}
	}
	if time.Since(w.epoch) != 0 {
		res.Engine = "set-up consumed virtual time"
		return
	}

	// ---- the call ----
	dl, hasDL := c.deadline()
	cancelAt, hasCancelAfter := c.cancelAfter()
	ctx, cancel := w.ctx(0)
	if hasDL {
		var cancel2 context.CancelFunc
		ctx, cancel2 = context.WithTimeout(ctx, dl)
		defer cancel2()
	}
	if c.Timing == "cancel:before" {
		cancel()
	}
	var opts []grpc.CallOption
	if c.WFR {
		opts = append(opts, grpc.WaitForReady(true))
	}
	payload := []byte("req")
	nsend := 1
	if base == "flowctl" {
		payload = make([]byte, 100<<10)
		nsend = 2
	}
	var rpc *c22RPC
	if c.API == "unary" {
		rpc = w.startUnary(ctx, "/s/m", payload, opts...)
	} else {
		rpc = w.startStream(ctx, "/s/m", payload, nsend, opts...)
	}
	synctest.Wait()

	immediate := (hasDL && dl == 0) || c.Timing == "cancel:before"
	wantCode := codes.Canceled
	var wantAt time.Duration
	if hasDL {
		wantCode, wantAt = codes.DeadlineExceeded, dl
	} else if hasCancelAfter {
		wantAt = cancelAt
	}

	// Wire/handler bookkeeping for the request stream of the call under test.
	var reqStream c22Stream
	haveStream := false
	var sentAt time.Duration
	lookForStream := func() {
		if haveStream {
			return
		}
		if ss := w.newStreams(); len(ss) > 0 {
			reqStream, haveStream, sentAt = ss[0], true, time.Since(w.epoch)
		}
	}
	expectBlockedOp := "Invoke"
	if c.API == "stream" {
		switch base {
		case "flowctl":
			expectBlockedOp = "SendMsg"
		case "recv", "handler", "backoff", "backoff-pushback":
			expectBlockedOp = "RecvMsg"
		default:
			expectBlockedOp = "NewStream"
		}
	}
	checkBlocked := func(when string, op string) bool {
		if rpc.finished() {
			e, at := rpc.final()
			fail("early", "%s: the RPC already returned (%v at +%v); it must stay blocked until its deadline/cancellation (%v at +%v)", when, e, at, wantCode, wantAt)
			return false
		}
		if got := rpc.blockedIn(); got != op && res.Engine == "" {
			res.Engine = fmt.Sprintf("script drift: %s: RPC blocked in %q, scenario expects %q; %s", when, got, op, rpc)
			return false
		}
		return true
	}

	if !immediate {
		lookForStream()
		if inBackoff {
			if !haveStream {
				res.Engine = "script drift: request headers did not reach the raw server; " + rpc.String()
				return
			}
			if base == "backoff-pushback" {
				reqStream.trailersOnly(int(codes.Unavailable), [2]string{"grpc-retry-pushback-ms", "8000"})
			} else {
				reqStream.trailersOnly(int(codes.Unavailable))
			}
			synctest.Wait()
			if ss := w.newStreams(); len(ss) != 0 {
				res.Engine = "script drift: a second attempt reached the wire at once, no backoff; " + rpc.String()
				return
			}
		}
		if base == "recv" {
			if !haveStream {
				res.Engine = "script drift: request headers did not reach the raw server; " + rpc.String()
				return
			}
			reqStream.Peer.WriteHeaders(reqStream.ID, c22RespHdr, false)
			synctest.Wait()
		}
		// wire evidence that the RPC is blocked where the scenario says
		switch base {
		case "noresolve", "nopicker", "nosc", "nonready", "pickerr-wfr", "pf-connecting", "quota0", "quota1":
			if haveStream && res.Engine == "" {
				res.Engine = "script drift: request headers on the wire although the RPC should be blocked before the transport"
			}
		case "flowctl":
			n := 0
			if haveStream {
				for _, f := range reqStream.Peer.Log() {
					if f.Type == "DATA" && f.Stream == reqStream.ID {
						n += len(f.Data)
					}
				}
			}
			if (!haveStream || n != 0) && res.Engine == "" {
				res.Engine = fmt.Sprintf("script drift: flowctl: haveStream=%v, %d DATA bytes on the wire with a zero window", haveStream, n)
			}
		case "handler":
			if hc := server.snapshot(); len(hc) != 1 && res.Engine == "" {
				res.Engine = fmt.Sprintf("script drift: %d handler invocations", len(hc))
			}
		}
		if res.Engine != "" {
			return
		}
		if checkBlocked("at quiescence after the call started", expectBlockedOp) {
			res.Nontrivial = true
		}
	}

	// ---- let time pass / cancel ----
	unblock := func() {
		// late points: remove the first obstacle 400 ms into the call
		time.Sleep(c22LateAt)
		synctest.Wait()
		if !checkBlocked("just before the obstacle is removed", expectBlockedOp) {
			return
		}
		lookForStream()
		if haveStream && res.Engine == "" {
			res.Engine = "script drift: request headers on the wire before the obstacle was removed"
			return
		}
		switch base {
		case "noresolve":
			w.resolve()
			synctest.Wait()
			w.publish(c22KReady, nil)
		case "nosc":
			w.publish(c22KReady, nil)
		case "quota1":
			holder.trailersOnly(0)
		}
		synctest.Wait()
		lookForStream()
		if !haveStream && res.Engine == "" {
			res.Engine = "script drift: obstacle removed but no request headers on the wire; " + rpc.String()
			return
		}
		op := "Invoke"
		if c.API == "stream" {
			op = "RecvMsg"
		}
		checkBlocked("after the obstacle was removed", op)
	}
	switch {
	case immediate:
	case hasDL:
		if late {
			unblock()
		}
		time.Sleep(dl + time.Second - time.Since(w.epoch))
	case c.Timing == "cancel:at":
		cancel()
	case hasCancelAfter:
		if late {
			unblock()
		}
		time.Sleep(cancelAt - time.Since(w.epoch))
		synctest.Wait()
		checkBlocked("just before cancel", rpc.blockedIn())
		cancel()
	}
	cancelledAt := time.Since(w.epoch)
	synctest.Wait()

	// ---- client-side oracle ----
	if !rpc.finished() {
		fail("no-termination", "RPC still blocked (in %s) at +%v; it had to end with %v at +%v; %s", rpc.blockedIn(), time.Since(w.epoch), wantCode, wantAt, rpc)
	} else {
		ferr, at := rpc.final()
		st, ok := status.FromError(ferr)
		switch {
		case ferr == nil:
			fail("wrong-code", "RPC ended without error, want %v", wantCode)
		case !ok || st.Code() != wantCode:
			fail("wrong-code", "RPC ended with %v, want %v", ferr, wantCode)
		}
		if at != wantAt {
			fail("wrong-time", "RPC returned at +%v, want exactly +%v (%v)", at, wantAt, wantCode)
		}
		for _, o := range rpc.snapshot() {
			if o.Done && o.End > wantAt {
				fail("wrong-time", "%s returned at +%v, after the RPC's end at +%v", o.Name, o.End, wantAt)
			}
		}
	}
	_ = cancelledAt

	// ---- wire oracle: grpc-timeout never shorter than the remaining time; RST_STREAM after the end ----
	lookForStream()
	if haveStream && base != "handler" {
		if hasDL {
			v, present := wire.Field(reqStream.Fields, "grpc-timeout")
			d, okv := c22DecodeTimeout(v)
			switch {
			case !present:
				fail("grpc-timeout-missing", "request headers sent at +%v carry no grpc-timeout although the call has a deadline at +%v", sentAt, dl)
			case !okv:
				fail("grpc-timeout-malformed", "grpc-timeout %q is not <1-8 digits><unit>", v)
			case sentAt+d < dl:
				fail("grpc-timeout-short", "grpc-timeout %q sent at +%v expires at +%v, before the client's deadline +%v", v, sentAt, sentAt+d, dl)
			}
		}
		if rpc.finished() && !inBackoff {
			rst := false
			for _, f := range reqStream.Peer.Log() {
				if f.Type == "RST_STREAM" && f.Stream == reqStream.ID {
					rst = true
				}
			}
			if !rst {
				fail("no-rst", "the call ended on the client at +%v but the server never received RST_STREAM for stream %d: %s", wantAt, reqStream.ID, reqStream.Peer.LogString())
			}
		}
	}

	// ---- server-side oracle (real server) ----
	hsum := ""
	if base == "handler" {
		calls := server.snapshot()
		switch {
		case immediate:
			if len(calls) != 0 {
				hsum = fmt.Sprintf("handler ran %d times", len(calls))
			}
		case len(calls) != 1:
			res.Engine = fmt.Sprintf("script drift: %d handler invocations", len(calls))
		default:
			hc := calls[0]
			hsum = fmt.Sprintf("handler{start=+%v hasDL=%v dl=+%v done=%v@+%v err=%v}", hc.Started, hc.HasDL, hc.DL, hc.DoneSet, hc.DoneAt, hc.CtxErr)
			if hasDL {
				if !hc.HasDL {
					fail("handler-no-deadline", "client deadline +%v, handler ctx has no deadline", dl)
				} else if hc.DL < dl {
					fail("handler-deadline-early", "handler ctx deadline +%v is earlier than the client's deadline +%v", hc.DL, dl)
				}
			}
			if !hc.DoneSet {
				fail("handler-not-cancelled", "client call ended (%v) at +%v; by quiescence at +%v the handler's ctx is still live", wantCode, wantAt, time.Since(w.epoch))
			} else if hc.DoneAt != wantAt {
				fail("handler-cancel-time", "handler ctx ended at +%v, client call ended (%v) at +%v", hc.DoneAt, wantCode, wantAt)
			}
		}
	}

	ferr, at := rpc.final()
	res.Outcome = fmt.Sprintf("%s: %v", base, status.Code(ferr))
	if !rpc.finished() {
		res.Outcome = base + ": hung"
	}
	res.Trace = fmt.Sprintf("%s | end=+%v %s", rpc, at, hsum)
	if haveStream {
		v, _ := wire.Field(reqStream.Fields, "grpc-timeout")
		res.Trace += fmt.Sprintf(" | HEADERS sent at +%v grpc-timeout=%q", sentAt, v)
	}
	if e := w.engineErr(); e != "" && res.Engine == "" {
		res.Engine = e
	}
}

// ---------------------------------------------------------------- raw client -> real server

// c22SrvCase: a raw HTTP/2 client sends a request with a grpc-timeout header to
// a real grpc.Server whose handler blocks; optionally RST_STREAM(CANCEL) later.
type c22SrvCase struct {
	Timeout  string `json:"timeout"`  // grpc-timeout header value ("" = none)
	RST      string `json:"rst"`      // none | at | +<ns>
	Stubborn bool   `json:"stubborn"` // handler ignores its ctx (keeps running) until the end of the history
}

func (c c22SrvCase) String() string {
	h := "ctxwait"
	if c.Stubborn {
		h = "stubborn"
	}
	rst := c.RST
	if strings.HasPrefix(rst, "+") {
		n, _ := strconv.ParseInt(rst[1:], 10, 64)
		rst = "+" + time.Duration(n).String()
	}
	return fmt.Sprintf("rawclient/timeout=%q/rst=%s/%s", c.Timeout, rst, h)
}

func c22SrvCases(thorough bool) []c22SrvCase {
	timeouts := []string{"", "1n", "1m", "1S", "1000m"}
	if thorough {
		timeouts = append(timeouts, "1u", "999u", "1000000u", "1M", "1H", "99999999n", "30S")
	}
	var out []c22SrvCase
	for _, to := range timeouts {
		for _, rst := range []string{"none", "at", fmt.Sprintf("+%d", int64(500*time.Millisecond))} {
			for _, st := range []bool{false, true} {
				if to == "" && rst == "none" {
					continue // nothing ever ends the call
				}
				if d, ok := c22DecodeTimeout(to); ok && strings.HasPrefix(rst, "+") && d <= 500*time.Millisecond {
					continue // the deadline comes first: same history as rst=none
				}
				out = append(out, c22SrvCase{Timeout: to, RST: rst, Stubborn: st})
			}
		}
	}
	return out
}

func c22SrvRun(t *testing.T, c c22SrvCase) (res c22Result) {
	if c22GoroutineDelta < 0 {
		base := runtime.NumGoroutine()
		c22Bubble(t, func(*testing.T) { c22GoroutineDelta = runtime.NumGoroutine() - base })
	}
	base := runtime.NumGoroutine()
	problem := c22Bubble(t, func(t *testing.T) {
		c22SrvRunInBubble(t, c, &res)
		synctest.Wait()
		if extra := runtime.NumGoroutine() - base - c22GoroutineDelta; extra > 0 && res.Engine == "" {
			buf := make([]byte, 1<<16)
			buf = buf[:runtime.Stack(buf, true)]
			res.Fails = append(res.Fails, c22Fail{"leak", fmt.Sprintf("%d goroutine(s) still alive after Server.Stop:\n%s", extra, c22TrimStacks(string(buf)))})
		}
	})
	if problem != "" {
		if res.Engine == "" && len(res.Fails) == 0 {
			res.Engine = problem
		} else {
			res.Trace += " | " + problem
		}
	}
	return res
}

func c22SrvRunInBubble(t *testing.T, c c22SrvCase, res *c22Result) {
	fail := func(class, format string, a ...any) {
		res.Fails = append(res.Fails, c22Fail{class, fmt.Sprintf(format, a...)})
	}
	epoch := time.Now()
	server := c22NewServer(epoch, c.Stubborn)
	conn, err := server.lis.Dial()
	if err != nil {
		res.Engine = "dial: " + err.Error()
		server.stop()
		return
	}
	peer := wire.NewClientPeer(conn)
	peer.AutoAckSettings = true
	peer.AutoAckPing = true
	defer func() {
		peer.Close()
		server.stop()
		synctest.Wait()
	}()
	peer.WriteSettings()
	synctest.Wait()
	hdr := [][2]string{{":method", "POST"}, {":scheme", "http"}, {":path", "/s/m"}, {":authority", "x"}, {"content-type", "application/grpc"}, {"te", "trailers"}}
	var timeout time.Duration
	hasTO := c.Timeout != ""
	if hasTO {
		hdr = append(hdr, [2]string{"grpc-timeout", c.Timeout})
		var ok bool
		if timeout, ok = c22DecodeTimeout(c.Timeout); !ok {
			res.Engine = "bad case timeout " + c.Timeout
			return
		}
	}
	peer.WriteHeaders(1, hdr, false)
	synctest.Wait()
	calls := server.snapshot()
	if len(calls) != 1 {
		res.Engine = fmt.Sprintf("script drift: %d handler invocations; client saw %s", len(calls), peer.LogString())
		return
	}
	res.Nontrivial = true
	if hc := calls[0]; hasTO {
		if !hc.HasDL {
			fail("handler-no-deadline", "grpc-timeout %q received at +0s, handler ctx has no deadline", c.Timeout)
		} else if hc.DL < timeout {
			fail("handler-deadline-early", "grpc-timeout %q received at +0s: handler ctx deadline +%v is earlier than +%v", c.Timeout, hc.DL, timeout)
		}
	} else if hc.HasDL {
		res.Trace += fmt.Sprintf("(handler ctx has deadline +%v without grpc-timeout) ", hc.DL)
	}
	if calls[0].DoneSet {
		fail("handler-cancelled-early", "handler ctx ended at +%v (%v) before any deadline/cancellation", calls[0].DoneAt, calls[0].CtxErr)
	}

	// the event that must end the call on the server
	endAt := time.Duration(-1)
	if hasTO {
		endAt = timeout
	}
	rstAt := time.Duration(-1)
	switch {
	case c.RST == "at":
		rstAt = 0
	case strings.HasPrefix(c.RST, "+"):
		n, _ := strconv.ParseInt(c.RST[1:], 10, 64)
		rstAt = time.Duration(n)
	}
	byRST := rstAt >= 0 && (endAt < 0 || rstAt < endAt)
	if byRST {
		endAt = rstAt
	}
	if byRST {
		time.Sleep(rstAt)
		synctest.Wait()
		if cs := server.snapshot(); cs[0].DoneSet {
			fail("handler-cancelled-early", "handler ctx ended at +%v (%v), before the client's RST_STREAM at +%v", cs[0].DoneAt, cs[0].CtxErr, rstAt)
		}
		peer.WriteRST(1, http2.ErrCodeCancel)
		synctest.Wait()
	} else {
		time.Sleep(endAt + time.Second)
		synctest.Wait()
	}
	hc := server.snapshot()[0]
	what := fmt.Sprintf("grpc-timeout %q expiry", c.Timeout)
	if byRST {
		what = "client RST_STREAM(CANCEL)"
	}
	if !hc.DoneSet {
		fail("handler-not-cancelled", "%s at +%v: by quiescence at +%v the handler's ctx is still live", what, endAt, time.Since(epoch))
	} else if hc.DoneAt != endAt {
		fail("handler-cancel-time", "%s at +%v: handler ctx ended at +%v (%v)", what, endAt, hc.DoneAt, hc.CtxErr)
	}
	closedOnWire := false
	for _, f := range peer.Log() {
		if f.Stream == 1 && (f.Type == "RST_STREAM" || (f.Type == "HEADERS" && f.EndStream)) {
			closedOnWire = true
		}
	}
	if !byRST && !closedOnWire {
		// The deadline passed while the handler is (possibly) still running: the
		// server must end the stream towards the client on its own.
		fail("server-stream-not-closed-at-deadline", "grpc-timeout %q expired at +%v; by quiescence at +%v the server has sent neither RST_STREAM nor trailers for the stream: %s", c.Timeout, endAt, time.Since(epoch), peer.LogString())
	}
	res.Outcome = fmt.Sprintf("rawclient: byRST=%v handlerErr=%v wireClosed=%v", byRST, hc.CtxErr, closedOnWire)
	res.Trace += fmt.Sprintf("handler{hasDL=%v dl=+%v done=%v@+%v err=%v returned=%v} client saw: %s", hc.HasDL, hc.DL, hc.DoneSet, hc.DoneAt, hc.CtxErr, hc.Returned, peer.LogString())
}

// ---------------------------------------------------------------- test

func TestVerif_C22_Deadlines(t *testing.T) {
	const P = "C22"
	r := vk.Start(t, "c22_deadlines", "exploration", P)
	defer r.Finish()
	r.Rule(P, "one synctest bubble per case; client cases = blocking point ("+strings.Join(c22Points, ", ")+") x {Invoke, NewStream/SendMsg/CloseSend/RecvMsg} x timing "+
		"(deadline d in {0, 1ms, 1s} [thorough: 0,1ns,1us,1ms,50ms,1s,1h] or cancel {before the call, in the quiescence step in which the call blocked, 500ms later [thorough: +1ns,+500ms,+1h]}) x {fail-fast, wait-for-ready where it matters}; "+
		"server cases = raw HTTP/2 client sending grpc-timeout in {none,1n,1m,1S,1000m,...} x RST_STREAM(CANCEL) {never, at once, +500ms} x handler {returns on ctx.Done, ignores ctx}; "+
		"gap cases = {Invoke, NewStream with StreamDesc none/client-streaming/server-streaming/bidi} x application position {after NewStream, after SendMsg (normal / zero window), after CloseSend, in Header, after Header, in RecvMsg, in SendMsg on flow control, in Invoke (no headers / headers / zero window)} x event {ctx cancel, deadline 1s, ClientConn.Close}; "+
		"boundary cases = deadline 1s never cancelled by the application x blocked {in RecvMsg after response headers, on a zero flow-control window} x {Invoke, streaming} x raw server RST_STREAM(CANCEL) at d+{-1ms,-1ns,0,+1ns,+1ms} x ctx.Done() closing {0,1ns,1ms} after ctx.Deadline(); "+
		"a case is non-trivial when the call was observed durably blocked at the intended point (op name + wire evidence) before the deadline/cancel (distinct by case)")
	r.Assume(P, "testing/synctest virtual clock and quiescence detection; zero network latency (in-memory pipe), so 'remaining time at send' is exact; raw peers use an independent x/net/http2 framer; grpc-timeout decoded by an independent regexp decoder")
	r.Assume(P, "bounded time is checked as equality: DEADLINE_EXCEEDED exactly at start+d, CANCELLED within the quiescence step of the cancel; the server-side wire close at the deadline (RST_STREAM or trailers) is read from the statement's 'deadline ... propagates to both ends'")

	if r.ReplayFile() != "" {
		var raw map[string]json.RawMessage
		if err := r.LoadReplay(&raw); err != nil {
			r.EngineError("replay: %v", err)
			return
		}
		if _, ok := raw["gap_desc"]; ok {
			var c c22GapCase
			r.LoadReplay(&c)
			c22Evaluate(r, c.String(), c, c22GapRun(r.T, c))
		} else if _, ok := raw["rst_point"]; ok {
			var c c22RstCase
			r.LoadReplay(&c)
			c22Evaluate(r, c.String(), c, c22RstRun(r.T, c))
		} else if _, ok := raw["point"]; ok {
			var c c22Case
			r.LoadReplay(&c)
			c22Evaluate(r, c.String(), c, c22Run(r.T, c))
		} else {
			var c c22SrvCase
			r.LoadReplay(&c)
			c22Evaluate(r, c.String(), c, c22SrvRun(r.T, c))
		}
		return
	}
	c22StartWatchdog(r)
	cases := c22Cases(r.Thorough())
	scases := c22SrvCases(r.Thorough())
	if sh, _ := r.Shard(); sh == 0 {
		r.Set(P, "client_cases_total", len(cases))
		r.Set(P, "server_cases_total", len(scases))
		r.Set(P, "rst_at_deadline_cases_total", len(c22RstCases(r.Thorough())))
		r.Set(P, "gap_cases_total", len(c22GapCases()))
	}
	i := 0
	for _, c := range cases {
		i++
		if !r.Mine(i) {
			continue
		}
		if r.OverBudget() {
			r.Cap(P, "time budget")
			return
		}
		c22WatchCase(c.String(), c)
		c22Evaluate(r, c.String(), c, c22Run(r.T, c))
	}
	for _, c := range scases {
		i++
		if !r.Mine(i) {
			continue
		}
		if r.OverBudget() {
			r.Cap(P, "time budget")
			return
		}
		c22WatchCase(c.String(), c)
		c22Evaluate(r, c.String(), c, c22SrvRun(r.T, c))
	}
	for _, c := range c22GapCases() {
		i++
		if !r.Mine(i) {
			continue
		}
		if r.OverBudget() {
			r.Cap(P, "time budget")
			return
		}
		c22WatchCase(c.String(), c)
		c22Evaluate(r, c.String(), c, c22GapRun(r.T, c))
	}
	for _, c := range c22RstCases(r.Thorough()) {
		i++
		if !r.Mine(i) {
			continue
		}
		if r.OverBudget() {
			r.Cap(P, "time budget")
			return
		}
		c22WatchCase(c.String(), c)
		c22Evaluate(r, c.String(), c, c22RstRun(r.T, c))
	}
	c22WatchCase("", nil)
}

func c22Evaluate(r *vk.Run, name string, c any, res c22Result) {
	const P = "C22"
	r.Eval(P, 1)
	for _, f := range res.Fails {
		r.Violation(P, f.Class+": "+name, f.Desc+" | trace: "+res.Trace, c)
	}
	if res.Engine != "" {
		if len(res.Fails) == 0 {
			r.EngineError("%s: %s", name, res.Engine)
		}
		return
	}
	if res.Nontrivial {
		r.Nontrivial(P, name)
	}
	r.Outcome(P, res.Outcome)
	switch name {
	case "gap/none/after-SendMsg/cancel", "gap/bidi/after-CloseSend/deadline", "rst-at-deadline/recv/unary/rst=d+0s/done=d+1ns", "rst-at-deadline/flowctl/stream/rst=d-1ns/done=d+1ms":
		r.Sample(P, map[string]any{"case": c, "name": name, "outcome": res.Outcome, "trace": res.Trace})
	case "backoff/unary/ff/cancel:+500ms", "backoff-pushback/stream/ff/dl:1s", "quota1>recv/unary/ff/dl:1s", "handler/stream/ff/cancel:+500ms", "flowctl/stream/ff/dl:1ms", "nonready/unary/wfr/cancel:at",
		`rawclient/timeout="1S"/rst=none/stubborn`, `rawclient/timeout="1000m"/rst=+500ms/ctxwait`:
		r.Sample(P, map[string]any{"case": c, "name": name, "outcome": res.Outcome, "trace": res.Trace})
	}
}

// c22Watch turns a history that cannot reach quiescence (a goroutine parked on
// a non-durable primitive such as a mutex held across a wait, or a zero-time
// livelock) into a verdict instead of a worker killed by the driver's timeout:
// a goroutine OUTSIDE the bubbles (real clock) watches the current case.
type c22WatchState struct {
	mu    sync.Mutex
	name  string
	c     any
	since time.Time
}

var c22Watched c22WatchState

const c22HangLimit = 150 * time.Second // real time; a history normally takes milliseconds

func c22WatchCase(name string, c any) {
	c22Watched.mu.Lock()
	c22Watched.name, c22Watched.c, c22Watched.since = name, c, time.Now()
	c22Watched.mu.Unlock()
}

func c22StartWatchdog(r *vk.Run) {
	go func() {
		for {
			time.Sleep(time.Second)
			c22Watched.mu.Lock()
			name, c, since := c22Watched.name, c22Watched.c, c22Watched.since
			c22Watched.mu.Unlock()
			if name != "" && time.Since(since) > c22HangLimit {
				r.Violation("C22", "hang: "+name, fmt.Sprintf("the history did not reach quiescence within %v of real time: some goroutine is neither runnable-to-completion nor durably blocked (e.g. parked on a mutex that is held across a timer wait), so virtual time cannot advance and the call never ends", c22HangLimit), c)
				os.Exit(3)
			}
		}
	}()
}
