//go:build verif

// Package h_c26 hosts the E4/E3 harness of property C26 (requests are
// dispatched only to the registered method): a scripted raw HTTP/2 client
// sends every `:path` of a bounded grammar to real grpc.Servers with small
// service registries inside synctest bubbles; recording handlers and the wire
// status are compared with a reference dispatch function.
package h_c26
