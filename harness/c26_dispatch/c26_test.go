//go:build verif

package h_c26

// C26 — requests are dispatched only to the registered method.
//
// Engine E3/E4: EVERY `:path` string over the alphabet {"/", "a", "b", "é"} of
// at most N symbols (N=6 quick, 7 thorough; plus the empty path) is sent by a scripted raw HTTP/2
// client (wire.NewClientPeer) to a real grpc.Server (Serve on an in-memory
// listener inside a synctest bubble) for every registry of c26Registries, with
// and without an UnknownServiceHandler. Every registered method and the
// unknown-service handler are recording handlers which additionally answer
// with their own identity, so "which handler ran" is observed twice: in the
// server-side ledger and in the bytes on the wire.
//
// Oracle (reference dispatch, written from the statement and the gRPC HTTP/2
// protocol document "Path -> "/" Service-Name "/" {method name}", where the
// method name is the text after the LAST slash because service names may
// themselves contain slashes, but method names may not):
//
//   malformed   <=> the path does not match  ^/.*/[^/]*$  i.e. it has no
//                   leading "/" or no second "/" after the leading one
//                   ("", "a", "/", "/a", "a/b", "ab/", ...). Expected: no
//                   handler of any kind runs (the status is only recorded).
//   well-formed  => service = text between the leading "/" and the last "/",
//                   method = text after the last "/" (either may be empty).
//                   (service, method) registered      => exactly that handler
//                                                        runs, exactly once,
//                                                        and its reply and an
//                                                        OK status reach the
//                                                        client;
//                   otherwise, unknown handler set    => exactly the unknown
//                                                        handler runs, once;
//                   otherwise                         => no handler runs and
//                                                        the client gets
//                                                        grpc-status 12
//                                                        (UNIMPLEMENTED).

import (
	"context"
	"fmt"
	"regexp"
	"sort"
	"strings"
	"sync"
	"testing"
	"testing/synctest"

	"google.golang.org/grpc"
	"google.golang.org/grpc/internal/verif/vk"
	"google.golang.org/grpc/internal/verif/wire"
	"google.golang.org/grpc/mem"
	"google.golang.org/grpc/metadata"
)

// ---------------------------------------------------------------- codec

type c26Codec struct{}

func (c26Codec) Name() string { return "verif-raw" }
func (c26Codec) Marshal(v any) (mem.BufferSlice, error) {
	switch b := v.(type) {
	case []byte:
		return mem.BufferSlice{mem.SliceBuffer(b)}, nil
	case *[]byte:
		return mem.BufferSlice{mem.SliceBuffer(*b)}, nil
	}
	return nil, fmt.Errorf("c26Codec: unsupported %T", v)
}
func (c26Codec) Unmarshal(data mem.BufferSlice, v any) error {
	p, ok := v.(*[]byte)
	if !ok {
		return fmt.Errorf("c26Codec: unsupported %T", v)
	}
	*p = data.Materialize()
	return nil
}

// ---------------------------------------------------------------- registries

type c26Method struct {
	Service, Method string
	Stream          bool // registered as a streaming method (StreamDesc) instead of a unary one
}

func (m c26Method) id() string { return "H<" + m.Service + "|" + m.Method + ">" }

type c26Registry struct {
	Name    string
	Methods []c26Method
}

// The first three registries are the ones of the design entry, with the method
// names "c" and "m" of the design renamed to symbols of the path alphabet
// ("a/b":c -> "a/b":a, "":m -> "":b) -- otherwise those handlers could not be
// reached by any enumerated path and the nested-service case would be vacuous.
// The fourth adds
// the adversarial neighbours of the last-slash rule: a method whose name
// contains a slash (unreachable by the reference dispatch), a service whose
// name starts with a slash and the empty service with the empty method.
var c26Registries = []c26Registry{
	{Name: "R1{a:b}", Methods: []c26Method{{"a", "b", false}}},
	{Name: "R2{a:b,a/b:a}", Methods: []c26Method{{"a", "b", false}, {"a/b", "a", true}}},
	{Name: "R3{'':b}", Methods: []c26Method{{"", "b", false}}},
	{Name: "R4{a:b/a,a/b:a,/a:b,'':''}", Methods: []c26Method{{"a", "b/a", false}, {"a/b", "a", false}, {"/a", "b", true}, {"", "", false}}},
}

const c26UnknownID = "U<unknown-service-handler>"

// ---------------------------------------------------------------- reference

var c26WellFormedRE = regexp.MustCompile(`(?s)^/(.*)/([^/]*)$`)

// c26Expect is the reference dispatch. kind is one of "malformed",
// "unimplemented", "unknown", "handler"; id is the handler expected to run.
func c26Expect(reg c26Registry, unknown bool, path string) (kind, id string) {
	m := c26WellFormedRE.FindStringSubmatch(path)
	if m == nil {
		return "malformed", ""
	}
	for _, rm := range reg.Methods {
		if rm.Service == m[1] && rm.Method == m[2] {
			return "handler", rm.id()
		}
	}
	if unknown {
		return "unknown", c26UnknownID
	}
	return "unimplemented", ""
}

// ---------------------------------------------------------------- ledger

type c26Call struct {
	ID         string
	FullMethod string
	Case       string // value of the request's x-case header: which request this run belongs to
}

type c26Ledger struct {
	mu    sync.Mutex
	calls []c26Call
}

func (l *c26Ledger) add(id string, ctx context.Context) {
	fm, _ := grpc.Method(ctx)
	tag := "?"
	if md, ok := metadata.FromIncomingContext(ctx); ok && len(md.Get("x-case")) == 1 {
		tag = md.Get("x-case")[0]
	}
	l.mu.Lock()
	l.calls = append(l.calls, c26Call{ID: id, FullMethod: fm, Case: tag})
	l.mu.Unlock()
}

func (l *c26Ledger) take() []c26Call {
	l.mu.Lock()
	defer l.mu.Unlock()
	c := l.calls
	l.calls = nil
	return c
}

// c26NewServer builds the real server for one configuration.
func c26NewServer(reg c26Registry, unknown bool, led *c26Ledger) *grpc.Server {
	opts := []grpc.ServerOption{grpc.ForceServerCodecV2(c26Codec{})}
	if unknown {
		opts = append(opts, grpc.UnknownServiceHandler(func(_ any, ss grpc.ServerStream) error {
			led.add(c26UnknownID, ss.Context())
			var in []byte
			if err := ss.RecvMsg(&in); err != nil {
				return err
			}
			return ss.SendMsg([]byte(c26UnknownID))
		}))
	}
	srv := grpc.NewServer(opts...)
	bySvc := map[string][]c26Method{}
	var names []string
	for _, m := range reg.Methods {
		if _, ok := bySvc[m.Service]; !ok {
			names = append(names, m.Service)
		}
		bySvc[m.Service] = append(bySvc[m.Service], m)
	}
	sort.Strings(names)
	for _, svc := range names {
		sd := &grpc.ServiceDesc{ServiceName: svc, HandlerType: (*any)(nil)}
		for _, m := range bySvc[svc] {
			id := m.id()
			if m.Stream {
				sd.Streams = append(sd.Streams, grpc.StreamDesc{StreamName: m.Method, ClientStreams: true, ServerStreams: true,
					Handler: func(_ any, ss grpc.ServerStream) error {
						led.add(id, ss.Context())
						var in []byte
						if err := ss.RecvMsg(&in); err != nil {
							return err
						}
						return ss.SendMsg([]byte(id))
					}})
			} else {
				sd.Methods = append(sd.Methods, grpc.MethodDesc{MethodName: m.Method,
					Handler: func(_ any, ctx context.Context, dec func(any) error, _ grpc.UnaryServerInterceptor) (any, error) {
						led.add(id, ctx)
						var in []byte
						if err := dec(&in); err != nil {
							return nil, err
						}
						return []byte(id), nil
					}})
			}
		}
		srv.RegisterService(sd, nil)
	}
	return srv
}

// ---------------------------------------------------------------- observation

type c26Obs struct {
	Calls      []c26Call
	Status     string // grpc-status of the trailers, "" if none
	RST        bool
	Ended      bool   // END_STREAM or RST seen
	Reply      string // payload of the first gRPC message in the response DATA
	HTTPStatus string
}

func (o c26Obs) class() string {
	ids := make([]string, 0, len(o.Calls))
	for _, c := range o.Calls {
		ids = append(ids, c.ID)
	}
	st := o.Status
	if o.RST {
		// RST_STREAM after trailers-only: the server finished the stream before
		// the client's END_STREAM was processed (benign ordering difference).
		st += "+RST"
	}
	if !o.Ended {
		st += "(open)"
	}
	return fmt.Sprintf("ran=[%s] status=%s", strings.Join(ids, ","), st)
}

// c26Group sends len(paths) requests on consecutive streams of the open
// connection (each tagged with an x-case header so that handler runs are
// attributed to their request independently of the path), runs to quiescence
// once and returns one observation per request. stray holds handler runs that
// belong to no request of the group.
func c26Group(peer *wire.Peer, led *c26Ledger, firstSID uint32, paths []string) (obs []c26Obs, stray []c26Call) {
	led.take()
	from := len(peer.Log())
	for i, path := range paths {
		sid := firstSID + uint32(2*i)
		peer.WriteHeaders(sid, [][2]string{
			{":method", "POST"}, {":scheme", "http"}, {":path", path}, {":authority", "verif"},
			{"content-type", "application/grpc"}, {"te", "trailers"}, {"x-case", fmt.Sprint(sid)},
		}, false)
		peer.WriteData(sid, true, wire.GrpcMsg(false, []byte("q")))
	}
	synctest.Wait()
	obs = make([]c26Obs, len(paths))
	data := make([][]byte, len(paths))
	for _, f := range peer.Log()[from:] {
		if f.Stream < firstSID || (f.Stream-firstSID)%2 != 0 || int((f.Stream-firstSID)/2) >= len(paths) {
			continue
		}
		i := int((f.Stream - firstSID) / 2)
		o := &obs[i]
		switch f.Type {
		case "HEADERS":
			if v, ok := wire.Field(f.Fields, ":status"); ok {
				o.HTTPStatus = v
			}
			if v, ok := wire.Field(f.Fields, "grpc-status"); ok {
				o.Status = v
			}
			if f.EndStream {
				o.Ended = true
			}
		case "DATA":
			data[i] = append(data[i], f.Data...)
			if f.EndStream {
				o.Ended = true
			}
		case "RST_STREAM":
			o.RST, o.Ended = true, true
		}
	}
	for i, d := range data {
		if len(d) >= 5 {
			n := int(d[1])<<24 | int(d[2])<<16 | int(d[3])<<8 | int(d[4])
			if 5+n <= len(d) {
				obs[i].Reply = string(d[5 : 5+n])
			}
		}
	}
	for _, c := range led.take() {
		var sid uint32
		if _, err := fmt.Sscanf(c.Case, "%d", &sid); err != nil || sid < firstSID || (sid-firstSID)%2 != 0 || int((sid-firstSID)/2) >= len(paths) {
			stray = append(stray, c)
			continue
		}
		i := int((sid - firstSID) / 2)
		obs[i].Calls = append(obs[i].Calls, c)
	}
	return obs, stray
}

// c26Check compares one observation with the reference; returns "" or a
// violation class + description.
func c26Check(kind, id string, o c26Obs) (class, desc string) {
	switch kind {
	case "malformed":
		if len(o.Calls) != 0 {
			return "malformed-path-reached-handler", fmt.Sprintf("malformed path reached handler(s) %v", o.Calls)
		}
	case "unimplemented":
		if len(o.Calls) != 0 {
			return "unregistered-path-reached-handler", fmt.Sprintf("unregistered well-formed path reached handler(s) %v", o.Calls)
		}
		if o.Status != "12" {
			return "unregistered-path-not-unimplemented", fmt.Sprintf("unregistered well-formed path: grpc-status %q (rst=%v ended=%v), want 12 UNIMPLEMENTED", o.Status, o.RST, o.Ended)
		}
	case "unknown", "handler":
		if len(o.Calls) != 1 || o.Calls[0].ID != id {
			return kind + "-wrong-dispatch", fmt.Sprintf("want exactly one run of %s, handlers that ran: %v (status %q)", id, o.Calls, o.Status)
		}
		if o.Status != "0" || o.Reply != id {
			return kind + "-wrong-client-result", fmt.Sprintf("handler %s ran but the client saw grpc-status %q reply %q, want status 0 and the handler's reply", id, o.Status, o.Reply)
		}
	}
	return "", ""
}

// ---------------------------------------------------------------- enumeration

// c26GroupSize requests are in flight between two quiescence points.
const c26GroupSize = 16

var c26Alphabet = []string{"/", "a", "b", "é"}

// c26Paths returns every string of at most n alphabet symbols (shortest first,
// odometer order), including the empty one.
func c26Paths(n int) []string {
	out := []string{""}
	prev := []string{""}
	for l := 1; l <= n; l++ {
		var cur []string
		for _, p := range prev {
			for _, s := range c26Alphabet {
				cur = append(cur, p+s)
			}
		}
		out = append(out, cur...)
		prev = cur
	}
	return out
}

type c26Replay struct {
	Registry int    `json:"registry"`
	Unknown  bool   `json:"unknown"`
	Path     string `json:"path"`
}

// c26Batch runs the given paths against one fresh server + one fresh raw
// connection inside one bubble, c26GroupSize concurrent streams at a time, each
// group run to quiescence before the next starts.
func c26Batch(t *testing.T, r *vk.Run, regIdx int, unknown bool, paths []string, stats *c26Stats) {
	reg := c26Registries[regIdx]
	synctest.Test(t, func(t *testing.T) {
		led := &c26Ledger{}
		srv := c26NewServer(reg, unknown, led)
		lis := wire.NewListener()
		go srv.Serve(lis)
		conn, err := lis.Dial()
		if err != nil {
			r.EngineError("dial: %v", err)
			return
		}
		peer := wire.NewClientPeer(conn)
		peer.AutoAckSettings = true
		peer.AutoAckPing = true
		peer.WriteSettings()
		synctest.Wait()
		sid := uint32(1)
		for lo := 0; lo < len(paths); lo += c26GroupSize {
			grp := paths[lo:min(lo+c26GroupSize, len(paths))]
			obs, stray := c26Group(peer, led, sid, grp)
			if len(stray) != 0 {
				r.Violation("C26", fmt.Sprintf("unattributable-handler-run/%s/unknown=%v/first-path=%q", reg.Name, unknown, grp[0]),
					fmt.Sprintf("handler runs %v carry no x-case tag of the requests %q just sent", stray, grp), c26Replay{Registry: regIdx, Unknown: unknown, Path: grp[0]})
			}
			for i, p := range grp {
				kind, id := c26Expect(reg, unknown, p)
				o := obs[i]
				r.Eval("C26", 1)
				stats.note(r, reg, unknown, p, kind, id, o)
				if class, desc := c26Check(kind, id, o); class != "" {
					key := fmt.Sprintf("%s/%s/unknown=%v/path=%q", class, reg.Name, unknown, p)
					r.Violation("C26", key, fmt.Sprintf("registry %s unknown-handler=%v :path=%q expected %s %s; %s; observed %s; frames: %s",
						reg.Name, unknown, p, kind, id, desc, o.class(), c26Tail(peer, sid+uint32(2*i))),
						c26Replay{Registry: regIdx, Unknown: unknown, Path: p})
				}
			}
			sid += uint32(2 * len(grp))
			if peer.Closed() {
				r.EngineError("connection closed by the server after :path group starting %q (registry %s): %v", grp[0], reg.Name, peer.Err())
				break
			}
		}
		srv.Stop()
		peer.Close()
		synctest.Wait()
	})
}

func c26Tail(peer *wire.Peer, sid uint32) string {
	var sb strings.Builder
	for _, f := range peer.Log() {
		if f.Stream == sid {
			sb.WriteString(f.String())
			if f.Type == "HEADERS" {
				fmt.Fprintf(&sb, "%v", f.Fields)
			}
			sb.WriteByte(' ')
		}
	}
	return sb.String()
}

type c26Stats struct {
	sampled map[string]bool
}

func (s *c26Stats) note(r *vk.Run, reg c26Registry, unknown bool, p, kind, id string, o c26Obs) {
	r.Outcome("C26", kind+": "+o.class())
	r.AddInt("C26", "expected_"+kind, 1)
	// non-trivial: the path is well-formed (it exercises the service/method
	// split) or it contains a slash at all (it exercises the malformed test
	// beyond "no slash anywhere").
	if kind != "malformed" || strings.Contains(p, "/") {
		r.NontrivialN("C26", 1)
	}
	if kind == "handler" || kind == "unknown" {
		if strings.Count(p, "/") > 2 {
			r.AddInt("C26", "dispatched_paths_with_more_than_two_slashes", 1)
		}
	}
	if !s.sampled[kind] && (kind != "handler" || strings.Count(p, "/") > 2) {
		s.sampled[kind] = true
		r.Sample("C26", map[string]any{"registry": reg.Name, "unknown_handler": unknown, "path": p, "expected": kind + " " + id, "observed": o.class(), "reply": o.Reply})
	}
}

func TestVerif_C26_Dispatch(t *testing.T) {
	r := vk.Start(t, "c26_dispatch", "exploration", "C26")
	defer r.Finish()
	maxLen := r.Pick(6, 7)
	const batch = 96
	r.Rule("C26", fmt.Sprintf("every :path string of <= %d symbols over {\"/\",\"a\",\"b\",\"é\"} (plus the empty path) x %d registries x {no unknown-service handler, unknown-service handler}; each case is one real RPC sent by a raw HTTP/2 client to a real grpc.Server, run to quiescence; a case is non-trivial if the path is well-formed or contains at least one slash (it then exercises the prefix test or the service/method split)", maxLen, len(c26Registries)))
	r.Assume("C26", "malformed <=> the path does not match ^/.*/[^/]*$ (no leading slash, or no second slash); service = text between the leading and the LAST slash; for a malformed path only 'no handler runs' is demanded (the status is recorded, not judged)")
	r.Assume("C26", "trusted: testing/synctest quiescence (a handler that has not run at quiescence never runs), x/net/http2 framer + hpack of the raw client, the raw-byte server codec installed with ForceServerCodecV2")
	r.Set("C26", "max_path_symbols", maxLen)

	if r.ReplayFile() != "" {
		var rp c26Replay
		if err := r.LoadReplay(&rp); err != nil {
			r.EngineError("replay: %v", err)
			return
		}
		c26Batch(t, r, rp.Registry, rp.Unknown, []string{rp.Path}, &c26Stats{sampled: map[string]bool{}})
		return
	}

	paths := c26Paths(maxLen)
	r.Set("C26", "max_paths_per_configuration", len(paths))
	stats := &c26Stats{sampled: map[string]bool{}}
	item := 0
	done := false
	for ri := range c26Registries {
		for _, unknown := range []bool{false, true} {
			for lo := 0; lo < len(paths); lo += batch {
				hi := min(lo+batch, len(paths))
				mine := r.Mine(item)
				item++
				if !mine || done {
					continue
				}
				if r.OverBudget() {
					r.Cap("C26", "time budget reached before all batches ran")
					done = true
					continue
				}
				c26Batch(t, r, ri, unknown, paths[lo:hi], stats)
			}
		}
	}
}
