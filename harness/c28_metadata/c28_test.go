//go:build verif

package metadata

import (
	"context"
	"fmt"
	"runtime/debug"
	"sort"
	"strconv"
	"strings"
	"testing"
	"unsafe"

	"google.golang.org/grpc/internal/verif/seqx"
	"google.golang.org/grpc/internal/verif/vk"
)

// ---- C28: the metadata API behaves as a case-insensitive ordered multimap ----
//
// E2 (seqx BFS over operation sequences on fresh real MDs / contexts).
// The oracle is c28Ref: a deliberately boring ordered multimap — a flat list
// of (lower-cased key, value) pairs — written from the property statement.

// ---------------------------------------------------------------- oracle ----

type c28Pair struct{ k, v string }

// c28Ref is the reference ordered multimap. nil means "no metadata".
type c28Ref struct{ pairs []c28Pair }

func c28Lower(s string) string {
	b := []byte(s)
	for i, c := range b {
		if c >= 'A' && c <= 'Z' {
			b[i] = c + ('a' - 'A')
		}
	}
	return string(b)
}

func c28RefKV(kv ...string) *c28Ref {
	r := &c28Ref{}
	for i := 0; i+1 < len(kv); i += 2 {
		r.add(kv[i], kv[i+1])
	}
	return r
}

func (r *c28Ref) clone() *c28Ref {
	if r == nil {
		return nil
	}
	return &c28Ref{pairs: append([]c28Pair(nil), r.pairs...)}
}

func (r *c28Ref) size() int {
	if r == nil {
		return 0
	}
	return len(r.pairs)
}

func (r *c28Ref) get(k string) []string {
	if r == nil {
		return nil
	}
	k = c28Lower(k)
	var out []string
	for _, p := range r.pairs {
		if p.k == k {
			out = append(out, p.v)
		}
	}
	return out
}

func (r *c28Ref) add(k string, vals ...string) {
	k = c28Lower(k)
	for _, v := range vals {
		r.pairs = append(r.pairs, c28Pair{k, v})
	}
}

func (r *c28Ref) del(k string) {
	k = c28Lower(k)
	var keep []c28Pair
	for _, p := range r.pairs {
		if p.k != k {
			keep = append(keep, p)
		}
	}
	r.pairs = keep
}

func (r *c28Ref) set(k string, vals ...string) { r.del(k); r.add(k, vals...) }

func (r *c28Ref) keys() []string {
	seen := map[string]bool{}
	var ks []string
	if r == nil {
		return nil
	}
	for _, p := range r.pairs {
		if !seen[p.k] {
			seen[p.k] = true
			ks = append(ks, p.k)
		}
	}
	sort.Strings(ks)
	return ks
}

// canon is the multimap view: sorted keys, each with its values in order.
func (r *c28Ref) canon() string {
	if r == nil {
		return "<none>"
	}
	var sb strings.Builder
	sb.Grow(96)
	for _, k := range r.keys() {
		c28WriteKV(&sb, k, r.get(k), -1)
	}
	return sb.String()
}

// c28WriteKV writes k=[v1,v2]; (and /cap when c>=0). Values never contain
// the separators (they are "1", "2" or scribble marks).
func c28WriteKV(sb *strings.Builder, k string, vals []string, c int) {
	sb.WriteString(k)
	sb.WriteString("=[")
	for i, v := range vals {
		if i > 0 {
			sb.WriteByte(',')
		}
		sb.WriteString(v)
	}
	sb.WriteByte(']')
	if c >= 0 {
		sb.WriteByte('/')
		sb.WriteString(strconv.Itoa(c))
	}
	sb.WriteByte(';')
}

func c28RefJoin(rs ...*c28Ref) *c28Ref {
	out := &c28Ref{}
	for _, r := range rs {
		out.pairs = append(out.pairs, r.pairs...)
	}
	return out
}

// ---------------------------------------------- reading the real objects ----

// c28Canon renders a real MD the same way as c28Ref.canon (keys as stored).
func c28Canon(md MD, present bool) string {
	if !present {
		return "<none>"
	}
	ks := make([]string, 0, len(md))
	for k := range md {
		ks = append(ks, k)
	}
	sort.Strings(ks)
	var sb strings.Builder
	sb.Grow(96)
	for _, k := range ks {
		c28WriteKV(&sb, k, md[k], -1)
	}
	return sb.String()
}

// c28CanonCap additionally shows the capacity of every value slice (spare
// capacity is where append-aliasing lives, so it is part of the state key).
func c28CanonCap(md MD) string {
	if md == nil {
		return "<nil>"
	}
	ks := make([]string, 0, len(md))
	for k := range md {
		ks = append(ks, k)
	}
	sort.Strings(ks)
	var sb strings.Builder
	sb.Grow(96)
	for _, k := range ks {
		c28WriteKV(&sb, k, md[k], cap(md[k]))
	}
	return sb.String()
}

func c28SameStrings(a, b []string) bool {
	if len(a) != len(b) {
		return false
	}
	for i := range a {
		if a[i] != b[i] {
			return false
		}
	}
	return true
}

// c28RawCanon is the private state of a context: rawMD{md, added} and the
// incoming MD, exactly as stored.
func c28RawCanon(ctx context.Context) string {
	var sb strings.Builder
	sb.Grow(96)
	if raw, ok := ctx.Value(mdOutgoingKey{}).(rawMD); ok {
		sb.WriteString("out{md:")
		sb.WriteString(c28CanonCap(raw.md))
		sb.WriteString(" added:")
		for _, kv := range raw.added {
			sb.WriteByte('(')
			sb.WriteString(strings.Join(kv, ","))
			sb.WriteByte(')')
		}
		sb.WriteString(" " + strconv.Itoa(len(raw.added)) + "/" + strconv.Itoa(cap(raw.added)) + "}")
	} else {
		sb.WriteString("out{-}")
	}
	if in, ok := ctx.Value(mdIncomingKey{}).(MD); ok {
		sb.WriteString(" in{" + c28CanonCap(in) + "}")
	} else {
		sb.WriteString(" in{-}")
	}
	return sb.String()
}

// Scribbling: what a caller is allowed to do with something it was told is
// its own copy.
func c28ScribbleVals(v []string) {
	w := v[:cap(v)]
	for i := range w {
		w[i] = "!"
	}
}

func c28ScribbleMD(md MD) {
	for k, v := range md {
		c28ScribbleVals(v)
		md[k] = append(v, "!!")
	}
	for k := range md {
		delete(md, k)
	}
	if md != nil {
		md["zz"] = []string{"!"}
	}
}

// c28CloneMD is the harness's own deep copy (deliberately not MD.Copy). It
// preserves the CAPACITY of every value slice: an MD grown with Append/Pairs
// has spare capacity (3 values: len 3, cap 4), and code that append()s onto a
// stored slice only aliases it when there is room, so the contexts must see
// the same len/cap a real caller would hand over.
func c28CloneMD(md MD) MD {
	out := make(MD, len(md))
	for k, v := range md {
		c := make([]string, len(v), cap(v))
		copy(c, v)
		out[k] = c
	}
	return out
}

// ------------------------------------------------------------- the world ----

type c28CtxRec struct {
	ctx     context.Context
	out, in *c28Ref
}

type c28World struct {
	m, n     MD // caller-owned MD registers
	rm, rn   *c28Ref
	cur, sav *c28CtxRec
	maxPairs int
	fails    []seqx.Fail
}

func (w *c28World) fail(class, format string, a ...any) {
	if len(w.fails) > 0 {
		return // only the FIRST divergence of a history is reported: later ones are consequences
	}
	w.fails = append(w.fails, seqx.Fail{Prop: "C28", Key: class, Desc: fmt.Sprintf(format, a...)})
}

var c28Queries = []string{"k", "K", "x", "X", "q"}

// obsMD checks one caller-owned MD against its reference.
func (w *c28World) obsMD(name string, md MD, ref *c28Ref) {
	if md == nil {
		return
	}
	if got, want := c28Canon(md, true), ref.canon(); got != want {
		w.fail("md-state", "%s holds %s, reference multimap %s", name, got, want)
	}
	if got, want := md.Len(), len(ref.keys()); got != want {
		w.fail("md-len", "%s.Len()=%d, reference has %d keys", name, got, want)
	}
	for _, q := range c28Queries {
		if got, want := md.Get(q), ref.get(q); !c28SameStrings(got, want) {
			w.fail("md-get", "%s.Get(%q)=%q, reference %q", name, q, got, want)
		}
	}
	c := md.Copy()
	if got, want := c28Canon(c, true), ref.canon(); got != want {
		w.fail("md-copy", "%s.Copy()=%s, reference %s", name, got, want)
	}
	c28ScribbleMD(c)
	if got, want := c28Canon(md, true), ref.canon(); got != want {
		w.fail("alias-copy", "after mutating %s.Copy() the original reads %s, reference %s", name, got, want)
	}
}

// obsCtx checks every read API on one context against the reference, then
// mutates everything that was returned and reads again.
func (w *c28World) obsCtx(name string, c *c28CtxRec) {
	if c == nil {
		return
	}
	before := c28RawCanon(c.ctx)
	// what the reference says (computed once per observation)
	wantOut, wantIn := c.out.canon(), c.in.canon()
	wantOutV, wantInV := make([][]string, len(c28Queries)), make([][]string, len(c28Queries))
	for i, q := range c28Queries {
		wantOutV[i], wantInV[i] = c.out.get(q), c.in.get(q)
	}
	// ---- outgoing ----
	readOut := func(class, when string) MD {
		md, ok := FromOutgoingContext(c.ctx)
		if ok != (c.out != nil) {
			w.fail(class, "%s %s: FromOutgoingContext ok=%v, reference has outgoing metadata=%v", name, when, ok, c.out != nil)
		}
		if got, want := c28Canon(md, ok), wantOut; got != want {
			w.fail(class, "%s %s: FromOutgoingContext=%s, reference multimap %s", name, when, got, want)
		}
		return md
	}
	valsOut := func(class, classFull, when string, full MD) [][]string {
		var res [][]string
		for qi, q := range c28Queries {
			v := ValueFromOutgoingContext(c.ctx, q)
			if want := wantOutV[qi]; !c28SameStrings(v, want) {
				w.fail(class, "%s %s: ValueFromOutgoingContext(%q)=%q, reference %q", name, when, q, v, want)
			}
			if full != nil {
				if fv := full.Get(q); !c28SameStrings(v, fv) {
					w.fail(classFull, "%s %s: ValueFromOutgoingContext(%q)=%q but FromOutgoingContext().Get=%q", name, when, q, v, fv)
				}
			}
			res = append(res, v)
		}
		return res
	}
	md := readOut("from-out", "")
	vs := valsOut("value-out", "value-out-vs-full", "", md)
	if rmd, added, ok := fromOutgoingContextRaw(c.ctx); ok || c.out != nil {
		// the raw form must merge (lower-casing keys) to the same multimap
		flat := &c28Ref{}
		ks := make([]string, 0, len(rmd))
		for k := range rmd {
			ks = append(ks, k)
		}
		sort.Strings(ks)
		for _, k := range ks {
			flat.add(k, rmd[k]...)
		}
		for _, kv := range added {
			for i := 0; i+1 < len(kv); i += 2 {
				flat.add(kv[i], kv[i+1])
			}
		}
		if !ok {
			flat = nil
		}
		if got, want := flat.canon(), wantOut; got != want {
			w.fail("raw-merge", "%s: fromOutgoingContextRaw merges to %s, reference %s", name, got, want)
		}
	}
	c28ScribbleMD(md)
	md2 := readOut("alias-from-out", "after mutating the MD FromOutgoingContext returned")
	for _, v := range vs {
		c28ScribbleVals(v)
	}
	readOut("alias-value-out", "after mutating the slices ValueFromOutgoingContext returned")
	c28ScribbleMD(md2)
	valsOut("alias-value-out", "alias-value-out", "after mutating returned values", nil)

	// ---- incoming ----
	readIn := func(class, when string) MD {
		md, ok := FromIncomingContext(c.ctx)
		if ok != (c.in != nil) {
			w.fail(class, "%s %s: FromIncomingContext ok=%v, reference has incoming metadata=%v", name, when, ok, c.in != nil)
		}
		if got, want := c28Canon(md, ok), wantIn; got != want {
			w.fail(class, "%s %s: FromIncomingContext=%s, reference multimap %s", name, when, got, want)
		}
		return md
	}
	valsIn := func(class, classFull, when string, full MD) [][]string {
		var res [][]string
		for qi, q := range c28Queries {
			v := ValueFromIncomingContext(c.ctx, q)
			if want := wantInV[qi]; !c28SameStrings(v, want) {
				w.fail(class, "%s %s: ValueFromIncomingContext(%q)=%q, reference %q", name, when, q, v, want)
			}
			if full != nil {
				if fv := full.Get(q); !c28SameStrings(v, fv) {
					w.fail(classFull, "%s %s: ValueFromIncomingContext(%q)=%q but FromIncomingContext().Get=%q", name, when, q, v, fv)
				}
			}
			res = append(res, v)
		}
		return res
	}
	imd := readIn("from-in", "")
	ivs := valsIn("value-in", "value-in-vs-full", "", imd)
	c28ScribbleMD(imd)
	readIn("alias-from-in", "after mutating the MD FromIncomingContext returned")
	for _, v := range ivs {
		c28ScribbleVals(v)
	}
	readIn("alias-value-in", "after mutating the slices ValueFromIncomingContext returned")
	valsIn("alias-value-in", "alias-value-in", "after mutating returned values", nil)

	if after := c28RawCanon(c.ctx); after != before {
		w.fail("alias-stored", "%s: the metadata stored in the context changed while only reading and mutating returned copies: %s -> %s", name, before, after)
	}
}

// obsSiblings: results handed out for one context must not change when
// another context derived from the same parent is looked up afterwards (no
// caller mutation involved).
func (w *c28World) obsSiblings() {
	if w.cur == nil || w.sav == nil || w.sav == w.cur {
		return
	}
	type res struct {
		q    string
		v    []string
		want []string
	}
	var first []res
	for _, q := range c28Queries {
		first = append(first, res{q, ValueFromOutgoingContext(w.cur.ctx, q), w.cur.out.get(q)})
	}
	fo, _ := FromOutgoingContext(w.cur.ctx)
	for _, q := range c28Queries {
		ValueFromOutgoingContext(w.sav.ctx, q)
		ValueFromIncomingContext(w.sav.ctx, q)
	}
	FromOutgoingContext(w.sav.ctx)
	for _, r := range first {
		if !c28SameStrings(r.v, r.want) {
			w.fail("value-out-sibling-overwrite", "the slice ValueFromOutgoingContext(ctx,%q) returned reads %q after the same lookups on saved-ctx (a sibling context), reference %q", r.q, r.v, r.want)
		}
	}
	if w.cur.out != nil {
		if got, want := c28Canon(fo, true), w.cur.out.canon(); got != want {
			w.fail("from-out-sibling-overwrite", "the MD FromOutgoingContext(ctx) returned reads %s after reading saved-ctx (a sibling context), reference %s", got, want)
		}
	}
}

func (w *c28World) observe() {
	w.obsSiblings()
	w.obsMD("m", w.m, w.rm)
	w.obsMD("n", w.n, w.rn)
	w.obsCtx("ctx", w.cur)
	if w.sav != nil && w.sav != w.cur {
		w.obsCtx("saved-ctx", w.sav)
	}
}

func (w *c28World) key() string {
	var sb strings.Builder
	sb.Grow(96)
	fmt.Fprintf(&sb, "m[%s|%s] n[%s|%s]", c28CanonCap(w.m), w.rm.canon(), c28CanonCap(w.n), w.rn.canon())
	for _, c := range []*c28CtxRec{w.cur, w.sav} {
		if c == nil {
			sb.WriteString(" ctx[-]")
			continue
		}
		fmt.Fprintf(&sb, " ctx[%s|%s|%s]", c28RawCanon(c.ctx), c.out.canon(), c.in.canon())
	}
	if w.cur != nil && w.sav != nil {
		// structural sharing between the two contexts' private slices
		a, _ := w.cur.ctx.Value(mdOutgoingKey{}).(rawMD)
		b, _ := w.sav.ctx.Value(mdOutgoingKey{}).(rawMD)
		share := w.cur == w.sav
		if !share && cap(a.added) > 0 && cap(b.added) > 0 {
			share = unsafe.Pointer(unsafe.SliceData(a.added)) == unsafe.Pointer(unsafe.SliceData(b.added))
		}
		fmt.Fprintf(&sb, " share=%v", share)
	}
	for _, f := range w.fails {
		sb.WriteString(" FAIL:" + f.Key)
	}
	return sb.String()
}

func (w *c28World) obsClass() string {
	cl := func(r *c28Ref) string {
		switch {
		case r == nil:
			return "none"
		case len(r.pairs) == 0:
			return "empty"
		case len(r.keys()) == len(r.pairs):
			return "single-valued"
		}
		return "multi-valued"
	}
	s := "m:" + cl(w.rm)
	if w.cur != nil {
		s += " out:" + cl(w.cur.out) + " in:" + cl(w.cur.in)
	} else {
		s += " n:" + cl(w.rn)
	}
	return s
}

// ------------------------------------------------------------ operations ----

type c28Op struct {
	name string
	do   func(w *c28World) (skip bool)
}

func c28OpNewMap(name string, kv ...string) c28Op { // keys distinct after lower-casing
	return c28Op{name, func(w *c28World) bool {
		in := map[string]string{}
		for i := 0; i < len(kv); i += 2 {
			in[kv[i]] = kv[i+1]
		}
		w.m, w.rm = New(in), c28RefKV(kv...)
		return false
	}}
}

func c28OpPairs(name string, kv ...string) c28Op {
	return c28Op{name, func(w *c28World) bool {
		w.m, w.rm = Pairs(append([]string(nil), kv...)...), c28RefKV(kv...)
		return false
	}}
}

func c28OpSet(name, k string, vals ...string) c28Op {
	return c28Op{name, func(w *c28World) bool {
		if w.m == nil {
			return true
		}
		n := w.rm.clone()
		n.set(k, vals...)
		if n.size() > w.maxPairs {
			return true
		}
		w.m.Set(k, append([]string(nil), vals...)...)
		w.rm = n
		return false
	}}
}

func c28OpAppend(name, k string, vals ...string) c28Op {
	return c28Op{name, func(w *c28World) bool {
		if w.m == nil || w.rm.size()+len(vals) > w.maxPairs {
			return true
		}
		w.m.Append(k, append([]string(nil), vals...)...)
		w.rm.add(k, vals...)
		return false
	}}
}

func c28OpDelete(name, k string) c28Op {
	return c28Op{name, func(w *c28World) bool {
		if w.m == nil {
			return true
		}
		w.m.Delete(k)
		w.rm.del(k)
		return false
	}}
}

func c28OpJoin(name string, order string) c28Op { // order over {m,n}
	return c28Op{name, func(w *c28World) bool {
		if w.m == nil || w.n == nil {
			return true
		}
		var mds []MD
		var refs []*c28Ref
		tot := 0
		for _, c := range order {
			if c == 'm' {
				mds, refs = append(mds, w.m), append(refs, w.rm)
			} else {
				mds, refs = append(mds, w.n), append(refs, w.rn)
			}
			tot += refs[len(refs)-1].size()
		}
		if tot > w.maxPairs {
			return true
		}
		w.m, w.rm = Join(mds...), c28RefJoin(refs...)
		return false
	}}
}

func c28OpAppendOut(name string, kv ...string) c28Op {
	return c28Op{name, func(w *c28World) bool {
		if w.cur.out.size()+len(kv)/2 > w.maxPairs {
			return true
		}
		arg := append([]string(nil), kv...)
		ctx := AppendToOutgoingContext(w.cur.ctx, arg...)
		before := c28RawCanon(ctx)
		for i := range arg {
			arg[i] = "!" // the caller reuses its kv slice after the call
		}
		if after := c28RawCanon(ctx); after != before {
			w.fail("alias-kv-arg", "AppendToOutgoingContext kept the caller's kv slice: stored metadata changed from %s to %s when the caller reused it", before, after)
		}
		out := w.cur.out.clone()
		if out == nil {
			out = &c28Ref{}
		}
		for i := 0; i < len(kv); i += 2 {
			out.add(kv[i], kv[i+1])
		}
		w.cur = &c28CtxRec{ctx: ctx, out: out, in: w.cur.in}
		return false
	}}
}

func c28RawOps() (newOutRaw, newOutRawSpare, newInRaw c28Op) {
	// User-built MDs with a mixed-case key (one key per case class: colliding
	// raw keys are outside the API contract and map-order dependent).
	newOutRaw = c28Op{"ctx=NewOutgoingContext(MD{K:[1 2]})", func(w *c28World) bool {
		ctx := NewOutgoingContext(w.cur.ctx, MD{"K": {"1", "2"}})
		w.cur = &c28CtxRec{ctx: ctx, out: c28RefKV("K", "1", "K", "2"), in: w.cur.in}
		return false
	}}
	// the same with room to grow in the value slice (len 2, cap 4), as left
	// behind by append(): appending onto it in place would alias the context
	newOutRawSpare = c28Op{"ctx=NewOutgoingContext(MD{K:[1 2] cap4})", func(w *c28World) bool {
		ctx := NewOutgoingContext(w.cur.ctx, MD{"K": append(make([]string, 0, 4), "1", "2")})
		w.cur = &c28CtxRec{ctx: ctx, out: c28RefKV("K", "1", "K", "2"), in: w.cur.in}
		return false
	}}
	newInRaw = c28Op{"ctx=NewIncomingContext(MD{K:[2] x:[1]})", func(w *c28World) bool {
		ctx := NewIncomingContext(w.cur.ctx, MD{"K": {"2"}, "x": {"1"}})
		w.cur = &c28CtxRec{ctx: ctx, out: w.cur.out, in: c28RefKV("K", "2", "x", "1")}
		return false
	}}
	return
}

func c28MDOps() []c28Op {
	return []c28Op{
		c28OpNewMap("m=New{}"),
		c28OpNewMap("m=New{K:1}", "K", "1"),
		c28OpNewMap("m=New{k:2 x:1}", "k", "2", "x", "1"),
		c28OpPairs("m=Pairs(K,1,k,2)", "K", "1", "k", "2"),
		c28OpPairs("m=Pairs(x,2,K,1,x,1)", "x", "2", "K", "1", "x", "1"),
		c28OpSet("m.Set(K,1)", "K", "1"),
		c28OpSet("m.Set(k,2,1)", "k", "2", "1"),
		c28OpSet("m.Set(x,2)", "x", "2"),
		c28OpAppend("m.Append(K,2)", "K", "2"),
		c28OpAppend("m.Append(k,1)", "k", "1"),
		c28OpAppend("m.Append(x,1,2)", "x", "1", "2"),
		c28OpDelete("m.Delete(K)", "K"),
		c28OpDelete("m.Delete(x)", "x"),
		{"n=m.Copy()", func(w *c28World) bool {
			if w.m == nil {
				return true
			}
			w.n, w.rn = w.m.Copy(), w.rm.clone()
			return false
		}},
		{"swap(m,n)", func(w *c28World) bool {
			if w.m == nil || w.n == nil {
				return true
			}
			w.m, w.n, w.rm, w.rn = w.n, w.m, w.rn, w.rm
			return false
		}},
		c28OpJoin("m=Join(m,n)", "mn"),
		c28OpJoin("m=Join(n,m)", "nm"),
		c28OpJoin("m=Join(n,m,n)", "nmn"),
	}
}

func c28CtxOps() []c28Op {
	newOutRaw, newOutRawSpare, newInRaw := c28RawOps()
	return []c28Op{
		c28OpAppendOut("ctx=AppendToOutgoingContext(k,1)", "k", "1"),
		c28OpAppendOut("ctx=AppendToOutgoingContext(K,2)", "K", "2"),
		c28OpAppendOut("ctx=AppendToOutgoingContext(x,1)", "x", "1"),
		c28OpAppendOut("ctx=AppendToOutgoingContext(k,2,K,1)", "k", "2", "K", "1"),
		c28OpAppendOut("ctx=AppendToOutgoingContext(x,2,k,1)", "x", "2", "k", "1"),
		{"ctx=NewOutgoingContext(m)", func(w *c28World) bool {
			if w.m == nil {
				return true
			}
			// the context gets its own MD ("must not be modified after"), so m stays ours
			ctx := NewOutgoingContext(w.cur.ctx, c28CloneMD(w.m))
			w.cur = &c28CtxRec{ctx: ctx, out: w.rm.clone(), in: w.cur.in}
			return false
		}},
		newOutRaw,
		newOutRawSpare,
		{"ctx=NewIncomingContext(m)", func(w *c28World) bool {
			if w.m == nil {
				return true
			}
			ctx := NewIncomingContext(w.cur.ctx, c28CloneMD(w.m))
			w.cur = &c28CtxRec{ctx: ctx, out: w.cur.out, in: w.rm.clone()}
			return false
		}},
		newInRaw,
		{"m=FromOutgoingContext(ctx)", func(w *c28World) bool {
			md, ok := FromOutgoingContext(w.cur.ctx)
			if !ok || w.cur.out == nil {
				return true
			}
			w.m, w.rm = md, w.cur.out.clone()
			return false
		}},
		{"m=FromIncomingContext(ctx)", func(w *c28World) bool {
			md, ok := FromIncomingContext(w.cur.ctx)
			if !ok || w.cur.in == nil {
				return true
			}
			w.m, w.rm = md, w.cur.in.clone()
			return false
		}},
		{"save ctx", func(w *c28World) bool {
			if w.sav == w.cur {
				return true
			}
			w.sav = w.cur
			return false
		}},
		{"swap ctx,saved", func(w *c28World) bool {
			if w.sav == nil || w.sav == w.cur {
				return true
			}
			w.cur, w.sav = w.sav, w.cur
			return false
		}},
		c28OpPairs("m=Pairs(K,1,k,2)", "K", "1", "k", "2"),
		c28OpNewMap("m=New{x:2}", "x", "2"),
		c28OpSet("m.Set(K,2)", "K", "2"),
		c28OpAppend("m.Append(x,1)", "x", "1"),
		c28OpAppend("m.Append(K,1)", "K", "1"),
		c28OpDelete("m.Delete(k)", "k"),
	}
}

func c28Names(ops []c28Op) []string {
	out := make([]string, len(ops))
	for i, o := range ops {
		out[i] = o.name
	}
	return out
}

func c28Runner(ops []c28Op, init func() *c28World, everyStep bool) func(hist []int) seqx.Outcome {
	return func(hist []int) (out seqx.Outcome) {
		w := init()
		defer func() {
			if p := recover(); p != nil {
				w.fail("panic", "panic: %v", p)
				out = seqx.Outcome{Key: "panic " + fmt.Sprint(hist), Terminal: true, Fails: w.fails, Obs: "panic"}
			}
		}()
		if len(hist) == 0 {
			w.observe()
		}
		for i, h := range hist {
			if ops[h].do(w) {
				if i == len(hist)-1 {
					return seqx.Outcome{Skip: true}
				}
				// cannot happen: every proper prefix was explored as applicable
				w.fail("harness-nondeterminism", "op %s inapplicable in the middle of a history", ops[h].name)
			}
			// Real vs reference after every step (thorough); in the quick
			// tier only after the last one: every proper prefix of an explored
			// history is itself an explored history, so each reached state is
			// still observed, only the "mutate returned copies, then carry on"
			// interleaving is then left to the explicit m=From*(ctx) ops.
			if everyStep || i == len(hist)-1 {
				w.observe()
			}
		}
		return seqx.Outcome{Key: w.key(), Fails: w.fails, Obs: w.obsClass()}
	}
}

func TestVerif_C28_Metadata(t *testing.T) {
	const P = "C28"
	r := vk.Start(t, "c28_metadata", "model_checking", P)
	defer r.Finish()
	defer debug.SetGCPercent(debug.SetGCPercent(800)) // allocation-heavy, memory is plentiful
	r.Rule(P, "breadth-first over ALL operation sequences up to the depth bound from three start states, each run on fresh real MDs/contexts next to a reference ordered multimap (a flat list of lower-cased key/value pairs); keys {k,K,x}, values {1,2}. Scenario md: New/Pairs/Set/Append/Delete/Copy/Join on two caller-owned MDs. Scenario ctx: NewOutgoingContext/AppendToOutgoingContext/NewIncomingContext (API-built MDs handed over with the len/cap the API left them with, raw mixed-case MDs with and without spare capacity in the value slice), FromOutgoingContext/FromIncomingContext loaded into a register and mutated, two context registers (save/swap) so that sibling contexts derived from one parent coexist. Scenario ctx-branch: same alphabet from a context that already carries a base MD (value slice with spare capacity) and three appends. Results handed out for one context are re-checked after the sibling context has been read. After every step (quick tier: after the last step of every explored history, which still observes every reached state) every read API (From*, ValueFrom* over queries {k,K,x,X,q}, fromOutgoingContextRaw, Get, Len, Copy) is compared with the reference, then everything returned is mutated in place and all is read again. A state = canonical private contents (rawMD.md, rawMD.added incl. len/cap, incoming MD, value-slice capacities, sharing of the added array) + reference multimaps; distinct states are the non-trivial cases")
	r.Assume(P, "MDs handed to NewOutgoingContext/NewIncomingContext are never touched again by the harness (documented precondition); user-built MDs with two keys differing only in case are excluded (map-order dependent by design); MD.Get/Set/Append/Delete are only applied to MDs whose stored keys are lower-case (built by the API)")
	r.Assume(P, "ValueFromOutgoingContext/ValueFromIncomingContext results are treated as caller-owned copies like the FromX results; no operation may grow an MD or context beyond the stated number of values (such ops are skipped)")

	maxPairs := r.Pick(6, 8)
	mdInit := func() *c28World {
		return &c28World{m: New(nil), rm: &c28Ref{}, n: Pairs(), rn: &c28Ref{}, maxPairs: maxPairs}
	}
	ctxInit := func() *c28World {
		return &c28World{m: New(nil), rm: &c28Ref{}, cur: &c28CtxRec{ctx: context.Background()}, maxPairs: maxPairs}
	}
	branchInit := func() *c28World {
		w := ctxInit()
		base := Pairs("k", "1")
		base["k"] = append(make([]string, 0, 4), base["k"]...) // len 1, cap 4: room for in-place appends
		ctx := NewOutgoingContext(context.Background(), base)
		ctx = AppendToOutgoingContext(ctx, "K", "2")
		ctx = AppendToOutgoingContext(ctx, "x", "1")
		ctx = AppendToOutgoingContext(ctx, "k", "1")
		w.cur = &c28CtxRec{ctx: ctx, out: c28RefKV("k", "1", "K", "2", "x", "1", "k", "1")}
		return w
	}
	mdOps, ctxOps := c28MDOps(), c28CtxOps()
	r.Set(P, "max_values_per_object", maxPairs)

	seqx.BFS(r, []string{P}, seqx.Config{
		Name: "md", Ops: c28Names(mdOps), MaxDepth: r.Pick(5, 7), Parallel: 16,
		Congruence: r.Thorough(), CongruenceMax: 200, MinStates: 50,
		Run: c28Runner(mdOps, mdInit, r.Thorough()),
	})
	seqx.BFS(r, []string{P}, seqx.Config{
		Name: "ctx-branch", Ops: c28Names(ctxOps), MaxDepth: r.Pick(4, 6), Parallel: 16,
		Congruence: r.Thorough(), CongruenceMax: 200, MinStates: 50,
		Run: c28Runner(ctxOps, branchInit, r.Thorough()),
	})
	seqx.BFS(r, []string{P}, seqx.Config{
		Name: "ctx", Ops: c28Names(ctxOps), MaxDepth: r.Pick(5, 6), Parallel: 16,
		Congruence: r.Thorough(), CongruenceMax: 200, MinStates: 50,
		Run: c28Runner(ctxOps, ctxInit, r.Thorough()),
	})
}
