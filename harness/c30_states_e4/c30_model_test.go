//go:build verif

package h_c30

import (
	"fmt"
	"strings"
	"time"

	"google.golang.org/grpc/connectivity"
)

// ---- C30 history-level leg: event alphabet and the reference model ----
//
// The reference model is written from the property statement and the gRPC
// connectivity-semantics document (doc/connectivity-semantics-and-api.md of the
// grpc/grpc repository), not from clientconn.go:
//
//   * a subchannel starts IDLE; SubConn.Connect() on an IDLE subchannel makes
//     it CONNECTING (and starts one connection attempt); in every other state
//     Connect() changes nothing;
//   * a CONNECTING subchannel becomes READY when the attempt succeeds (the
//     server's HTTP/2 preface arrived) and TRANSIENT_FAILURE when it fails;
//   * a READY subchannel that loses its connection (GOAWAY, connection closed)
//     becomes IDLE;
//   * a TRANSIENT_FAILURE subchannel becomes IDLE when its backoff period is
//     over, never earlier, and nothing else leaves TRANSIENT_FAILURE except
//     SHUTDOWN;
//   * SubConn.Shutdown() makes it SHUTDOWN, which is final;
//   * a channel that has had no RPC for IDLE_TIMEOUT enters idle mode: the LB
//     policy is closed, its subchannels are shut down and the channel state is
//     IDLE; ClientConn.Connect() leaves idle mode (state CONNECTING, a fresh
//     LB policy with fresh subchannels); ClientConn.Close() makes the channel
//     SHUTDOWN for ever.

const (
	c30EvExitIdle   = iota // cc.Connect()
	c30EvConnect           // the LB policy calls sc[i].Connect()
	c30EvShutdown          // the LB policy calls sc[i].Shutdown()
	c30EvUpdAddrs          // the LB policy calls cc.UpdateAddresses(sc[i], other list): sc[i] is switched between two different one-address lists
	c30EvConnFail          // the LB policy calls sc[i].Connect() on an IDLE subchannel and the dial fails at once (two updates in one step)
	c30EvConnOK            // the LB policy calls sc[i].Connect() on an IDLE subchannel and the connection is established at once
	c30EvDialOK            // the pending dial of subchannel i succeeds, the server completes the HTTP/2 preface
	c30EvDialFail          // the pending dial of subchannel i fails
	c30EvDialHSFail        // the pending dial succeeds but the server closes the connection without sending its HTTP/2 preface
	c30EvGoAway            // the server of subchannel i sends GOAWAY(NO_ERROR)
	c30EvSrvClose          // the server of subchannel i closes the connection
	c30EvAdv               // virtual time advances by c30AdvStep (less than the backoff)
	c30EvAdvIdle           // virtual time advances by the idle timeout
	c30EvClose             // cc.Close()
	c30NumKinds
)

var c30KindNames = [...]string{"exitidle", "connect", "shutdown", "updateaddrs", "connfail", "connok", "dialok", "dialfail", "dialhsfail", "goaway", "srvclose", "adv", "advidle", "close"}

const (
	c30Backoff     = time.Second            // constant backoff (base = max = 1s, multiplier 1, jitter 0)
	c30AdvStep     = 600 * time.Millisecond // one step does not end a backoff, two do
	c30IdleTimeout = 2 * time.Second
)

type c30Ev struct {
	Kind int
	I    int // subchannel index, -1 when the event has none
}

func (e c30Ev) String() string {
	if e.I < 0 {
		return c30KindNames[e.Kind]
	}
	return fmt.Sprintf("%s(%d)", c30KindNames[e.Kind], e.I)
}

func c30ParseEv(s string) (c30Ev, error) {
	name, idx := s, -1
	if p := strings.IndexByte(s, '('); p >= 0 && strings.HasSuffix(s, ")") {
		name = s[:p]
		if _, err := fmt.Sscanf(s[p:], "(%d)", &idx); err != nil {
			return c30Ev{}, err
		}
	}
	for k, n := range c30KindNames {
		if n == name {
			return c30Ev{Kind: k, I: idx}, nil
		}
	}
	return c30Ev{}, fmt.Errorf("unknown event %q", s)
}

func c30HistString(h []c30Ev) string {
	s := make([]string, len(h))
	for i, e := range h {
		s[i] = e.String()
	}
	return strings.Join(s, ",")
}

func c30HistStrings(h []c30Ev) []string {
	s := make([]string, len(h))
	for i, e := range h {
		s[i] = e.String()
	}
	return s
}

// c30Alphabet lists every event for n subchannels, simplest first.
func c30Alphabet(n int, withHSFail bool) []c30Ev {
	var a []c30Ev
	a = append(a, c30Ev{c30EvExitIdle, -1})
	for _, k := range []int{c30EvConnect, c30EvUpdAddrs, c30EvConnFail, c30EvConnOK, c30EvDialOK, c30EvDialFail, c30EvDialHSFail, c30EvGoAway, c30EvSrvClose, c30EvShutdown} {
		if k == c30EvDialHSFail && !withHSFail {
			continue
		}
		for i := 0; i < n; i++ {
			a = append(a, c30Ev{k, i})
		}
	}
	a = append(a, c30Ev{c30EvAdv, -1}, c30Ev{c30EvAdvIdle, -1}, c30Ev{c30EvClose, -1})
	return a
}

type c30MSC struct {
	St      connectivity.State
	TfAt    time.Duration
	Pending bool // a connection attempt is in progress (the dialer is waiting for the script)
	Live    bool // an established connection exists
}

// c30Model is the reference model of one channel with N addresses and a
// policy that owns one subchannel per address.
type c30Model struct {
	N      int
	Auto   bool // policy mode: ExitIdle connects all IDLE subchannels and the state listener calls sc.Connect() whenever it is told IDLE (manual: the policy only acts on scripted commands)
	Now    time.Duration
	Closed bool
	Idle   bool
	IdleAt time.Duration
	Gen    int // number of LB policy instances built so far; the live one is Gen-1
	SC     [2]c30MSC
	Dials  [2]int // connection attempts that must have been started so far, per address index (all policy generations)
}

func c30NewModel(n int, auto bool) c30Model {
	return c30Model{N: n, Auto: auto, Idle: true}
}

// c30Expect is what the statement requires to be observable after an event
// has been applied and the system has become quiescent.
type c30Expect struct {
	Gen         int                     // policy generation the subchannel updates go to (-1: none alive)
	Deliv       [2][]connectivity.State // required updates per subchannel, in order
	Alt         [2][]connectivity.State // a second permitted sequence (nil: none)
	EnteredIdle bool
	ExitedIdle  bool
	Closed      bool
}

func (m *c30Model) alive() bool { return !m.Closed && !m.Idle }

// Applicable reports whether e can be issued in the current model state.
func (m *c30Model) Applicable(e c30Ev) bool {
	switch e.Kind {
	case c30EvExitIdle, c30EvAdv:
		return true
	case c30EvAdvIdle:
		return !m.Closed
	case c30EvClose:
		return !m.Closed
	}
	if !m.alive() || e.I >= m.N {
		return false
	}
	s := &m.SC[e.I]
	switch e.Kind {
	case c30EvConnect, c30EvShutdown, c30EvUpdAddrs:
		return s.St != connectivity.Shutdown
	case c30EvConnFail, c30EvConnOK:
		return s.St == connectivity.Idle
	case c30EvDialOK, c30EvDialFail, c30EvDialHSFail:
		return s.Pending
	case c30EvGoAway, c30EvSrvClose:
		return s.Live
	}
	return false
}

func (m *c30Model) connect(i int, x *c30Expect) {
	s := &m.SC[i]
	if s.St != connectivity.Idle {
		return
	}
	s.St, s.Pending = connectivity.Connecting, true
	m.Dials[i]++
	x.Deliv[i] = append(x.Deliv[i], connectivity.Connecting)
}

func (m *c30Model) toIdle(i int, x *c30Expect) {
	s := &m.SC[i]
	s.St, s.Live, s.Pending = connectivity.Idle, false, false
	x.Deliv[i] = append(x.Deliv[i], connectivity.Idle)
	if m.Auto {
		m.connect(i, x)
	}
}

func (m *c30Model) dropAll() {
	for i := range m.SC {
		m.SC[i] = c30MSC{St: connectivity.Shutdown}
	}
}

// Apply advances the model; e must be applicable.
func (m *c30Model) Apply(e c30Ev) c30Expect {
	x := c30Expect{Gen: -1}
	if m.alive() {
		x.Gen = m.Gen - 1
	}
	switch e.Kind {
	case c30EvExitIdle:
		if m.Closed {
			return x
		}
		if m.Idle {
			m.Idle = false
			m.Gen++
			x.Gen = m.Gen - 1
			x.ExitedIdle = true
			m.IdleAt = m.Now + c30IdleTimeout
			for i := 0; i < m.N; i++ {
				m.SC[i] = c30MSC{St: connectivity.Idle}
			}
		}
		// in auto mode the policy's ExitIdle connects every subchannel it
		// knows to be IDLE; in manual mode ExitIdle does nothing
		if m.Auto {
			for i := 0; i < m.N; i++ {
				m.connect(i, &x)
			}
		}
	case c30EvConnect:
		m.connect(e.I, &x)
	case c30EvUpdAddrs:
		// SubConn.UpdateAddresses with a list that does not contain the
		// address in use: "the connection will gracefully close, and a new
		// connection will be created". A subchannel that is not connecting or
		// connected only remembers the new list.
		s := &m.SC[e.I]
		switch s.St {
		case connectivity.Connecting:
			// the attempt in flight is abandoned (it must not be reported as a
			// failure) and a new attempt to the new address starts; the
			// subchannel stays CONNECTING, so there is nothing to report
			s.Pending = true
			m.Dials[e.I]++
		case connectivity.Ready:
			s.St, s.Live, s.Pending = connectivity.Connecting, false, true
			m.Dials[e.I]++
			x.Deliv[e.I] = append(x.Deliv[e.I], connectivity.Connecting)
		}
	case c30EvConnFail:
		m.connect(e.I, &x)
		s := &m.SC[e.I]
		s.St, s.Pending, s.TfAt = connectivity.TransientFailure, false, m.Now
		x.Deliv[e.I] = append(x.Deliv[e.I], connectivity.TransientFailure)
	case c30EvConnOK:
		m.connect(e.I, &x)
		s := &m.SC[e.I]
		s.St, s.Pending, s.Live = connectivity.Ready, false, true
		x.Deliv[e.I] = append(x.Deliv[e.I], connectivity.Ready)
	case c30EvShutdown:
		m.SC[e.I] = c30MSC{St: connectivity.Shutdown}
		x.Deliv[e.I] = append(x.Deliv[e.I], connectivity.Shutdown)
	case c30EvDialOK:
		s := &m.SC[e.I]
		s.St, s.Pending, s.Live = connectivity.Ready, false, true
		x.Deliv[e.I] = append(x.Deliv[e.I], connectivity.Ready)
	case c30EvDialFail, c30EvDialHSFail:
		// the attempt failed (no connection, or no HTTP/2 preface from the server)
		s := &m.SC[e.I]
		s.St, s.Pending, s.TfAt = connectivity.TransientFailure, false, m.Now
		x.Deliv[e.I] = append(x.Deliv[e.I], connectivity.TransientFailure)
	case c30EvGoAway, c30EvSrvClose:
		m.toIdle(e.I, &x)
	case c30EvAdv, c30EvAdvIdle:
		d := c30AdvStep
		if e.Kind == c30EvAdvIdle {
			d = c30IdleTimeout
		}
		end := m.Now + d
		if m.alive() {
			idleFires := m.IdleAt <= end
			for i := 0; i < m.N; i++ {
				s := &m.SC[i]
				if s.St != connectivity.TransientFailure {
					continue
				}
				due := s.TfAt + c30Backoff
				if due > end || (idleFires && due >= m.IdleAt) {
					continue
				}
				m.Now = due
				m.toIdle(i, &x)
			}
			if idleFires {
				m.Idle = true
				x.EnteredIdle = true
				m.dropAll()
			}
		}
		m.Now = end
	case c30EvClose:
		m.Closed = true
		x.Closed = true
		m.dropAll()
	}
	return x
}

// ---- the allowed-transition relation of a subchannel (statement + connectivity semantics) ----
//
// "nothing leaves SHUTDOWN; a subchannel reaches READY only from CONNECTING
// and leaves TRANSIENT_FAILURE only to IDLE after backoff or to SHUTDOWN";
// CONNECTING is entered from IDLE only; TRANSIENT_FAILURE is the outcome of a
// failed attempt, i.e. entered from CONNECTING only; READY is left to IDLE
// (connection lost), to SHUTDOWN, or to CONNECTING when UpdateAddresses
// replaces the address in use (balancer.SubConn.UpdateAddresses: "the
// connection will gracefully close, and a new connection will be created";
// the exact-sequence check confines this to updateaddrs steps); CONNECTING -> IDLE is the documented case of a
// connection that was established and lost before READY was published (it is
// in the relation, but the reference model never expects it: the histories of
// this leg cannot produce that race).
var c30SubAllowed = map[connectivity.State][]connectivity.State{
	connectivity.Idle:             {connectivity.Connecting, connectivity.Shutdown},
	connectivity.Connecting:       {connectivity.Ready, connectivity.TransientFailure, connectivity.Idle, connectivity.Shutdown},
	connectivity.Ready:            {connectivity.Idle, connectivity.Connecting, connectivity.Shutdown},
	connectivity.TransientFailure: {connectivity.Idle, connectivity.Shutdown},
	connectivity.Shutdown:         {},
}

func c30SubOK(from, to connectivity.State) bool {
	for _, s := range c30SubAllowed[from] {
		if s == to {
			return true
		}
	}
	return false
}

func c30States(ss []connectivity.State) string {
	o := make([]string, len(ss))
	for i, s := range ss {
		o[i] = s.String()
	}
	return "[" + strings.Join(o, " ") + "]"
}

func c30EqStates(a, b []connectivity.State) bool {
	if len(a) != len(b) {
		return false
	}
	for i := range a {
		if a[i] != b[i] {
			return false
		}
	}
	return true
}
