//go:build verif

// Package h_c30 hosts the history-level (E4) harness of property C30: a real
// grpc.ClientConn with a recording LB policy, a scripted dialer and raw HTTP/2
// server peers inside a synctest bubble.
package h_c30
