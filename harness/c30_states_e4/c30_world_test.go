//go:build verif

package h_c30

import (
	"context"
	"errors"
	"fmt"
	"net"
	"strings"
	"sync"
	"time"

	"golang.org/x/net/http2"
	"google.golang.org/grpc/balancer"
	"google.golang.org/grpc/connectivity"
	"google.golang.org/grpc/internal/verif/wire"
	"google.golang.org/grpc/resolver"
)

// ---- C30 history-level leg: the recording world (LB policy, dialer, peers, watcher) ----
//
// Everything here only RECORDS what crosses the public boundaries of the
// channel (balancer API, dialer, wire, GetState/WaitForStateChange) with one
// logical clock; the oracle in c30_test.go never reads channel internals.

const c30LBName = "c30_recording_lb"

// c30Cur is the world of the history being executed (histories run strictly
// one after the other in a process).
var c30Cur *c30World

func init() { balancer.Register(c30Builder{}) }

type c30Deliv struct {
	Clk int
	T   time.Duration
	St  connectivity.State
}

type c30SCRec struct {
	Gen, Idx      int
	sc            balancer.SubConn
	Deliv         []c30Deliv
	ShutdownClk   int  // clock when sc.Shutdown() returned (0: never called)
	shutdown      bool // the policy called Shutdown
	seen          int  // deliveries already consumed by the oracle
	connectCalls  int
	alt           bool // the subchannel currently uses its alternate address list (c30-b<i>)
	afterShutdown int  // deliveries that arrived after Shutdown() returned
}

func (s *c30SCRec) last() connectivity.State {
	if len(s.Deliv) == 0 {
		return connectivity.Idle
	}
	return s.Deliv[len(s.Deliv)-1].St
}

type c30Pub struct {
	Clk int
	St  connectivity.State
	Src string
}

type c30Obs struct {
	Clk int
	St  connectivity.State
}

type c30DialRes struct {
	conn net.Conn
	err  error
}

type c30Pending struct {
	ch  chan c30DialRes
	ctx context.Context
}

type c30Conn struct {
	peer   *wire.Peer
	closed bool // the script closed it
}

type c30Cmd struct {
	Kind int
	I    int
	done bool
}

type c30World struct {
	mu    sync.Mutex
	clk   int
	start time.Time
	n     int
	auto  bool

	pols  []*c30Policy
	pend  [2]*c30Pending
	conns [2]*c30Conn
	peers []*wire.Peer
	dials [2]int // dial attempts started per address
	inst  [2]int // scripted outcome of the next dial of address i: 0 wait for the script, 1 fail at once, 2 succeed at once
	pubs  []c30Pub
	obs   []c30Obs
	cmd   *c30Cmd
	anom  []string // protocol anomalies noticed while recording
}

func (w *c30World) tick() int { w.clk++; return w.clk }

func (w *c30World) anomaly(f string, a ...any) {
	w.anom = append(w.anom, fmt.Sprintf(f, a...))
}

// ---- dialer ----

func c30AddrIndex(addr string) int {
	switch {
	case strings.HasPrefix(addr, "c30-a0"), strings.HasPrefix(addr, "c30-b0"):
		return 0
	case strings.HasPrefix(addr, "c30-a1"), strings.HasPrefix(addr, "c30-b1"):
		return 1
	}
	return -1
}

func (w *c30World) dial(ctx context.Context, addr string) (net.Conn, error) {
	i := c30AddrIndex(addr)
	if i < 0 {
		return nil, fmt.Errorf("c30: unexpected dial target %q", addr)
	}
	pd := &c30Pending{ch: make(chan c30DialRes, 1), ctx: ctx}
	w.mu.Lock()
	w.tick()
	w.dials[i]++
	if w.pend[i] != nil && w.pend[i].ctx.Err() == nil { // an attempt whose context is cancelled was abandoned
		w.anomaly("two connection attempts of subchannel %d are in progress at the same time", i)
	}
	inst := w.inst[i]
	w.inst[i] = 0
	if inst == 0 {
		w.pend[i] = pd
	}
	w.mu.Unlock()
	switch inst {
	case 1:
		return nil, errors.New("c30: scripted immediate dial failure")
	case 2:
		return w.newConn(i), nil
	}
	select {
	case r := <-pd.ch:
		return r.conn, r.err
	case <-ctx.Done():
		w.mu.Lock()
		if w.pend[i] == pd {
			w.pend[i] = nil
		}
		w.mu.Unlock()
		return nil, ctx.Err()
	}
}

// resolveDial completes the pending dial of address i; ok=false if there is
// none. With hsFail the dial itself succeeds but the server closes the
// connection without ever sending its HTTP/2 preface.
func (w *c30World) resolveDial(i int, succeed, hsFail bool) bool {
	w.mu.Lock()
	pd := w.pend[i]
	w.pend[i] = nil
	w.tick()
	w.mu.Unlock()
	if pd == nil {
		return false
	}
	if !succeed {
		pd.ch <- c30DialRes{err: errors.New("c30: scripted dial failure")}
		return true
	}
	if hsFail {
		c, s := wire.Pipe()
		s.Close()
		pd.ch <- c30DialRes{conn: c}
		return true
	}
	pd.ch <- c30DialRes{conn: w.newConn(i)}
	return true
}

// newConn creates a connection whose server end is a raw HTTP/2 peer that
// completes the preface (SETTINGS) and acknowledges SETTINGS/PING.
func (w *c30World) newConn(i int) net.Conn {
	c, s := wire.Pipe()
	p := wire.NewServerPeer(s)
	p.AutoAckSettings = true
	p.AutoAckPing = true
	p.WriteSettings(http2.Setting{ID: http2.SettingMaxConcurrentStreams, Val: 10})
	w.mu.Lock()
	w.peers = append(w.peers, p)
	w.conns[i] = &c30Conn{peer: p}
	w.mu.Unlock()
	return c
}

func (w *c30World) hasPending(i int) bool {
	w.mu.Lock()
	defer w.mu.Unlock()
	return w.pend[i] != nil
}

// liveConn returns the connection of address i if neither side closed it.
func (w *c30World) liveConn(i int) *c30Conn {
	w.mu.Lock()
	c := w.conns[i]
	w.mu.Unlock()
	if c == nil || c.closed || c.peer.Closed() {
		return nil
	}
	return c
}

// ---- the recording LB policy ----

type c30Builder struct{}

func (c30Builder) Name() string { return c30LBName }
func (c30Builder) Build(cc balancer.ClientConn, _ balancer.BuildOptions) balancer.Balancer {
	w := c30Cur
	p := &c30Policy{w: w, cc: cc}
	w.mu.Lock()
	p.gen = len(w.pols)
	w.pols = append(w.pols, p)
	w.tick()
	w.mu.Unlock()
	return p
}

type c30Policy struct {
	w         *c30World
	cc        balancer.ClientConn
	gen       int
	scs       []*c30SCRec
	closed    bool
	closeClk  int
	inCall    bool // a balancer callback is executing (callbacks must be serialized)
	reports   int
	exitIdles int
}

func (p *c30Policy) enter(what string) {
	p.w.mu.Lock()
	if p.inCall {
		p.w.anomaly("not-serialized: LB policy callback %s invoked while another callback is running", what)
	}
	if p.closed {
		p.w.anomaly("after-close: LB policy callback %s invoked after Close", what)
	}
	p.inCall = true
	p.w.mu.Unlock()
}

func (p *c30Policy) leave() {
	p.w.mu.Lock()
	p.inCall = false
	p.w.mu.Unlock()
}

func (p *c30Policy) UpdateClientConnState(s balancer.ClientConnState) error {
	p.enter("UpdateClientConnState")
	defer p.leave()
	if p.scs == nil {
		for i, a := range s.ResolverState.Addresses {
			rec := &c30SCRec{Gen: p.gen, Idx: i}
			sc, err := p.cc.NewSubConn([]resolver.Address{a}, balancer.NewSubConnOptions{
				StateListener: func(st balancer.SubConnState) { p.onState(rec, st) },
			})
			if err != nil {
				p.w.mu.Lock()
				p.w.anomaly("NewSubConn(%v): %v", a, err)
				p.w.mu.Unlock()
				continue
			}
			rec.sc = sc
			p.scs = append(p.scs, rec)
		}
		p.report()
		return nil
	}
	p.w.mu.Lock()
	cmd := p.w.cmd
	p.w.cmd = nil
	p.w.mu.Unlock()
	if cmd == nil || cmd.I >= len(p.scs) {
		return nil
	}
	rec := p.scs[cmd.I]
	switch cmd.Kind {
	case c30EvConnect, c30EvConnFail, c30EvConnOK:
		rec.connectCalls++
		rec.sc.Connect()
	case c30EvUpdAddrs:
		rec.alt = !rec.alt
		a := fmt.Sprintf("c30-a%d:1", rec.Idx)
		if rec.alt {
			a = fmt.Sprintf("c30-b%d:1", rec.Idx)
		}
		p.cc.UpdateAddresses(rec.sc, []resolver.Address{{Addr: a}})
	case c30EvShutdown:
		rec.shutdown = true
		rec.sc.Shutdown()
		p.w.mu.Lock()
		rec.ShutdownClk = p.w.tick()
		p.w.mu.Unlock()
		p.report()
	}
	cmd.done = true
	return nil
}

func (p *c30Policy) onState(rec *c30SCRec, st balancer.SubConnState) {
	p.enter("StateListener")
	defer p.leave()
	p.w.mu.Lock()
	rec.Deliv = append(rec.Deliv, c30Deliv{Clk: p.w.tick(), T: time.Since(p.w.start), St: st.ConnectivityState})
	if rec.ShutdownClk != 0 {
		rec.afterShutdown++
	}
	p.w.mu.Unlock()
	if p.w.auto && st.ConnectivityState == connectivity.Idle && !rec.shutdown {
		rec.connectCalls++
		rec.sc.Connect()
	}
	p.report()
}

// report publishes the aggregate state: READY if any subchannel is READY, else
// CONNECTING if any is CONNECTING, else IDLE if any is IDLE, else
// TRANSIENT_FAILURE (subchannels the policy shut down do not count).
func (p *c30Policy) report() {
	cnt := map[connectivity.State]int{}
	var ready balancer.SubConn
	for _, r := range p.scs {
		if r.shutdown {
			continue
		}
		s := r.last()
		cnt[s]++
		if s == connectivity.Ready && ready == nil {
			ready = r.sc
		}
	}
	agg := connectivity.TransientFailure
	switch {
	case cnt[connectivity.Ready] > 0:
		agg = connectivity.Ready
	case cnt[connectivity.Connecting] > 0:
		agg = connectivity.Connecting
	case cnt[connectivity.Idle] > 0:
		agg = connectivity.Idle
	}
	p.w.mu.Lock()
	p.w.pubs = append(p.w.pubs, c30Pub{Clk: p.w.tick(), St: agg, Src: fmt.Sprintf("policy#%d", p.gen)})
	p.reports++
	p.w.mu.Unlock()
	p.cc.UpdateState(balancer.State{ConnectivityState: agg, Picker: c30Picker{sc: ready}})
}

func (p *c30Policy) ResolverError(error) {}

func (p *c30Policy) UpdateSubConnState(balancer.SubConn, balancer.SubConnState) {
	p.w.mu.Lock()
	p.w.anomaly("deprecated UpdateSubConnState invoked although a StateListener was given")
	p.w.mu.Unlock()
}

func (p *c30Policy) Close() {
	p.enter("Close")
	defer p.leave()
	p.w.mu.Lock()
	p.closed = true
	p.closeClk = p.w.tick()
	p.w.mu.Unlock()
}

func (p *c30Policy) ExitIdle() {
	p.enter("ExitIdle")
	defer p.leave()
	p.exitIdles++
	if !p.w.auto {
		return
	}
	for _, r := range p.scs {
		if !r.shutdown && r.last() == connectivity.Idle {
			r.connectCalls++
			r.sc.Connect()
		}
	}
}

type c30Picker struct{ sc balancer.SubConn }

func (p c30Picker) Pick(balancer.PickInfo) (balancer.PickResult, error) {
	if p.sc == nil {
		return balancer.PickResult{}, balancer.ErrNoSubConnAvailable
	}
	return balancer.PickResult{SubConn: p.sc}, nil
}
