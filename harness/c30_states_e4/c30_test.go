//go:build verif

package h_c30

import (
	"context"
	"fmt"
	"sort"
	"strings"
	"testing"
	"testing/synctest"
	"time"

	"golang.org/x/net/http2"
	"google.golang.org/grpc"
	grpcbackoff "google.golang.org/grpc/backoff"
	"google.golang.org/grpc/connectivity"
	"google.golang.org/grpc/credentials/insecure"
	"google.golang.org/grpc/internal/verif/vk"
	"google.golang.org/grpc/resolver"
	"google.golang.org/grpc/resolver/manual"
)

// ---- C30 history-level leg: running one history and the oracle ----

type c30Cfg struct {
	N    int  `json:"addresses"`
	Auto bool `json:"auto_reconnect"`
}

func (c c30Cfg) String() string {
	m := "manual"
	if c.Auto {
		m = "auto"
	}
	return fmt.Sprintf("n%d/%s", c.N, m)
}

type c30Fail struct{ Class, Desc string }

type c30Result struct {
	Fails     []c30Fail
	FailAt    int // number of events applied when the first failure was recorded
	Engine    []string
	SubTrans  map[string]int // subchannel transitions delivered to the policy, "FROM->TO"
	ChanTrans map[string]int // channel transitions seen by the watcher
	Updates   int            // subchannel updates checked
	Final     string         // outcome class
	Log       []string       // written-out observation log (replay / samples)
	TFIdle    int            // TF->IDLE updates whose time was checked against the backoff
	PostShut  int            // subchannels checked for "nothing but SHUTDOWN after Shutdown() returned"
	ChanChk   int            // channel-state comparisons made
	WatchObs  int
}

type c30Replay struct {
	Cfg    c30Cfg   `json:"config"`
	Events []string `json:"events"`
}

// c30RunHistory executes hist on a fresh channel inside its own bubble and
// checks the oracle after every event.
func c30RunHistory(t *testing.T, cfg c30Cfg, hist []c30Ev, keepLog bool) (res c30Result) {
	res.SubTrans, res.ChanTrans = map[string]int{}, map[string]int{}
	defer func() {
		if p := recover(); p != nil {
			res.Fails = append(res.Fails, c30Fail{"panic", fmt.Sprint(p)})
		}
	}()
	synctest.Test(t, func(t *testing.T) {
		w := &c30World{start: time.Now(), n: cfg.N, auto: cfg.Auto}
		c30Cur = w
		mr := manual.NewBuilderWithScheme("c30")
		var addrs []resolver.Address
		for i := 0; i < cfg.N; i++ {
			addrs = append(addrs, resolver.Address{Addr: fmt.Sprintf("c30-a%d:1", i)})
		}
		rstate := resolver.State{Addresses: addrs}
		mr.InitialState(rstate)
		cc, err := grpc.NewClient("c30:///x",
			grpc.WithResolvers(mr),
			grpc.WithContextDialer(w.dial),
			grpc.WithTransportCredentials(insecure.NewCredentials()),
			grpc.WithDefaultServiceConfig(`{"loadBalancingConfig":[{"`+c30LBName+`":{}}]}`),
			grpc.WithIdleTimeout(c30IdleTimeout),
			grpc.WithConnectParams(grpc.ConnectParams{
				Backoff:           grpcbackoff.Config{BaseDelay: c30Backoff, Multiplier: 1, Jitter: 0, MaxDelay: c30Backoff},
				MinConnectTimeout: 20 * time.Second,
			}))
		if err != nil {
			res.Engine = append(res.Engine, "NewClient: "+err.Error())
			return
		}
		wctx, wcancel := context.WithCancel(context.Background())
		// watcher: follows the channel state with GetState/WaitForStateChange
		go func() {
			for {
				s := cc.GetState()
				w.mu.Lock()
				w.obs = append(w.obs, c30Obs{Clk: w.tick(), St: s})
				w.mu.Unlock()
				if !cc.WaitForStateChange(wctx, s) {
					return
				}
			}
		}()
		defer func() {
			wcancel()
			cc.Close()
			w.mu.Lock()
			ps := w.peers
			pend := w.pend
			w.mu.Unlock()
			for _, pd := range pend {
				if pd != nil {
					select {
					case pd.ch <- c30DialRes{err: context.Canceled}:
					default:
					}
				}
			}
			for _, p := range ps {
				p.Close()
			}
			synctest.Wait()
		}()

		m := c30NewModel(cfg.N, cfg.Auto)
		step := 0
		fail := func(class, f string, a ...any) {
			if len(res.Fails) == 0 {
				res.FailAt = step
			}
			if len(res.Fails) < 8 {
				res.Fails = append(res.Fails, c30Fail{class, fmt.Sprintf(f, a...)})
			}
		}
		logf := func(f string, a ...any) {
			if keepLog {
				res.Log = append(res.Log, fmt.Sprintf(f, a...))
			}
		}
		// reference timeline of channel states (consecutive duplicates collapsed)
		timeline := []connectivity.State{connectivity.Idle}
		pubSeen, obsSeen, obsIdx, anomSeen := 0, 0, 0, 0
		push := func(s connectivity.State) {
			if timeline[len(timeline)-1] == connectivity.Shutdown {
				return // nothing is published after SHUTDOWN
			}
			if timeline[len(timeline)-1] != s {
				timeline = append(timeline, s)
			}
		}
		var lastObs *connectivity.State

		check := func(ev string, x c30Expect) {
			w.mu.Lock()
			defer w.mu.Unlock()
			// (0) recorder anomalies (callbacks overlapping, callbacks after Close, ...)
			for ; anomSeen < len(w.anom); anomSeen++ {
				cl := "policy-callback-protocol"
				switch a := w.anom[anomSeen]; {
				case strings.HasPrefix(a, "not-serialized"):
					cl = "policy-callbacks-not-serialized"
				case strings.HasPrefix(a, "after-close"):
					cl = "policy-callback-after-close"
				}
				fail(cl, "after %s: %s", ev, w.anom[anomSeen])
			}
			// (1) subchannel updates, per policy generation and subchannel
			for _, p := range w.pols {
				for _, rec := range p.scs {
					news := rec.Deliv[rec.seen:]
					prev := connectivity.Idle
					var prevT time.Duration
					if rec.seen > 0 {
						prev, prevT = rec.Deliv[rec.seen-1].St, rec.Deliv[rec.seen-1].T
					}
					var got []connectivity.State
					for _, d := range news {
						res.Updates++
						logf("  sub %d.%d: %v -> %v at %v (clk %d)", rec.Gen, rec.Idx, prev, d.St, d.T, d.Clk)
						if d.St == prev {
							fail("sub-duplicate-update", "after %s: subchannel %d was told %v twice in a row", ev, rec.Idx, d.St)
						} else {
							res.SubTrans[prev.String()+"->"+d.St.String()]++
							if !c30SubOK(prev, d.St) {
								fail("sub-illegal-transition/"+prev.String()+"->"+d.St.String(), "after %s: the LB policy was told that subchannel %d went %v -> %v, which is not an allowed transition (updates so far: %v)", ev, rec.Idx, prev, d.St, c30DelivStates(rec.Deliv))
							}
							if prev == connectivity.TransientFailure && d.St == connectivity.Idle {
								res.TFIdle++
								if d.T-prevT < c30Backoff {
									fail("sub-tf-left-before-backoff", "after %s: subchannel %d left TRANSIENT_FAILURE for IDLE after %v, the backoff is %v", ev, rec.Idx, d.T-prevT, c30Backoff)
								}
							}
						}
						if p.closed && d.Clk > p.closeClk {
							fail("sub-update-after-policy-close", "after %s: subchannel %d update %v reached the LB policy after it was closed (its subchannels are shut down)", ev, rec.Idx, d.St)
						}
						if rec.ShutdownClk != 0 && d.Clk > rec.ShutdownClk && d.St != connectivity.Shutdown {
							fail("sub-update-after-shutdown", "after %s: subchannel %d update %v arrived after SubConn.Shutdown() had returned", ev, rec.Idx, d.St)
						}
						got = append(got, d.St)
						prev, prevT = d.St, d.T
					}
					rec.seen = len(rec.Deliv)
					if rec.ShutdownClk != 0 {
						res.PostShut++
						if rec.afterShutdown > 1 {
							fail("sub-update-after-shutdown", "after %s: %d updates arrived for subchannel %d after SubConn.Shutdown() had returned (at most the final SHUTDOWN may)", ev, rec.afterShutdown, rec.Idx)
						}
					}
					var want, alt []connectivity.State
					if rec.Gen == x.Gen {
						want, alt = x.Deliv[rec.Idx], x.Alt[rec.Idx]
					}
					if !c30EqStates(got, want) && !(alt != nil && c30EqStates(got, alt)) {
						class := "sub-unexpected-update"
						if len(got) < len(want) && c30EqStates(got, want[:len(got)]) {
							class = "sub-update-missed"
						}
						fail(class, "after %s: the LB policy received %v for subchannel %d (policy instance %d) but the events so far require %v", ev, c30States(got), rec.Idx, rec.Gen, c30States(want))
					}
				}
			}
			// a subchannel the model expects updates for must exist
			if x.Gen >= 0 {
				if x.Gen >= len(w.pols) {
					fail("policy-missing", "after %s: no LB policy instance #%d was built", ev, x.Gen)
				} else if len(w.pols[x.Gen].scs) != cfg.N {
					fail("policy-missing", "after %s: policy instance #%d owns %d subchannels, want %d", ev, x.Gen, len(w.pols[x.Gen].scs), cfg.N)
				}
			}
			if len(w.pols) > m.Gen {
				fail("policy-unexpected", "after %s: %d LB policy instances were built, the events account for %d", ev, len(w.pols), m.Gen)
			}
			// (2) connection attempts in progress must be exactly the ones the events require
			for i := 0; i < cfg.N; i++ {
				real := w.pend[i] != nil
				if real != m.SC[i].Pending {
					fail("dial-activity", "after %s: connection attempt of subchannel %d in progress = %v, the events so far require %v", ev, i, real, m.SC[i].Pending)
				}
				if w.dials[i] != m.Dials[i] {
					fail("dial-activity", "after %s: %d connection attempts were started for address %d so far, the events require %d", ev, w.dials[i], i, m.Dials[i])
				}
			}
			// (3) channel state: most recently published state, allowed changes, watcher
			if x.ExitedIdle {
				push(connectivity.Connecting)
			}
			for ; pubSeen < len(w.pubs); pubSeen++ {
				pb := w.pubs[pubSeen]
				logf("  %s publishes %v (clk %d)", pb.Src, pb.St, pb.Clk)
				push(pb.St)
			}
			if x.EnteredIdle {
				push(connectivity.Idle)
			}
			if x.Closed {
				push(connectivity.Shutdown)
			}
			want := timeline[len(timeline)-1]
			got := cc.GetState()
			res.ChanChk++
			logf("  channel: GetState=%v reference=%v", got, want)
			if got != want {
				cl := "chan-getstate-stale"
				if want == connectivity.Shutdown {
					cl = "chan-left-shutdown"
				}
				fail(cl, "after %s: GetState() = %v but the most recently published channel state is %v (published sequence %v)", ev, got, want, c30States(timeline))
			}
			for ; obsSeen < len(w.obs); obsSeen++ {
				o := w.obs[obsSeen]
				res.WatchObs++
				if lastObs != nil && *lastObs != o.St {
					res.ChanTrans[lastObs.String()+"->"+o.St.String()]++
					if *lastObs == connectivity.Shutdown {
						fail("chan-left-shutdown", "after %s: the WaitForStateChange watcher saw the channel go SHUTDOWN -> %v", ev, o.St)
					}
				}
				// the watcher must see published states in publication order
				j := obsIdx
				for j < len(timeline) && timeline[j] != o.St {
					j++
				}
				if j == len(timeline) {
					fail("chan-watcher-unpublished-state", "after %s: the watcher observed %v, which is not a state published at or after its previous observation (published sequence %v, previous observation at position %d)", ev, o.St, c30States(timeline), obsIdx)
				} else {
					obsIdx = j
				}
				s := o.St
				lastObs = &s
				logf("  watcher sees %v (clk %d)", o.St, o.Clk)
			}
			if lastObs == nil || *lastObs != want {
				var l any = "nothing"
				if lastObs != nil {
					l = *lastObs
				}
				fail("chan-watcher-missed-change", "after %s: the watcher last saw %v and is blocked in WaitForStateChange although the channel state is %v", ev, l, want)
			}
		}

		synctest.Wait()
		check("start", c30Expect{Gen: -1})
		for _, e := range hist {
			if len(res.Fails) > 0 || len(res.Engine) > 0 {
				break
			}
			if !m.Applicable(e) {
				res.Engine = append(res.Engine, fmt.Sprintf("event %v is not applicable after %d events of %s", e, step, c30HistString(hist)))
				break
			}
			step++
			logf("event %d: %v at %v", step, e, time.Since(w.start))
			// the real system must offer what the event needs
			switch e.Kind {
			case c30EvDialOK, c30EvDialFail, c30EvDialHSFail:
				if !w.hasPending(e.I) {
					fail("dial-activity", "before %v: no connection attempt of subchannel %d is in progress although the events so far require one", e, e.I)
				}
			case c30EvGoAway, c30EvSrvClose:
				if w.liveConn(e.I) == nil {
					fail("connection-missing", "before %v: subchannel %d has no open connection although the events so far require one", e, e.I)
				}
			}
			if len(res.Fails) > 0 {
				break
			}
			x := m.Apply(e)
			switch e.Kind {
			case c30EvExitIdle:
				cc.Connect()
			case c30EvConnect, c30EvShutdown, c30EvConnFail, c30EvConnOK, c30EvUpdAddrs:
				cmd := &c30Cmd{Kind: e.Kind, I: e.I}
				w.mu.Lock()
				switch e.Kind {
				case c30EvConnFail:
					w.inst[e.I] = 1
				case c30EvConnOK:
					w.inst[e.I] = 2
				}
				w.cmd = cmd
				w.mu.Unlock()
				mr.UpdateState(rstate) // runs the command inside the policy's UpdateClientConnState
				synctest.Wait()
				if !cmd.done {
					res.Engine = append(res.Engine, fmt.Sprintf("command %v did not reach the LB policy (%s)", e, c30HistString(hist[:step])))
				}
			case c30EvDialOK:
				w.resolveDial(e.I, true, false)
			case c30EvDialHSFail:
				w.resolveDial(e.I, true, true)
			case c30EvDialFail:
				w.resolveDial(e.I, false, false)
			case c30EvGoAway:
				w.liveConn(e.I).peer.WriteGoAway(0, http2.ErrCodeNo, nil)
			case c30EvSrvClose:
				c := w.liveConn(e.I)
				c.closed = true
				c.peer.Close()
			case c30EvAdv:
				time.Sleep(c30AdvStep)
			case c30EvAdvIdle:
				time.Sleep(c30IdleTimeout)
			case c30EvClose:
				cc.Close()
			}
			synctest.Wait()
			check(e.String(), x)
		}
		// outcome class: final channel state + final subchannel states of the live policy
		var fs []string
		w.mu.Lock()
		if m.alive() && m.Gen-1 < len(w.pols) {
			for _, rec := range w.pols[m.Gen-1].scs {
				fs = append(fs, rec.last().String())
			}
		}
		w.mu.Unlock()
		res.Final = fmt.Sprintf("chan=%v sub=[%s] policies=%d", cc.GetState(), strings.Join(fs, ","), m.Gen)
	})
	return
}

func c30DelivStates(ds []c30Deliv) string {
	ss := make([]connectivity.State, len(ds))
	for i, d := range ds {
		ss[i] = d.St
	}
	return c30States(ss)
}

// c30Enumerate calls f for every history of exactly depth model-applicable
// events (the model decides applicability, so the enumeration is a pure
// function of the bounds); with sym, histories that differ only by renaming
// the two addresses are visited once (the first indexed event names address 0).
func c30Enumerate(cfg c30Cfg, depth int, hsFail, sym bool, f func(h []c30Ev)) {
	alpha := c30Alphabet(cfg.N, hsFail)
	h := make([]c30Ev, 0, depth)
	var rec func(m c30Model, usedIdx bool)
	rec = func(m c30Model, usedIdx bool) {
		if len(h) == depth {
			f(h)
			return
		}
		for _, e := range alpha {
			if !m.Applicable(e) {
				continue
			}
			u := usedIdx
			if e.I >= 0 {
				if sym && cfg.N == 2 && !usedIdx && e.I != 0 {
					continue
				}
				u = true
			}
			m2 := m
			m2.Apply(e)
			h = append(h, e)
			rec(m2, u)
			h = h[:len(h)-1]
		}
	}
	rec(c30NewModel(cfg.N, cfg.Auto), false)
}

func TestVerif_C30_StatesE4(t *testing.T) {
	const P = "C30"
	r := vk.Start(t, "c30_states_e4", "exploration", P)
	defer r.Finish()

	if r.ReplayFile() != "" {
		var rp c30Replay
		if err := r.LoadReplay(&rp); err != nil {
			r.EngineError("replay: %v", err)
			return
		}
		if rp.Cfg.N == 0 { // a replay of the schedule-exploration leg
			return
		}
		var h []c30Ev
		for _, s := range rp.Events {
			e, err := c30ParseEv(s)
			if err != nil {
				r.EngineError("replay: %v", err)
				return
			}
			h = append(h, e)
		}
		res := c30RunHistory(t, rp.Cfg, h, true)
		r.Eval(P, 1)
		fmt.Printf("replay config=%v events=%v\n%s\n", rp.Cfg, rp.Events, strings.Join(res.Log, "\n"))
		for _, e := range res.Engine {
			r.EngineError("%s", e)
		}
		for _, f := range res.Fails {
			fmt.Printf("FAIL %s: %s\n", f.Class, f.Desc)
			r.Violation(P, "e4/"+rp.Cfg.String()+"/"+f.Class, f.Desc, rp)
		}
		return
	}

	type plan struct {
		cfg    c30Cfg
		depth  int
		hsFail bool
		sym    bool
	}
	var plans []plan
	if r.Thorough() {
		plans = []plan{
			{c30Cfg{1, false}, 9, true, false},
			{c30Cfg{1, true}, 9, true, false},
			{c30Cfg{2, false}, 7, true, true},
			{c30Cfg{2, true}, 7, true, true},
		}
	} else {
		plans = []plan{
			{c30Cfg{1, false}, 7, true, false},
			{c30Cfg{1, true}, 6, true, false},
			{c30Cfg{2, false}, 6, true, true},
			{c30Cfg{2, true}, 5, true, true},
		}
	}
	var rule []string
	for _, p := range plans {
		sy := ""
		if p.sym {
			sy = " up to renaming the two addresses"
		}
		rule = append(rule, fmt.Sprintf("%v: every history of exactly %d events%s", p.cfg, p.depth, sy))
	}
	r.Rule(P, "event histories on a fresh real grpc.ClientConn (manual resolver with 1-2 addresses, recording LB policy with one SubConn per address, scripted blocking dialer, raw HTTP/2 server peers, idle timeout 2s, constant backoff 1s) inside a synctest bubble; alphabet {cc.Connect, policy sc[i].Connect (dial then waits for the script), policy sc[i].Connect with the dial failing / succeeding at once (IDLE subchannels only; two updates in one step), policy sc[i].Shutdown, policy cc.UpdateAddresses(sc[i], a different one-address list), dial[i] succeeds, dial[i] fails, dial[i] succeeds but the server closes without sending its HTTP/2 preface, server[i] GOAWAY, server[i] closes, advance 600ms, advance idle timeout, cc.Close}; only events applicable per the reference model (the first event of every history is necessarily cc.Connect, a time step or cc.Close: a fresh channel is idle); policy modes manual (acts only on scripted commands) / auto (ExitIdle connects every IDLE subchannel, the listener reconnects on IDLE). "+strings.Join(rule, "; ")+". The oracle is evaluated after every event (at quiescence). Non-trivial = distinct histories in which at least one connection attempt was resolved and at least 3 subchannel updates were checked")

	var evals, nontriv, updates, tfidle, postshut, chanchk, watchobs int64
	subTrans, chanTrans := map[string]int64{}, map[string]int64{}
	samples := 0
	idx := 0
	capped := false
	for _, p := range plans {
		c30Enumerate(p.cfg, p.depth, p.hsFail, p.sym, func(h []c30Ev) {
			i := idx
			idx++
			if !r.Mine(i) || capped {
				return
			}
			if r.OverBudget() {
				capped = true
				r.Cap(P, "soft time budget exhausted before all histories were run")
				return
			}
			res := c30RunHistory(t, p.cfg, h, false)
			evals++
			for _, e := range res.Engine {
				r.EngineError("%s", e)
			}
			if len(res.Fails) > 0 {
				fh := h
				if res.FailAt <= len(h) {
					fh = h[:res.FailAt]
				}
				rp := c30Replay{Cfg: p.cfg, Events: c30HistStrings(fh)}
				for _, f := range res.Fails {
					r.Violation(P, "e4/"+p.cfg.String()+"/"+f.Class, f.Desc+"\n  config: "+p.cfg.String()+"\n  history: "+c30HistString(fh), rp)
				}
			}
			resolved := false
			for _, e := range h {
				if e.Kind == c30EvDialOK || e.Kind == c30EvDialFail || e.Kind == c30EvDialHSFail || e.Kind == c30EvConnFail || e.Kind == c30EvConnOK {
					resolved = true
				}
			}
			if resolved && res.Updates >= 3 {
				nontriv++
				if samples < 3 && i%97 == 0 {
					samples++
					r.Sample(P, map[string]any{"config": p.cfg.String(), "history": c30HistString(h), "outcome": res.Final})
				}
			}
			updates += int64(res.Updates)
			tfidle += int64(res.TFIdle)
			postshut += int64(res.PostShut)
			chanchk += int64(res.ChanChk)
			watchobs += int64(res.WatchObs)
			for k, v := range res.SubTrans {
				subTrans[k] += int64(v)
			}
			for k, v := range res.ChanTrans {
				chanTrans[k] += int64(v)
			}
			r.Outcome(P, p.cfg.String()+" "+res.Final)
		})
	}
	r.Eval(P, evals)
	r.NontrivialN(P, nontriv)
	if s, _ := r.Shard(); s == 0 {
		r.AddInt(P, "e4_histories_enumerated", int64(idx))
	}
	r.AddInt(P, "e4_subchannel_updates_checked", updates)
	r.AddInt(P, "e4_tf_to_idle_backoff_checks", tfidle)
	r.AddInt(P, "e4_post_shutdown_checks", postshut)
	r.AddInt(P, "e4_channel_state_comparisons", chanchk)
	r.AddInt(P, "e4_watcher_observations", watchobs)
	r.Set(P, "e4_subchannel_transitions_delivered", c30SortedCounts(subTrans))
	r.Set(P, "e4_channel_transitions_seen_by_watcher", c30SortedCounts(chanTrans))
	if s, _ := r.Shard(); s == 0 {
		// one fully written-out history
		h := []c30Ev{{c30EvExitIdle, -1}, {c30EvDialFail, 0}, {c30EvAdv, -1}, {c30EvAdv, -1}, {c30EvConnect, 0}, {c30EvDialOK, 0}, {c30EvGoAway, 0}}
		res := c30RunHistory(t, c30Cfg{1, false}, h, true)
		r.Sample(P, map[string]any{"config": "n1/manual", "history": c30HistString(h), "log": res.Log})
	}
	r.Assume(P, "history leg: the reference model (c30_model_test.go) is written from the statement and the gRPC connectivity-semantics document; CONNECTING->IDLE is accepted only for a connection that was established and lost within one step (documented grpc-go behaviour, issue 7862)")
	r.Assume(P, "history leg: events are issued at quiescence (synctest.Wait), so at most one environment event is in flight; interleavings inside one step are those the Go scheduler produces with GOMAXPROCS=1 (schedule coverage is the E1 leg's job); no RPCs are made, the channel enters idle purely by timeout")
}

func c30SortedCounts(m map[string]int64) map[string]int64 {
	// maps are marshalled with sorted keys; copy to keep the caller's map private
	o := map[string]int64{}
	ks := make([]string, 0, len(m))
	for k := range m {
		ks = append(ks, k)
	}
	sort.Strings(ks)
	for _, k := range ks {
		o[k] = m[k]
	}
	return o
}
