//go:build verif

package transport

import (
	"fmt"
	"sync"
	"sync/atomic"
	"testing"
	"unicode/utf8"

	"google.golang.org/grpc/internal/verif/vk"
)

// ---- C08: grpc-message percent-encoding is a lossless printable-ASCII round trip ----

func c08Check(m string) string {
	var enc, dec string
	var pan any
	func() {
		defer func() { pan = recover() }()
		enc = encodeGrpcMessage(m)
	}()
	if pan != nil {
		return fmt.Sprintf("encodeGrpcMessage(%q) panicked: %v", m, pan)
	}
	for i := 0; i < len(enc); i++ {
		if enc[i] < 0x20 || enc[i] > 0x7e {
			return fmt.Sprintf("encodeGrpcMessage(%q)=%q contains non-printable byte 0x%02x", m, enc, enc[i])
		}
	}
	func() {
		defer func() { pan = recover() }()
		dec = decodeGrpcMessage(enc)
	}()
	if pan != nil {
		return fmt.Sprintf("decodeGrpcMessage(%q) panicked: %v", enc, pan)
	}
	// specification: valid UTF-8 survives; each invalid byte becomes U+FFFD.
	// string([]rune(m)) is the stdlib's independent statement of exactly that.
	want := string([]rune(m))
	if dec != want {
		return fmt.Sprintf("decode(encode(%q)) = %q, want %q (encoded %q)", m, dec, want, enc)
	}
	// decoding the raw string as a header value must be total
	func() {
		defer func() { pan = recover() }()
		_ = decodeGrpcMessage(m)
	}()
	if pan != nil {
		return fmt.Sprintf("decodeGrpcMessage(%q) panicked: %v", m, pan)
	}
	return ""
}

func TestVerif_C08_GrpcMessage(t *testing.T) {
	const P = "C08"
	r := vk.Start(t, "c08_grpcmessage", "exploration", P)
	defer r.Finish()
	r.Rule(P, "every byte string of length<=3 over all 256 byte values, and every string of length<=L (quick 5, thorough 6) over {a,' ',%,2,5,F,G,0x7f,0xC3,0xA9,0xE2,0x82,0xAC,0xFF,0x80}; each is encoded, checked printable, decoded and compared with string([]rune(m)); each is also fed raw to the decoder; non-trivial = inputs that need escaping (contain a byte outside 0x20..0x7E or a '%')")
	if f := r.ReplayFile(); f != "" {
		var rp struct{ M []byte }
		if err := r.LoadReplay(&rp); err != nil {
			r.EngineError("replay: %v", err)
			return
		}
		msg := c08Check(string(rp.M))
		r.Eval(P, 1)
		if msg != "" {
			r.Violation(P, "replay", msg, rp)
		}
		fmt.Println("replay:", msg)
		return
	}
	var mu sync.Mutex
	var evals, nontriv, invalid atomic.Int64
	check := func(m string) {
		evals.Add(1)
		esc := false
		for i := 0; i < len(m); i++ {
			if m[i] < 0x20 || m[i] > 0x7e || m[i] == '%' {
				esc = true
				break
			}
		}
		if esc {
			nontriv.Add(1)
		}
		if !utf8.ValidString(m) {
			invalid.Add(1)
		}
		if msg := c08Check(m); msg != "" {
			mu.Lock()
			r.Violation(P, fmt.Sprintf("msg=%x", m), msg, map[string]any{"M": []byte(m)})
			mu.Unlock()
		}
	}
	parRange(0, 1+256+65536+256*256*256, func(i int64) {
		switch {
		case i == 0:
			check("")
		case i < 257:
			check(string([]byte{byte(i - 1)}))
		case i < 257+65536:
			j := i - 257
			check(string([]byte{byte(j >> 8), byte(j)}))
		default:
			j := i - 257 - 65536
			check(string([]byte{byte(j >> 16), byte(j >> 8), byte(j)}))
		}
	})
	alpha := []byte{'a', ' ', '%', '2', '5', 'F', 'G', 0x7f, 0xC3, 0xA9, 0xE2, 0x82, 0xAC, 0xFF, 0x80}
	L := r.Pick(5, 6)
	for l := 4; l <= L; l++ {
		total := int64(1)
		for i := 0; i < l; i++ {
			total *= int64(len(alpha))
		}
		parRange(0, total, func(i int64) {
			b := make([]byte, l)
			x := i
			for k := l - 1; k >= 0; k-- {
				b[k] = alpha[x%int64(len(alpha))]
				x /= int64(len(alpha))
			}
			check(string(b))
		})
	}
	r.Eval(P, evals.Load())
	r.NontrivialN(P, nontriv.Load())
	r.Set(P, "inputs_with_invalid_utf8", invalid.Load())
	r.Sample(P, map[string]any{"m": "a%é", "encoded": encodeGrpcMessage("a%é")})
	r.Sample(P, map[string]any{"m_hex": "ff80", "encoded": encodeGrpcMessage("\xff\x80"), "decoded": decodeGrpcMessage(encodeGrpcMessage("\xff\x80"))})
	r.Sample(P, map[string]any{"raw_header": "%G1%", "decoded": decodeGrpcMessage("%G1%")})
}
