//go:build verif

package transport

import (
	"fmt"
	"math"
	"math/big"
	"regexp"
	"runtime"
	"sync"
	"testing"
	"time"

	"google.golang.org/grpc/internal/grpcutil"
	"google.golang.org/grpc/internal/verif/vk"
)

// ---- C07: grpc-timeout encoding never shortens a deadline and always decodes ----

var c07Units = map[byte]*big.Int{
	'H': big.NewInt(int64(time.Hour)), 'M': big.NewInt(int64(time.Minute)), 'S': big.NewInt(int64(time.Second)),
	'm': big.NewInt(int64(time.Millisecond)), 'u': big.NewInt(int64(time.Microsecond)), 'n': big.NewInt(1),
}

var c07Accept = regexp.MustCompile(`^[0-9]{1,8}[HMSmun]$`)

// c07RefDecode is the specification of decoding, written with big integers:
// accept exactly 1-8 ASCII digits + unit; value n*unit clamped to MaxInt64.
func c07RefDecode(s string) (ok bool, v *big.Int) {
	if !c07Accept.MatchString(s) {
		return false, nil
	}
	n, _ := new(big.Int).SetString(s[:len(s)-1], 10)
	v = new(big.Int).Mul(n, c07Units[s[len(s)-1]])
	if v.Cmp(big.NewInt(math.MaxInt64)) > 0 {
		v = big.NewInt(math.MaxInt64)
	}
	return true, v
}

func c07SafeDecode(s string) (d time.Duration, err error, panicked any) {
	defer func() {
		if p := recover(); p != nil {
			panicked = p
		}
	}()
	d, err = decodeTimeout(s)
	return
}

// c07CheckEncode checks one positive duration; returns "" or a violation text.
func c07CheckEncode(d time.Duration) string {
	var enc string
	var pan any
	func() {
		defer func() { pan = recover() }()
		enc = grpcutil.EncodeDuration(d)
	}()
	if pan != nil {
		return fmt.Sprintf("EncodeDuration(%d) panicked: %v", int64(d), pan)
	}
	ok, ref := c07RefDecode(enc)
	if !ok {
		return fmt.Sprintf("EncodeDuration(%d)=%q is not 1-8 digits + unit", int64(d), enc)
	}
	got, err, p := c07SafeDecode(enc)
	if p != nil || err != nil {
		return fmt.Sprintf("EncodeDuration(%d)=%q does not decode: err=%v panic=%v", int64(d), enc, err, p)
	}
	if big.NewInt(int64(got)).Cmp(ref) != 0 {
		return fmt.Sprintf("decodeTimeout(%q)=%d, specification value %s", enc, int64(got), ref)
	}
	// d <= d' < d + unit  (big arithmetic: d+unit may exceed int64)
	bd := big.NewInt(int64(d))
	if ref.Cmp(bd) < 0 {
		return fmt.Sprintf("EncodeDuration(%d)=%q decodes to %s which SHORTENS the deadline", int64(d), enc, ref)
	}
	hi := new(big.Int).Add(bd, c07Units[enc[len(enc)-1]])
	if ref.Cmp(hi) >= 0 {
		return fmt.Sprintf("EncodeDuration(%d)=%q decodes to %s, not < d + one unit (%s)", int64(d), enc, ref, hi)
	}
	return ""
}

func c07CheckDecode(s string) string {
	got, err, p := c07SafeDecode(s)
	if p != nil {
		return fmt.Sprintf("decodeTimeout(%q) panicked: %v", s, p)
	}
	ok, ref := c07RefDecode(s)
	if ok != (err == nil) {
		return fmt.Sprintf("decodeTimeout(%q): accepted=%v, specification says accepted=%v (err=%v)", s, err == nil, ok, err)
	}
	if err == nil {
		if got < 0 {
			return fmt.Sprintf("decodeTimeout(%q) = %d is negative", s, int64(got))
		}
		if big.NewInt(int64(got)).Cmp(ref) != 0 {
			return fmt.Sprintf("decodeTimeout(%q) = %d, specification value %s", s, int64(got), ref)
		}
	}
	return ""
}

// parRange runs f(i) for i in [lo,hi) on all CPUs in contiguous chunks.
func parRange(lo, hi int64, f func(i int64)) {
	n := int64(runtime.GOMAXPROCS(0))
	if n < 1 {
		n = 1
	}
	var wg sync.WaitGroup
	chunk := (hi - lo + n - 1) / n
	for w := int64(0); w < n; w++ {
		a, b := lo+w*chunk, lo+(w+1)*chunk
		if b > hi {
			b = hi
		}
		if a >= b {
			continue
		}
		wg.Add(1)
		go func() {
			defer wg.Done()
			for i := a; i < b; i++ {
				f(i)
			}
		}()
	}
	wg.Wait()
}

func TestVerif_C07_Timeout(t *testing.T) {
	const P = "C07"
	r := vk.Start(t, "c07_timeout", "exploration", P)
	defer r.Finish()
	r.Rule(P, "encode: every duration in the listed windows (around 0, around each unit threshold 1e8*unit, around k*unit for k in 1..K and powers of ten, top of int64), oracle in math/big; decode: every byte string of length<=3 over all 256 bytes, every string of length<=6 (quick) / <=7 (thorough) over {0,1,9,H,M,S,m,u,n,' ',+,-,x,_}, digit strings of length 7-10 over {0,9} x every final byte; non-trivial = encoder inputs whose encoding needs rounding up (d not a multiple of the chosen unit) plus decoder inputs the specification accepts")
	var mu sync.Mutex
	viol := func(key, desc string, replay any) {
		mu.Lock()
		r.Violation(P, key, desc, replay)
		mu.Unlock()
	}
	var evals, nontriv int64
	var cm sync.Mutex
	encode := func(lo, hi int64) {
		var le, ln int64
		var lmu sync.Mutex
		parRange(lo, hi, func(i int64) {
			d := time.Duration(i)
			var e, n int64
			e++
			if i > 0 {
				if msg := c07CheckEncode(d); msg != "" {
					viol(fmt.Sprintf("encode d=%d", i), msg, map[string]any{"kind": "encode", "d": i})
				}
				enc := grpcutil.EncodeDuration(d)
				if len(enc) > 0 {
					if u := c07Units[enc[len(enc)-1]]; u != nil && new(big.Int).Mod(big.NewInt(i), u).Sign() != 0 {
						n++
					}
				}
			} else {
				// non-positive: must still be decodable and not negative
				enc := grpcutil.EncodeDuration(d)
				if msg := c07CheckDecode(enc); msg != "" {
					viol(fmt.Sprintf("encode d=%d", i), msg, map[string]any{"kind": "encode", "d": i})
				}
			}
			lmu.Lock()
			le += e
			ln += n
			lmu.Unlock()
		})
		cm.Lock()
		evals += le
		nontriv += ln
		cm.Unlock()
	}
	if f := r.ReplayFile(); f != "" {
		var rp struct {
			Kind string `json:"kind"`
			D    int64  `json:"d"`
			S    string `json:"s"`
		}
		if err := r.LoadReplay(&rp); err != nil {
			r.EngineError("replay: %v", err)
			return
		}
		var msg string
		if rp.Kind == "encode" {
			msg = c07CheckEncode(time.Duration(rp.D))
		} else {
			msg = c07CheckDecode(rp.S)
		}
		r.Eval(P, 1)
		if msg != "" {
			r.Violation(P, "replay", msg, rp)
		}
		fmt.Println("replay:", msg)
		return
	}
	w := int64(r.Pick(1<<10, 1<<12)) // half-width of windows
	// window around zero
	encode(-(1 << 16), 1<<int64(r.Pick(20, 23)))
	// around each unit threshold 1e8*unit and the neighbouring 99999999*unit
	units := []int64{1, int64(time.Microsecond), int64(time.Millisecond), int64(time.Second), int64(time.Minute), int64(time.Hour)}
	for _, u := range units {
		for _, k := range []int64{99999999, 100000000} {
			if k > math.MaxInt64/u {
				continue
			}
			c := k * u
			lo, hi := c-w, c+w
			if hi < c { // overflow
				hi = math.MaxInt64
			}
			encode(lo, hi)
		}
		// around k*unit for k in 1..K and powers of ten
		K := int64(r.Pick(64, 1024))
		ks := []int64{}
		for k := int64(1); k <= K; k++ {
			ks = append(ks, k)
		}
		for p := int64(10); p < 100000000; p *= 10 {
			ks = append(ks, p, p-1, p+1)
		}
		sw := int64(r.Pick(8, 64))
		for _, k := range ks {
			if k > (math.MaxInt64-sw)/u {
				continue
			}
			encode(k*u-sw, k*u+sw+1)
		}
	}
	// top of int64
	encode(math.MaxInt64-4*w, math.MaxInt64)
	for _, d := range []int64{math.MaxInt64, math.MaxInt64 - 1, math.MinInt64} {
		encode(d, d) // no-op range; check singly below
		if d > 0 {
			if msg := c07CheckEncode(time.Duration(d)); msg != "" {
				viol(fmt.Sprintf("encode d=%d", d), msg, map[string]any{"kind": "encode", "d": d})
			}
			evals++
		}
	}

	// ---- decode domain ----
	var devals, daccepted int64
	decode1 := func(s string) {
		if msg := c07CheckDecode(s); msg != "" {
			viol(fmt.Sprintf("decode %q", s), msg, map[string]any{"kind": "decode", "s": s})
		}
	}
	// all byte strings of length <= 3
	parRange(0, 1+256+256*256+256*256*256, func(i int64) {
		var s string
		switch {
		case i == 0:
			s = ""
		case i < 1+256:
			s = string([]byte{byte(i - 1)})
		case i < 1+256+65536:
			j := i - 257
			s = string([]byte{byte(j >> 8), byte(j)})
		default:
			j := i - 257 - 65536
			s = string([]byte{byte(j >> 16), byte(j >> 8), byte(j)})
		}
		decode1(s)
	})
	devals += 1 + 256 + 65536 + 256*256*256
	alpha := []byte("019HMSmun +-x_")
	L := r.Pick(6, 7)
	for l := 4; l <= L; l++ {
		total := int64(1)
		for i := 0; i < l; i++ {
			total *= int64(len(alpha))
		}
		parRange(0, total, func(i int64) {
			b := make([]byte, l)
			x := i
			for k := l - 1; k >= 0; k-- {
				b[k] = alpha[x%int64(len(alpha))]
				x /= int64(len(alpha))
			}
			decode1(string(b))
		})
		devals += total
	}
	for l := 7; l <= 10; l++ {
		for m := 0; m < 1<<l; m++ {
			b := make([]byte, l+1)
			for k := 0; k < l; k++ {
				if m>>k&1 == 1 {
					b[k] = '9'
				} else {
					b[k] = '0'
				}
			}
			for last := 0; last < 256; last++ {
				b[l] = byte(last)
				s := string(b)
				decode1(s)
				devals++
				if ok, _ := c07RefDecode(s); ok {
					daccepted++
				}
			}
		}
	}
	// accepted count over the small domains (cheap recount, sequential)
	for _, u := range []byte("HMSmun") {
		for n := 0; n < 100; n++ {
			for _, s := range []string{fmt.Sprintf("%d%c", n, u), fmt.Sprintf("%02d%c", n, u)} {
				if len(s) <= 3 {
					if ok, _ := c07RefDecode(s); ok {
						daccepted++
					}
				}
			}
		}
	}
	r.Eval(P, evals+devals)
	r.NontrivialN(P, nontriv+daccepted)
	r.Set(P, "encode_inputs", evals)
	r.Set(P, "decode_inputs", devals)
	r.Set(P, "encode_inputs_needing_roundup", nontriv)
	r.Set(P, "decode_inputs_accepted_by_spec_counted", daccepted)
	r.Sample(P, map[string]any{"encode": int64(99999999*time.Second) + 1, "encoded": grpcutil.EncodeDuration(99999999*time.Second + 1)})
	r.Sample(P, map[string]any{"encode": int64(math.MaxInt64), "encoded": grpcutil.EncodeDuration(math.MaxInt64)})
	r.Sample(P, map[string]any{"decode": "99999999H", "spec": "clamped to MaxInt64"})
	r.Sample(P, map[string]any{"decode": "+1S", "spec": "rejected"})
	r.Assume(P, "EncodeDuration is piecewise linear between the enumerated breakpoints (unit thresholds, unit multiples); durations outside the windows are not enumerated")
}
