//go:build verif

package xdsresource

// C45 generators: Listener (LDS) and Cluster (CDS).

import (
	"math"

	v3clusterpb "github.com/envoyproxy/go-control-plane/envoy/config/cluster/v3"
	v3corepb "github.com/envoyproxy/go-control-plane/envoy/config/core/v3"
	v3endpointpb "github.com/envoyproxy/go-control-plane/envoy/config/endpoint/v3"
	v3listenerpb "github.com/envoyproxy/go-control-plane/envoy/config/listener/v3"
	v3routepb "github.com/envoyproxy/go-control-plane/envoy/config/route/v3"
	v3aggregateclusterpb "github.com/envoyproxy/go-control-plane/envoy/extensions/clusters/aggregate/v3"
	v3faultpb "github.com/envoyproxy/go-control-plane/envoy/extensions/filters/http/fault/v3"
	v3routerpb "github.com/envoyproxy/go-control-plane/envoy/extensions/filters/http/router/v3"
	v3httppb "github.com/envoyproxy/go-control-plane/envoy/extensions/filters/network/http_connection_manager/v3"
	v3leastrequestpb "github.com/envoyproxy/go-control-plane/envoy/extensions/load_balancing_policies/least_request/v3"
	v3pickfirstpb "github.com/envoyproxy/go-control-plane/envoy/extensions/load_balancing_policies/pick_first/v3"
	v3ringhashpb "github.com/envoyproxy/go-control-plane/envoy/extensions/load_balancing_policies/ring_hash/v3"
	v3roundrobinpb "github.com/envoyproxy/go-control-plane/envoy/extensions/load_balancing_policies/round_robin/v3"
	v3wrrlocalitypb "github.com/envoyproxy/go-control-plane/envoy/extensions/load_balancing_policies/wrr_locality/v3"
	v3tlspb "github.com/envoyproxy/go-control-plane/envoy/extensions/transport_sockets/tls/v3"
	v3matcherpb "github.com/envoyproxy/go-control-plane/envoy/type/matcher/v3"
	"google.golang.org/protobuf/proto"
	"google.golang.org/protobuf/types/known/anypb"
	"google.golang.org/protobuf/types/known/durationpb"
	"google.golang.org/protobuf/types/known/structpb"
	"google.golang.org/protobuf/types/known/wrapperspb"

	_ "google.golang.org/grpc/internal/xds/httpfilter/fault"               // client-side, non-terminal HTTP filter
	_ "google.golang.org/grpc/internal/xds/httpfilter/router"              // terminal HTTP filter
	_ "google.golang.org/grpc/internal/xds/xdsclient/xdslbregistry/converter" // load_balancing_policy converters + the LB policies they name
)

func c45Any(m proto.Message) *anypb.Any {
	a, err := anypb.New(m)
	if err != nil {
		panic("c45 harness: anypb.New: " + err.Error())
	}
	return a
}

var c45AdsSource = &v3corepb.ConfigSource{ConfigSourceSpecifier: &v3corepb.ConfigSource_Ads{Ads: &v3corepb.AggregatedConfigSource{}}}
var c45SelfSource = &v3corepb.ConfigSource{ConfigSourceSpecifier: &v3corepb.ConfigSource_Self{Self: &v3corepb.SelfConfigSource{}}}
var c45PathSource = &v3corepb.ConfigSource{ConfigSourceSpecifier: &v3corepb.ConfigSource_Path{Path: "/x"}}

// ---------------------------------------------------------------- LDS

// c45HTTPFilter menu: router, router flagged optional, fault (non-terminal,
// client only), unknown required, unknown optional, nameless router.
func c45HTTPFilter(k int, name string) *v3httppb.HttpFilter {
	router := &v3httppb.HttpFilter_TypedConfig{TypedConfig: c45Any(&v3routerpb.Router{})}
	unknown := &v3httppb.HttpFilter_TypedConfig{TypedConfig: &anypb.Any{TypeUrl: "type.googleapis.com/c45.UnknownFilter"}}
	switch k {
	case 0:
		return &v3httppb.HttpFilter{Name: name, ConfigType: router}
	case 1:
		return &v3httppb.HttpFilter{Name: name, ConfigType: router, IsOptional: true}
	case 2:
		return &v3httppb.HttpFilter{Name: name, ConfigType: &v3httppb.HttpFilter_TypedConfig{TypedConfig: c45Any(&v3faultpb.HTTPFault{})}}
	case 3:
		return &v3httppb.HttpFilter{Name: name, ConfigType: unknown}
	case 4:
		return &v3httppb.HttpFilter{Name: name, ConfigType: unknown, IsOptional: true}
	}
	return &v3httppb.HttpFilter{Name: "", ConfigType: router}
}

const c45HTTPFilterKinds = 6

// c45HCM: route specifier kinds {none, rds/ads, rds/self, rds/path, rds with
// empty name, inline route configuration (reduced grammar), scoped routes} x
// http filter lists (0..2 filters from the menu, second filter with the same
// or another name) x xff_num_trusted_hops {0,1} x original ip detection {0,1}
// x max stream duration {unset, 1s}.
func c45HCM(c *c45Ch, full bool) *v3httppb.HttpConnectionManager {
	h := &v3httppb.HttpConnectionManager{}
	switch c.N(7) {
	case 1:
		h.RouteSpecifier = &v3httppb.HttpConnectionManager_Rds{Rds: &v3httppb.Rds{ConfigSource: c45AdsSource, RouteConfigName: "r"}}
	case 2:
		h.RouteSpecifier = &v3httppb.HttpConnectionManager_Rds{Rds: &v3httppb.Rds{ConfigSource: c45SelfSource, RouteConfigName: "r"}}
	case 3:
		h.RouteSpecifier = &v3httppb.HttpConnectionManager_Rds{Rds: &v3httppb.Rds{ConfigSource: c45PathSource, RouteConfigName: "r"}}
	case 4:
		h.RouteSpecifier = &v3httppb.HttpConnectionManager_Rds{Rds: &v3httppb.Rds{ConfigSource: c45AdsSource}}
	case 5:
		h.RouteSpecifier = &v3httppb.HttpConnectionManager_RouteConfig{RouteConfig: c45SmallRouteConfig(c)}
	case 6:
		h.RouteSpecifier = &v3httppb.HttpConnectionManager_ScopedRoutes{ScopedRoutes: &v3httppb.ScopedRoutes{Name: "s"}}
	}
	n := c.N(3)
	for i := 0; i < n; i++ {
		name := "f0"
		if i == 1 && c.Bool() {
			name = "f1"
		}
		h.HttpFilters = append(h.HttpFilters, c45HTTPFilter(c.N(c45HTTPFilterKinds), name))
	}
	if full {
		if c.Bool() {
			h.XffNumTrustedHops = 1
		}
		if c.Bool() {
			h.OriginalIpDetectionExtensions = []*v3corepb.TypedExtensionConfig{{Name: "x"}}
		}
		if c.Bool() {
			h.CommonHttpProtocolOptions = &v3corepb.HttpProtocolOptions{MaxStreamDuration: durationpb.New(1e9)}
		}
	}
	return h
}

var c45GoodServerHCM = &v3httppb.HttpConnectionManager{
	RouteSpecifier: &v3httppb.HttpConnectionManager_Rds{Rds: &v3httppb.Rds{ConfigSource: c45AdsSource, RouteConfigName: "r"}},
	HttpFilters:    []*v3httppb.HttpFilter{c45HTTPFilter(0, "router")},
}

func c45NetFilter(name string, m proto.Message) *v3listenerpb.Filter {
	return &v3listenerpb.Filter{Name: name, ConfigType: &v3listenerpb.Filter_TypedConfig{TypedConfig: c45Any(m)}}
}

const c45NetFilterKinds = 12

// c45NetFilters: network filter lists of a filter chain.
func c45NetFilters(k int) []*v3listenerpb.Filter {
	good := c45NetFilter("hcm", c45GoodServerHCM)
	switch k {
	case 0:
		return []*v3listenerpb.Filter{good}
	case 1: // inline route configuration with a non-forwarding route
		h := proto.Clone(c45GoodServerHCM).(*v3httppb.HttpConnectionManager)
		h.RouteSpecifier = &v3httppb.HttpConnectionManager_RouteConfig{RouteConfig: c45SmallRouteConfigFixed(2)}
		return []*v3listenerpb.Filter{c45NetFilter("hcm", h)}
	case 2:
		return nil
	case 3:
		return []*v3listenerpb.Filter{c45NetFilter("tcp", &v3routerpb.Router{})} // not an HCM
	case 4:
		return []*v3listenerpb.Filter{good, good} // duplicate name
	case 5:
		return []*v3listenerpb.Filter{good, c45NetFilter("hcm2", c45GoodServerHCM)}
	case 6:
		return []*v3listenerpb.Filter{c45NetFilter("", c45GoodServerHCM)}
	case 7:
		return []*v3listenerpb.Filter{{Name: "disc", ConfigType: &v3listenerpb.Filter_ConfigDiscovery{ConfigDiscovery: &v3corepb.ExtensionConfigSource{}}}}
	case 8:
		h := proto.Clone(c45GoodServerHCM).(*v3httppb.HttpConnectionManager)
		h.XffNumTrustedHops = 1
		return []*v3listenerpb.Filter{c45NetFilter("hcm", h)}
	case 9:
		h := proto.Clone(c45GoodServerHCM).(*v3httppb.HttpConnectionManager)
		h.RouteSpecifier = nil
		return []*v3listenerpb.Filter{c45NetFilter("hcm", h)}
	case 10:
		h := proto.Clone(c45GoodServerHCM).(*v3httppb.HttpConnectionManager)
		h.HttpFilters = nil
		return []*v3listenerpb.Filter{c45NetFilter("hcm", h)}
	}
	// HCM with garbage bytes
	return []*v3listenerpb.Filter{{Name: "hcm", ConfigType: &v3listenerpb.Filter_TypedConfig{TypedConfig: &anypb.Any{TypeUrl: version3HCM, Value: []byte{0x0a, 0xff}}}}}
}

const version3HCM = "type.googleapis.com/envoy.extensions.filters.network.http_connection_manager.v3.HttpConnectionManager"

func c45SmallRouteConfigFixed(action int) *v3routepb.RouteConfiguration {
	c := &c45Ch{vec: []uint8{0, uint8(action)}, max: make([]uint8, 2)}
	return c45SmallRouteConfig(c)
}

const c45MatchMenu = 14

func c45Cidr(addr string, l uint32) []*v3corepb.CidrRange {
	return []*v3corepb.CidrRange{{AddressPrefix: addr, PrefixLen: c45U32(l)}}
}

// c45FCMatch: filter chain match menu.
func c45FCMatch(k int) *v3listenerpb.FilterChainMatch {
	switch k {
	case 0:
		return nil
	case 1:
		return &v3listenerpb.FilterChainMatch{DestinationPort: c45U32(1)}
	case 2:
		return &v3listenerpb.FilterChainMatch{PrefixRanges: c45Cidr("10.0.0.0", 8)}
	case 3:
		return &v3listenerpb.FilterChainMatch{PrefixRanges: c45Cidr("not-an-ip", 8)}
	case 4:
		return &v3listenerpb.FilterChainMatch{PrefixRanges: c45Cidr("10.0.0.0", 33)}
	case 5:
		return &v3listenerpb.FilterChainMatch{ServerNames: []string{"s"}}
	case 6:
		return &v3listenerpb.FilterChainMatch{TransportProtocol: "raw_buffer"}
	case 7:
		return &v3listenerpb.FilterChainMatch{TransportProtocol: "tls"}
	case 8:
		return &v3listenerpb.FilterChainMatch{ApplicationProtocols: []string{"h2"}}
	case 9:
		return &v3listenerpb.FilterChainMatch{SourceType: v3listenerpb.FilterChainMatch_EXTERNAL}
	case 10:
		return &v3listenerpb.FilterChainMatch{SourceType: v3listenerpb.FilterChainMatch_ConnectionSourceType(3)}
	case 11:
		return &v3listenerpb.FilterChainMatch{SourcePrefixRanges: c45Cidr("::ffff:10.0.0.1", 128)}
	case 12:
		return &v3listenerpb.FilterChainMatch{SourcePorts: []uint32{80, 80, 70000}}
	}
	return &v3listenerpb.FilterChainMatch{PrefixRanges: c45Cidr("::", 129), SourcePrefixRanges: c45Cidr("0.0.0.0", 0)}
}

const c45DownTLSKinds = 9

// c45DownstreamTS: transport socket menu of a filter chain.
func c45DownstreamTS(k int) *v3corepb.TransportSocket {
	ts := func(name string, a *anypb.Any) *v3corepb.TransportSocket {
		return &v3corepb.TransportSocket{Name: name, ConfigType: &v3corepb.TransportSocket_TypedConfig{TypedConfig: a}}
	}
	good := &v3tlspb.CommonTlsContext{TlsCertificateProviderInstance: &v3tlspb.CertificateProviderPluginInstance{InstanceName: "id"}}
	switch k {
	case 0:
		return nil
	case 1:
		return ts("other", c45Any(&v3tlspb.DownstreamTlsContext{CommonTlsContext: good}))
	case 2:
		return ts("envoy.transport_sockets.tls", c45Any(&v3tlspb.UpstreamTlsContext{}))
	case 3:
		return ts("envoy.transport_sockets.tls", &anypb.Any{TypeUrl: "type.googleapis.com/envoy.extensions.transport_sockets.tls.v3.DownstreamTlsContext", Value: []byte{0x0a, 0x05, 0x01}})
	case 4:
		return ts("envoy.transport_sockets.tls", c45Any(&v3tlspb.DownstreamTlsContext{}))
	case 5:
		return ts("envoy.transport_sockets.tls", c45Any(&v3tlspb.DownstreamTlsContext{CommonTlsContext: good, RequireSni: wrapperspb.Bool(true)}))
	case 6:
		return ts("envoy.transport_sockets.tls", c45Any(&v3tlspb.DownstreamTlsContext{CommonTlsContext: good}))
	case 7:
		return ts("envoy.transport_sockets.tls", c45Any(&v3tlspb.DownstreamTlsContext{CommonTlsContext: good, RequireClientCertificate: wrapperspb.Bool(true)}))
	}
	return ts("envoy.transport_sockets.tls", c45Any(&v3tlspb.DownstreamTlsContext{CommonTlsContext: &v3tlspb.CommonTlsContext{
		TlsCertificateProviderInstance: &v3tlspb.CertificateProviderPluginInstance{InstanceName: "id"},
		ValidationContextType: &v3tlspb.CommonTlsContext_ValidationContext{ValidationContext: &v3tlspb.CertificateValidationContext{
			CaCertificateProviderInstance: &v3tlspb.CertificateProviderPluginInstance{InstanceName: "root"},
			MatchSubjectAltNames:          []*v3matcherpb.StringMatcher{{MatchPattern: &v3matcherpb.StringMatcher_Exact{Exact: "san"}}},
		}}}, OcspStaplePolicy: v3tlspb.DownstreamTlsContext_STRICT_STAPLING}))
}

func c45SocketAddr(a string, p uint32) *v3corepb.Address {
	return &v3corepb.Address{Address: &v3corepb.Address_SocketAddress{SocketAddress: &v3corepb.SocketAddress{Address: a, PortSpecifier: &v3corepb.SocketAddress_PortValue{PortValue: p}}}}
}

// c45GenLDS:
//
//	client side: api_listener {HCM (c45HCM grammar), wrong type, garbage bytes, empty}; name {set, empty}
//	server side: <=2 filter chains, each match menu (14) x network filter lists (12; quick with two chains: 6) x transport socket menu
//	  (quick: 3 for one chain, 1 for two chains; thorough: 9 / 3); default filter chain {none, valid, invalid};
//	  for <=1 chain additionally address {socket, pipe, none} x listener_filters {0,1} x use_original_dst {unset,true}
func c45GenLDS(c *c45Ch) proto.Message {
	lis := &v3listenerpb.Listener{Name: "listener-c45"}
	if c.N(2) == 0 {
		// client side
		switch c.N(4) {
		case 0:
			lis.ApiListener = &v3listenerpb.ApiListener{ApiListener: c45Any(c45HCM(c, true))}
		case 1:
			lis.ApiListener = &v3listenerpb.ApiListener{ApiListener: c45Any(&v3routerpb.Router{})}
		case 2:
			lis.ApiListener = &v3listenerpb.ApiListener{ApiListener: &anypb.Any{TypeUrl: version3HCM, Value: []byte{0x12, 0x7f, 0x00}}}
		case 3:
			lis.ApiListener = &v3listenerpb.ApiListener{}
			if c.Bool() {
				lis.Name = ""
			}
		}
		return lis
	}
	lis.Address = c45SocketAddr("0.0.0.0", 8080)
	nfc := c.N(3)
	tsMenu := []int{0, c.Q(3, c45DownTLSKinds), c.Q(1, 3)}[nfc]
	tsPick := []int{0, 1, 6, 2, 3, 4, 5, 7, 8}
	for i := 0; i < nfc; i++ {
		fc := &v3listenerpb.FilterChain{Name: []string{"fc0", "fc1"}[i]}
		fc.FilterChainMatch = c45FCMatch(c.N(c45MatchMenu))
		nfMenu := c45NetFilterKinds
		if nfc == 2 {
			nfMenu = c.Q(6, c45NetFilterKinds)
		}
		fc.Filters = c45NetFilters(c.N(nfMenu))
		fc.TransportSocket = c45DownstreamTS(tsPick[c.N(tsMenu)])
		lis.FilterChains = append(lis.FilterChains, fc)
	}
	switch c.N(3) {
	case 1:
		lis.DefaultFilterChain = &v3listenerpb.FilterChain{Name: "def", Filters: c45NetFilters(0)}
	case 2:
		lis.DefaultFilterChain = &v3listenerpb.FilterChain{Name: "def"}
	}
	if nfc <= 1 {
		switch c.N(3) {
		case 1:
			lis.Address = &v3corepb.Address{Address: &v3corepb.Address_Pipe{Pipe: &v3corepb.Pipe{Path: "/p"}}}
		case 2:
			lis.Address = nil
		}
		if c.Bool() {
			lis.ListenerFilters = []*v3listenerpb.ListenerFilter{{Name: "lf"}}
		}
		if c.Bool() {
			lis.UseOriginalDst = wrapperspb.Bool(true)
		}
	}
	return lis
}

// ---------------------------------------------------------------- CDS

func c45LBPolicyExt(ms ...proto.Message) *v3clusterpb.LoadBalancingPolicy {
	p := &v3clusterpb.LoadBalancingPolicy{}
	for _, m := range ms {
		var a *anypb.Any
		if x, ok := m.(*anypb.Any); ok {
			a = x
		} else {
			a = c45Any(m)
		}
		p.Policies = append(p.Policies, &v3clusterpb.LoadBalancingPolicy_Policy{TypedExtensionConfig: &v3corepb.TypedExtensionConfig{Name: "p", TypedConfig: a}})
	}
	return p
}

const c45LBPKinds = 10

func c45LoadBalancingPolicy(k int) *v3clusterpb.LoadBalancingPolicy {
	unknown := &anypb.Any{TypeUrl: "type.googleapis.com/c45.UnknownLB"}
	switch k {
	case 0:
		return nil
	case 1:
		return &v3clusterpb.LoadBalancingPolicy{}
	case 2:
		return c45LBPolicyExt(&v3roundrobinpb.RoundRobin{})
	case 3:
		return c45LBPolicyExt(&v3wrrlocalitypb.WrrLocality{EndpointPickingPolicy: c45LBPolicyExt(&v3roundrobinpb.RoundRobin{})})
	case 4:
		return c45LBPolicyExt(&v3wrrlocalitypb.WrrLocality{EndpointPickingPolicy: c45LBPolicyExt(unknown)})
	case 5:
		return c45LBPolicyExt(unknown)
	case 6:
		return c45LBPolicyExt(unknown, &v3ringhashpb.RingHash{HashFunction: v3ringhashpb.RingHash_XX_HASH, MinimumRingSize: wrapperspb.UInt64(10), MaximumRingSize: wrapperspb.UInt64(5)})
	case 7:
		return c45LBPolicyExt(&v3pickfirstpb.PickFirst{ShuffleAddressList: true})
	case 8:
		return c45LBPolicyExt(&v3leastrequestpb.LeastRequest{ChoiceCount: c45U32(1)})
	}
	// 17 levels of wrr_locality nesting (depth limit is 16)
	p := c45LBPolicyExt(&v3roundrobinpb.RoundRobin{})
	for i := 0; i < 17; i++ {
		p = c45LBPolicyExt(&v3wrrlocalitypb.WrrLocality{EndpointPickingPolicy: p})
	}
	return p
}

const c45UpTLSKinds = 11

func c45UpstreamTS(k int) *v3corepb.TransportSocket {
	ts := func(name string, a *anypb.Any) *v3corepb.TransportSocket {
		return &v3corepb.TransportSocket{Name: name, ConfigType: &v3corepb.TransportSocket_TypedConfig{TypedConfig: a}}
	}
	ca := &v3tlspb.CertificateProviderPluginInstance{InstanceName: "root"}
	san := func(ms ...*v3matcherpb.StringMatcher) *v3tlspb.CommonTlsContext {
		return &v3tlspb.CommonTlsContext{ValidationContextType: &v3tlspb.CommonTlsContext_ValidationContext{ValidationContext: &v3tlspb.CertificateValidationContext{CaCertificateProviderInstance: ca, MatchSubjectAltNames: ms}}}
	}
	const tls = "envoy.transport_sockets.tls"
	switch k {
	case 0:
		return nil
	case 1:
		return ts("other", c45Any(&v3tlspb.UpstreamTlsContext{CommonTlsContext: san()}))
	case 2:
		return ts(tls, c45Any(&v3tlspb.DownstreamTlsContext{}))
	case 3:
		return ts(tls, &anypb.Any{TypeUrl: "type.googleapis.com/envoy.extensions.transport_sockets.tls.v3.UpstreamTlsContext", Value: []byte{0x0a, 0x09, 0x01}})
	case 4:
		return ts(tls, c45Any(&v3tlspb.UpstreamTlsContext{}))
	case 5:
		return ts(tls, c45Any(&v3tlspb.UpstreamTlsContext{CommonTlsContext: san()}))
	case 6:
		return ts(tls, c45Any(&v3tlspb.UpstreamTlsContext{Sni: "s", CommonTlsContext: san(
			&v3matcherpb.StringMatcher{MatchPattern: &v3matcherpb.StringMatcher_Exact{Exact: "a"}, IgnoreCase: true},
			&v3matcherpb.StringMatcher{MatchPattern: &v3matcherpb.StringMatcher_SafeRegex{SafeRegex: &v3matcherpb.RegexMatcher{Regex: "a.*"}}})}))
	case 7:
		return ts(tls, c45Any(&v3tlspb.UpstreamTlsContext{CommonTlsContext: san(&v3matcherpb.StringMatcher{MatchPattern: &v3matcherpb.StringMatcher_SafeRegex{SafeRegex: &v3matcherpb.RegexMatcher{Regex: "a("}}})}))
	case 8:
		return ts(tls, c45Any(&v3tlspb.UpstreamTlsContext{CommonTlsContext: &v3tlspb.CommonTlsContext{}})) // no root
	case 9:
		return ts(tls, c45Any(&v3tlspb.UpstreamTlsContext{CommonTlsContext: &v3tlspb.CommonTlsContext{TlsParams: &v3tlspb.TlsParameters{}}}))
	}
	return ts(tls, c45Any(&v3tlspb.UpstreamTlsContext{CommonTlsContext: &v3tlspb.CommonTlsContext{
		ValidationContextType: &v3tlspb.CommonTlsContext_CombinedValidationContext{CombinedValidationContext: &v3tlspb.CommonTlsContext_CombinedCertificateValidationContext{
			DefaultValidationContext:                     &v3tlspb.CertificateValidationContext{MatchSubjectAltNames: []*v3matcherpb.StringMatcher{{MatchPattern: &v3matcherpb.StringMatcher_Prefix{Prefix: ""}}}},
			ValidationContextCertificateProviderInstance: &v3tlspb.CommonTlsContext_CertificateProviderInstance{InstanceName: "root"},
		}}}}))
}

const c45ODKinds = 8

func c45Outlier(k int) *v3clusterpb.OutlierDetection {
	switch k {
	case 0:
		return nil
	case 1:
		return &v3clusterpb.OutlierDetection{}
	case 2:
		return &v3clusterpb.OutlierDetection{Interval: durationpb.New(-1e9)}
	case 3:
		return &v3clusterpb.OutlierDetection{BaseEjectionTime: &durationpb.Duration{Seconds: math.MaxInt64, Nanos: 5}}
	case 4:
		return &v3clusterpb.OutlierDetection{MaxEjectionTime: &durationpb.Duration{Seconds: 1, Nanos: -1}}
	case 5:
		return &v3clusterpb.OutlierDetection{MaxEjectionPercent: c45U32(101)}
	case 6:
		return &v3clusterpb.OutlierDetection{EnforcingSuccessRate: c45U32(0), EnforcingFailurePercentage: c45U32(100), FailurePercentageThreshold: c45U32(100), Interval: durationpb.New(1e9)}
	}
	return &v3clusterpb.OutlierDetection{EnforcingFailurePercentage: c45U32(101)}
}

func c45DNSAssignment(k int) *v3endpointpb.ClusterLoadAssignment {
	ep := func(a *v3corepb.Address) *v3endpointpb.LbEndpoint {
		return &v3endpointpb.LbEndpoint{HostIdentifier: &v3endpointpb.LbEndpoint_Endpoint{Endpoint: &v3endpointpb.Endpoint{Address: a}}}
	}
	one := func(es ...*v3endpointpb.LbEndpoint) *v3endpointpb.ClusterLoadAssignment {
		return &v3endpointpb.ClusterLoadAssignment{Endpoints: []*v3endpointpb.LocalityLbEndpoints{{LbEndpoints: es}}}
	}
	switch k {
	case 0:
		return one(ep(c45SocketAddr("dns.example", 443)))
	case 1:
		return nil
	case 2:
		return &v3endpointpb.ClusterLoadAssignment{}
	case 3:
		return &v3endpointpb.ClusterLoadAssignment{Endpoints: []*v3endpointpb.LocalityLbEndpoints{{}, {}}}
	case 4:
		return one()
	case 5:
		return one(ep(c45SocketAddr("a", 1)), ep(c45SocketAddr("b", 2)))
	case 6:
		return one(&v3endpointpb.LbEndpoint{})
	case 7:
		return one(ep(&v3corepb.Address{Address: &v3corepb.Address_Pipe{Pipe: &v3corepb.Pipe{Path: "/p"}}}))
	case 8:
		return one(ep(&v3corepb.Address{Address: &v3corepb.Address_SocketAddress{SocketAddress: &v3corepb.SocketAddress{Address: "h", ResolverName: "r", PortSpecifier: &v3corepb.SocketAddress_PortValue{PortValue: 1}}}}))
	case 9:
		return one(ep(c45SocketAddr("", 443)))
	}
	return one(ep(c45SocketAddr("h", 0)))
}

const c45ClusterTypeKinds = 23

// c45ClusterType fills the discovery type: EDS x eds_config {ads, self,
// missing, path, ads+service name}; LOGICAL_DNS x 11 load assignments;
// aggregate x {2 clusters, 1, 0, garbage config, no config}; other custom
// type; STATIC (unsupported).
func c45ClusterType(cl *v3clusterpb.Cluster, k int) {
	eds := func(src *v3corepb.ConfigSource, svc string) {
		cl.ClusterDiscoveryType = &v3clusterpb.Cluster_Type{Type: v3clusterpb.Cluster_EDS}
		cl.EdsClusterConfig = &v3clusterpb.Cluster_EdsClusterConfig{EdsConfig: src, ServiceName: svc}
	}
	agg := func(a *anypb.Any) {
		cl.ClusterDiscoveryType = &v3clusterpb.Cluster_ClusterType{ClusterType: &v3clusterpb.Cluster_CustomClusterType{Name: "envoy.clusters.aggregate", TypedConfig: a}}
	}
	switch {
	case k == 0:
		eds(c45AdsSource, "")
	case k == 1:
		eds(c45SelfSource, "")
	case k == 2:
		cl.ClusterDiscoveryType = &v3clusterpb.Cluster_Type{Type: v3clusterpb.Cluster_EDS}
	case k == 3:
		eds(c45PathSource, "")
	case k == 4:
		eds(c45AdsSource, "svc")
	case k < 16:
		cl.ClusterDiscoveryType = &v3clusterpb.Cluster_Type{Type: v3clusterpb.Cluster_LOGICAL_DNS}
		cl.LoadAssignment = c45DNSAssignment(k - 5)
	case k == 16:
		agg(c45Any(&v3aggregateclusterpb.ClusterConfig{Clusters: []string{"a", "b"}}))
	case k == 17:
		agg(c45Any(&v3aggregateclusterpb.ClusterConfig{Clusters: []string{"a"}}))
	case k == 18:
		agg(c45Any(&v3aggregateclusterpb.ClusterConfig{}))
	case k == 19:
		agg(&anypb.Any{TypeUrl: "type.googleapis.com/envoy.extensions.clusters.aggregate.v3.ClusterConfig", Value: []byte{0x0a, 0x04, 'a'}})
	case k == 20:
		agg(nil)
	case k == 21:
		cl.ClusterDiscoveryType = &v3clusterpb.Cluster_ClusterType{ClusterType: &v3clusterpb.Cluster_CustomClusterType{Name: "other"}}
	default:
		cl.ClusterDiscoveryType = &v3clusterpb.Cluster_Type{Type: v3clusterpb.Cluster_STATIC}
	}
}

const c45LBKinds = 17

// c45ClusterLB: lb_policy menu incl. ring hash sizes and least request
// choice counts at their boundaries.
func c45ClusterLB(cl *v3clusterpb.Cluster, k int) {
	rh := func(f v3clusterpb.Cluster_RingHashLbConfig_HashFunction, min, max *wrapperspb.UInt64Value) {
		cl.LbPolicy = v3clusterpb.Cluster_RING_HASH
		cl.LbConfig = &v3clusterpb.Cluster_RingHashLbConfig_{RingHashLbConfig: &v3clusterpb.Cluster_RingHashLbConfig{HashFunction: f, MinimumRingSize: min, MaximumRingSize: max}}
	}
	lr := func(cc *wrapperspb.UInt32Value) {
		cl.LbPolicy = v3clusterpb.Cluster_LEAST_REQUEST
		cl.LbConfig = &v3clusterpb.Cluster_LeastRequestLbConfig_{LeastRequestLbConfig: &v3clusterpb.Cluster_LeastRequestLbConfig{ChoiceCount: cc}}
	}
	u64 := wrapperspb.UInt64
	switch k {
	case 0:
		cl.LbPolicy = v3clusterpb.Cluster_ROUND_ROBIN
	case 1:
		cl.LbPolicy = v3clusterpb.Cluster_RING_HASH // no config
	case 2:
		rh(v3clusterpb.Cluster_RingHashLbConfig_XX_HASH, nil, nil)
	case 3:
		rh(v3clusterpb.Cluster_RingHashLbConfig_MURMUR_HASH_2, nil, nil)
	case 4:
		rh(v3clusterpb.Cluster_RingHashLbConfig_XX_HASH, u64(0), u64(0))
	case 5:
		rh(v3clusterpb.Cluster_RingHashLbConfig_XX_HASH, u64(8*1024*1024+1), nil)
	case 6:
		rh(v3clusterpb.Cluster_RingHashLbConfig_XX_HASH, u64(math.MaxUint64), u64(math.MaxUint64))
	case 7:
		rh(v3clusterpb.Cluster_RingHashLbConfig_XX_HASH, u64(2), u64(1))
	case 8:
		cl.LbPolicy = v3clusterpb.Cluster_LEAST_REQUEST
	case 9:
		lr(nil)
	case 10:
		lr(c45U32(0))
	case 11:
		lr(c45U32(1))
	case 12:
		lr(c45U32(2))
	case 13:
		lr(c45U32(math.MaxUint32))
	case 14:
		cl.LbPolicy = v3clusterpb.Cluster_RANDOM
	case 15:
		cl.LbPolicy = v3clusterpb.Cluster_MAGLEV
	default:
		cl.LbPolicy = v3clusterpb.Cluster_LbPolicy(99)
	}
}

// c45GenCDS: name {plain, empty, xdstp} x discovery type (23) x lb_policy (17)
// x load_balancing_policy x transport socket x outlier detection x lrs_server
// {unset, self, ads} x circuit breakers {unset, default+max, default without
// max, high only}; thorough, with lrs and circuit breakers unset, additionally
// {transport_socket_matches, telemetry metadata} (menu widths per tier: see
// the c.Q calls).
func c45GenCDS(c *c45Ch) proto.Message {
	cl := &v3clusterpb.Cluster{Name: []string{"cluster-c45", "xdstp://auth/envoy.config.cluster.v3.Cluster/c", ""}[c.N(c.Q(2, 3))]}
	c45ClusterType(cl, c.N(c45ClusterTypeKinds))
	c45ClusterLB(cl, c.N(c45LBKinds))
	cl.LoadBalancingPolicy = c45LoadBalancingPolicy([]int{0, 3, 5, 1, 2, 4, 6, 7, 8, 9}[c.N(c.Q(3, c45LBPKinds))])
	cl.TransportSocket = c45UpstreamTS([]int{0, 5, 8, 1, 2, 3, 4, 6, 7, 9, 10}[c.N(c.Q(3, c45UpTLSKinds))])
	cl.OutlierDetection = c45Outlier([]int{0, 6, 2, 1, 3, 4, 5, 7}[c.N(c.Q(2, c45ODKinds))])
	lrs := c.N(c.Q(2, 3))
	switch lrs {
	case 1:
		cl.LrsServer = c45SelfSource
	case 2:
		cl.LrsServer = c45AdsSource
	}
	cb := c.N(c.Q(2, 4))
	switch cb {
	case 1:
		cl.CircuitBreakers = &v3clusterpb.CircuitBreakers{Thresholds: []*v3clusterpb.CircuitBreakers_Thresholds{{Priority: v3corepb.RoutingPriority_HIGH, MaxRequests: c45U32(9)}, {Priority: v3corepb.RoutingPriority_DEFAULT, MaxRequests: c45U32(math.MaxUint32)}}}
	case 2:
		cl.CircuitBreakers = &v3clusterpb.CircuitBreakers{Thresholds: []*v3clusterpb.CircuitBreakers_Thresholds{{Priority: v3corepb.RoutingPriority_DEFAULT}}}
	case 3:
		cl.CircuitBreakers = &v3clusterpb.CircuitBreakers{Thresholds: []*v3clusterpb.CircuitBreakers_Thresholds{{Priority: v3corepb.RoutingPriority_HIGH, MaxRequests: c45U32(9)}}}
	}
	if c.Thorough && lrs == 0 && cb == 0 {
		switch c.N(3) {
		case 1:
			cl.TransportSocketMatches = []*v3clusterpb.Cluster_TransportSocketMatch{{Name: "m"}}
		case 2:
			cl.Metadata = &v3corepb.Metadata{FilterMetadata: map[string]*structpb.Struct{"com.google.csm.telemetry_labels": {Fields: map[string]*structpb.Value{
				"service_name": structpb.NewStringValue("svc"), "service_namespace": structpb.NewNumberValue(3)}}}}
		}
	}
	return cl
}
