//go:build verif

package xdsresource

// C45: xDS resource parsing is total and accepted resources satisfy the listed
// invariants. E3 (bounded-exhaustive input enumeration).
//
// This file: the choice-odometer that enumerates every derivation of a
// generator function, the runner that feeds serialized resources to the real
// unmarshal*Resource functions (twice, panics recovered), the canonical dump
// used for "same answer twice", and the invariant oracles written from the
// property statement.

import (
	"encoding/hex"
	"fmt"
	"math"
	"reflect"
	"regexp"
	"runtime"
	"sort"
	"strings"
	"sync"

	"google.golang.org/grpc/internal/xds/bootstrap"
	"google.golang.org/grpc/internal/xds/xdsclient/xdsresource/version"
	"google.golang.org/protobuf/proto"
	"google.golang.org/protobuf/types/known/anypb"
)

// ---------------------------------------------------------------- choice odometer

// c45Ch is the chooser handed to a generator. Every call of N is one choice
// point; c45Enumerate runs the generator once per complete choice vector, in
// lexicographic order, so that every derivation of the grammar is produced
// exactly once.
type c45Ch struct {
	vec      []uint8
	max      []uint8
	pos      int
	Thorough bool
}

// N returns a choice in [0,n).
func (c *c45Ch) N(n int) int {
	if n <= 1 {
		return 0
	}
	if c.pos < len(c.vec) {
		v := int(c.vec[c.pos])
		if v >= n { // stale suffix (cannot happen with the odometer), clamp
			v = n - 1
			c.vec[c.pos] = uint8(v)
		}
		c.max[c.pos] = uint8(n)
		c.pos++
		return v
	}
	c.vec = append(c.vec, 0)
	c.max = append(c.max, uint8(n))
	c.pos++
	return 0
}

// Q returns q in the quick tier and th in the thorough tier (menu widths).
func (c *c45Ch) Q(q, th int) int {
	if c.Thorough {
		return th
	}
	return q
}

// Bool is a two-way choice.
func (c *c45Ch) Bool() bool { return c.N(2) == 1 }

// c45Enumerate calls emit(vec, msg) for every derivation of gen.
func c45Enumerate(thorough bool, gen func(*c45Ch) proto.Message, emit func(vec []uint8, m proto.Message) bool) {
	c45EnumerateFrom(thorough, gen, nil, emit)
}

// c45EnumerateFrom calls emit for every derivation of gen whose choice vector
// starts with prefix (the first len(prefix) choices are never changed).
func c45EnumerateFrom(thorough bool, gen func(*c45Ch) proto.Message, prefix []uint8, emit func(vec []uint8, m proto.Message) bool) {
	vec := append([]uint8(nil), prefix...)
	for {
		c := &c45Ch{vec: vec, max: make([]uint8, len(vec), len(vec)+16), Thorough: thorough}
		m := gen(c)
		// choices beyond pos were not consumed (generator took a shorter path)
		c.vec, c.max = c.vec[:c.pos], c.max[:c.pos]
		if !emit(append([]uint8(nil), c.vec...), m) {
			return
		}
		i := len(c.vec) - 1
		for ; i >= len(prefix); i-- {
			if c.vec[i]+1 < c.max[i] {
				break
			}
		}
		if i < len(prefix) {
			return
		}
		vec = append([]uint8(nil), c.vec[:i+1]...)
		vec[i]++
	}
}

// c45Prefixes lists every distinct choice-vector prefix of length <= depth
// (a derivation with fewer than depth choices is its own prefix). The sets
// c45EnumerateFrom(prefix) for these prefixes partition the derivations.
func c45Prefixes(thorough bool, gen func(*c45Ch) proto.Message, depth int) [][]uint8 {
	var out [][]uint8
	var vec []uint8
	for {
		c := &c45Ch{vec: vec, max: make([]uint8, len(vec), len(vec)+16), Thorough: thorough}
		gen(c)
		n := c.pos
		if n > depth {
			n = depth
		}
		pv, pm := c.vec[:n], c.max[:n]
		out = append(out, append([]uint8(nil), pv...))
		i := n - 1
		for ; i >= 0; i-- {
			if pv[i]+1 < pm[i] {
				break
			}
		}
		if i < 0 {
			return out
		}
		vec = append([]uint8(nil), pv[:i+1]...)
		vec[i]++
	}
}

// c45Replay re-derives the message of one choice vector.
func c45ReplayVec(thorough bool, gen func(*c45Ch) proto.Message, vec []uint8) proto.Message {
	c := &c45Ch{vec: append([]uint8(nil), vec...), max: make([]uint8, len(vec)), Thorough: thorough}
	return gen(c)
}

// ---------------------------------------------------------------- system under test

type c45Kind int

const (
	c45LDS c45Kind = iota
	c45RDS
	c45CDS
	c45EDS
)

var c45KindNames = []string{"LDS", "RDS", "CDS", "EDS"}

func (k c45Kind) String() string { return c45KindNames[k] }

func (k c45Kind) typeURL() string {
	switch k {
	case c45LDS:
		return version.V3ListenerURL
	case c45RDS:
		return version.V3RouteConfigURL
	case c45CDS:
		return version.V3ClusterURL
	}
	return version.V3EndpointsURL
}

var c45Bootstrap *bootstrap.Config
var c45ServerCfg *bootstrap.ServerConfig

func c45Setup() error {
	bc, err := bootstrap.NewConfigFromContents([]byte(`{
		"xds_servers": [{"server_uri": "ipv4:///127.0.0.1:443", "channel_creds": [{"type": "insecure"}]}],
		"certificate_providers": {}
	}`))
	if err != nil {
		return err
	}
	c45Bootstrap = bc
	if s := bc.XDSServers(); len(s) > 0 {
		c45ServerCfg = s[0]
	}
	return nil
}

// c45Answer is what one unmarshal call returned.
type c45Answer struct {
	Accepted bool
	Name     string
	Update   any // ListenerUpdate, RouteConfigUpdate, ClusterUpdate or EndpointsUpdate
	Err      string
	Panic    string
}

// c45Unmarshal presents raw as the serialized resource of the given kind
// (inside an Any with the right type URL) to the real unmarshal function.
func c45Unmarshal(kind c45Kind, typeURL string, raw []byte) (ans c45Answer) {
	defer func() {
		if p := recover(); p != nil {
			buf := make([]byte, 2048)
			buf = buf[:runtime.Stack(buf, false)]
			ans = c45Answer{Panic: fmt.Sprintf("%v\n%s", p, buf)}
		}
	}()
	a := &anypb.Any{TypeUrl: typeURL, Value: append([]byte(nil), raw...)}
	var (
		name string
		upd  any
		err  error
	)
	switch kind {
	case c45LDS:
		var u ListenerUpdate
		name, u, err = unmarshalListenerResource(a, c45Bootstrap, c45ServerCfg)
		upd = u
	case c45RDS:
		var u RouteConfigUpdate
		name, u, err = unmarshalRouteConfigResource(a, c45Bootstrap, c45ServerCfg)
		upd = u
	case c45CDS:
		var u ClusterUpdate
		name, u, err = unmarshalClusterResource(a, c45ServerCfg)
		upd = u
	case c45EDS:
		var u EndpointsUpdate
		name, u, err = unmarshalEndpointsResource(a)
		upd = u
	}
	if err != nil {
		return c45Answer{Name: name, Err: err.Error()}
	}
	return c45Answer{Accepted: true, Name: name, Update: upd}
}

// c45Verdict is the oracle result for one input.
type c45Verdict struct {
	Class   string // violation class ("" = ok)
	Desc    string
	Outcome string // outcome class (vacuity statistics)
	OK      bool   // accepted by the parser
}

// c45ErrClass shortens an error text to a stable class.
func c45ErrClass(e string) string {
	cut := len(e)
	for i, r := range e {
		if i >= 16 && (r == '{' || r == '"' || r == '[' || r == '(' || (r >= '0' && r <= '9') || r == '%') {
			cut = i
			break
		}
	}
	if cut > 72 {
		cut = 72
	}
	return strings.TrimSpace(e[:cut])
}

// c45Check runs the full oracle on one serialized resource.
func c45Check(kind c45Kind, typeURL string, raw []byte) c45Verdict {
	a1 := c45Unmarshal(kind, typeURL, raw)
	if a1.Panic != "" {
		return c45Verdict{Class: "panic", Desc: "unmarshal panicked: " + a1.Panic}
	}
	a2 := c45Unmarshal(kind, typeURL, raw)
	if a2.Panic != "" {
		return c45Verdict{Class: "panic", Desc: "second unmarshal of the same bytes panicked: " + a2.Panic}
	}
	if a1.Accepted != a2.Accepted {
		return c45Verdict{Class: "nondeterministic-acceptance", Desc: fmt.Sprintf("same bytes: first call accepted=%v (err=%q), second call accepted=%v (err=%q)", a1.Accepted, a1.Err, a2.Accepted, a2.Err)}
	}
	if a1.Name != a2.Name {
		return c45Verdict{Class: "nondeterministic-name", Desc: fmt.Sprintf("same bytes: names %q vs %q", a1.Name, a2.Name)}
	}
	if !a1.Accepted {
		return c45Verdict{Outcome: "rejected: " + c45ErrClass(a1.Err)}
	}
	d1, d2 := c45DumpString(a1.Update), c45DumpString(a2.Update)
	if d1 != d2 {
		return c45Verdict{Class: "nondeterministic-update", Desc: fmt.Sprintf("same bytes give different updates:\n 1: %.600s\n 2: %.600s", d1, d2)}
	}
	if msg := c45Invariants(kind, a1.Update); msg != "" {
		return c45Verdict{Class: "invariant", Desc: "accepted update violates: " + msg + fmt.Sprintf(" | update: %.700s", d1), OK: true}
	}
	return c45Verdict{Outcome: "accepted", OK: true}
}

// ---------------------------------------------------------------- canonical dump (for "same answer twice")

var c45RegexpType = reflect.TypeOf((*regexp.Regexp)(nil))
var c45ProtoMsgType = reflect.TypeOf((*proto.Message)(nil)).Elem()

func c45DumpString(x any) string {
	var sb strings.Builder
	c45Dump(&sb, reflect.ValueOf(x), 0, map[uintptr]bool{})
	return sb.String()
}

// c45Dump writes a deterministic rendering of v: no addresses, map keys
// sorted, regexps by source text, protobuf messages by deterministic wire
// bytes.
func c45Dump(sb *strings.Builder, v reflect.Value, depth int, onPath map[uintptr]bool) {
	if !v.IsValid() {
		sb.WriteString("<nil>")
		return
	}
	if depth > 40 {
		sb.WriteString("<depth>")
		return
	}
	t := v.Type()
	if t == c45RegexpType {
		if v.IsNil() {
			sb.WriteString("re<nil>")
			return
		}
		sb.WriteString("re(" + v.Elem().FieldByName("expr").String() + ")")
		return
	}
	if t.Implements(c45ProtoMsgType) && v.Kind() == reflect.Pointer {
		if v.IsNil() {
			sb.WriteString("pb<nil>")
			return
		}
		if v.CanInterface() {
			b, err := proto.MarshalOptions{Deterministic: true}.Marshal(v.Interface().(proto.Message))
			sb.WriteString("pb(" + t.Elem().Name() + ":" + hex.EncodeToString(b))
			if err != nil {
				sb.WriteString(" err=" + err.Error())
			}
			sb.WriteString(")")
			return
		}
		sb.WriteString("pb(" + t.Elem().Name() + ":unexported)")
		return
	}
	switch v.Kind() {
	case reflect.Bool:
		fmt.Fprintf(sb, "%v", v.Bool())
	case reflect.Int, reflect.Int8, reflect.Int16, reflect.Int32, reflect.Int64:
		fmt.Fprintf(sb, "%d", v.Int())
	case reflect.Uint, reflect.Uint8, reflect.Uint16, reflect.Uint32, reflect.Uint64, reflect.Uintptr:
		fmt.Fprintf(sb, "%d", v.Uint())
	case reflect.Float32, reflect.Float64:
		fmt.Fprintf(sb, "%x", math.Float64bits(v.Float()))
	case reflect.Complex64, reflect.Complex128:
		fmt.Fprintf(sb, "%v", v.Complex())
	case reflect.String:
		fmt.Fprintf(sb, "%q", v.String())
	case reflect.Func, reflect.Chan, reflect.UnsafePointer:
		if v.IsNil() {
			sb.WriteString(t.Kind().String() + "<nil>")
		} else {
			sb.WriteString(t.Kind().String() + "<set>")
		}
	case reflect.Pointer:
		if v.IsNil() {
			sb.WriteString("<nil>")
			return
		}
		p := v.Pointer()
		if onPath[p] {
			sb.WriteString("<cycle>")
			return
		}
		onPath[p] = true
		sb.WriteString("&")
		c45Dump(sb, v.Elem(), depth+1, onPath)
		delete(onPath, p)
	case reflect.Interface:
		if v.IsNil() {
			sb.WriteString("<nil>")
			return
		}
		sb.WriteString("(" + v.Elem().Type().String() + ")")
		c45Dump(sb, v.Elem(), depth+1, onPath)
	case reflect.Slice, reflect.Array:
		if v.Kind() == reflect.Slice && v.IsNil() {
			sb.WriteString("[]<nil>")
			return
		}
		if t.Elem().Kind() == reflect.Uint8 {
			b := make([]byte, v.Len())
			for i := range b {
				b[i] = byte(v.Index(i).Uint())
			}
			fmt.Fprintf(sb, "bytes(%q)", b)
			return
		}
		sb.WriteString("[")
		for i := 0; i < v.Len(); i++ {
			if i > 0 {
				sb.WriteString(",")
			}
			c45Dump(sb, v.Index(i), depth+1, onPath)
		}
		sb.WriteString("]")
	case reflect.Map:
		if v.IsNil() {
			sb.WriteString("map<nil>")
			return
		}
		type kv struct{ k, v string }
		var kvs []kv
		it := v.MapRange()
		for it.Next() {
			var kb, vb strings.Builder
			c45Dump(&kb, it.Key(), depth+1, onPath)
			c45Dump(&vb, it.Value(), depth+1, onPath)
			kvs = append(kvs, kv{kb.String(), vb.String()})
		}
		sort.Slice(kvs, func(i, j int) bool {
			if kvs[i].k != kvs[j].k {
				return kvs[i].k < kvs[j].k
			}
			return kvs[i].v < kvs[j].v
		})
		sb.WriteString("map{")
		for i, e := range kvs {
			if i > 0 {
				sb.WriteString(",")
			}
			sb.WriteString(e.k + ":" + e.v)
		}
		sb.WriteString("}")
	case reflect.Struct:
		sb.WriteString(t.Name() + "{")
		for i := 0; i < v.NumField(); i++ {
			if i > 0 {
				sb.WriteString(",")
			}
			sb.WriteString(t.Field(i).Name + ":")
			c45Dump(sb, v.Field(i), depth+1, onPath)
		}
		sb.WriteString("}")
	default:
		sb.WriteString("<" + t.Kind().String() + ">")
	}
}

// ---------------------------------------------------------------- invariants (from the property statement only)

func c45Invariants(kind c45Kind, upd any) string {
	switch kind {
	case c45EDS:
		return c45InvEDS(upd.(EndpointsUpdate))
	case c45RDS:
		return c45InvRoutes(upd.(RouteConfigUpdate))
	case c45LDS:
		// the route invariants apply to route configurations inlined in a
		// Listener (api_listener or the HTTP connection manager of a filter
		// chain) exactly as to an RDS resource.
		lu := upd.(ListenerUpdate)
		var rcs []*RouteConfigUpdate
		if lu.APIListener != nil && lu.APIListener.InlineRouteConfig != nil {
			rcs = append(rcs, lu.APIListener.InlineRouteConfig)
		}
		if tl := lu.TCPListener; tl != nil {
			if h := tl.DefaultFilterChain.HTTPConnMgr; h != nil && h.InlineRouteConfig != nil {
				rcs = append(rcs, h.InlineRouteConfig)
			}
			for _, d := range tl.FilterChains.DstPrefixes {
				for _, st := range d.SourceTypeArr {
					for _, e := range st.Entries {
						ports := make([]int, 0, len(e.PortMap))
						for p := range e.PortMap {
							ports = append(ports, p)
						}
						sort.Ints(ports)
						for _, p := range ports {
							if h := e.PortMap[p].HTTPConnMgr; h != nil && h.InlineRouteConfig != nil {
								rcs = append(rcs, h.InlineRouteConfig)
							}
						}
					}
				}
			}
		}
		for _, rc := range rcs {
			if msg := c45InvRoutes(*rc); msg != "" {
				return "inline route configuration: " + msg
			}
		}
	}
	// CDS: the statement lists no Cluster-specific invariant.
	return ""
}

// c45InvEDS: priorities contiguous from 0; no address repeats; no (locality,
// priority) repeats; per-priority locality weight sums and per-locality endpoint
// weight sums fit in uint32; endpoint weights non-zero.
func c45InvEDS(u EndpointsUpdate) string {
	prios := map[uint32]bool{}
	locPrio := map[string]bool{}
	addrs := map[string]bool{}
	prioSum := map[uint32]uint64{}
	for li, l := range u.Localities {
		prios[l.Priority] = true
		k := fmt.Sprintf("%q/%q/%q@%d", l.ID.Region, l.ID.Zone, l.ID.SubZone, l.Priority)
		if locPrio[k] {
			return fmt.Sprintf("(locality, priority) pair %s repeats", k)
		}
		locPrio[k] = true
		prioSum[l.Priority] += uint64(l.Weight)
		var epSum uint64
		for ei, e := range l.Endpoints {
			if e.Weight == 0 {
				return fmt.Sprintf("endpoint %d of locality %d has weight 0", ei, li)
			}
			epSum += uint64(e.Weight)
			for _, a := range e.ResolverEndpoint.Addresses {
				if addrs[a.Addr] {
					return fmt.Sprintf("address %q repeats", a.Addr)
				}
				addrs[a.Addr] = true
			}
		}
		if epSum > math.MaxUint32 {
			return fmt.Sprintf("endpoint weights of locality %d sum to %d > MaxUint32", li, epSum)
		}
	}
	for p, s := range prioSum {
		if s > math.MaxUint32 {
			return fmt.Sprintf("locality weights at priority %d sum to %d > MaxUint32", p, s)
		}
	}
	for i := 0; i < len(prios); i++ {
		if !prios[uint32(i)] {
			ps := make([]int, 0, len(prios))
			for p := range prios {
				ps = append(ps, int(p))
			}
			sort.Ints(ps)
			return fmt.Sprintf("priorities %v are not contiguous from 0", ps)
		}
	}
	return ""
}

// c45InvRoutes: every accepted route has a path matcher and a supported
// action; weighted clusters have positive total weight.
//
// "Supported action" is read with the documentation of RouteActionType
// (type_rds.go, gRFC A36): a route whose action gRPC cannot perform is kept
// on purpose and marked RouteActionUnsupported so that matching RPCs fail;
// that explicit marker counts as a handled action. What is checked: the
// action type is one of the three defined values, and a RouteActionRoute has
// exactly one target: a non-empty weighted-cluster list (positive total) or a
// cluster specifier plugin that the update carries.
func c45InvRoutes(u RouteConfigUpdate) string {
	for vi, vh := range u.VirtualHosts {
		if vh == nil {
			return fmt.Sprintf("virtual host %d is nil", vi)
		}
		for ri, r := range vh.Routes {
			where := fmt.Sprintf("virtual host %d route %d", vi, ri)
			if r == nil {
				return where + " is nil"
			}
			n := 0
			if r.Path != nil {
				n++
			}
			if r.Prefix != nil {
				n++
			}
			if r.Regex != nil {
				n++
			}
			if n == 0 {
				return where + " has no path matcher (Path, Prefix and Regex all nil)"
			}
			switch r.ActionType {
			case RouteActionRoute:
				hasWC, hasCSP := len(r.WeightedClusters) > 0, r.ClusterSpecifierPlugin != ""
				if !hasWC && !hasCSP {
					return where + " has action 'route' but neither weighted clusters nor a cluster specifier plugin"
				}
				if hasCSP {
					if _, ok := u.ClusterSpecifierPlugins[r.ClusterSpecifierPlugin]; !ok {
						return where + fmt.Sprintf(" refers to cluster specifier plugin %q which the update does not carry", r.ClusterSpecifierPlugin)
					}
				}
			case RouteActionNonForwardingAction, RouteActionUnsupported:
			default:
				return where + fmt.Sprintf(" has undefined action type %d", r.ActionType)
			}
			if len(r.WeightedClusters) > 0 {
				var total uint64
				for _, wc := range r.WeightedClusters {
					total += uint64(wc.Weight)
				}
				if total == 0 {
					return where + " has weighted clusters with total weight 0"
				}
			}
		}
	}
	return ""
}

// ---------------------------------------------------------------- parallel driver

type c45Case struct {
	Kind    c45Kind
	Family  string  // "grammar", "bytes", "truncate", "flip"
	Vec     []uint8 // grammar: choice vector
	Seed    int     // truncate/flip: seed number
	Pos     int     // truncate: length; flip: byte position
	Val     int     // flip: new byte value
	Raw     []byte
	TypeURL string
}

type c45Fail struct {
	Key, Desc string
	Replay    c45ReplayRec
	ord       int64
}

type c45ReplayRec struct {
	Kind     string `json:"kind"`
	Family   string `json:"family"`
	Vec      []int  `json:"vec,omitempty"`
	Thorough bool   `json:"thorough"`
	RawHex   string `json:"raw_hex"`
	TypeURL  string `json:"type_url"`
}

type c45Tally struct {
	mu        sync.Mutex
	evals     map[string]int64 // per kind/family
	accepted  map[string]int64
	outcomes  map[string]int64
	fails     []c45Fail
	sampleAcc map[string]c45Case
}

func c45NewTally() *c45Tally {
	return &c45Tally{evals: map[string]int64{}, accepted: map[string]int64{}, outcomes: map[string]int64{}, sampleAcc: map[string]c45Case{}}
}

// c45Pool runs tasks on all CPUs. A task produces cases through emit; every
// case is checked on the worker that runs the task (no central producer).
type c45Pool struct {
	ch       chan func(emit func(c45Case) bool)
	wg       sync.WaitGroup
	tally    *c45Tally
	thorough bool
	stop     func() bool // polled every 2048 cases; true = abandon (budget)
	stopped  sync.Once
	Stopped  bool
}

func c45NewPool(t *c45Tally, thorough bool, stop func() bool) *c45Pool {
	p := &c45Pool{ch: make(chan func(emit func(c45Case) bool), 4096), tally: t, thorough: thorough, stop: stop}
	n := runtime.GOMAXPROCS(0)
	for w := 0; w < n; w++ {
		p.wg.Add(1)
		go func() {
			defer p.wg.Done()
			loc := c45NewTally()
			n := 0
			halted := false
			emit := func(c c45Case) bool {
				if halted {
					return false
				}
				n++
				if n%2048 == 0 && p.stop() {
					halted = true
					p.stopped.Do(func() { p.Stopped = true })
					return false
				}
				p.one(&c, loc)
				return true
			}
			for task := range p.ch {
				if halted {
					continue
				}
				task(emit)
			}
			t.mu.Lock()
			for k, v := range loc.evals {
				t.evals[k] += v
			}
			for k, v := range loc.accepted {
				t.accepted[k] += v
			}
			for k, v := range loc.outcomes {
				t.outcomes[k] += v
			}
			t.fails = append(t.fails, loc.fails...)
			for k, v := range loc.sampleAcc {
				if cur, ok := t.sampleAcc[k]; !ok || c45BetterSample(v.Raw, cur.Raw) {
					t.sampleAcc[k] = v
				}
			}
			t.mu.Unlock()
		}()
	}
	return p
}

// Go queues one task.
func (p *c45Pool) Go(task func(emit func(c45Case) bool)) { p.ch <- task }

func (p *c45Pool) Close() {
	close(p.ch)
	p.wg.Wait()
}

func (p *c45Pool) one(c *c45Case, loc *c45Tally) {
	v := c45Check(c.Kind, c.TypeURL, c.Raw)
	fam := c.Kind.String() + "/" + c.Family
	loc.evals[fam]++
	rec := func() c45ReplayRec { return c45RecOf(c, p.thorough) }
	if v.OK {
		loc.accepted[fam]++
		if cur, ok := loc.sampleAcc[fam]; !ok || c45BetterSample(c.Raw, cur.Raw) {
			loc.sampleAcc[fam] = *c
		}
	}
	if v.Class != "" {
		key := fmt.Sprintf("%s/%s/%s", c.Kind, v.Class, hex.EncodeToString(c.Raw))
		if len(key) > 300 {
			key = key[:300]
		}
		if len(loc.fails) < 64 {
			loc.fails = append(loc.fails, c45Fail{Key: key, Desc: fmt.Sprintf("%s resource (%s case, %d bytes): %s", c.Kind, c.Family, len(c.Raw), v.Desc), Replay: rec()})
		}
		loc.outcomes[c.Kind.String()+" VIOLATION "+v.Class]++
		return
	}
	loc.outcomes[c.Kind.String()+" "+v.Outcome]++
}

// c45BetterSample: the written-out sample per family is the longest accepted
// input, ties broken by byte order (deterministic whatever the worker
// interleaving).
func c45BetterSample(a, b []byte) bool {
	if len(a) != len(b) {
		return len(a) > len(b)
	}
	return string(a) < string(b)
}

func c45RecOf(c *c45Case, thorough bool) c45ReplayRec {
	r := c45ReplayRec{Kind: c.Kind.String(), Family: c.Family, Thorough: thorough, RawHex: hex.EncodeToString(c.Raw), TypeURL: c.TypeURL}
	for _, x := range c.Vec {
		r.Vec = append(r.Vec, int(x))
	}
	return r
}
