//go:build verif

package xdsresource

// C45 driver: grammar enumeration, short byte strings, truncations and byte
// substitutions of valid seed resources.

import (
	"encoding/hex"
	"fmt"
	"math"
	"os"
	"sort"
	"sync"
	"sync/atomic"
	"testing"

	v3clusterpb "github.com/envoyproxy/go-control-plane/envoy/config/cluster/v3"
	v3corepb "github.com/envoyproxy/go-control-plane/envoy/config/core/v3"
	v3endpointpb "github.com/envoyproxy/go-control-plane/envoy/config/endpoint/v3"
	v3listenerpb "github.com/envoyproxy/go-control-plane/envoy/config/listener/v3"
	v3routepb "github.com/envoyproxy/go-control-plane/envoy/config/route/v3"
	v3aggregateclusterpb "github.com/envoyproxy/go-control-plane/envoy/extensions/clusters/aggregate/v3"
	v3httppb "github.com/envoyproxy/go-control-plane/envoy/extensions/filters/network/http_connection_manager/v3"
	v3discoverypb "github.com/envoyproxy/go-control-plane/envoy/service/discovery/v3"
	v3matcherpb "github.com/envoyproxy/go-control-plane/envoy/type/matcher/v3"
	v3typepb "github.com/envoyproxy/go-control-plane/envoy/type/v3"
	"google.golang.org/grpc/internal/envconfig"
	"google.golang.org/grpc/internal/verif/vk"
	"google.golang.org/grpc/internal/xds/xdsclient/xdsresource/version"
	"google.golang.org/protobuf/proto"
	"google.golang.org/protobuf/types/known/anypb"
	"google.golang.org/protobuf/types/known/durationpb"
	"google.golang.org/protobuf/types/known/structpb"
	"google.golang.org/protobuf/types/known/wrapperspb"
)

func c45Marshal(m proto.Message) []byte {
	b, err := proto.MarshalOptions{Deterministic: true}.Marshal(m)
	if err != nil {
		panic("c45 harness: marshal: " + err.Error())
	}
	return b
}

type c45Seed struct {
	Kind    c45Kind
	Name    string
	TypeURL string
	Raw     []byte
}

// c45Seeds: valid resources (each must be accepted; checked at start).
func c45Seeds() []c45Seed {
	var out []c45Seed
	add := func(k c45Kind, name string, m proto.Message) {
		out = append(out, c45Seed{Kind: k, Name: name, TypeURL: k.typeURL(), Raw: c45Marshal(m)})
	}
	wrap := func(k c45Kind, name string, m proto.Message) {
		inner := &anypb.Any{TypeUrl: k.typeURL(), Value: c45Marshal(m)}
		out = append(out, c45Seed{Kind: k, Name: name, TypeURL: version.V3ResourceWrapperURL, Raw: c45Marshal(&v3discoverypb.Resource{Name: "wrapped", Resource: inner})})
	}
	cluster := func(name string) *v3routepb.Route_Route {
		return &v3routepb.Route_Route{Route: &v3routepb.RouteAction{ClusterSpecifier: &v3routepb.RouteAction_Cluster{Cluster: name}}}
	}
	prefix := func(p string) *v3routepb.RouteMatch {
		return &v3routepb.RouteMatch{PathSpecifier: &v3routepb.RouteMatch_Prefix{Prefix: p}}
	}

	// ---- RDS
	rds1 := &v3routepb.RouteConfiguration{Name: "rds-seed-1", VirtualHosts: []*v3routepb.VirtualHost{{
		Name: "vh", Domains: []string{"a.example", "*.b.example"},
		RetryPolicy: &v3routepb.RetryPolicy{RetryOn: "unavailable,cancelled", NumRetries: c45U32(3),
			RetryBackOff: &v3routepb.RetryPolicy_RetryBackOff{BaseInterval: durationpb.New(25e6), MaxInterval: durationpb.New(250e6)}},
		Routes: []*v3routepb.Route{
			{Match: &v3routepb.RouteMatch{PathSpecifier: &v3routepb.RouteMatch_Path{Path: "/svc/Method"}, CaseSensitive: wrapperspb.Bool(false),
				Headers: []*v3routepb.HeaderMatcher{c45Header(1), c45Header(2), c45Header(4), c45Header(9)},
				RuntimeFraction: &v3corepb.RuntimeFractionalPercent{DefaultValue: &v3typepb.FractionalPercent{Numerator: 50, Denominator: v3typepb.FractionalPercent_HUNDRED}}},
				Action: &v3routepb.Route_Route{Route: &v3routepb.RouteAction{
					ClusterSpecifier: &v3routepb.RouteAction_WeightedClusters{WeightedClusters: &v3routepb.WeightedCluster{Clusters: []*v3routepb.WeightedCluster_ClusterWeight{c45WC("A", c45U32(30)), c45WC("B", c45U32(70))}}},
					MaxStreamDuration: &v3routepb.RouteAction_MaxStreamDuration{MaxStreamDuration: durationpb.New(5e9)},
					HashPolicy: []*v3routepb.RouteAction_HashPolicy{{PolicySpecifier: &v3routepb.RouteAction_HashPolicy_Header_{Header: &v3routepb.RouteAction_HashPolicy_Header{HeaderName: "session",
						RegexRewrite: &v3matcherpb.RegexMatchAndSubstitute{Pattern: &v3matcherpb.RegexMatcher{Regex: "[0-9]+"}, Substitution: "N"}}}, Terminal: true}},
					RetryPolicy: &v3routepb.RetryPolicy{RetryOn: "internal", NumRetries: c45U32(1)},
				}}},
			{Match: prefix("/"), Action: cluster("default")},
		}}}}
	add(c45RDS, "rds weighted clusters, header matchers, retry, hash policy", rds1)
	add(c45RDS, "rds cluster specifier plugin", &v3routepb.RouteConfiguration{Name: "rds-seed-2", ClusterSpecifierPlugins: c45CSPDecls(),
		VirtualHosts: []*v3routepb.VirtualHost{{Name: "vh", Domains: []string{"*"}, Routes: []*v3routepb.Route{
			{Match: &v3routepb.RouteMatch{PathSpecifier: &v3routepb.RouteMatch_SafeRegex{SafeRegex: &v3matcherpb.RegexMatcher{Regex: "/a/.*"}}},
				Action: &v3routepb.Route_Route{Route: &v3routepb.RouteAction{ClusterSpecifier: &v3routepb.RouteAction_ClusterSpecifierPlugin{ClusterSpecifierPlugin: "csp-ok"}}}},
			{Match: prefix("/"), Action: cluster("default"), TypedPerFilterConfig: map[string]*anypb.Any{"fault": {TypeUrl: "type.googleapis.com/envoy.extensions.filters.http.fault.v3.HTTPFault"}}},
		}}}})
	add(c45RDS, "rds non-forwarding + unsupported actions", &v3routepb.RouteConfiguration{Name: "rds-seed-3", VirtualHosts: []*v3routepb.VirtualHost{
		{Name: "vh1", Domains: []string{"x"}, Routes: []*v3routepb.Route{{Match: prefix("/"), Action: &v3routepb.Route_NonForwardingAction{NonForwardingAction: &v3routepb.NonForwardingAction{}}}}},
		{Name: "vh2", Domains: []string{"y"}, Routes: []*v3routepb.Route{{Match: prefix("/r"), Action: &v3routepb.Route_Redirect{Redirect: &v3routepb.RedirectAction{}}}, {Match: prefix("/"), Action: cluster("c")}}},
	}})
	wrap(c45RDS, "rds wrapped in Resource", rds1)

	// ---- EDS
	locality := func(sub string, prio, w uint32, eps ...*v3endpointpb.LbEndpoint) *v3endpointpb.LocalityLbEndpoints {
		return &v3endpointpb.LocalityLbEndpoints{Locality: &v3corepb.Locality{Region: "r", Zone: "z", SubZone: sub}, Priority: prio, LoadBalancingWeight: c45U32(w), LbEndpoints: eps}
	}
	ep := func(host string, port uint32, w *wrapperspb.UInt32Value, hs v3corepb.HealthStatus) *v3endpointpb.LbEndpoint {
		return &v3endpointpb.LbEndpoint{HostIdentifier: &v3endpointpb.LbEndpoint_Endpoint{Endpoint: &v3endpointpb.Endpoint{Address: c45SocketAddr(host, port), Hostname: host + ".name"}}, LoadBalancingWeight: w, HealthStatus: hs}
	}
	eds1 := &v3endpointpb.ClusterLoadAssignment{ClusterName: "eds-seed-1",
		Endpoints: []*v3endpointpb.LocalityLbEndpoints{
			locality("a", 0, 3, ep("10.0.0.1", 80, c45U32(2), v3corepb.HealthStatus_HEALTHY), ep("10.0.0.2", 80, nil, v3corepb.HealthStatus_UNKNOWN)),
			locality("b", 1, 1, ep("10.0.1.1", 80, c45U32(1), v3corepb.HealthStatus_DRAINING), ep("10.0.1.2", 81, c45U32(7), v3corepb.HealthStatus_DEGRADED)),
			locality("c", 0, 0, ep("10.0.2.1", 80, nil, v3corepb.HealthStatus_HEALTHY)),
		},
		Policy: &v3endpointpb.ClusterLoadAssignment_Policy{DropOverloads: []*v3endpointpb.ClusterLoadAssignment_Policy_DropOverload{
			{Category: "throttle", DropPercentage: &v3typepb.FractionalPercent{Numerator: 5, Denominator: v3typepb.FractionalPercent_TEN_THOUSAND}},
			{Category: "lb", DropPercentage: &v3typepb.FractionalPercent{Numerator: 1, Denominator: v3typepb.FractionalPercent_MILLION}}}}}
	add(c45EDS, "eds two priorities, ignored zero-weight locality, drops", eds1)
	md := &v3corepb.Metadata{FilterMetadata: map[string]*structpb.Struct{"envoy.lb": {Fields: map[string]*structpb.Value{"hash_key": structpb.NewStringValue("k1")}}}}
	e2 := ep("::1", 8080, c45U32(math.MaxUint32-1), v3corepb.HealthStatus_TIMEOUT)
	e2.Metadata = md
	e3 := ep("host.example", 1, c45U32(1), v3corepb.HealthStatus_UNHEALTHY)
	e3.GetEndpoint().AdditionalAddresses = []*v3endpointpb.Endpoint_AdditionalAddress{{Address: c45SocketAddr("10.9.9.9", 9)}}
	l2 := locality("a", 0, math.MaxUint32, e2, e3)
	l2.Metadata = md
	add(c45EDS, "eds boundary weights, metadata, additional addresses", &v3endpointpb.ClusterLoadAssignment{ClusterName: "eds-seed-2", Endpoints: []*v3endpointpb.LocalityLbEndpoints{l2}})
	add(c45EDS, "eds same locality at two priorities", &v3endpointpb.ClusterLoadAssignment{ClusterName: "eds-seed-3", Endpoints: []*v3endpointpb.LocalityLbEndpoints{
		locality("a", 1, 5, ep("1.1.1.1", 1, nil, 0)), locality("a", 0, 6, ep("1.1.1.2", 1, nil, 0)), locality("b", 2, 7)}})
	wrap(c45EDS, "eds wrapped in Resource", eds1)

	// ---- CDS
	cds1 := &v3clusterpb.Cluster{Name: "cds-seed-1"}
	c45ClusterType(cds1, 4)
	c45ClusterLB(cds1, 2)
	cds1.GetRingHashLbConfig().MinimumRingSize = wrapperspb.UInt64(2048)
	cds1.TransportSocket = c45UpstreamTS(6)
	cds1.OutlierDetection = c45Outlier(6)
	cds1.LrsServer = c45SelfSource
	cds1.CircuitBreakers = &v3clusterpb.CircuitBreakers{Thresholds: []*v3clusterpb.CircuitBreakers_Thresholds{{Priority: v3corepb.RoutingPriority_DEFAULT, MaxRequests: c45U32(512)}}}
	cds1.Metadata = &v3corepb.Metadata{FilterMetadata: map[string]*structpb.Struct{"com.google.csm.telemetry_labels": {Fields: map[string]*structpb.Value{"service_name": structpb.NewStringValue("svc"), "service_namespace": structpb.NewStringValue("ns")}}}}
	add(c45CDS, "cds EDS + ring hash + TLS + outlier detection + LRS + circuit breakers", cds1)
	cds2 := &v3clusterpb.Cluster{Name: "cds-seed-2"}
	c45ClusterType(cds2, 5)
	c45ClusterLB(cds2, 12)
	add(c45CDS, "cds LOGICAL_DNS + least request", cds2)
	cds3 := &v3clusterpb.Cluster{Name: "cds-seed-3", ClusterDiscoveryType: &v3clusterpb.Cluster_ClusterType{ClusterType: &v3clusterpb.Cluster_CustomClusterType{Name: "envoy.clusters.aggregate",
		TypedConfig: c45Any(&v3aggregateclusterpb.ClusterConfig{Clusters: []string{"primary", "secondary", "tertiary"}})}}}
	add(c45CDS, "cds aggregate", cds3)
	cds4 := &v3clusterpb.Cluster{Name: "xdstp://auth/envoy.config.cluster.v3.Cluster/seed-4", LoadBalancingPolicy: c45LoadBalancingPolicy(3)}
	c45ClusterType(cds4, 4)
	add(c45CDS, "cds xdstp name + load_balancing_policy wrr_locality", cds4)
	wrap(c45CDS, "cds wrapped in Resource", cds1)

	// ---- LDS
	hcm1 := &v3httppb.HttpConnectionManager{
		RouteSpecifier: &v3httppb.HttpConnectionManager_Rds{Rds: &v3httppb.Rds{ConfigSource: c45AdsSource, RouteConfigName: "route-1"}},
		HttpFilters:    []*v3httppb.HttpFilter{c45HTTPFilter(2, "fault"), c45HTTPFilter(4, "unknown-optional"), c45HTTPFilter(0, "router")},
		CommonHttpProtocolOptions: &v3corepb.HttpProtocolOptions{MaxStreamDuration: durationpb.New(3e9)},
	}
	lds1 := &v3listenerpb.Listener{Name: "lds-seed-1", ApiListener: &v3listenerpb.ApiListener{ApiListener: c45Any(hcm1)}}
	add(c45LDS, "lds client api_listener with RDS name and three http filters", lds1)
	hcm2 := proto.Clone(hcm1).(*v3httppb.HttpConnectionManager)
	hcm2.RouteSpecifier = &v3httppb.HttpConnectionManager_RouteConfig{RouteConfig: rds1}
	add(c45LDS, "lds client api_listener with inline route configuration", &v3listenerpb.Listener{Name: "lds-seed-2", ApiListener: &v3listenerpb.ApiListener{ApiListener: c45Any(hcm2)}})
	srv := &v3listenerpb.Listener{Name: "lds-seed-3", Address: c45SocketAddr("0.0.0.0", 50051),
		FilterChains: []*v3listenerpb.FilterChain{
			{Name: "fc-a", FilterChainMatch: &v3listenerpb.FilterChainMatch{PrefixRanges: c45Cidr("10.0.0.0", 8), SourceType: v3listenerpb.FilterChainMatch_EXTERNAL,
				SourcePrefixRanges: c45Cidr("192.168.0.0", 16), SourcePorts: []uint32{1000, 2000}}, Filters: c45NetFilters(0), TransportSocket: c45DownstreamTS(6)},
			{Name: "fc-b", FilterChainMatch: &v3listenerpb.FilterChainMatch{PrefixRanges: c45Cidr("fd00::", 8), TransportProtocol: "raw_buffer"}, Filters: c45NetFilters(1)},
			{Name: "fc-dropped", FilterChainMatch: &v3listenerpb.FilterChainMatch{ServerNames: []string{"sni"}}, Filters: c45NetFilters(0)},
		},
		DefaultFilterChain: &v3listenerpb.FilterChain{Name: "def", Filters: c45NetFilters(5)}}
	add(c45LDS, "lds server listener, three filter chains, TLS, default chain", srv)
	wrap(c45LDS, "lds wrapped in Resource", lds1)
	return out
}

type c45Gen struct {
	Kind c45Kind
	Gen  func(*c45Ch) proto.Message
}

var c45Gens = []c45Gen{{c45EDS, c45GenEDS}, {c45RDS, c45GenRDS}, {c45CDS, c45GenCDS}, {c45LDS, c45GenLDS}}

func TestVerif_C45_XDSParse(t *testing.T) {
	const P = "C45"
	r := vk.Start(t, "c45_xdsparse", "exploration", P)
	defer r.Finish()
	thorough := r.Thorough()
	r.Rule(P, "four input families per resource kind (LDS, RDS, CDS, EDS), each input presented as the serialized resource inside an Any of the right type URL to the real unmarshal*Resource function, twice: (1) grammar: every derivation of a generator with <=2 repeated elements per level and boundary menus per field (EDS priorities {0,1,2,5}, locality and endpoint weights {unset,0,1,2^32-1}, all address-equality patterns, locality ids {unset,A,B}; RDS path-specifier kinds incl. missing x 14 header-matcher kinds x actions {cluster, weighted clusters with weights {unset,0,1,2^32-1} (totals 0/positive/overflow), cluster specifier plugin declared/undeclared/optional, unknown specifier, none, non-forwarding, redirect, direct response, filter action, missing}; CDS name x 23 discovery types x 17 lb_policy cases x load_balancing_policy x transport socket x outlier detection x lrs x circuit breakers; LDS api_listener HCM (7 route specifiers x http filter lists x flags) and server listeners with <=2 filter chains (14 matches x 12 network filter lists x transport sockets) + default chain); (2) every byte string of length <=2 (quick) / <=3 (thorough); (3) every proper prefix of each seed resource; (4) every single-bit flip (quick) / every single-byte substitution (thorough) of each seed. Oracle: no panic, identical answer on the second call (acceptance, name, canonical dump of the update), invariants of the statement on accepted updates. Non-trivial = distinct input that is ACCEPTED (reaches the invariant oracle)")
	r.Assume(P, "panic recovery lives in internal/xds/clients/xdsclient (channel.go), not in the unmarshal functions called here; envconfig.XDSRecoverPanicInResourceParsing is nevertheless forced to false for the run")
	r.Assume(P, "'supported action': a route kept with the explicit marker RouteActionUnsupported (documented in type_rds.go per gRFC A36: matching RPCs fail) counts as a handled action; checked is: action type is one of the three defined values, and a RouteActionRoute has a non-empty weighted-cluster list or a cluster specifier plugin carried by the update")
	r.Assume(P, "only the invariants listed in the statement are checked (EDS: priorities contiguous from 0, no address repeat, no (locality,priority) repeat, weight sums fit uint32, endpoint weights non-zero; routes (RDS and route configurations inlined in LDS): path matcher present, supported action, positive weighted-cluster total); CDS updates: totality and determinism only")
	r.Assume(P, "environment-gated features are at their defaults (envconfig); bootstrap has one server and no certificate providers; HTTP filters registered: router, fault; LB policies: those pulled in by the xdslbregistry converters; one stub cluster specifier plugin")
	r.Assume(P, "same-answer comparison uses a canonical dump (map keys sorted, regexps by source text, protobuf by deterministic wire bytes, no addresses); trusted: protobuf-go, reflect")

	old := envconfig.XDSRecoverPanicInResourceParsing
	envconfig.XDSRecoverPanicInResourceParsing = false
	defer func() { envconfig.XDSRecoverPanicInResourceParsing = old }()

	if err := c45Setup(); err != nil {
		r.EngineError("setup: %v", err)
		return
	}

	if r.ReplayFile() != "" {
		var rp c45ReplayRec
		if err := r.LoadReplay(&rp); err != nil {
			r.EngineError("replay: %v", err)
			return
		}
		raw, err := hex.DecodeString(rp.RawHex)
		if err != nil {
			r.EngineError("replay: %v", err)
			return
		}
		kind := c45Kind(-1)
		for i, n := range c45KindNames {
			if n == rp.Kind {
				kind = c45Kind(i)
			}
		}
		if kind < 0 {
			r.EngineError("replay: unknown kind %q", rp.Kind)
			return
		}
		v := c45Check(kind, rp.TypeURL, raw)
		r.Eval(P, 1)
		if v.Class != "" {
			key := fmt.Sprintf("%s/%s/%s", kind, v.Class, rp.RawHex)
			if len(key) > 300 {
				key = key[:300]
			}
			r.Violation(P, key, v.Desc, rp)
			fmt.Println("replay: VIOLATION", v.Class, v.Desc)
		} else {
			fmt.Println("replay: no violation;", v.Outcome)
		}
		return
	}

	seeds := c45Seeds()
	for _, s := range seeds {
		if v := c45Check(s.Kind, s.TypeURL, s.Raw); !v.OK || v.Class != "" {
			// a seed that is not accepted is a harness problem unless it is a property violation
			if v.Class != "" {
				r.Violation(P, fmt.Sprintf("%s/%s/seed:%s", s.Kind, v.Class, s.Name), "seed resource: "+v.Desc, c45ReplayRec{Kind: s.Kind.String(), Family: "seed", RawHex: hex.EncodeToString(s.Raw), TypeURL: s.TypeURL})
				continue
			}
			r.EngineError("seed %q (%s) is not accepted: %s", s.Name, s.Kind, v.Outcome)
		}
	}

	if os.Getenv("VERIF_C45_COUNT") != "" { // development aid: size of each grammar, nothing is checked
		for _, g := range c45Gens {
			var n atomic.Int64
			var wg sync.WaitGroup
			sem := make(chan struct{}, 16)
			for _, prefix := range c45Prefixes(thorough, g.Gen, 3) {
				wg.Add(1)
				sem <- struct{}{}
				go func(prefix []uint8) {
					defer wg.Done()
					c45EnumerateFrom(thorough, g.Gen, prefix, func([]uint8, proto.Message) bool { n.Add(1); return true })
					<-sem
				}(prefix)
			}
			wg.Wait()
			fmt.Printf("grammar %s: %d derivations\n", g.Kind, n.Load())
		}
		r.EngineError("VERIF_C45_COUNT set: counted only")
		return
	}

	tally := c45NewTally()
	pool := c45NewPool(tally, thorough, r.OverBudget)

	// (1) grammar: the derivations are partitioned by their first choices and
	// each part is enumerated, serialized and checked by one worker
	for _, g := range c45Gens {
		g := g
		for _, prefix := range c45Prefixes(thorough, g.Gen, 3) {
			prefix := prefix
			pool.Go(func(emit func(c45Case) bool) {
				c45EnumerateFrom(thorough, g.Gen, prefix, func(vec []uint8, m proto.Message) bool {
					return emit(c45Case{Kind: g.Kind, Family: "grammar", Vec: vec, Raw: c45Marshal(m), TypeURL: g.Kind.typeURL()})
				})
			})
		}
	}
	// (2) short byte strings: one task per (kind, length, first byte)
	maxLen := r.Pick(2, 3)
	for k := c45LDS; k <= c45EDS; k++ {
		k := k
		url := k.typeURL()
		pool.Go(func(emit func(c45Case) bool) { emit(c45Case{Kind: k, Family: "bytes", Raw: []byte{}, TypeURL: url}) })
		for l := 1; l <= maxLen; l++ {
			l := l
			for first := 0; first < 256; first++ {
				first := first
				pool.Go(func(emit func(c45Case) bool) {
					rest := 1 << (8 * (l - 1))
					for x := 0; x < rest; x++ {
						b := make([]byte, l)
						b[0] = byte(first)
						for i := 1; i < l; i++ {
							b[i] = byte(x >> (8 * (l - 1 - i)))
						}
						if !emit(c45Case{Kind: k, Family: "bytes", Raw: b, TypeURL: url}) {
							return
						}
					}
				})
			}
		}
	}
	// (3) truncations, (4) flips / substitutions of the seeds: one task per seed
	for si, s := range seeds {
		si, s := si, s
		pool.Go(func(emit func(c45Case) bool) {
			for l := 0; l < len(s.Raw); l++ {
				if !emit(c45Case{Kind: s.Kind, Family: "truncate", Seed: si, Pos: l, Raw: s.Raw[:l], TypeURL: s.TypeURL}) {
					return
				}
			}
		})
		for pos := 0; pos < len(s.Raw); pos += 16 {
			lo, hi := pos, pos+16
			if hi > len(s.Raw) {
				hi = len(s.Raw)
			}
			pool.Go(func(emit func(c45Case) bool) {
				for pos := lo; pos < hi; pos++ {
					if thorough {
						for v := 0; v < 256; v++ {
							if byte(v) == s.Raw[pos] {
								continue
							}
							b := append([]byte(nil), s.Raw...)
							b[pos] = byte(v)
							if !emit(c45Case{Kind: s.Kind, Family: "flip", Seed: si, Pos: pos, Val: v, Raw: b, TypeURL: s.TypeURL}) {
								return
							}
						}
					} else {
						for bit := 0; bit < 8; bit++ {
							b := append([]byte(nil), s.Raw...)
							b[pos] ^= 1 << bit
							if !emit(c45Case{Kind: s.Kind, Family: "flip", Seed: si, Pos: pos, Val: int(b[pos]), Raw: b, TypeURL: s.TypeURL}) {
								return
							}
						}
					}
				}
			})
		}
	}
	pool.Close()
	capped := pool.Stopped
	if capped {
		r.Cap(P, "time budget reached before every input family was enumerated")
	}

	// ---- report
	var evals, accepted int64
	fams := make([]string, 0, len(tally.evals))
	for k := range tally.evals {
		fams = append(fams, k)
	}
	sort.Strings(fams)
	for _, k := range fams {
		evals += tally.evals[k]
		accepted += tally.accepted[k]
		r.Set(P, "inputs["+k+"]", tally.evals[k])
		r.Set(P, "accepted["+k+"]", tally.accepted[k])
	}
	r.Eval(P, evals)
	r.NontrivialN(P, accepted)
	r.Set(P, "seeds", len(seeds))
	oks := make([]string, 0, len(tally.outcomes))
	for k := range tally.outcomes {
		oks = append(oks, k)
	}
	sort.Strings(oks)
	perKind := map[string]int{}
	for _, k := range oks {
		r.Outcome(P, k)
		perKind[k[:3]]++
	}
	r.Set(P, "distinct_outcome_classes_per_kind", perKind)
	r.Set(P, "distinct_outcome_classes", len(oks))
	if !capped {
		for _, g := range c45Gens {
			f := g.Kind.String() + "/grammar"
			if tally.accepted[f] == 0 || tally.accepted[f] == tally.evals[f] {
				r.EngineError("vacuity: %s: %d of %d generated resources accepted", f, tally.accepted[f], tally.evals[f])
			}
		}
	}
	sort.Slice(tally.fails, func(i, j int) bool { return tally.fails[i].Key < tally.fails[j].Key })
	for i, f := range tally.fails {
		if i >= 12 {
			break
		}
		r.Violation(P, f.Key, f.Desc, f.Replay)
	}
	for _, k := range fams {
		if sc, ok := tally.sampleAcc[k]; ok {
			s := c45RecOf(&sc, thorough)
			if len(s.RawHex) > 400 {
				s.RawHex = s.RawHex[:400] + "..."
			}
			r.Sample(P, map[string]any{"family": k, "accepted_input": s})
		}
	}
}
