//go:build verif

package xdsresource

// C45 generators: ClusterLoadAssignment (EDS) and RouteConfiguration (RDS).

import (
	"math"

	v3corepb "github.com/envoyproxy/go-control-plane/envoy/config/core/v3"
	v3endpointpb "github.com/envoyproxy/go-control-plane/envoy/config/endpoint/v3"
	v3routepb "github.com/envoyproxy/go-control-plane/envoy/config/route/v3"
	v3matcherpb "github.com/envoyproxy/go-control-plane/envoy/type/matcher/v3"
	v3typepb "github.com/envoyproxy/go-control-plane/envoy/type/v3"
	"google.golang.org/grpc/internal/xds/clusterspecifier"
	"google.golang.org/protobuf/proto"
	"google.golang.org/protobuf/types/known/anypb"
	"google.golang.org/protobuf/types/known/durationpb"
	"google.golang.org/protobuf/types/known/wrapperspb"
)

func c45U32(v uint32) *wrapperspb.UInt32Value { return &wrapperspb.UInt32Value{Value: v} }

// c45Weight: menu {unset, 0, 1, 2^32-1}; withNil=false drops "unset".
func c45Weight(c *c45Ch, withNil bool) *wrapperspb.UInt32Value {
	menu := []*wrapperspb.UInt32Value{c45U32(0), c45U32(1), c45U32(math.MaxUint32), nil}
	n := 3
	if withNil {
		n = 4
	}
	return menu[c.N(n)]
}

// ---------------------------------------------------------------- EDS

// c45GenEDS: <=2 localities (id in {unset, A, B}, priority in {0,1,2,5},
// weight in {0,1,2^32-1} (+unset in thorough)), each with <=2 endpoints
// (weight in {unset,0,1,2^32-1}; address equal to an earlier endpoint's or
// fresh: every equality pattern; thorough with one locality: also "endpoint
// without address";
// quick: at most 2 endpoints in total);
// for <=1 locality additionally cluster name {set, empty} and drop policy
// {none, per-hundred, invalid denominator}.
func c45GenEDS(c *c45Ch) proto.Message {
	cla := &v3endpointpb.ClusterLoadAssignment{ClusterName: "cluster-c45"}
	nLoc := c.N(3)
	addrIDs := 0
	for i := 0; i < nLoc; i++ {
		loc := &v3endpointpb.LocalityLbEndpoints{}
		idMenu := 3
		if i == 0 {
			idMenu = 2 // first locality: unset or A (B first is symmetric)
		}
		switch c.N(idMenu) {
		case 1:
			loc.Locality = &v3corepb.Locality{Region: "r", Zone: "z", SubZone: "A"}
		case 2:
			loc.Locality = &v3corepb.Locality{Region: "r", Zone: "z", SubZone: "B"}
		}
		loc.Priority = []uint32{0, 1, 2, 5}[c.N(4)]
		loc.LoadBalancingWeight = c45Weight(c, c.Thorough)
		maxEp := 2
		if !c.Thorough && i == 1 {
			maxEp = 2 - len(cla.Endpoints[0].LbEndpoints) // quick tier: at most 2 endpoints in total
		}
		nEp := c.N(maxEp + 1)
		for j := 0; j < nEp; j++ {
			ep := &v3endpointpb.LbEndpoint{LoadBalancingWeight: c45Weight(c, true)}
			extra := 0
			if c.Thorough && nLoc == 1 {
				extra = 1
			}
			id := c.N(addrIDs + 1 + extra)
			switch {
			case id < addrIDs: // same address as an earlier endpoint
			case id == addrIDs:
				addrIDs++
			default:
				id = -1 // endpoint without host identifier
			}
			if id >= 0 {
				ep.HostIdentifier = &v3endpointpb.LbEndpoint_Endpoint{Endpoint: &v3endpointpb.Endpoint{
					Address: &v3corepb.Address{Address: &v3corepb.Address_SocketAddress{SocketAddress: &v3corepb.SocketAddress{
						Address: "10.0.0.1", PortSpecifier: &v3corepb.SocketAddress_PortValue{PortValue: uint32(1000 + id)}}}},
				}}
			}
			loc.LbEndpoints = append(loc.LbEndpoints, ep)
		}
		cla.Endpoints = append(cla.Endpoints, loc)
	}
	if nLoc <= 1 {
		if c.Bool() {
			cla.ClusterName = ""
		}
		switch c.N(3) {
		case 1:
			cla.Policy = &v3endpointpb.ClusterLoadAssignment_Policy{DropOverloads: []*v3endpointpb.ClusterLoadAssignment_Policy_DropOverload{
				{Category: "lb", DropPercentage: &v3typepb.FractionalPercent{Numerator: 50, Denominator: v3typepb.FractionalPercent_HUNDRED}}}}
		case 2:
			cla.Policy = &v3endpointpb.ClusterLoadAssignment_Policy{DropOverloads: []*v3endpointpb.ClusterLoadAssignment_Policy_DropOverload{
				{Category: "lb", DropPercentage: &v3typepb.FractionalPercent{Numerator: 1, Denominator: v3typepb.FractionalPercent_DenominatorType(7)}}}}
		}
	}
	return cla
}

// ---------------------------------------------------------------- RDS

// c45CSP is a stub cluster specifier plugin: the config "ok" parses, anything
// else is a parse error.
type c45CSP struct{}

const c45CSPTypeURL = "type.googleapis.com/c45.ClusterSpecifier"

func (c45CSP) TypeURLs() []string { return []string{c45CSPTypeURL} }
func (c45CSP) ParseClusterSpecifierConfig(m proto.Message) (clusterspecifier.BalancerConfig, error) {
	a, ok := m.(*anypb.Any)
	if !ok || string(a.GetValue()) != "ok" {
		return nil, errC45CSP
	}
	return clusterspecifier.BalancerConfig{{"c45_lb": map[string]any{}}}, nil
}

type c45Err string

func (e c45Err) Error() string { return string(e) }

const errC45CSP = c45Err("c45 cluster specifier: bad config")

func init() { clusterspecifier.Register(c45CSP{}) }

func c45PerFilter(c *c45Ch, n int) map[string]*anypb.Any {
	unknown := &anypb.Any{TypeUrl: "type.googleapis.com/c45.UnknownFilter", Value: []byte{1, 2}}
	switch c.N(n) {
	case 1: // unknown filter type, required -> resource rejected
		return map[string]*anypb.Any{"f": unknown}
	case 2: // unknown filter type wrapped as optional FilterConfig -> ignored
		fc, _ := anypb.New(&v3routepb.FilterConfig{IsOptional: true, Config: unknown})
		return map[string]*anypb.Any{"f": fc}
	case 3: // FilterConfig wrapper with garbage inside
		return map[string]*anypb.Any{"f": {TypeUrl: "type.googleapis.com/envoy.config.route.v3.FilterConfig", Value: []byte{0xff}}}
	case 4: // router override (the router filter accepts no override)
		return map[string]*anypb.Any{"router": {TypeUrl: "type.googleapis.com/envoy.extensions.filters.http.router.v3.Router"}}
	case 5: // fault override (valid)
		return map[string]*anypb.Any{"fault": {TypeUrl: "type.googleapis.com/envoy.extensions.filters.http.fault.v3.HTTPFault"}}
	}
	return nil
}

func c45Retry(c *c45Ch, n int) *v3routepb.RetryPolicy {
	switch c.N(n) {
	case 1:
		return &v3routepb.RetryPolicy{RetryOn: "unavailable, cancelled,bogus", NumRetries: c45U32(2)}
	case 2:
		return &v3routepb.RetryPolicy{RetryOn: "internal", NumRetries: c45U32(0)}
	case 3:
		return &v3routepb.RetryPolicy{RetryOn: "internal", RetryBackOff: &v3routepb.RetryPolicy_RetryBackOff{BaseInterval: durationpb.New(0)}}
	case 4:
		return &v3routepb.RetryPolicy{RetryOn: "internal", RetryBackOff: &v3routepb.RetryPolicy_RetryBackOff{BaseInterval: durationpb.New(1e6), MaxInterval: durationpb.New(-1)}}
	case 5:
		return &v3routepb.RetryPolicy{RetryOn: "bogus"}
	}
	return nil
}

const (
	c45MatchKinds  = 9
	c45HeaderKinds = 14
)

// c45RouteMatch: path specifier kinds incl. missing.
func c45RouteMatch(k int) *v3routepb.RouteMatch {
	switch k {
	case 0:
		return &v3routepb.RouteMatch{PathSpecifier: &v3routepb.RouteMatch_Prefix{Prefix: "/"}}
	case 1:
		return &v3routepb.RouteMatch{PathSpecifier: &v3routepb.RouteMatch_Path{Path: "/s/m"}, CaseSensitive: &wrapperspb.BoolValue{Value: false}}
	case 2:
		return &v3routepb.RouteMatch{PathSpecifier: &v3routepb.RouteMatch_SafeRegex{SafeRegex: &v3matcherpb.RegexMatcher{Regex: "/a.*"}}}
	case 3:
		return &v3routepb.RouteMatch{PathSpecifier: &v3routepb.RouteMatch_SafeRegex{SafeRegex: &v3matcherpb.RegexMatcher{Regex: "a(b"}}}
	case 4:
		return &v3routepb.RouteMatch{} // match present, path specifier missing
	case 5:
		return nil // match missing
	case 6:
		return &v3routepb.RouteMatch{PathSpecifier: &v3routepb.RouteMatch_ConnectMatcher_{ConnectMatcher: &v3routepb.RouteMatch_ConnectMatcher{}}}
	case 7:
		return &v3routepb.RouteMatch{PathSpecifier: &v3routepb.RouteMatch_Prefix{Prefix: "/"}, QueryParameters: []*v3routepb.QueryParameterMatcher{{Name: "q"}}}
	}
	return &v3routepb.RouteMatch{PathSpecifier: &v3routepb.RouteMatch_PathSeparatedPrefix{PathSeparatedPrefix: "/p"},
		RuntimeFraction: &v3corepb.RuntimeFractionalPercent{DefaultValue: &v3typepb.FractionalPercent{Numerator: 3, Denominator: v3typepb.FractionalPercent_TEN_THOUSAND}}}
}

// c45Header: header matcher kinds (0 = no header matcher).
func c45Header(k int) *v3routepb.HeaderMatcher {
	h := &v3routepb.HeaderMatcher{Name: "h"}
	switch k {
	case 0:
		return nil
	case 1:
		h.HeaderMatchSpecifier = &v3routepb.HeaderMatcher_ExactMatch{ExactMatch: "v"}
	case 2:
		h.HeaderMatchSpecifier = &v3routepb.HeaderMatcher_SafeRegexMatch{SafeRegexMatch: &v3matcherpb.RegexMatcher{Regex: "v+"}}
	case 3:
		h.HeaderMatchSpecifier = &v3routepb.HeaderMatcher_SafeRegexMatch{SafeRegexMatch: &v3matcherpb.RegexMatcher{Regex: "v)"}}
	case 4:
		h.HeaderMatchSpecifier = &v3routepb.HeaderMatcher_RangeMatch{RangeMatch: &v3typepb.Int64Range{Start: math.MinInt64, End: math.MaxInt64}}
	case 5:
		h.HeaderMatchSpecifier = &v3routepb.HeaderMatcher_PresentMatch{PresentMatch: false}
		h.InvertMatch = true
	case 6:
		h.HeaderMatchSpecifier = &v3routepb.HeaderMatcher_PrefixMatch{PrefixMatch: ""} // empty prefix
	case 7:
		h.HeaderMatchSpecifier = &v3routepb.HeaderMatcher_SuffixMatch{SuffixMatch: "x"}
	case 8:
		h.HeaderMatchSpecifier = &v3routepb.HeaderMatcher_ContainsMatch{ContainsMatch: "x"}
	case 9:
		h.HeaderMatchSpecifier = &v3routepb.HeaderMatcher_StringMatch{StringMatch: &v3matcherpb.StringMatcher{MatchPattern: &v3matcherpb.StringMatcher_Exact{Exact: "V"}, IgnoreCase: true}}
	case 10:
		h.HeaderMatchSpecifier = &v3routepb.HeaderMatcher_StringMatch{StringMatch: &v3matcherpb.StringMatcher{}} // no pattern
	case 11:
		h.HeaderMatchSpecifier = &v3routepb.HeaderMatcher_StringMatch{StringMatch: &v3matcherpb.StringMatcher{MatchPattern: &v3matcherpb.StringMatcher_SafeRegex{SafeRegex: &v3matcherpb.RegexMatcher{Regex: "[a"}}}}
	case 12:
		// no specifier at all
	case 13:
		h.HeaderMatchSpecifier = &v3routepb.HeaderMatcher_PresentMatch{PresentMatch: true}
		h.Name = ""
	}
	return h
}

func c45WC(name string, w *wrapperspb.UInt32Value) *v3routepb.WeightedCluster_ClusterWeight {
	return &v3routepb.WeightedCluster_ClusterWeight{Name: name, Weight: w}
}

// c45Action fills the action of r: route to cluster; weighted clusters (0..2
// clusters, weights {0,1,2^32-1,unset}: totals 0 / positive / overflow);
// cluster specifier plugin (declared+valid, undeclared, declared optional
// unsupported); cluster_header (unknown specifier); route without specifier;
// non-forwarding; redirect; direct response; filter action; missing.
func c45Action(c *c45Ch, r *v3routepb.Route, full bool) {
	ra := &v3routepb.RouteAction{}
	switch c.N(12) {
	case 0:
		ra.ClusterSpecifier = &v3routepb.RouteAction_Cluster{Cluster: "A"}
	case 1:
		wc := &v3routepb.WeightedCluster{}
		if !full { // reduced menu for multi-route shapes in the quick tier: totals 0 (empty), 0 (zero weight), overflow
			switch c.N(3) {
			case 1:
				wc.Clusters = append(wc.Clusters, c45WC("A", c45U32(0)))
			case 2:
				wc.Clusters = append(wc.Clusters, c45WC("A", c45U32(1)), c45WC("B", c45U32(math.MaxUint32)))
			}
			ra.ClusterSpecifier = &v3routepb.RouteAction_WeightedClusters{WeightedClusters: wc}
			break
		}
		n := c.N(3)
		for i := 0; i < n; i++ {
			wc.Clusters = append(wc.Clusters, c45WC([]string{"A", "B"}[i], c45Weight(c, true)))
		}
		if n == 1 && c.Bool() {
			wc.Clusters[0].TypedPerFilterConfig = c45PerFilter(c, 3)
		}
		ra.ClusterSpecifier = &v3routepb.RouteAction_WeightedClusters{WeightedClusters: wc}
	case 2:
		ra.ClusterSpecifier = &v3routepb.RouteAction_ClusterSpecifierPlugin{ClusterSpecifierPlugin: "csp-ok"}
	case 3:
		ra.ClusterSpecifier = &v3routepb.RouteAction_ClusterSpecifierPlugin{ClusterSpecifierPlugin: "csp-undeclared"}
	case 4:
		ra.ClusterSpecifier = &v3routepb.RouteAction_ClusterSpecifierPlugin{ClusterSpecifierPlugin: "csp-optional"}
	case 5:
		ra.ClusterSpecifier = &v3routepb.RouteAction_ClusterHeader{ClusterHeader: "x-cluster"}
	case 6:
		// route action without cluster specifier
	case 7:
		r.Action = &v3routepb.Route_NonForwardingAction{NonForwardingAction: &v3routepb.NonForwardingAction{}}
		return
	case 8:
		r.Action = &v3routepb.Route_Redirect{Redirect: &v3routepb.RedirectAction{}}
		return
	case 9:
		r.Action = &v3routepb.Route_DirectResponse{DirectResponse: &v3routepb.DirectResponseAction{Status: 200}}
		return
	case 10:
		r.Action = &v3routepb.Route_FilterAction{FilterAction: &v3routepb.FilterAction{}}
		return
	case 11:
		return // action missing
	}
	r.Action = &v3routepb.Route_Route{Route: ra}
}

// c45RouteDecor: retry policy, max stream duration, hash policies, per-filter
// overrides (only on routes whose action is "route").
func c45RouteDecor(c *c45Ch, r *v3routepb.Route) {
	rr, ok := r.Action.(*v3routepb.Route_Route)
	if !ok {
		return
	}
	rr.Route.RetryPolicy = c45Retry(c, 6)
	switch c.N(3) {
	case 1:
		rr.Route.MaxStreamDuration = &v3routepb.RouteAction_MaxStreamDuration{MaxStreamDuration: durationpb.New(1e9)}
	case 2:
		rr.Route.MaxStreamDuration = &v3routepb.RouteAction_MaxStreamDuration{GrpcTimeoutHeaderMax: durationpb.New(0), MaxStreamDuration: durationpb.New(1e9)}
	}
	switch c.N(6) {
	case 1:
		rr.Route.HashPolicy = []*v3routepb.RouteAction_HashPolicy{{PolicySpecifier: &v3routepb.RouteAction_HashPolicy_Header_{Header: &v3routepb.RouteAction_HashPolicy_Header{HeaderName: "h"}}, Terminal: true}}
	case 2:
		rr.Route.HashPolicy = []*v3routepb.RouteAction_HashPolicy{{PolicySpecifier: &v3routepb.RouteAction_HashPolicy_Header_{Header: &v3routepb.RouteAction_HashPolicy_Header{HeaderName: "h",
			RegexRewrite: &v3matcherpb.RegexMatchAndSubstitute{Pattern: &v3matcherpb.RegexMatcher{Regex: "(("}, Substitution: "x"}}}}}
	case 3:
		rr.Route.HashPolicy = []*v3routepb.RouteAction_HashPolicy{{PolicySpecifier: &v3routepb.RouteAction_HashPolicy_FilterState_{FilterState: &v3routepb.RouteAction_HashPolicy_FilterState{Key: "io.grpc.channel_id"}}}}
	case 4:
		rr.Route.HashPolicy = []*v3routepb.RouteAction_HashPolicy{{PolicySpecifier: &v3routepb.RouteAction_HashPolicy_FilterState_{FilterState: &v3routepb.RouteAction_HashPolicy_FilterState{Key: "other"}}},
			{PolicySpecifier: &v3routepb.RouteAction_HashPolicy_Cookie_{Cookie: &v3routepb.RouteAction_HashPolicy_Cookie{Name: "c"}}}, {}}
	case 5:
		rr.Route.HashPolicy = []*v3routepb.RouteAction_HashPolicy{{PolicySpecifier: &v3routepb.RouteAction_HashPolicy_Header_{Header: &v3routepb.RouteAction_HashPolicy_Header{HeaderName: "h",
			RegexRewrite: &v3matcherpb.RegexMatchAndSubstitute{Pattern: &v3matcherpb.RegexMatcher{Regex: "a+"}, Substitution: "x"}}}}}
	}
	r.TypedPerFilterConfig = c45PerFilter(c, 6)
}

func c45CSPDecls() []*v3routepb.ClusterSpecifierPlugin {
	return []*v3routepb.ClusterSpecifierPlugin{
		{Extension: &v3corepb.TypedExtensionConfig{Name: "csp-ok", TypedConfig: &anypb.Any{TypeUrl: c45CSPTypeURL, Value: []byte("ok")}}},
		{Extension: &v3corepb.TypedExtensionConfig{Name: "csp-optional", TypedConfig: &anypb.Any{TypeUrl: "type.googleapis.com/c45.NoSuchPlugin"}}, IsOptional: true},
		{Extension: &v3corepb.TypedExtensionConfig{Name: "csp-unused", TypedConfig: &anypb.Any{TypeUrl: c45CSPTypeURL, Value: []byte("ok")}}},
	}
}

// c45GenRoute: one route = match kind x header kind x action.
func c45GenRoute(c *c45Ch, headers, fullActions bool) *v3routepb.Route {
	r := &v3routepb.Route{Match: c45RouteMatch(c.N(c45MatchKinds))}
	if headers && r.Match != nil {
		if h := c45Header(c.N(c45HeaderKinds)); h != nil {
			r.Match.Headers = []*v3routepb.HeaderMatcher{h}
		}
	}
	c45Action(c, r, fullActions)
	return r
}

// c45GenRDS, shapes:
//
//	0: no virtual host; name {set, empty}; plugin declarations {none, standard, unknown required, stub parse error}
//	1: one virtual host, one route: match x header x action (full product)
//	2: one virtual host, two routes: (match x action')^2 (quick), (match x header x action) x (match x action) (thorough)
//	3: two virtual hosts with one route each: (match x action')^2
//	   (action' = action with the weighted-cluster weights reduced to three lists: empty, [0], [1, 2^32-1])
//	4: one good route x decorations (retry x max-stream-duration x hash policy x per-filter override) x virtual-host retry x virtual-host per-filter override
func c45GenRDS(c *c45Ch) proto.Message {
	rc := &v3routepb.RouteConfiguration{Name: "route-c45", ClusterSpecifierPlugins: c45CSPDecls()}
	vh := func(rs ...*v3routepb.Route) *v3routepb.VirtualHost {
		return &v3routepb.VirtualHost{Name: "vh", Domains: []string{"*"}, Routes: rs}
	}
	switch c.N(5) {
	case 0:
		if c.Bool() {
			rc.Name = ""
		}
		switch c.N(4) {
		case 0:
			rc.ClusterSpecifierPlugins = nil
		case 2:
			rc.ClusterSpecifierPlugins = append(rc.ClusterSpecifierPlugins, &v3routepb.ClusterSpecifierPlugin{Extension: &v3corepb.TypedExtensionConfig{Name: "x", TypedConfig: &anypb.Any{TypeUrl: "type.googleapis.com/c45.NoSuchPlugin"}}})
		case 3:
			rc.ClusterSpecifierPlugins = append(rc.ClusterSpecifierPlugins, &v3routepb.ClusterSpecifierPlugin{Extension: &v3corepb.TypedExtensionConfig{Name: "x", TypedConfig: &anypb.Any{TypeUrl: c45CSPTypeURL, Value: []byte("bad")}}})
		}
	case 1:
		rc.VirtualHosts = []*v3routepb.VirtualHost{vh(c45GenRoute(c, true, true))}
	case 2:
		r1 := c45GenRoute(c, c.Thorough, c.Thorough)
		r2 := c45GenRoute(c, false, c.Thorough)
		rc.VirtualHosts = []*v3routepb.VirtualHost{vh(r1, r2)}
	case 3:
		r1 := c45GenRoute(c, false, false)
		r2 := c45GenRoute(c, false, false)
		rc.VirtualHosts = []*v3routepb.VirtualHost{vh(r1), vh(r2)}
	case 4:
		r := &v3routepb.Route{Match: c45RouteMatch(0), Action: &v3routepb.Route_Route{Route: &v3routepb.RouteAction{ClusterSpecifier: &v3routepb.RouteAction_Cluster{Cluster: "A"}}}}
		c45RouteDecor(c, r)
		v := vh(r)
		v.RetryPolicy = c45Retry(c, 3)
		v.TypedPerFilterConfig = c45PerFilter(c, 6)
		rc.VirtualHosts = []*v3routepb.VirtualHost{v}
	}
	return rc
}

// c45SmallRouteConfig is the reduced inline route configuration used inside
// Listener resources: one virtual host, one route, match kinds {prefix,
// missing specifier, bad regex} x actions {cluster, weighted total 0,
// non-forwarding, missing, undeclared plugin}.
func c45SmallRouteConfig(c *c45Ch) *v3routepb.RouteConfiguration {
	r := &v3routepb.Route{Match: c45RouteMatch([]int{0, 4, 3}[c.N(3)])}
	switch c.N(5) {
	case 0:
		r.Action = &v3routepb.Route_Route{Route: &v3routepb.RouteAction{ClusterSpecifier: &v3routepb.RouteAction_Cluster{Cluster: "A"}}}
	case 1:
		r.Action = &v3routepb.Route_Route{Route: &v3routepb.RouteAction{ClusterSpecifier: &v3routepb.RouteAction_WeightedClusters{WeightedClusters: &v3routepb.WeightedCluster{Clusters: []*v3routepb.WeightedCluster_ClusterWeight{c45WC("A", c45U32(0))}}}}}
	case 2:
		r.Action = &v3routepb.Route_NonForwardingAction{NonForwardingAction: &v3routepb.NonForwardingAction{}}
	case 3:
	case 4:
		r.Action = &v3routepb.Route_Route{Route: &v3routepb.RouteAction{ClusterSpecifier: &v3routepb.RouteAction_ClusterSpecifierPlugin{ClusterSpecifierPlugin: "nope"}}}
	}
	return &v3routepb.RouteConfiguration{Name: "inline", VirtualHosts: []*v3routepb.VirtualHost{{Name: "vh", Domains: []string{"*"}, Routes: []*v3routepb.Route{r}}}}
}
