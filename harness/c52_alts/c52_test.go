//go:build verif

package conn

import (
	"bytes"
	"crypto/aes"
	"crypto/cipher"
	"encoding/binary"
	"errors"
	"fmt"
	"io"
	"net"
	"runtime"
	"runtime/debug"
	"sort"
	"strings"
	"sync"
	"testing"
	"time"

	core "google.golang.org/grpc/credentials/alts/internal"
	"google.golang.org/grpc/internal/verif/vk"
)

// ---- C52: ALTS records round-trip exactly; tampering is always detected ----
//
// E3 / fault enumeration on REAL conn pairs (NewConn / NewConnWithMaxFrameSize,
// both record protocols) over a scripted in-memory pipe whose Read returns
// exactly the explorer-chosen segments.
//
// The oracle knows only the ALTS record format (4-byte LE length covering
// type+ciphertext+tag, 4-byte type, 16-byte tag) and the property statement:
//   * plaintext read == plaintext written, in order;
//   * every record on the wire <= the negotiated frame size;
//   * a tampered stream never yields anything but a true prefix of the
//     plaintext, and nothing of/after the first affected record;
//   * the counter never hands out a nonce twice; sealing fails at the wrap.

const (
	c52P        = "C52"
	c52TagLen   = 16
	c52HdrLen   = 8                     // length field + type field
	c52Overhead = c52HdrLen + c52TagLen // per-record overhead on the wire
	c52MinFrame = 4 * 1024
	c52MaxFrame = 512 * 1024
)

var (
	c52RegOnce sync.Once
	c52KeyGCM  = []byte{0x1f, 0x8b, 0x08, 0x00, 0x00, 0x09, 0x6e, 0x88, 0x02, 0xff, 0xe2, 0xd2, 0x4c, 0xce, 0x4f, 0x49}
	c52KeyRek  = []byte{
		0x0b, 0x0b, 0x0b, 0x0b, 0x0b, 0x0b, 0x0b, 0x0b, 0x0b, 0x0b, 0x0b, 0x0b, 0x0b, 0x0b, 0x0b, 0x0b,
		0x10, 0x21, 0x32, 0x43, 0x54, 0x65, 0x76, 0x87, 0x98, 0xa9, 0xba, 0xcb, 0xdc, 0xed, 0xfe, 0x0f,
		0x01, 0x02, 0x03, 0x04, 0x05, 0x06, 0x07, 0x08, 0x09, 0x0a, 0x0b, 0x0c}
	c52ErrZeroRead = errors.New("c52: conn asked the transport for a zero-length read")
	c52ErrFlood    = errors.New("c52: conn wrote far more than any framing of the input could need")
)

// c52NonceLog records every nonce the real record protocol hands to its AEAD
// when sealing (the small-overflow protocols below wrap the AEAD with it).
type c52NonceLog struct {
	mu   sync.Mutex
	seen map[string]int
	n    int
	dup  string
}

func (l *c52NonceLog) add(nonce []byte) {
	l.mu.Lock()
	defer l.mu.Unlock()
	if l.seen == nil {
		l.seen = map[string]int{}
	}
	k := string(nonce)
	if _, ok := l.seen[k]; ok && l.dup == "" {
		l.dup = fmt.Sprintf("%x", nonce)
	}
	l.seen[k]++
	l.n++
}

type c52RecAEAD struct {
	cipher.AEAD
	log *c52NonceLog
}

func (a c52RecAEAD) Seal(dst, nonce, plaintext, ad []byte) []byte {
	a.log.add(nonce)
	return a.AEAD.Seal(dst, nonce, plaintext, ad)
}

// c52CurLog is the log the next small-overflow crypto instance reports to. Only
// used by the (sequential) counter leg.
var c52CurLog *c52NonceLog

func c52Register() {
	c52RegOnce.Do(func() {
		must := func(err error) {
			if err != nil {
				panic(err)
			}
		}
		must(RegisterProtocol("c52_gcm", func(s core.Side, k []byte) (ALTSRecordCrypto, error) { return NewAES128GCM(s, k) }))
		must(RegisterProtocol("c52_rekey", func(s core.Side, k []byte) (ALTSRecordCrypto, error) { return NewAES128GCMRekey(s, k) }))
		// the same real record protocols, built field by field with a 1-byte
		// overflow length (256 records per direction) and a recording AEAD.
		must(RegisterProtocol("c52_gcm_ovf1", func(s core.Side, k []byte) (ALTSRecordCrypto, error) {
			c, err := aes.NewCipher(k)
			if err != nil {
				return nil, err
			}
			a, err := cipher.NewGCM(c)
			if err != nil {
				return nil, err
			}
			return &aes128gcm{inCounter: NewInCounter(s, 1), outCounter: NewOutCounter(s, 1), aead: c52RecAEAD{a, c52CurLog}}, nil
		}))
		must(RegisterProtocol("c52_rekey_ovf1", func(s core.Side, k []byte) (ALTSRecordCrypto, error) {
			in, err := newRekeyAEAD(k)
			if err != nil {
				return nil, err
			}
			out, err := newRekeyAEAD(k)
			if err != nil {
				return nil, err
			}
			return &aes128gcmRekey{NewInCounter(s, 1), NewOutCounter(s, 1), in, c52RecAEAD{out, c52CurLog}}, nil
		}))
	})
}

func c52Key(proto string) []byte {
	if strings.Contains(proto, "rekey") {
		return c52KeyRek
	}
	return c52KeyGCM
}

// ------------------------------------------------------------ the pipe ----

// c52Pipe is the scripted transport. Writes are appended to out. Reads serve
// `in` and never cross a cut offset: Read returns exactly the explorer-chosen
// segment (or the caller's buffer size if that is smaller).
type c52Pipe struct {
	net.Conn
	out      []byte
	wsizes   []int
	wcap     int
	flood    bool
	in       []byte
	cuts     []int
	pos      int
	reads    int
	zeroRead bool
}

func (p *c52Pipe) Write(b []byte) (int, error) {
	if len(p.out)+len(b) > p.wcap {
		p.flood = true
		return 0, c52ErrFlood
	}
	p.out = append(p.out, b...)
	p.wsizes = append(p.wsizes, len(b))
	return len(b), nil
}

func (p *c52Pipe) Read(b []byte) (int, error) {
	p.reads++
	if len(b) == 0 {
		p.zeroRead = true
		return 0, c52ErrZeroRead
	}
	if p.pos >= len(p.in) {
		return 0, io.EOF
	}
	end := len(p.in)
	for _, c := range p.cuts {
		if c > p.pos {
			end = c
			break
		}
	}
	n := copy(b, p.in[p.pos:end])
	p.pos += n
	return n, nil
}

func (p *c52Pipe) Close() error { return nil }

// ---------------------------------------------------------- the stream ----

func c52Plain(n int) []byte {
	b := make([]byte, n)
	for i := range b {
		x := uint32(i)*2654435761 + 0x9e37
		b[i] = byte(x>>24) ^ byte(x>>11) ^ byte(i)
	}
	return b
}

func c52Limit(frame int) int {
	if frame < c52MinFrame {
		return c52MinFrame // ALTS minimum / default record size
	}
	return frame
}

func c52NewConn(p net.Conn, side core.Side, proto string, frame int, protected []byte) (net.Conn, error) {
	if frame == 0 {
		return NewConn(p, side, proto, c52Key(proto), protected)
	}
	return NewConnWithMaxFrameSize(p, side, proto, c52Key(proto), protected, frame)
}

func c52Sides(dir int) (w, r core.Side) {
	if dir == 0 {
		return core.ClientSide, core.ServerSide
	}
	return core.ServerSide, core.ClientSide
}

// c52Stream is one honest ciphertext stream produced by the real writer.
type c52Stream struct {
	proto   string
	frame   int
	dir     int
	writes  []int
	pt      []byte
	wire    []byte
	bounds  []int // record start offsets, then len(wire)
	ptStart []int // plaintext offset of each record, then len(pt)
	fail    string
	failKey string
}

func (s *c52Stream) records() int { return len(s.bounds) - 1 }

// c52Build writes the given sizes through a real conn and parses the wire
// independently.
func c52Build(proto string, frame, dir int, writes []int) (st *c52Stream) {
	st = &c52Stream{proto: proto, frame: frame, dir: dir, writes: writes}
	total := 0
	for _, w := range writes {
		total += w
	}
	st.pt = c52Plain(total)
	pipe := &c52Pipe{wcap: 2*total + 64*(total/(c52MinFrame-c52Overhead)+len(writes)+2) + 4096}
	defer func() {
		if p := recover(); p != nil {
			st.fail, st.failKey = fmt.Sprintf("Write panicked: %v", p), "write-panic"
		}
	}()
	ws, _ := c52Sides(dir)
	c, err := c52NewConn(pipe, ws, proto, frame, nil)
	if err != nil {
		st.fail, st.failKey = fmt.Sprintf("constructor refused frame size %d: %v", frame, err), "constructor"
		return
	}
	off := 0
	for i, w := range writes {
		src := append([]byte(nil), st.pt[off:off+w]...)
		n, err := c.Write(src)
		if err != nil || n != w {
			st.fail, st.failKey = fmt.Sprintf("Write #%d of %d bytes returned (%d, %v)", i, w, n, err), "write-error"
			return
		}
		if !bytes.Equal(src, st.pt[off:off+w]) {
			st.fail, st.failKey = fmt.Sprintf("Write #%d modified the caller's buffer", i), "write-clobbers-input"
			return
		}
		off += w
	}
	st.wire = pipe.out
	limit := c52Limit(frame)
	// independent parse of the wire: [len:4 LE][type:4][ciphertext][tag:16]
	b, pt := 0, 0
	for b < len(st.wire) {
		if len(st.wire)-b < 4 {
			st.fail, st.failKey = fmt.Sprintf("wire ends inside a length field at offset %d of %d", b, len(st.wire)), "wire-unparseable"
			return
		}
		l := int(binary.LittleEndian.Uint32(st.wire[b:]))
		if l < 4+c52TagLen || b+4+l > len(st.wire) {
			st.fail, st.failKey = fmt.Sprintf("record at offset %d declares length %d; wire has %d bytes", b, l, len(st.wire)), "wire-unparseable"
			return
		}
		if 4+l > limit {
			st.fail, st.failKey = fmt.Sprintf("record #%d at offset %d is %d bytes on the wire, above the negotiated frame limit %d", len(st.bounds), b, 4+l, limit), "record-over-limit"
			return
		}
		st.bounds = append(st.bounds, b)
		st.ptStart = append(st.ptStart, pt)
		pt += l - 4 - c52TagLen
		b += 4 + l
	}
	st.bounds = append(st.bounds, len(st.wire))
	st.ptStart = append(st.ptStart, pt)
	if pt != total {
		st.fail, st.failKey = fmt.Sprintf("records carry %d payload bytes, %d were written", pt, total), "wire-payload-sum"
	}
	return
}

// ---------------------------------------------------------- the reader ----

type c52ReadResult struct {
	got      []byte
	atErr    int // bytes delivered before the first error
	errs     []string // every error returned, in order
	firstErr string
	panicked string
	stuck    bool
	zeroRead bool
}

// c52Read delivers wire (first `pre` bytes through the constructor, the rest in
// the given segments) to a fresh real reader conn and reads with buffers of rb
// bytes until EOF (continuing a few times after a non-EOF error to see whether
// anything else leaks out).
func c52Read(sc *c52Scratch, proto string, frame, dir int, wire []byte, rb, pre int, cuts []int, expect int) (res c52ReadResult) {
	var rconn *conn
	defer func() {
		if p := recover(); p != nil {
			res.panicked = fmt.Sprint(p)
		}
		// conn has no Close of its own: hand the read buffer back like an
		// owner tearing the connection down would (keeps the shared dirty
		// pool warm, so later conns start on used memory).
		if rconn != nil && rconn.protectedHandle != nil && res.panicked == "" {
			h := rconn.protectedHandle
			rconn.protectedHandle, rconn.nextFrame, rconn.buf = nil, nil, nil
			readBufPool.Put(h)
		}
	}()
	if pre > len(wire) {
		pre = len(wire)
	}
	rest := wire[pre:]
	rc := make([]int, 0, len(cuts))
	for _, c := range cuts {
		if c > pre && c < len(wire) {
			rc = append(rc, c-pre)
		}
	}
	pipe := &c52Pipe{in: rest, cuts: rc}
	_, rs := c52Sides(dir)
	c, err := c52NewConn(pipe, rs, proto, frame, append([]byte(nil), wire[:pre]...))
	if err != nil {
		res.firstErr = "constructor: " + err.Error()
		res.errs = append(res.errs, res.firstErr)
		return
	}
	rconn, _ = c.(*conn)
	if cap(sc.buf) < rb {
		sc.buf = make([]byte, rb)
	}
	buf := sc.buf[:rb]
	res.got = sc.got[:0]
	defer func() { sc.got = res.got[:0] }()
	afterErr, idle := 0, 0
	maxCalls := 4*(expect/rb+1) + 4*len(wire)/1 + 64
	for calls := 0; ; calls++ {
		if calls > maxCalls || idle > 64 {
			res.stuck = true
			break
		}
		if rb <= 64 {
			for i := range buf {
				buf[i] = 0xEE
			}
		}
		n, err := c.Read(buf)
		if n < 0 || n > len(buf) {
			res.panicked = fmt.Sprintf("Read returned n=%d for a %d-byte buffer", n, len(buf))
			break
		}
		res.got = append(res.got, buf[:n]...)
		if n == 0 && err == nil {
			idle++
		} else {
			idle = 0
		}
		if err != nil {
			res.errs = append(res.errs, err.Error())
			if res.firstErr == "" {
				res.firstErr = err.Error()
				res.atErr = len(res.got)
			}
			if err == io.EOF {
				break
			}
			afterErr++
			if afterErr > 3 {
				break
			}
		}
	}
	res.zeroRead = pipe.zeroRead
	return
}

func c52ErrClass(e string) string {
	switch {
	case e == "":
		return "none"
	case e == "EOF":
		return "EOF"
	case strings.Contains(e, "authentication failed"):
		return "auth-failed"
	case strings.Contains(e, "larger than the limit"):
		return "length-over-limit"
	case strings.Contains(e, "shorter than message type"):
		return "frame-too-short"
	case strings.Contains(e, "incorrect message type"):
		return "bad-message-type"
	case strings.Contains(e, "invalid counter"):
		return "counter-exhausted"
	}
	return "other:" + e
}

// c52Scratch holds per-worker buffers reused between cases.
type c52Scratch struct {
	buf, got, wire []byte
}

// ------------------------------------------------------------- oracle ----

// c52Case is the replayable description of one evaluated case.
type c52Case struct {
	Kind   string `json:"kind"` // roundtrip | fault | counter
	Proto  string `json:"proto"`
	Frame  int    `json:"frame"`
	Dir    int    `json:"dir"`
	Writes []int  `json:"writes"`
	RB     int    `json:"rb"`
	Pre    int    `json:"pre"`
	Cuts   []int  `json:"cuts"`
	Fault  string `json:"fault,omitempty"` // flip | len | drop | swap | dup | trunc
	A      int    `json:"a,omitempty"`
	B      int    `json:"b,omitempty"`
}

func (c c52Case) key(class string) string {
	s := fmt.Sprintf("%s/%s/frame=%d/dir=%d/writes=%v/rb=%d/pre=%d/cuts=%v", class, c.Proto, c.Frame, c.Dir, c.Writes, c.RB, c.Pre, c.Cuts)
	if c.Fault != "" {
		s += fmt.Sprintf("/%s(%d,%d)", c.Fault, c.A, c.B)
	}
	return s
}

type c52Fail struct{ class, desc string }

func c52Prefix(got, pt []byte) bool { return len(got) <= len(pt) && bytes.Equal(got, pt[:len(got)]) }

func c52FirstDiff(a, b []byte) int {
	n := min(len(a), len(b))
	for i := 0; i < n; i++ {
		if a[i] != b[i] {
			return i
		}
	}
	return n
}

// c52CheckHonest: an untouched stream must be read back completely.
func c52CheckHonest(sc *c52Scratch, st *c52Stream, rb, pre int, cuts []int) (*c52Fail, string) {
	res := c52Read(sc, st.proto, st.frame, st.dir, st.wire, rb, pre, cuts, len(st.pt))
	switch {
	case res.panicked != "":
		return &c52Fail{"read-panic", "Read panicked: " + res.panicked}, ""
	case res.stuck:
		return &c52Fail{"read-stuck", fmt.Sprintf("Read made no progress (%d bytes of %d delivered, errors %v)", len(res.got), len(st.pt), res.errs)}, ""
	case res.zeroRead:
		return &c52Fail{"zero-length-transport-read", "the conn issued a zero-length read on the transport (would spin on a real net.Conn)"}, ""
	case !bytes.Equal(res.got, st.pt):
		d := c52FirstDiff(res.got, st.pt)
		return &c52Fail{"plaintext-mismatch", fmt.Sprintf("read %d bytes, written %d; first difference at offset %d; errors %v", len(res.got), len(st.pt), d, res.errs)}, ""
	case len(res.errs) != 1 || res.errs[0] != "EOF":
		return &c52Fail{"spurious-error", fmt.Sprintf("all %d bytes were delivered but Read reported %v (want a single EOF at the end of the transport)", len(st.pt), res.errs)}, ""
	}
	return nil, "roundtrip-ok"
}

// c52CheckTampered: wire is st.wire after a fault whose first affected record
// is k (nothing of record k or later may be delivered unless `mayDeliver` says
// how far a still-authentic prefix reaches); exempt = the touched byte is not
// covered by any integrity mechanism of the format.
func c52CheckTampered(sc *c52Scratch, st *c52Stream, wire []byte, rb, pre int, cuts []int, maxGood int, exempt bool) (*c52Fail, string) {
	res := c52Read(sc, st.proto, st.frame, st.dir, wire, rb, pre, cuts, len(st.pt))
	switch {
	case res.panicked != "":
		return &c52Fail{"read-panic", "Read panicked on a tampered stream: " + res.panicked}, ""
	case res.stuck:
		return &c52Fail{"read-stuck", fmt.Sprintf("Read made no progress on a tampered stream (%d bytes delivered, errors %v)", len(res.got), res.errs)}, ""
	case res.zeroRead:
		return &c52Fail{"zero-length-transport-read", "the conn issued a zero-length read on the transport (would spin on a real net.Conn)"}, ""
	case !c52Prefix(res.got, st.pt):
		d := c52FirstDiff(res.got, st.pt)
		return &c52Fail{"wrong-plaintext", fmt.Sprintf("tampered stream: Read delivered %d bytes that are NOT a prefix of the written plaintext (first wrong byte at offset %d); errors %v", len(res.got), d, res.errs)}, ""
	}
	if exempt {
		if len(res.got) == len(st.pt) && len(res.errs) == 1 && res.errs[0] == "EOF" {
			return nil, "unauthenticated-header-byte-changed:accepted,plaintext-intact"
		}
		return nil, "unauthenticated-header-byte-changed:rejected(" + c52ErrClass(res.firstErr) + ")"
	}
	if len(res.errs) == 0 {
		return &c52Fail{"tampering-undetected", "tampered stream: no Read error at all"}, ""
	}
	if res.atErr > maxGood {
		return &c52Fail{"tampering-undetected", fmt.Sprintf("tampered stream: %d plaintext bytes were delivered before the first Read error although only the first %d come from untouched records; errors %v", res.atErr, maxGood, res.errs)}, ""
	}
	cls := "rejected:" + c52ErrClass(res.firstErr)
	if res.atErr < maxGood {
		cls += ",earlier-records-withheld"
	}
	if len(res.got) > res.atErr {
		// the conn stays usable after a failed Read and skips the refused
		// record; whatever follows is still held to "true prefix" above
		cls += ",later-authentic-records-delivered-after-the-error"
	}
	return nil, cls
}

// ---------------------------------------------------------- enumeration ----

// c52CutCandidates: record boundaries ±1 and the header interior of every
// record (mid length field, between length and type, mid type, end of header),
// plus the last byte on its own.
func c52CutCandidates(st *c52Stream) []int {
	set := map[int]bool{}
	total := len(st.wire)
	add := func(x int) {
		if x > 0 && x < total {
			set[x] = true
		}
	}
	for i := 0; i < st.records(); i++ {
		b := st.bounds[i]
		for _, d := range []int{-1, 0, 1, 2, 4, 6, 8} {
			add(b + d)
		}
	}
	add(total - 1)
	out := make([]int, 0, len(set))
	for x := range set {
		out = append(out, x)
	}
	sort.Ints(out)
	return out
}

func c52Binom(n, k int) int64 {
	if k > n {
		return 0
	}
	r := int64(1)
	for i := 0; i < k; i++ {
		r = r * int64(n-i) / int64(i+1)
	}
	return r
}

func c52SubsetCount(n, k int) int64 {
	var s int64
	for j := 0; j <= k; j++ {
		s += c52Binom(n, j)
	}
	return s
}

// c52Subsets calls f with every subset of cand of size <= k (ascending).
func c52Subsets(cand []int, k int, f func(cuts []int)) {
	cur := make([]int, 0, k)
	var rec func(start int)
	rec = func(start int) {
		f(cur)
		if len(cur) == k {
			return
		}
		for i := start; i < len(cand); i++ {
			cur = append(cur, cand[i])
			rec(i + 1)
			cur = cur[:len(cur)-1]
		}
	}
	rec(0)
}

func c52WriteMenu(frame int) []int {
	lim := c52Limit(frame)
	p := lim - c52Overhead
	return []int{0, 1, p - 1, p, p + 1, 2 * lim}
}

func c52RBMenu(frame int) []int {
	lim := c52Limit(frame)
	return []int{1, 7, lim - c52Overhead, lim}
}

type c52Tally struct {
	mu        sync.Mutex
	evals     int64
	nontriv   int64
	outcomes  map[string]int64
	extra     map[string]int64
	samples   []any
	viols     map[string]bool
	r         *vk.Run
	maxRecs   int
	maxStream int
}

func (t *c52Tally) merge(o *c52Local) {
	t.mu.Lock()
	defer t.mu.Unlock()
	t.evals += o.evals
	t.nontriv += o.nontriv
	for k, v := range o.outcomes {
		t.outcomes[k] += v
	}
	for k, v := range o.extra {
		t.extra[k] += v
	}
	t.maxRecs = max(t.maxRecs, o.maxRecs)
	t.maxStream = max(t.maxStream, o.maxStream)
	if len(t.samples) < 3 && o.sample != nil {
		t.samples = append(t.samples, o.sample)
	}
}

func (t *c52Tally) violation(c c52Case, f *c52Fail) {
	t.mu.Lock()
	defer t.mu.Unlock()
	// one (first-enumerated per worker, then smallest key) report per failure
	// class and protocol/frame keeps the output readable; keys stay specific.
	grp := f.class + "/" + c.Proto + "/" + c.Fault
	if t.viols[grp] {
		return
	}
	t.viols[grp] = true
	c.Cuts = append([]int(nil), c.Cuts...)
	c.Writes = append([]int(nil), c.Writes...)
	t.r.Violation(c52P, c.key(f.class), f.desc+"\n  case: "+c.key(""), c)
}

type c52Local struct {
	evals, nontriv     int64
	outcomes, extra    map[string]int64
	sample             any
	maxRecs, maxStream int
}

func c52NewLocal() *c52Local {
	return &c52Local{outcomes: map[string]int64{}, extra: map[string]int64{}}
}

type c52Group struct {
	proto  string
	frame  int
	dir    int
	writes []int
}

func c52Par(n int, f func(i int)) {
	w := runtime.GOMAXPROCS(0)
	if w > n {
		w = n
	}
	if w < 1 {
		w = 1
	}
	var wg sync.WaitGroup
	ch := make(chan int, 64)
	for k := 0; k < w; k++ {
		wg.Add(1)
		go func() {
			defer wg.Done()
			for i := range ch {
				f(i)
			}
		}()
	}
	for i := 0; i < n; i++ {
		ch <- i
	}
	close(ch)
	wg.Wait()
}

// c52Roundtrip enumerates every (read buffer, pre-delivered bytes, cut set) for
// one honest stream.
func c52Roundtrip(t *c52Tally, g c52Group, work int64, callCap int) {
	loc := c52NewLocal()
	defer t.merge(loc)
	sc := &c52Scratch{}
	st := c52Build(g.proto, g.frame, g.dir, g.writes)
	sc.got = make([]byte, 0, len(st.pt)+64)
	base := c52Case{Kind: "roundtrip", Proto: g.proto, Frame: g.frame, Dir: g.dir, Writes: g.writes}
	loc.evals++
	if st.fail != "" {
		t.violation(base, &c52Fail{st.failKey, st.fail})
		return
	}
	loc.maxRecs, loc.maxStream = st.records(), len(st.wire)
	if st.records() >= 2 {
		loc.nontriv++
	}
	loc.outcomes[fmt.Sprintf("wire-ok:records=%d", min(st.records(), 4))]++
	cand := c52CutCandidates(st)
	for _, rb := range c52RBMenu(g.frame) {
		calls := len(st.pt) / rb
		if calls > callCap {
			loc.extra["rb_combinations_outside_call_bound"]++
			continue
		}
		// cost of one read-back in byte-equivalents
		per := int64(len(st.wire)) + 48*int64(calls) + 2048
		cand := cand
		if c52SubsetCount(len(cand), 1)*per > work && len(cand) > 24 {
			// very long streams: cut candidates of the first two and the last record only
			cand = append(append([]int(nil), cand[:16]...), cand[len(cand)-8:]...)
			loc.extra["streams_x_rb_with_cut_candidates_limited_to_first_and_last_records"]++
		}
		k := 3
		for k > 1 && c52SubsetCount(len(cand), k)*per > work {
			k--
		}
		loc.extra[fmt.Sprintf("streams_x_rb_with_max_cuts_%d", k)]++
		run := func(pre int, cuts []int) {
			c := base
			c.RB, c.Pre, c.Cuts = rb, pre, cuts
			loc.evals++
			if st.records() >= 2 || len(cuts) > 0 || pre > 0 {
				loc.nontriv++
			}
			f, cls := c52CheckHonest(sc, st, rb, pre, cuts)
			if f != nil {
				t.violation(c, f)
				return
			}
			loc.outcomes[cls]++
			if loc.sample == nil && len(cuts) == k && st.records() >= 2 {
				cc := c
				cc.Cuts = append([]int(nil), cuts...)
				loc.sample = map[string]any{"case": cc, "records": st.records(), "wire_bytes": len(st.wire), "result": cls}
			}
		}
		c52Subsets(cand, k, func(cuts []int) { run(0, cuts) })
		// part of the stream already consumed by the handshake and handed to the constructor
		pres := map[int]bool{}
		for _, p := range []int{5, len(st.wire)} {
			pres[p] = true
		}
		if st.records() >= 1 {
			pres[st.bounds[1]] = true
			pres[st.bounds[1]+1] = true
		}
		ps := make([]int, 0, len(pres))
		for p := range pres {
			if p > 0 && p <= len(st.wire) {
				ps = append(ps, p)
			}
		}
		sort.Ints(ps)
		for _, p := range ps {
			var later []int
			for _, c := range cand {
				if c > p {
					later = append(later, c)
				}
			}
			c52Subsets(later, 1, func(cuts []int) { run(p, cuts) })
		}
	}
}

// c52Mutate applies a record-level or byte-level fault; it returns the new
// wire, the number of plaintext bytes that untouched leading records carry, and
// whether the touched byte is outside every integrity mechanism of the format.
func c52Mutate(sc *c52Scratch, st *c52Stream, fault string, a, b int) (wire []byte, maxGood int, exempt bool, ok bool) {
	wire = sc.wire[:0]
	rec := func(i int) []byte { return st.wire[st.bounds[i]:st.bounds[i+1]] }
	recOf := func(pos int) int {
		k := sort.SearchInts(st.bounds, pos+1) - 1
		return k
	}
	n := st.records()
	switch fault {
	case "flip":
		if a < 0 || a >= len(st.wire) {
			return
		}
		wire = append(wire, st.wire...)
		sc.wire = wire
		wire[a] ^= 1 << uint(b)
		k := recOf(a)
		o := a - st.bounds[k]
		// bytes 5..7 of a record are the three high bytes of the 32-bit type
		// field: plain framing, not ciphertext, not authenticated.
		return wire, st.ptStart[k], o >= 5 && o <= 7, true
	case "len":
		// overwrite the length field of record a with b
		if a >= n || b < 0 || b == len(rec(a))-4 {
			return
		}
		wire = append(wire, st.wire...)
		sc.wire = wire
		binary.LittleEndian.PutUint32(wire[st.bounds[a]:], uint32(b))
		return wire, st.ptStart[a], false, true
	case "drop":
		if a >= n {
			return
		}
		for i := 0; i < n; i++ {
			if i != a {
				wire = append(wire, rec(i)...)
			}
		}
		return wire, st.ptStart[a], false, true
	case "swap":
		if a >= b || b >= n {
			return
		}
		for i := 0; i < n; i++ {
			j := i
			if i == a {
				j = b
			} else if i == b {
				j = a
			}
			wire = append(wire, rec(j)...)
		}
		return wire, st.ptStart[a], false, true
	case "dup":
		if a >= n {
			return
		}
		for i := 0; i < n; i++ {
			wire = append(wire, rec(i)...)
			if i == a {
				wire = append(wire, rec(i)...)
			}
		}
		// records 0..a are authentic once; the copy must be refused
		return wire, st.ptStart[a+1], false, true
	case "trunc":
		if a < 0 || a >= len(st.wire) {
			return
		}
		wire = append(wire, st.wire[:a]...)
		return wire, st.ptStart[recOf(a)], false, true
	}
	return
}

func c52FaultSegs(st *c52Stream, fault string, a int, wire []byte) [][]int {
	segs := [][]int{nil}
	var bs []int
	for _, b := range st.bounds[1:] {
		if b < len(wire) {
			bs = append(bs, b)
		}
	}
	if len(bs) > 0 {
		segs = append(segs, bs)
	}
	if fault == "flip" || fault == "trunc" {
		var c []int
		for _, x := range []int{a, a + 1} {
			if x > 0 && x < len(wire) {
				c = append(c, x)
			}
		}
		if len(c) > 0 {
			segs = append(segs, c)
		}
	}
	return segs
}

// c52Faults enumerates every fault of the menu on one honest stream.
func c52Faults(t *c52Tally, g c52Group, rbs []int, truncStep int) {
	loc := c52NewLocal()
	defer t.merge(loc)
	sc := &c52Scratch{}
	st := c52Build(g.proto, g.frame, g.dir, g.writes)
	sc.got = make([]byte, 0, len(st.pt)+64)
	base := c52Case{Kind: "fault", Proto: g.proto, Frame: g.frame, Dir: g.dir, Writes: g.writes}
	if st.fail != "" {
		t.violation(base, &c52Fail{st.failKey, st.fail})
		return
	}
	loc.maxRecs, loc.maxStream = max(loc.maxRecs, st.records()), max(loc.maxStream, len(st.wire))
	one := func(fault string, a, b int) {
		wire, maxGood, exempt, ok := c52Mutate(sc, st, fault, a, b)
		if !ok {
			return
		}
		sc.wire = wire
		for _, rb := range rbs {
			for _, cuts := range c52FaultSegs(st, fault, a, wire) {
				c := base
				c.RB, c.Cuts, c.Fault, c.A, c.B = rb, cuts, fault, a, b
				loc.evals++
				loc.nontriv++
				f, cls := c52CheckTampered(sc, st, wire, rb, 0, cuts, maxGood, exempt)
				if f != nil {
					t.violation(c, f)
					continue
				}
				loc.outcomes[fault+":"+cls]++
				if loc.sample == nil && fault == "flip" && a > st.bounds[1] {
					loc.sample = map[string]any{"case": c, "records": st.records(), "wire_bytes": len(st.wire), "result": cls}
				}
			}
		}
	}
	for pos := 0; pos < len(st.wire); pos++ {
		one("flip", pos, 0)
		one("flip", pos, 7)
	}
	n := st.records()
	for i := 0; i < n; i++ {
		l := st.bounds[i+1] - st.bounds[i] - 4
		for _, v := range []int{0, 1, 3, 4, 5, 19, 20, l - 1, l + 1, 1 << 20, 1<<20 + 1} {
			one("len", i, v)
		}
	}
	for i := 0; i < n; i++ {
		one("drop", i, 0)
		one("dup", i, 0)
		for j := i + 1; j < n; j++ {
			one("swap", i, j)
		}
	}
	for l := 0; l < len(st.wire); l++ {
		// every cut length near a record boundary/header, and every truncStep-th in between
		near := false
		for _, b := range st.bounds {
			if l >= b-2 && l <= b+c52HdrLen+1 {
				near = true
			}
		}
		if near || l%truncStep == 0 {
			one("trunc", l, 0)
		}
	}
}

// ------------------------------------------------------------- counter ----

// c52Counter drives the real Counter with overflow length ovf from start until
// it becomes invalid: returns a failure or "".
func c52Counter(start []byte, ovf int, extra int) (fail string, valid int64) {
	c := CounterFromValue(start, ovf)
	// nonces handed out = Value() results before each Inc, as the record protocols use it
	want := new([counterLen]byte)
	copy(want[:], start)
	// expected number of valid values: distance of the low `ovf` bytes (little endian) to the wrap
	var low uint64
	for i := ovf - 1; i >= 0; i-- {
		low = low<<8 | uint64(start[i])
	}
	span := uint64(1) << (8 * uint(ovf))
	expectValid := int64(span - low)
	bits := make([]uint64, (span+63)/64)
	for {
		v, err := c.Value()
		if err != nil {
			break
		}
		valid++
		if valid > expectValid {
			return fmt.Sprintf("counter(start=%x, overflowLen=%d) handed out more than %d values: it wrapped", start, ovf, expectValid), valid
		}
		var x uint64
		for i := ovf - 1; i >= 0; i-- {
			x = x<<8 | uint64(v[i])
		}
		if !bytes.Equal(v[ovf:], start[ovf:]) {
			return fmt.Sprintf("counter(start=%x, overflowLen=%d): bytes above the overflow length changed: %x", start, ovf, v), valid
		}
		if bits[x/64]&(1<<(x%64)) != 0 {
			return fmt.Sprintf("counter(start=%x, overflowLen=%d) repeated nonce %x after %d values", start, ovf, v, valid), valid
		}
		bits[x/64] |= 1 << (x % 64)
		c.Inc()
	}
	if valid != expectValid {
		return fmt.Sprintf("counter(start=%x, overflowLen=%d) became invalid after %d values, want exactly %d (all values up to the wrap)", start, ovf, valid, expectValid), valid
	}
	for i := 0; i < extra; i++ {
		c.Inc()
		if v, err := c.Value(); err == nil {
			return fmt.Sprintf("counter(start=%x, overflowLen=%d) became valid again after the wrap: %x", start, ovf, v), valid
		}
	}
	return "", valid
}

// c52SealToWrap writes single-record messages through a real conn whose record
// protocol has a 1-byte overflow length until Write fails; the peer must read
// exactly the records sealed before the wrap.
func c52SealToWrap(proto string, dir int) (fail string, sealed int) {
	log := &c52NonceLog{}
	c52CurLog = log
	pipe := &c52Pipe{wcap: 1 << 20}
	ws, _ := c52Sides(dir)
	w, err := c52NewConn(pipe, ws, proto, 0, nil)
	if err != nil {
		return "constructor: " + err.Error(), 0
	}
	var pt []byte
	var werr error
	for i := 0; i < 600; i++ {
		msg := []byte{byte(i), byte(i >> 8), 0x5a}
		_, werr = w.Write(msg)
		if werr != nil {
			break
		}
		pt = append(pt, msg...)
		sealed++
	}
	if werr == nil {
		return fmt.Sprintf("%s: 600 records were sealed with a 1-byte counter (at most 256 nonces exist): the counter wrapped", proto), sealed
	}
	if log.dup != "" {
		return fmt.Sprintf("%s: nonce %s was used for two Seal calls", proto, log.dup), sealed
	}
	if sealed != 256 || log.n != 256 {
		return fmt.Sprintf("%s: %d writes succeeded with %d Seal calls before the failure %q, want exactly 256", proto, sealed, log.n, werr), sealed
	}
	if _, err := w.Write([]byte{1}); err == nil {
		return proto + ": Write succeeded again after the counter was exhausted", sealed
	}
	if log.n != 256 {
		return fmt.Sprintf("%s: a Seal call was made after the counter was exhausted", proto), sealed
	}
	// the wire must hold exactly the 256 sealed records and they must read back
	wire := pipe.out
	res := c52Read(&c52Scratch{}, proto, 0, dir, wire, 4096, 0, nil, len(pt))
	if !c52Prefix(res.got, pt) {
		return fmt.Sprintf("%s: after exhausting the counter the peer read wrong plaintext (first difference at %d)", proto, c52FirstDiff(res.got, pt)), sealed
	}
	if len(res.got) != len(pt) {
		return fmt.Sprintf("%s: peer read %d of the %d bytes sealed before the wrap; errors %v", proto, len(res.got), len(pt), res.errs), sealed
	}
	return "", sealed
}

// ---------------------------------------------------------------- test ----

func c52Seqs(menu []int, maxLen int) [][]int {
	var out [][]int
	var rec func(cur []int)
	rec = func(cur []int) {
		if len(cur) > 0 {
			out = append(out, append([]int(nil), cur...))
		}
		if len(cur) == maxLen {
			return
		}
		for _, m := range menu {
			rec(append(cur, m))
		}
	}
	rec(nil)
	return out
}

func c52ReplayCase(t *c52Tally, c c52Case) {
	st := c52Build(c.Proto, c.Frame, c.Dir, c.Writes)
	if st.fail != "" {
		t.violation(c, &c52Fail{st.failKey, st.fail})
		return
	}
	var f *c52Fail
	var cls string
	if c.Kind == "fault" {
		wire, maxGood, exempt, ok := c52Mutate(&c52Scratch{}, st, c.Fault, c.A, c.B)
		if !ok {
			t.r.EngineError("replay: fault %s(%d,%d) not applicable", c.Fault, c.A, c.B)
			return
		}
		f, cls = c52CheckTampered(&c52Scratch{}, st, wire, c.RB, c.Pre, c.Cuts, maxGood, exempt)
	} else {
		f, cls = c52CheckHonest(&c52Scratch{}, st, c.RB, c.Pre, c.Cuts)
	}
	fmt.Printf("replay %s -> %s\n", c.key(c.Kind), cls)
	if f != nil {
		fmt.Printf("FAIL %s: %s\n", f.class, f.desc)
		t.violation(c, f)
	}
}

func TestVerif_C52_ALTS(t *testing.T) {
	r := vk.Start(t, "c52_alts", "fault_enumeration", c52P)
	defer r.Finish()
	c52Register()
	tally := &c52Tally{outcomes: map[string]int64{}, extra: map[string]int64{}, viols: map[string]bool{}, r: r}
	r.Rule(c52P, "honest leg: for each record protocol {AES128-GCM, AES128-GCM-REKEY}, negotiated frame size of the menu, direction and write-size sequence over {0,1,P-1,P,P+1,2*frame} (P = frame-24) the real writer conn produces the stream once (wire parsed independently: every record <= frame limit); it is then read back by a fresh real reader conn for every read-buffer size of {1,7,P,frame} (inside the stated call bound) x every set of <=k cut offsets drawn from {record boundary-1,+0,+1,+2,+4,+6,+8 for every record, last byte} (k = 3, lowered to 2 or 1 only where subsets x stream size exceeds the stated work bound) x handshake-leftover prefixes {0,5,first boundary,first boundary+1,whole stream}; fault leg: on 2- and 3-record streams every byte position x {bit0,bit7} flip, the length field of each record overwritten with {0,1,3,4,5,19,20,L-1,L+1,1 MiB,1 MiB+1}, drop/duplicate of each record, swap of each pair, truncation at every offset near a boundary/header and every n-th offset elsewhere, each x read-buffer sizes x 3 segmentations; counter leg: real Counter run from every listed start to invalidity (bitmap of handed-out values), real conns with a 1-byte overflow length written until sealing fails. Non-trivial = honest cases needing reassembly (>=2 records or >=1 cut or leftover prefix) + every fault case (distinct by construction).")
	r.Assume(c52P, "negotiated frame sizes below 4 KiB are clamped to the 4 KiB ALTS minimum; sizes above 512 KiB are outside the property (the handshaker caps at 512 KiB) and are not exercised")
	r.Assume(c52P, "the three high bytes of a record's 32-bit message-type field are framing, not ciphertext, and are covered by no integrity mechanism: flipping them is recorded as an outcome class and only 'never wrong plaintext' is demanded")
	r.Assume(c52P, "truncation of the stream exactly at a record boundary is indistinguishable from a transport EOF: only 'true prefix, nothing from the cut record onwards' is demanded")
	r.Assume(c52P, "crypto/aes, crypto/cipher GCM are trusted; the scripted transport returns io.EOF when the stream is exhausted")

	if r.ReplayFile() != "" {
		var c c52Case
		if err := r.LoadReplay(&c); err != nil {
			r.EngineError("replay: %v", err)
			return
		}
		r.Eval(c52P, 1)
		if c.Kind == "counter" {
			var fail string
			if c.Fault == "seal" {
				fail, _ = c52SealToWrap(c.Proto, c.Dir)
			} else {
				start := make([]byte, counterLen)
				for i, w := range c.Writes {
					if i < counterLen {
						start[i] = byte(w)
					}
				}
				fail, _ = c52Counter(start, c.A, 4)
			}
			fmt.Println("replay counter:", fail)
			if fail != "" {
				r.Violation(c52P, c.key("counter"), fail, c)
			}
			return
		}
		c52ReplayCase(tally, c)
		return
	}

	defer debug.SetGCPercent(debug.SetGCPercent(400))
	t0 := time.Now()
	thorough := r.Thorough()
	// ---- honest round trips ----
	var frames []int
	if thorough {
		frames = []int{0, 4095, 4096, 4097, 8192, 16384, 65536, 131072, c52MaxFrame - 1, c52MaxFrame}
	} else {
		frames = []int{0, 4095, 4096, 4097, 16384, c52MaxFrame}
	}
	protos := []string{"c52_gcm", "c52_rekey"}
	var groups []c52Group
	for _, proto := range protos {
		for _, f := range frames {
			maxW := 2
			if thorough && c52Limit(f) <= 8192 {
				maxW = 3
			}
			if !thorough && c52Limit(f) > 16384 {
				maxW = 1
			}
			for _, ws := range c52Seqs(c52WriteMenu(f), maxW) {
				dirs := []int{0}
				if thorough || c52Limit(f) <= 4097 {
					dirs = []int{0, 1}
				}
				for _, d := range dirs {
					if d == 1 && len(ws) == 3 {
						continue
					}
					groups = append(groups, c52Group{proto, f, d, ws})
				}
			}
			// one long write sequence crossing the 512 KiB write-buffer cap several times
			if thorough || f == c52MaxFrame || f == 4096 {
				groups = append(groups, c52Group{proto, f, 0, []int{c52MaxFrame + 1, 3*c52MaxFrame + 7}})
			}
		}
	}
	work := int64(r.Pick(8<<20, 96<<20))
	callCap := r.Pick(26000, 300000)
	var mine []c52Group
	for i, g := range groups {
		if r.Mine(i) {
			mine = append(mine, g)
		}
	}
	capped := false
	var capMu sync.Mutex
	c52Par(len(mine), func(i int) {
		if r.OverBudget() {
			capMu.Lock()
			capped = true
			capMu.Unlock()
			return
		}
		c52Roundtrip(tally, mine[i], work, callCap)
	})
	if capped {
		r.Cap(c52P, "time budget hit during the honest round-trip leg")
	}
	honestEvals := tally.evals
	fmt.Printf("c52: honest leg done: %d cases, %.1fs\n", honestEvals, time.Since(t0).Seconds())

	// ---- faults ----
	var fgroups []c52Group
	var frbs [][]int
	var fstep []int
	addF := func(proto string, frame int, dir int, ws []int, rbs []int, step int) {
		fgroups = append(fgroups, c52Group{proto, frame, dir, ws})
		frbs = append(frbs, rbs)
		fstep = append(fstep, step)
	}
	for _, proto := range protos {
		p := c52MinFrame - c52Overhead
		addF(proto, 4096, 0, []int{1, 1}, []int{1, 7, 4096}, 1)
		addF(proto, 4096, 1, []int{3, 2, 1}, []int{1, 7, 4096}, 1)
		addF(proto, 4096, 0, []int{300, 200}, []int{1, 7, 4096}, 1)
		addF(proto, 4096, 0, []int{p + 1}, []int{7, p, 4096}, 64)       // one Write, records [P,1]
		addF(proto, 0, 1, []int{1, p}, []int{7, 4096}, 64)             // records [1,P]
		addF(proto, 4097, 0, []int{2*4097 - 60}, []int{4097}, 64)      // one Write, 3 records
		if thorough {
			addF(proto, 4096, 0, []int{p, p}, []int{1, 7, p, 4096}, 16)
			addF(proto, 16384, 0, []int{16384 - c52Overhead + 1}, []int{7, 16384}, 256)
			addF(proto, 16384, 1, []int{5, 16384 - c52Overhead}, []int{16384 - c52Overhead, 16384}, 256)
		}
	}
	var fm []int
	for i := range fgroups {
		if r.Mine(i) {
			fm = append(fm, i)
		}
	}
	c52Par(len(fm), func(k int) {
		i := fm[k]
		c52Faults(tally, fgroups[i], frbs[i], fstep[i])
	})
	faultEvals := tally.evals - honestEvals
	fmt.Printf("c52: fault leg done: %d cases, %.1fs\n", faultEvals, time.Since(t0).Seconds())

	// ---- counter ----
	var counterEvals, counterNontriv int64
	if sh, _ := r.Shard(); sh == 0 {
		type cs struct {
			start []byte
			ovf   int
		}
		var starts []cs
		mk := func(low []byte, top byte) []byte {
			b := make([]byte, counterLen)
			copy(b, low)
			b[counterLen-1] = top
			return b
		}
		maxOvf := r.Pick(2, 3)
		for ovf := 1; ovf <= maxOvf; ovf++ {
			for _, top := range []byte{0x00, 0x80} { // client / server counters
				starts = append(starts, cs{mk(nil, top), ovf})
				starts = append(starts, cs{mk([]byte{0xfe}, top), ovf})
				starts = append(starts, cs{mk([]byte{0xff, 0xff, 0xff}[:ovf], top), ovf})
				starts = append(starts, cs{mk([]byte{0x00, 0xff, 0xff}[:ovf], top), ovf})
			}
		}
		// the real constructors
		for _, side := range []core.Side{core.ClientSide, core.ServerSide} {
			for ovf := 1; ovf <= maxOvf; ovf++ {
				oc := NewOutCounter(side, ovf)
				ic := NewInCounter(side, ovf)
				starts = append(starts, cs{append([]byte(nil), oc.value[:]...), ovf}, cs{append([]byte(nil), ic.value[:]...), ovf})
			}
		}
		for _, s := range starts {
			fail, valid := c52Counter(s.start, s.ovf, 4)
			counterEvals++
			counterNontriv++
			if fail != "" {
				ws := make([]int, counterLen)
				for i, b := range s.start {
					ws[i] = int(b)
				}
				c := c52Case{Kind: "counter", Proto: "-", Writes: ws, A: s.ovf}
				r.Violation(c52P, fmt.Sprintf("counter/start=%x/ovf=%d", s.start, s.ovf), fail, c)
			} else {
				tally.outcomes["counter:invalid-exactly-at-wrap"]++
				tally.extra["counter_values_checked_distinct"] += valid
			}
		}
		for _, proto := range []string{"c52_gcm_ovf1", "c52_rekey_ovf1"} {
			for dir := 0; dir < 2; dir++ {
				fail, sealed := c52SealToWrap(proto, dir)
				counterEvals++
				counterNontriv++
				if fail != "" {
					r.Violation(c52P, fmt.Sprintf("seal-to-wrap/%s/dir=%d", proto, dir), fail, c52Case{Kind: "counter", Fault: "seal", Proto: proto, Dir: dir})
				} else {
					tally.outcomes["seal:fails-at-wrap-after-256-distinct-nonces"]++
					tally.extra["records_sealed_until_wrap"] += int64(sealed)
				}
			}
		}
	}

	r.Eval(c52P, tally.evals+counterEvals)
	r.NontrivialN(c52P, tally.nontriv+counterNontriv)
	keys := make([]string, 0, len(tally.outcomes))
	for k := range tally.outcomes {
		keys = append(keys, k)
	}
	sort.Strings(keys)
	for _, k := range keys {
		r.Outcome(c52P, k)
	}
	r.Set(c52P, "outcome_counts", tally.outcomes)
	for k, v := range tally.extra {
		r.AddInt(c52P, k, v)
	}
	r.AddInt(c52P, "honest_cases", honestEvals)
	r.AddInt(c52P, "fault_cases", faultEvals)
	r.AddInt(c52P, "counter_cases", counterEvals)
	r.AddInt(c52P, "honest_streams", int64(len(mine)))
	r.AddInt(c52P, "fault_streams", int64(len(fm)))
	r.Set(c52P, "frame_sizes", fmt.Sprint(frames))
	r.Set(c52P, "max_records_in_a_stream", tally.maxRecs)
	r.Set(c52P, "max_stream_bytes", tally.maxStream)
	r.Set(c52P, "work_bound_byte_equivalents_per_stream_and_rb", fmt.Sprint(work))
	r.Set(c52P, "read_call_bound_per_case", fmt.Sprint(callCap))
	for _, s := range tally.samples {
		r.Sample(c52P, s)
	}
	if len(tally.samples) == 0 {
		r.Sample(c52P, map[string]any{"note": "no multi-record sample on this shard", "groups": len(mine)})
	}
}
