#!/bin/bash
# usage: run.sh <mutation> <PROP> [extra vcheck args]
m=$1; prop=$2; shift 2
wt=/tmp/c01-wt-$m
git -C /repo worktree remove --force $wt >/dev/null 2>&1
git -C /repo worktree add --detach $wt >/dev/null 2>&1 || exit 3
python3 /verif/harness/c01_loopy/demo/mutations.py $m $wt || exit 3
cd /verif && . ./env.sh
VERIF_REPO=$wt ./vcheck $prop --tier quick "$@" > /tmp/c01-demo-$m.$prop.out 2>&1
echo "$m $prop exit=$?" >> /tmp/c01-demo-results.txt
git -C /repo worktree remove --force $wt >/dev/null 2>&1
