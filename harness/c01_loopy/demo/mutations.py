import sys,re
name, root = sys.argv[1], sys.argv[2]
p = root + '/internal/transport/controlbuf.go'
s = open(p).read()
def rep(old, new, cnt=1):
    global s
    assert s.count(old) >= 1, (name, old)
    s = s.replace(old, new, cnt)
if name == 'm1_no_conn_clamp':
    rep('\tmaxSize = min(maxSize, int(l.sendQuota)) // connection-level flow control.\n', '')
elif name == 'm2_hsize_not_counted':
    rep('\tstr.bytesOutStanding += size\n', '\tstr.bytesOutStanding += dSize\n')
elif name == 'm3_settings_lower_ignored':
    rep('\t\t\to := l.oiws\n\t\t\tl.oiws = s.Val\n', '\t\t\to := l.oiws\n\t\t\tif s.Val > l.oiws {\n\t\t\t\tl.oiws = s.Val\n\t\t\t}\n')
elif name == 'm4_header_frag_32k':
    rep('\t\tif size > http2MaxFrameLen {\n\t\t\tsize = http2MaxFrameLen\n', '\t\tif size > 2*http2MaxFrameLen {\n\t\t\tsize = 2 * http2MaxFrameLen\n')
elif name == 'm5_trailers_immediately':
    rep('\tif str.state != empty { // either active or waiting on stream quota.\n\t\tstr.itl.enqueue(hdr)\n\t\treturn nil\n\t}\n', '\t_ = str\n')
elif name == 'm6_endstream_early':
    rep('\tif dataItem.endStream && remainingBytes == 0 {', '\tif dataItem.endStream {')
elif name == 'm7_cleanup_keeps_active':
    rep('\t\tstr.reader.Close()\n\t\tstr.deleteSelf()\n', '\t\tstr.reader.Close()\n')
elif name == 'm8_no_free_on_processing':
    rep('\t\treader.Reset(dataItem.data)\n\t\tdataItem.data.Free()\n', '\t\treader.Reset(dataItem.data)\n')
elif name == 'm9_wu_no_reactivate':
    rep('strQuota > 0 && str.state == waitingOnStreamQuota {', 'strQuota > 0 && str.state == waitingOnStreamQuota && false {')
elif name == 'm10_settings_no_reactivate':
    rep('\t\t\tif o < l.oiws {\n', '\t\t\tif o < l.oiws && false {\n')
elif name == 'm11_requeue_at_head':
    rep('\t} else { // Otherwise add it back to the list of active streams.\n\t\tl.activeStreams.enqueue(str)\n',
        '\t} else { // Otherwise add it back to the list of active streams.\n\t\th := l.activeStreams.head\n\t\tstr.next, str.prev = h.next, h\n\t\th.next.prev = str\n\t\th.next = str\n')
elif name == 'm12_run_no_drain':
    rep('\t\t\tisEmpty, err := l.processData()\n\t\t\tif err != nil {\n\t\t\t\treturn err\n\t\t\t}\n\t\t\tif !isEmpty {\n\t\t\t\tcontinue hasdata\n\t\t\t}\n',
        '\t\t\tisEmpty, err := l.processData()\n\t\t\tif err != nil {\n\t\t\t\treturn err\n\t\t\t}\n\t\t\t_ = isEmpty\n')
elif name == 'm13_cleanup_double_free':
    rep('\t\t\t\tif !df.processing {\n\t\t\t\t\tdf.data.Free()\n\t\t\t\t}\n\t\t\t}\n\t\t}\n\t}\n\tif c.rst {', '\t\t\t\tdf.data.Free()\n\t\t\t}\n\t\t}\n\t}\n\tif c.rst {')
elif name == 'm14_waiting_on_zero_only':
    # off-by-one: treat quota exhausted only when < 0
    rep('\t} else if int(l.oiws)-str.bytesOutStanding <= 0 { // Ran out of stream quota.', '\t} else if int(l.oiws)-str.bytesOutStanding < 0 { // Ran out of stream quota.')
elif name == 'm15_cleanup_rst_without_removal':
    rep('\t\tdelete(l.estdStreams, c.streamID)\n\t\tstr.reader.Close()\n\t\tstr.deleteSelf()\n', '\t\t_ = str\n\t}\n\tif false {\n\t\tvar str *outStream\n')
else:
    raise SystemExit('unknown ' + name)
open(p, 'w').write(s)
print('applied', name)
