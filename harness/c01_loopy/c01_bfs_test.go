//go:build verif

package transport

import (
	"fmt"
	"sort"
	"runtime/debug"
	"testing"

	"google.golang.org/grpc/internal/verif/seqx"
	"google.golang.org/grpc/internal/verif/vk"
)

// Leg c01_loopy (E2): explicit-state BFS over event sequences applied to a fresh
// real loopyWriter per history; one exploration, three oracles (C01, C02, C03).

var c01Props = []string{"C01", "C02", "C03"}

type c01Scenario struct {
	name   string
	side   side
	pre    []c01Op // applied before the explored history (not counted in the depth)
	ops    []c01Op
	depthQ int
	depthT int
}

var (
	c01Sizes = []int{0, 1, 9, 16384, 16390, 40000}
	c01Incs  = []uint32{1, 16384, 65535}
	c01IWS   = []uint32{0, 1, 16384, 65535, 1 << 20, 1<<31 - 1}
	c01SIDs  = []uint32{1, 3, 5}
)

// c01FullAlphabet is the complete alphabet of the design for one side.
func c01FullAlphabet(sd side) []c01Op {
	ops := []c01Op{c01OpOpen(), c01OpOpenBig()}
	for _, s := range c01SIDs {
		for _, n := range c01Sizes {
			ops = append(ops, c01OpData(s, n, false))
			if sd == clientSide {
				ops = append(ops, c01OpData(s, n, true))
			}
		}
	}
	if sd == clientSide {
		for _, s := range c01SIDs {
			ops = append(ops, c01OpEnd(s))
		}
	} else {
		for _, s := range c01SIDs {
			ops = append(ops, c01OpTrailers(s, false), c01OpTrailers(s, true))
		}
		ops = append(ops, c01OpAbort(false), c01OpAbort(true))
	}
	for _, inc := range c01Incs {
		ops = append(ops, c01OpWUConn(inc))
	}
	for _, s := range c01SIDs {
		for _, inc := range c01Incs {
			ops = append(ops, c01OpWUStr(s, inc))
		}
	}
	for _, v := range c01IWS {
		ops = append(ops, c01OpSettings(v, 0))
	}
	for p := 1; p < 6; p++ {
		ops = append(ops, c01OpSettings(1<<20, p))
	}
	for _, s := range c01SIDs {
		ops = append(ops, c01OpCleanup(s, false), c01OpCleanup(s, true))
	}
	ops = append(ops, c01OpInGoAway(), c01OpGoAway(), c01OpIdle(), c01OpTick())
	return ops
}

func c01Scenarios() []c01Scenario {
	o2 := []c01Op{c01OpOpen(), c01OpOpen()}
	o3 := []c01Op{c01OpOpen(), c01OpOpen(), c01OpOpen()}
	return []c01Scenario{
		{name: "client/full", side: clientSide, ops: c01FullAlphabet(clientSide), depthQ: 4, depthT: 5},
		{name: "server/full", side: serverSide, ops: c01FullAlphabet(serverSide), depthQ: 4, depthT: 5},
		// two client streams starving each other on both windows
		{name: "client/windows2", side: clientSide, pre: o2, depthQ: 5, depthT: 7, ops: []c01Op{
			c01OpData(1, 16390, false), c01OpData(1, 40000, true), c01OpData(3, 1, false), c01OpData(3, 40000, false), c01OpEnd(3),
			c01OpWUConn(1), c01OpWUConn(65535), c01OpWUStr(1, 1), c01OpWUStr(1, 16384), c01OpWUStr(3, 65535),
			c01OpSettings(0, 0), c01OpSettings(1, 0), c01OpSettings(65535, 0), c01OpSettings(65535, 1), c01OpSettings(1<<20, 0), c01OpSettings(1<<20, 1),
			c01OpIdle(), c01OpTick()}},
		// three client streams: round-robin order, cleanup in the middle, every re-activation order
		{name: "client/roundrobin3", side: clientSide, pre: o3, depthQ: 6, depthT: 8, ops: []c01Op{
			c01OpData(1, 40000, false), c01OpData(3, 40000, false), c01OpData(5, 16384, false), c01OpData(5, 9, true),
			c01OpWUConn(16384), c01OpWUConn(65535), c01OpWUStr(3, 16384),
			c01OpSettings(16384, 0), c01OpSettings(1<<31-1, 0), c01OpSettings(1<<31-1, 1), c01OpSettings(1<<31-1, 2), c01OpSettings(1<<31-1, 3), c01OpSettings(1<<31-1, 4), c01OpSettings(1<<31-1, 5),
			c01OpCleanup(3, false), c01OpCleanup(1, true), c01OpIdle(), c01OpTick()}},
		// client stream life cycle: open (also while draining), CONTINUATION, END_STREAM forms, cancel, GOAWAY
		{name: "client/lifecycle", side: clientSide, depthQ: 6, depthT: 8, ops: []c01Op{
			c01OpOpen(), c01OpData(1, 0, false), c01OpData(1, 16390, true), c01OpData(3, 40000, false), c01OpData(3, 9, true), c01OpEnd(1), c01OpEnd(3),
			c01OpCleanup(1, false), c01OpCleanup(1, true), c01OpCleanup(3, true), c01OpWUConn(65535), c01OpWUStr(1, 16384), c01OpSettings(0, 0), c01OpSettings(1<<20, 0),
			c01OpInGoAway(), c01OpGoAway(), c01OpIdle(), c01OpTick()}},
		// the connection window is the bottleneck: two / three streams queued behind an
		// exhausted connection window, then grants that one frame consumes (16384), that
		// are smaller than run()'s minBatchSize (1: the Gosched retry of idle) or
		// plentiful (65535); ticks, stream credit, new data and cancels in between
		{name: "client/conn-starved2", side: clientSide, pre: c01StarvedPre(2), depthQ: 6, depthT: 9, ops: []c01Op{
			c01OpWUConn(16384), c01OpWUConn(1), c01OpWUConn(65535), c01OpWUStr(3, 16384), c01OpData(1, 9, false), c01OpData(3, 16390, true),
			c01OpSettings(1<<20, 0), c01OpCleanup(3, true), c01OpIdle(), c01OpTick()}},
		{name: "server/conn-starved2", side: serverSide, pre: c01StarvedPre(2), depthQ: 6, depthT: 9, ops: []c01Op{
			c01OpWUConn(16384), c01OpWUConn(1), c01OpWUConn(65535), c01OpWUStr(3, 16384), c01OpDataS(1, 9), c01OpDataS(3, 16390),
			c01OpSettings(1<<20, 0), c01OpTrailers(3, true), c01OpIdle(), c01OpTick()}},
		{name: "client/conn-starved3", side: clientSide, pre: c01StarvedPre(3), depthQ: 6, depthT: 9, ops: []c01Op{
			c01OpWUConn(16384), c01OpWUConn(1), c01OpWUStr(5, 16384), c01OpData(1, 40000, false), c01OpSettings(16384, 0), c01OpSettings(1<<20, 0), c01OpSettings(1<<20, 1),
			c01OpCleanup(3, false), c01OpIdle(), c01OpTick()}},
		{name: "server/conn-starved3", side: serverSide, pre: c01StarvedPre(3), depthQ: 6, depthT: 9, ops: []c01Op{
			c01OpWUConn(16384), c01OpWUConn(1), c01OpWUStr(5, 16384), c01OpDataS(1, 40000), c01OpSettings(16384, 0), c01OpSettings(1<<20, 0), c01OpSettings(1<<20, 1),
			c01OpTrailers(3, false), c01OpIdle(), c01OpTick()}},
		// narrow alphabets, deep: long starvation / credit sequences
		{name: "client/deep-starve", side: clientSide, pre: o2, depthQ: 7, depthT: 10, ops: []c01Op{
			c01OpData(1, 40000, false), c01OpData(3, 40000, true), c01OpWUConn(16384), c01OpWUStr(1, 16384), c01OpWUStr(3, 1),
			c01OpSettings(0, 0), c01OpSettings(65535, 0), c01OpSettings(65535, 1), c01OpIdle(), c01OpTick()}},
		{name: "server/deep-trailers", side: serverSide, pre: o2, depthQ: 7, depthT: 10, ops: []c01Op{
			c01OpDataS(1, 40000), c01OpDataS(3, 16390), c01OpTrailers(1, true), c01OpTrailers(3, false), c01OpWUConn(16384), c01OpWUStr(1, 16384),
			c01OpSettings(1, 0), c01OpSettings(1<<20, 0), c01OpSettings(1<<20, 1), c01OpCleanup(3, true), c01OpIdle(), c01OpTick()}},
		// CONTINUATION: a 40 KiB header list between other streams' frames
		{name: "client/bigheaders", side: clientSide, depthQ: 5, depthT: 7, ops: []c01Op{
			c01OpOpen(), c01OpOpenBig(), c01OpData(1, 16390, false), c01OpData(3, 9, true), c01OpWUConn(16384), c01OpSettings(1, 0), c01OpSettings(1<<20, 0),
			c01OpCleanup(1, true), c01OpInGoAway(), c01OpIdle(), c01OpTick()}},
		{name: "server/bigheaders", side: serverSide, depthQ: 5, depthT: 7, ops: []c01Op{
			c01OpOpen(), c01OpOpenBig(), c01OpDataS(1, 16390), c01OpDataS(3, 9), c01OpTrailers(1, true), c01OpTrailers(3, false), c01OpAbort(true), c01OpSettings(1, 0), c01OpSettings(1<<20, 0),
			c01OpGoAway(), c01OpIdle(), c01OpTick()}},
		// server: trailers queued behind window-blocked data, cancel while queued, draining
		{name: "server/trailers2", side: serverSide, pre: o2, depthQ: 5, depthT: 7, ops: []c01Op{
			c01OpDataS(1, 16390), c01OpDataS(1, 40000), c01OpDataS(3, 9), c01OpDataS(3, 16384),
			c01OpTrailers(1, false), c01OpTrailers(3, true), c01OpCleanup(1, true), c01OpCleanup(3, false),
			c01OpWUConn(1), c01OpWUConn(65535), c01OpWUStr(1, 65535), c01OpWUStr(3, 1),
			c01OpSettings(0, 0), c01OpSettings(16384, 0), c01OpSettings(1<<20, 0), c01OpSettings(1<<20, 1),
			c01OpGoAway(), c01OpIdle(), c01OpTick()}},
		// server stream life cycle: register, big response headers, trailers-only, early abort, draining
		{name: "server/lifecycle", side: serverSide, depthQ: 6, depthT: 8, ops: []c01Op{
			c01OpOpen(), c01OpAbort(true), c01OpAbort(false), c01OpDataS(1, 1), c01OpDataS(1, 40000), c01OpDataS(3, 16384), c01OpDataS(3, 0),
			c01OpTrailers(1, false), c01OpTrailers(3, true), c01OpCleanup(1, true), c01OpCleanup(3, false),
			c01OpWUConn(16384), c01OpWUStr(1, 65535), c01OpSettings(1, 0), c01OpSettings(65535, 0),
			c01OpInGoAway(), c01OpGoAway(), c01OpIdle(), c01OpTick()}},
	}
}

// c01Weight: rough relative cost of a scenario (thousands of states in the
// thorough tier), only used to spread the scenarios evenly over the shards.
var c01Weight = map[string]int{
	"client/roundrobin3": 450, "client/windows2": 290, "server/trailers2": 300, "client/full": 146, "server/full": 112,
	"client/lifecycle": 55, "server/lifecycle": 121, "server/deep-trailers": 118, "client/deep-starve": 32,
	"client/conn-starved2": 59, "server/conn-starved2": 98, "client/conn-starved3": 71, "server/conn-starved3": 88,
	"client/bigheaders": 4, "server/bigheaders": 5,
}

// c01Balance assigns scenarios to shards: heaviest first, each to the least
// loaded shard (deterministic); it returns which scenarios this shard runs.
func c01Balance(scs []c01Scenario, r *vk.Run) []bool {
	sh, n := r.Shard()
	mine := make([]bool, len(scs))
	if n <= 1 {
		for i := range mine {
			mine[i] = true
		}
		return mine
	}
	order := make([]int, len(scs))
	for i := range order {
		order[i] = i
	}
	wt := func(i int) int {
		if w := c01Weight[scs[i].name]; w > 0 {
			return w
		}
		return 50
	}
	sort.SliceStable(order, func(a, b int) bool { return wt(order[a]) > wt(order[b]) })
	load := make([]int, n)
	for _, i := range order {
		best := 0
		for k := 1; k < n; k++ {
			if load[k] < load[best] {
				best = k
			}
		}
		load[best] += wt(i)
		mine[i] = best == sh
	}
	return mine
}

// c01StarvedPre: n streams, each with two 40000-byte messages queued, writer idle
// with the connection window used up (65535 bytes are out).
func c01StarvedPre(n int) []c01Op {
	var ops []c01Op
	for i := 0; i < n; i++ {
		ops = append(ops, c01OpOpen())
	}
	for round := 0; round < 2; round++ {
		for i := 0; i < n; i++ {
			ops = append(ops, c01OpData(uint32(2*i+1), 40000, false))
		}
	}
	return append(ops, c01OpIdle())
}

// c01OpDataS: server data has no END_STREAM form.
func c01OpDataS(s uint32, n int) c01Op { return c01OpData(s, n, false) }

func c01RunHistory(sc *c01Scenario, hist []int, stats *c01Stats) (out seqx.Outcome) {
	w := c01NewWorld(sc.side, stats, false)
	defer w.release()
	defer func() {
		if p := recover(); p != nil {
			desc := fmt.Sprintf("the writer panicked: %v\n%s", p, debug.Stack())
			out = seqx.Outcome{Key: "panic", Terminal: true}
			for _, pr := range c01Props {
				out.Fails = append(out.Fails, seqx.Fail{Prop: pr, Key: "panic", Desc: desc})
			}
		}
	}()
	for _, op := range sc.pre {
		if !w.apply(op) {
			w.fail("C01", "harness-preamble", "preamble op %s not applicable", op.name)
		}
	}
	for _, h := range hist {
		if !w.apply(sc.ops[h]) {
			return seqx.Outcome{Skip: true}
		}
	}
	w.buffers()
	return seqx.Outcome{Key: w.key(), Terminal: w.exited || w.broken, Fails: w.fails, Obs: w.obs()}
}

func TestVerif_C01_Loopy(t *testing.T) {
	r := vk.Start(t, "c01_loopy", "model_checking", c01Props...)
	defer r.Finish()
	c01Describe(r)
	stats := &c01Stats{}
	scs := c01Scenarios()
	mine := c01Balance(scs, r)
	for i := range scs {
		sc := &scs[i]
		if !mine[i] {
			continue
		}
		seqx.BFS(r, c01Props, seqx.Config{
			Name: sc.name, Ops: c01OpNames(sc.ops), MaxDepth: r.Pick(sc.depthQ, sc.depthT),
			Parallel: 16, Congruence: r.Thorough(), CongruenceMax: 150, MinStates: 20,
			Run: func(hist []int) seqx.Outcome { return c01RunHistory(sc, hist, stats) },
		})
	}
	for _, p := range c01Props {
		for k, v := range stats.export() {
			r.AddInt(p, k, v)
		}
	}
}

func c01Describe(r *vk.Run) {
	common := "a FRESH real loopyWriter (newLoopyWriter) with a real framer (newFramer, 32 KiB private write buffer) over an in-memory conn and a real controlBuffer is built for every history and driven exactly as run() drives it: event item(x) = controlBuf.put(x); get(false); handle(x); processData(); event tick = one processData() with an empty control buffer; event idle = processData() until it reports empty, once more after run()'s Gosched retry if fewer than minBatchSize bytes are buffered, then Flush (run() would block now). Alphabet per side (client: clientHeaders; server: registerStream+serverHeaders): open, openBig (40 KiB header list, once), data(s,n,endStream) with n in {0,1,9,16384,16390,40000} as dataFrame{h=5-byte gRPC prefix, data=mem.BufferSlice of <=12000-byte tracked buffers} with the write quota taken like write() does, end(s) (empty END_STREAM frame of CloseSend), trailers(s,rst), earlyAbort(rst), wuConn(inc) / wuStr(s,inc) with inc in {1,16384,65535}, settings(INITIAL_WINDOW_SIZE in {0,1,16384,65535,2^20,2^31-1}) incl. one op variant per order in which applySettings' map range can re-activate waiting streams, cleanup(s,rst), incomingGoAway, goAway, idle, tick; at most 3 streams (ids 1,3,5 in order). Scenarios: the full alphabet (depth 4 quick / 5 thorough) and thirteen focused sub-alphabets of 10-20 ops started from 0-3 open streams or from 2-3 streams queued behind an exhausted connection window (depth 5-7 quick / 7-10 thorough). BFS with state merging on a key made of loopy's private fields (sendQuota, oiws, draining, per established stream: state, bytesOutStanding, write quota, every queued item's remaining header/payload bytes, endStream, processing flag; activeStreams order) plus the ledger state. Every byte written (flushed or still in the framer's buffer) is re-parsed after every event by an independent http2.Framer + hpack.Decoder. A distinct state (by that key) is a non-trivial case. "
	r.Rule("C01", common+"C01 oracle: connection window = 65535 + sum of wuConn - sum of DATA lengths; stream window = peer INITIAL_WINDOW_SIZE (changed at the position of loopy's SETTINGS ACK) + sum of wuStr(s) - sum of DATA(s); every DATA frame <= 16384 and, when non-empty, <= both windows before it; every HEADERS/CONTINUATION fragment <= 16384, header blocks contiguous and decoding to the header list handed in; every SETTINGS acked.")
	r.Rule("C02", common+"C02 oracle: per stream the DATA payloads are compared byte by byte with h||data of the messages in put order (prefix at all times; complete at quiescence when both ledger windows are positive); END_STREAM only on the frame that carries the last byte of a stream whose last message was put (client), never on server DATA; trailers only after every DATA byte put before them; nothing after RST_STREAM, only the requested RST_STREAM after trailers / after the writer consumed a cleanupStream (its onWrite hook marks the position); requested RST_STREAM / trailers / HEADERS present at quiescence; every mem.Buffer handed in: never freed twice, never read after its last release, released exactly when its last byte is on the wire or its stream was cleaned up.")
	r.Rule("C03", common+"C03 oracle, with the LEDGER's windows only: at every idle (quiescent) state no live stream with unsent bytes / pending END_STREAM has both a positive stream window and a positive connection window; a stream made eligible by the previous credit event gets at least one DATA frame before the writer idles; bounded overtaking / round-robin: between two consecutive DATA frames of a stream (the second written with a positive connection window), every other stream that had unsent data and a positive stream window all the time gets a DATA frame - the shared connection window may be exhausted in between, so when it is granted in single-frame portions the served order must rotate; in-package after every event: state==active <=> member of activeStreams (no duplicates, no removed streams), state==empty <=> item list empty; processData reaches empty within 10000 calls.")
	for _, p := range c01Props {
		r.Assume(p, "applySettings ranges over the estdStreams map, so the order in which several waiting streams are re-activated is random in production; the harness re-orders the just re-activated tail of activeStreams after handle(incomingSettings) into the order named by the op (ascending by default, every other permutation is its own op variant), so keys and verdicts do not depend on Go's map iteration order")
		r.Assume(p, "the goAway handlers of http2Client/http2Server (transport code, not loopy) are replaced by a stub that writes the same GOAWAY frame and returns the same draining/error results; HPACK encoder state and the framer's buffer fill level are not part of the state key (they do not influence the writer's decisions)")
		r.Assume(p, "data is put only while the stream's write quota is positive (otherwise the real caller blocks), not after the stream's last message / trailers were put; data put after a cleanupStream of the same stream (the cancel race) is expected to be ignored; stream ids are opened in increasing order")
	}
	r.Assume("C02", "loopy does not release the write() reference of a dataFrame it ignores (stream already cleaned up) nor of items still queued when it exits; those buffers fall to the garbage collector and are counted (mem_buffers_for_cleaned_up_stream_ignored_unfreed), not reported")
}
