//go:build verif

package transport

// C01 / C02 / C03 — the outbound side of the transport (loopyWriter).
//
// This file holds what the two legs share:
//   * c01World: a REAL loopyWriter (newLoopyWriter) with a REAL framer
//     (newFramer) over an in-memory conn and a REAL controlBuffer, driven either
//     step-wise exactly as run() drives it (leg c01_loopy, engine E2/seqx) or by
//     the real run() goroutine in a synctest bubble (leg c01_conform);
//   * the alphabet (c01Op) and its translation into control items built the way
//     http2_client.go / http2_server.go build them;
//   * the oracles. They never read loopy's counters: every byte written to the
//     conn is re-parsed with a fresh http2.Framer + hpack.Decoder and checked
//     against ledgers that are fed only with the INPUTS (what the application /
//     the peer did) and the OUTPUT (frames on the wire):
//       C01  window ledger + frame-size limits,
//       C02  per-stream byte strings, END_STREAM / trailers / RST placement,
//            reference counts of every mem.Buffer handed in,
//       C03  nothing sendable is left unsent at quiescence, progress after
//            credit, round-robin, plus (in-package) state==active <=> member of
//            activeStreams.

import (
	"bytes"
	"errors"
	"fmt"
	"io"
	"math"
	"net"
	"strconv"
	"sync"
	"sync/atomic"
	"time"

	"golang.org/x/net/http2"
	"golang.org/x/net/http2/hpack"
	internalgrpclog "google.golang.org/grpc/internal/grpclog"
	"google.golang.org/grpc/internal/verif/seqx"
	"google.golang.org/grpc/mem"
)

const (
	c01MaxFrame   = 16384 // HTTP/2 default SETTINGS_MAX_FRAME_SIZE; gRPC never raises it
	c01InitWindow = 65535 // RFC 7540 initial connection / stream window
	c01MaxStreams = 3
	c01BufChunk   = 12000 // payloads are handed in as several mem.Buffers of at most this size
)

// ------------------------------------------------------------------ alphabet --

type c01Kind int

const (
	c01KOpen c01Kind = iota
	c01KOpenBig
	c01KData
	c01KEnd
	c01KTrailers
	c01KAbort
	c01KWUConn
	c01KWUStr
	c01KSettings
	c01KCleanup
	c01KInGoAway
	c01KGoAway
	c01KIdle
	c01KTick
)

// c01Op is one event of the alphabet.
type c01Op struct {
	kind c01Kind
	s    uint32 // stream id (1,3,5)
	n    int    // message payload length
	end  bool   // dataFrame.endStream (client)
	inc  uint32 // window increment
	iws  uint32 // SETTINGS_INITIAL_WINDOW_SIZE value
	rst  bool   // cleanup / trailers / abort: send RST_STREAM
	perm int    // settings: which order applySettings' map range re-activates waiting streams in
	name string
}

func c01B(b bool) string {
	if b {
		return "t"
	}
	return "f"
}

func c01OpOpen() c01Op    { return c01Op{kind: c01KOpen, name: "open"} }
func c01OpOpenBig() c01Op { return c01Op{kind: c01KOpenBig, name: "openBig"} }
func c01OpData(s uint32, n int, end bool) c01Op {
	return c01Op{kind: c01KData, s: s, n: n, end: end, name: fmt.Sprintf("data(%d,%d,%s)", s, n, c01B(end))}
}
func c01OpEnd(s uint32) c01Op { return c01Op{kind: c01KEnd, s: s, name: fmt.Sprintf("end(%d)", s)} }
func c01OpTrailers(s uint32, rst bool) c01Op {
	return c01Op{kind: c01KTrailers, s: s, rst: rst, name: fmt.Sprintf("trailers(%d,%s)", s, c01B(rst))}
}
func c01OpAbort(rst bool) c01Op {
	return c01Op{kind: c01KAbort, rst: rst, name: fmt.Sprintf("earlyAbort(%s)", c01B(rst))}
}
func c01OpWUConn(inc uint32) c01Op {
	return c01Op{kind: c01KWUConn, inc: inc, name: fmt.Sprintf("wuConn(%d)", inc)}
}
func c01OpWUStr(s, inc uint32) c01Op {
	return c01Op{kind: c01KWUStr, s: s, inc: inc, name: fmt.Sprintf("wuStr(%d,%d)", s, inc)}
}
func c01OpSettings(iws uint32, perm int) c01Op {
	n := fmt.Sprintf("settings(%d)", iws)
	if perm > 0 {
		n = fmt.Sprintf("settings(%d)/order%d", iws, perm)
	}
	return c01Op{kind: c01KSettings, iws: iws, perm: perm, name: n}
}
func c01OpCleanup(s uint32, rst bool) c01Op {
	return c01Op{kind: c01KCleanup, s: s, rst: rst, name: fmt.Sprintf("cleanup(%d,%s)", s, c01B(rst))}
}
func c01OpInGoAway() c01Op { return c01Op{kind: c01KInGoAway, name: "incomingGoAway"} }
func c01OpGoAway() c01Op   { return c01Op{kind: c01KGoAway, name: "goAway"} }
func c01OpIdle() c01Op     { return c01Op{kind: c01KIdle, name: "idle"} }
func c01OpTick() c01Op     { return c01Op{kind: c01KTick, name: "tick"} }

func c01OpNames(ops []c01Op) []string {
	out := make([]string, len(ops))
	for i, o := range ops {
		out[i] = o.name
	}
	return out
}

// ----------------------------------------------------------- payload / pools --

// c01Pattern is a fixed pseudo-random byte table (xorshift, fixed seed) that
// message payloads are cut from; read-only after init.
var c01Pattern = func() []byte {
	b := make([]byte, 1<<17)
	x := uint32(2463534242)
	for i := range b {
		x ^= x << 13
		x ^= x >> 17
		x ^= x << 5
		b[i] = byte(x >> 11)
	}
	return b
}()

// c01BigHeaderValue: ~5000 bytes that HPACK cannot shrink with Huffman coding
// (all symbols have codes longer than 8 bits), so eight of them make a ~40 KiB
// header block that needs HEADERS + 2 CONTINUATION frames.
var c01BigHeaderValue = func() string {
	b := make([]byte, 5000)
	for i := range b {
		b[i] = "{|}~^`<>"[i%8]
	}
	return string(b)
}()

// c01Track is the reference count ledger of one mem.Buffer handed to the
// transport (oracle side, C02).
type c01Track struct {
	mu         sync.Mutex
	s          uint32
	a, b       int // the buffer holds stream bytes [a,b) of stream s
	refs       int
	reachedZ   int // times the count dropped to zero
	doubleFree int // Free() on a count that is already zero
	refFreed   int // Ref() on a freed buffer
	useFreed   int // ReadOnlyData() on a freed buffer
	dropped    bool // handed in for a stream that was already cleaned up (expected to be ignored)
	data       []byte
	handle     *[]byte // pooled backing array of data
}

// c01ChunkPool recycles payload backing arrays between runs (a run copies the
// payload into them, Free poisons them).
var c01ChunkPool = sync.Pool{New: func() any { b := make([]byte, c01BufChunk); return &b }}

// c01Parser is the oracle's independent frame reader. It is recycled between
// runs only when it is in its initial protocol state (no header block open, no
// error), so that a run does not pay for a new read buffer.
type c01Parser struct {
	feed *c01Feed
	rd   *http2.Framer
}

var c01ParserPool = sync.Pool{New: func() any {
	p := &c01Parser{feed: &c01Feed{}}
	p.rd = http2.NewFramer(io.Discard, p.feed)
	p.rd.SetMaxReadFrameSize(1<<24 - 1) // the oracle must be able to read (and report) oversized frames
	return p
}}

// c01Buf wraps a buffer so that Ref/Free/ReadOnlyData are observable. The
// embedded mem.Buffer only supplies the unexported interface methods.
type c01Buf struct {
	mem.Buffer
	t *c01Track
}

func (b *c01Buf) ReadOnlyData() []byte {
	b.t.mu.Lock()
	if b.t.refs <= 0 {
		b.t.useFreed++
	}
	b.t.mu.Unlock()
	return b.t.data
}
func (b *c01Buf) Len() int { return len(b.t.data) }
func (b *c01Buf) Ref() {
	b.t.mu.Lock()
	if b.t.refs <= 0 {
		b.t.refFreed++
	}
	b.t.refs++
	b.t.mu.Unlock()
}
func (b *c01Buf) Free() {
	b.t.mu.Lock()
	if b.t.refs <= 0 {
		b.t.doubleFree++
	} else {
		b.t.refs--
		if b.t.refs == 0 {
			b.t.reachedZ++
			// a real pool would hand the memory to somebody else now
			for i := range b.t.data {
				b.t.data[i] = 0xDD
			}
		}
	}
	b.t.mu.Unlock()
}

// c01Conn is the in-memory connection: it records every byte written.
type c01Conn struct {
	mu   sync.Mutex
	base int    // bytes already parsed and dropped
	buf  []byte // bytes written and not parsed yet
}

// c01ConnBufPool recycles the (large) recording buffers between runs; plain
// memory, safe for concurrent use.
var c01ConnBufPool = sync.Pool{New: func() any { b := make([]byte, 0, 160<<10); return &b }}

func (c *c01Conn) Write(p []byte) (int, error) {
	c.mu.Lock()
	c.buf = append(c.buf, p...)
	c.mu.Unlock()
	return len(p), nil
}
func (c *c01Conn) size() int {
	c.mu.Lock()
	defer c.mu.Unlock()
	return c.base + len(c.buf)
}
func (c *c01Conn) Read([]byte) (int, error)         { return 0, io.EOF }
func (c *c01Conn) Close() error                     { return nil }
func (c *c01Conn) LocalAddr() net.Addr              { return nil }
func (c *c01Conn) RemoteAddr() net.Addr             { return nil }
func (c *c01Conn) SetDeadline(time.Time) error      { return nil }
func (c *c01Conn) SetReadDeadline(time.Time) error  { return nil }
func (c *c01Conn) SetWriteDeadline(time.Time) error { return nil }

// c01Feed is the reader the independent parser reads from.
type c01Feed struct{ chunks [][]byte }

func (f *c01Feed) Read(p []byte) (int, error) {
	for len(f.chunks) > 0 && len(f.chunks[0]) == 0 {
		f.chunks = f.chunks[1:]
	}
	if len(f.chunks) == 0 {
		return 0, io.EOF
	}
	n := copy(p, f.chunks[0])
	f.chunks[0] = f.chunks[0][n:]
	return n, nil
}

// -------------------------------------------------------------------- stats --

// c01Stats are measured coverage counters shared by all runs of one leg.
type c01Stats struct {
	dataFrames, dataBytes, emptyData, headersFrames, contFrames, rstFrames, acks atomic.Int64
	quiescent, quiescentBlockedConn, quiescentBlockedStream                     atomic.Int64
	rrObligations, rrDischarged, creditChecks                                   atomic.Int64
	buffers, buffersFreed, buffersDropped, partialMsgs, exits                   atomic.Int64
	settingsReorders                                                            atomic.Int64
}

func (s *c01Stats) export() map[string]int64 {
	return map[string]int64{
		"data_frames_checked": s.dataFrames.Load(), "data_bytes_checked": s.dataBytes.Load(), "empty_data_frames": s.emptyData.Load(),
		"headers_frames": s.headersFrames.Load(), "continuation_frames": s.contFrames.Load(), "rst_frames": s.rstFrames.Load(), "settings_acks": s.acks.Load(),
		"quiescent_states_checked": s.quiescent.Load(), "quiescent_with_stream_blocked_on_conn_window": s.quiescentBlockedConn.Load(),
		"quiescent_with_stream_blocked_on_stream_window": s.quiescentBlockedStream.Load(),
		"round_robin_obligations_created":                s.rrObligations.Load(), "round_robin_obligations_discharged": s.rrDischarged.Load(),
		"credit_then_idle_checks": s.creditChecks.Load(), "mem_buffers_tracked": s.buffers.Load(), "mem_buffers_freed_exactly_once": s.buffersFreed.Load(),
		"mem_buffers_for_cleaned_up_stream_ignored_unfreed": s.buffersDropped.Load(), "messages_split_over_several_frames": s.partialMsgs.Load(),
		"loopy_exits": s.exits.Load(), "settings_raise_with_2plus_waiting_streams": s.settingsReorders.Load(),
	}
}

// ------------------------------------------------------------------- ledger --

// c01LS is what the oracle knows about one stream: inputs and wire output only.
type c01LS struct {
	id                       uint32
	opened                   bool // the application/peer created it
	orphaned                 bool // client: headers were rejected because the transport drains
	aborted                  bool // server: earlyAbortStream
	hdrExp                   [][]hpack.HeaderField
	hdrSeen                  int // complete header blocks seen on the wire
	msgs                     []c01Msg // what the application wrote, in put order
	total                    int      // its length in bytes (5-byte prefixes included)
	cur                      int      // index of the first message that is not completely on the wire
	sent                     int
	wu, data                 int64
	endPut, endSeen          bool
	trailersPut, trailersSeen bool
	cleanupPut               bool // a cleanupStream item was put (data put later is expected to be dropped)
	closed                   bool // loopy consumed the cleanupStream item (seen through its onWrite hook)
	trailersRst              bool // the trailers carry a cleanupStream with rst
	rstAllowed               int  // RST_STREAM frames that were asked for and are not on the wire yet
	rstSeen                  bool
	frames                   int
}

// c01Msg is one message the application wrote: h || c01Pattern[start:start+n].
type c01Msg struct {
	off   int // stream offset of h[0]
	n     int
	start int
	h     [5]byte
}

// match compares p with the expected stream bytes at [off, off+len(p)); it
// returns the stream offset of the first difference or -1.
func (ls *c01LS) match(off int, p []byte) int {
	pos := off
	for i := ls.cur; i < len(ls.msgs) && len(p) > 0; i++ {
		m := &ls.msgs[i]
		end := m.off + 5 + m.n
		if pos >= end {
			continue
		}
		for pos < m.off+5 && len(p) > 0 {
			if p[0] != m.h[pos-m.off] {
				return pos
			}
			p = p[1:]
			pos++
		}
		if len(p) == 0 {
			break
		}
		k := min(len(p), end-pos)
		a := m.start + pos - m.off - 5
		if !bytes.Equal(p[:k], c01Pattern[a:a+k]) {
			for j := 0; j < k; j++ {
				if p[j] != c01Pattern[a+j] {
					return pos + j
				}
			}
		}
		p = p[k:]
		pos += k
	}
	if len(p) > 0 {
		return pos
	}
	return -1
}

type c01Frame struct {
	typ    http2.FrameType
	flags  http2.Flags
	stream uint32
	length uint32
}

func (f c01Frame) String() string {
	return fmt.Sprintf("%v(s=%d,len=%d,flags=%#x)", f.typ, f.stream, f.length, uint8(f.flags))
}

type c01Ledger struct {
	side    side
	rrOn    bool
	connWin int64
	iws     int64
	pend    []int64 // INITIAL_WINDOW_SIZE values the peer sent, not yet acknowledged
	ls      [c01MaxStreams]*c01LS
	// header block being received
	hbOpen   bool
	hbStream uint32
	hbEnd    bool
	hbFields []hpack.HeaderField
	// round-robin (bounded overtaking): owed[a] = streams that have had unsent
	// data and a positive stream window ever since a's last DATA frame and have
	// not had a DATA frame since. The connection window is shared by all streams:
	// it only has to be positive at the moment a writes again.
	owed [c01MaxStreams]uint8
	w    *c01World
}

func c01Idx(id uint32) int { return int(id-1) / 2 }

func (l *c01Ledger) get(id uint32) *c01LS {
	if id == 0 || id%2 == 0 || c01Idx(id) >= c01MaxStreams {
		return nil
	}
	return l.ls[c01Idx(id)]
}

func (l *c01Ledger) win(ls *c01LS) int64 { return l.iws + ls.wu - ls.data }

func (l *c01Ledger) live(ls *c01LS) bool {
	return ls != nil && ls.opened && !ls.orphaned && !ls.aborted && !ls.closed && !ls.rstSeen && !ls.trailersSeen
}

// pending: the application handed in something for this stream that is not on
// the wire yet.
func (l *c01Ledger) pending(ls *c01LS) bool {
	return ls.sent < ls.total || (ls.endPut && !ls.endSeen)
}

func (l *c01Ledger) eligible(ls *c01LS) bool {
	return l.live(ls) && l.pending(ls) && l.win(ls) > 0 && l.connWin > 0
}

// rrEligible: the stream competes for the (shared) connection window.
func (l *c01Ledger) rrEligible(ls *c01LS) bool {
	return l.live(ls) && l.pending(ls) && l.win(ls) > 0
}

// prune drops round-robin obligations towards streams that do not compete now.
func (l *c01Ledger) prune() {
	var el uint8
	for i, ls := range l.ls {
		if ls != nil && l.rrEligible(ls) {
			el |= 1 << i
		}
	}
	for i := range l.owed {
		l.owed[i] &= el
	}
}

func (l *c01Ledger) fail(prop, key, format string, a ...any) { l.w.fail(prop, key, format, a...) }

// streamFrame: C02 stream-state ledger, called for every DATA/HEADERS/RST_STREAM.
func (l *c01Ledger) streamFrame(ls *c01LS, f c01Frame) {
	isRST := f.typ == http2.FrameRSTStream
	switch {
	case ls.rstSeen && isRST:
		l.fail("C02", "rst-after-rst", "second RST_STREAM written for stream %d", ls.id)
	case ls.rstSeen:
		l.fail("C02", "frame-after-rst", "%v written after the RST_STREAM of stream %d", f, ls.id)
	case ls.trailersSeen && !isRST:
		l.fail("C02", "frame-after-trailers", "%v written after the END_STREAM HEADERS of stream %d", f, ls.id)
	case ls.closed && !isRST:
		l.fail("C02", "frame-after-cleanup", "%v written after the writer had removed stream %d (cleanupStream consumed)", f, ls.id)
	case ls.endSeen && !isRST:
		l.fail("C02", "frame-after-end-stream", "%v written after the END_STREAM DATA frame of stream %d", f, ls.id)
	}
}

func (l *c01Ledger) onFrame(fr http2.Frame) {
	h := fr.Header()
	f := c01Frame{typ: h.Type, flags: h.Flags, stream: h.StreamID, length: h.Length}
	l.w.log = append(l.w.log, f)
	st := l.w.stats
	switch fr := fr.(type) {
	case *http2.DataFrame:
		payload := fr.Data()
		n := int64(len(payload))
		st.dataFrames.Add(1)
		st.dataBytes.Add(n)
		if n == 0 {
			st.emptyData.Add(1)
		}
		ls := l.get(f.stream)
		// ---- C01 ----
		if n > c01MaxFrame {
			l.fail("C01", "data-frame-too-large", "DATA frame of %d bytes on stream %d exceeds the 16384-byte maximum frame size", n, f.stream)
		}
		if n > 0 && n > l.connWin {
			l.fail("C01", "data-exceeds-conn-window", "DATA frame of %d bytes on stream %d but the connection window granted by the peer is %d", n, f.stream, l.connWin)
		}
		connBefore := l.connWin
		l.connWin -= n
		if ls == nil || !ls.opened {
			l.fail("C02", "data-on-unknown-stream", "%v for a stream the application never opened", f)
			return
		}
		if w := l.win(ls); n > 0 && n > w {
			l.fail("C01", "data-exceeds-stream-window", "DATA frame of %d bytes on stream %d but the stream window granted by the peer is %d (INITIAL_WINDOW_SIZE %d + updates %d - sent %d)", n, f.stream, w, l.iws, ls.wu, ls.data)
		}
		ls.data += n
		// ---- C02 ----
		l.streamFrame(ls, f)
		if ls.hdrSeen == 0 {
			l.fail("C02", "data-before-headers", "%v before any HEADERS of that stream", f)
		}
		end := ls.sent + int(n)
		if end > ls.total {
			l.fail("C02", "data-beyond-written", "stream %d: %d DATA bytes on the wire but the application only wrote %d", ls.id, end, ls.total)
		} else if d := ls.match(ls.sent, payload); d >= 0 {
			l.fail("C02", "payload-mismatch", "stream %d: DATA bytes [%d,%d) differ from what the application wrote, first at stream offset %d", ls.id, ls.sent, end, d)
		}
		ls.sent = end
		for ls.cur < len(ls.msgs) && ls.msgs[ls.cur].off+5+ls.msgs[ls.cur].n <= ls.sent {
			ls.cur++
		}
		if ls.cur < len(ls.msgs) && ls.msgs[ls.cur].off < ls.sent && n > 0 {
			st.partialMsgs.Add(1) // a message is only partly out after this frame
		}
		if fr.StreamEnded() {
			if l.side == serverSide {
				l.fail("C02", "server-data-end-stream", "server wrote END_STREAM on a DATA frame of stream %d (a server stream ends with trailers)", ls.id)
			} else if !ls.endPut || ls.sent != ls.total {
				l.fail("C02", "end-stream-early", "stream %d: END_STREAM on a DATA frame at stream offset %d but the application wrote %d bytes (last message put: %v)", ls.id, ls.sent, ls.total, ls.endPut)
			}
			ls.endSeen = true
		}
		ls.frames++
		// ---- C03 round-robin ----
		i := c01Idx(ls.id)
		if l.rrOn && l.owed[i] != 0 && connBefore > 0 {
			var who []uint32
			for j := range l.ls {
				if l.owed[i]&(1<<j) != 0 {
					who = append(who, uint32(2*j+1))
				}
			}
			l.fail("C03", "round-robin", "stream %d got two DATA frames (the second with connection window %d) while stream(s) %v had unsent data and a positive stream window the whole time and got none: not round-robin", ls.id, connBefore, who)
		}
		for j := range l.owed {
			if l.owed[j]&(1<<i) != 0 {
				st.rrDischarged.Add(1)
			}
			l.owed[j] &^= 1 << i
		}
		l.prune()
		l.owed[i] = 0
		for j, o := range l.ls {
			if j != i && o != nil && l.rrEligible(o) {
				l.owed[i] |= 1 << j
				st.rrObligations.Add(1)
			}
		}
	case *http2.HeadersFrame:
		st.headersFrames.Add(1)
		frag := fr.HeaderBlockFragment()
		if len(frag) > c01MaxFrame {
			l.fail("C01", "header-fragment-too-large", "HEADERS fragment of %d bytes on stream %d exceeds the 16384-byte maximum frame size", len(frag), f.stream)
		}
		l.hbOpen, l.hbStream, l.hbEnd, l.hbFields = true, f.stream, fr.StreamEnded(), l.hbFields[:0]
		if ls := l.get(f.stream); ls != nil && ls.opened {
			l.streamFrame(ls, f)
		}
		l.hbWrite(frag, fr.HeadersEnded())
	case *http2.ContinuationFrame:
		st.contFrames.Add(1)
		frag := fr.HeaderBlockFragment()
		if len(frag) > c01MaxFrame {
			l.fail("C01", "header-fragment-too-large", "CONTINUATION fragment of %d bytes on stream %d exceeds the 16384-byte maximum frame size", len(frag), f.stream)
		}
		l.hbWrite(frag, fr.HeadersEnded())
	case *http2.RSTStreamFrame:
		st.rstFrames.Add(1)
		ls := l.get(f.stream)
		if ls == nil || !ls.opened {
			l.fail("C02", "rst-on-unknown-stream", "%v for a stream that was never opened", f)
			return
		}
		l.streamFrame(ls, f)
		if ls.rstAllowed == 0 {
			l.fail("C02", "unrequested-rst", "RST_STREAM on stream %d although nobody asked for one (or before the writer consumed the request)", ls.id)
		} else {
			ls.rstAllowed--
		}
		ls.rstSeen = true
		l.prune()
	case *http2.SettingsFrame:
		if fr.IsAck() {
			st.acks.Add(1)
			if len(l.pend) == 0 {
				l.fail("C01", "unsolicited-settings-ack", "SETTINGS ACK written but no SETTINGS frame of the peer is outstanding")
				return
			}
			if v := l.pend[0]; v >= 0 {
				l.iws = v
			}
			l.pend = l.pend[1:]
			l.prune()
		}
	}
}

// hbWrite feeds one header-block fragment to the independent HPACK decoder.
func (l *c01Ledger) hbWrite(frag []byte, endHeaders bool) {
	w := l.w
	if _, err := w.dec.Write(frag); err != nil {
		l.fail("C01", "header-block-undecodable", "HPACK decoding of the header block of stream %d failed: %v", l.hbStream, err)
	}
	if !endHeaders {
		return
	}
	if err := w.dec.Close(); err != nil {
		l.fail("C01", "header-block-undecodable", "HPACK decoding of the header block of stream %d failed at END_HEADERS: %v", l.hbStream, err)
	}
	got := w.decFields
	w.decFields = w.decFields[:0]
	l.hbOpen = false
	ls := l.get(l.hbStream)
	if ls == nil || !ls.opened {
		l.fail("C02", "headers-on-unknown-stream", "HEADERS for stream %d that was never opened", l.hbStream)
		return
	}
	if ls.hdrSeen >= len(ls.hdrExp) {
		l.fail("C02", "unrequested-headers", "stream %d: header block #%d on the wire but only %d were handed in", ls.id, ls.hdrSeen+1, len(ls.hdrExp))
		return
	}
	want := ls.hdrExp[ls.hdrSeen]
	ls.hdrSeen++
	same := len(got) == len(want)
	for i := 0; same && i < len(got); i++ {
		same = got[i].Name == want[i].Name && got[i].Value == want[i].Value
	}
	if !same {
		l.fail("C01", "header-block-differs", "stream %d: the header block reassembled from HEADERS+CONTINUATION (%d fields) is not the header list handed in (%d fields)", ls.id, len(got), len(want))
	}
	if l.hbEnd {
		// END_STREAM HEADERS: server trailers / trailers-only / early abort
		if l.side == clientSide {
			l.fail("C02", "client-headers-end-stream", "client wrote HEADERS with END_STREAM on stream %d", ls.id)
		}
		if !ls.trailersPut && !ls.aborted {
			l.fail("C02", "unrequested-trailers", "stream %d: END_STREAM HEADERS on the wire but no trailers were handed in", ls.id)
		}
		if ls.sent != ls.total {
			l.fail("C02", "trailers-before-data", "stream %d: trailers (HEADERS+END_STREAM) written after %d of the %d DATA bytes the application wrote before them", ls.id, ls.sent, ls.total)
		}
		ls.trailersSeen = true
		if (ls.trailersPut && ls.trailersRst) || (ls.aborted && ls.trailersRst) {
			ls.rstAllowed++
		}
		l.prune()
	}
}

// ------------------------------------------------------------------- world ----

type c01Mark struct {
	pos int
	s   uint32
	rst bool // an explicit cleanupStream{rst:true}: exactly one RST_STREAM follows
}

type c01App struct {
	id uint32
	wq *writeQuota
}

type c01World struct {
	side    side
	real    bool // the real run() goroutine consumes the control buffer
	conn    *c01Conn
	connBuf *[]byte
	done    chan struct{}
	cbuf    *controlBuffer
	fr      *framer
	l       *loopyWriter
	exited  bool
	exitErr error
	runDone atomic.Bool // real mode: run() returned

	nOpened  int
	bigUsed  bool
	nActive  int // what the transport's activeStreams map would hold (for the goAway stub)
	apps     [c01MaxStreams]*c01App
	tracks   []*c01Track
	marks    []c01Mark
	marksMu  sync.Mutex
	markDone int

	fed       int
	parsedPos int
	parser    *c01Parser
	feed      *c01Feed
	rd        *http2.Framer
	dec       *hpack.Decoder
	decFields []hpack.HeaderField
	broken    bool
	log       []c01Frame
	led       c01Ledger

	fails    []seqx.Fail
	failSeen map[string]bool
	stats    *c01Stats

	lastCredit  bool     // the previous event granted window credit
	creditSnap  [c01MaxStreams]int // frames per stream when it did (-1: stream not concerned)
	sawBlockedC bool
	sawBlockedS bool
	sawDropped  bool
}

func (w *c01World) fail(prop, key, format string, a ...any) {
	k := prop + "/" + key
	if w.failSeen[k] {
		return
	}
	if w.failSeen == nil {
		w.failSeen = map[string]bool{}
	}
	w.failSeen[k] = true
	w.fails = append(w.fails, seqx.Fail{Prop: prop, Key: key, Desc: fmt.Sprintf(format, a...)})
}

func c01NewWorld(sd side, stats *c01Stats, real bool) *c01World {
	w := &c01World{side: sd, real: real, stats: stats}
	w.connBuf = c01ConnBufPool.Get().(*[]byte)
	w.conn = &c01Conn{buf: (*w.connBuf)[:0]}
	w.done = make(chan struct{})
	w.cbuf = newControlBuffer(w.done)
	// real framer with the default 32 KiB write buffer, taken from the transport's
	// shared write-buffer pool (the grpc.WithSharedWriteBuffer configuration; the
	// pool is concurrency-safe by design), so that a run does not pay for zeroing a
	// private one
	w.fr = newFramer(w.conn, 32*1024, 0, true, math.MaxUint32, mem.DefaultBufferPool())
	w.l = newLoopyWriter(sd, w.fr, w.cbuf, nil, w.conn, internalgrpclog.NewPrefixLogger(logger, "[c01] "), w.goAwayStub, mem.DefaultBufferPool())
	w.parser = c01ParserPool.Get().(*c01Parser)
	w.feed, w.rd = w.parser.feed, w.parser.rd
	w.dec = hpack.NewDecoder(4096, func(f hpack.HeaderField) { w.decFields = append(w.decFields, f) })
	w.led = c01Ledger{side: sd, rrOn: true, connWin: c01InitWindow, iws: c01InitWindow, w: w}
	return w
}

// goAwayStub stands in for http2Client/http2Server.outgoingGoAwayHandler (which
// are transport code outside loopy): same frame, same draining/err results.
func (w *c01World) goAwayStub(g *goAway) (bool, error) {
	last := uint32(0)
	if w.nOpened > 0 {
		last = uint32(2*w.nOpened - 1)
	}
	if err := w.fr.fr.WriteGoAway(last, g.code, g.debugData); err != nil {
		return false, err
	}
	if w.side == clientSide {
		return false, g.closeConn
	}
	w.fr.writer.Flush()
	if w.nActive == 0 {
		return false, errors.New("second GOAWAY written and no active streams left to process")
	}
	if g.closeConn != nil {
		return false, g.closeConn
	}
	return true, nil
}

// release returns the recording buffer to the pool (the world must not be used
// afterwards).
func (w *c01World) release() {
	w.fr.writer.Flush() // hands the shared write buffer back
	if w.connBuf != nil {
		w.conn.mu.Lock()
		if cap(w.conn.buf) <= 1<<20 {
			*w.connBuf = w.conn.buf[:0]
			c01ConnBufPool.Put(w.connBuf)
		}
		w.conn.buf = nil
		w.conn.mu.Unlock()
		w.connBuf = nil
	}
	for _, t := range w.tracks {
		if t.handle != nil {
			c01ChunkPool.Put(t.handle)
			t.handle, t.data = nil, nil
		}
	}
	w.tracks = nil
	if w.parser != nil && !w.broken && !w.led.hbOpen && len(w.feed.chunks) == 0 {
		c01ParserPool.Put(w.parser)
	}
	w.parser = nil
}

func (w *c01World) mark(s uint32, rst bool) {
	// runs on the goroutine that runs loopy: the write position is stable
	pos := w.conn.size() + w.fr.writer.offset
	w.marksMu.Lock()
	w.marks = append(w.marks, c01Mark{pos: pos, s: s, rst: rst})
	w.marksMu.Unlock()
}

func c01SmallHeaders(s uint32, kind string) []hpack.HeaderField {
	switch kind {
	case "req":
		return []hpack.HeaderField{{Name: ":method", Value: "POST"}, {Name: ":scheme", Value: "http"}, {Name: ":path", Value: "/svc/m" + strconv.Itoa(int(s))}, {Name: ":authority", Value: "x"}, {Name: "content-type", Value: "application/grpc"}, {Name: "te", Value: "trailers"}}
	case "resp":
		return []hpack.HeaderField{{Name: ":status", Value: "200"}, {Name: "content-type", Value: "application/grpc"}}
	case "abort":
		return []hpack.HeaderField{{Name: ":status", Value: "200"}, {Name: "content-type", Value: "application/grpc"}, {Name: "grpc-status", Value: "12"}, {Name: "grpc-message", Value: "early abort"}}
	default: // trailers
		return []hpack.HeaderField{{Name: "grpc-status", Value: "0"}, {Name: "grpc-message", Value: ""}}
	}
}

func c01BigHeaders(base []hpack.HeaderField) []hpack.HeaderField {
	out := append([]hpack.HeaderField(nil), base...)
	for i := 0; i < 8; i++ {
		out = append(out, hpack.HeaderField{Name: "x-big-" + strconv.Itoa(i) + "-bin", Value: c01BigHeaderValue})
	}
	return out
}

// give hands one control item to loopy: through the real controlBuffer, then —
// in step mode — exactly what one iteration of run() does with it.
func (w *c01World) give(it cbItem) { w.giveP(it, -1) }

// giveP: perm >= 0 marks an incomingSettings item whose re-activation order the
// harness owns (see reorderActivated).
func (w *c01World) giveP(it cbItem, perm int) {
	if w.exited {
		return
	}
	if err := w.cbuf.put(it); err != nil {
		if w.real {
			return // run() has exited and closed the buffer
		}
		w.fail("C03", "put-failed", "controlBuffer.put failed: %v", err)
		return
	}
	if w.real {
		return
	}
	x, err := w.cbuf.get(false)
	if err != nil || x == nil {
		w.fail("C03", "get-failed", "controlBuffer.get(false) returned %v, %v right after put", x, err)
		return
	}
	var waitingBefore []uint32
	if perm >= 0 {
		waitingBefore = w.waitingIDs()
	}
	if err = w.l.handle(x); err == nil {
		if perm >= 0 {
			w.reorderActivated(waitingBefore, perm)
		}
		_, err = w.l.processData()
	}
	if err != nil {
		w.exit(err)
	}
}

// exit mirrors run()'s deferred function.
func (w *c01World) exit(err error) {
	w.exited, w.exitErr = true, err
	if !isIOError(err) {
		w.l.framer.writer.Flush()
	}
	w.l.cbuf.finish()
	w.stats.exits.Add(1)
}
