//go:build verif

package transport

import (
	"encoding/binary"
	"errors"
	"fmt"
	"io"
	"sort"
	"strconv"
	"sync/atomic"

	"golang.org/x/net/http2"
	"golang.org/x/net/http2/hpack"
	"google.golang.org/grpc/mem"
)

// ------------------------------------------------- map-order nondeterminism ----

// waitingIDs: ids of the streams in waitingOnStreamQuota, ascending.
func (w *c01World) waitingIDs() []uint32 {
	var ids []uint32
	for id, str := range w.l.estdStreams {
		if str.state == waitingOnStreamQuota {
			ids = append(ids, id)
		}
	}
	sort.Slice(ids, func(i, j int) bool { return ids[i] < ids[j] })
	return ids
}

func c01Fact(n int) int {
	f := 1
	for i := 2; i <= n; i++ {
		f *= i
	}
	return f
}

// c01Perm returns the perm-th permutation (lexicographic) of ids.
func c01Perm(ids []uint32, perm int) []uint32 {
	pool := append([]uint32(nil), ids...)
	var out []uint32
	for n := len(pool); n > 0; n-- {
		f := c01Fact(n - 1)
		i := perm / f
		perm %= f
		out = append(out, pool[i])
		pool = append(pool[:i], pool[i+1:]...)
	}
	return out
}

// reorderActivated owns the only map-iteration nondeterminism in loopy:
// applySettings ranges over estdStreams (a Go map) when it re-activates waiting
// streams after an INITIAL_WINDOW_SIZE raise, so their relative order at the
// tail of activeStreams is random. The harness replaces that random order by
// the order selected by the op (every order is an op variant).
func (w *c01World) reorderActivated(waitingBefore []uint32, perm int) {
	var act []uint32
	for _, id := range waitingBefore {
		if str := w.l.estdStreams[id]; str != nil && str.state == active {
			act = append(act, id)
		}
	}
	if len(act) < 2 {
		return
	}
	w.stats.settingsReorders.Add(1)
	for _, id := range act {
		w.l.estdStreams[id].deleteSelf()
	}
	for _, id := range c01Perm(act, perm) {
		w.l.activeStreams.enqueue(w.l.estdStreams[id])
	}
}

// ------------------------------------------------------------- applying ops ----

func (w *c01World) app(s uint32) *c01App {
	if s == 0 || s%2 == 0 || c01Idx(s) >= c01MaxStreams {
		return nil
	}
	return w.apps[c01Idx(s)]
}

func (w *c01World) newStreamID() (uint32, bool) {
	if w.nOpened >= c01MaxStreams {
		return 0, false
	}
	w.nOpened++
	return uint32(2*w.nOpened - 1), true
}

// apply performs one event. It returns false when the event is not applicable
// in the current state (the caller reports Skip).
func (w *c01World) apply(op c01Op) bool {
	if w.exited || w.broken {
		return false
	}
	led := &w.led
	credit := false
	var before [c01MaxStreams]bool // eligible before the event
	var framesBefore [c01MaxStreams]int
	for i, ls := range led.ls {
		before[i] = ls != nil && led.eligible(ls)
		if ls != nil {
			framesBefore[i] = ls.frames
		}
	}
	switch op.kind {
	case c01KOpen, c01KOpenBig:
		big := op.kind == c01KOpenBig
		if big && w.bigUsed {
			return false
		}
		id, ok := w.newStreamID()
		if !ok {
			return false
		}
		if big {
			w.bigUsed = true
		}
		a := &c01App{id: id, wq: &writeQuota{}}
		a.wq.init(defaultWriteQuota, w.done)
		w.apps[c01Idx(id)] = a
		ls := &c01LS{id: id, opened: true}
		led.ls[c01Idx(id)] = ls
		if w.side == clientSide {
			hf := c01SmallHeaders(id, "req")
			if big {
				hf = c01BigHeaders(hf)
			}
			ls.hdrExp = append(ls.hdrExp, hf)
			w.nActive++
			w.give(&clientHeaders{
				streamID:   id,
				hf:         hf,
				initStream: func(uint32) error { return nil },
				onWrite:    func() {},
				wq:         a.wq,
				onOrphaned: func(error) {
					// the transport drains: the stream never comes into being
					ls.orphaned = true
					ls.hdrExp = nil
					w.nActive--
				},
			})
		} else {
			hf := c01SmallHeaders(id, "resp")
			if big {
				hf = c01BigHeaders(hf)
			}
			ls.hdrExp = append(ls.hdrExp, hf)
			w.nActive++
			w.give(&registerStream{streamID: id, wq: a.wq})
			w.sync1()
			w.give(&serverHeaders{streamID: id, hf: hf, endStream: false, onWrite: func() {}})
		}
	case c01KData, c01KEnd:
		a, ls := w.app(op.s), led.get(op.s)
		if a == nil || ls == nil || ls.orphaned || ls.endPut || ls.trailersPut {
			return false
		}
		if op.kind == c01KEnd && w.side != clientSide {
			return false
		}
		if op.end && w.side != clientSide {
			return false
		}
		df := &dataFrame{streamID: op.s}
		var data mem.BufferSlice
		var tracks []*c01Track
		if op.kind == c01KEnd {
			// http2Client.write(hdr=nil, data=nil, Last): the empty END_STREAM frame of CloseSend
			df.endStream = true
		} else {
			// like http2Client.write / http2Server.write: the caller blocks while the
			// stream's write quota is used up (the quota of a stream that was already
			// cleaned up is of no interest any more: the racing write is simply dropped)
			if !ls.cleanupPut && atomic.LoadInt32(&a.wq.quota) <= 0 {
				return false
			}
			h := make([]byte, 5)
			binary.BigEndian.PutUint32(h[1:], uint32(op.n))
			off := ls.total
			dropped := ls.cleanupPut
			start := (int(op.s)*9973 + off) % 65536
			payload := c01Pattern[start : start+op.n]
			if !dropped {
				m := c01Msg{off: off, n: op.n, start: start}
				copy(m.h[:], h)
				ls.msgs = append(ls.msgs, m)
				ls.total += 5 + op.n
			}
			for p := 0; p < op.n; p += c01BufChunk {
				q := min(p+c01BufChunk, op.n)
				hd := c01ChunkPool.Get().(*[]byte)
				t := &c01Track{s: op.s, a: off + 5 + p, b: off + 5 + q, refs: 1, dropped: dropped, handle: hd, data: (*hd)[:q-p]}
				copy(t.data, payload[p:q])
				tracks = append(tracks, t)
				data = append(data, &c01Buf{Buffer: mem.SliceBuffer(nil), t: t})
			}
			w.tracks = append(w.tracks, tracks...)
			w.stats.buffers.Add(int64(len(tracks)))
			df.h, df.data, df.endStream = h, data, op.end
			if w.side == serverSide {
				df.onEachWrite = func() {}
			}
			if !ls.cleanupPut {
				if err := a.wq.get(int32(len(h) + op.n)); err != nil {
					return false
				}
			}
		}
		if df.endStream && !ls.cleanupPut {
			ls.endPut = true
		}
		data.Ref() // as write() does before controlBuf.put
		w.give(df)
		data.Free() // the caller of Write releases its own reference afterwards
	case c01KTrailers:
		ls := led.get(op.s)
		if w.side != serverSide || ls == nil || ls.trailersPut || ls.cleanupPut || ls.aborted {
			return false
		}
		ls.trailersPut = true
		hf := c01SmallHeaders(op.s, "trailers")
		ls.hdrExp = append(ls.hdrExp, hf)
		ls.trailersRst = op.rst
		s := op.s
		w.give(&serverHeaders{streamID: s, hf: hf, endStream: true, onWrite: func() {},
			cleanup: &cleanupStream{streamID: s, rst: op.rst, rstCode: http2.ErrCodeNo, onWrite: func() { w.nActive--; w.mark(s, false) }}})
	case c01KAbort:
		if w.side != serverSide {
			return false
		}
		id, ok := w.newStreamID()
		if !ok {
			return false
		}
		hf := c01SmallHeaders(id, "abort")
		ls := &c01LS{id: id, opened: true, aborted: true, trailersRst: op.rst, hdrExp: [][]hpack.HeaderField{hf}}
		led.ls[c01Idx(id)] = ls
		w.give(&earlyAbortStream{streamID: id, rst: op.rst, hf: hf})
	case c01KWUConn:
		led.connWin += int64(op.inc)
		credit = true
		w.give(&incomingWindowUpdate{streamID: 0, increment: op.inc})
	case c01KWUStr:
		ls := led.get(op.s)
		if ls == nil || ls.orphaned || ls.aborted {
			return false
		}
		if !ls.closed && !ls.cleanupPut {
			ls.wu += int64(op.inc)
		}
		credit = true
		w.give(&incomingWindowUpdate{streamID: op.s, increment: op.inc})
	case c01KSettings:
		perm := -1
		if !w.real {
			raise := op.iws > w.l.oiws
			k := 0
			if raise {
				k = len(w.waitingIDs())
			}
			if op.perm > 0 && (k < 2 || op.perm >= c01Fact(k)) {
				return false
			}
			perm = op.perm
		} else if op.perm > 0 {
			return false
		}
		led.pend = append(led.pend, int64(op.iws))
		credit = true
		w.giveP(&incomingSettings{ss: []http2.Setting{{ID: http2.SettingInitialWindowSize, Val: op.iws}}}, perm)
	case c01KCleanup:
		ls := led.get(op.s)
		if ls == nil || ls.orphaned || ls.aborted || ls.cleanupPut {
			return false
		}
		ls.cleanupPut = true
		s, rst := op.s, op.rst
		first := !ls.closed
		if first && w.side == serverSide {
			w.nActive-- // http2Server.closeStream deletes the stream before it puts the item
		}
		w.give(&cleanupStream{streamID: s, rst: op.rst, rstCode: http2.ErrCodeCancel, onWrite: func() {
			if first && w.side == clientSide {
				w.nActive--
			}
			w.mark(s, rst)
		}})
	case c01KInGoAway:
		w.give(&incomingGoAway{})
	case c01KGoAway:
		g := &goAway{code: http2.ErrCodeNo, debugData: []byte("c01")}
		if w.side == clientSide {
			g.closeConn = errors.New("client transport shutdown") // http2Client.Close
		}
		w.give(g)
	case c01KIdle:
		if w.real {
			return false
		}
		// run(): the control buffer is empty: processData until it reports empty;
		// then, once per wake-up, if less than minBatchSize bytes are buffered:
		// Gosched, poll the (still empty) buffer and call processData again; flush
		gosched := true
		for i := 0; ; i++ {
			empty, err := w.l.processData()
			if err != nil {
				w.exit(err)
				break
			}
			if empty {
				if gosched {
					gosched = false
					if w.l.framer.writer.offset < minBatchSize {
						continue
					}
				}
				w.l.framer.writer.Flush()
				break
			}
			if i > 10000 {
				w.fail("C03", "livelock", "processData did not report empty after 10000 calls with an empty control buffer")
				w.broken = true
				break
			}
		}
		w.observe()
		w.quiescent()
		w.lastCredit = false
		return true
	case c01KTick:
		if w.real {
			return false
		}
		// run(): control buffer empty, ONE processData call, then the buffer is polled again
		empty, err := w.l.processData()
		if err != nil {
			w.exit(err)
		} else if empty {
			return false // run() would flush and block now: that is the idle event
		}
	}
	w.sync1()
	// remember which blocked streams the event made eligible (credit -> progress)
	w.lastCredit = false
	if credit && !w.exited {
		for i, ls := range led.ls {
			w.creditSnap[i] = -1
			if ls != nil && !before[i] && led.live(ls) && led.pending(ls) {
				w.creditSnap[i] = framesBefore[i]
				w.lastCredit = true
			}
		}
	}
	return true
}

// sync1: step mode: look at what was written; real mode: nothing (the caller
// decides when to wait for quiescence).
func (w *c01World) sync1() {
	if !w.real {
		w.observe()
		w.consistency()
	}
}

// ------------------------------------------------------ reading the wire -------

// observe parses every byte written since the last call (flushed to the conn
// or still in the framer's write buffer) with the independent framer.
func (w *c01World) observe() {
	if w.broken {
		return
	}
	w.conn.mu.Lock()
	cb, base := w.conn.buf, w.conn.base
	w.conn.mu.Unlock()
	connEnd := base + len(cb)
	total := connEnd + w.fr.writer.offset
	if w.fed < connEnd {
		w.feed.chunks = append(w.feed.chunks, cb[w.fed-base:])
		w.fed = connEnd
	}
	if w.fed < total {
		pend := (*w.fr.writer.bufHandle)[:w.fr.writer.offset]
		w.feed.chunks = append(w.feed.chunks, pend[w.fed-connEnd:])
		w.fed = total
	}
	for {
		w.applyMarks(w.parsedPos)
		f, err := w.rd.ReadFrame()
		if err == io.EOF {
			break
		}
		if err != nil {
			w.fail("C01", "illegal-frame-sequence", "the independent http2.Framer rejected the byte stream at offset %d: %v (last frames: %v)", w.parsedPos, err, w.tail(4))
			w.broken = true
			break
		}
		w.parsedPos += 9 + int(f.Header().Length)
		w.led.onFrame(f)
	}
	w.applyMarks(w.parsedPos)
	w.feed.chunks = w.feed.chunks[:0]
	// everything flushed so far has been parsed: drop it
	w.conn.mu.Lock()
	if len(w.conn.buf) == len(cb) {
		w.conn.base += len(cb)
		w.conn.buf = w.conn.buf[:0]
	}
	w.conn.mu.Unlock()
	if !w.broken && w.parsedPos != total {
		w.fail("C01", "torn-frame", "%d bytes written but frames end at %d", total, w.parsedPos)
		w.broken = true
	}
}

func (w *c01World) tail(n int) []c01Frame {
	if len(w.log) <= n {
		return w.log
	}
	return w.log[len(w.log)-n:]
}

// applyMarks: the writer consumed a cleanupStream item when pos bytes had been
// written: from here on the stream is gone.
func (w *c01World) applyMarks(pos int) {
	w.marksMu.Lock()
	defer w.marksMu.Unlock()
	for w.markDone < len(w.marks) && w.marks[w.markDone].pos <= pos {
		if ls := w.led.get(w.marks[w.markDone].s); ls != nil {
			ls.closed = true
			if w.marks[w.markDone].rst {
				ls.rstAllowed++
			}
		}
		w.markDone++
		w.led.prune()
	}
}

// -------------------------------------------------------------- C03 checks -----

// consistency (in-package): outStream.state == active <=> member of activeStreams.
func (w *c01World) consistency() {
	if w.exited {
		return
	}
	l := w.l
	in := map[*outStream]int{}
	n := 0
	for e := l.activeStreams.head.next; e != nil && e != l.activeStreams.tail; e = e.next {
		in[e]++
		if n++; n > 64 {
			w.fail("C03", "active-list-corrupt", "activeStreams has more than 64 nodes / is cyclic")
			return
		}
	}
	for e, c := range in {
		if c > 1 {
			w.fail("C03", "state-inconsistent", "stream %d is in activeStreams %d times", e.id, c)
		}
		if l.estdStreams[e.id] != e {
			w.fail("C03", "state-inconsistent", "stream %d is in activeStreams but is not an established stream", e.id)
		}
	}
	for id, str := range l.estdStreams {
		if (str.state == active) != (in[str] > 0) {
			w.fail("C03", "state-inconsistent", "stream %d: state=%d (0=active,1=empty,2=waitingOnStreamQuota) but member of activeStreams=%v", id, str.state, in[str] > 0)
		}
		if (str.state == empty) != str.itl.isEmpty() {
			w.fail("C03", "state-inconsistent", "stream %d: state=%d (1=empty) but item list empty=%v", id, str.state, str.itl.isEmpty())
		}
	}
}

// quiescent: the writer is about to block (processData reported empty, control
// buffer empty). Decided with the LEDGER's windows only.
func (w *c01World) quiescent() {
	if w.exited || w.broken {
		return
	}
	led := &w.led
	w.stats.quiescent.Add(1)
	w.consistency()
	if len(led.pend) != 0 {
		w.fail("C01", "settings-not-acked", "%d SETTINGS frame(s) of the peer are not acknowledged although the writer is idle", len(led.pend))
	}
	if led.hbOpen {
		w.fail("C01", "header-block-unfinished", "writer idle in the middle of a header block of stream %d", led.hbStream)
	}
	for i, ls := range led.ls {
		if ls == nil || !ls.opened {
			continue
		}
		if ls.cleanupPut && !ls.closed {
			w.fail("C03", "cleanup-not-consumed", "stream %d: cleanupStream item was put but never consumed although the writer is idle", ls.id)
		}
		if ls.rstAllowed > 0 {
			w.fail("C02", "rst-missing", "stream %d: the RST_STREAM that was asked for is not on the wire although the writer is idle", ls.id)
		}
		if !ls.orphaned && ls.hdrSeen == 0 {
			w.fail("C02", "headers-missing", "stream %d: HEADERS not on the wire although the writer is idle", ls.id)
		}
		if !led.live(ls) {
			continue
		}
		sw := led.win(ls)
		if led.pending(ls) {
			if sw > 0 && led.connWin > 0 {
				w.fail("C03", "starved-at-quiescence", "writer idle, but stream %d still has %d unsent bytes (END_STREAM pending: %v) and the peer granted stream window %d and connection window %d", ls.id, ls.total-ls.sent, ls.endPut && !ls.endSeen, sw, led.connWin)
				w.fail("C02", "incomplete-at-quiescence", "stream %d: only %d of %d written bytes are on the wire (END_STREAM pending: %v) although stream window %d and connection window %d allow more", ls.id, ls.sent, ls.total, ls.endPut && !ls.endSeen, sw, led.connWin)
				if w.lastCredit && w.creditSnap[i] >= 0 && w.creditSnap[i] == ls.frames {
					w.fail("C03", "no-progress-after-credit", "stream %d was blocked, the peer then granted credit (WINDOW_UPDATE / SETTINGS raise), the writer ran to idle and not one DATA frame of the stream was written (stream window %d, connection window %d)", ls.id, sw, led.connWin)
				}
			} else if led.connWin <= 0 {
				w.stats.quiescentBlockedConn.Add(1)
				w.sawBlockedC = true
			} else {
				w.stats.quiescentBlockedStream.Add(1)
				w.sawBlockedS = true
			}
		} else if ls.trailersPut && !ls.trailersSeen {
			w.fail("C02", "trailers-missing", "stream %d: all %d DATA bytes are out but the trailers handed in are not on the wire although the writer is idle", ls.id, ls.sent)
			w.fail("C03", "trailers-starved", "stream %d: trailers left unsent at quiescence with no data in front of them", ls.id)
		}
		if w.lastCredit && w.creditSnap[i] >= 0 {
			w.stats.creditChecks.Add(1)
		}
	}
}

// buffers: C02 reference-count oracle, evaluated on the final state of a run.
func (w *c01World) buffers() {
	for _, t := range w.tracks {
		t.mu.Lock()
		refs, z, dbl, rf, uf := t.refs, t.reachedZ, t.doubleFree, t.refFreed, t.useFreed
		t.mu.Unlock()
		if dbl > 0 || z > 1 {
			w.fail("C02", "buffer-double-free", "mem.Buffer with bytes [%d,%d) of stream %d was freed more than once (extra Free calls: %d)", t.a, t.b, t.s, dbl)
		}
		if rf > 0 || uf > 0 {
			w.fail("C02", "buffer-use-after-free", "mem.Buffer with bytes [%d,%d) of stream %d was used after its last reference was released (Ref: %d, ReadOnlyData: %d)", t.a, t.b, t.s, rf, uf)
		}
		if t.dropped {
			// data handed in for a stream the writer had already removed: loopy ignores
			// the item (and does not release it: the garbage collector does)
			w.sawDropped = true
			if refs == 1 {
				w.stats.buffersDropped.Add(1)
			}
			continue
		}
		if w.exited {
			continue // transport is closing: queued items are abandoned to the GC
		}
		ls := w.led.get(t.s)
		if ls == nil {
			continue
		}
		switch {
		case ls.closed || ls.trailersSeen || ls.sent >= t.b:
			if refs != 0 {
				w.fail("C02", "buffer-not-freed", "mem.Buffer with bytes [%d,%d) of stream %d still has %d reference(s) although the stream has %d bytes out / closed=%v", t.a, t.b, t.s, refs, ls.sent, ls.closed || ls.trailersSeen)
			} else {
				w.stats.buffersFreed.Add(1)
			}
		default:
			if refs < 1 {
				w.fail("C02", "buffer-freed-early", "mem.Buffer with bytes [%d,%d) of stream %d has no reference left although only %d bytes of the stream are out", t.a, t.b, t.s, ls.sent)
			}
		}
	}
}

// ----------------------------------------------------------------- state key ---

func (w *c01World) key() string {
	b := make([]byte, 0, 256)
	ai := func(v int64) {
		b = strconv.AppendInt(b, v, 10)
		b = append(b, ',')
	}
	ab := func(v bool) {
		if v {
			b = append(b, 'T')
		} else {
			b = append(b, 'F')
		}
	}
	l := w.l
	led := &w.led
	ab(w.exited)
	ab(w.broken)
	ab(w.bigUsed)
	ai(int64(w.nOpened))
	ai(int64(w.nActive))
	b = append(b, '|')
	if !w.exited {
		// ---- the real object's private state ----
		ai(int64(l.sendQuota))
		ai(int64(l.oiws))
		ab(l.draining)
		ids := make([]uint32, 0, 3)
		for id := range l.estdStreams {
			ids = append(ids, id)
		}
		sort.Slice(ids, func(i, j int) bool { return ids[i] < ids[j] })
		for _, id := range ids {
			str := l.estdStreams[id]
			b = append(b, 's')
			ai(int64(id))
			ai(int64(str.state))
			ai(int64(str.bytesOutStanding))
			if str.wq != nil {
				ai(int64(atomic.LoadInt32(&str.wq.quota)))
			}
			for n := str.itl.head; n != nil; n = n.next {
				switch it := n.it.(type) {
				case *dataFrame:
					b = append(b, 'd')
					ai(int64(len(it.h)))
					if it.processing {
						ai(int64(str.reader.Remaining()))
					} else {
						ai(int64(it.data.Len()))
					}
					ab(it.endStream)
					ab(it.processing)
				case *serverHeaders:
					b = append(b, 't')
					ab(it.cleanup != nil && it.cleanup.rst)
				default:
					b = append(b, '?')
				}
			}
		}
		b = append(b, 'A')
		n := 0
		for e := l.activeStreams.head.next; e != nil && e != l.activeStreams.tail && n < 64; e = e.next {
			ai(int64(e.id))
			n++
		}
	}
	// ---- the reference model (ledgers) ----
	b = append(b, '|')
	ai(led.connWin)
	ai(led.iws)
	ai(int64(len(led.pend)))
	for i, ls := range led.ls {
		if ls == nil {
			b = append(b, '-')
			continue
		}
		b = append(b, 'L')
		ab(ls.orphaned)
		ab(ls.aborted)
		ab(ls.closed)
		ab(ls.cleanupPut)
		ab(ls.rstSeen)
		ab(ls.trailersSeen)
		ai(int64(ls.rstAllowed))
		ab(ls.trailersRst)
		ab(ls.endPut) // these two gate the applicability of data ops, also for dead streams
		ab(ls.trailersPut)
		if led.live(ls) || (!ls.closed && !ls.rstSeen && !ls.trailersSeen && !ls.orphaned && !ls.aborted) {
			ab(ls.endSeen)
			ai(int64(ls.hdrSeen))
			ai(led.win(ls))
			ai(int64(ls.total - ls.sent))
			ai(int64(led.owed[i]))
			if a := w.apps[i]; a != nil {
				ai(int64(atomic.LoadInt32(&a.wq.quota)))
			}
		}
	}
	return string(b)
}

// obs: a coarse observable class of the final state (vacuity statistics).
func (w *c01World) obs() string {
	b := []byte{}
	if w.side == clientSide {
		b = append(b, 'c')
	} else {
		b = append(b, 's')
	}
	flag := func(c byte, v bool) {
		if v {
			b = append(b, c)
		}
	}
	var end, rst, tr, cont, part, closed bool
	for _, ls := range w.led.ls {
		if ls != nil {
			end = end || ls.endSeen
			rst = rst || ls.rstSeen
			tr = tr || ls.trailersSeen
			closed = closed || ls.closed
			part = part || (ls.sent < ls.total && ls.sent > 0)
		}
	}
	for _, f := range w.log {
		if f.typ == http2.FrameContinuation {
			cont = true
		}
	}
	flag('X', w.exited)
	flag('C', w.sawBlockedC)
	flag('S', w.sawBlockedS)
	flag('E', end)
	flag('R', rst)
	flag('T', tr)
	flag('K', closed)
	flag('H', cont)
	flag('P', part)
	flag('D', w.sawDropped)
	return string(b)
}

func (w *c01World) describe() string {
	return fmt.Sprintf("frames=%v", w.log)
}
