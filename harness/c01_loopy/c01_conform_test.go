//go:build verif

package transport

import (
	"fmt"
	"runtime/debug"
	"strings"
	"testing"
	"testing/synctest"

	"google.golang.org/grpc/internal/verif/vk"
)

// Leg c01_conform: the same event histories, but consumed by the REAL
// loopyWriter.run() goroutine inside a synctest bubble: the harness only calls
// controlBuffer.put and waits for quiescence (synctest.Wait = run() is parked in
// get(true)). The frame log must satisfy the same three ledgers, and must be
// frame-for-frame the log that the step-wise driver of leg c01_loopy produces
// for "item ... item idle" — which binds the handler-level exploration to the
// real loop (a change inside run() shows up here).

type c01ConfStart struct {
	name   string
	side   side
	pre    []c01Op
	ops    []c01Op
	depthQ int // 0: the leg's default history length
	depthT int
}

func c01ConfStarts() []c01ConfStart {
	cl := []c01Op{
		c01OpOpen(), c01OpData(1, 16390, false), c01OpData(1, 40000, true), c01OpData(3, 9, false), c01OpData(3, 40000, false), c01OpEnd(1),
		c01OpWUConn(16384), c01OpWUStr(1, 16384), c01OpWUStr(3, 65535), c01OpSettings(0, 0), c01OpSettings(1<<20, 0),
		c01OpCleanup(1, true), c01OpCleanup(3, false), c01OpInGoAway(), c01OpGoAway(),
	}
	// (trailers(1,t) is deliberately not combined with cleanup(1,t): that pair is
	// the double RST_STREAM case, which leg c01_loopy reports under one stable key)
	sv := []c01Op{
		c01OpOpen(), c01OpAbort(true), c01OpData(1, 16390, false), c01OpData(1, 40000, false), c01OpData(3, 9, false), c01OpData(3, 40000, false),
		c01OpTrailers(1, true), c01OpTrailers(3, false), c01OpWUConn(16384), c01OpWUStr(1, 16384), c01OpWUStr(3, 65535), c01OpSettings(0, 0), c01OpSettings(1<<20, 0),
		c01OpCleanup(1, false), c01OpCleanup(3, true), c01OpGoAway(),
	}
	o2 := []c01Op{c01OpOpen(), c01OpOpen()}
	// connection window exhausted with two streams queued (each put is followed by
	// quiescence): stream 1 sends 40005, stream 3 sends 25530 and the connection
	// window is 0; then both get one more message
	starvedC := []c01Op{c01OpOpen(), c01OpOpen(), c01OpData(1, 40000, false), c01OpData(3, 40000, false), c01OpData(1, 40000, false), c01OpData(3, 40000, false)}
	grants := []c01Op{c01OpWUConn(16384), c01OpWUConn(1), c01OpWUConn(65535), c01OpWUStr(3, 16384), c01OpData(1, 9, false), c01OpSettings(1<<20, 0)}
	return []c01ConfStart{
		{name: "client/conn-starved", side: clientSide, pre: starvedC, ops: append(append([]c01Op(nil), grants...), c01OpCleanup(3, true)), depthQ: 5, depthT: 6},
		{name: "server/conn-starved", side: serverSide, pre: starvedC, ops: append(append([]c01Op(nil), grants...), c01OpTrailers(3, false)), depthQ: 5, depthT: 6},
		{name: "client/fresh", side: clientSide, ops: append([]c01Op{c01OpOpenBig()}, cl...)},
		{name: "client/2streams", side: clientSide, pre: o2, ops: cl[1:]},
		{name: "server/fresh", side: serverSide, ops: append([]c01Op{c01OpOpenBig()}, sv...)},
		{name: "server/2streams", side: serverSide, pre: o2, ops: sv[2:]},
	}
}

type c01ConfReplay struct {
	Start string   `json:"start"`
	Ops   []string `json:"ops"`
	Batch int      `json:"batch"` // 1 = wait after every put; 0 = put everything, wait once; k = wait after every k puts
}

type c01ConfResult struct {
	applicable bool // every op of the history was applicable
	fails      []c01ConfFail
	log        []c01Frame
	exited     bool
	obs        string
	engine     string
}

type c01ConfFail struct{ prop, key, desc string }

// c01ConfReal runs one history through the real run() goroutine.
func c01ConfReal(t *testing.T, st *c01ConfStart, hist []c01Op, batch int, stats *c01Stats) (res c01ConfResult) {
	synctest.Test(t, func(t *testing.T) {
		w := c01NewWorld(st.side, stats, true)
		w.led.rrOn = batch == 1 // inputs and their consumption are aligned only when every put is followed by quiescence
		defer w.release()
		var runPanic any
		go func() {
			defer func() {
				if p := recover(); p != nil {
					runPanic = fmt.Sprintf("%v\n%s", p, debug.Stack())
					w.l.cbuf.finish()
				}
				w.runDone.Store(true)
			}()
			w.exitErr = w.l.run()
		}()
		sync := func() {
			synctest.Wait()
			if w.runDone.Load() && !w.exited {
				w.exited = true
				stats.exits.Add(1)
			}
			w.observe()
			if !w.exited {
				w.consistency()
				w.quiescent()
			}
			w.lastCredit = false
		}
		res.applicable = true
		for _, op := range st.pre {
			if !w.apply(op) {
				res.engine = "preamble op " + op.name + " not applicable"
			}
			sync()
		}
		for i, op := range hist {
			if !w.apply(op) {
				res.applicable = false
				break
			}
			if batch > 0 && (i+1)%batch == 0 {
				sync()
			}
		}
		if res.applicable {
			sync()
			w.buffers()
		}
		close(w.done)
		synctest.Wait()
		if !w.runDone.Load() {
			res.engine = "run() did not return after the transport's done channel was closed"
		}
		if runPanic != nil {
			for _, p := range c01Props {
				res.fails = append(res.fails, c01ConfFail{p, "panic", fmt.Sprintf("loopyWriter.run() panicked: %v", runPanic)})
			}
		}
		for _, f := range w.fails {
			res.fails = append(res.fails, c01ConfFail{f.Prop, f.Key, f.Desc})
		}
		res.log = append([]c01Frame(nil), w.log...)
		res.exited = w.exited
		res.obs = w.obs()
	})
	return res
}

// c01ConfStep produces the reference log with the step-wise driver: the same
// ops, an idle event wherever the real run waited for quiescence. perms selects
// the re-activation order for every settings op (see reorderActivated).
func c01ConfStep(st *c01ConfStart, hist []c01Op, batch int, perms []int) (log []c01Frame, ok bool, nRaise int, fails []c01ConfFail) {
	w := c01NewWorld(st.side, &c01Stats{}, false)
	defer w.release()
	defer func() {
		if p := recover(); p != nil {
			ok = false
		}
	}()
	for _, op := range st.pre {
		w.apply(op)
		w.apply(c01OpIdle())
	}
	pi := 0
	for i, op := range hist {
		if w.exited {
			break
		}
		if op.kind == c01KSettings {
			k := 0
			if op.iws > w.l.oiws {
				k = len(w.waitingIDs())
			}
			if k >= 2 {
				nRaise = max(nRaise, c01Fact(k))
				if pi < len(perms) {
					op.perm = perms[pi] % c01Fact(k)
				}
				pi++
			}
		}
		if !w.apply(op) {
			return nil, false, nRaise, nil
		}
		if batch > 0 && (i+1)%batch == 0 {
			w.apply(c01OpIdle())
		}
	}
	w.apply(c01OpIdle())
	for _, f := range w.fails {
		fails = append(fails, c01ConfFail{f.Prop, f.Key, f.Desc})
	}
	return append([]c01Frame(nil), w.log...), true, nRaise, fails
}

func c01LogsEqual(a, b []c01Frame) bool {
	if len(a) != len(b) {
		return false
	}
	for i := range a {
		if a[i] != b[i] {
			return false
		}
	}
	return true
}

// c01ConfMatches: does the real log equal the step-wise log for some legal
// re-activation order?
func c01ConfMatches(st *c01ConfStart, hist []c01Op, batch int, real []c01Frame) (bool, []c01Frame, []c01ConfFail) {
	ref, ok, nr, rf := c01ConfStep(st, hist, batch, nil)
	if !ok {
		return false, nil, nil
	}
	if c01LogsEqual(ref, real) {
		return true, ref, rf
	}
	if nr > 1 {
		for p0 := 0; p0 < 6; p0++ {
			for p1 := 0; p1 < 6; p1++ {
				alt, ok2, _, af := c01ConfStep(st, hist, batch, []int{p0, p1})
				if ok2 && c01LogsEqual(alt, real) {
					return true, alt, af
				}
			}
		}
	}
	return false, ref, rf
}

func TestVerif_C01_Conform(t *testing.T) {
	r := vk.Start(t, "c01_conform", "model_checking", c01Props...)
	defer r.Finish()
	stats := &c01Stats{}
	starts := c01ConfStarts()
	depth := r.Pick(4, 5)
	batches := []int{1, 0}
	if r.Thorough() {
		batches = []int{1, 0, 2}
	}
	for _, p := range c01Props {
		r.Rule(p, fmt.Sprintf("every event history of length 1..%d over a 14-17-op sub-alphabet of leg c01_loopy (open, openBig, data, end, trailers, earlyAbort, wuConn, wuStr, settings, cleanup, incomingGoAway, goAway), from a fresh transport and from a transport with two open streams, and every history of length 1..%d over 7 ops (wuConn(1|16384|65535), wuStr, data, settings raise, cleanup/trailers) from a state with two streams queued behind an exhausted connection window, client and server side, is put into a real controlBuffer consumed by the REAL loopyWriter.run() goroutine in a synctest bubble (GOMAXPROCS=1), once waiting for quiescence after every put (k=1), once after all puts (and after every 2nd put in the thorough tier); after every wait the bytes on the conn are parsed by the independent framer and checked with the same C01/C02/C03 ledgers as in leg c01_loopy (round-robin only for k=1). The frame log is compared with the log the step-wise driver produces for item,idle,item,idle,...: if they differ and either output violates an oracle, that is reported as a violation of the property concerned; if they differ for k=1 and both satisfy every oracle it is an ENGINE-ERROR (the model would no longer mirror run()). A history in which every op is applicable is a non-trivial case (prefixes are distinct histories).", depth, r.Pick(5, 6)))
		r.Assume(p, "conformance leg: with GOMAXPROCS=1 and asynchronous preemption off, run() consumes a batch of k puts as item,...,item,idle; divergence from the step-wise log is an ENGINE-ERROR only for k=1 (deterministic under any scheduler), for other batchings it is only counted; the order in which applySettings re-activates several waiting streams is random there, so the log is compared with the step-wise log of every such order")
	}
	if r.ReplayFile() != "" {
		var rp c01ConfReplay
		if err := r.LoadReplay(&rp); err != nil {
			r.EngineError("replay: %v", err)
			return
		}
		if rp.Start == "" {
			return // a replay of the other leg
		}
		for i := range starts {
			if starts[i].name != rp.Start {
				continue
			}
			var hist []c01Op
			for _, n := range rp.Ops {
				found := false
				for _, o := range starts[i].ops {
					if o.name == n {
						hist, found = append(hist, o), true
					}
				}
				if !found {
					r.EngineError("replay: unknown op %q", n)
					return
				}
			}
			res := c01ConfReal(t, &starts[i], hist, rp.Batch, stats)
			fmt.Printf("replay start=%s ops=%v batch=%d applicable=%v log=%v\n", rp.Start, rp.Ops, rp.Batch, res.applicable, res.log)
			for _, p := range c01Props {
				r.Eval(p, 1)
			}
			for _, f := range res.fails {
				fmt.Printf("FAIL %s %s: %s\n", f.prop, f.key, f.desc)
				r.Violation(f.prop, c01ConfKey(rp.Start, rp.Batch, f.key, rp.Ops), f.desc, rp)
			}
		}
		return
	}
	var nHist, nRuns, nIdentical, nDiverged, nDivergedViolating, nBatchInapplicable, nExited int64
	sh, _ := r.Shard()
	failSeen := map[string]bool{}
	sampled := 0
	unit := 0
	var rec func(st *c01ConfStart, hist []c01Op)
	rec = func(st *c01ConfStart, hist []c01Op) {
		if r.OverBudget() {
			for _, p := range c01Props {
				r.Cap(p, "c01_conform: time budget hit")
			}
			return
		}
		names := c01OpNames(hist)
		terminal := false
		for _, b := range batches {
			if b != 1 && len(hist) < 2 {
				continue
			}
			if b == 2 && len(hist) < 3 {
				continue
			}
			res := c01ConfReal(t, st, hist, b, stats)
			if res.engine != "" {
				r.EngineError("c01_conform %s %v batch=%d: %s", st.name, names, b, res.engine)
			}
			if !res.applicable {
				if b == 1 {
					return // not a history of the system: prune the subtree
				}
				nBatchInapplicable++
				continue
			}
			// histories of length 1 are run by every shard (to learn whether they can
			// be extended) but counted by shard 0 only
			counted := len(hist) >= 2 || sh == 0
			if counted {
				nRuns++
			}
			if b == 1 {
				terminal = res.exited
				if counted {
					nHist++
					if res.exited {
						nExited++
					}
					for _, p := range c01Props {
						r.Outcome(p, "k1:"+res.obs)
					}
				}
			}
			for _, f := range res.fails {
				cls := f.prop + "/" + f.key
				if failSeen[cls] {
					continue
				}
				failSeen[cls] = true
				rp := c01ConfReplay{Start: st.name, Ops: names, Batch: b}
				r.Violation(f.prop, c01ConfKey(st.name, b, f.key, names), f.desc+"\n  history: "+strings.Join(names, " ; ")+fmt.Sprintf("\n  batching: %d\n  frames: %v", b, res.log), rp)
			}
			// Classification of a divergence between the real loop and the step-wise
			// driver: if either output violates an oracle, that is a verdict about the
			// code (reported as a violation: above for the real loop, here for the
			// driver); only when both outputs satisfy every oracle is the binding between
			// driver and run() what is broken (ENGINE-ERROR, k=1 only).
			same, ref, refFails := c01ConfMatches(st, hist, b, res.log)
			if !same {
				for _, f := range refFails {
					cls := f.prop + "/stepwise:" + f.key
					if failSeen[cls] {
						continue
					}
					failSeen[cls] = true
					rp := c01ConfReplay{Start: st.name, Ops: names, Batch: b}
					r.Violation(f.prop, c01ConfKey(st.name, b, "stepwise:"+f.key, names), f.desc+"\n  (step-wise driven loopy on the same history; the real run() loop wrote "+fmt.Sprint(res.log)+")\n  history: "+strings.Join(names, " ; "), rp)
				}
			}
			switch {
			case !counted:
			case same:
				nIdentical++
			case len(res.fails) > 0 || len(refFails) > 0:
				nDivergedViolating++
			case b == 1:
				r.EngineError("c01_conform %s %v: the real run() loop wrote %v but the step-wise driver of leg c01_loopy (item,idle,...) wrote %v: the model no longer mirrors run()", st.name, names, res.log, ref)
			default:
				nDiverged++
			}
			if sampled < 3 && len(hist) >= depth && b == 1 && len(res.log) > 6 {
				sampled++
				for _, p := range c01Props {
					r.Sample(p, map[string]any{"start": st.name, "history": names, "frames": fmt.Sprint(res.log)})
				}
			}
		}
		d := depth
		if sd := r.Pick(st.depthQ, st.depthT); sd > 0 {
			d = sd
		}
		if terminal || len(hist) >= d {
			return
		}
		for _, op := range st.ops {
			if len(hist) == 1 {
				// work unit = (start, first op, second op)
				unit++
				if !r.Mine(unit) {
					continue
				}
			}
			rec(st, append(append([]c01Op(nil), hist...), op))
		}
	}
	for i := range starts {
		for _, op := range starts[i].ops {
			rec(&starts[i], []c01Op{op})
		}
	}
	for _, p := range c01Props {
		r.Eval(p, nRuns)
		r.NontrivialN(p, nHist)
		r.Traces(p, nRuns)
		r.AddInt(p, "conform_histories", nHist)
		r.AddInt(p, "conform_runs_of_real_loop", nRuns)
		r.AddInt(p, "conform_log_identical_to_stepwise_model", nIdentical)
		r.AddInt(p, "conform_batched_log_differs_from_stepwise_model", nDiverged)
		r.AddInt(p, "conform_log_differs_and_an_oracle_is_violated", nDivergedViolating)
		r.AddInt(p, "conform_batching_inapplicable", nBatchInapplicable)
		r.AddInt(p, "conform_histories_ending_in_loopy_exit", nExited)
		for k, v := range stats.export() {
			r.AddInt(p, "conform_"+k, v)
		}
	}
}

func c01ConfKey(start string, batch int, cls string, ops []string) string {
	return fmt.Sprintf("conform/%s/k%d/%s/%s", start, batch, cls, strings.Join(ops, ","))
}
