//go:build verif

package weightedaggregator

import (
	"fmt"
	"sort"
	"strings"
	"testing"

	"google.golang.org/grpc/balancer"
	"google.golang.org/grpc/connectivity"
	"google.golang.org/grpc/internal/verif/seqx"
	"google.golang.org/grpc/internal/verif/vk"
	"google.golang.org/grpc/internal/wrr"
)

// ---- C35 (leg c): weighted_target's state aggregator follows the precedence
// rule over the children's effective states, also after removals ----
//
// E2 (seqx BFS over event histories on a fresh real Aggregator with a fake
// recording ClientConn). Oracle: the precedence rule of the statement scanned
// over the reference children's EFFECTIVE states (sticky TRANSIENT_FAILURE as
// described in the package's own comments), and an exact weighted count of
// picker delegation.

var c35cIDs = []string{"c1", "c2", "c3"}
var c35cWeight = map[string]uint32{"c1": 1, "c2": 2, "c3": 3}
var c35cStates = []connectivity.State{connectivity.Connecting, connectivity.Ready, connectivity.TransientFailure, connectivity.Idle}

func c35cSt(s connectivity.State) string {
	switch s {
	case connectivity.Connecting:
		return "C"
	case connectivity.Ready:
		return "R"
	case connectivity.TransientFailure:
		return "TF"
	case connectivity.Idle:
		return "I"
	}
	return s.String()
}

// ------------------------------------------------------------------ oracle ----

type c35cRefChild struct {
	reported  connectivity.State // last reported state (CONNECTING before the first report)
	effective connectivity.State // state the child counts as
	seq       int                // number of its latest picker (0 = none yet)
}

// c35cRef: the children that currently exist.
type c35cRef struct {
	ch map[string]*c35cRefChild
}

func (r *c35cRef) add(id string) {
	// a new child has not reported: it is connecting
	r.ch[id] = &c35cRefChild{reported: connectivity.Connecting, effective: connectivity.Connecting}
}

func (r *c35cRef) remove(id string) { delete(r.ch, id) }

// report applies the sticky-TRANSIENT_FAILURE rule stated in the aggregator's
// comments: a CONNECTING report that directly follows a TRANSIENT_FAILURE
// report does not change the state the child counts as; any other report does.
func (r *c35cRef) report(id string, s connectivity.State, seq int) {
	c := r.ch[id]
	if c == nil {
		return // removed or never added: ignored
	}
	if !(c.reported == connectivity.TransientFailure && s == connectivity.Connecting) {
		c.effective = s
	}
	c.reported = s
	c.seq = seq
}

// aggregate: READY if any child is READY, else CONNECTING if any is
// CONNECTING, else IDLE if any is IDLE, else TRANSIENT_FAILURE (also with no
// children).
func (r *c35cRef) aggregate() connectivity.State {
	for _, want := range []connectivity.State{connectivity.Ready, connectivity.Connecting, connectivity.Idle} {
		for _, id := range c35cIDs {
			if c := r.ch[id]; c != nil && c.effective == want {
				return want
			}
		}
	}
	return connectivity.TransientFailure
}

func (r *c35cRef) eligible() []string {
	agg := r.aggregate()
	var out []string
	for _, id := range c35cIDs {
		if c := r.ch[id]; c != nil && c.effective == agg {
			out = append(out, id)
		}
	}
	return out
}

func (r *c35cRef) describe() string {
	var parts []string
	for _, id := range c35cIDs {
		if c := r.ch[id]; c != nil {
			p := id + ":" + c35cSt(c.effective)
			if c.reported != c.effective {
				p += "(reported " + c35cSt(c.reported) + ")"
			}
			parts = append(parts, p)
		}
	}
	return "{" + strings.Join(parts, " ") + "}"
}

// ------------------------------------------------------- fakes and stubs ----

type c35cPicker struct {
	w   *c35cWorld
	id  string
	seq int
}

func (p *c35cPicker) Pick(balancer.PickInfo) (balancer.PickResult, error) {
	p.w.pickLog = append(p.w.pickLog, p)
	return balancer.PickResult{}, nil
}

// c35cWRR is an exact weighted round robin for the newWRR seam: one period is
// the list of items, each repeated weight times.
type c35cWRR struct {
	items []any
	next  int
}

func (w *c35cWRR) Add(item any, weight int64) {
	for i := int64(0); i < weight; i++ {
		w.items = append(w.items, item)
	}
}
func (w *c35cWRR) Next() any {
	if len(w.items) == 0 {
		return nil
	}
	it := w.items[w.next%len(w.items)]
	w.next++
	return it
}

type c35cCC struct {
	balancer.ClientConn
	w *c35cWorld
}

func (cc *c35cCC) UpdateState(s balancer.State) {
	cc.w.pushes++
	cc.w.last = &s
	cc.w.checkPush(s)
}

type c35cWorld struct {
	agg     *Aggregator
	ref     *c35cRef
	seq     map[string]int
	everHad map[string]bool
	paused  bool
	last    *balancer.State
	pushes  int
	pickLog []*c35cPicker
	ev      string
	picks   int64
	fails   []seqx.Fail
	seen    map[string]bool
	obs     string
}

func (w *c35cWorld) fail(class, format string, a ...any) {
	if w.seen[class] {
		return
	}
	w.seen[class] = true
	w.fails = append(w.fails, seqx.Fail{Prop: "C35", Key: class, Desc: fmt.Sprintf(format, a...)})
}

func (w *c35cWorld) safePick(p balancer.Picker) (err error) {
	defer func() {
		if x := recover(); x != nil {
			w.fail("pick-panic", "%s: Pick panicked: %v (children %s)", w.ev, x, w.ref.describe())
			err = fmt.Errorf("panic: %v", x)
		}
	}()
	_, err = p.Pick(balancer.PickInfo{})
	return err
}

// checkPush runs for every state the aggregator pushes to the parent.
func (w *c35cWorld) checkPush(s balancer.State) {
	ref := w.ref
	want := ref.aggregate()
	if s.ConnectivityState != want {
		w.fail("aggregate-state", "%s: aggregator reported %v, the precedence rule on children %s gives %v", w.ev, s.ConnectivityState, ref.describe(), want)
	}
	w.obs = fmt.Sprintf("agg=%s of %d", c35cSt(want), len(ref.ch))
	if s.Picker == nil {
		w.fail("nil-picker", "%s: nil picker pushed", w.ev)
		return
	}
	el := ref.eligible()
	in := map[string]bool{}
	period := 0
	for _, id := range el {
		in[id] = true
		period += int(c35cWeight[id])
	}
	if period == 0 {
		period = 2
	}
	w.pickLog = nil
	count := map[string]int{}
	delegated := 0
	for i := 0; i < 2*period; i++ {
		before := len(w.pickLog)
		err := w.safePick(s.Picker)
		w.picks++
		if len(w.pickLog) == before {
			if err == nil {
				w.fail("pick-succeeded-without-child", "%s: Pick returned no error without delegating to a child picker (children %s)", w.ev, ref.describe())
			}
			continue
		}
		delegated++
		p := w.pickLog[before]
		c := ref.ch[p.id]
		switch {
		case c == nil || !in[p.id]:
			w.fail("pick-delegated-outside-aggregate-state", "%s: aggregate state %v, children %s, but a pick was delegated to %s", w.ev, want, ref.describe(), p.id)
		case p.seq != c.seq:
			w.fail("pick-delegated-to-stale-picker", "%s: a pick was delegated to picker #%d of %s whose latest picker is #%d", w.ev, p.seq, p.id, c.seq)
		}
		count[p.id]++
	}
	if want == connectivity.Ready {
		// READY children are used in proportion to their weights: two full periods
		for _, id := range el {
			if got, exp := count[id], 2*int(c35cWeight[id]); got != exp {
				w.fail("ready-children-not-weighted", "%s: READY children %v (weights c1=1 c2=2 c3=3): over %d picks %s was used %d times, expected %d", w.ev, el, 2*period, id, got, exp)
			}
		}
	}
}

// endOfEvent: unless updates are paused, what the parent holds is the
// aggregate of the children as they are now.
func (w *c35cWorld) endOfEvent() {
	if w.paused {
		return
	}
	if w.last == nil {
		if len(w.ref.ch) > 0 {
			w.fail("no-state-reported", "after %s nothing was ever reported to the parent although children %s exist", w.ev, w.ref.describe())
		}
		return
	}
	if want := w.ref.aggregate(); w.last.ConnectivityState != want {
		w.fail("aggregate-state-stale", "after %s the parent holds state %v, the precedence rule on children %s gives %v", w.ev, w.last.ConnectivityState, w.ref.describe(), want)
	}
}

func (w *c35cWorld) key() string {
	var sb strings.Builder
	for _, id := range c35cIDs {
		if c := w.ref.ch[id]; c != nil {
			fmt.Fprintf(&sb, "%s:%s/%s/p%v ", id, c35cSt(c.reported), c35cSt(c.effective), c.seq > 0)
		} else if w.everHad[id] {
			fmt.Fprintf(&sb, "%s:x ", id) // removed: it can still report (and must be ignored)
		} else {
			fmt.Fprintf(&sb, "%s:- ", id)
		}
	}
	fmt.Fprintf(&sb, "paused=%v | ", w.paused)
	a := w.agg
	func() {
		a.mu.Lock()
		defer a.mu.Unlock()
		var real []string
		for id, ps := range a.idToPickerState {
			tag := "nopicker"
			if tp, ok := ps.state.Picker.(*c35cPicker); ok {
				tag = "stale"
				if tp.id == id && tp.seq == w.seq[id] {
					tag = "latest"
				}
			}
			real = append(real, fmt.Sprintf("%s=%s/%s/w%d/%s", id, c35cSt(ps.state.ConnectivityState), c35cSt(ps.stateToAggregate), ps.weight, tag))
		}
		sort.Strings(real)
		// the evaluator's counters are private to package balancer: %+v prints them
		fmt.Fprintf(&sb, "real[%s] evaluator=%+v started=%v paused=%v needUpdate=%v", strings.Join(real, " "), *a.csEvltr, a.started, a.pauseUpdateState, a.needUpdateStateOnResume)
	}()
	if w.last == nil {
		sb.WriteString(" | parent:-")
	} else {
		fresh := w.last.ConnectivityState == w.ref.aggregate()
		fmt.Fprintf(&sb, " | parent:%s fresh=%v", c35cSt(w.last.ConnectivityState), fresh)
	}
	return sb.String()
}

type c35cOp struct {
	name string
	do   func(w *c35cWorld) bool
}

func c35cOps() []c35cOp {
	var ops []c35cOp
	for _, id := range c35cIDs {
		id := id
		ops = append(ops, c35cOp{"add " + id, func(w *c35cWorld) bool {
			if w.ref.ch[id] != nil {
				return false
			}
			w.ref.add(id)
			w.everHad[id] = true
			w.agg.Add(id, c35cWeight[id])
			return true
		}})
	}
	for _, id := range c35cIDs {
		id := id
		ops = append(ops, c35cOp{"remove " + id, func(w *c35cWorld) bool {
			if w.ref.ch[id] == nil {
				return false
			}
			w.ref.remove(id)
			w.agg.Remove(id)
			return true
		}})
	}
	for _, id := range c35cIDs {
		for _, s := range c35cStates {
			id, s := id, s
			ops = append(ops, c35cOp{fmt.Sprintf("%s.UpdateState(%s)", id, c35cSt(s)), func(w *c35cWorld) bool {
				if !w.everHad[id] {
					return false // a child that never existed cannot report
				}
				w.seq[id]++
				w.ref.report(id, s, w.seq[id])
				w.agg.UpdateState(id, balancer.State{ConnectivityState: s, Picker: &c35cPicker{w: w, id: id, seq: w.seq[id]}})
				return true
			}})
		}
	}
	ops = append(ops, c35cOp{"pauseStateUpdates", func(w *c35cWorld) bool {
		if w.paused {
			return false
		}
		w.paused = true
		w.agg.PauseStateUpdates()
		return true
	}})
	ops = append(ops, c35cOp{"resumeStateUpdates", func(w *c35cWorld) bool {
		if !w.paused {
			return false
		}
		w.paused = false
		w.agg.ResumeStateUpdates()
		return true
	}})
	return ops
}

func c35cRun(ops []c35cOp, hist []int) (out seqx.Outcome) {
	w := &c35cWorld{ref: &c35cRef{ch: map[string]*c35cRefChild{}}, seq: map[string]int{}, everHad: map[string]bool{}, seen: map[string]bool{}}
	w.agg = New(&c35cCC{w: w}, nil, func() wrr.WRR { return &c35cWRR{} })
	w.agg.Start()
	defer func() {
		if p := recover(); p != nil {
			w.fail("panic", "panic: %v", p)
			out = seqx.Outcome{Key: "panic " + fmt.Sprint(hist), Terminal: true, Fails: w.fails, Obs: "panic"}
		}
	}()
	w.ev = "start"
	for i, h := range hist {
		w.ev = ops[h].name
		if !ops[h].do(w) {
			if i == len(hist)-1 {
				return seqx.Outcome{Skip: true}
			}
			w.fail("harness-nondeterminism", "event %s inapplicable in the middle of a history", ops[h].name)
		}
		w.endOfEvent()
	}
	return seqx.Outcome{Key: w.key(), Fails: w.fails, Obs: w.obs}
}

func TestVerif_C35_WeightedAggregator(t *testing.T) {
	const P = "C35"
	r := vk.Start(t, "c35c_weightedtarget", "model_checking", P)
	defer r.Finish()
	r.Rule(P, "leg c (weighted_target's weightedaggregator.Aggregator): breadth-first over ALL event histories up to the depth bound on a fresh real, started Aggregator with a fake recording parent ClientConn and an exact weighted-round-robin in the newWRR seam. Alphabet: add child c1/c2/c3 (weights 1/2/3), remove child, cN.UpdateState(CONNECTING|READY|TRANSIENT_FAILURE|IDLE) with a fresh tagged picker (also from a removed child), PauseStateUpdates, ResumeStateUpdates. For every state pushed to the parent: state = precedence rule scanned over the reference children's effective states (TRANSIENT_FAILURE when there are none); then two WRR periods of picks: every delegated pick goes to the latest picker of a child whose effective state equals the aggregate state, a pick that delegates to nobody fails, and with a READY aggregate every READY child is used exactly 2*weight times. At the end of every event (unless paused) the state the parent holds equals the rule on the children as they are now - in particular after removals. A state = reference children (reported/effective) + private fields (idToPickerState incl. stateToAggregate, the evaluator's counters, started/pause flags) + freshness of the parent's state; distinct states are the non-trivial cases")
	r.Assume(P, "leg c: a child's EFFECTIVE state is taken from the aggregator's own comments ('when a sub-balancer transitions from TransientFailure to connecting, state.ConnectivityState is Connecting, but stateToAggregate is still TransientFailure'): a CONNECTING report directly following a TRANSIENT_FAILURE report does not change what the child counts as; every other report does; a child that has not reported counts as CONNECTING. The WRR implementation itself is replaced through the newWRR seam (it is the subject of C36/C38)")
	ops := c35cOps()
	names := make([]string, len(ops))
	for i, o := range ops {
		names[i] = o.name
	}
	seqx.BFS(r, []string{P}, seqx.Config{
		Name: "weighted-aggregator", Ops: names, MaxDepth: r.Pick(6, 8), Parallel: 16,
		Congruence: r.Thorough(), CongruenceMax: 200, MinStates: 200,
		Run: func(hist []int) seqx.Outcome { return c35cRun(ops, hist) },
	})
}
