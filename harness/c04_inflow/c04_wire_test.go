//go:build verif

package transport

// C04 leg 2 (E4-style, in-package): a real http2Client over an in-memory
// connection against a scripted raw HTTP/2 server peer, each history in its own
// synctest bubble. The oracle is a ledger computed from the peer's frame log
// (WINDOW_UPDATE / SETTINGS received, DATA sent); the private inFlow fields are
// only cross-checked against it.

import (
	"context"
	"errors"
	"fmt"
	"net"
	"sort"
	"strings"
	"sync"
	"testing"
	"testing/synctest"

	"golang.org/x/net/http2"
	"google.golang.org/grpc/internal/verif/vk"
	"google.golang.org/grpc/internal/verif/wire"
	"google.golang.org/grpc/mem"
	"google.golang.org/grpc/resolver"
)

const (
	c04WL       = 65535 // default stream / connection window
	c04MaxFrame = 16384
)

type c04Ev struct {
	name string
	kind string // data, read, hdr
	s    int    // stream index 0 (A) / 1 (B)
	n    int
	pad  int // -1: unpadded; >=0: PADDED flag with this pad length on the last frame
	dyn  int // data only: 1 = n is the currently advertised stream window, 2 = that + 1
}

// c04QuotaAlphabet is the menu of the "bdp-quota" scenario: the server allows
// one concurrent stream, stream A is open, NewStream for B is issued while A
// still holds the quota (so it parks between building the stream object and
// registering it), a DATA burst on A makes the BDP estimator raise the window,
// closing A lets B register; B is then sent up to the window the peer was told.
func c04QuotaAlphabet() []c04Ev {
	L := c04WL
	return []c04Ev{
		{name: "newB", kind: "newB", s: 1},
		{name: "closeA", kind: "closeA", s: 0},
		{name: fmt.Sprintf("dataA(%d)", L), kind: "data", s: 0, n: L, pad: -1},
		{name: fmt.Sprintf("readA(%d)", 3*L), kind: "read", s: 0, n: 3 * L},
		{name: "dataB(1)", kind: "data", s: 1, n: 1, pad: -1},
		{name: "dataB(window)", kind: "data", s: 1, pad: -1, dyn: 1},
		{name: "dataB(window+1)", kind: "data", s: 1, pad: -1, dyn: 2},
		{name: "readB(1)", kind: "read", s: 1, n: 1},
	}
}

func c04WireAlphabet() []c04Ev {
	L, q := c04WL, c04WL/4
	var evs []c04Ev
	for _, n := range []int{0, 1, q - 1, q, L - 1, L, L + 1} {
		evs = append(evs, c04Ev{name: fmt.Sprintf("dataA(%d)", n), kind: "data", s: 0, n: n, pad: -1})
	}
	for _, d := range [][2]int{{1, 1}, {1, 5}, {L - 6, 5}, {L - 5, 5}} {
		evs = append(evs, c04Ev{name: fmt.Sprintf("dataA(%d,pad%d)", d[0], d[1]), kind: "data", s: 0, n: d[0], pad: d[1]})
	}
	evs = append(evs, c04Ev{name: "dataB(1)", kind: "data", s: 1, n: 1, pad: -1})
	evs = append(evs, c04Ev{name: fmt.Sprintf("dataB(%d)", L), kind: "data", s: 1, n: L, pad: -1})
	evs = append(evs, c04Ev{name: "readA(1)", kind: "read", s: 0, n: 1})
	evs = append(evs, c04Ev{name: "hdrA(5)", kind: "hdr", s: 0, n: 5})
	evs = append(evs, c04Ev{name: fmt.Sprintf("readA(%d)", q), kind: "read", s: 0, n: q})
	evs = append(evs, c04Ev{name: fmt.Sprintf("readA(%d)", L), kind: "read", s: 0, n: L})
	evs = append(evs, c04Ev{name: fmt.Sprintf("readA(%d)", 3*L), kind: "read", s: 0, n: 3 * L})
	evs = append(evs, c04Ev{name: "readB(1)", kind: "read", s: 1, n: 1})
	evs = append(evs, c04Ev{name: fmt.Sprintf("readB(%d)", L), kind: "read", s: 1, n: L})
	return evs
}

type c04WFail struct{ key, desc string }

// c04AppStream is the application's read API, common to ClientStream and ServerStream.
type c04AppStream interface {
	Read(n int) (mem.BufferSlice, error)
	ReadMessageHeader(header []byte) error
}

// c04PadAlphabet is the menu of the padding-accounting scenarios (run against
// the client AND the server transport): PADDED DATA frames with pad length
// {0, 1, 255} x payload {0, 1, 16000}, unpadded DATA, and application reads.
func c04PadAlphabet() []c04Ev {
	var evs []c04Ev
	for _, pad := range []int{0, 1, 255} {
		for _, n := range []int{0, 1, 16000} {
			evs = append(evs, c04Ev{name: fmt.Sprintf("dataA(%d,pad%d)", n, pad), kind: "data", s: 0, n: n, pad: pad})
		}
	}
	evs = append(evs, c04Ev{name: "dataA(1)", kind: "data", s: 0, n: 1, pad: -1})
	evs = append(evs, c04Ev{name: "readA(1)", kind: "read", s: 0, n: 1})
	evs = append(evs, c04Ev{name: "hdrA(5)", kind: "hdr", s: 0, n: 5})
	evs = append(evs, c04Ev{name: "readA(16000)", kind: "read", s: 0, n: 16000})
	evs = append(evs, c04Ev{name: fmt.Sprintf("readA(%d)", c04WL), kind: "read", s: 0, n: c04WL})
	return evs
}

type c04WireRes struct {
	skipAt  int // index of the first inapplicable event, -1 if none
	fails   []c04WFail
	obs     map[string]bool
	states  []string // abstract quiescent state after each event
	events  int
	engine  string
	updates int
	log     string
}

// c04ReadOp is one application read running on its own goroutine.
type c04ReadOp struct {
	mu   sync.Mutex
	done bool
	got  int
	err  error
}

// c04WireRun executes one history. Mode "static" selects
// ConnectOptions.StaticWindowSize (no BDP estimator); otherwise the BDP estimator
// is live and the peer acks its pings after each burst (zero virtual RTT), so
// large arrivals raise the window. Mode "bdp-quota" additionally advertises
// MAX_CONCURRENT_STREAMS=1 and opens only stream A during set-up.
func c04WireRun(t *testing.T, mode string, evs []c04Ev) (res c04WireRes) {
	server := strings.HasPrefix(mode, "server-")
	static, quota := strings.HasSuffix(mode, "static"), mode == "bdp-quota"
	res.skipAt = -1
	res.obs = map[string]bool{}
	synctest.Test(t, func(t *testing.T) {
		defer func() {
			if p := recover(); p != nil {
				res.fails = append(res.fails, c04WFail{"panic", fmt.Sprintf("panic: %v", p)})
			}
		}()
		cconn, sconn := wire.Pipe()
		ctx, cancel := context.WithCancel(context.Background())
		defer cancel()
		// the transport under test (receiver) and the scripted raw peer (sender)
		var (
			peer    *wire.Peer
			tr      *http2Client // client side only
			trfc    *trInFlow
			closeTr func()
			gs      [2]*Stream       // the transport-level stream (flow-control state, id)
			as      [2]c04AppStream  // the application's read API
			srvMu   sync.Mutex
			srvStrs []*ServerStream
		)
		if server {
			peer = wire.NewClientPeer(cconn)
			peer.AutoAckSettings = true
			peer.WriteSettings()
			st, err := NewServerTransport(sconn, &ServerConfig{BufferPool: mem.DefaultBufferPool(), MaxStreams: 100, StaticWindowSize: static})
			if err != nil {
				res.engine = "NewServerTransport: " + err.Error()
				peer.Close()
				return
			}
			ht := st.(*http2Server)
			trfc = ht.fc
			closeTr = func() { ht.Close(errors.New("verif: history finished")) }
			go ht.HandleStreams(ctx, func(s *ServerStream) {
				srvMu.Lock()
				srvStrs = append(srvStrs, s)
				srvMu.Unlock()
			})
		} else {
			peer = wire.NewServerPeer(sconn)
			peer.AutoAckSettings = true
			if quota {
				peer.WriteSettings(http2.Setting{ID: http2.SettingMaxConcurrentStreams, Val: 1})
			} else {
				peer.WriteSettings()
			}
			dial := func(context.Context, string) (net.Conn, error) { return cconn, nil }
			ct, err := NewHTTP2Client(ctx, ctx, resolver.Address{Addr: "verif"}, ConnectOptions{Dialer: dial, BufferPool: mem.DefaultBufferPool(), StaticWindowSize: static}, func(GoAwayInfo) {})
			if err != nil {
				res.engine = "NewHTTP2Client: " + err.Error()
				peer.Close()
				return
			}
			tr = ct.(*http2Client)
			trfc = tr.fc
			closeTr = func() { tr.Close(errors.New("verif: history finished")) }
		}
		var reads []*c04ReadOp
		// asynchronous NewStream for B (quota scenario)
		var newB struct {
			mu     sync.Mutex
			issued bool
			done   bool
			s      *ClientStream
			err    error
		}
		defer func() {
			res.log = peer.LogString()
			closeTr()
			peer.Close()
			synctest.Wait()
			for _, ro := range reads {
				ro.mu.Lock()
				if !ro.done && res.engine == "" {
					res.engine = "a read goroutine did not finish after Close"
				}
				ro.mu.Unlock()
			}
			newB.mu.Lock()
			if newB.issued && !newB.done && res.engine == "" {
				res.engine = "the NewStream goroutine did not finish after Close"
			}
			newB.mu.Unlock()
		}()
		var strs [2]*ClientStream
		respHdr := [][2]string{{":status", "200"}, {"content-type", "application/grpc"}}
		synctest.Wait() // the peer's SETTINGS (stream quota) are applied
		if server {
			reqHdr := [][2]string{{":method", "POST"}, {":scheme", "http"}, {":path", "/s/m"}, {":authority", "verif"}, {"content-type", "application/grpc"}, {"te", "trailers"}}
			for _, id := range []uint32{1, 3} {
				peer.WriteHeaders(id, reqHdr, false)
				synctest.Wait()
			}
			srvMu.Lock()
			if len(srvStrs) != 2 || srvStrs[0].id != 1 || srvStrs[1].id != 3 {
				res.engine = fmt.Sprintf("server side: expected streams 1 and 3, got %d", len(srvStrs))
				srvMu.Unlock()
				return
			}
			for i, ss := range srvStrs {
				gs[i], as[i] = &ss.Stream, ss
			}
			srvMu.Unlock()
		} else {
			for i := range strs {
				if quota && i == 1 {
					break // B is created by the newB event
				}
				s, err := tr.NewStream(ctx, &CallHdr{Host: "verif", Method: "/s/m"}, nil)
				if err != nil {
					res.engine = "NewStream: " + err.Error()
					return
				}
				strs[i], gs[i], as[i] = s, &s.Stream, s
			}
			synctest.Wait()
			for _, s := range strs {
				if s != nil {
					peer.WriteHeaders(s.id, respHdr, false)
				}
			}
			synctest.Wait()
		}

		// ---- ledger (peer side) ----
		iws := int64(c04WL)
		W := [2]int64{iws, iws}
		Wc := int64(c04WL)
		var rst [2][]uint32
		goaway := false
		var pings [][8]byte
		seen := 0
		idx := map[uint32]int{gs[0].id: 0}
		if gs[1] != nil {
			idx[gs[1].id] = 1
		}
		var bID uint32 // quota scenario: B's stream id once its HEADERS reached the peer
		bAnswered := false
		scan := func() {
			lg := peer.Log()
			for ; seen < len(lg); seen++ {
				f := lg[seen]
				switch f.Type {
				case "WINDOW_UPDATE":
					res.updates++
					if f.Stream == 0 {
						Wc += int64(f.Incr)
					} else if i, ok := idx[f.Stream]; ok {
						W[i] += int64(f.Incr)
					}
				case "SETTINGS":
					if v, ok := f.Settings[http2.SettingInitialWindowSize]; ok && !f.Ack {
						for i := range W {
							W[i] += int64(v) - iws
						}
						iws = int64(v)
						res.obs["bdp-settings-raise"] = true
					}
				case "RST_STREAM":
					if i, ok := idx[f.Stream]; ok {
						rst[i] = append(rst[i], f.Code)
					}
				case "GOAWAY":
					goaway = true
				case "HEADERS":
					if _, known := idx[f.Stream]; !known && quota && f.EndHdrs {
						// a new stream starts with the initial window the peer was
						// last told (SETTINGS are processed in log order)
						idx[f.Stream] = 1
						bID = f.Stream
						W[1] = iws
					}
				case "PING":
					if !f.Ack {
						var d [8]byte
						copy(d[:], f.Data)
						pings = append(pings, d)
					}
				}
			}
		}
		scan()
		// ---- application model ----
		var avail, reqRem [2]int64 // delivered-and-unconsumed bytes; remainder of the outstanding read
		var dead, padSinceReq [2]bool
		var cur [2]*c04ReadOp
		fail := func(key, format string, a ...any) {
			res.fails = append(res.fails, c04WFail{key, fmt.Sprintf(format, a...)})
		}
		consume := func() {
			for i := range avail {
				c := min(avail[i], reqRem[i])
				avail[i] -= c
				reqRem[i] -= c
			}
		}
		check := func(after string) {
			scan()
			if quota {
				newB.mu.Lock()
				if newB.done && newB.err == nil && strs[1] == nil {
					strs[1], gs[1], as[1] = newB.s, &newB.s.Stream, newB.s
				}
				newB.mu.Unlock()
				if bID != 0 && !bAnswered && strs[1] != nil {
					bAnswered = true
					peer.WriteHeaders(bID, respHdr, false)
					synctest.Wait()
					scan()
					res.obs["quota-B-registered-after-park"] = true
				}
			}
			consume()
			if goaway || peer.Closed() {
				fail("connection-error", "after %s: the client closed/failed the connection (goaway=%v closed=%v) although the connection window was never overrun", after, goaway, peer.Closed())
			}
			if Wc > c04MaxWin {
				fail("ceiling-exceeded", "after %s: connection window %d > 2^31-1", after, Wc)
			}
			if lo := iws - c04Slack(iws); Wc < lo {
				fail("conn-window-not-restored", "after %s: the peer's connection window is %d < %d (configured %d)", after, Wc, lo, iws)
			}
			if got := int64(trfc.limit) - int64(trfc.unacked); got != Wc {
				fail("conn-ledger-mismatch", "after %s: wire ledger Wc=%d but trInFlow limit-unacked=%d", after, Wc, got)
			}
			for i, s := range gs {
				if dead[i] || s == nil || (i == 1 && quota && !bAnswered) {
					continue
				}
				nm := string(rune('A' + i))
				if len(rst[i]) > 0 {
					fail("conforming-stream-reset", "after %s: stream %s got RST_STREAM%v although its window (%d left) was never overrun", after, nm, rst[i], W[i])
					dead[i] = true
					continue
				}
				if W[i] > c04MaxWin {
					fail("ceiling-exceeded", "after %s: stream %s window %d > 2^31-1", after, nm, W[i])
				}
				s.fc.mu.Lock()
				got := int64(s.fc.limit) + int64(s.fc.delta) - int64(s.fc.pendingData) - int64(s.fc.pendingUpdate)
				fl := fmt.Sprintf("limit=%d delta=%d pendingData=%d pendingUpdate=%d", s.fc.limit, s.fc.delta, s.fc.pendingData, s.fc.pendingUpdate)
				pd := int64(s.fc.pendingData)
				s.fc.mu.Unlock()
				if pd != avail[i] {
					fail("pending-data-mismatch", "after %s: stream %s: %d payload bytes are delivered and not yet consumed by the application, but inFlow.pendingData=%d (flow-controlled bytes that are neither held for the application nor scheduled for return: %d) (%s)", after, nm, avail[i], pd, pd-avail[i], fl)
				}
				if got != W[i] {
					fail("ledger-mismatch", "after %s: stream %s wire ledger W=%d but limit+delta-pendingData-pendingUpdate=%d (%s)", after, nm, W[i], got, fl)
				}
				if hi := iws + reqRem[i]; W[i]+avail[i] > hi {
					fail("over-advertised", "after %s: stream %s: peer window %d + %d delivered-and-unread bytes exceeds the configured window %d + outstanding read remainder %d (%s)", after, nm, W[i], avail[i], iws, reqRem[i], fl)
				}
				if avail[i] == 0 {
					if lo := iws - c04Slack(iws); W[i] < lo {
						fail("window-not-restored", "after %s: stream %s: application consumed everything delivered but the peer's window is %d < %d (configured %d) (%s)", after, nm, W[i], lo, iws, fl)
					}
				}
				if reqRem[i] > 0 && !padSinceReq[i] {
					if need := min(reqRem[i], c04MaxWin-c04Slack(iws)); W[i] < need {
						fail("request-not-covered", "after %s: stream %s: a read is blocked for %d more bytes but the peer's window is %d (%s)", after, nm, reqRem[i], W[i], fl)
					}
				}
				// read completion must follow the model
				if ro := cur[i]; ro != nil {
					ro.mu.Lock()
					done, rerr := ro.done, ro.err
					ro.mu.Unlock()
					switch {
					case done && rerr != nil:
						fail("read-failed", "after %s: stream %s: read failed with %v on a conforming stream", after, nm, rerr)
						dead[i] = true
					case done && reqRem[i] > 0:
						fail("read-short", "after %s: stream %s: read returned while %d requested bytes were never delivered", after, nm, reqRem[i])
						dead[i] = true
					case !done && reqRem[i] == 0:
						fail("read-stalled", "after %s: stream %s: all requested bytes were delivered but the read is still blocked", after, nm)
						dead[i] = true
					case done:
						cur[i] = nil
					}
				}
			}
		}
		state := func() string {
			return fmt.Sprintf("iws%d Wc%d|A W%d a%d r%d d%v p%v|B W%d a%d r%d d%v p%v", iws, Wc, W[0], avail[0], reqRem[0], dead[0], padSinceReq[0], W[1], avail[1], reqRem[1], dead[1], padSinceReq[1])
		}
		check("setup")
		payload := make([]byte, c04MaxFrame)
		for i := range payload {
			payload[i] = byte(i)
		}
		padding := make([]byte, 255)

		for ei, ev := range evs {
			hard := false
			for _, f := range res.fails {
				// an in-package ledger mismatch does not end the history: its
				// behavioural consequence (if any) is reported as well
				if f.key != "ledger-mismatch" {
					hard = true
				}
			}
			if hard {
				break // the history ends at its first failing event
			}
			i := ev.s
			nm := string(rune('A' + i))
			switch ev.kind {
			case "newB":
				newB.mu.Lock()
				issued := newB.issued
				newB.issued = true
				newB.mu.Unlock()
				if !quota || issued {
					res.skipAt = ei
					return
				}
				go func() {
					s, err := tr.NewStream(ctx, &CallHdr{Host: "verif", Method: "/s/m"}, nil)
					newB.mu.Lock()
					newB.done, newB.s, newB.err = true, s, err
					newB.mu.Unlock()
				}()
				synctest.Wait()
				check(ev.name)
				if strs[1] == nil {
					res.obs["quota-newB-parked"] = true
				}
			case "closeA":
				if !quota || dead[0] {
					res.skipAt = ei
					return
				}
				// the application cancels A: RST_STREAM(CANCEL) is expected and is
				// not a flow-control rejection; A leaves the ledger
				dead[0] = true
				avail[0], reqRem[0] = 0, 0
				strs[0].Close(errors.New("verif: application cancels A"))
				synctest.Wait()
				check(ev.name)
			case "data":
				if dead[i] || gs[i] == nil || (i == 1 && quota && !bAnswered) {
					res.skipAt = ei
					return
				}
				if ev.dyn > 0 {
					ev.n = int(iws) + ev.dyn - 1
				}
				// frames: full unpadded frames; with padding, a final padded frame
				type frame struct{ chunk, overhead int }
				var frames []frame
				rem := ev.n
				if ev.pad < 0 {
					for first := true; first || rem > 0; first = false {
						c := min(rem, c04MaxFrame)
						frames = append(frames, frame{c, 0})
						rem -= c
					}
				} else {
					for rem > c04MaxFrame-1-ev.pad {
						c := min(rem, c04MaxFrame)
						frames = append(frames, frame{c, 0})
						rem -= c
					}
					frames = append(frames, frame{rem, 1 + ev.pad})
				}
				for _, fr := range frames {
					chunk, overhead := fr.chunk, fr.overhead
					flen := int64(chunk + overhead)
					conform := flen <= W[i]
					if flen > Wc {
						// connection-level overrun: grpc-go does not police it and the
						// statement does not require it to; outside this leg's domain.
						res.skipAt = ei
						res.obs["conn-overrun-skipped"] = true
						return
					}
					if overhead > 0 {
						peer.WriteDataPadded(gs[i].id, false, payload[:chunk], padding[:ev.pad])
						if reqRem[i] > 0 {
							padSinceReq[i] = true
						}
					} else {
						peer.WriteData(gs[i].id, false, payload[:chunk])
					}
					W[i] -= flen
					Wc -= flen
					synctest.Wait()
					if !conform {
						scan()
						res.obs["overrun-rejected"] = true
						ok := len(rst[i]) == 1 && rst[i][0] == uint32(http2.ErrCodeFlowControl)
						if !ok && !(goaway || peer.Closed()) {
							fail("overrun-not-rejected", "stream %s: a %d-byte DATA frame exceeded the peer window (%d before it) but the client sent RST_STREAM%v and no connection error", nm, flen, W[i]+flen, rst[i])
						}
						if goaway || peer.Closed() {
							// a connection error is an allowed rejection; nothing more to check
							res.obs["overrun-connection-error"] = true
							res.states = append(res.states, "conn-closed")
							res.events++
							return
						}
						dead[i] = true
						avail[i], reqRem[i] = 0, 0
						rst[i] = nil
						break
					}
					avail[i] += int64(chunk)
					check(ev.name)
				}
				if !dead[i] {
					res.obs["data-accepted"] = true
				}
				check(ev.name)
				if len(pings) > 0 {
					// BDP mode: the peer acks the client's BDP ping(s) once the whole
					// burst is out, so the estimator samples the burst
					for _, d := range pings {
						peer.WritePing(true, d)
					}
					pings = nil
					synctest.Wait()
					check(ev.name + "+pingack")
				}
			case "read", "hdr":
				if dead[i] || cur[i] != nil || gs[i] == nil || (i == 1 && quota && !bAnswered) {
					res.skipAt = ei
					return
				}
				ro := &c04ReadOp{}
				reads = append(reads, ro)
				cur[i] = ro
				reqRem[i] = int64(ev.n)
				padSinceReq[i] = false
				s, n, hdr := as[i], ev.n, ev.kind == "hdr"
				go func() {
					var got int
					var err error
					if hdr {
						b := make([]byte, n)
						if err = s.ReadMessageHeader(b); err == nil {
							got = n
						}
					} else {
						var bs mem.BufferSlice
						bs, err = s.Read(n)
						if err == nil {
							got = bs.Len()
							bs.Free()
						}
					}
					ro.mu.Lock()
					ro.done, ro.got, ro.err = true, got, err
					ro.mu.Unlock()
				}()
				synctest.Wait()
				check(ev.name)
				if cur[i] == nil {
					res.obs["read-completed"] = true
				} else {
					res.obs["read-blocked"] = true
				}
			}
			res.events++
			res.states = append(res.states, state())
		}
	})
	return res
}

func c04EvNames(evs []c04Ev) string {
	var sb strings.Builder
	for i, e := range evs {
		if i > 0 {
			sb.WriteByte(',')
		}
		sb.WriteString(e.name)
	}
	return sb.String()
}

type c04WireReplay struct {
	Mode   string   `json:"mode"`
	Events []string `json:"events"`
}

func TestVerif_C04_Wire(t *testing.T) {
	const P = "C04"
	r := vk.Start(t, "c04_wire", "model_checking", P)
	defer r.Finish()
	alpha := c04WireAlphabet()
	depth := r.Pick(4, 5)
	r.Rule(P, fmt.Sprintf("every event sequence of length %d (checked after every frame, so all shorter sequences are covered as prefixes) over %d events {DATA on stream A in 7 sizes around the 65535 window, 4 padded variants, DATA on stream B, Read/ReadMessageHeader of 5 sizes on A and 2 on B}, once with a static window and once with the live BDP estimator (peer acks the BDP ping after each DATA burst at zero virtual RTT), on a real http2Client against a scripted raw server; plus scenario bdp-quota (server MAX_CONCURRENT_STREAMS=1; events newB [NewStream parks on stream quota], closeA, dataA(L) [BDP raise], readA(3L), dataB(1 | advertised window | window+1), readB(1); length %d): a stream registered after a window raise must honour the window the peer was told; plus padding scenarios pad-static/pad-bdp (client) and server-pad-static/server-pad-bdp (real http2Server vs scripted raw client): PADDED DATA pad {0,1,255} x payload {0,1,16000}, unpadded DATA(1), reads 1/5/16000/65535, length 3 quick / 4 thorough, and the main menu against the server (server-static/server-bdp) one event shorter; inFlow.pendingData must equal delivered-and-unconsumed payload after every frame; non-trivial = history in which the receiver emitted a WINDOW_UPDATE or rejected an overrun", depth, len(alpha), r.Pick(5, 7)))
	r.Assume(P, "the scripted peer learns window updates at quiescence (synctest.Wait after every frame), so 'conforming' is judged per DATA frame against every update the client had emitted by then")
	r.Assume(P, "connection-level overruns are outside the domain (grpc-go does not police the connection window; the menu cannot produce one because the client replenishes it independently of reads)")
	byName := map[string]c04Ev{}
	for _, e := range alpha {
		byName[e.name] = e
	}
	qalpha := c04QuotaAlphabet()
	for _, e := range qalpha {
		byName[e.name] = e
	}
	palpha := c04PadAlphabet()
	for _, e := range palpha {
		byName[e.name] = e
	}
	byName["readA(2147483647)"] = c04Ev{name: "readA(2147483647)", kind: "read", s: 0, n: 1<<31 - 1}

	report := func(mode string, evs []c04Ev, res c04WireRes) {
		names := c04EvNames(evs)
		for _, f := range res.fails {
			if f.key == "ceiling-exceeded" && mode == "bdp" && strings.Contains(names, "readA(2147483647)") {
				// wire-level reproduction of the known E2 finding: same fixed key
				r.Violation(P, c04KnownKey, "[wire, bdp] "+f.desc+"\n  history: "+names+"\n  client frames: "+res.log, c04WireReplay{Mode: mode, Events: strings.Split(names, ",")})
				continue
			}
			r.Violation(P, "wire-"+mode+"/"+f.key+"/"+names, "["+mode+"] "+f.desc+"\n  history: "+names+"\n  client frames: "+res.log, c04WireReplay{Mode: mode, Events: strings.Split(names, ",")})
		}
	}
	if r.ReplayFile() != "" {
		var rp c04WireReplay
		if err := r.LoadReplay(&rp); err != nil {
			r.EngineError("replay: %v", err)
			return
		}
		if rp.Mode == "" {
			return // a replay of the other leg
		}
		var evs []c04Ev
		for _, n := range rp.Events {
			e, ok := byName[n]
			if !ok {
				r.EngineError("replay: unknown event %q", n)
				return
			}
			evs = append(evs, e)
		}
		res := c04WireRun(t, rp.Mode, evs)
		r.Eval(P, 1)
		fmt.Printf("replay mode=%s events=%v skipAt=%d fails=%v\n  states=%v\n  log=%s\n", rp.Mode, rp.Events, res.skipAt, res.fails, res.states, res.log)
		report(rp.Mode, evs, res)
		return
	}

	states := map[string]struct{}{}
	var hist, skipped, transitions int64
	failClasses := map[string]int{}
	type wireScenario struct {
		mode  string
		alpha []c04Ev
		depth int
	}
	pd := r.Pick(3, 4)
	for _, sc := range []wireScenario{{"static", alpha, depth}, {"bdp", alpha, depth}, {"bdp-quota", qalpha, r.Pick(5, 7)},
		// padding accounting, both receivers (client and server handleData)
		{"pad-static", palpha, pd}, {"pad-bdp", palpha, pd}, {"server-pad-static", palpha, pd}, {"server-pad-bdp", palpha, pd},
		// the main menu against the server transport
		{"server-static", alpha, depth - 1}, {"server-bdp", alpha, depth - 1}} {
		mode, alpha, depth := sc.mode, sc.alpha, sc.depth
		bad := map[string]bool{} // inapplicable prefixes (as index strings)
		od := make([]int, depth)
		total := 1
		for range od {
			total *= len(alpha)
		}
		for id := 0; id < total; id++ {
			x := id
			for k := depth - 1; k >= 0; k-- {
				od[k] = x % len(alpha)
				x /= len(alpha)
			}
			if !r.Mine(id / 64) { // blocks of 64 consecutive histories share prefixes
				continue
			}
			pre := ""
			isBad := false
			for k := 0; k < depth; k++ {
				pre += string(rune('a' + od[k]))
				if bad[pre] {
					isBad = true
					break
				}
			}
			if isBad {
				skipped++
				continue
			}
			if id%256 == 0 && r.OverBudget() {
				r.Cap(P, "wire-"+mode+": time budget hit")
				break
			}
			evs := make([]c04Ev, depth)
			for k := range od {
				evs[k] = alpha[od[k]]
			}
			res := c04WireRun(t, mode, evs)
			if res.engine != "" {
				r.EngineError("wire-%s %s: %s", mode, c04EvNames(evs), res.engine)
				return
			}
			if res.skipAt >= 0 {
				p := ""
				for k := 0; k <= res.skipAt; k++ {
					p += string(rune('a' + od[k]))
				}
				bad[p] = true
				skipped++
			} else {
				hist++
				if res.updates > 0 || res.obs["overrun-rejected"] {
					r.NontrivialN(P, 1)
				}
			}
			transitions += int64(res.events)
			for _, s := range res.states {
				states[mode+"|"+s] = struct{}{}
			}
			for o := range res.obs {
				r.Outcome(P, "wire-"+mode+":"+o)
			}
			if len(res.fails) > 0 {
				// at most 2 counterexamples per failure class and shard
				keep := res.fails[:0]
				for _, f := range res.fails {
					if failClasses[mode+f.key] < 2 {
						failClasses[mode+f.key]++
						keep = append(keep, f)
					}
				}
				res.fails = keep
				fe := evs[:min(len(evs), res.events+1)]
				if res.skipAt >= 0 {
					fe = evs[:res.skipAt] // a soft failure followed by an inapplicable event
				}
				report(mode, fe, res)
				p := ""
				for k := range fe {
					p += string(rune('a' + od[k]))
				}
				for _, f := range res.fails {
					if f.key != "ledger-mismatch" {
						bad[p] = true // hard failure already reported: do not re-run its extensions
					}
				}
			}
		}
	}
	// Wire-level confirmation of the E2 finding "ceiling exceeded after a BDP
	// raise" (fixed history, stable key): a ~2 GiB read is outstanding when the
	// BDP estimator raises the window.
	if sh, _ := r.Shard(); sh == 0 {
		evs := []c04Ev{byName["readA(2147483647)"], byName[fmt.Sprintf("dataA(%d)", c04WL+1)]}
		res := c04WireRun(t, "bdp", evs)
		hist++
		transitions += int64(res.events)
		if res.engine != "" {
			r.EngineError("wire-bdp confirm: %s", res.engine)
		}
		report("bdp", evs, res)
		if len(res.fails) > 0 {
			r.Outcome(P, "wire-bdp:known-ceiling-finding-reproduced-on-the-wire")
		}
	}
	r.Eval(P, hist)
	r.Traces(P, hist)
	r.Transitions(P, transitions)
	r.States(P, int64(len(states)))
	r.AddInt(P, "wire_histories_pruned_inapplicable", skipped)
	ks := make([]string, 0, len(states))
	for k := range states {
		ks = append(ks, k)
	}
	sort.Strings(ks)
	if len(ks) > 0 {
		r.Sample(P, map[string]any{"leg": "wire", "a_reached_state": ks[len(ks)/2]})
	}
	r.Sample(P, map[string]any{"leg": "wire", "history": c04EvNames([]c04Ev{alpha[5], alpha[16], alpha[1], alpha[10]})})
}
