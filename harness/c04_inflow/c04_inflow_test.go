//go:build verif

package transport

// C04 leg 1 (engine E2, seqx BFS): the real inFlow / trInFlow objects of
// flowcontrol.go against a peer-side ledger.
//
// The oracle is the PEER's view, computed only from what the real methods
// return (window updates) and what the script sends (data):
//
//	W = L0 + sum(window updates returned) + sum(SETTINGS window deltas) - sum(data)
//
// It never looks at how inFlow batches; the private fields are read only for
// the exactness cross-check (a) and for the state key.

import (
	"fmt"
	"os"
	"strconv"
	"strings"
	"sync"
	"testing"

	"google.golang.org/grpc/internal/verif/seqx"
	"google.golang.org/grpc/internal/verif/vk"
)

const c04MaxWin = int64(1)<<31 - 1

// c04Slack is the largest amount the receiver may withhold from the peer when
// the application has read everything: the code batches window updates until
// they reach a quarter of the configured window, so at most floor(cfg/4)-1
// bytes stay un-returned (0 when cfg < 4: every read is returned at once).
func c04Slack(cfg int64) int64 {
	if q := cfg / 4; q > 0 {
		return q - 1
	}
	return 0
}

type c04Op struct {
	name string
	kind string // data, dpad, padack, req, read, bdp
	n    int64  // data bytes / request size / read size (-1 = all available)
	o    int64  // padding overhead (pad-length byte + padding)
}

// c04StreamOps is the alphabet on one inFlow. core selects the reduced
// alphabet used for the deepest exploration of the thorough tier.
func c04StreamOps(L int64, core bool) []c04Op {
	q := L / 4
	var ops []c04Op
	sizes := []int64{0, 1, q - 1, q, L - 1, L, L + 1}
	pads := [][2]int64{{1, 1}, {1, 6}, {q, 1}, {q, 6}}
	reqs := []int64{1, L / 2, L, 3 * L, c04MaxWin, 1<<32 - 1}
	if core {
		sizes = []int64{1, q, L, L + 1}
		pads = [][2]int64{{1, 6}}
		reqs = []int64{1, L, 3 * L, c04MaxWin}
	}
	for _, n := range sizes {
		ops = append(ops, c04Op{name: fmt.Sprintf("data(%d)", n), kind: "data", n: n})
	}
	// padded frames: o = 1 (PADDED flag, pad length 0) or 6 (pad length 5)
	for _, d := range pads {
		ops = append(ops, c04Op{name: fmt.Sprintf("dataPadded(%d+%d)", d[0], d[1]), kind: "dpad", n: d[0], o: d[1]})
	}
	ops = append(ops, c04Op{name: "padAck", kind: "padack"})
	for _, n := range reqs {
		ops = append(ops, c04Op{name: fmt.Sprintf("readRequest(%d)", n), kind: "req", n: n})
	}
	ops = append(ops, c04Op{name: "read(1)", kind: "read", n: 1})
	if !core {
		ops = append(ops, c04Op{name: fmt.Sprintf("read(%d)", q), kind: "read", n: q})
	}
	ops = append(ops, c04Op{name: "read(all)", kind: "read", n: -1})
	ops = append(ops, c04Op{name: fmt.Sprintf("bdpNewLimit(%d)", 2*L), kind: "bdp", n: 2 * L})
	return ops
}

func c04Names(ops []c04Op) []string {
	out := make([]string, len(ops))
	for i, o := range ops {
		out[i] = o.name
	}
	return out
}

// c04StreamRunner replays a history on a fresh real inFlow.
//
// Domain (the call protocol of the real transports, stated as assumptions):
//   - the reader goroutine is sequential: the onRead(padding) of a padded frame
//     (op padAck) happens before the next frame's onData; application-side calls
//     may interleave in between (every inFlow method takes f.mu, so sequences of
//     whole method calls are all the interleavings there are);
//   - the application follows Stream.read / ReadMessageHeader: one
//     requestRead(n) (maybeAdjust), then reads until n bytes were consumed; only
//     then the next request. Reads never exceed what was delivered and unread.
//   - the peer is arbitrary (it may overrun the window: that must be rejected).
func c04StreamRunner(scenario string, L int64, ops []c04Op, known *c04Known) func(hist []int) seqx.Outcome {
	return func(hist []int) seqx.Outcome {
		f := &inFlow{limit: uint32(L)}
		// reference / ledger state
		W := L          // peer's send window for this stream
		cfg := L        // configured (advertised initial) window
		var unread int64     // data bytes accepted and not yet read by the application
		var padPending int64 // padding of the last frame not yet returned by the transport
		var reqRem int64     // bytes still to be read for the outstanding read request
		bdpDone, rejected := false, false
		// (d2) bookkeeping: size of the outstanding request, the part of it the
		// receiver can possibly cover (window ceiling), padding in flight when it
		// was issued, and whether padded frames arrived since
		var reqN, reqTarget, reqPadTol int64
		padSinceReq := false
		var out seqx.Outcome
		fail := func(key, format string, a ...any) {
			out.Fails = append(out.Fails, seqx.Fail{Prop: "C04", Key: key, Desc: fmt.Sprintf("[L=%d] ", L) + fmt.Sprintf(format, a...)})
		}
		fields := func() string {
			return fmt.Sprintf("limit=%d delta=%d pendingData=%d pendingUpdate=%d", f.limit, f.delta, f.pendingData, f.pendingUpdate)
		}
	steps:
		for step, oi := range hist {
			last := step == len(hist)-1
			op := ops[oi]
			obs := ""
			if rejected {
				out.Skip = true
				break
			}
			switch op.kind {
			case "data", "dpad":
				if padPending > 0 {
					out.Skip = true
					break steps
				}
				size := op.n + op.o
				Wb := W
				err := f.onData(uint32(size))
				W -= size
				switch {
				case err != nil && size <= Wb:
					fail("conforming-data-rejected", "onData(%d) returned %q although the peer's window was %d", size, err, Wb)
				case err == nil && size > Wb:
					fail("overrun-accepted", "onData(%d) accepted although the peer's window was only %d", size, Wb)
				}
				if size > Wb {
					rejected = true
					obs = "data-overrun-rejected"
				} else {
					unread += op.n
					padPending = op.o
					if op.o > 0 && reqRem > 0 {
						padSinceReq = true
					}
					obs = "data-accepted"
					if size == Wb && size > 0 {
						obs = "data-accepted-window-exactly-used"
					}
				}
			case "padack":
				if padPending == 0 {
					out.Skip = true
					break steps
				}
				wu := int64(f.onRead(uint32(padPending)))
				W += wu
				padPending = 0
				obs = "padack-batched"
				if wu > 0 {
					obs = "padack-window-update"
				}
			case "req":
				if reqRem > 0 {
					out.Skip = true
					break steps
				}
				wu := int64(f.maybeAdjust(uint32(op.n)))
				W += wu
				reqRem = op.n
				reqN, reqTarget, reqPadTol, padSinceReq = op.n, min(op.n, c04MaxWin-c04Slack(cfg)), padPending, false
				obs = "request-no-adjust"
				if wu > 0 {
					obs = "request-adjust"
					if cfg+min(op.n, c04MaxWin) > c04MaxWin {
						obs = "request-adjust-capped"
					}
				}
			case "read":
				avail := min(unread, reqRem)
				n := op.n
				if n < 0 {
					n = avail
					if n == 1 || n == L/4 {
						n = 0 // same call as read(1) / read(q)
					}
				}
				if n == 0 || n > avail {
					out.Skip = true
					break steps
				}
				wu := int64(f.onRead(uint32(n)))
				W += wu
				unread -= n
				reqRem -= n
				obs = "read-batched"
				if wu > 0 {
					obs = "read-window-update"
				}
			case "bdp":
				if bdpDone {
					out.Skip = true
					break steps
				}
				f.newLimit(uint32(op.n))
				W += op.n - cfg // SETTINGS_INITIAL_WINDOW_SIZE raise adjusts every stream window of the peer
				cfg = op.n
				bdpDone = true
				obs = "bdp-raise"
			}
			if last {
				out.Obs = obs
			}
			// ---- checks after every step ----
			if !rejected {
				// (a) exactness
				if got := int64(f.limit) + int64(f.delta) - int64(f.pendingData) - int64(f.pendingUpdate); got != W {
					fail("ledger-mismatch", "after %s: peer ledger W=%d but limit+delta-pendingData-pendingUpdate=%d (%s)", op.name, W, got, fields())
				}
				if int64(f.pendingData) != unread+padPending {
					fail("pending-mismatch", "after %s: pendingData=%d but delivered-and-unread=%d (+%d padding)", op.name, f.pendingData, unread, padPending)
				}
				// (c) ceiling: the peer's window (ledger) and the receiver's own
				// notion of the total it advertised never exceed 2^31-1.
				if adv := int64(f.limit) + int64(f.delta); W > c04MaxWin || adv > c04MaxWin {
					desc := fmt.Sprintf("[L=%d] after %s: the peer's stream window is %d and limit+delta=%d; the ceiling is 2^31-1=%d (%s)", L, op.name, W, adv, c04MaxWin, fields())
					if bdpDone {
						// Everything downstream of a BDP raise on top of a capped
						// extra grant is ONE failure class with one fixed key (a
						// known finding, see the report); it is collected on the side
						// and reported once with the shortest history.
						known.add(scenario, hist[:step+1], ops, desc)
					} else {
						fail("ceiling-exceeded", "%s", desc[len(fmt.Sprintf("[L=%d] ", L)):])
					}
				}
				// (d2) while a read request is outstanding the peer must be able to
				// send the whole remainder of the requested message (up to the
				// absolute ceiling). Bytes delivered and unread count towards the
				// message. Tolerances: padding that was still un-returned when the
				// request was issued (the real code counts it as received message
				// bytes; it comes back via padAck + reads, see d1); padded frames
				// arriving after the request eat into the extra grant by design
				// (comment in maybeAdjust), then only d1 is demanded.
				if reqRem > 0 && !padSinceReq {
					need := reqTarget - (reqN - reqRem) - unread - reqPadTol
					if W < need {
						fail("request-not-covered", "after %s: a read of %d is outstanding (%d still to read, %d delivered and unread) but the peer's window is %d < %d (%s)", op.name, reqN, reqRem, unread, W, need, fields())
					}
				}
				// (e) back-pressure side of exact accounting: what the peer may still
				// send plus what the application has not read yet never exceeds the
				// configured window plus the remainder of an outstanding read request
				// (the receiver never agrees to buffer more than it advertised).
				if hi := cfg + reqRem; W+unread+padPending > hi {
					fail("over-advertised", "after %s: peer window %d + %d unread (+%d padding) exceeds the configured window %d + outstanding read remainder %d (%s)", op.name, W, unread, padPending, cfg, reqRem, fields())
				}
				// (d1) no wedge
				if unread == 0 && padPending == 0 {
					if lo := cfg - c04Slack(cfg); W < lo {
						fail("window-not-restored", "after %s: application read everything but the peer's window is %d < %d (configured %d) (%s)", op.name, W, lo, cfg, fields())
					}
				}
				if W <= 0 && unread == 0 && padPending == 0 {
					fail("wedged", "after %s: nothing left to read and the peer's window is %d", op.name, W)
				}
			}
		}
		if rejected {
			out.Terminal = true
		}
		out.Key = fmt.Sprintf("%d/%d/%d/%d|W%d c%d u%d p%d r%d b%v x%v q%d/%d/%d/%v", f.limit, f.delta, f.pendingData, f.pendingUpdate, W, cfg, unread, padPending, reqRem, bdpDone, rejected, reqN, reqTarget, reqPadTol, padSinceReq)
		return out
	}
}

// c04Known collects the occurrences of the known failure class
// "ceiling-exceeded-after-bdp-raise" and keeps the shortest (then
// alphabet-order smallest) history.
type c04Known struct {
	mu       sync.Mutex
	n        int64
	scenario string
	hist     []int
	names    []string
	desc     string
}

func (k *c04Known) add(scenario string, hist []int, ops []c04Op, desc string) {
	k.mu.Lock()
	defer k.mu.Unlock()
	k.n++
	better := k.hist == nil || len(hist) < len(k.hist)
	if !better && len(hist) == len(k.hist) && scenario == k.scenario {
		for i := range hist {
			if hist[i] != k.hist[i] {
				better = hist[i] < k.hist[i]
				break
			}
		}
	}
	if !better {
		return
	}
	k.scenario, k.hist, k.desc = scenario, append([]int(nil), hist...), desc
	k.names = k.names[:0]
	for _, h := range hist {
		k.names = append(k.names, ops[h].name)
	}
}

const c04KnownKey = "ceiling-exceeded-after-bdp-raise"

func c04ConnOps(L int64) []c04Op {
	q := L / 4
	var ops []c04Op
	for _, n := range []int64{0, 1, q - 1, q, L - 1, L, L + 1} {
		ops = append(ops, c04Op{name: fmt.Sprintf("data(%d)", n), kind: "data", n: n})
	}
	ops = append(ops, c04Op{name: "reset", kind: "reset"})
	ops = append(ops, c04Op{name: "bdpNewLimit(x2)", kind: "bdp"})
	return ops
}

// c04ConnRunner replays a history on a fresh real trInFlow. The connection
// window is replenished independently of application reads, so the no-wedge
// bound must hold after EVERY step. Only a conforming peer is modelled (the
// connection-level window is not enforced by grpc-go; the statement only says
// that nothing else is rejected).
func c04ConnRunner(L int64, ops []c04Op) func(hist []int) seqx.Outcome {
	return func(hist []int) seqx.Outcome {
		f := &trInFlow{limit: uint32(L)}
		f.updateEffectiveWindowSize()
		W, cfg := L, L
		raises := 0
		var out seqx.Outcome
		fail := func(key, format string, a ...any) {
			out.Fails = append(out.Fails, seqx.Fail{Prop: "C04", Key: "conn-" + key, Desc: fmt.Sprintf("[conn L=%d] ", L) + fmt.Sprintf(format, a...)})
		}
	csteps:
		for step, oi := range hist {
			last := step == len(hist)-1
			op := ops[oi]
			obs := ""
			switch op.kind {
			case "data":
				if op.n > W {
					out.Skip = true
					break csteps
				}
				wu := int64(f.onData(uint32(op.n)))
				W += wu - op.n
				obs = "data-batched"
				if wu > 0 {
					obs = "data-window-update"
				}
			case "reset":
				wu := int64(f.reset())
				W += wu
				if W != cfg {
					fail("reset-not-full", "after reset the peer's connection window is %d, configured %d", W, cfg)
				}
				obs = "reset-noop"
				if wu > 0 {
					obs = "reset-window-update"
				}
			case "bdp":
				if raises == 2 {
					out.Skip = true
					break csteps
				}
				raises++
				d := int64(f.newLimit(uint32(2 * cfg)))
				W += d
				if d != cfg {
					fail("raise-wrong-increment", "newLimit(%d) from %d returned increment %d", 2*cfg, cfg, d)
				}
				cfg *= 2
				obs = "bdp-raise"
			}
			if last {
				out.Obs = obs
			}
			if got := int64(f.limit) - int64(f.unacked); got != W {
				fail("ledger-mismatch", "after %s: peer ledger W=%d but limit-unacked=%d (limit=%d unacked=%d)", op.name, W, got, f.limit, f.unacked)
			}
			if got := int64(f.getSize()); got != W {
				fail("effective-size-mismatch", "after %s: peer ledger W=%d but getSize()=%d", op.name, W, got)
			}
			if W > c04MaxWin {
				fail("window-above-2^31-1", "after %s: connection window %d", op.name, W)
			}
			if lo := cfg - c04Slack(cfg); W < lo {
				fail("window-not-restored", "after %s: the peer's connection window is %d < %d (configured %d, unacked=%d)", op.name, W, lo, cfg, f.unacked)
			}
		}
		out.Key = fmt.Sprintf("%d/%d/%d|W%d c%d r%d", f.limit, f.unacked, f.getSize(), W, cfg, raises)
		return out
	}
}

func TestVerif_C04_InFlow(t *testing.T) {
	const P = "C04"
	r := vk.Start(t, "c04_inflow", "model_checking", P)
	defer r.Finish()
	r.Rule(P, "BFS over all sequences (depth 7 quick / 10 thorough) of data(n), dataPadded(n+o), padAck, readRequest(n), read(k), bdpNewLimit(2L) on a fresh real inFlow, and data(n)/reset/newLimit on a fresh real trInFlow, for L in {16, 65535}; states deduplicated on all private fields + the peer ledger + the application model; every state is distinct and reached by a real execution")
	r.Assume(P, "call protocol of the real transports: one requestRead(n) at a time, followed by reads until n bytes are consumed (Stream.read / ReadMessageHeader loops); the transport returns a frame's padding (onRead) before handling the next frame; reads never exceed delivered-and-unread bytes")
	r.Assume(P, "no-wedge reading of 'restored to at least the configured window': the code batches window updates below floor(limit/4), so up to floor(limit/4)-1 bytes are withheld until the next read; the oracle demands W >= limit-(floor(limit/4)-1) > 0 once everything is read, which can never stall a peer able to send frames of any positive size")
	r.Assume(P, "a SETTINGS_INITIAL_WINDOW_SIZE raise (BDP) is credited to the peer's ledger at the moment newLimit is called")
	r.Assume(P, "connection-level window: grpc-go never rejects at connection level, so only conforming peers are modelled for trInFlow")
	known := &c04Known{}
	defer func() {
		if known.hist != nil {
			r.Violation(P, c04KnownKey, known.desc+"\n  shortest history ("+known.scenario+"): "+strings.Join(known.names, " ; ")+fmt.Sprintf("\n  (%d explored histories end in this class)", known.n),
				map[string]any{"scenario": known.scenario, "ops": known.names})
		}
	}()
	sdepth := r.Pick(7, 9)
	if v, err := strconv.Atoi(os.Getenv("C04_DEPTH")); err == nil && v > 0 {
		sdepth = v // experiments only
	}
	for _, L := range []int64{16, 65535} {
		sops := c04StreamOps(L, false)
		seqx.BFS(r, []string{P}, seqx.Config{
			Name: fmt.Sprintf("stream-L%d", L), Ops: c04Names(sops), MaxDepth: sdepth, Parallel: 16,
			Congruence: r.Thorough(), CongruenceMax: 200, MinStates: 100,
			Run: c04StreamRunner(fmt.Sprintf("stream-L%d", L), L, sops, known),
		})
		if r.Thorough() {
			// deepest exploration on the reduced ("core") alphabet
			core := c04StreamOps(L, true)
			seqx.BFS(r, []string{P}, seqx.Config{
				Name: fmt.Sprintf("stream-core-L%d", L), Ops: c04Names(core), MaxDepth: 10, Parallel: 16,
				Congruence: true, CongruenceMax: 200, MinStates: 100,
				Run: c04StreamRunner(fmt.Sprintf("stream-core-L%d", L), L, core, known),
			})
		}
		cops := c04ConnOps(L)
		seqx.BFS(r, []string{P}, seqx.Config{
			Name: fmt.Sprintf("conn-L%d", L), Ops: c04Names(cops), MaxDepth: r.Pick(7, 10), Parallel: 16,
			Congruence: r.Thorough(), CongruenceMax: 200, MinStates: 20,
			Run: c04ConnRunner(L, cops),
		})
	}
}
