//go:build verif

package lrsclient

import (
	"errors"
	"fmt"
	"sync"
	"testing"

	"google.golang.org/grpc/internal/verif/vk"
	"google.golang.org/grpc/internal/verif/vsched"
	"google.golang.org/grpc/internal/xds/clients"
)

type c50Totals struct {
	issued, succeeded, errored, drops, dropsCat uint64
	loadCount                                   uint64
	loadSum                                     float64
}

func (t *c50Totals) add(d *loadData, loc clients.Locality) {
	if d == nil {
		return
	}
	t.drops += d.totalDrops
	t.dropsCat += d.drops["cat"]
	if ld, ok := d.localityStats[loc]; ok {
		t.issued += ld.requestStats.issued
		t.succeeded += ld.requestStats.succeeded
		t.errored += ld.requestStats.errored
		if sl, ok := ld.loadStats["cpu"]; ok {
			t.loadCount += sl.count
			t.loadSum += sl.sum
		}
	}
}

func c50Scenario(name string, rpcs int, drops bool, snaps int, bound int) vsched.Scenario {
	return vsched.Scenario{Name: name, Bound: bound, MinOutcomes: 2, Body: func(x *vsched.X) {
		ls := newLoadStore()
		p := ls.ReporterForCluster("c", "s")
		loc := clients.Locality{Region: "r", Zone: "z", SubZone: "sz"}
		var mu sync.Mutex
		// event ledger (harness-side, native sync)
		var startBegun, startDone, finBegun, finDone int
		var wantOK, wantErr, wantLoadN, wantDrops, wantDropsCat uint64
		var wantLoadSum float64
		var tot c50Totals
		for i := 0; i < rpcs; i++ {
			id := i
			x.Go(fmt.Sprintf("rpc%d", id), func() {
				mu.Lock()
				startBegun++
				mu.Unlock()
				p.CallStarted(loc)
				mu.Lock()
				startDone++
				mu.Unlock()
				if id < 2 {
					// two reports of the same named load: the second can land while a
					// snapshot is reading-and-clearing the first
					v := 1.5 + float64(id)
					p.CallServerLoad(loc, "cpu", v)
					mu.Lock()
					wantLoadN++
					wantLoadSum += v
					mu.Unlock()
				}
				var err error
				if id%2 == 1 {
					err = errors.New("rpc failed")
				}
				mu.Lock()
				finBegun++
				mu.Unlock()
				p.CallFinished(loc, err)
				mu.Lock()
				finDone++
				if err == nil {
					wantOK++
				} else {
					wantErr++
				}
				mu.Unlock()
			})
		}
		if drops {
			x.Go("drop", func() {
				// the same category twice: the second drop can land while a
				// snapshot is reading-and-clearing a non-zero counter
				p.CallDropped("cat")
				p.CallDropped("cat")
				p.CallDropped("")
				mu.Lock()
				wantDrops += 3
				wantDropsCat += 2
				mu.Unlock()
			})
		}
		x.Go("reporter", func() {
			for i := 0; i < snaps; i++ {
				mu.Lock()
				lo := startDone - finBegun // fewest calls that can be in progress at any instant from now on... refined below
				sDone0, fDone0 := startDone, finDone
				mu.Unlock()
				_ = lo
				d := p.stats()
				mu.Lock()
				// calls certainly in progress at every instant of the snapshot:
				//   started before it began and not yet finishing when it ended
				low := sDone0 - finBegun
				// calls possibly in progress at some instant: started (begun) before
				// it ended, minus those that had fully finished before it began
				high := startBegun - fDone0
				if d != nil {
					if ld, ok := d.localityStats[loc]; ok {
						ip := int(ld.requestStats.inProgress)
						if ip < low || ip > high {
							x.Fail("C50", "in-progress-impossible", "report %d says %d in progress; started-minus-finished was within [%d,%d] during the snapshot", i, ip, low, high)
						}
					}
				}
				tot.add(d, loc)
				mu.Unlock()
			}
		})
		x.Final(func(x *vsched.X) {
			for _, pn := range x.Panics {
				x.Fail("C50", "panic", "%s", pn)
			}
			if x.Stuck != "" {
				x.Fail("C50", "deadlock", "%s", x.Stuck)
			}
			mu.Lock()
			defer mu.Unlock()
			d := p.stats() // final report after everything finished
			if d != nil {
				if ld, ok := d.localityStats[loc]; ok && ld.requestStats.inProgress != 0 {
					x.Fail("C50", "in-progress-not-zero", "final report says %d in progress after every call finished", ld.requestStats.inProgress)
				}
			}
			tot.add(d, loc)
			if tot.issued != uint64(rpcs) || tot.succeeded != wantOK || tot.errored != wantErr {
				x.Fail("C50", "request-counts-wrong", "reports total issued=%d succeeded=%d errored=%d; events: started=%d ok=%d err=%d", tot.issued, tot.succeeded, tot.errored, rpcs, wantOK, wantErr)
			}
			if tot.drops != wantDrops || tot.dropsCat != wantDropsCat {
				x.Fail("C50", "drop-counts-wrong", "reports total drops=%d (category cat=%d); events: %d (cat=%d)", tot.drops, tot.dropsCat, wantDrops, wantDropsCat)
			}
			if tot.loadCount != wantLoadN || tot.loadSum != wantLoadSum {
				x.Fail("C50", "server-load-wrong", "reports total server load count=%d sum=%v; events: count=%d sum=%v", tot.loadCount, tot.loadSum, wantLoadN, wantLoadSum)
			}
			x.Outcome(fmt.Sprintf("issued=%d ok=%d err=%d drops=%d load=%d", tot.issued, tot.succeeded, tot.errored, tot.drops, tot.loadCount))
		})
	}}
}

func TestVerif_C50_LoadStore(t *testing.T) {
	const P = "C50"
	r := vk.Start(t, "c50_loadstore", "exploration", P)
	defer r.Finish()
	r.Rule(P, "every schedule with at most B preemptions (quick 2, thorough 3) of the instrumented real PerClusterReporter (sync.Map and atomic operations are scheduling points): 2-3 RPC threads (CallStarted; CallServerLoad; CallFinished ok/err) and a drop thread racing a reporter taking 2 snapshots, plus a final snapshot; oracle: sums over all reports equal the event ledger, each report's in-progress count lies between the certainly- and possibly-in-progress counts of its snapshot interval; non-trivial = executions deviating from the default schedule")
	b := r.Pick(2, 3)
	scs := []vsched.Scenario{
		c50Scenario("2rpc+drop+2snap", 2, true, 2, b),
		c50Scenario("2rpc+1snap", 2, false, 1, b),
	}
	if r.Thorough() {
		scs = append(scs, c50Scenario("3rpc+drop+2snap", 3, true, 2, 2))
	}
	vsched.RunScenarios(t, r, []string{P}, scs)
	r.Sample(P, map[string]any{"scenario": "2rpc+drop+2snap", "threads": []string{"rpc0: CallStarted; CallServerLoad(cpu,1.5); CallFinished(nil)", "rpc1: CallStarted; CallFinished(err)", "drop: CallDropped(cat) x2; CallDropped(\"\")", "reporter: stats() x2"}})
}
