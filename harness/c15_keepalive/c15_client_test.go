//go:build verif

package transport

// C15 leg (a), engine E4 with exact virtual time: a real http2Client
// (NewHTTP2Client with keepalive.ClientParameters) against a scripted raw
// HTTP/2 server that never answers on its own. One synctest bubble per
// history; "advance d" = time.Sleep(d) on the bubble's root goroutine followed
// by synctest.Wait().
//
// Oracle = the sentence of C15 evaluated on the virtual clock, using only
//   - the instants at which the raw peer wrote bytes (c15Conn ledger),
//   - the instants at which the application opened / closed streams,
//   - the instant at which the client closed its end of the connection.

import (
	"context"
	"errors"
	"fmt"
	"net"
	"testing"
	"testing/synctest"
	"time"

	"google.golang.org/grpc/codes"
	"google.golang.org/grpc/internal/verif/vk"
	"google.golang.org/grpc/internal/verif/wire"
	"google.golang.org/grpc/keepalive"
	"google.golang.org/grpc/mem"
	"google.golang.org/grpc/resolver"
	"google.golang.org/grpc/status"
)

type c15CliCfg struct {
	timeout time.Duration
	permit  bool
}

var c15CliCfgs = []c15CliCfg{
	{3 * time.Second, false}, {3 * time.Second, true},
	{10 * time.Second, false}, {10 * time.Second, true},
	{15 * time.Second, false}, {15 * time.Second, true},
}

const c15CliMaxStreams = 2

func (c c15CliCfg) String() string {
	return fmt.Sprintf("client Time=%v Timeout=%v PermitWithoutStream=%v", c15Time, c.timeout, c.permit)
}

type c15Ev struct {
	kind string // adv byte open close
	d    time.Duration
	what string
}

func (e c15Ev) String() string {
	switch e.kind {
	case "adv":
		return fmt.Sprintf("adv(%v)", e.d)
	case "byte":
		return "byte(" + e.what + ")"
	}
	return e.kind
}

func c15CliRun(t *testing.T, cfg c15CliCfg, depth int, choose func(step, n int) int) (res c15Res) {
	synctest.Test(t, func(t *testing.T) {
		defer func() {
			if p := recover(); p != nil {
				res.fail("panic", "panic: %v", p)
			}
		}()
		t0 := time.Now()
		cconn, sconn := wire.Pipe()
		ep := &c15Conn{Conn: cconn, lastWrite: t0}
		pr := &c15Conn{Conn: sconn, lastWrite: t0}
		peer := wire.NewServerPeer(pr)
		peer.AutoAckSettings = true
		peer.WriteSettings()
		ctx, cancelAll := context.WithCancel(context.Background())
		defer cancelAll()
		dial := func(context.Context, string) (net.Conn, error) { return ep, nil }
		ct, err := NewHTTP2Client(ctx, ctx, resolver.Address{Addr: "x"}, ConnectOptions{
			Dialer:           dial,
			KeepaliveParams:  keepalive.ClientParameters{Time: c15Time, Timeout: cfg.timeout, PermitWithoutStream: cfg.permit},
			BufferPool:       mem.DefaultBufferPool(),
			StaticWindowSize: true,
		}, func(GoAwayInfo) {})
		if err != nil {
			res.engine = "NewHTTP2Client: " + err.Error()
			peer.Close()
			return
		}
		tr := ct.(*http2Client)
		defer func() {
			res.log = peer.LogString()
			cancelAll()
			tr.Close(errors.New("verif: history finished"))
			peer.Close()
			synctest.Wait()
		}()
		synctest.Wait()
		if time.Now() != t0 {
			res.engine = "virtual time moved during connection establishment"
			return
		}

		// ---- ledger (statement-level state) ----
		var (
			open       []*ClientStream
			applicable = cfg.permit // keepalive applicable: PermitWithoutStream, or a stream is open
			since      = t0         // the moment keepalive became applicable (meaningful while applicable)
			slack      = false      // the last byte was received (after establishment) while keepalive was not applicable
			nBytes     int
			pings      int
			seen       int
			toggles    int
		)
		deltas := c15Deltas(cfg.timeout)
		scanPings := func() {
			lg := peer.Log()
			for ; seen < len(lg); seen++ {
				if lg[seen].Type == "PING" && !lg[seen].Ack {
					pings++
				}
			}
		}
		end := "open"
		lastAdv := time.Duration(0) // the previous event's advance (0: it was not an advance)
		for step := 0; step < depth; step++ {
			var evs []c15Ev
			for _, d := range deltas {
				if d >= lastAdv { // adjacent advances commute: only non-decreasing runs
					evs = append(evs, c15Ev{kind: "adv", d: d})
				}
			}
			evs = append(evs, c15Ev{kind: "byte", what: "pingack"}, c15Ev{kind: "byte", what: "settings"})
			if len(open) == 0 {
				evs = append(evs, c15Ev{kind: "open"})
				// a burst: two NewStream calls back-to-back, both registered before
				// the transport's writer has handled the first one's HEADERS
				if !cfg.permit { // with PermitWithoutStream streams do not matter to keepalive: one stream event suffices
					evs = append(evs, c15Ev{kind: "open2"})
				}
			}
			if len(open) > 0 {
				evs = append(evs, c15Ev{kind: "close"})
			}
			ci := choose(step, len(evs))
			if ci < 0 {
				break
			}
			if ci >= len(evs) {
				res.nondet = fmt.Sprintf("step %d: choice %d but only %d applicable events", step, ci, len(evs))
				break
			}
			ev := evs[ci]
			res.events = append(res.events, ev.String())
			res.steps++
			nfail := len(res.fails)

			lastAdv = 0
			switch ev.kind {
			case "adv":
				lastAdv = ev.d
				time.Sleep(ev.d)
			case "byte":
				nBytes++
				slack = !applicable
				switch ev.what {
				case "pingack":
					peer.WritePing(true, [8]byte{})
				case "settings":
					peer.WriteSettings()
				}
			case "open":
				var (
					s    *ClientStream
					serr error
					ret  bool
				)
				go func() {
					s, serr = tr.NewStream(ctx, &CallHdr{Host: "x", Method: "/s/m"}, nil)
					ret = true
				}()
				synctest.Wait()
				if !ret || serr != nil {
					res.engine = fmt.Sprintf("NewStream on a live transport: returned=%v err=%v", ret, serr)
					return
				}
				open = append(open, s)
				if !applicable {
					applicable, since = true, time.Now()
					toggles++
				}
			case "open2":
				// No synctest.Wait() (and nothing that blocks) between the two calls:
				// the bubble's other goroutines, the transport's writer included, do
				// not run until the Wait below.
				before := len(peer.Log())
				s1, err1 := tr.NewStream(ctx, &CallHdr{Host: "x", Method: "/s/m"}, nil)
				s2, err2 := tr.NewStream(ctx, &CallHdr{Host: "x", Method: "/s/m"}, nil)
				if err1 != nil || err2 != nil {
					res.engine = fmt.Sprintf("NewStream x2 on a live transport: %v / %v", err1, err2)
					return
				}
				// harness validity (not part of the oracle): both streams are
				// registered and the writer has not yet put either HEADERS on the wire
				tr.mu.Lock()
				nact := len(tr.activeStreams)
				tr.mu.Unlock()
				if nact != 2 || len(peer.Log()) != before {
					// The Go scheduler preempted this goroutine between the two calls
					// (rare, wall-clock time slice under CPU oversubscription) and the
					// writer ran: not the burst this event stands for. The driver
					// re-runs the history.
					res.retry = fmt.Sprintf("open2: the writer ran between the two NewStream calls: active=%d, frames on the wire since the first call=%d", nact, len(peer.Log())-before)
					return
				}
				synctest.Wait()
				nh := 0
				for _, f := range peer.Log()[before:] {
					if f.Type == "HEADERS" {
						nh++
					}
				}
				if nh != 2 {
					res.engine = fmt.Sprintf("open2: %d HEADERS frames reached the peer in this step, want 2", nh)
					return
				}
				open = append(open, s1, s2)
				res.stat("burst_opens", 1)
				if !applicable {
					applicable, since = true, time.Now()
					toggles++
				}
			case "close":
				s := open[len(open)-1]
				open = open[:len(open)-1]
				s.Close(status.Error(codes.Canceled, "verif: application cancelled the RPC"))
				if len(open) == 0 && !cfg.permit {
					applicable = false
					toggles++
				}
			}
			synctest.Wait()
			scanPings()

			// ---- oracle: the sentence, evaluated now ----
			now := time.Now()
			last, maxGap, _ := pr.writeInfo()
			closedAt, closed := ep.closeInfo()
			// strict: Timeout after the later of (last received byte + Time) and the
			// moment keepalive became applicable. relaxed: see the stated assumption.
			strict := c15MaxT(last.Add(c15Time), since).Add(cfg.timeout)
			relaxed := strict
			if slack {
				relaxed = c15MaxT(last.Add(c15Time), since.Add(min(c15Time, cfg.timeout))).Add(cfg.timeout)
			}
			obs := "open"
			if closed {
				obs = "closed at t=" + c15Off(t0, closedAt)
			}
			if applicable {
				obs += " (deadline t=" + c15Off(t0, relaxed) + ")"
			}
			res.timeline = append(res.timeline, fmt.Sprintf("t=%s %s -> %s, last byte t=%s, pings=%d, streams=%d", c15Off(t0, now), ev, obs, c15Off(t0, last), pings, len(open)))
			if closed {
				switch {
				case !applicable:
					end = "closed-while-not-applicable"
				case closedAt.After(relaxed):
					end = "closed-late"
					res.fail("closed-after-deadline", "nothing was received after t=%s and keepalive has been applicable since t=%s, so the connection must be closed by t=%s; it was closed at t=%s",
						c15Off(t0, last), c15Off(t0, since), c15Off(t0, relaxed), c15Off(t0, closedAt))
				case closedAt.After(strict):
					end = "closed-within-stated-slack"
					res.stat("closed_after_literal_bound_within_stated_slack", 1)
				case closedAt.Equal(strict):
					end = "closed-exactly-at-bound"
				default:
					end = "closed-before-bound"
				}
				// never kills a healthy connection: some byte at least once every Time
				if maxGap <= c15Time && closedAt.Sub(last) <= c15Time {
					res.fail("healthy-connection-closed", "the peer sent some byte at least once every %v (largest gap %v, last byte at t=%s) but keepalive closed the connection at t=%s",
						c15Time, maxGap, c15Off(t0, last), c15Off(t0, closedAt))
				}
				break
			}
			if applicable && !now.Before(relaxed) {
				res.fail("dead-peer-not-detected", "nothing was received after t=%s and keepalive has been applicable since t=%s, so the connection must be closed by t=%s; at t=%s it is still open (keepalive PINGs sent: %d)",
					c15Off(t0, last), c15Off(t0, since), c15Off(t0, relaxed), c15Off(t0, now), pings)
			}
			if len(res.fails) > nfail {
				break
			}
		}
		res.nontrivial = pings > 0 || end != "open"
		res.outcome = fmt.Sprintf("permit=%v end=%s pings=%d bytes=%d applicability-changes=%d", cfg.permit, end, min(pings, 3), min(nBytes, 2), min(toggles, 3))
		switch {
		case end == "closed-within-stated-slack":
			res.sampleTag = "closed-within-stated-slack"
		case end == "closed-exactly-at-bound" && nBytes > 0 && toggles > 0:
			res.sampleTag = "closed-exactly-at-bound"
		case end == "open" && pings >= 2 && nBytes >= 2:
			res.sampleTag = "kept-alive"
		}
	})
	return res
}

func TestVerif_C15_Client(t *testing.T) {
	const P = "C15"
	r := vk.Start(t, "c15_client", "exploration", P)
	defer r.Finish()
	depth := r.Pick(6, 8)
	r.Rule(P, fmt.Sprintf("(a) client keepalive: for each of Time=10s x Timeout in {3s,10s,15s} x PermitWithoutStream in {f,t}, every event history of length %d (runs of consecutive advances only in non-decreasing order: adjacent advances commute, the pruned orders reach the same state and their intermediate instants are checked on kept prefixes; oracle after every event, so shorter histories are covered as prefixes; a history ends when the client closes the connection) over {advance d for d in {1s, Time-1ms, Time, Time+1ms, Timeout-1ms, Timeout+1ms}, raw server sends a PING ack, raw server sends a SETTINGS frame, application opens a stream (only when none is open), application opens two streams in one step (two NewStream calls back-to-back with no quiescence in between, only when none is open: both are registered before the transport's writer handles the first HEADERS; the only way to %d open streams; offered only with PermitWithoutStream=false, where streams decide applicability), application closes the newest stream}; real http2Client against a scripted raw server that never answers on its own, one synctest bubble per history, exact virtual time; non-trivial = the client sent at least one keepalive PING or closed the connection; distinct by (configuration, event list)", depth, c15CliMaxStreams))
	r.Assume(P, "clock: testing/synctest virtual time; 'received byte' instants are the instants the raw peer wrote (in-memory pipe, read at the same virtual instant); an event at the same instant as a timer expiry is ordered after it (the +-1ms deltas cover the other order)")
	r.Assume(P, "client, timer quantisation (from reading the keepalive loop: received-byte activity is sampled only when the loop's timer fires, and the timer is not running while the loop is dormant): when the last byte was received after establishment while keepalive was NOT applicable (no stream, PermitWithoutStream=false), the wake-up PING's first timer period min(Time,Timeout) may be spent noticing that stale byte, so the allowed bound is Timeout after the later of (last byte + Time) and (applicable-since + min(Time,Timeout)); in every other case the bound of the statement is checked with zero slack. Histories closed after the literal bound but inside this slack are counted in closed_after_literal_bound_within_stated_slack")
	r.Assume(P, "a connection closed while keepalive is not applicable (a PING sent earlier, while a stream was open, timed out) is neither required nor forbidden by the statement unless the connection was healthy")
	leg := c15Leg{name: "c15_client", ncfg: len(c15CliCfgs),
		cfgDesc: func(i int) string { return c15CliCfgs[i].String() },
		run: func(t *testing.T, cfg, depth int, choose func(step, n int) int) c15Res {
			return c15CliRun(t, c15CliCfgs[cfg], depth, choose)
		}}
	c15Explore(t, r, P, leg, depth, 2)
}
