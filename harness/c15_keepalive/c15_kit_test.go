//go:build verif

package transport

// C15 kit: recording connection wrapper (the wire-level clock ledger the
// oracles are evaluated on), stateless depth-first history enumerator, the
// generic "every history of every configuration" driver and the replay format
// shared by the three C15 legs (client keepalive, server keepalive, server
// ping-policy enforcement).

import (
	"fmt"
	"net"
	"strings"
	"sync"
	"testing"
	"time"

	"google.golang.org/grpc/internal/verif/vk"
)

const (
	c15Time    = 10 * time.Second // keepalive Time of legs (a) and (b)
	c15MinTime = 5 * time.Second  // enforcement MinTime of leg (c)
	c15TwoH    = 2 * time.Hour
	c15Ms      = time.Millisecond
)

// c15Conn wraps one end of a wire.Pipe and timestamps, on the bubble's virtual
// clock, every successful Write and the first Close made through it. Wrapped
// around the raw peer's end it is the ledger of "bytes the endpoint received";
// wrapped around the endpoint's end it tells when the endpoint closed the
// connection.
type c15Conn struct {
	net.Conn
	mu        sync.Mutex
	closed    bool
	closedAt  time.Time
	nWrites   int
	lastWrite time.Time     // initialised to the establishment instant
	maxGap    time.Duration // largest gap between consecutive writes (from establishment)
}

func (c *c15Conn) Write(p []byte) (int, error) {
	n, err := c.Conn.Write(p)
	if n > 0 {
		now := time.Now()
		c.mu.Lock()
		if g := now.Sub(c.lastWrite); g > c.maxGap {
			c.maxGap = g
		}
		c.lastWrite = now
		c.nWrites++
		c.mu.Unlock()
	}
	return n, err
}

func (c *c15Conn) Close() error {
	c.mu.Lock()
	if !c.closed {
		c.closed, c.closedAt = true, time.Now()
	}
	c.mu.Unlock()
	return c.Conn.Close()
}

func (c *c15Conn) closeInfo() (time.Time, bool) {
	c.mu.Lock()
	defer c.mu.Unlock()
	return c.closedAt, c.closed
}

func (c *c15Conn) writeInfo() (last time.Time, maxGap time.Duration, n int) {
	c.mu.Lock()
	defer c.mu.Unlock()
	return c.lastWrite, c.maxGap, c.nWrites
}

func c15MaxT(a, b time.Time) time.Time {
	if a.After(b) {
		return a
	}
	return b
}

func c15Dedupe(ds []time.Duration) []time.Duration {
	var out []time.Duration
	for _, d := range ds {
		dup := false
		for _, o := range out {
			dup = dup || o == d
		}
		if !dup {
			out = append(out, d)
		}
	}
	return out
}

// c15Deltas is the "advance" alphabet of legs (a) and (b).
func c15Deltas(timeout time.Duration) []time.Duration {
	return c15Dedupe([]time.Duration{time.Second, c15Time - c15Ms, c15Time, c15Time + c15Ms, timeout - c15Ms, timeout + c15Ms})
}

type c15Fail struct{ class, desc string }

// c15Res is the result of one history.
type c15Res struct {
	events     []string // event names (stable: used in violation keys)
	timeline   []string // "t=<virtual offset> <event> -> <observation>"
	fails      []c15Fail
	engine     string
	retry      string // non-empty: the history could not be staged as intended (scheduler preemption); run it again
	nondet     string
	log        string
	outcome    string
	steps      int
	nontrivial bool
	sampleTag  string // non-empty: candidate for a written-out sample of this kind
	stats      map[string]int64
}

func (res *c15Res) fail(class, format string, a ...any) {
	res.fails = append(res.fails, c15Fail{class, fmt.Sprintf(format, a...)})
}

func (res *c15Res) stat(k string, n int64) {
	if res.stats == nil {
		res.stats = map[string]int64{}
	}
	res.stats[k] += n
}

// c15Odo: stateless depth-first enumerator; widths are learnt by running.
type c15Odo struct {
	path, width []int
	fixed       int
	bad         string
}

func (o *c15Odo) choose(step, n int) int {
	if step < len(o.path) {
		if step < len(o.width) {
			if o.width[step] != n && o.bad == "" {
				o.bad = fmt.Sprintf("step %d had %d applicable events, now %d (path %v)", step, o.width[step], n, o.path)
			}
		} else {
			o.width = append(o.width, n)
		}
		if o.path[step] >= n {
			if o.bad == "" {
				o.bad = fmt.Sprintf("step %d: choice %d but only %d applicable events (path %v)", step, o.path[step], n, o.path)
			}
			return -1
		}
		return o.path[step]
	}
	o.path = append(o.path, 0)
	o.width = append(o.width, n)
	return 0
}

func (o *c15Odo) next() bool {
	for len(o.path) > o.fixed {
		last := len(o.path) - 1
		if last < len(o.width) && o.path[last]+1 < o.width[last] {
			o.path[last]++
			o.width = o.width[:last+1]
			return true
		}
		o.path = o.path[:last]
		if len(o.width) > last {
			o.width = o.width[:last]
		}
	}
	return false
}

type c15Replay struct {
	Leg     string   `json:"leg"`
	Cfg     int      `json:"cfg"`
	CfgDesc string   `json:"cfg_desc"`
	Choices []int    `json:"choices"`
	Events  []string `json:"events"`
}

// c15Leg describes one family of histories.
type c15Leg struct {
	name    string
	ncfg    int
	cfgDesc func(cfg int) string
	// run executes one history: at every step it computes the applicable
	// events and calls choose(step, n) for the index (<0: stop).
	run func(t *testing.T, cfg, depth int, choose func(step, n int) int) c15Res
}

const c15MaxViolPerShard = 2

// c15Explore runs every history of every configuration of the leg up to depth
// (work items = configuration x prefix of length prefixDepth, sharded).
func c15Explore(t *testing.T, r *vk.Run, P string, leg c15Leg, depth, prefixDepth int) {
	nviol := 0
	var retries int64
	run := func(cfg, depth int, choose func(step, n int) int) (res c15Res) {
		for attempt := 0; attempt < 8; attempt++ {
			if res = leg.run(t, cfg, depth, choose); res.retry == "" {
				return res
			}
			retries++
		}
		res.engine = "history could not be staged in 8 attempts: " + res.retry
		return res
	}
	report := func(cfg int, choices []int, res c15Res) {
		if res.engine != "" {
			r.EngineError("%s cfg=%s history=%v: %s", leg.name, leg.cfgDesc(cfg), res.events, res.engine)
		}
		for _, f := range res.fails {
			nviol++
			key := fmt.Sprintf("%s/%s|%s|%s", leg.name, f.class, leg.cfgDesc(cfg), strings.Join(res.events, ","))
			r.Violation(P, key, fmt.Sprintf("%s\n  config: %s\n  timeline:\n    %s\n  frames seen by the raw peer: %s", f.desc, leg.cfgDesc(cfg), strings.Join(res.timeline, "\n    "), res.log),
				c15Replay{Leg: leg.name, Cfg: cfg, CfgDesc: leg.cfgDesc(cfg), Choices: append([]int(nil), choices[:min(len(choices), res.steps)]...), Events: res.events})
		}
	}
	if r.ReplayFile() != "" {
		var rp c15Replay
		if err := r.LoadReplay(&rp); err != nil {
			r.EngineError("replay: %v", err)
			return
		}
		if rp.Leg != leg.name {
			return
		}
		res := run(rp.Cfg, len(rp.Choices), func(step, n int) int {
			if step >= len(rp.Choices) || rp.Choices[step] >= n {
				return -1
			}
			return rp.Choices[step]
		})
		r.Eval(P, 1)
		fmt.Printf("replay %s cfg=%s\n  %s\n  fails=%v\n  outcome=%s\n  log=%s\n", leg.name, leg.cfgDesc(rp.Cfg), strings.Join(res.timeline, "\n  "), res.fails, res.outcome, res.log)
		report(rp.Cfg, rp.Choices, res)
		return
	}

	type item struct {
		cfg int
		pre []int
	}
	var items []item
	for cfg := 0; cfg < leg.ncfg; cfg++ {
		po := &c15Odo{}
		for {
			res := run(cfg, min(prefixDepth, depth), func(step, n int) int { return po.choose(step, n) })
			if res.engine != "" || po.bad != "" {
				r.EngineError("%s cfg=%s prefix enumeration path=%v: %s %s", leg.name, leg.cfgDesc(cfg), po.path, res.engine, po.bad)
				return
			}
			items = append(items, item{cfg, append([]int(nil), po.path...)})
			if !po.next() {
				break
			}
		}
	}
	var hist, steps, nontriv int64
	stats := map[string]int64{}
	perCfg := make([]int64, leg.ncfg)
	samples := map[string]int{}
	capped := ""
outer:
	for i, it := range items {
		if !r.Mine(i) {
			continue
		}
		o := &c15Odo{path: append([]int(nil), it.pre...), fixed: len(it.pre)}
		for {
			if r.OverBudget() {
				capped = leg.name + ": time budget reached before all histories were run"
				break outer
			}
			res := run(it.cfg, depth, func(step, n int) int { return o.choose(step, n) })
			if o.bad != "" || res.nondet != "" {
				r.EngineError("%s cfg=%s: non-deterministic applicability: %s %s", leg.name, leg.cfgDesc(it.cfg), o.bad, res.nondet)
				break outer
			}
			hist++
			perCfg[it.cfg]++
			steps += int64(res.steps)
			for k, v := range res.stats {
				stats[k] += v
			}
			r.Outcome(P, leg.name+": "+res.outcome)
			if res.nontrivial {
				nontriv++ // distinct by construction: the enumerator visits every (configuration, event list) once
			}
			if sh, _ := r.Shard(); sh == 0 && res.sampleTag != "" && samples[res.sampleTag] == 0 && len(samples) < 2 { // 2 per leg, from shard 0 only: the driver keeps 6
				samples[res.sampleTag]++
				r.Sample(P, map[string]any{"leg": leg.name, "config": leg.cfgDesc(it.cfg), "kind": res.sampleTag, "timeline": res.timeline, "peer_saw": res.log, "outcome": res.outcome})
			}
			report(it.cfg, o.path, res)
			if nviol >= c15MaxViolPerShard {
				capped = leg.name + ": stopped after the first violations of this shard"
				break outer
			}
			if !o.next() {
				break
			}
		}
	}
	r.Eval(P, hist)
	r.NontrivialN(P, nontriv)
	r.AddInt(P, leg.name+"_events_executed", steps)
	r.Set(P, leg.name+"_depth_bound", depth)
	if retries > 0 {
		r.AddInt(P, leg.name+"_histories_rerun_after_scheduler_preemption", retries) // infrastructure metric, load dependent
	}
	r.AddInt(P, leg.name+"_work_items", int64(len(items))) // summed over shards by the driver: divide by shards
	for k, v := range stats {
		r.AddInt(P, leg.name+"_"+k, v)
	}
	for cfg, n := range perCfg {
		r.AddInt(P, fmt.Sprintf("%s_histories[%s]", leg.name, leg.cfgDesc(cfg)), n)
	}
	if capped != "" {
		r.Cap(P, capped)
	}
}

func c15Off(t0 time.Time, t time.Time) string { return t.Sub(t0).String() }
