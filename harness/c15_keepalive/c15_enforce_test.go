//go:build verif

package transport

// C15 leg (c), engine E4 with exact virtual time: server ping-policy
// enforcement. A real http2Server with EnforcementPolicy{MinTime=5s,
// PermitWithoutStream} against a scripted raw client that sends PINGs at chosen
// gaps, opens / resets streams, while the server application sends headers,
// data or trailers on the open stream.
//
// Oracle = a reference strike counter written from the statement and fed only
// by the wire: the raw client's own PING instants and stream ledger, and the
// HEADERS / DATA / GOAWAY frames the raw client receives.

import (
	"fmt"
	"testing"
	"testing/synctest"
	"time"

	"golang.org/x/net/http2"
	"google.golang.org/grpc/codes"
	"google.golang.org/grpc/internal/verif/vk"
	"google.golang.org/grpc/internal/verif/wire"
	"google.golang.org/grpc/keepalive"
	"google.golang.org/grpc/mem"
	"google.golang.org/grpc/status"
)

type c15EnfCfg struct{ permit bool }

var c15EnfCfgs = []c15EnfCfg{{false}, {true}}

const c15EnfMaxOpens = 3

func (c c15EnfCfg) String() string {
	return fmt.Sprintf("enforcement MinTime=%v PermitWithoutStream=%v", c15MinTime, c.permit)
}

var c15EnfGaps = []time.Duration{c15MinTime - c15Ms, c15MinTime, c15MinTime + c15Ms, c15TwoH - c15Ms, c15TwoH}

type c15EnfEv struct {
	kind string // ping open rst sHdr sData sEnd
	gap  time.Duration
}

func (e c15EnfEv) String() string {
	if e.kind == "ping" {
		return fmt.Sprintf("ping(+%v)", e.gap)
	}
	return e.kind
}

func c15EnfRun(t *testing.T, cfg c15EnfCfg, depth int, choose func(step, n int) int) (res c15Res) {
	synctest.Test(t, func(t *testing.T) {
		defer func() {
			if p := recover(); p != nil {
				res.fail("panic", "panic: %v", p)
			}
		}()
		t0 := time.Now()
		// The server's own keepalive stays at its defaults (Time 2h, Timeout 20s);
		// the raw client acknowledges the server's PINGs at once.
		_, peer, ep, _, handled, stop := c15StartServer(&res, &ServerConfig{
			KeepalivePolicy: keepalive.EnforcementPolicy{MinTime: c15MinTime, PermitWithoutStream: cfg.permit},
		}, true)
		if res.engine != "" {
			return
		}
		defer stop()
		synctest.Wait()

		var (
			// raw client's ledger
			openID   uint32
			opens    int
			hdrSent  bool
			cur      *ServerStream
			nPings   int
			havePrev bool
			prevPing time.Time
			// reference strike counter (statement)
			strikes      int  // too-early pings not separated by server-sent headers/data
			sentSince    bool // the server sent headers/data since the previous ping
			everTooEarly bool // some consecutive pair of pings was closer than required (literal)
			litStrikes   int  // literal reading: the ping right after server-sent headers/data is judged too
			resets       int
			// wire observations
			seen     int
			calm     int // GOAWAY(ENHANCE_YOUR_CALM) frames
			calmDbg  string
			otherGA  int
			srvFrames int
		)
		scan := func() {
			lg := peer.Log()
			for ; seen < len(lg); seen++ {
				switch f := lg[seen]; f.Type {
				case "HEADERS", "DATA":
					srvFrames++
					if strikes > 0 {
						resets++
					}
					strikes, litStrikes, sentSince = 0, 0, true
				case "GOAWAY":
					if f.Code == uint32(http2.ErrCodeEnhanceYourCalm) {
						calm++
						calmDbg = string(f.Data)
					} else {
						otherGA++
					}
				}
			}
		}
		scan()
		end := "open"
		maxStrikes := 0
		for step := 0; step < depth; step++ {
			var evs []c15EnfEv
			for i, g := range c15EnfGaps {
				// the first ping of a connection has no predecessor: only the two extreme delays
				if havePrev || i == 0 || i == len(c15EnfGaps)-1 {
					evs = append(evs, c15EnfEv{kind: "ping", gap: g})
				}
			}
			if openID == 0 && opens < c15EnfMaxOpens {
				evs = append(evs, c15EnfEv{kind: "open"})
			}
			if openID != 0 {
				evs = append(evs, c15EnfEv{kind: "rst"})
				if !hdrSent {
					evs = append(evs, c15EnfEv{kind: "sHdr"})
				}
				evs = append(evs, c15EnfEv{kind: "sData"}, c15EnfEv{kind: "sEnd"})
			}
			ci := choose(step, len(evs))
			if ci < 0 {
				break
			}
			if ci >= len(evs) {
				res.nondet = fmt.Sprintf("step %d: choice %d but only %d applicable events", step, ci, len(evs))
				break
			}
			ev := evs[ci]
			res.events = append(res.events, ev.String())
			res.steps++
			nfail := len(res.fails)
			note := ""

			switch ev.kind {
			case "ping":
				time.Sleep(ev.gap)
				synctest.Wait()
				scan()
				if _, cl := ep.closeInfo(); calm+otherGA > 0 || cl {
					break // judged below
				}
				// reference model: judge this ping from the statement
				now := time.Now()
				required := c15TwoH
				if openID != 0 || cfg.permit {
					required = c15MinTime
				}
				early := havePrev && now.Sub(prevPing) < required
				if early {
					everTooEarly = true
					litStrikes++
					if !sentSince {
						strikes++
					}
				}
				note = fmt.Sprintf("required gap %v, too-early=%v, strikes=%d", required, early && !sentSince, strikes)
				havePrev, prevPing, sentSince = true, now, false
				nPings++
				var d [8]byte
				d[0], d[7] = byte(nPings), 0xc1
				peer.WritePing(false, d)
			case "open":
				opens++
				openID = uint32(2*opens - 1)
				hdrSent = false
				peer.WriteHeaders(openID, c15ReqHeaders, false)
			case "rst":
				peer.WriteRST(openID, http2.ErrCodeCancel)
				openID, cur = 0, nil
			case "sHdr":
				hdrSent = true
				if err := cur.SendHeader(nil); err != nil {
					res.engine = fmt.Sprintf("SendHeader on open stream %d: %v", openID, err)
					return
				}
			case "sData":
				hdrSent = true
				if err := cur.Write(wire.GrpcMsg(false, []byte("x"))[:5], mem.BufferSlice{mem.SliceBuffer([]byte("x"))}, &WriteOptions{}); err != nil {
					res.engine = fmt.Sprintf("Write on open stream %d: %v", openID, err)
					return
				}
			case "sEnd":
				if err := cur.WriteStatus(status.New(codes.OK, "")); err != nil {
					res.engine = fmt.Sprintf("WriteStatus on open stream %d: %v", openID, err)
					return
				}
				openID, cur = 0, nil
			}
			synctest.Wait()
			before := srvFrames
			scan()
			if ev.kind == "open" {
				hs := handled()
				if len(hs) != opens {
					res.engine = fmt.Sprintf("stream %d was not handed to the handler", openID)
					return
				}
				cur = hs[len(hs)-1]
			}
			if (ev.kind == "sHdr" || ev.kind == "sData" || ev.kind == "sEnd") && srvFrames == before {
				res.engine = fmt.Sprintf("%s: no HEADERS/DATA frame reached the raw client", ev.kind)
				return
			}
			maxStrikes = max(maxStrikes, strikes)
			_, closed := ep.closeInfo()
			res.timeline = append(res.timeline, fmt.Sprintf("t=%s %s -> %s enhance-your-calm-goaways=%d closed=%v streams=%d", c15Off(t0, time.Now()), ev, note, calm, closed, map[bool]int{false: 0, true: 1}[openID != 0]))

			// ---- oracle ----
			switch {
			case otherGA > 0:
				res.fail("unexpected-goaway", "after %s: the server sent a GOAWAY with an error code other than ENHANCE_YOUR_CALM to a well-formed client", ev)
			case calm > 0 && strikes < 3:
				if !everTooEarly {
					res.fail("goaway-to-compliant-client", "after %s: GOAWAY ENHANCE_YOUR_CALM (%q) although every pair of consecutive pings was at least the required gap apart", ev, calmDbg)
				} else {
					res.fail("goaway-before-third-strike", "after %s: GOAWAY ENHANCE_YOUR_CALM (%q) after only %d too-early ping(s) since the server last sent headers or data", ev, calmDbg, strikes)
				}
			case calm == 0 && strikes >= 3:
				res.fail("no-goaway-after-third-strike", "after %s: this is the third too-early ping not separated from the previous ones by server-sent headers or data, but no GOAWAY ENHANCE_YOUR_CALM was sent", ev)
			case calm > 1:
				res.fail("goaway-repeated", "after %s: %d GOAWAY ENHANCE_YOUR_CALM frames", ev, calm)
			case calm == 0 && closed:
				res.fail("closed-without-goaway", "after %s: the server closed the connection of a client that acknowledges every PING, without GOAWAY ENHANCE_YOUR_CALM", ev)
			}
			if calm > 0 {
				end = "goaway(" + calmDbg + ")"
				break
			}
			if len(res.fails) > nfail {
				break
			}
		}
		if litStrikes >= 3 && calm == 0 {
			res.stat("literal_third_too_early_ping_excused_by_preceding_server_frame", 1)
		}
		res.nontrivial = everTooEarly
		res.outcome = fmt.Sprintf("permit=%v end=%s max-strikes=%d strike-resets=%d ever-too-early=%v streams-opened=%d", cfg.permit, end, maxStrikes, min(resets, 2), everTooEarly, min(opens, 2))
		switch {
		case calm > 0 && opens > 0:
			res.sampleTag = "goaway-on-third-strike"
		case calm == 0 && resets > 0 && nPings >= 4:
			res.sampleTag = "strikes-reset-no-goaway"
		}
	})
	return res
}

func TestVerif_C15_Enforce(t *testing.T) {
	const P = "C15"
	r := vk.Start(t, "c15_enforce", "exploration", P)
	defer r.Finish()
	depth := r.Pick(7, 8)
	r.Rule(P, fmt.Sprintf("(c) server ping-policy enforcement: for MinTime=5s x PermitWithoutStream in {f,t}, every event history of length %d (oracle after every event; a history ends at GOAWAY) over {client PING sent d after the previous event for d in {MinTime-1ms, MinTime, MinTime+1ms, 2h-1ms, 2h} (the first ping of a connection, which has no predecessor, only after MinTime-1ms or 2h), client opens a stream (one at a time, <=%d), client RST_STREAM, server application sends headers / a data message / trailers (WriteStatus) on the open stream}; real http2Server against a scripted raw client that acknowledges the server's own PINGs, one synctest bubble per history; non-trivial = at least one pair of consecutive pings was closer than the gap required at that moment; distinct by (configuration, event list)", depth, c15EnfMaxOpens))
	r.Assume(P, "reference strike counter (from the statement): a ping is too early when it follows the previous ping by less than MinTime (a stream is open at the raw client, or PermitWithoutStream) resp. 2h (otherwise); server-sent HEADERS/DATA frames (seen on the wire) clear the count; GOAWAY ENHANCE_YOUR_CALM is required exactly at the third counted ping and forbidden before")
	r.Assume(P, "reading of 'separated by server-sent headers or data' (gRFC A8): a ping that directly follows server-sent headers/data is itself excused (it is separated from its predecessor), so it does not count as the first of the three; histories where the literal count reaches three without GOAWAY are reported in literal_third_too_early_ping_excused_by_preceding_server_frame")
	r.Assume(P, "the first ping of a connection has no predecessor and is never too early; non-ping events take no virtual time, so the gap between consecutive pings is exactly the chosen d")
	leg := c15Leg{name: "c15_enforce", ncfg: len(c15EnfCfgs),
		cfgDesc: func(i int) string { return c15EnfCfgs[i].String() },
		run: func(t *testing.T, cfg, depth int, choose func(step, n int) int) c15Res {
			return c15EnfRun(t, c15EnfCfgs[cfg], depth, choose)
		}}
	c15Explore(t, r, P, leg, depth, 2)
}
