//go:build verif

package transport

// C15 leg (b), engine E4 with exact virtual time: the same timeline alphabet
// as leg (a) against the SERVER's keepalive loop — a real http2Server
// (NewServerTransport + HandleStreams, ServerParameters{Time, Timeout}) against
// a scripted raw HTTP/2 client that either never answers PINGs on its own or
// acknowledges every PING at once. A server's keepalive is applicable from the
// moment the connection is established, so the bound of the statement is
// (last received byte + Time) + Timeout with zero slack.

import (
	"context"
	"errors"
	"fmt"
	"math"
	"sync"
	"testing"
	"testing/synctest"
	"time"

	"golang.org/x/net/http2"
	"google.golang.org/grpc/internal/verif/vk"
	"google.golang.org/grpc/internal/verif/wire"
	"google.golang.org/grpc/keepalive"
	"google.golang.org/grpc/mem"
)

type c15SrvCfg struct {
	timeout time.Duration
	autoAck bool
}

var c15SrvCfgs = []c15SrvCfg{
	{3 * time.Second, false}, {3 * time.Second, true},
	{10 * time.Second, false}, {10 * time.Second, true},
	{15 * time.Second, false}, {15 * time.Second, true},
}

const c15SrvMaxOpens = 3

func (c c15SrvCfg) String() string {
	return fmt.Sprintf("server Time=%v Timeout=%v client-acks-pings=%v", c15Time, c.timeout, c.autoAck)
}

var c15ReqHeaders = [][2]string{{":method", "POST"}, {":scheme", "http"}, {":path", "/s/m"}, {":authority", "x"}, {"content-type", "application/grpc"}, {"te", "trailers"}}

// c15StartServer builds a real server transport on one end of a pipe, served
// the way grpc.Server serves it, and the raw client on the other end.
func c15StartServer(res *c15Res, cfg *ServerConfig, autoAckPing bool) (st ServerTransport, peer *wire.Peer, ep, pr *c15Conn, handled func() []*ServerStream, stop func()) {
	t0 := time.Now()
	cconn, sconn := wire.Pipe()
	ep = &c15Conn{Conn: sconn, lastWrite: t0}
	pr = &c15Conn{Conn: cconn, lastWrite: t0}
	peer = wire.NewClientPeer(pr)
	peer.AutoAckSettings = true
	peer.AutoAckPing = autoAckPing
	peer.WriteSettings()
	cfg.MaxStreams = math.MaxUint32
	cfg.BufferPool = mem.DefaultBufferPool()
	cfg.StaticWindowSize = true
	st, err := NewServerTransport(ep, cfg)
	if err != nil || st == nil {
		res.engine = fmt.Sprintf("NewServerTransport: %v", err)
		peer.Close()
		return nil, nil, nil, nil, nil, nil
	}
	var (
		mu        sync.Mutex
		streams   []*ServerStream
		serveDone bool
	)
	go func() {
		st.HandleStreams(context.Background(), func(s *ServerStream) {
			mu.Lock()
			streams = append(streams, s)
			mu.Unlock()
		})
		st.Close(errors.New("finished serving streams for the server transport"))
		mu.Lock()
		serveDone = true
		mu.Unlock()
	}()
	handled = func() []*ServerStream {
		mu.Lock()
		defer mu.Unlock()
		return append([]*ServerStream(nil), streams...)
	}
	stop = func() {
		res.log = peer.LogString()
		st.Close(errors.New("verif: history finished"))
		peer.Close()
		synctest.Wait()
		mu.Lock()
		if !serveDone && res.engine == "" {
			res.engine = "HandleStreams did not return after the transport was closed"
		}
		mu.Unlock()
	}
	return st, peer, ep, pr, handled, stop
}

func c15SrvRun(t *testing.T, cfg c15SrvCfg, depth int, choose func(step, n int) int) (res c15Res) {
	synctest.Test(t, func(t *testing.T) {
		defer func() {
			if p := recover(); p != nil {
				res.fail("panic", "panic: %v", p)
			}
		}()
		t0 := time.Now()
		_, peer, ep, pr, handled, stop := c15StartServer(&res, &ServerConfig{
			KeepaliveParams: keepalive.ServerParameters{Time: c15Time, Timeout: cfg.timeout},
		}, cfg.autoAck)
		if res.engine != "" {
			return
		}
		defer stop()
		synctest.Wait()
		if time.Now() != t0 {
			res.engine = "virtual time moved during connection establishment"
			return
		}

		var (
			openID  uint32 // raw client's open stream (0: none)
			opens   int
			nBytes  int
			pings   int
			seen    int
			lastPng [8]byte
		)
		deltas := c15Deltas(cfg.timeout)
		scan := func() {
			lg := peer.Log()
			for ; seen < len(lg); seen++ {
				if f := lg[seen]; f.Type == "PING" && !f.Ack {
					pings++
					copy(lastPng[:], f.Data)
				}
			}
		}
		end := "open"
		lastAdv := time.Duration(0) // the previous event's advance (0: it was not an advance)
		for step := 0; step < depth; step++ {
			var evs []c15Ev
			for _, d := range deltas {
				if d >= lastAdv { // adjacent advances commute: only non-decreasing runs
					evs = append(evs, c15Ev{kind: "adv", d: d})
				}
			}
			if !cfg.autoAck {
				evs = append(evs, c15Ev{kind: "byte", what: "pingack"})
			}
			evs = append(evs, c15Ev{kind: "byte", what: "settings"})
			if openID == 0 && opens < c15SrvMaxOpens {
				evs = append(evs, c15Ev{kind: "byte", what: "headers"})
			}
			if openID != 0 {
				evs = append(evs, c15Ev{kind: "byte", what: "rst"})
			}
			ci := choose(step, len(evs))
			if ci < 0 {
				break
			}
			if ci >= len(evs) {
				res.nondet = fmt.Sprintf("step %d: choice %d but only %d applicable events", step, ci, len(evs))
				break
			}
			ev := evs[ci]
			res.events = append(res.events, ev.String())
			res.steps++
			nfail := len(res.fails)

			lastAdv = 0
			switch ev.kind {
			case "adv":
				lastAdv = ev.d
				time.Sleep(ev.d)
			case "byte":
				nBytes++
				switch ev.what {
				case "pingack":
					peer.WritePing(true, lastPng)
				case "settings":
					peer.WriteSettings()
				case "headers":
					opens++
					openID = uint32(2*opens - 1)
					peer.WriteHeaders(openID, c15ReqHeaders, false)
				case "rst":
					peer.WriteRST(openID, http2.ErrCodeCancel)
					openID = 0
				}
			}
			synctest.Wait()
			scan()
			if ev.what == "headers" && len(handled()) != opens {
				res.engine = fmt.Sprintf("stream %d was not handed to the handler", openID)
				return
			}

			// ---- oracle: the sentence, evaluated now ----
			now := time.Now()
			last, maxGap, _ := pr.writeInfo()
			closedAt, closed := ep.closeInfo()
			bound := last.Add(c15Time).Add(cfg.timeout) // applicable since establishment <= last byte
			obs := "open"
			if closed {
				obs = "closed at t=" + c15Off(t0, closedAt)
			}
			res.timeline = append(res.timeline, fmt.Sprintf("t=%s %s -> %s (deadline t=%s), last byte t=%s, pings=%d", c15Off(t0, now), ev, obs, c15Off(t0, bound), c15Off(t0, last), pings))
			if closed {
				switch {
				case closedAt.After(bound):
					end = "closed-late"
					res.fail("closed-after-deadline", "nothing was received after t=%s, so the server must close the connection by t=%s; it was closed at t=%s",
						c15Off(t0, last), c15Off(t0, bound), c15Off(t0, closedAt))
				case closedAt.Equal(bound):
					end = "closed-exactly-at-bound"
				default:
					end = "closed-before-bound"
				}
				if maxGap <= c15Time && closedAt.Sub(last) <= c15Time {
					res.fail("healthy-connection-closed", "the client sent some byte at least once every %v (largest gap %v, last byte at t=%s) but the server's keepalive closed the connection at t=%s",
						c15Time, maxGap, c15Off(t0, last), c15Off(t0, closedAt))
				}
				break
			}
			if !now.Before(bound) {
				res.fail("dead-peer-not-detected", "nothing was received after t=%s, so the server must close the connection by t=%s; at t=%s it is still open (keepalive PINGs sent: %d)",
					c15Off(t0, last), c15Off(t0, bound), c15Off(t0, now), pings)
			}
			if len(res.fails) > nfail {
				break
			}
		}
		res.nontrivial = pings > 0 || end != "open"
		res.outcome = fmt.Sprintf("client-acks=%v end=%s pings=%d bytes=%d", cfg.autoAck, end, min(pings, 3), min(nBytes, 2))
		switch {
		case end == "closed-exactly-at-bound" && nBytes > 0 && pings >= 2:
			res.sampleTag = "closed-exactly-at-bound"
		case end == "open" && pings >= 2 && cfg.autoAck:
			res.sampleTag = "kept-alive-by-acks"
		}
	})
	return res
}

func TestVerif_C15_Server(t *testing.T) {
	const P = "C15"
	r := vk.Start(t, "c15_server", "exploration", P)
	defer r.Finish()
	depth := r.Pick(6, 8)
	r.Rule(P, fmt.Sprintf("(b) server keepalive: for each of Time=10s x Timeout in {3s,10s,15s} x raw client acknowledges every PING at once in {f,t}, every event history of length %d (runs of consecutive advances only in non-decreasing order: adjacent advances commute, the pruned orders reach the same state and their intermediate instants are checked on kept prefixes; oracle after every event; a history ends when the server closes the connection) over {advance d for d in {1s, Time-1ms, Time, Time+1ms, Timeout-1ms, Timeout+1ms}, client sends a PING ack (only when it does not auto-ack), a SETTINGS frame, HEADERS opening a stream (<=%d), RST_STREAM closing it}; real http2Server (NewServerTransport + HandleStreams) against a scripted raw client, one synctest bubble per history, exact virtual time; non-trivial = the server sent at least one keepalive PING or closed the connection; distinct by (configuration, event list)", depth, c15SrvMaxOpens))
	r.Assume(P, "server: keepalive is applicable from connection establishment, so the bound is (last received byte + Time) + Timeout with zero slack; MaxConnectionIdle/Age are left at their defaults (infinite)")
	leg := c15Leg{name: "c15_server", ncfg: len(c15SrvCfgs),
		cfgDesc: func(i int) string { return c15SrvCfgs[i].String() },
		run: func(t *testing.T, cfg, depth int, choose func(step, n int) int) c15Res {
			return c15SrvRun(t, c15SrvCfgs[cfg], depth, choose)
		}}
	c15Explore(t, r, P, leg, depth, 2)
}
