//go:build verif

package transport

import (
	"context"
	"errors"
	"fmt"
	"net"
	"sync"
	"testing"
	"testing/synctest"
	"time"

	"golang.org/x/net/http2"
	"google.golang.org/grpc/internal/verif/vk"
	"google.golang.org/grpc/internal/verif/vsched"
	"google.golang.org/grpc/internal/verif/wire"
	"google.golang.org/grpc/keepalive"
	"google.golang.org/grpc/mem"
	"google.golang.org/grpc/resolver"
)

// c11KAWorld: a real (instrumented) http2Client with client keepalive enabled,
// connected to a raw server peer; reader, loopy and keepalive goroutines are
// background scheduled threads.
func c11KABuild(x *vsched.X, pre int, permitWithoutStream bool) (*c13World, error) {
	return c11KABuildPeer(x, pre, permitWithoutStream, true)
}

func c11KABuildPeer(x *vsched.X, pre int, permitWithoutStream, ackPings bool) (*c13World, error) {
	x.BackgroundSetup()
	cconn, sconn := wire.Pipe()
	peer := wire.NewServerPeer(sconn)
	peer.AutoAckSettings = true
	peer.AutoAckPing = ackPings
	peer.WriteSettings()
	ctx, cancel := context.WithCancel(context.Background())
	dial := func(context.Context, string) (net.Conn, error) { return cconn, nil }
	kp := keepalive.ClientParameters{Time: 10 * time.Second, Timeout: time.Second, PermitWithoutStream: permitWithoutStream}
	ct, err := NewHTTP2Client(ctx, ctx, resolver.Address{Addr: "x"}, ConnectOptions{Dialer: dial, BufferPool: mem.DefaultBufferPool(), StaticWindowSize: true, KeepaliveParams: kp}, func(GoAwayInfo) {})
	if err != nil {
		cancel()
		return nil, err
	}
	w := &c13World{tr: ct.(*http2Client), peer: peer, cancel: cancel}
	synctest.Wait()
	for i := 0; i < pre; i++ {
		s, err := w.tr.NewStream(ctx, &CallHdr{Host: "x", Method: "/s/m"}, nil)
		if err != nil {
			cancel()
			return nil, fmt.Errorf("pre-open %d: %v", i, err)
		}
		w.first = append(w.first, s)
		synctest.Wait()
	}
	return w, nil
}

// Keepalive tick racing transport teardown. how: "close" (application/channel
// closes the transport), "badgoaway" (server sends GOAWAY with an even
// last-stream-id: connection error, the reader tears the transport down),
// "eof" (server closes the connection).
func c11KACloseScenario(name string, pre int, permit bool, how string, bound int) vsched.Scenario {
	return vsched.Scenario{Name: name, Bound: bound, Horizon: 20000, MinOutcomes: 1, Body: func(x *vsched.X) {
		w, err := c11KABuild(x, pre, permit)
		if err != nil {
			x.Fail("C11", "setup", "set-up failed: %v", err)
			return
		}
		var mu sync.Mutex
		closeReturned, acted := false, false
		x.Go("clock", func() {
			// the keepalive timer (Time=10s after the last read) becomes due
			vsched.Advance(10 * time.Second)
		})
		x.Go("teardown", func() {
			vsched.Yield()
			switch how {
			case "close":
				w.tr.Close(errors.New("verif: channel closes the transport"))
				mu.Lock()
				closeReturned = true
				mu.Unlock()
			case "badgoaway":
				w.peer.WriteGoAway(2, http2.ErrCodeNo, nil)
			case "eof":
				w.peer.Close()
			}
			mu.Lock()
			acted = true
			mu.Unlock()
		})
		judged := false
		judge := func() bool {
			if judged {
				return false
			}
			mu.Lock()
			defer mu.Unlock()
			if !acted && how != "close" {
				return false
			}
			judged = true
			if how == "close" && !closeReturned {
				x.Fail("C11", "close-hangs", "http2Client.Close has not returned at quiescence (%s)", x.Stuck)
			}
			closed := func(c <-chan struct{}) bool {
				select {
				case <-c:
					return true
				default:
					return false
				}
			}
			if !closed(w.tr.keepaliveDone) {
				x.Fail("C11", "keepalive-goroutine-outlives-connection", "the connection was torn down (%s) but the keepalive goroutine has not exited at quiescence", how)
				x.Fail("C15", "keepalive-goroutine-outlives-connection", "the connection was torn down (%s) but the keepalive goroutine has not exited at quiescence", how)
			}
			if !closed(w.tr.readerDone) {
				x.Fail("C11", "reader-goroutine-outlives-connection", "the connection was torn down (%s) but the reader goroutine has not exited at quiescence", how)
			}
			for _, s := range w.first {
				if !closed(s.Done()) {
					x.Fail("C11", "rpc-without-status", "stream %d has no status at quiescence after the connection was torn down (%s)", s.id, how)
				}
			}
			return false
		}
		x.OnStuck(judge)
		x.Final(func(x *vsched.X) {
			for _, p := range x.Panics {
				x.Fail("C11", "panic", "%s", p)
			}
			judge()
			pings := 0
			for _, f := range w.peer.Log() {
				if f.Type == "PING" {
					pings++
				}
			}
			x.Outcome(fmt.Sprintf("pings=%d", pings))
		})
		x.Cleanup(func() {
			w.cancel()
			w.peer.Close()
			w.tr.Close(errors.New("verif: done"))
		})
	}}
}

// Keepalive dormancy racing stream creation against a peer that has gone
// silent (reads but never answers): the keepalive tick that finds no stream
// (about to go dormant) races a NewStream. Whatever the interleaving, once the
// stream is open keepalive is applicable, so the dead peer must be detected:
// after Time+Timeout (and a generous further Time+Timeout) of silence the
// transport must have closed itself and the stream must have a status.
func c15DormancyScenario(name string, nNew int, bound int) vsched.Scenario {
	return vsched.Scenario{Name: name, Bound: bound, Horizon: 20000, Body: func(x *vsched.X) {
		w, err := c11KABuildPeer(x, 0, false, false)
		if err != nil {
			x.Fail("C15", "setup", "set-up failed: %v", err)
			return
		}
		var mu sync.Mutex
		var streams []*ClientStream
		x.Go("clock", func() {
			vsched.Advance(10 * time.Second)
		})
		for i := 0; i < nNew; i++ {
			x.Go(fmt.Sprintf("new%d", i), func() {
				vsched.Yield()
				s, err := w.tr.NewStream(context.Background(), &CallHdr{Host: "x", Method: "/s/m"}, nil)
				if err == nil {
					mu.Lock()
					streams = append(streams, s)
					mu.Unlock()
				}
			})
		}
		x.Final(func(x *vsched.X) {
			for _, p := range x.Panics {
				x.Fail("C15", "panic", "%s", p)
			}
			mu.Lock()
			n := len(streams)
			mu.Unlock()
			if n < nNew {
				x.Fail("C15", "newstream-failed-or-hung", "only %d of %d NewStream calls succeeded on a live transport (%s)", n, nNew, x.Stuck)
				return
			}
			if n == 0 {
				x.Outcome("no-stream")
				return
			}
			// the peer stays silent: let 2x(Time+Timeout) of virtual time pass
			closedAfter := -1
			for i := 0; i < 4 && closedAfter < 0; i++ {
				if i%2 == 0 {
					time.Sleep(10 * time.Second)
				} else {
					time.Sleep(time.Second)
				}
				synctest.Wait()
				if w.tr.ctx.Err() != nil {
					closedAfter = i
				}
			}
			if closedAfter < 0 {
				w.tr.mu.Lock()
				dormant, active := w.tr.kpDormant, len(w.tr.activeStreams)
				w.tr.mu.Unlock()
				x.Fail("C15", "dead-peer-not-detected", "%d stream(s) open, peer silent for 22s with Time=10s Timeout=1s, transport still open (keepalive dormant=%v, active streams=%d, frames seen by peer: %s)", n, dormant, active, w.peer.LogString())
				x.Fail("C11", "dead-peer-not-detected", "%d stream(s) open, peer silent for 22s with Time=10s Timeout=1s, transport still open (keepalive dormant=%v)", n, dormant)
				return
			}
			for _, s := range streams {
				select {
				case <-s.Done():
				default:
					x.Fail("C15", "rpc-without-status-after-keepalive-close", "stream %d has no status after keepalive closed the transport", s.id)
				}
			}
			x.Outcome(fmt.Sprintf("closed-after-step=%d", closedAfter))
		})
		x.Cleanup(func() {
			w.cancel()
			w.peer.Close()
			w.tr.Close(errors.New("verif: done"))
		})
	}}
}

func TestVerif_C11_KeepaliveCloseSched(t *testing.T) {
	props := []string{"C11", "C15"}
	r := vk.Start(t, "c11_kaclose_sched", "exploration", props...)
	defer r.Finish()
	for _, p := range props {
		r.Rule(p, "every schedule with at most B preemptions (quick 1, thorough 2) of a real, fully instrumented http2Client with client keepalive enabled (reader, loopy and keepalive goroutines are scheduled threads) in which the keepalive timer becomes due (virtual clock step of Time) while the connection is torn down by Close, by a server GOAWAY with an illegal last-stream-id, or by the server closing the connection, with 0-1 open streams and PermitWithoutStream on/off; at quiescence Close has returned, the keepalive and reader goroutines have exited and every stream has a status; plus the keepalive tick that is about to go dormant (no stream) racing NewStream against a peer that never answers: once the stream is open the dead peer is detected (transport closed within 2x(Time+Timeout) of silence) whatever the interleaving; non-trivial = executions deviating from the default schedule")
		r.Assume(p, "scheduling points at sync/atomic/channel operations of internal/transport suffice; x/net/http2 framing and the in-memory pipe are not instrumented")
	}
	b := r.Pick(1, 2)
	var scs []vsched.Scenario
	for _, how := range []string{"close", "badgoaway", "eof"} {
		scs = append(scs, c11KACloseScenario("kaclose/"+how+"/pre1", 1, false, how, b))
	}
	scs = append(scs, c11KACloseScenario("kaclose/close/pre0", 0, false, "close", b), c11KACloseScenario("kaclose/close/pre0/permit", 0, true, "close", b))
	if r.Thorough() {
		scs = append(scs, c11KACloseScenario("kaclose/badgoaway/pre0", 0, false, "badgoaway", b), c11KACloseScenario("kaclose/close/pre1/permit", 1, true, "close", b))
	}
	scs = append(scs, c15DormancyScenario("kadormant/new1", 1, b+1))
	if r.Thorough() {
		scs = append(scs, c15DormancyScenario("kadormant/new2", 2, b))
	}
	vsched.RunScenarios(t, r, props, scs)
	for _, p := range props {
		r.Sample(p, map[string]any{"scenario": "kaclose/close/pre1", "threads": []string{"clock: virtual time +10s (keepalive timer due)", "teardown: http2Client.Close", "background: reader, loopy, keepalive"}})
	}
}
