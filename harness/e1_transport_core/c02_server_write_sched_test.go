//go:build verif

package transport

import (
	"bytes"
	"context"
	"errors"
	"fmt"
	"math"
	"sync"
	"testing"
	"testing/synctest"
	"time"

	"google.golang.org/grpc/codes"
	"google.golang.org/grpc/internal/verif/vk"
	"google.golang.org/grpc/internal/verif/vsched"
	"google.golang.org/grpc/internal/verif/wire"
	"google.golang.org/grpc/mem"
	"google.golang.org/grpc/metadata"
	"google.golang.org/grpc/status"
)

// Response path of a real, fully instrumented http2Server: the handler's
// SendHeader / Write / WriteStatus race the stream's deadline timer (which
// resets the stream) and, optionally, a client RST_STREAM. The raw client
// peer's frame log is the oracle.
//
// ops: any of "H" (SendHeader), "W" (Write of one message), "S" (WriteStatus OK)
func c02ServerWriteScenario(name, ops string, clientRST bool, bound int) vsched.Scenario {
	return vsched.Scenario{Name: name, Bound: bound, Horizon: 20000, Body: func(x *vsched.X) {
		x.BackgroundSetup()
		cconn, sconn := wire.Pipe()
		peer := wire.NewClientPeer(cconn)
		peer.AutoAckSettings = true
		peer.WriteSettings()
		st, err := NewServerTransport(sconn, &ServerConfig{MaxStreams: math.MaxUint32, BufferPool: mem.DefaultBufferPool(), StaticWindowSize: true})
		if err != nil {
			x.Fail("C02", "setup", "NewServerTransport: %v", err)
			return
		}
		var mu sync.Mutex
		var stream *ServerStream
		vsched.GoNamed("serve", func() {
			st.HandleStreams(context.Background(), func(s *ServerStream) {
				mu.Lock()
				stream = s
				mu.Unlock()
			})
			st.Close(errors.New("finished serving"))
		})
		synctest.Wait()
		hdr := append(append([][2]string{}, c14sHdr...), [2]string{"grpc-timeout", "1S"})
		peer.WriteHeaders(1, hdr, false)
		synctest.Wait()
		mu.Lock()
		s := stream
		mu.Unlock()
		if s == nil {
			x.Fail("C02", "setup", "stream 1 did not reach the handler (%s)", peer.LogString())
			return
		}
		payload := []byte("response-payload")
		var accepted [][]byte
		var statusErr error
		statusDone := false
		x.Go("handler", func() {
			for _, op := range ops {
				vsched.Yield()
				switch op {
				case 'H':
					s.SendHeader(metadata.Pairs("k", "v"))
				case 'W':
					h := []byte{0, 0, 0, 0, byte(len(payload))}
					if err := s.Write(h, mem.BufferSlice{mem.SliceBuffer(payload)}, &WriteOptions{}); err == nil {
						mu.Lock()
						accepted = append(accepted, append(append([]byte{}, h...), payload...))
						mu.Unlock()
					}
				case 'S':
					err := s.WriteStatus(status.New(codes.OK, ""))
					mu.Lock()
					statusErr, statusDone = err, true
					mu.Unlock()
				}
			}
		})
		x.Go("clock", func() {
			// the stream's deadline (grpc-timeout 1S) passes: the transport's timer resets the stream
			vsched.Advance(time.Second)
		})
		if clientRST {
			x.Go("client-rst", func() {
				vsched.Yield()
				peer.WriteRST(1, 8)
			})
		}
		x.Final(func(x *vsched.X) {
			for _, p := range x.Panics {
				x.Fail("C02", "panic", "%s", p)
			}
			if x.Stuck != "" {
				x.Fail("C02", "handler-stuck", "%s", x.Stuck)
			}
			mu.Lock()
			defer mu.Unlock()
			var data []byte
			hdrSeen, trailers, rst := false, false, false
			for _, f := range peer.Log() {
				if f.Stream != 1 {
					continue
				}
				switch f.Type {
				case "RST_STREAM":
					rst = true
					continue
				case "WINDOW_UPDATE":
					continue
				}
				if rst {
					x.Fail("C02", "server/frame-after-rst", "%s for stream 1 written after its RST_STREAM (%s)", f.Type, peer.LogString())
				}
				if trailers {
					x.Fail("C02", "server/frame-after-trailers", "%s for stream 1 written after its trailers (%s)", f.Type, peer.LogString())
				}
				switch f.Type {
				case "HEADERS":
					if f.EndStream {
						trailers = true
					} else if hdrSeen {
						x.Fail("C02", "server/second-response-headers", "two response HEADERS frames without END_STREAM (%s)", peer.LogString())
					} else {
						hdrSeen = true
					}
				case "DATA":
					if !hdrSeen {
						x.Fail("C02", "server/data-before-headers", "DATA before the response HEADERS (%s)", peer.LogString())
					}
					if f.EndStream {
						x.Fail("C02", "server/end-stream-on-data", "server DATA frame carries END_STREAM (%s)", peer.LogString())
					}
					data = append(data, f.Data...)
				}
			}
			want := bytes.Join(accepted, nil)
			if !bytes.HasPrefix(want, data) {
				x.Fail("C02", "server/stream-bytes-differ", "client received %q, not a prefix of the accepted writes %q", data, want)
			}
			if trailers && len(data) != len(want) {
				x.Fail("C02", "server/trailers-before-data", "trailers written after %d of %d accepted DATA bytes (%s)", len(data), len(want), peer.LogString())
			}
			// the deadline has passed and the handler is done: the stream must be finished on the wire
			if !trailers && !rst && !clientRST { // a stream the client reset needs no answer
				x.Fail("C22", "server/stream-not-terminated-after-deadline", "deadline passed and handler finished (status written=%v err=%v) but neither trailers nor RST_STREAM were sent (%s)", statusDone, statusErr, peer.LogString())
			}
			x.Outcome(fmt.Sprintf("hdr=%v data=%d trailers=%v rst=%v", hdrSeen, len(data), trailers, rst))
		})
		x.Cleanup(func() {
			st.Close(errors.New("verif: done"))
			peer.Close()
		})
	}}
}

func TestVerif_C02_ServerWriteSched(t *testing.T) {
	props := []string{"C02", "C22"}
	r := vk.Start(t, "c02_server_write_sched", "exploration", props...)
	defer r.Finish()
	for _, p := range props {
		r.Rule(p, "every schedule with at most B preemptions (quick 2, thorough 3) of a real, fully instrumented http2Server (handler, loopy, connection reader and the stream's deadline timer callback are scheduled threads; the clock is an explicit step) in which the handler's SendHeader / Write / WriteStatus race the deadline timer's stream reset and optionally a client RST_STREAM: on the wire no HEADERS/DATA of the stream follows its RST_STREAM, nothing but RST_STREAM follows its trailers, DATA only after response HEADERS, bytes are a prefix of the accepted writes, trailers after all accepted DATA (C02); once the deadline has passed the stream is terminated on the wire (C22); a second RST_STREAM after the first is left to the loopy-level leg; non-trivial = executions deviating from the default schedule")
		r.Assume(p, "scheduling points at sync/atomic/channel operations of internal/transport suffice; x/net/http2 framing and the in-memory pipe are not instrumented")
	}
	b := r.Pick(2, 3)
	scs := []vsched.Scenario{
		c02ServerWriteScenario("srvwrite/H/deadline", "H", false, b),
		c02ServerWriteScenario("srvwrite/S/deadline", "S", false, b),
		c02ServerWriteScenario("srvwrite/WS/deadline", "WS", false, b),
		c02ServerWriteScenario("srvwrite/HWS/deadline", "HWS", false, b-1),
		c02ServerWriteScenario("srvwrite/WS/deadline+client-rst", "WS", true, b-1),
	}
	vsched.RunScenarios(t, r, props, scs)
	for _, p := range props {
		r.Sample(p, map[string]any{"scenario": "srvwrite/WS/deadline", "threads": []string{"handler: Write, WriteStatus", "clock: +1s (deadline timer fires: closeStream with RST)", "background: serve (reader), loopy, timer callback"}})
	}
}
