//go:build verif

package transport

import (
	"bytes"
	"context"
	"errors"
	"fmt"
	"net"
	"sync"
	"testing"
	"testing/synctest"

	"golang.org/x/net/http2"
	"google.golang.org/grpc/internal/verif/vk"
	"google.golang.org/grpc/internal/verif/vsched"
	"google.golang.org/grpc/internal/verif/wire"
	"google.golang.org/grpc/mem"
	"google.golang.org/grpc/resolver"
)

// Outbound data path of a real, fully instrumented http2Client (application
// writers, loopy and the connection reader are scheduled threads) against a
// raw server peer that hands out flow-control credit in small steps.

type c01Credit struct {
	at     int    // number of frames the peer had received when the credit was sent
	stream uint32 // 0 = connection, ^0 = every stream (INITIAL_WINDOW_SIZE raise)
	n      int
}

type c01Write struct {
	payload []byte
	last    bool
	ok      bool
	done    bool
}

func c01Payload(stream, k, n int) []byte {
	b := make([]byte, n)
	for i := range b {
		b[i] = byte('a' + (stream*7+k*3+i)%26)
	}
	return b
}

// sizes[s] = payload sizes of the messages written on stream s (the last one
// carries END_STREAM); iws = the peer's SETTINGS_INITIAL_WINDOW_SIZE; grants =
// the credit steps the server thread sends, in order.
func c01DataScenario(name string, iws uint32, sizes [][]int, grants []c01Credit, bound int) vsched.Scenario {
	return vsched.Scenario{Name: name, Bound: bound, Horizon: 40000, Body: func(x *vsched.X) {
		x.BackgroundSetup()
		cconn, sconn := wire.Pipe()
		peer := wire.NewServerPeer(sconn)
		peer.AutoAckSettings = true
		peer.AutoAckPing = true
		peer.WriteSettings(http2.Setting{ID: http2.SettingInitialWindowSize, Val: iws})
		ctx, cancel := context.WithCancel(context.Background())
		dial := func(context.Context, string) (net.Conn, error) { return cconn, nil }
		ct, err := NewHTTP2Client(ctx, ctx, resolver.Address{Addr: "x"}, ConnectOptions{Dialer: dial, BufferPool: mem.DefaultBufferPool(), StaticWindowSize: true}, func(GoAwayInfo) {})
		if err != nil {
			cancel()
			x.Fail("C01", "setup", "set-up failed: %v", err)
			return
		}
		tr := ct.(*http2Client)
		synctest.Wait()
		var streams []*ClientStream
		for range sizes {
			s, err := tr.NewStream(ctx, &CallHdr{Host: "x", Method: "/s/m"}, nil)
			if err != nil {
				cancel()
				x.Fail("C01", "setup", "NewStream: %v", err)
				return
			}
			streams = append(streams, s)
			synctest.Wait()
		}
		var mu sync.Mutex
		writes := make([][]*c01Write, len(sizes))
		var credits []c01Credit
		for si := range sizes {
			si := si
			for k, n := range sizes[si] {
				writes[si] = append(writes[si], &c01Write{payload: c01Payload(si, k, n), last: k == len(sizes[si])-1})
			}
			x.Go(fmt.Sprintf("writer%d", si), func() {
				for _, w := range writes[si] {
					hdr := []byte{0, 0, 0, 0, byte(len(w.payload))}
					err := streams[si].Write(hdr, mem.BufferSlice{mem.SliceBuffer(w.payload)}, &WriteOptions{Last: w.last})
					mu.Lock()
					w.done, w.ok = true, err == nil
					mu.Unlock()
					if err != nil {
						return
					}
				}
			})
		}
		x.Go("server-credit", func() {
			for _, g := range grants {
				vsched.Yield()
				mu.Lock()
				g.at = len(peer.Log())
				if g.stream != 0 && g.stream != ^uint32(0) {
					g.stream = streams[g.stream-1].id
				}
				credits = append(credits, g)
				mu.Unlock()
				switch g.stream {
				case ^uint32(0):
					peer.WriteSettings(http2.Setting{ID: http2.SettingInitialWindowSize, Val: iws + uint32(g.n)})
				default:
					peer.WriteWindowUpdate(g.stream, uint32(g.n))
				}
			}
		})
		x.Final(func(x *vsched.X) {
			for _, p := range x.Panics {
				x.Fail("C01", "panic", "%s", p)
			}
			if x.Stuck != "" {
				x.Fail("C03", "writer-stuck", "an application writer is still blocked at quiescence: %s", x.Stuck)
			}
			mu.Lock()
			defer mu.Unlock()
			log := peer.Log()
			got := map[uint32][]byte{}
			ended := map[uint32]bool{}
			connUsed := 0
			for i, f := range log {
				if f.Type != "DATA" {
					continue
				}
				if ended[f.Stream] {
					x.Fail("C02", "data-after-end-stream", "DATA on stream %d after END_STREAM (%s)", f.Stream, peer.LogString())
				}
				got[f.Stream] = append(got[f.Stream], f.Data...)
				connUsed += f.Len
				if f.EndStream {
					ended[f.Stream] = true
				}
				// credit the peer had handed out before it received frame i
				sw, cw := int(iws), 65535
				for _, c := range credits {
					if c.at > i {
						continue
					}
					switch c.stream {
					case 0:
						cw += c.n
					case ^uint32(0), f.Stream:
						sw += c.n
					}
				}
				if len(got[f.Stream]) > sw {
					x.Fail("C01", "stream-window-exceeded", "stream %d: %d bytes of DATA received when the peer had granted only %d (%s)", f.Stream, len(got[f.Stream]), sw, peer.LogString())
				}
				if connUsed > cw {
					x.Fail("C01", "connection-window-exceeded", "%d bytes of DATA received when the peer had granted only %d on the connection", connUsed, cw)
				}
			}
			outcome := ""
			for si, s := range streams {
				var want []byte
				all, last := true, false
				for _, w := range writes[si] {
					if !w.done || !w.ok {
						all = false
						break
					}
					want = append(want, 0, 0, 0, 0, byte(len(w.payload)))
					want = append(want, w.payload...)
					last = w.last
				}
				g := got[s.id]
				if !bytes.HasPrefix(want, g) {
					x.Fail("C02", "stream-bytes-differ", "stream %d: the peer received %q, which is not a prefix of the accepted writes %q", s.id, g, want)
				}
				// total credit ever granted to this stream / the connection
				sw := int(iws)
				for _, c := range credits {
					if c.stream == s.id || c.stream == ^uint32(0) {
						sw += c.n
					}
				}
				if all && x.Stuck == "" {
					need := len(want)
					if sw >= need && len(g) < need {
						x.Fail("C03", "data-not-written-despite-credit", "stream %d: %d of %d accepted bytes on the wire at quiescence although the peer granted %d (%s)", s.id, len(g), need, sw, peer.LogString())
					}
					if sw < need && len(g) < sw {
						x.Fail("C03", "credit-not-used", "stream %d: only %d bytes on the wire at quiescence although the peer granted %d and %d are queued (%s)", s.id, len(g), sw, need, peer.LogString())
					}
					if last && len(g) == need && !ended[s.id] {
						x.Fail("C02", "end-stream-missing", "stream %d: all %d bytes delivered but END_STREAM never sent (%s)", s.id, need, peer.LogString())
					}
				}
				if ended[s.id] && len(g) != len(want) {
					x.Fail("C02", "end-stream-early", "stream %d: END_STREAM after %d of %d bytes", s.id, len(g), len(want))
				}
				outcome += fmt.Sprintf("s%d=%d/%v ", si, len(g), ended[s.id])
			}
			x.Outcome(outcome)
		})
		x.Cleanup(func() {
			tr.Close(errors.New("verif: done"))
			cancel()
			peer.Close()
		})
	}}
}

func TestVerif_C01_DataSched(t *testing.T) {
	props := []string{"C01", "C02", "C03"}
	r := vk.Start(t, "c01_data_sched", "exploration", props...)
	defer r.Finish()
	for _, p := range props {
		r.Rule(p, "every schedule with at most B preemptions (quick 1, thorough 2) of a real, fully instrumented http2Client (application writers, loopy and the connection reader are scheduled threads) writing 1-2 messages on 1-2 streams into a stream window of 8-12 bytes while the raw server peer hands out stream credit (WINDOW_UPDATE, INITIAL_WINDOW_SIZE raise) in steps: every DATA frame fits the credit the peer had sent before receiving it (C01), per-stream bytes are a prefix of the accepted writes in order with END_STREAM exactly at the end (C02), and at quiescence no stream holds queued data while it has credit (C03); non-trivial = executions deviating from the default schedule")
		r.Assume(p, "scheduling points at sync/atomic/channel operations of internal/transport suffice; x/net/http2 framing and the in-memory pipe are not instrumented")
	}
	b := r.Pick(1, 2)
	all := ^uint32(0)
	scs := []vsched.Scenario{
		c01DataScenario("data/iws8/1x2msg/wu", 8, [][]int{{6, 9}}, []c01Credit{{stream: 1, n: 7}, {stream: 1, n: 30}}, b+1),
		c01DataScenario("data/iws8/2x1msg/wu", 8, [][]int{{10}, {4}}, []c01Credit{{stream: 1, n: 20}, {stream: 2, n: 20}}, b),
		c01DataScenario("data/iws8/2x1msg/settings-raise", 8, [][]int{{10}, {12}}, []c01Credit{{stream: all, n: 5}, {stream: all, n: 30}}, b),
		c01DataScenario("data/iws12/1x1msg/short-credit", 12, [][]int{{20}}, []c01Credit{{stream: 1, n: 3}}, b+1),
		c01DataScenario("data/iws8/1x1msg/one-byte-credit", 8, [][]int{{10}}, []c01Credit{{stream: 1, n: 1}}, b+1),
		c01DataScenario("data/iws8/2x1msg/one-byte-settings-raise", 8, [][]int{{10}, {10}}, []c01Credit{{stream: all, n: 1}}, b),
	}
	if r.Thorough() {
		scs = append(scs, c01DataScenario("data/iws8/2x2msg/mixed", 8, [][]int{{6, 9}, {3, 3}}, []c01Credit{{stream: 1, n: 10}, {stream: all, n: 10}, {stream: 2, n: 10}, {stream: 1, n: 30}}, 1))
	}
	vsched.RunScenarios(t, r, props, scs)
	for _, p := range props {
		r.Sample(p, map[string]any{"scenario": "data/iws8/2x1msg/wu", "threads": []string{"writer0, writer1: ClientStream.Write", "server-credit: WINDOW_UPDATE steps", "background: loopy, reader"}})
	}
}
