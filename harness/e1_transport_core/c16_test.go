//go:build verif

package transport

import (
	"fmt"
	"sync"
	"testing"

	"google.golang.org/grpc/internal/verif/vk"
	"google.golang.org/grpc/internal/verif/vsched"
)

// c16Dump reads the control buffer's private throttle state (harness runs in a
// single step, nobody holds c.mu at scheduling points where this is called from
// Final).
func c16Dump(c *controlBuffer) (count int, chanSet bool, closed bool) {
	c.mu.Lock()
	defer c.mu.Unlock()
	return c.transportResponseFrames, c.trfChan.Load() != nil, c.closed
}

// Scenario A: the reader (throttle; put throttled item) x nPut races the
// consumer (get(true) x nGet). Lost wake-ups show up as a stuck terminal state:
// the reader parked in throttle although fewer than `limit` throttled items are
// queued (or the consumer parked in get although an item is queued).
func c16ThrottleScenario(limit, nPut, nGet, bound int, closeDone bool) vsched.Scenario {
	name := fmt.Sprintf("throttle/limit%d/put%d/get%d/done=%v", limit, nPut, nGet, closeDone)
	return vsched.Scenario{Name: name, Bound: bound, Body: func(x *vsched.X) {
		maxQueuedControlBufferItems = limit
		done := make(chan struct{})
		c := newControlBuffer(done)
		var mu sync.Mutex
		put, got := 0, 0
		readerDone, consumerDone := false, false
		var putErr error
		x.Go("reader", func() {
			for i := 0; i < nPut; i++ {
				c.throttle()
				if err := c.put(&incomingSettings{}); err != nil {
					mu.Lock()
					putErr = err
					mu.Unlock()
					break
				}
				mu.Lock()
				put++
				mu.Unlock()
			}
			mu.Lock()
			readerDone = true
			mu.Unlock()
		})
		x.Go("consumer", func() {
			for i := 0; i < nGet; i++ {
				it, err := c.get(true)
				if err != nil {
					break
				}
				if it != nil {
					mu.Lock()
					got++
					mu.Unlock()
				}
			}
			mu.Lock()
			consumerDone = true
			mu.Unlock()
		})
		if closeDone {
			x.Go("closer", func() {
				vsched.Yield()
				close(done)
			})
		}
		x.Final(func(x *vsched.X) {
			for _, p := range x.Panics {
				x.Fail("C16", "panic", "%s", p)
			}
			count, chanSet, _ := c16Dump(c)
			mu.Lock()
			defer mu.Unlock()
			if x.Stuck != "" {
				// legitimate terminal blocking: consumer waiting on an empty
				// buffer with the reader finished, or reader throttled with the
				// consumer finished and >= limit items queued.
				switch {
				case !readerDone && count < limit:
					x.Fail("C16", "reader-throttled-below-limit", "reader is blocked in throttle with only %d (< limit %d) peer-triggered frames queued: %s", count, limit, x.Stuck)
				case !readerDone && closeDone:
					x.Fail("C16", "reader-throttled-after-close", "reader still throttled although the connection's done channel is closed: %s", x.Stuck)
				case !consumerDone && put-got > 0:
					x.Fail("C16", "consumer-lost-wakeup", "consumer blocked in get with %d items queued: %s", put-got, x.Stuck)
				case !consumerDone && closeDone:
					x.Fail("C16", "consumer-blocked-after-close", "consumer blocked in get although done is closed: %s", x.Stuck)
				}
			}
			if chanSet != (count >= limit) {
				x.Fail("C16", "throttle-channel-inconsistent", "throttle channel present=%v but %d frames queued (limit %d)", chanSet, count, limit)
			}
			if count != put-got {
				x.Fail("C16", "throttle-count-wrong", "transportResponseFrames=%d but %d put - %d got", count, put, got)
			}
			x.Outcome(fmt.Sprintf("put=%d got=%d stuck=%v err=%v", put, got, x.Stuck != "", putErr != nil))
		})
		x.Cleanup(func() {
			if !closeDone {
				close(done)
			}
			c.finish()
		})
	}}
}

// Scenario B: finish() races producers of stream-creation requests, a throttled
// reader and the consumer. Every clientHeaders must end in exactly one of:
// consumed by get, orphaned (onOrphaned called once), rejected with
// ErrConnClosing. After finish returned nothing is accepted.
func c16FinishScenario(limit, bound int) vsched.Scenario {
	name := fmt.Sprintf("finish/limit%d", limit)
	return vsched.Scenario{Name: name, Bound: bound, MinOutcomes: 2, Body: func(x *vsched.X) {
		maxQueuedControlBufferItems = limit
		done := make(chan struct{})
		c := newControlBuffer(done)
		var mu sync.Mutex
		orphaned := map[uint32]int{}
		rejected := map[uint32]bool{}
		consumed := map[uint32]bool{}
		acceptedAfterFinish := ""
		finished := false
		mkHdr := func(id uint32) *clientHeaders {
			return &clientHeaders{streamID: id, onOrphaned: func(error) {
				mu.Lock()
				orphaned[id]++
				mu.Unlock()
			}}
		}
		for p := 0; p < 2; p++ {
			id := uint32(2*p + 1)
			x.Go(fmt.Sprintf("newstream%d", id), func() {
				mu.Lock()
				wasFinished := finished
				mu.Unlock()
				ok, err := c.executeAndPut(func() bool { return true }, mkHdr(id))
				mu.Lock()
				if err != nil || !ok {
					rejected[id] = true
				} else if wasFinished {
					acceptedAfterFinish = fmt.Sprintf("stream %d accepted after finish() returned", id)
				}
				mu.Unlock()
			})
		}
		x.Go("reader", func() {
			for i := 0; i < limit+1; i++ {
				c.throttle()
				if c.put(&incomingSettings{}) != nil {
					return
				}
			}
		})
		x.Go("consumer", func() {
			it, err := c.get(true)
			if err == nil {
				if h, ok := it.(*clientHeaders); ok {
					mu.Lock()
					consumed[h.streamID] = true
					mu.Unlock()
				}
			}
		})
		x.Go("finish", func() {
			vsched.Yield()
			c.finish()
			mu.Lock()
			finished = true
			mu.Unlock()
			// as http2Client.Close / http2Server.Close do: the transport's done
			// channel is closed right after the control buffer is finished
			vsched.Yield()
			close(done)
		})
		x.Final(func(x *vsched.X) {
			for _, p := range x.Panics {
				x.Fail("C16", "panic", "%s", p)
			}
			if x.Stuck != "" {
				x.Fail("C16", "stuck-after-finish", "threads remain blocked although the control buffer was finished: %s", x.Stuck)
			}
			mu.Lock()
			defer mu.Unlock()
			if acceptedAfterFinish != "" {
				x.Fail("C16", "accepted-after-close", "%s", acceptedAfterFinish)
			}
			for _, id := range []uint32{1, 3} {
				n := orphaned[id]
				if rejected[id] {
					n++
				}
				if consumed[id] {
					n++
				}
				if n != 1 {
					x.Fail("C16", "stream-request-not-failed-exactly-once", "stream %d: orphaned=%d rejected=%v consumed=%v (must be exactly one)", id, orphaned[id], rejected[id], consumed[id])
				}
			}
			_, chanSet, closed := c16Dump(c)
			if !closed || chanSet {
				x.Fail("C16", "finish-state", "after finish: closed=%v throttle channel present=%v", closed, chanSet)
			}
			x.Outcome(fmt.Sprintf("orphaned=%d rejected=%d consumed=%d", len(orphaned), len(rejected), len(consumed)))
		})
		x.Cleanup(func() { c.finish() })
	}}
}

func TestVerif_C16_ControlBuf(t *testing.T) {
	const P = "C16"
	r := vk.Start(t, "c16_controlbuf", "exploration", P)
	defer r.Finish()
	saved := maxQueuedControlBufferItems
	defer func() { maxQueuedControlBufferItems = saved }()
	r.Rule(P, "every schedule with at most B preemptions (quick 2, thorough 3) of the instrumented real controlBuffer with throttle limit 1 and 2: reader (throttle; put) x3 vs consumer get x2-3 (+ done close), and finish() racing two stream-creation requests, a throttled reader and the consumer; terminal/stuck states are classified by an in-package dump of the throttle count/channel; non-trivial = executions deviating from the default schedule")
	r.Assume(P, "scheduling points at sync/atomic/channel operations suffice")
	b := r.Pick(2, 3)
	scs := []vsched.Scenario{
		c16ThrottleScenario(1, 3, 3, b, false),
		c16ThrottleScenario(2, 3, 2, b, false),
		c16ThrottleScenario(1, 3, 1, b, true),
		c16FinishScenario(1, b),
	}
	if r.Thorough() {
		scs = append(scs, c16ThrottleScenario(2, 4, 4, b, false), c16FinishScenario(2, b))
	}
	vsched.RunScenarios(t, r, []string{P}, scs)
	r.Sample(P, map[string]any{"scenario": "throttle/limit1/put3/get3", "threads": []string{"reader: (throttle; put(incomingSettings)) x3", "consumer: get(true) x3"}})
	r.Sample(P, map[string]any{"scenario": "finish/limit1", "threads": []string{"newstream1, newstream3: executeAndPut(clientHeaders with counting onOrphaned)", "reader: throttle/put x2", "consumer: get(true)", "finish: finish()"}})
}
