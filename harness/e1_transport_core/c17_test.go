//go:build verif

package transport

import (
	"fmt"
	"sync"
	"sync/atomic"
	"testing"

	"google.golang.org/grpc/internal/verif/vk"
	"google.golang.org/grpc/internal/verif/vsched"
)

// The writer asks for quota for each message and hands the message to "loopy";
// loopy replenishes the quota after "writing" each message. Optionally the
// stream ends (done closed) concurrently.
func c17Scenario(initial int32, sizes []int32, closeDone bool, bound int) vsched.Scenario {
	name := fmt.Sprintf("writequota/init%d/sizes%v/done=%v", initial, sizes, closeDone)
	return vsched.Scenario{Name: name, Bound: bound, Body: func(x *vsched.X) {
		done := make(chan struct{})
		wq := &writeQuota{}
		wq.init(initial, done)
		var mu sync.Mutex
		var queued []int32 // messages handed to loopy, not yet written
		written, granted := 0, 0
		var writerErr error
		writerDone := false
		x.Go("writer", func() {
			for _, sz := range sizes {
				if err := wq.get(sz); err != nil {
					mu.Lock()
					writerErr = err
					mu.Unlock()
					break
				}
				mu.Lock()
				granted++
				queued = append(queued, sz)
				mu.Unlock()
			}
			mu.Lock()
			writerDone = true
			mu.Unlock()
		})
		x.Go("loopy", func() {
			for i := 0; i < len(sizes); i++ {
				// wait (visibly) until message i has been queued or the writer gave up
				vsched.Point(vsched.Op{Kind: vsched.OpUser, Enabled: func() bool {
					mu.Lock()
					defer mu.Unlock()
					return len(queued) > 0 || writerDone
				}})
				mu.Lock()
				if len(queued) == 0 {
					mu.Unlock()
					return
				}
				sz := queued[0]
				queued = queued[1:]
				mu.Unlock()
				wq.replenish(int(sz))
				mu.Lock()
				written++
				mu.Unlock()
			}
		})
		var closed atomic.Bool
		if closeDone {
			x.Go("streamEnd", func() {
				vsched.Yield()
				closed.Store(true)
				close(done)
			})
		}
		x.Final(func(x *vsched.X) {
			for _, p := range x.Panics {
				x.Fail("C17", "panic", "%s", p)
			}
			mu.Lock()
			defer mu.Unlock()
			q := atomic.LoadInt32(&wq.quota)
			if x.Stuck != "" {
				if !writerDone {
					x.Fail("C17", "writer-not-woken", "writer blocked in get with quota=%d, %d/%d messages written, stream ended=%v: %s", q, written, granted, closed.Load(), x.Stuck)
				} else {
					x.Fail("C17", "deadlock", "%s", x.Stuck)
				}
			}
			if writerErr != nil && !closed.Load() {
				x.Fail("C17", "spurious-stream-done", "get returned %v although the stream has not ended", writerErr)
			}
			if x.Stuck == "" && written == granted && q != initial {
				x.Fail("C17", "quota-not-restored", "all %d granted messages were written back but quota=%d, initial %d", granted, q, initial)
			}
			x.Outcome(fmt.Sprintf("granted=%d written=%d err=%v", granted, written, writerErr != nil))
		})
		x.Cleanup(func() {
			if !closeDone {
				close(done)
			}
		})
	}}
}

func TestVerif_C17_WriteQuota(t *testing.T) {
	const P = "C17"
	r := vk.Start(t, "c17_writequota", "exploration", P)
	defer r.Finish()
	r.Rule(P, "every schedule with at most B preemptions (quick 3, thorough 4) of the instrumented real writeQuota: writer get(sz) per message with sizes {1, quota, 2*quota} in several orders, loopy replenish(sz) after each message is handed over, optional concurrent stream end (done closed); oracle: no terminal state with the writer parked, errStreamDone only after the stream ended, quota back to its initial value after everything granted was written; non-trivial = executions deviating from the default schedule")
	r.Assume(P, "one sender per stream (the gRPC API forbids concurrent SendMsg on a stream)")
	r.Assume(P, "the NewStream-waits-for-stream-quota clause of C17 is covered by C13's harness, not here")
	b := r.Pick(3, 4)
	scs := []vsched.Scenario{
		c17Scenario(10, []int32{10, 10, 5}, false, b),
		c17Scenario(10, []int32{20, 1, 10}, false, b),
		c17Scenario(10, []int32{1, 20, 20}, false, b),
		c17Scenario(10, []int32{10, 10}, true, b),
		c17Scenario(10, []int32{20, 20}, true, b),
	}
	vsched.RunScenarios(t, r, []string{P}, scs)
	r.Sample(P, map[string]any{"scenario": "writequota/init10/sizes[10 10 5]", "threads": []string{"writer: get(10); get(10); get(5)", "loopy: replenish(sz) after each message was handed over"}})
}
