//go:build verif

package transport

import (
	"context"
	"errors"
	"fmt"
	"math"
	"sync"
	"testing"
	"testing/synctest"

	"google.golang.org/grpc/codes"
	"google.golang.org/grpc/internal/verif/vk"
	"google.golang.org/grpc/internal/verif/vsched"
	"google.golang.org/grpc/internal/verif/wire"
	"google.golang.org/grpc/mem"
	"google.golang.org/grpc/status"
)

var c14sHdr = [][2]string{{":method", "POST"}, {":scheme", "http"}, {":path", "/s/m"}, {":authority", "x"}, {"content-type", "application/grpc"}, {"te", "trailers"}}

// Graceful drain of a real, fully instrumented http2Server racing new client
// streams: whatever the interleaving of the connection reader (operateHeaders),
// loopy (the two GOAWAYs) and Drain, every stream at or below the final
// GOAWAY's last-stream-id must have reached the handler (or been reset), and
// none above it may.
func c14ServerScenario(name string, newStreams int, bound int, noPre ...bool) vsched.Scenario {
	return vsched.Scenario{Name: name, Bound: bound, Horizon: 20000, Body: func(x *vsched.X) {
		x.BackgroundSetup()
		cconn, sconn := wire.Pipe()
		peer := wire.NewClientPeer(cconn)
		peer.AutoAckSettings = true
		peer.WriteSettings()
		st, err := NewServerTransport(sconn, &ServerConfig{MaxStreams: math.MaxUint32, BufferPool: mem.DefaultBufferPool(), StaticWindowSize: true})
		if err != nil {
			x.Fail("C14", "setup", "NewServerTransport: %v", err)
			return
		}
		var mu sync.Mutex
		handled := map[uint32]*ServerStream{}
		vsched.GoNamed("serve", func() {
			st.HandleStreams(context.Background(), func(s *ServerStream) {
				mu.Lock()
				handled[s.id] = s
				mu.Unlock()
			})
			st.Close(errors.New("finished serving"))
		})
		synctest.Wait()
		// normally one stream is already being served when the drain starts;
		// with noPre the connection is idle (nothing established in the writer)
		sent := []uint32{}
		if len(noPre) == 0 || !noPre[0] {
			sent = append(sent, 1)
			peer.WriteHeaders(1, c14sHdr, false)
			synctest.Wait()
		}
		x.Go("drain", func() { st.Drain("") })
		x.Go("client", func() {
			for i := 0; i < newStreams; i++ {
				vsched.Yield()
				id := uint32(3 + 2*i)
				mu.Lock()
				sent = append(sent, id)
				mu.Unlock()
				peer.WriteHeaders(id, c14sHdr, false)
			}
		})
		acked := 0
		x.Go("pingack", func() {
			// answer the drain PING once it has arrived (a visible wait)
			vsched.Point(vsched.Op{Kind: vsched.OpUser, Enabled: func() bool {
				n := 0
				for _, f := range peer.Log() {
					if f.Type == "PING" && !f.Ack {
						n++
					}
				}
				return n > acked
			}})
			for _, f := range peer.Log() {
				if f.Type == "PING" && !f.Ack {
					var d [8]byte
					copy(d[:], f.Data)
					vsched.Yield()
					peer.WritePing(true, d)
					acked++
					return
				}
			}
		})
		x.Final(func(x *vsched.X) {
			for _, p := range x.Panics {
				x.Fail("C14", "panic", "%s", p)
				x.Fail("C25", "panic", "%s", p)
			}
			var finalID uint32
			finals := 0
			first := false
			rst := map[uint32]bool{}
			for _, f := range peer.Log() {
				switch f.Type {
				case "GOAWAY":
					if f.LastID == math.MaxInt32 {
						first = true
					} else {
						finals++
						finalID = f.LastID
					}
				case "RST_STREAM":
					rst[f.Stream] = true
				}
			}
			mu.Lock()
			defer mu.Unlock()
			if !first || finals != 1 {
				if x.Stuck == "" {
					x.Fail("C14", "server/goaway-sequence", "graceful drain produced first-GOAWAY=%v and %d final GOAWAY(s): %s", first, finals, peer.LogString())
				}
				x.Outcome("no-final-goaway")
				return
			}
			var maxHandled uint32
			for id := range handled {
				if id > maxHandled {
					maxHandled = id
				}
			}
			for _, id := range sent {
				_, h := handled[id]
				switch {
				case id <= finalID && !h && !rst[id]:
					x.Fail("C14", "server/accepted-stream-dropped", "final GOAWAY last-stream-id %d covers stream %d, but no handler ran for it and it was not reset: the client will wait forever (%s)", finalID, id, peer.LogString())
					x.Fail("C25", "server/accepted-stream-dropped", "final GOAWAY last-stream-id %d covers stream %d, but no handler ran for it and it was not reset: the client will wait forever (%s)", finalID, id, peer.LogString())
				case id > finalID && h:
					x.Fail("C14", "server/handled-stream-above-final-goaway", "handler ran for stream %d above the final GOAWAY last-stream-id %d", id, finalID)
					x.Fail("C25", "server/handled-stream-above-final-goaway", "handler ran for stream %d above the final GOAWAY last-stream-id %d", id, finalID)
				}
			}
			if finalID != maxHandled && finalID < maxHandled {
				x.Fail("C14", "server/final-goaway-id", "final GOAWAY last-stream-id %d is below the highest handled stream %d", finalID, maxHandled)
			}
			x.Outcome(fmt.Sprintf("final=%d handled=%d", finalID, len(handled)))
			// "serves every stream up to that id to completion": the handlers
			// now finish; every accepted stream must get its trailers, i.e. the
			// drain must not have closed the connection under them.
			hs := map[uint32]*ServerStream{}
			for id, hst := range handled {
				if id <= finalID {
					hs[id] = hst
				}
			}
			mu.Unlock()
			for _, hst := range hs {
				hst.WriteStatus(status.New(codes.OK, ""))
			}
			synctest.Wait()
			mu.Lock()
			answered := map[uint32]bool{}
			for _, f := range peer.Log() {
				if (f.Type == "HEADERS" && f.EndStream) || f.Type == "RST_STREAM" {
					answered[f.Stream] = true
				}
			}
			for id := range hs {
				if !answered[id] {
					for _, P := range []string{"C14", "C25"} {
						x.Fail(P, "server/accepted-stream-not-served-to-completion", "stream %d (<= final GOAWAY last-stream-id %d) was accepted and its handler returned OK, but the client never received its trailers: connection closed=%v (%s)", id, finalID, peer.Closed(), peer.LogString())
					}
				}
			}
		})
		x.Cleanup(func() {
			mu.Lock()
			hs := make([]*ServerStream, 0, len(handled))
			for _, s := range handled {
				hs = append(hs, s)
			}
			mu.Unlock()
			for _, s := range hs {
				s.WriteStatus(status.New(codes.OK, ""))
			}
			st.Close(errors.New("verif: done"))
			peer.Close()
		})
	}}
}

func TestVerif_C14_ServerDrainSched(t *testing.T) {
	props := []string{"C14", "C25"}
	r := vk.Start(t, "c14_server_sched", "exploration", props...)
	defer r.Finish()
	for _, P := range props {
		r.Rule(P, "every schedule with at most B preemptions (quick 1, thorough 2) of a real, fully instrumented http2Server (connection reader/operateHeaders, loopy and keepalive are scheduled threads) during a graceful drain: Drain() racing 1-2 new client HEADERS and the client's PING ack; at quiescence every stream at or below the final GOAWAY's last-stream-id was handed to the handler (or reset) and none above it (C25: an RPC the draining server declared accepted is never silently dropped); non-trivial = executions deviating from the default schedule")
		r.Assume(P, "scheduling points at sync/atomic/channel operations of internal/transport suffice")
	}
	b := r.Pick(1, 2)
	scs := []vsched.Scenario{c14ServerScenario("drain/new1", 1, b), c14ServerScenario("drain/idle/new1", 1, b, true), c14ServerScenario("drain/new2", 2, b)}
	vsched.RunScenarios(t, r, props, scs)
	for _, P := range props {
		r.Sample(P, map[string]any{"scenario": "drain/new1", "threads": []string{"drain: Drain()", "client: HEADERS(stream 3)", "pingack: PING ack once the drain PING arrived", "background: serve (HandleStreams reader), loopy"}})
	}
}
