//go:build verif

package transport

import (
	"context"
	"errors"
	"fmt"
	"io"
	"strings"
	"sync"
	"testing"

	"google.golang.org/grpc/mem"
	"google.golang.org/grpc/internal/verif/vk"
	"google.golang.org/grpc/internal/verif/vsched"
)

var c05ErrOther = errors.New("c05: stream reset")

// Producer(s) put DATA payloads and a final end/error into the real recvBuffer
// while the application thread reads through the real recvBufferReader.
func c05Scenario(name string, payloads []string, second bool, readSize int, bound int) vsched.Scenario {
	return vsched.Scenario{Name: name, Bound: bound, MinOutcomes: 1, Body: func(x *vsched.X) {
		var rb recvBuffer
		rb.init(mem.DefaultBufferPool())
		rd := &recvBufferReader{ctx: context.Background(), ctxDone: context.Background().Done(), recv: &rb}
		var mu sync.Mutex
		var got strings.Builder
		var finalErr error
		afterErr := ""
		x.Go("reader-goroutine", func() {
			for _, p := range payloads {
				rb.put(recvMsg{buffer: mem.SliceBuffer([]byte(p))})
			}
			// the transports put exactly one terminal error per stream (guarded by
			// the stream's state swap): EOF from the reader, or the error from
			// closeStream — never both.
			if !second {
				rb.put(recvMsg{err: io.EOF})
			}
		})
		if second {
			x.Go("closeStream", func() {
				rb.put(recvMsg{err: c05ErrOther})
			})
		}
		x.Go("app", func() {
			for i := 0; i < 64; i++ {
				buf, err := rd.Read(readSize)
				mu.Lock()
				if err != nil {
					if finalErr == nil {
						finalErr = err
						mu.Unlock()
						// a second read must return the same error and no data
						b2, err2 := rd.Read(readSize)
						mu.Lock()
						if err2 == nil {
							afterErr = fmt.Sprintf("Read returned data %q after error %v", b2.ReadOnlyData(), err)
						}
						mu.Unlock()
						return
					}
					mu.Unlock()
					return
				}
				if buf.Len() > readSize {
					afterErr = fmt.Sprintf("Read(%d) returned %d bytes", readSize, buf.Len())
				}
				got.Write(buf.ReadOnlyData())
				buf.Free()
				mu.Unlock()
			}
		})
		x.Final(func(x *vsched.X) {
			for _, p := range x.Panics {
				x.Fail("C05", "panic", "%s", p)
			}
			mu.Lock()
			defer mu.Unlock()
			all := strings.Join(payloads, "")
			if x.Stuck != "" {
				x.Fail("C05", "reader-stuck", "application read never completed although end-of-stream was put (delivered %q): %s", got.String(), x.Stuck)
				return
			}
			if afterErr != "" {
				x.Fail("C05", "data-after-end", "%s", afterErr)
			}
			g := got.String()
			if !strings.HasPrefix(all, g) {
				x.Fail("C05", "bytes-wrong", "delivered bytes %q are not a prefix of the received payload %q (lost, duplicated or reordered)", g, all)
			}
			switch {
			case finalErr == io.EOF:
				if g != all {
					x.Fail("C05", "eof-before-data", "end-of-stream reported after only %q of %q", g, all)
				}
			case finalErr == c05ErrOther:
				// the error may overtake later DATA, but whole frames only
				cut := 0
				okCut := g == ""
				for _, p := range payloads {
					cut += len(p)
					if len(g) == cut {
						okCut = true
					}
				}
				if !okCut {
					x.Fail("C05", "partial-frame-before-error", "error delivered after a partial frame: delivered %q of frames %q", g, payloads)
				}
			default:
				x.Fail("C05", "no-terminal", "reader finished without end-of-stream or error (err=%v, delivered %q)", finalErr, g)
			}
			x.Outcome(fmt.Sprintf("got=%q err=%v", g, finalErr))
		})
	}}
}

func TestVerif_C05_RecvBufferSched(t *testing.T) {
	const P = "C05"
	r := vk.Start(t, "c05_recvbuffer_sched", "exploration", P)
	defer r.Finish()
	r.Rule(P, "every schedule with at most B preemptions (quick 3, thorough 4) of the instrumented real recvBuffer/recvBufferReader: the transport reader puts 2-3 DATA payloads then EOF, optionally a second thread puts a stream error (closeStream), the application thread Reads with sizes 1/2/64 until the terminal error; oracle = reference byte queue; non-trivial = executions deviating from the default schedule")
	r.Assume(P, "compaction is not reachable with 3 frames (const threshold ~57KB); it is covered by the sequential E2 leg")
	b := r.Pick(3, 4)
	scs := []vsched.Scenario{
		c05Scenario("recv/ab,cde/read2", []string{"ab", "cde"}, false, 2, b),
		c05Scenario("recv/ab,cde,f/read64", []string{"ab", "cde", "f"}, false, 64, b),
		c05Scenario("recv/ab,cde/read1+closeStream", []string{"ab", "cde"}, true, 1, b),
		c05Scenario("recv/ab,cde/read64+closeStream", []string{"ab", "cde"}, true, 64, b),
	}
	vsched.RunScenarios(t, r, []string{P}, scs)
	r.Sample(P, map[string]any{"scenario": "recv/ab,cde/read1+closeStream", "threads": []string{"reader-goroutine: put(ab); put(cde); put(EOF)", "closeStream: put(err)", "app: Read(1) until error, then Read again"}})
}
