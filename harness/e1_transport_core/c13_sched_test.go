//go:build verif

package transport

import (
	"context"
	"errors"
	"fmt"
	"net"
	"sync"
	"testing"
	"testing/synctest"

	"golang.org/x/net/http2"
	"google.golang.org/grpc/internal/verif/vk"
	"google.golang.org/grpc/internal/verif/vsched"
	"google.golang.org/grpc/internal/verif/wire"
	"google.golang.org/grpc/mem"
	"google.golang.org/grpc/resolver"
)

// c13World is a real (instrumented) http2Client connected to a raw server peer.
// It is built in the un-scheduled set-up phase: the transport's reader, loopy
// and keepalive goroutines are background threads that become scheduled
// threads once exploration starts.
type c13World struct {
	tr     *http2Client
	peer   *wire.Peer
	cancel context.CancelFunc
	first  []*ClientStream // streams opened during set-up
}

func c13Build(x *vsched.X, mcs uint32, preOpen int) (*c13World, error) {
	x.BackgroundSetup()
	cconn, sconn := wire.Pipe()
	peer := wire.NewServerPeer(sconn)
	peer.AutoAckSettings = true
	peer.AutoAckPing = true
	peer.WriteSettings(http2.Setting{ID: http2.SettingMaxConcurrentStreams, Val: mcs})
	ctx, cancel := context.WithCancel(context.Background())
	dial := func(context.Context, string) (net.Conn, error) { return cconn, nil }
	ct, err := NewHTTP2Client(ctx, ctx, resolver.Address{Addr: "x"}, ConnectOptions{Dialer: dial, BufferPool: mem.DefaultBufferPool(), StaticWindowSize: true}, func(GoAwayInfo) {})
	if err != nil {
		cancel()
		return nil, err
	}
	w := &c13World{tr: ct.(*http2Client), peer: peer, cancel: cancel}
	synctest.Wait()
	for i := 0; i < preOpen; i++ {
		s, err := w.tr.NewStream(ctx, &CallHdr{Host: "x", Method: "/s/m"}, nil)
		if err != nil {
			cancel()
			return nil, fmt.Errorf("pre-open %d: %v", i, err)
		}
		w.first = append(w.first, s)
		synctest.Wait()
	}
	return w, nil
}

// openOnWire computes, from the server's frame log, the maximum number of
// simultaneously open streams (HEADERS seen, no RST_STREAM from the client yet).
func c13MaxOpenOnWire(log []wire.Frame) (maxOpen int, ids []uint32) {
	open := map[uint32]bool{}
	for _, f := range log {
		switch f.Type {
		case "HEADERS":
			open[f.Stream] = true
			ids = append(ids, f.Stream)
		case "RST_STREAM":
			delete(open, f.Stream)
		}
		if len(open) > maxOpen {
			maxOpen = len(open)
		}
	}
	return
}

type c13Res struct {
	returned bool
	s        *ClientStream
	err      error
}

// Scenario A: stream quota. MCS=limit, `pre` streams already open; `nNew`
// concurrent NewStream calls race `nClose` application closes (and optionally
// the server raising MAX_CONCURRENT_STREAMS).
func c13QuotaScenario(name string, limit uint32, pre, nNew, nClose int, raiseTo uint32, bound int, opts ...string) vsched.Scenario {
	return vsched.Scenario{Name: name, Bound: bound, Horizon: 20000, Body: func(x *vsched.X) {
		w, err := c13Build(x, limit, pre)
		if err != nil {
			x.Fail("C13", "setup", "set-up failed: %v", err)
			return
		}
		var mu sync.Mutex
		res := make([]*c13Res, nNew)
		ctxs := make([]context.CancelFunc, nNew)
		closed := 0
		for i := 0; i < nNew; i++ {
			r := &c13Res{}
			res[i] = r
			ctx, cancel := context.WithCancel(context.Background())
			ctxs[i] = cancel
			x.Go(fmt.Sprintf("new%d", i), func() {
				s, err := w.tr.NewStream(ctx, &CallHdr{Host: "x", Method: "/s/m"}, nil)
				mu.Lock()
				r.returned, r.s, r.err = true, s, err
				mu.Unlock()
			})
		}
		if nClose < 0 {
			// one application thread closes all pre-opened streams in turn
			x.Go("closeAll", func() {
				for _, s := range w.first {
					vsched.Yield()
					s.Close(errors.New("app done"))
					mu.Lock()
					closed++
					mu.Unlock()
				}
			})
		}
		for i := 0; i < nClose; i++ {
			s := w.first[i]
			x.Go(fmt.Sprintf("close%d", i), func() {
				vsched.Yield()
				s.Close(errors.New("app done"))
				mu.Lock()
				closed++
				mu.Unlock()
			})
		}
		for _, o := range opts {
			if o == "cancel0" {
				// the application gives up on the first waiting call while quota is being freed
				x.Go("cancel0", func() {
					vsched.Yield()
					ctxs[0]()
				})
			}
		}
		curLimit := limit
		if raiseTo > 0 {
			x.Go("server-raises-mcs", func() {
				vsched.Yield()
				w.peer.WriteSettings(http2.Setting{ID: http2.SettingMaxConcurrentStreams, Val: raiseTo})
				mu.Lock()
				curLimit = raiseTo
				mu.Unlock()
			})
		}
		released := false
		x.OnStuck(func() bool {
			if released {
				return false
			}
			released = true
			// quiescent: everything that could run has run
			mu.Lock()
			parked, opened := 0, 0
			for _, r := range res {
				if !r.returned {
					parked++
				} else if r.err == nil {
					opened++
				}
			}
			open := pre - closed + opened
			lim := int(curLimit)
			if parked > 0 && open < lim {
				x.Fail("C17", "newstream-parked-while-quota-free", "%d NewStream call(s) still parked although only %d of %d streams are open (lost wake-up)", parked, open, lim)
				x.Fail("C13", "waiter-not-admitted", "%d NewStream call(s) still parked although only %d of %d streams are open", parked, open, lim)
			}
			mu.Unlock()
			for _, c := range ctxs {
				c()
			}
			return true
		})
		x.Final(func(x *vsched.X) {
			for _, p := range x.Panics {
				x.Fail("C13", "panic", "%s", p)
			}
			maxOpen, ids := c13MaxOpenOnWire(w.peer.Log())
			lim := int(limit)
			if raiseTo > limit {
				lim = int(raiseTo)
			}
			if maxOpen > lim {
				x.Fail("C13", "over-limit", "%d streams open on the wire at once, MAX_CONCURRENT_STREAMS never above %d (%s)", maxOpen, lim, w.peer.LogString())
			}
			for i := 1; i < len(ids); i++ {
				if ids[i] <= ids[i-1] || ids[i]%2 == 0 {
					x.Fail("C13", "stream-ids", "stream ids on the wire not odd and strictly increasing: %v", ids)
				}
			}
			mu.Lock()
			opened, failed := 0, 0
			for _, r := range res {
				if r.returned && r.err == nil {
					opened++
				} else if r.returned {
					failed++
				}
			}
			mu.Unlock()
			x.Outcome(fmt.Sprintf("opened=%d failed=%d maxOpen=%d", opened, failed, maxOpen))
		})
		x.Cleanup(func() {
			for _, c := range ctxs {
				c()
			}
			w.tr.Close(errors.New("verif: done"))
			w.cancel()
			w.peer.Close()
		})
	}}
}

// Scenario B: GOAWAY(last-stream-id) racing NewStream. Whatever the
// interleaving, at quiescence every stream with id above the GOAWAY id must be
// finished as unprocessed (or its NewStream refused), and streams at or below
// it must not have been failed.
func c14GoAwayScenario(name string, pre, nNew int, lastID uint32, bound int) vsched.Scenario {
	return vsched.Scenario{Name: name, Bound: bound, Horizon: 20000, Body: func(x *vsched.X) {
		w, err := c13Build(x, 100, pre)
		if err != nil {
			x.Fail("C14", "setup", "set-up failed: %v", err)
			return
		}
		var mu sync.Mutex
		res := make([]*c13Res, nNew)
		for i := 0; i < nNew; i++ {
			r := &c13Res{}
			res[i] = r
			x.Go(fmt.Sprintf("new%d", i), func() {
				s, err := w.tr.NewStream(context.Background(), &CallHdr{Host: "x", Method: "/s/m"}, nil)
				mu.Lock()
				r.returned, r.s, r.err = true, s, err
				mu.Unlock()
			})
		}
		x.Go("server-goaway", func() {
			vsched.Yield()
			w.peer.WriteGoAway(lastID, http2.ErrCodeNo, nil)
		})
		judged := false
		judge := func() bool {
			if judged {
				return false
			}
			judged = true
			mu.Lock()
			defer mu.Unlock()
			all := append([]*ClientStream(nil), w.first...)
			for i, r := range res {
				if !r.returned {
					x.Fail("C14", "newstream-hangs-after-goaway", "NewStream call %d neither admitted nor failed at quiescence after GOAWAY", i)
					x.Fail("C11", "newstream-hangs-after-goaway", "NewStream call %d neither admitted nor failed at quiescence after the server's GOAWAY (%s)", i, x.Stuck)
					continue
				}
				if r.err == nil {
					all = append(all, r.s)
				}
			}
			for _, s := range all {
				done := false
				select {
				case <-s.Done():
					done = true
				default:
				}
				if s.id > lastID {
					if !done {
						x.Fail("C14", "stream-above-goaway-id-left-active", "stream %d (> GOAWAY last-stream-id %d) is still active at quiescence: the server will never process it and the RPC is never failed/retried", s.id, lastID)
					} else if !s.Unprocessed() {
						x.Fail("C14", "stream-above-goaway-id-not-unprocessed", "stream %d (> GOAWAY last-stream-id %d) was finished but not marked unprocessed", s.id, lastID)
					}
				} else if done {
					x.Fail("C14", "stream-at-or-below-goaway-id-failed", "stream %d (<= GOAWAY last-stream-id %d) was failed by the GOAWAY", s.id, lastID)
				}
			}
			return false
		}
		x.OnStuck(judge)
		x.Final(func(x *vsched.X) {
			for _, p := range x.Panics {
				x.Fail("C14", "panic", "%s", p)
			}
			judge() // quiescent end state (all harness threads done, reader/loopy at rest)
			mu.Lock()
			opened := 0
			for _, r := range res {
				if r.returned && r.err == nil {
					opened++
				}
			}
			mu.Unlock()
			x.Outcome(fmt.Sprintf("opened=%d", opened))
		})
		x.Cleanup(func() {
			w.tr.Close(errors.New("verif: done"))
			w.cancel()
			w.peer.Close()
		})
	}}
}

// Scenario C: a NewStream parked on stream quota is cancelled while the quota
// is being freed. Whatever the interleaving, the call returns, and the quota
// is not leaked: if the cancelled call did not open a stream, a later
// NewStream must be admitted at once.
func c13CancelScenario(name string, bound int) vsched.Scenario {
	return vsched.Scenario{Name: name, Bound: bound, Horizon: 20000, Body: func(x *vsched.X) {
		w, err := c13Build(x, 1, 1)
		if err != nil {
			x.Fail("C13", "setup", "set-up failed: %v", err)
			return
		}
		var mu sync.Mutex
		r := &c13Res{}
		ctx, cancel := context.WithCancel(context.Background())
		x.Go("new0", func() {
			s, err := w.tr.NewStream(ctx, &CallHdr{Host: "x", Method: "/s/m"}, nil)
			mu.Lock()
			r.returned, r.s, r.err = true, s, err
			mu.Unlock()
		})
		x.Go("close0", func() {
			vsched.Yield()
			w.first[0].Close(errors.New("app done"))
		})
		x.Go("cancel", func() {
			vsched.Yield()
			cancel()
		})
		x.Final(func(x *vsched.X) {
			for _, p := range x.Panics {
				x.Fail("C13", "panic", "%s", p)
			}
			mu.Lock()
			ret, opened := r.returned, r.returned && r.err == nil
			mu.Unlock()
			if !ret {
				x.Fail("C22", "cancelled-newstream-hangs", "NewStream has not returned although its context was cancelled and quota was freed (%s)", x.Stuck)
				x.Fail("C17", "cancelled-newstream-hangs", "NewStream has not returned although its context was cancelled and quota was freed (%s)", x.Stuck)
				return
			}
			if opened {
				// the stream holds the only slot; release it the way the application would
				r.s.Close(errors.New("app done"))
				synctest.Wait()
			}
			// the slot must be free now: a fresh call is admitted at once
			var r2 c13Res
			go func() {
				s, err := w.tr.NewStream(context.Background(), &CallHdr{Host: "x", Method: "/s/m"}, nil)
				mu.Lock()
				r2.returned, r2.s, r2.err = true, s, err
				mu.Unlock()
			}()
			synctest.Wait()
			mu.Lock()
			ok := r2.returned && r2.err == nil
			mu.Unlock()
			if !ok {
				x.Fail("C13", "stream-quota-leaked", "after a cancelled NewStream (opened=%v) and the close of every open stream, a new NewStream is not admitted (limit 1, 0 open): the slot was leaked (%s)", opened, w.peer.LogString())
				x.Fail("C17", "stream-quota-leaked", "after a cancelled NewStream (opened=%v) and the close of every open stream, a new NewStream is not admitted", opened)
			}
			maxOpen, _ := c13MaxOpenOnWire(w.peer.Log())
			if maxOpen > 1 {
				x.Fail("C13", "over-limit", "%d streams open on the wire at once with MAX_CONCURRENT_STREAMS=1 (%s)", maxOpen, w.peer.LogString())
			}
			x.Outcome(fmt.Sprintf("opened=%v", opened))
		})
		x.Cleanup(func() {
			cancel()
			w.tr.Close(errors.New("verif: done"))
			w.cancel()
			w.peer.Close()
		})
	}}
}

func TestVerif_C13_NewStreamSched(t *testing.T) {
	r := vk.Start(t, "c13_newstream_sched", "exploration", "C13", "C17", "C14", "C22", "C11")
	defer r.Finish()
	rule := "every schedule with at most B preemptions (quick 1, thorough 2) of a real, fully instrumented http2Client (reader, loopy and application goroutines are all scheduled threads; connection set up un-scheduled against a raw server peer over an in-memory pipe): 2-3 concurrent NewStream calls racing application stream closes and a server-side MAX_CONCURRENT_STREAMS raise with limit 1-2 (C13/C17: never more streams on the wire than the limit, no NewStream parked while quota is free at quiescence), and 2 NewStream calls racing GOAWAY(last-stream-id) (C14: every stream above the id ends unprocessed, none at or below it is failed, no call hangs - C11: a server GOAWAY arriving while RPCs are being created never wedges the client transport), and a NewStream parked on stream quota whose context is cancelled while the quota is being freed (C22/C17: the call returns; C13: the slot is not leaked - a fresh call is admitted at once); non-trivial = executions deviating from the default schedule"
	for _, p := range []string{"C13", "C17", "C14", "C22", "C11"} {
		r.Rule(p, rule)
		r.Assume(p, "scheduling points at sync/atomic/channel operations of internal/transport suffice; x/net/http2 framing and the in-memory pipe are not instrumented")
	}
	b := r.Pick(1, 2)
	// cheapest first: what a scenario leaves of its share of the soft budget rolls over
	scs := []vsched.Scenario{
		c13QuotaScenario("quota/mcs1/pre1/new2/close1", 1, 1, 2, 1, 0, b),
		c13QuotaScenario("quota/mcs1/pre1/new2/raise2", 1, 1, 2, 0, 2, b),
		c14GoAwayScenario("goaway1/pre1/new2", 1, 2, 1, b),
		c13CancelScenario("quota/mcs1/pre1/new1/close1+cancel", 2),
		c13QuotaScenario("quota/mcs1/pre1/new2/close1+cancel0", 1, 1, 2, 1, 0, b, "cancel0"),
		c13QuotaScenario("quota/mcs2/pre2/new2/close2", 2, 2, 2, 2, 0, b),
		c13QuotaScenario("quota/mcs2/pre2/new2/closeAll", 2, 2, 2, -1, 0, 2),
		c13QuotaScenario("quota/mcs1/pre1/new2/close1+raise2", 1, 1, 2, 1, 2, b),
	}
	if r.Thorough() {
		scs = append(scs, c13QuotaScenario("quota/mcs1/pre1/new3/close1+raise2", 1, 1, 3, 1, 2, 1), c14GoAwayScenario("goaway3/pre2/new2", 2, 2, 3, b))
	}
	vsched.RunScenarios(t, r, []string{"C13", "C17", "C14", "C22", "C11"}, scs)
	for _, p := range []string{"C13", "C17", "C14", "C22", "C11"} {
		r.Sample(p, map[string]any{"scenario": "quota/mcs1/pre1/new2/close1", "threads": []string{"new0, new1: NewStream (park on stream quota)", "close0: application closes the pre-opened stream", "background: reader, loopy"}})
	}
}
