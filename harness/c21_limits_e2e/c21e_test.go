//go:build verif

package h_c21e

// C21 (end-to-end leg) — effective message size limits are the minimum of all
// configured limits, and they are ENFORCED on the encoded message.
//
// Every case is one real RPC (real grpc.ClientConn <-> real grpc.Server, byte
// tee on the client's connection, own synctest bubble). Three complete
// sub-products (the "reduced cross product" of the design):
//
//   req   service-config maxRequestMessageBytes {-,4,5} x dial-time default
//         MaxCallSendMsgSize {-,4,5} x per-call MaxCallSendMsgSize {-,4,5} x
//         server MaxRecvMsgSize {-,4,5} x request size {3,4,5,6} x compressor
//         {none,gzip,grow,rle}; response direction unlimited (2 bytes);
//   resp  the mirror image for maxResponseMessageBytes / MaxCallRecvMsgSize /
//         server MaxSendMsgSize and the response size;
//   both  one value {-,4,5} for both service-config limits x one for both
//         per-call options x one for both server options x request size x
//         response size x compressor {none,grow}.
//
// Sizes {3,4,5,6} are lim-1, lim, lim+1 for both limit values 4 and 5. The
// compressors make the encoded size differ from the message size in both
// directions: "grow" adds one byte (n -> n+1), "rle" run-length encodes (n equal
// bytes -> 2 bytes), gzip adds ~23 bytes.
//
// Oracle: c21eModel, a reference model written from the statement:
//   client send limit = min(service config, option) over those that are set,
//   where the option is the per-call one if given, else the dial-time default;
//   MaxInt32 if none; client receive limit likewise with default 4 MiB; server
//   limits = its options (defaults 4 MiB receive / MaxInt32 send). A message
//   travels  sender-check(encoded size <= send limit)  ->  wire  ->
//   receiver-check(wire size <= recv limit and decoded size <= recv limit)  ->
//   application. The first failed check ends the RPC with RESOURCE_EXHAUSTED;
//   a message that fails the sender check must not appear on the wire (the tee
//   shows no DATA byte on that stream direction); a message that fails the
//   receiver check is not delivered; a message passing all checks is
//   delivered intact and, if both do, the RPC is OK.

import (
	"bytes"
	stdgzip "compress/gzip"
	"context"
	"fmt"
	"io"
	"math"
	"net"
	"strings"
	"sync"
	"testing"
	"testing/synctest"
	"time"

	"golang.org/x/net/http2"
	"golang.org/x/net/http2/hpack"
	"google.golang.org/grpc"
	"google.golang.org/grpc/codes"
	"google.golang.org/grpc/credentials/insecure"
	"google.golang.org/grpc/encoding"
	_ "google.golang.org/grpc/encoding/gzip"
	"google.golang.org/grpc/internal/verif/vk"
	"google.golang.org/grpc/internal/verif/wire"
	"google.golang.org/grpc/mem"
	"google.golang.org/grpc/status"
)

const c21eP = "C21"

// ---------------------------------------------------------------- codec

type c21eCodec struct{}

func (c21eCodec) Name() string { return "verif-raw" }
func (c21eCodec) Marshal(v any) (mem.BufferSlice, error) {
	switch b := v.(type) {
	case []byte:
		return mem.BufferSlice{mem.SliceBuffer(b)}, nil
	case *[]byte:
		return mem.BufferSlice{mem.SliceBuffer(*b)}, nil
	}
	return nil, fmt.Errorf("c21eCodec: unsupported %T", v)
}
func (c21eCodec) Unmarshal(data mem.BufferSlice, v any) error {
	p, ok := v.(*[]byte)
	if !ok {
		return fmt.Errorf("c21eCodec: unsupported %T", v)
	}
	*p = data.Materialize()
	return nil
}

// ---------------------------------------------------------------- compressors

// c21eGrowEnc / c21eRLEEnc are the transforms, also used by the reference.
func c21eGrowEnc(p []byte) []byte {
	out := append([]byte{0xC7}, p...)
	for i := 1; i < len(out); i++ {
		out[i] ^= 0x5A
	}
	return out
}

func c21eGrowDec(p []byte) ([]byte, error) {
	if len(p) == 0 || p[0] != 0xC7 {
		return nil, fmt.Errorf("grow: bad magic")
	}
	out := append([]byte{}, p[1:]...)
	for i := range out {
		out[i] ^= 0x5A
	}
	return out, nil
}

func c21eRLEEnc(p []byte) []byte {
	var out []byte
	for i := 0; i < len(p); {
		j := i
		for j < len(p) && p[j] == p[i] && j-i < 255 {
			j++
		}
		out = append(out, byte(j-i), p[i])
		i = j
	}
	return out
}

func c21eRLEDec(p []byte) ([]byte, error) {
	if len(p)%2 != 0 {
		return nil, fmt.Errorf("rle: odd length")
	}
	var out []byte
	for i := 0; i < len(p); i += 2 {
		out = append(out, bytes.Repeat([]byte{p[i+1]}, int(p[i]))...)
	}
	return out, nil
}

type c21eComp struct {
	name string
	enc  func([]byte) []byte
	dec  func([]byte) ([]byte, error)
}

type c21eCompWriter struct {
	c   *c21eComp
	w   io.Writer
	buf []byte
}

func (w *c21eCompWriter) Write(p []byte) (int, error) { w.buf = append(w.buf, p...); return len(p), nil }
func (w *c21eCompWriter) Close() error                { _, err := w.w.Write(w.c.enc(w.buf)); return err }
func (c *c21eComp) Name() string                      { return c.name }
func (c *c21eComp) Compress(w io.Writer) (io.WriteCloser, error) {
	return &c21eCompWriter{c: c, w: w}, nil
}
func (c *c21eComp) Decompress(r io.Reader) (io.Reader, error) {
	b, err := io.ReadAll(r)
	if err != nil {
		return nil, err
	}
	out, err := c.dec(b)
	if err != nil {
		return nil, err
	}
	return bytes.NewReader(out), nil
}

func init() {
	encoding.RegisterCompressor(&c21eComp{name: "c21grow", enc: c21eGrowEnc, dec: c21eGrowDec})
	encoding.RegisterCompressor(&c21eComp{name: "c21rle", enc: c21eRLEEnc, dec: c21eRLEDec})
}

// c21eCompName maps the case's compressor menu entry to the registered name.
func c21eCompName(comp string) string {
	switch comp {
	case "grow":
		return "c21grow"
	case "rle":
		return "c21rle"
	case "gzip":
		return "gzip"
	}
	return ""
}

// c21eRefEncodedSize is the size of the message on the wire (gRPC message
// payload, without the 5-byte prefix) according to the reference coders.
func c21eRefEncodedSize(comp string, msg []byte) int {
	switch comp {
	case "grow":
		return len(c21eGrowEnc(msg))
	case "rle":
		return len(c21eRLEEnc(msg))
	case "gzip":
		var b bytes.Buffer
		zw := stdgzip.NewWriter(&b)
		zw.Write(msg)
		zw.Close()
		return b.Len()
	}
	return len(msg)
}

func c21eRefDecode(comp string, p []byte) ([]byte, error) {
	switch comp {
	case "grow":
		return c21eGrowDec(p)
	case "rle":
		return c21eRLEDec(p)
	case "gzip":
		zr, err := stdgzip.NewReader(bytes.NewReader(p))
		if err != nil {
			return nil, err
		}
		return io.ReadAll(zr)
	}
	return p, nil
}

// ---------------------------------------------------------------- tee + parser

type c21eTee struct {
	net.Conn
	mu   sync.Mutex
	up   bytes.Buffer
	down bytes.Buffer
}

func (t *c21eTee) Write(p []byte) (int, error) {
	n, err := t.Conn.Write(p)
	t.mu.Lock()
	t.up.Write(p[:n])
	t.mu.Unlock()
	return n, err
}

func (t *c21eTee) Read(p []byte) (int, error) {
	n, err := t.Conn.Read(p)
	t.mu.Lock()
	t.down.Write(p[:n])
	t.mu.Unlock()
	return n, err
}

type c21eMsg struct {
	Flag    byte
	Payload []byte
}

// c21eSide is one direction of one stream as seen on the wire.
type c21eSide struct {
	Headers  int // number of header blocks
	Enc      string
	Data     []byte // all DATA payload bytes
	Msgs     []c21eMsg
	Leftover int
	Status   string
}

func c21eParse(b []byte, clientSide bool) (map[uint32]*c21eSide, error) {
	if clientSide {
		if len(b) == 0 {
			return map[uint32]*c21eSide{}, nil
		}
		if !bytes.HasPrefix(b, []byte(http2.ClientPreface)) {
			return nil, fmt.Errorf("no client preface")
		}
		b = b[len(http2.ClientPreface):]
	}
	fr := http2.NewFramer(io.Discard, bytes.NewReader(b))
	fr.SetMaxReadFrameSize(1 << 24)
	fr.AllowIllegalReads = true
	out := map[uint32]*c21eSide{}
	side := func(id uint32) *c21eSide {
		if out[id] == nil {
			out[id] = &c21eSide{}
		}
		return out[id]
	}
	var curID uint32
	dec := hpack.NewDecoder(4096, func(f hpack.HeaderField) {
		s := side(curID)
		switch f.Name {
		case "grpc-encoding":
			if s.Headers == 0 {
				s.Enc = f.Value
			}
		case "grpc-status":
			s.Status = f.Value
		}
	})
	for {
		f, err := fr.ReadFrame()
		if err == io.EOF || err == io.ErrUnexpectedEOF {
			break
		}
		if err != nil {
			return out, err
		}
		id := f.Header().StreamID
		switch f := f.(type) {
		case *http2.HeadersFrame:
			curID = id
			dec.Write(f.HeaderBlockFragment())
			if f.HeadersEnded() {
				side(id).Headers++
			}
		case *http2.ContinuationFrame:
			curID = id
			dec.Write(f.HeaderBlockFragment())
			if f.HeadersEnded() {
				side(id).Headers++
			}
		case *http2.DataFrame:
			s := side(id)
			s.Data = append(s.Data, f.Data()...)
		}
	}
	for _, s := range out {
		d := s.Data
		for len(d) >= 5 {
			n := int(d[1])<<24 | int(d[2])<<16 | int(d[3])<<8 | int(d[4])
			if 5+n > len(d) {
				break
			}
			s.Msgs = append(s.Msgs, c21eMsg{Flag: d[0], Payload: append([]byte(nil), d[5:5+n]...)})
			d = d[5+n:]
		}
		s.Leftover = len(d)
	}
	return out, nil
}

// ---------------------------------------------------------------- case + model

// c21eCfg is one case; limit value 0 means "not set".
type c21eCfg struct {
	Sub      string `json:"sub"`
	SCReq    int    `json:"sc_req"`
	SCResp   int    `json:"sc_resp"`
	DialSend int    `json:"dial_send"`
	DialRecv int    `json:"dial_recv"`
	CallSend int    `json:"call_send"`
	CallRecv int    `json:"call_recv"`
	SrvRecv  int    `json:"srv_recv"`
	SrvSend  int    `json:"srv_send"`
	ReqSize  int    `json:"req_size"`
	RespSize int    `json:"resp_size"`
	Comp     string `json:"comp"`  // none, gzip, grow, rle
	Shape    string `json:"shape"` // unary, stream
}

func c21eL(v int) string {
	if v == 0 {
		return "-"
	}
	return fmt.Sprint(v)
}

func (c c21eCfg) String() string {
	return fmt.Sprintf("%s sc=%s/%s dial=%s/%s call=%s/%s srv(recv/send)=%s/%s req=%d resp=%d comp=%s %s", c.Sub,
		c21eL(c.SCReq), c21eL(c.SCResp), c21eL(c.DialSend), c21eL(c.DialRecv), c21eL(c.CallSend), c21eL(c.CallRecv),
		c21eL(c.SrvRecv), c21eL(c.SrvSend), c.ReqSize, c.RespSize, c.Comp, c.Shape)
}

func (c c21eCfg) anyLimit() bool {
	return c.SCReq+c.SCResp+c.DialSend+c.DialRecv+c.CallSend+c.CallRecv+c.SrvRecv+c.SrvSend != 0
}

const (
	c21eDefRecv = 4 * 1024 * 1024
	c21eDefSend = math.MaxInt32
)

// c21eClientLimit: min(service config, option) over the ones that are set,
// the per-call option replacing the dial-time default; def when none is set.
func c21eClientLimit(sc, dial, call, def int) int {
	opt := dial
	if call != 0 {
		opt = call
	}
	switch {
	case sc == 0 && opt == 0:
		return def
	case sc == 0:
		return opt
	case opt == 0:
		return sc
	}
	return min(sc, opt)
}

func c21eOr(v, def int) int {
	if v == 0 {
		return def
	}
	return v
}

// c21ePrediction is what the statement demands for one case.
type c21ePrediction struct {
	Stage      string // where the RPC ends: client-send, server-recv, server-send, client-recv, ok
	Code       codes.Code
	ReqOnWire  bool // the request message may (and must) be transmitted
	ReqDeliv   bool // the handler receives the request intact
	RespOnWire bool
	RespDeliv  bool
}

func c21eModel(c c21eCfg, req, resp []byte) c21ePrediction {
	cliSend := c21eClientLimit(c.SCReq, c.DialSend, c.CallSend, c21eDefSend)
	cliRecv := c21eClientLimit(c.SCResp, c.DialRecv, c.CallRecv, c21eDefRecv)
	srvRecv := c21eOr(c.SrvRecv, c21eDefRecv)
	srvSend := c21eOr(c.SrvSend, c21eDefSend)
	reqEnc := c21eRefEncodedSize(c.Comp, req)
	respEnc := c21eRefEncodedSize(c.Comp, resp) // the server answers with the request's encoding
	p := c21ePrediction{Code: codes.ResourceExhausted}
	if reqEnc > cliSend {
		p.Stage = "client-send"
		return p
	}
	p.ReqOnWire = true
	if reqEnc > srvRecv || len(req) > srvRecv {
		p.Stage = "server-recv"
		return p
	}
	p.ReqDeliv = true
	if respEnc > srvSend {
		p.Stage = "server-send"
		return p
	}
	p.RespOnWire = true
	if respEnc > cliRecv || len(resp) > cliRecv {
		p.Stage = "client-recv"
		return p
	}
	p.RespDeliv = true
	p.Stage, p.Code = "ok", codes.OK
	return p
}

// ---------------------------------------------------------------- real run

type c21eHandler struct {
	mu      sync.Mutex
	reply   []byte
	Ran     int
	Recv    [][]byte
	RecvErr string
	SendErr string
}

func (h *c21eHandler) unary(_ any, ctx context.Context, dec func(any) error, _ grpc.UnaryServerInterceptor) (any, error) {
	h.mu.Lock()
	h.Ran++
	h.mu.Unlock()
	var in []byte
	if err := dec(&in); err != nil {
		h.mu.Lock()
		h.RecvErr = err.Error()
		h.mu.Unlock()
		return nil, err
	}
	h.mu.Lock()
	h.Recv = append(h.Recv, append([]byte{}, in...))
	h.mu.Unlock()
	return h.reply, nil
}

func (h *c21eHandler) stream(_ any, ss grpc.ServerStream) error {
	h.mu.Lock()
	h.Ran++
	h.mu.Unlock()
	var in []byte
	if err := ss.RecvMsg(&in); err != nil {
		h.mu.Lock()
		h.RecvErr = err.Error()
		h.mu.Unlock()
		return err
	}
	h.mu.Lock()
	h.Recv = append(h.Recv, append([]byte{}, in...))
	h.mu.Unlock()
	if err := ss.SendMsg(h.reply); err != nil {
		h.mu.Lock()
		h.SendErr = err.Error()
		h.mu.Unlock()
		return err
	}
	return nil
}

type c21eObs struct {
	Code     codes.Code
	Err      string
	CliRecv  [][]byte
	HRan     int
	HRecv    [][]byte
	HRecvErr string
	HSendErr string
	Req      *c21eSide
	Resp     *c21eSide
}

func (o c21eObs) String() string {
	side := func(s *c21eSide) string {
		if s == nil {
			return "(no stream)"
		}
		var sb strings.Builder
		fmt.Fprintf(&sb, "hdrs=%d enc=%q dataBytes=%d", s.Headers, s.Enc, len(s.Data))
		for i, m := range s.Msgs {
			fmt.Fprintf(&sb, " msg#%d(flag=%d,len=%d,%x)", i, m.Flag, len(m.Payload), m.Payload)
		}
		if s.Status != "" {
			fmt.Fprintf(&sb, " grpc-status=%s", s.Status)
		}
		return sb.String()
	}
	return fmt.Sprintf("client: code=%v err=%q recv=%q; handler: ran=%d recv=%q recvErr=%q sendErr=%q; wire req: %s; wire resp: %s",
		o.Code, o.Err, o.CliRecv, o.HRan, o.HRecv, o.HRecvErr, o.HSendErr, side(o.Req), side(o.Resp))
}

func c21eRun(t *testing.T, r *vk.Run, c c21eCfg, req, resp []byte) (o c21eObs, ok bool) {
	synctest.Test(t, func(t *testing.T) {
		h := &c21eHandler{reply: resp}
		sopts := []grpc.ServerOption{grpc.ForceServerCodecV2(c21eCodec{})}
		if c.SrvRecv != 0 {
			sopts = append(sopts, grpc.MaxRecvMsgSize(c.SrvRecv))
		}
		if c.SrvSend != 0 {
			sopts = append(sopts, grpc.MaxSendMsgSize(c.SrvSend))
		}
		srv := grpc.NewServer(sopts...)
		srv.RegisterService(&grpc.ServiceDesc{ServiceName: "s", HandlerType: (*any)(nil),
			Methods: []grpc.MethodDesc{{MethodName: "unary", Handler: h.unary}},
			Streams: []grpc.StreamDesc{{StreamName: "stream", ClientStreams: true, ServerStreams: true, Handler: h.stream}},
		}, nil)
		lis := wire.NewListener()
		go srv.Serve(lis)
		var tee *c21eTee
		dials := 0
		dial := func(context.Context, string) (net.Conn, error) {
			dials++
			cn, err := lis.Dial()
			if err != nil {
				return nil, err
			}
			tee = &c21eTee{Conn: cn}
			return tee, nil
		}
		defCall := []grpc.CallOption{grpc.ForceCodecV2(c21eCodec{})}
		if c.DialSend != 0 {
			defCall = append(defCall, grpc.MaxCallSendMsgSize(c.DialSend))
		}
		if c.DialRecv != 0 {
			defCall = append(defCall, grpc.MaxCallRecvMsgSize(c.DialRecv))
		}
		dopts := []grpc.DialOption{grpc.WithContextDialer(dial), grpc.WithTransportCredentials(insecure.NewCredentials()), grpc.WithDefaultCallOptions(defCall...)}
		if c.SCReq != 0 || c.SCResp != 0 {
			var lim []string
			if c.SCReq != 0 {
				lim = append(lim, fmt.Sprintf(`"maxRequestMessageBytes": %d`, c.SCReq))
			}
			if c.SCResp != 0 {
				lim = append(lim, fmt.Sprintf(`"maxResponseMessageBytes": %d`, c.SCResp))
			}
			dopts = append(dopts, grpc.WithDefaultServiceConfig(`{"methodConfig":[{"name":[{"service":"s"}], `+strings.Join(lim, ", ")+`}]}`))
		}
		cc, err := grpc.NewClient("passthrough:///x", dopts...)
		if err != nil {
			r.EngineError("NewClient %v: %v", c, err)
			return
		}
		var copts []grpc.CallOption
		if c.CallSend != 0 {
			copts = append(copts, grpc.MaxCallSendMsgSize(c.CallSend))
		}
		if c.CallRecv != 0 {
			copts = append(copts, grpc.MaxCallRecvMsgSize(c.CallRecv))
		}
		if n := c21eCompName(c.Comp); n != "" {
			copts = append(copts, grpc.UseCompressor(n))
		}
		ctx, cancel := context.WithTimeout(context.Background(), 10*time.Second)
		var rpcErr error
		if c.Shape == "unary" {
			var out []byte
			rpcErr = cc.Invoke(ctx, "/s/unary", req, &out, copts...)
			if rpcErr == nil {
				o.CliRecv = append(o.CliRecv, append([]byte{}, out...))
			}
		} else {
			st, err := cc.NewStream(ctx, &grpc.StreamDesc{ClientStreams: true, ServerStreams: true}, "/s/stream", copts...)
			if err != nil {
				rpcErr = err
			} else {
				if err := st.SendMsg(req); err != nil && err != io.EOF {
					rpcErr = err
				}
				st.CloseSend()
				for rpcErr == nil {
					var out []byte
					err := st.RecvMsg(&out)
					if err == io.EOF {
						break
					}
					if err != nil {
						rpcErr = err
						break
					}
					o.CliRecv = append(o.CliRecv, append([]byte{}, out...))
				}
			}
		}
		cancel()
		synctest.Wait()
		cc.Close()
		srv.Stop()
		synctest.Wait()
		if dials != 1 || tee == nil {
			r.EngineError("%v: %d connections dialled", c, dials)
			return
		}
		tee.mu.Lock()
		up, down := append([]byte(nil), tee.up.Bytes()...), append([]byte(nil), tee.down.Bytes()...)
		tee.mu.Unlock()
		us, err1 := c21eParse(up, true)
		ds, err2 := c21eParse(down, false)
		if err1 != nil || err2 != nil {
			r.EngineError("%v: wire parse: %v / %v", c, err1, err2)
			return
		}
		if len(us) > 1 {
			r.EngineError("%v: %d request streams on the wire", c, len(us))
			return
		}
		o.Req, o.Resp = us[1], ds[1]
		o.Code = status.Code(rpcErr)
		if rpcErr != nil {
			o.Err = rpcErr.Error()
		}
		h.mu.Lock()
		o.HRan, o.HRecv, o.HRecvErr, o.HSendErr = h.Ran, h.Recv, h.RecvErr, h.SendErr
		h.mu.Unlock()
		ok = true
	})
	return o, ok
}

// ---------------------------------------------------------------- judge

type c21eFinding struct{ Class, Desc string }

func c21eWireMsgs(s *c21eSide) (n int, dataBytes int) {
	if s == nil {
		return 0, 0
	}
	return len(s.Msgs), len(s.Data)
}

func c21eJudge(c c21eCfg, p c21ePrediction, o c21eObs, req, resp []byte) (fs []c21eFinding) {
	add := func(class, format string, a ...any) { fs = append(fs, c21eFinding{class, fmt.Sprintf(format, a...)}) }
	// request direction on the wire
	nReq, reqBytes := c21eWireMsgs(o.Req)
	if !p.ReqOnWire {
		if reqBytes != 0 {
			add("oversized-request-transmitted", "the request's encoded size exceeds the client's send limit, yet %d DATA bytes (%d messages) were transmitted on the request stream", reqBytes, nReq)
		}
	} else {
		if nReq != 1 {
			add("request-not-transmitted", "the request is within the client's send limit but %d messages are on the wire", nReq)
		} else if dec, err := c21eRefDecodeMsg(c.Comp, o.Req.Msgs[0]); err != nil || !bytes.Equal(dec, req) {
			add("request-wire-corrupt", "request wire message decodes to %q (err %v), sent %q", dec, err, req)
		}
	}
	// handler delivery
	if p.ReqDeliv {
		if len(o.HRecv) != 1 || !bytes.Equal(o.HRecv[0], req) {
			add("request-not-delivered-intact", "request within all limits: handler received %q (recvErr %q), want %q", o.HRecv, o.HRecvErr, req)
		}
	} else if len(o.HRecv) != 0 {
		add("oversized-request-delivered", "request exceeds a limit at %s, yet the handler received %q", p.Stage, o.HRecv)
	}
	// response direction on the wire
	nResp, respBytes := c21eWireMsgs(o.Resp)
	if !p.RespOnWire {
		if respBytes != 0 {
			add("oversized-response-transmitted", "no response message may be transmitted (RPC must end at %s), yet %d DATA bytes (%d messages) were transmitted on the response stream", p.Stage, respBytes, nResp)
		}
	} else {
		if nResp != 1 {
			add("response-not-transmitted", "the response is within the server's send limit but %d messages are on the wire", nResp)
		} else if dec, err := c21eRefDecodeMsg(c.Comp, o.Resp.Msgs[0]); err != nil || !bytes.Equal(dec, resp) {
			add("response-wire-corrupt", "response wire message decodes to %q (err %v), sent %q", dec, err, resp)
		}
	}
	// client delivery + status
	if p.RespDeliv {
		if len(o.CliRecv) != 1 || !bytes.Equal(o.CliRecv[0], resp) {
			add("response-not-delivered-intact", "response within all limits: client received %q (err %q), want %q", o.CliRecv, o.Err, resp)
		}
	} else if len(o.CliRecv) != 0 {
		add("oversized-response-delivered", "RPC must end at %s, yet the client received %q", p.Stage, o.CliRecv)
	}
	if o.Code != p.Code {
		add("wrong-status@"+p.Stage, "RPC must end at %s with %v, client saw %v (%s)", p.Stage, p.Code, o.Code, o.Err)
	}
	return fs
}

func c21eRefDecodeMsg(comp string, m c21eMsg) ([]byte, error) {
	if m.Flag == 0 {
		return m.Payload, nil
	}
	return c21eRefDecode(comp, m.Payload)
}

// ---------------------------------------------------------------- enumeration

var c21eLims = []int{0, 4, 5}
var c21eSizes = []int{3, 4, 5, 6}

func c21eCases(shapes []string) []c21eCfg {
	var out []c21eCfg
	for _, sh := range shapes {
		for _, comp := range []string{"none", "gzip", "grow", "rle"} {
			for _, sc := range c21eLims {
				for _, dl := range c21eLims {
					for _, cl := range c21eLims {
						for _, sv := range c21eLims {
							for _, n := range c21eSizes {
								out = append(out, c21eCfg{Sub: "req", SCReq: sc, DialSend: dl, CallSend: cl, SrvRecv: sv, ReqSize: n, RespSize: 2, Comp: comp, Shape: sh})
								out = append(out, c21eCfg{Sub: "resp", SCResp: sc, DialRecv: dl, CallRecv: cl, SrvSend: sv, ReqSize: 2, RespSize: n, Comp: comp, Shape: sh})
							}
						}
					}
				}
			}
		}
	}
	for _, sh := range []string{"unary", "stream"} {
		for _, comp := range []string{"none", "grow"} {
			for _, sc := range c21eLims {
				for _, cl := range c21eLims {
					for _, sv := range c21eLims {
						for _, n := range c21eSizes {
							for _, m := range c21eSizes {
								out = append(out, c21eCfg{Sub: "both", SCReq: sc, SCResp: sc, CallSend: cl, CallRecv: cl, SrvRecv: sv, SrvSend: sv, ReqSize: n, RespSize: m, Comp: comp, Shape: sh})
							}
						}
					}
				}
			}
		}
	}
	return out
}

func c21eOne(t *testing.T, r *vk.Run, c c21eCfg, sampled map[string]bool) {
	req := bytes.Repeat([]byte("a"), c.ReqSize)
	resp := bytes.Repeat([]byte("b"), c.RespSize)
	p := c21eModel(c, req, resp)
	o, ok := c21eRun(t, r, c, req, resp)
	if !ok {
		return
	}
	r.Eval(c21eP, 1)
	if c.anyLimit() {
		r.NontrivialN(c21eP, 1)
	}
	r.Outcome(c21eP, fmt.Sprintf("%s: ends at %s -> code=%v reqMsgsOnWire=%d handlerRecv=%d respMsgsOnWire=%d clientRecv=%d", c.Sub, p.Stage, o.Code, c21eN(o.Req), len(o.HRecv), c21eN(o.Resp), len(o.CliRecv)))
	r.AddInt(c21eP, "predicted_end_"+p.Stage, 1)
	c21eTally(r, c, p, req, resp)
	fs := c21eJudge(c, p, o, req, resp)
	seen := map[string]bool{}
	for _, f := range fs {
		key := f.Class + "/" + c.String()
		if seen[key] {
			continue
		}
		seen[key] = true
		r.Violation(c21eP, key, fmt.Sprintf("%s; model: ends at %s with %v (client send/recv limit %d/%d, server recv/send limit %d/%d, encoded request %d B, encoded response %d B); observed %s",
			f.Desc, p.Stage, p.Code,
			c21eClientLimit(c.SCReq, c.DialSend, c.CallSend, c21eDefSend), c21eClientLimit(c.SCResp, c.DialRecv, c.CallRecv, c21eDefRecv),
			c21eOr(c.SrvRecv, c21eDefRecv), c21eOr(c.SrvSend, c21eDefSend), c21eRefEncodedSize(c.Comp, req), c21eRefEncodedSize(c.Comp, resp), o), c)
	}
	sk := c.Sub + "/" + p.Stage
	if len(fs) == 0 && c.anyLimit() && !sampled[sk] && len(sampled) < 6 {
		sampled[sk] = true
		r.Sample(c21eP, map[string]any{"case": c.String(), "model_end": p.Stage, "model_code": p.Code.String(), "observed": o.String()})
	}
}

// c21eTally counts the cases in which the encoded and the plain size fall on
// different sides of the deciding limit (the ones that tell "post-compression"
// from "pre-compression" checks, and wire-size from decompressed-size checks).
func c21eTally(r *vk.Run, c c21eCfg, p c21ePrediction, req, resp []byte) {
	cliSend := c21eClientLimit(c.SCReq, c.DialSend, c.CallSend, c21eDefSend)
	cliRecv := c21eClientLimit(c.SCResp, c.DialRecv, c.CallRecv, c21eDefRecv)
	srvRecv, srvSend := c21eOr(c.SrvRecv, c21eDefRecv), c21eOr(c.SrvSend, c21eDefSend)
	re, pe := c21eRefEncodedSize(c.Comp, req), c21eRefEncodedSize(c.Comp, resp)
	switch p.Stage {
	case "client-send":
		if len(req) <= cliSend {
			r.AddInt(c21eP, "send_refused_only_because_of_encoded_size", 1)
		}
	case "server-send":
		if len(resp) <= srvSend {
			r.AddInt(c21eP, "send_refused_only_because_of_encoded_size", 1)
		}
	case "server-recv":
		if re <= srvRecv {
			r.AddInt(c21eP, "recv_refused_only_because_of_decompressed_size", 1)
		}
	case "client-recv":
		if pe <= cliRecv {
			r.AddInt(c21eP, "recv_refused_only_because_of_decompressed_size", 1)
		}
	}
	if p.ReqOnWire && len(req) > cliSend || p.RespOnWire && len(resp) > srvSend {
		r.AddInt(c21eP, "sent_although_plain_size_exceeds_send_limit", 1)
	}
}

func c21eN(s *c21eSide) int {
	if s == nil {
		return 0
	}
	return len(s.Msgs)
}

func TestVerif_C21_LimitsE2E(t *testing.T) {
	r := vk.Start(t, "c21_limits_e2e", "exploration", c21eP)
	defer r.Finish()
	shapes := []string{"unary"}
	if r.Thorough() {
		shapes = []string{"unary", "stream"}
	}
	cases := c21eCases(shapes)
	r.Rule(c21eP, fmt.Sprintf("three complete sub-products, one real RPC each (real client <-> real server, tee on the wire): req = service-config maxRequestMessageBytes{-,4,5} x dial-time MaxCallSendMsgSize{-,4,5} x per-call MaxCallSendMsgSize{-,4,5} x server MaxRecvMsgSize{-,4,5} x request size{3,4,5,6} x compressor{none,gzip,grow(+1B),rle(->2B)} x shapes%v; resp = the mirror image for the response direction; both = {-,4,5} for both service-config limits x both per-call options x both server options x request size x response size x {none,grow} x {unary,stream}; %d cases. Non-trivial: at least one limit is configured", shapes, len(cases)))
	r.Assume(c21eP, "a per-call option replaces the dial-time default call option of the same kind; 'dial/call option limit' of the statement is the resulting option (same reading as leg c21_limits_arith)")
	r.Assume(c21eP, "the server answers with the compressor the client used (no SetSendCompressor/RPCCompressor in this leg); gzip sizes are computed with stdlib compress/gzip and are >= 23 bytes, far from every limit either way")
	r.Assume(c21eP, "trusted: testing/synctest quiescence, x/net/http2 framer + hpack of the tee parser")
	r.Set(c21eP, "max_cases", len(cases))

	sampled := map[string]bool{}
	if r.ReplayFile() != "" {
		var c c21eCfg
		if err := r.LoadReplay(&c); err != nil {
			r.EngineError("replay: %v", err)
			return
		}
		c21eOne(t, r, c, sampled)
		return
	}
	for i, c := range cases {
		if !r.Mine(i) {
			continue
		}
		if r.OverBudget() {
			r.Cap(c21eP, "time budget reached before all cases ran")
			break
		}
		c21eOne(t, r, c, sampled)
	}
}
