//go:build verif

// Package h_c21e hosts the end-to-end E4/E3 leg of property C21 (effective
// message size limits): a reduced cross product of service-config, dial-option,
// call-option and server-option limits, message sizes around each limit and
// compressors that grow or shrink the payload is run as real RPCs between a
// real grpc.ClientConn and a real grpc.Server over an in-memory connection
// with a byte tee; a reference model written from the statement predicts
// which messages may appear on the wire, the RPC status and what is delivered.
package h_c21e
