//go:build verif

package backoff_test

import (
	"context"
	"errors"
	"fmt"
	"math/big"
	"net"
	"os"
	"strings"
	"sync"
	"testing"
	"testing/synctest"
	"time"

	"google.golang.org/grpc"
	grpcbackoff "google.golang.org/grpc/backoff"
	"google.golang.org/grpc/connectivity"
	"google.golang.org/grpc/credentials/insecure"
	ibackoff "google.golang.org/grpc/internal/backoff"
	"google.golang.org/grpc/internal/verif/vk"
	"google.golang.org/grpc/internal/verif/wire"
)

// ---- C20 leg B: dial pacing of a real grpc.ClientConn under virtual time ----
//
// One history = one synctest bubble with a fresh ClientConn (passthrough
// target, ONE address, default pick_first), a scripted dialer and the
// ConnectParams under test. After every event the bubble runs to quiescence.
// The oracle only looks at the dialer's own log of (virtual start time, virtual
// end time, result) and the events the harness issued.
//
// A connection attempt has a START (the dialer is called) and an END (it
// failed or succeeded). The scripted failure outcomes are: instant failure,
// "slowfail(d)" (the dialer blocks for d of virtual time - or until the
// channel's connect deadline cancels its context, whichever is first - and then
// returns an error) and "stallclose(1s)" (the dial succeeds at once, the raw
// server end never sends a preface and closes the connection after 1s). The
// statement's wait is measured from the END of the failed attempt to the START
// of the next one.

// The first c20BaseEvents events are the base alphabet; the remaining ones
// select how the FOLLOWING failing dials fail (sticky until changed; okNext
// overrides it for one dial).
var c20Events = []string{"connect", "adv500ms", "adv1s", "adv10s", "reset", "okNext",
	"slowfail500ms", "slowfail1s", "slowfail10s", "stallclose1s", "instantfail"}

const c20BaseEvents = 6

const (
	c20EvConnect = iota
	c20EvAdv500
	c20EvAdv1s
	c20EvAdv10s
	c20EvReset
	c20EvOkNext
	c20EvSlow500
	c20EvSlow1s
	c20EvSlow10s
	c20EvStall1s
	c20EvInstant
)

// c20FailMode: how a scripted failing dial fails.
type c20FailMode struct {
	Name  string
	Slow  time.Duration // > 0: the failure takes this much virtual time
	Stall bool          // the dial itself succeeds; the server end closes after Slow without a preface
}

var c20FailModes = map[int]c20FailMode{
	c20EvInstant: {"instant", 0, false},
	c20EvSlow500: {"slowfail500ms", 500 * time.Millisecond, false},
	c20EvSlow1s:  {"slowfail1s", time.Second, false},
	c20EvSlow10s: {"slowfail10s", 10 * time.Second, false},
	c20EvStall1s: {"stallclose1s", time.Second, true},
}

type c20ChanCfg struct {
	Name string
	Cfg  grpcbackoff.Config
}

var c20ChanCfgs = []c20ChanCfg{
	{"J0", grpcbackoff.Config{BaseDelay: time.Second, Multiplier: 2, Jitter: 0, MaxDelay: 8 * time.Second}},
	{"J0.2", grpcbackoff.Config{BaseDelay: time.Second, Multiplier: 2, Jitter: 0.2, MaxDelay: 8 * time.Second}},
}

// c20MinMax: the statement's bounds for the wait after the failure with retry
// index n (n=0: exactly BaseDelay).
func c20MinMax(cfg grpcbackoff.Config, n int) (lo, hi time.Duration) {
	if n == 0 {
		return cfg.BaseDelay, cfg.BaseDelay
	}
	l, h, _, _ := ibackoff.C20Bounds(cfg, n)
	return time.Duration(l.Int64()), time.Duration(h.Int64())
}

type c20Dial struct {
	At   time.Duration // virtual time of the START of the attempt (since the start of the history)
	End  time.Duration // virtual time at which the attempt failed / succeeded (valid if Done)
	Done bool
	OK   bool
	Mode string // scripted outcome
	Cut  bool   // a slow dial whose context was cancelled (connect deadline / Close) before its scripted duration
}

func (d c20Dial) String() string {
	switch {
	case !d.Done:
		return fmt.Sprintf("{%v.. %s in-flight}", d.At, d.Mode)
	case d.OK:
		return fmt.Sprintf("{%v ok}", d.At)
	case d.Cut:
		return fmt.Sprintf("{%v..%v %s cut-by-ctx}", d.At, d.End, d.Mode)
	}
	return fmt.Sprintf("{%v..%v %s}", d.At, d.End, d.Mode)
}

type c20Fail struct{ Class, Desc string }

type c20HistResult struct {
	Fails    []c20Fail
	FailAt   int // number of events applied when the first failure was seen
	Dials    []c20Dial
	MaxIdx   int     // largest retry index whose wait was checked
	IdxCount [12]int // gaps checked per retry index (capped at 11)
	Checked  int     // gaps checked against the lower bound
	Resets   int     // short gaps excused by ResetConnectBackoff
	Succ     int     // successful connections
	PostOK   int     // gaps checked after a success (index must have restarted at 0)
	SlowGaps int     // gaps checked after a failure that took virtual time (END > START)
	CutGaps  int     // ... of which the attempt was ended by the channel's connect deadline
	StallGaps int    // ... of which the failure was "accepted, no preface, closed"
	MidReset int     // gaps checked after an attempt during which ResetConnectBackoff was called
	InFlight int     // events issued while a connection attempt was in flight
}

// c20RunHistory applies hist to a fresh channel.
func c20RunHistory(t *testing.T, cc20 c20ChanCfg, hist []int) (res c20HistResult) {
	defer func() {
		if p := recover(); p != nil {
			res.Fails = append(res.Fails, c20Fail{"panic", fmt.Sprint(p)})
		}
	}()
	synctest.Test(t, func(t *testing.T) {
		start := time.Now()
		var mu sync.Mutex
		var dials []c20Dial
		okNext := false
		mode := c20FailModes[c20EvInstant]
		var live *wire.Peer
		var peers []*wire.Peer
		var stalls []*wire.Conn
		dialer := func(ctx context.Context, _ string) (net.Conn, error) {
			mu.Lock()
			ok := okNext
			okNext = false
			m := mode
			i := len(dials)
			d := c20Dial{At: time.Since(start), OK: ok, Mode: m.Name}
			if ok {
				d.Mode = "ok"
			}
			dials = append(dials, d)
			finish := func(cut bool) { // mu held
				dials[i].End, dials[i].Done, dials[i].Cut = time.Since(start), true, cut
			}
			switch {
			case ok:
				c, s := wire.Pipe()
				p := wire.NewServerPeer(s)
				p.AutoAckSettings = true
				p.AutoAckPing = true
				p.WriteSettings()
				live = p
				peers = append(peers, p)
				finish(false)
				mu.Unlock()
				return c, nil
			case m.Stall:
				// the connection is accepted; the server end swallows what the
				// client writes, never answers, and closes after m.Slow (or
				// notices earlier that the client gave up): that instant is the
				// END of the attempt.
				c, s := wire.Pipe()
				stalls = append(stalls, s)
				mu.Unlock()
				go func() {
					s.SetReadDeadline(time.Now().Add(m.Slow))
					buf := make([]byte, 4096)
					cut := false
					for {
						if _, err := s.Read(buf); err != nil {
							cut = !errors.Is(err, os.ErrDeadlineExceeded)
							break
						}
					}
					mu.Lock()
					finish(cut)
					mu.Unlock()
					s.Close()
				}()
				return c, nil
			case m.Slow > 0:
				mu.Unlock()
				tm := time.NewTimer(m.Slow)
				err := errors.New("c20: scripted slow dial failure")
				cut := false
				select {
				case <-tm.C:
				case <-ctx.Done():
					tm.Stop()
					err, cut = ctx.Err(), true
				}
				mu.Lock()
				finish(cut)
				mu.Unlock()
				return nil, err
			}
			finish(false)
			mu.Unlock()
			return nil, errors.New("c20: scripted dial failure")
		}
		cc, err := grpc.NewClient("passthrough:///c20.single.address:1",
			grpc.WithContextDialer(dialer),
			grpc.WithTransportCredentials(insecure.NewCredentials()),
			grpc.WithConnectParams(grpc.ConnectParams{Backoff: cc20.Cfg, MinConnectTimeout: time.Second}))
		if err != nil {
			res.Fails = append(res.Fails, c20Fail{"engine", "NewClient: " + err.Error()})
			return
		}
		defer func() {
			cc.Close()
			mu.Lock()
			ps := peers
			ss := stalls
			mu.Unlock()
			for _, p := range ps {
				p.Close()
			}
			for _, s := range ss {
				s.Close()
			}
			synctest.Wait()
		}()

		// reference model (from the statement)
		n := 0               // consecutive failures since the last success / reset
		inflight := false    // an attempt has started and not ended yet
		idxAtStart := 0      // n when the in-flight attempt started
		midReset := false    // ResetConnectBackoff was called while that attempt was in flight
		pending := false     // the last attempt failed and no attempt followed yet
		var lastFailEnd time.Duration
		var lastFail c20Dial
		lastFailIdx := 0
		lastFailMidReset := false
		resetSince := false   // ResetConnectBackoff was called after the last failure
		afterSuccess := false // the pending failure is the first one after a success
		prevOK := false       // the previous attempt succeeded
		seen := 0             // attempts whose END has been processed
		fail := func(step int, class, f string, a ...any) {
			if len(res.Fails) == 0 {
				res.FailAt = step
			}
			res.Fails = append(res.Fails, c20Fail{class, fmt.Sprintf(f, a...)})
		}
		// bounds for the wait after the pending failure
		bounds := func() (lo, hi time.Duration) {
			lo, hi = c20MinMax(cc20.Cfg, lastFailIdx)
			if lastFailMidReset {
				// the backoff was reset while the attempt was running: the
				// failure may be counted as retry 0 or with the index the
				// attempt started with; accept both readings.
				l0, h0 := c20MinMax(cc20.Cfg, 0)
				lo, hi = min(lo, l0), max(hi, h0)
			}
			return
		}
		observe := func(step int) {
			mu.Lock()
			ds := append([]c20Dial(nil), dials...)
			mu.Unlock()
			for seen < len(ds) {
				d := ds[seen]
				if !inflight {
					// START of attempt #seen+1
					if pending {
						lo, hi := bounds()
						gap := d.At - lastFailEnd
						if resetSince {
							res.Resets++
						} else {
							res.Checked++
							if lastFailIdx > res.MaxIdx {
								res.MaxIdx = lastFailIdx
							}
							res.IdxCount[min(lastFailIdx, 11)]++
							if afterSuccess {
								res.PostOK++
							}
							if lastFail.End > lastFail.At {
								res.SlowGaps++
								if lastFail.Cut {
									res.CutGaps++
								}
								if lastFail.Mode == "stallclose1s" {
									res.StallGaps++
								}
							}
							if lastFailMidReset {
								res.MidReset++
							}
							if gap < lo {
								fail(step, "early-redial", "dial #%d starts at %v, only %v after the previous attempt %v failed at %v; that was consecutive failure index %d, so the wait must be >= %v (no ResetConnectBackoff in between)", seen+1, d.At, gap, lastFail, lastFailEnd, lastFailIdx, lo)
							} else if gap > hi {
								fail(step, "late-redial", "dial #%d starts at %v, %v after the previous attempt %v failed at %v; consecutive failure index %d allows at most %v (was the index reset after the last success/reset?)", seen+1, d.At, gap, lastFail, lastFailEnd, lastFailIdx, hi)
							}
						}
					}
					pending, resetSince = false, false
					inflight, idxAtStart, midReset = true, n, false
				}
				if !d.Done {
					break
				}
				// END of attempt #seen+1
				inflight = false
				if d.OK {
					n, afterSuccess = 0, false
					res.Succ++
				} else {
					lastFailEnd, lastFail, lastFailIdx, lastFailMidReset, pending = d.End, d, idxAtStart, midReset, true
					afterSuccess = prevOK
					n++
				}
				prevOK = d.OK
				seen++
			}
			// the channel keeps retrying a failed single address by itself
			// (pick_first re-connects out of TRANSIENT_FAILURE): once the
			// maximal wait for the index has elapsed a new attempt must exist.
			if pending {
				_, hi := bounds()
				if now := time.Since(start); now-lastFailEnd > hi {
					fail(step, "no-redial", "at %v: no dial since the attempt %v failed at %v (index %d, maximal wait %v)", now, lastFail, lastFailEnd, lastFailIdx, hi)
					pending = false
				}
			}
		}
		settle := func(step int) {
			synctest.Wait()
			// "dial succeeds then the raw server peer closes the connection"
			mu.Lock()
			p := live
			mu.Unlock()
			if p != nil && cc.GetState() == connectivity.Ready {
				mu.Lock()
				live = nil
				mu.Unlock()
				p.Close()
				synctest.Wait()
			}
			observe(step)
		}
		settle(0)
		for i, ev := range hist {
			if inflight {
				res.InFlight++
			}
			switch ev {
			case c20EvConnect:
				cc.Connect()
			case c20EvAdv500:
				time.Sleep(500 * time.Millisecond)
			case c20EvAdv1s:
				time.Sleep(time.Second)
			case c20EvAdv10s:
				time.Sleep(10 * time.Second)
			case c20EvReset:
				// the model's state is that of the last quiescent point, which
				// is the state in which the call is made
				n = 0
				if inflight {
					midReset = true
				} else if pending {
					resetSince = true
				}
				cc.ResetConnectBackoff()
			case c20EvOkNext:
				mu.Lock()
				okNext = true
				mu.Unlock()
			default:
				mu.Lock()
				mode = c20FailModes[ev]
				mu.Unlock()
			}
			settle(i + 1)
			if len(res.Fails) > 0 {
				break
			}
		}
		mu.Lock()
		res.Dials = append([]c20Dial(nil), dials...)
		mu.Unlock()
	})
	return
}

func c20HistString(h []int) string {
	s := make([]string, len(h))
	for i, e := range h {
		s[i] = c20Events[e]
	}
	return strings.Join(s, ",")
}

type c20Replay struct {
	Config    string   `json:"config"`
	Events    []string `json:"events"`
	Scenario  string   `json:"scenario,omitempty"`   // "" = pick_first channel, "lb" = stub LB policy with UpdateAddresses
	LatencyMs int      `json:"latency_ms,omitempty"` // lb scenario: virtual duration of every dial
}

// c20Family: one block of the enumeration - all histories preamble ++ tail with
// tail in Alphabet^Depth, except (SkipBelow > 0) those whose tail uses only the
// first SkipBelow events (they are prefixes of histories of another family).
type c20Family struct {
	Alphabet  int
	Depth     int
	SkipBelow int
}

func TestVerif_C20_ChannelPacing(t *testing.T) {
	const P = "C20"
	r := vk.Start(t, "c20_channel_pacing", "exploration", P)
	defer r.Finish()
	depth := r.Pick(5, 7)
	xdepth := r.Pick(5, 6)
	xalpha := len(c20Events)
	families := []c20Family{
		{Alphabet: c20BaseEvents, Depth: depth},
		{Alphabet: xalpha, Depth: xdepth, SkipBelow: c20BaseEvents},
	}
	preambles := [][]int{nil, {c20EvConnect, c20EvAdv10s}}
	r.Rule(P, fmt.Sprintf("every event history of length exactly %d over the base alphabet {connect, advance 500ms, advance 1s, advance 10s, ResetConnectBackoff, next-dial-succeeds-then-server-closes} PLUS every history of length exactly %d over the extended alphabet %v that uses at least one of the added events (they choose how the following failing dials fail: slowfail(d) = the dialer blocks d of virtual time or until the connect deadline, then errors; stallclose1s = accepted, no server preface, closed by the server after 1s; instantfail = the default); oracle checked after every prefix: the gap from the END (failure) of attempt k to the START of attempt k+1 must lie within the statement's bounds for the consecutive-failure index; from 2 start points (fresh channel; channel after connect+10s of instant failures = retry index 4), for 2 backoff configs (base 1s, x2, max 8s, jitter 0 and 0.2; MinConnectTimeout 1s), each in a fresh synctest bubble with a real grpc.ClientConn and a scripted dialer; PLUS a stub-LB-policy scenario with one subchannel: every history of length exactly %d over %v (UpdateAddresses with the same / a different / a superset / an empty address list, issued in whatever state the subchannel is in: IDLE, CONNECTING with a dial in flight, TRANSIENT_FAILURE backoff, READY), 2 start points, dials instant or taking 250ms, jitter-0 config; dials are grouped into attempts (passes over the address list) and the wait after a failed attempt is judged per subchannel; non-trivial = distinct histories in which at least one redial gap was checked against the bound", depth, xdepth, c20Events[:xalpha], r.Pick(4, 5), c20LBEvents))
	if r.ReplayFile() != "" {
		var rp c20Replay
		if err := r.LoadReplay(&rp); err != nil {
			r.EngineError("replay: %v", err)
			return
		}
		if rp.Config == "" { // leg A replay
			return
		}
		if rp.Scenario == "lb" {
			lidx := map[string]int{}
			for i, e := range c20LBEvents {
				lidx[e] = i
			}
			var h []int
			for _, e := range rp.Events {
				k, ok := lidx[e]
				if !ok {
					r.EngineError("replay: unknown event %q", e)
					return
				}
				h = append(h, k)
			}
			res := c20RunLBHistory(t, c20ChanCfgs[0], time.Duration(rp.LatencyMs)*time.Millisecond, h)
			r.Eval(P, 1)
			fmt.Printf("replay lb latency=%dms events=%v dials=%v\n", rp.LatencyMs, rp.Events, res.Dials)
			for _, f := range res.Fails {
				fmt.Printf("FAIL %s: %s\n", f.Class, f.Desc)
				r.Violation(P, fmt.Sprintf("lb/%s/L%dms", f.Class, rp.LatencyMs), f.Desc, rp)
			}
			return
		}
		idx := map[string]int{}
		for i, e := range c20Events {
			idx[e] = i
		}
		var h []int
		for _, e := range rp.Events {
			k, ok := idx[e]
			if !ok {
				r.EngineError("replay: unknown event %q", e)
				return
			}
			h = append(h, k)
		}
		for _, c := range c20ChanCfgs {
			if c.Name != rp.Config {
				continue
			}
			res := c20RunHistory(t, c, h)
			r.Eval(P, 1)
			fmt.Printf("replay config=%s events=%v dials=%v\n", c.Name, rp.Events, res.Dials)
			for _, f := range res.Fails {
				fmt.Printf("FAIL %s: %s\n", f.Class, f.Desc)
				r.Violation(P, "chan/"+f.Class+"/"+c.Name, f.Desc, rp)
			}
		}
		return
	}
	var evals, nontriv, gaps, resets, postok, slowgaps, cutgaps, stallgaps, midreset, inflight, slowHist int64
	var idxCount [12]int64
	sampled, sampledSlow := 0, 0
	// Histories run strictly one after the other in a process (parallelism comes
	// from worker processes with GOMAXPROCS=1, see leg.json): go1.25.0 allocates
	// the runtime record that ties a sync.WaitGroup to its bubble without taking
	// the heap's special lock, so WaitGroups used on several Ms at once (here:
	// ClientConn.Close in concurrent bubbles) can spuriously die with "WaitGroup.Add
	// called from multiple synctest bubbles".
	run := func(cfg c20ChanCfg, h []int) {
		res := c20RunHistory(t, cfg, h)
		for _, f := range res.Fails {
			if f.Class == "engine" {
				r.EngineError("%s", f.Desc)
				continue
			}
			fh := h
			if res.FailAt <= len(h) {
				fh = h[:res.FailAt]
			}
			evs := make([]string, len(fh))
			for i, e := range fh {
				evs[i] = c20Events[e]
			}
			r.Violation(P, "chan/"+f.Class+"/"+cfg.Name, f.Desc+"\n  config: "+fmt.Sprintf("%+v", cfg.Cfg)+"\n  history: "+c20HistString(fh)+"\n  dials: "+fmt.Sprint(res.Dials), c20Replay{Config: cfg.Name, Events: evs})
		}
		evals++
		if res.Checked > 0 {
			nontriv++
		}
		if res.SlowGaps > 0 {
			slowHist++
		}
		gaps += int64(res.Checked)
		resets += int64(res.Resets)
		postok += int64(res.PostOK)
		slowgaps += int64(res.SlowGaps)
		cutgaps += int64(res.CutGaps)
		stallgaps += int64(res.StallGaps)
		midreset += int64(res.MidReset)
		inflight += int64(res.InFlight)
		for i, n := range res.IdxCount {
			idxCount[i] += int64(n)
		}
		if cfg.Name == "J0" {
			// fully deterministic config: detailed outcome classes
			r.Outcome(P, fmt.Sprintf("chan:dials=%d,ok=%d,gaps=%d(afterSlowFailure=%d),resetExcused=%d,maxIdx=%d", len(res.Dials), res.Succ, res.Checked, res.SlowGaps, res.Resets, res.MaxIdx))
			if res.PostOK > 0 && res.Resets > 0 && sampled < 2 {
				sampled++
				r.Sample(P, map[string]any{"config": cfg.Name, "history": c20HistString(h), "dials": fmt.Sprint(res.Dials)})
			}
			if res.SlowGaps > 1 && res.CutGaps > 0 && sampledSlow < 2 {
				sampledSlow++
				r.Sample(P, map[string]any{"config": cfg.Name, "history": c20HistString(h), "dials": fmt.Sprint(res.Dials)})
			}
		} else {
			r.Outcome(P, "chan:jitter-config-run")
		}
	}
	i := 0
	for _, fam := range families {
		total := 1
		for k := 0; k < fam.Depth; k++ {
			total *= fam.Alphabet
		}
		tail := make([]int, fam.Depth)
		for c := range c20ChanCfgs {
			for p := range preambles {
				for code := 0; code < total; code++ {
					x, ext := code, false
					for k := fam.Depth - 1; k >= 0; k-- {
						tail[k] = x % fam.Alphabet
						x /= fam.Alphabet
						ext = ext || tail[k] >= fam.SkipBelow
					}
					if !ext {
						continue
					}
					if r.Mine(i) {
						h := append(append([]int(nil), preambles[p]...), tail...)
						run(c20ChanCfgs[c], h)
					}
					i++
				}
			}
		}
	}
	// ---- LB-policy scenario: one subchannel, SubConn.UpdateAddresses events ----
	{
		ldepth := r.Pick(4, 5)
		lpre := [][]int{nil, {c20LBConnect, c20LBAdv10s}}
		ltotal := 1
		for k := 0; k < ldepth; k++ {
			ltotal *= len(c20LBEvents)
		}
		var lbEvals, lbGaps, lbGapsAfterUpd, lbResets, lbAttempts, lbAmbig int64
		upd := map[string]int64{}
		lsampled := 0
		tail := make([]int, ldepth)
		for _, lat := range []time.Duration{0, 250 * time.Millisecond} {
			for p := range lpre {
				for code := 0; code < ltotal; code++ {
					mine := r.Mine(i)
					i++
					if !mine {
						continue
					}
					x := code
					for k := ldepth - 1; k >= 0; k-- {
						tail[k] = x % len(c20LBEvents)
						x /= len(c20LBEvents)
					}
					h := append(append([]int(nil), lpre[p]...), tail...)
					res := c20RunLBHistory(t, c20ChanCfgs[0], lat, h)
					for _, f := range res.Fails {
						if f.Class == "engine" {
							r.EngineError("%s", f.Desc)
							continue
						}
						fh := h
						if res.FailAt <= len(h) {
							fh = h[:res.FailAt]
						}
						evs := make([]string, len(fh))
						for i, e := range fh {
							evs[i] = c20LBEvents[e]
						}
						r.Violation(P, fmt.Sprintf("lb/%s/L%dms", f.Class, lat.Milliseconds()), f.Desc+"\n  config: "+fmt.Sprintf("%+v", c20ChanCfgs[0].Cfg)+fmt.Sprintf(", every dial takes %v", lat)+"\n  history: "+c20LBHistString(fh)+"\n  dials: "+fmt.Sprint(res.Dials), c20Replay{Config: c20ChanCfgs[0].Name, Events: evs, Scenario: "lb", LatencyMs: int(lat.Milliseconds())})
					}
					evals++
					lbEvals++
					if res.Checked > 0 {
						nontriv++
					}
					lbGaps += int64(res.Checked)
					lbGapsAfterUpd += int64(res.CheckedAfterUpd)
					lbResets += int64(res.Resets)
					lbAttempts += int64(res.Attempts)
					lbAmbig += int64(res.EmptyAmbig)
					for k, n := range res.Upd {
						upd[k] += int64(n)
					}
					r.Outcome(P, fmt.Sprintf("lb:L%dms:attempts=%d,ok=%d,gaps=%d(afterListChange=%d),resetExcused=%d", lat.Milliseconds(), res.Attempts, res.Succ, res.Checked, res.CheckedAfterUpd, res.Resets))
					if lsampled < 2 && res.CheckedAfterUpd > 0 && res.Succ > 0 {
						lsampled++
						r.Sample(P, map[string]any{"scenario": "lb", "dial_latency": lat.String(), "history": c20LBHistString(h), "dials": fmt.Sprint(res.Dials)})
					}
				}
			}
		}
		r.AddInt(P, "lb_histories_run", lbEvals)
		r.AddInt(P, "lb_attempts_seen", lbAttempts)
		r.AddInt(P, "lb_redial_gaps_checked", lbGaps)
		r.AddInt(P, "lb_redial_gaps_checked_with_an_address_list_change_during_the_wait", lbGapsAfterUpd)
		r.AddInt(P, "lb_short_gaps_excused_by_reset", lbResets)
		r.AddInt(P, "lb_times_retry_index_became_a_lower_estimate_after_an_empty_list", lbAmbig)
		for k, n := range upd {
			r.AddInt(P, "lb_UpdateAddresses/"+k, n)
		}
	}
	r.Eval(P, evals)
	r.NontrivialN(P, nontriv)
	r.AddInt(P, "chan_redial_gaps_checked", gaps)
	r.AddInt(P, "chan_short_gaps_excused_by_reset", resets)
	r.AddInt(P, "chan_gaps_checked_for_first_failure_after_success", postok)
	r.AddInt(P, "chan_gaps_checked_after_a_failure_that_took_virtual_time", slowgaps)
	r.AddInt(P, "chan_gaps_checked_after_an_attempt_cut_by_the_connect_deadline", cutgaps)
	r.AddInt(P, "chan_gaps_checked_after_accept_without_preface_then_close", stallgaps)
	r.AddInt(P, "chan_gaps_checked_after_reset_during_the_attempt", midreset)
	r.AddInt(P, "chan_histories_with_a_gap_after_a_slow_failure", slowHist)
	r.AddInt(P, "chan_events_issued_while_an_attempt_was_in_flight", inflight)
	for i, n := range idxCount {
		if n > 0 {
			r.AddInt(P, fmt.Sprintf("chan_gaps_checked_at_retry_index_%02d", i), n)
		}
	}
	lo3, hi3 := c20MinMax(c20ChanCfgs[1].Cfg, 3)
	r.Sample(P, map[string]any{"config": "J0.2", "retry_index": 3, "allowed_wait": fmt.Sprintf("[%v, %v]", lo3, hi3), "big": new(big.Int).SetInt64(int64(hi3)).String()})
	r.Assume(P, "channel leg: one address, default pick_first, passthrough resolver; dials succeed instantly; failing dials fail instantly, after 500ms/1s/10s of virtual time (or at the channel's connect deadline = max(MinConnectTimeout 1s, backoff), whichever is first), or by accept-without-preface-then-close after 1s; pick_first's automatic re-connect out of TRANSIENT_FAILURE is assumed (it makes the UPPER bound observable, which is how 'the index resets after a successful connection' is checked)")
	r.Assume(P, "channel leg: a ResetConnectBackoff issued while an attempt is in flight makes the oracle accept both readings for the wait after that attempt's failure (retry index 0, or the index the attempt started with); a reset issued while waiting excuses the lower bound")
	r.Assume(P, "channel leg: with jitter 0.2 the draw is not scripted; the oracle interval is draw-independent, the detailed outcome statistics are taken from the jitter-0 config only")
}
