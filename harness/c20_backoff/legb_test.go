//go:build verif

package backoff_test

import (
	"context"
	"errors"
	"fmt"
	"math/big"
	"net"
	"runtime"
	"strings"
	"sync"
	"testing"
	"testing/synctest"
	"time"

	"google.golang.org/grpc"
	grpcbackoff "google.golang.org/grpc/backoff"
	"google.golang.org/grpc/connectivity"
	"google.golang.org/grpc/credentials/insecure"
	ibackoff "google.golang.org/grpc/internal/backoff"
	"google.golang.org/grpc/internal/verif/vk"
	"google.golang.org/grpc/internal/verif/wire"
)

// ---- C20 leg B: dial pacing of a real grpc.ClientConn under virtual time ----
//
// One history = one synctest bubble with a fresh ClientConn (passthrough
// target, ONE address, default pick_first), a scripted dialer and the
// ConnectParams under test. After every event the bubble runs to quiescence.
// The oracle only looks at the dialer's own log of (virtual time, result) and
// the events the harness issued.

var c20Events = []string{"connect", "adv500ms", "adv1s", "adv10s", "reset", "okNext"}

const (
	c20EvConnect = iota
	c20EvAdv500
	c20EvAdv1s
	c20EvAdv10s
	c20EvReset
	c20EvOkNext
)

type c20ChanCfg struct {
	Name string
	Cfg  grpcbackoff.Config
}

var c20ChanCfgs = []c20ChanCfg{
	{"J0", grpcbackoff.Config{BaseDelay: time.Second, Multiplier: 2, Jitter: 0, MaxDelay: 8 * time.Second}},
	{"J0.2", grpcbackoff.Config{BaseDelay: time.Second, Multiplier: 2, Jitter: 0.2, MaxDelay: 8 * time.Second}},
}

// c20MinMax: the statement's bounds for the wait after the failure with retry
// index n (n=0: exactly BaseDelay).
func c20MinMax(cfg grpcbackoff.Config, n int) (lo, hi time.Duration) {
	if n == 0 {
		return cfg.BaseDelay, cfg.BaseDelay
	}
	l, h, _, _ := ibackoff.C20Bounds(cfg, n)
	return time.Duration(l.Int64()), time.Duration(h.Int64())
}

type c20Dial struct {
	At time.Duration // virtual time since the start of the history
	OK bool
}

type c20Fail struct{ Class, Desc string }

type c20HistResult struct {
	Fails   []c20Fail
	FailAt  int // number of events applied when the first failure was seen
	Dials   []c20Dial
	MaxIdx  int // largest retry index whose wait was checked
	IdxCount [12]int // gaps checked per retry index (capped at 11)
	Checked int // gaps checked against the lower bound
	Resets  int // short gaps excused by ResetConnectBackoff
	Succ    int // successful connections
	PostOK  int // gaps checked after a success (index must have restarted at 0)
}

// c20RunHistory applies pre ++ hist to a fresh channel.
func c20RunHistory(t *testing.T, cc20 c20ChanCfg, hist []int) (res c20HistResult) {
	defer func() {
		if p := recover(); p != nil {
			res.Fails = append(res.Fails, c20Fail{"panic", fmt.Sprint(p)})
		}
	}()
	synctest.Test(t, func(t *testing.T) {
		start := time.Now()
		var mu sync.Mutex
		var dials []c20Dial
		okNext := false
		var live *wire.Peer
		var peers []*wire.Peer
		dialer := func(ctx context.Context, _ string) (net.Conn, error) {
			mu.Lock()
			defer mu.Unlock()
			ok := okNext
			okNext = false
			dials = append(dials, c20Dial{At: time.Since(start), OK: ok})
			if !ok {
				return nil, errors.New("c20: scripted dial failure")
			}
			c, s := wire.Pipe()
			p := wire.NewServerPeer(s)
			p.AutoAckSettings = true
			p.AutoAckPing = true
			p.WriteSettings()
			live = p
			peers = append(peers, p)
			return c, nil
		}
		cc, err := grpc.NewClient("passthrough:///c20.single.address:1",
			grpc.WithContextDialer(dialer),
			grpc.WithTransportCredentials(insecure.NewCredentials()),
			grpc.WithConnectParams(grpc.ConnectParams{Backoff: cc20.Cfg, MinConnectTimeout: time.Second}))
		if err != nil {
			res.Fails = append(res.Fails, c20Fail{"engine", "NewClient: " + err.Error()})
			return
		}
		defer func() {
			cc.Close()
			mu.Lock()
			ps := peers
			mu.Unlock()
			for _, p := range ps {
				p.Close()
			}
			synctest.Wait()
		}()

		// reference model (from the statement)
		n := 0                 // consecutive failures since the last success / reset
		pending := false       // the last attempt failed and no attempt followed yet
		var lastFailAt time.Duration
		lastFailIdx := 0
		resetSince := false    // ResetConnectBackoff was called after the last attempt
		afterSuccess := false  // the pending failure is the first one after a success
		prevOK := false        // the previous attempt succeeded
		seen := 0
		fail := func(step int, class, f string, a ...any) {
			if len(res.Fails) == 0 {
				res.FailAt = step
			}
			res.Fails = append(res.Fails, c20Fail{class, fmt.Sprintf(f, a...)})
		}
		observe := func(step int) {
			mu.Lock()
			ds := append([]c20Dial(nil), dials...)
			mu.Unlock()
			for ; seen < len(ds); seen++ {
				d := ds[seen]
				if pending {
					lo, hi := c20MinMax(cc20.Cfg, lastFailIdx)
					gap := d.At - lastFailAt
					if resetSince {
						res.Resets++
					} else {
						res.Checked++
						if lastFailIdx > res.MaxIdx {
							res.MaxIdx = lastFailIdx
						}
						res.IdxCount[min(lastFailIdx, 11)]++
						if afterSuccess {
							res.PostOK++
						}
						if gap < lo {
							fail(step, "early-redial", "dial #%d at %v follows the failed dial at %v after only %v; it was consecutive failure index %d, so the wait must be >= %v (no ResetConnectBackoff in between)", seen+1, d.At, lastFailAt, gap, lastFailIdx, lo)
						} else if gap > hi {
							fail(step, "late-redial", "dial #%d at %v follows the failed dial at %v after %v; consecutive failure index %d allows at most %v (was the index reset after the last success/reset?)", seen+1, d.At, lastFailAt, gap, lastFailIdx, hi)
						}
					}
				}
				resetSince = false
				afterSuccess = prevOK && !d.OK
				prevOK = d.OK
				if d.OK {
					n, pending, afterSuccess = 0, false, false
					res.Succ++
				} else {
					lastFailAt, lastFailIdx, pending = d.At, n, true
					n++
				}
			}
			// the channel keeps retrying a failed single address by itself
			// (pick_first re-connects out of TRANSIENT_FAILURE): once the
			// maximal wait for the index has elapsed a new attempt must exist.
			if pending {
				_, hi := c20MinMax(cc20.Cfg, lastFailIdx)
				if now := time.Since(start); now-lastFailAt > hi {
					fail(step, "no-redial", "at %v: no dial since the failed dial at %v (index %d, maximal wait %v)", now, lastFailAt, lastFailIdx, hi)
					pending = false
				}
			}
		}
		settle := func(step int) {
			synctest.Wait()
			// "dial succeeds then the raw server peer closes the connection"
			mu.Lock()
			p := live
			mu.Unlock()
			if p != nil && cc.GetState() == connectivity.Ready {
				mu.Lock()
				live = nil
				mu.Unlock()
				p.Close()
				synctest.Wait()
			}
			observe(step)
		}
		settle(0)
		for i, ev := range hist {
			switch ev {
			case c20EvConnect:
				cc.Connect()
			case c20EvAdv500:
				time.Sleep(500 * time.Millisecond)
			case c20EvAdv1s:
				time.Sleep(time.Second)
			case c20EvAdv10s:
				time.Sleep(10 * time.Second)
			case c20EvReset:
				resetSince = true
				n = 0
				cc.ResetConnectBackoff()
			case c20EvOkNext:
				mu.Lock()
				okNext = true
				mu.Unlock()
			}
			settle(i + 1)
			if len(res.Fails) > 0 {
				break
			}
		}
		mu.Lock()
		res.Dials = append([]c20Dial(nil), dials...)
		mu.Unlock()
	})
	return
}

func c20HistString(h []int) string {
	s := make([]string, len(h))
	for i, e := range h {
		s[i] = c20Events[e]
	}
	return strings.Join(s, ",")
}

type c20Replay struct {
	Config string   `json:"config"`
	Events []string `json:"events"`
}

func TestVerif_C20_ChannelPacing(t *testing.T) {
	const P = "C20"
	r := vk.Start(t, "c20_channel_pacing", "exploration", P)
	defer r.Finish()
	depth := r.Pick(5, 7)
	preambles := [][]int{nil, {c20EvConnect, c20EvAdv10s}}
	r.Rule(P, fmt.Sprintf("every event history of length exactly %d (oracle checked after every prefix) over {connect, advance 500ms, advance 1s, advance 10s, ResetConnectBackoff, next-dial-succeeds-then-server-closes}, from 2 start points (fresh channel; channel after connect+10s of failures = retry index 4), for 2 backoff configs (base 1s, x2, max 8s, jitter 0 and 0.2), each in a fresh synctest bubble with a real grpc.ClientConn and a scripted dialer; non-trivial = distinct histories in which at least one redial gap was checked against the bound", depth))
	if r.ReplayFile() != "" {
		var rp c20Replay
		if err := r.LoadReplay(&rp); err != nil {
			r.EngineError("replay: %v", err)
			return
		}
		if rp.Config == "" { // leg A replay
			return
		}
		idx := map[string]int{}
		for i, e := range c20Events {
			idx[e] = i
		}
		var h []int
		for _, e := range rp.Events {
			h = append(h, idx[e])
		}
		for _, c := range c20ChanCfgs {
			if c.Name != rp.Config {
				continue
			}
			res := c20RunHistory(t, c, h)
			r.Eval(P, 1)
			fmt.Printf("replay config=%s events=%v dials=%v\n", c.Name, rp.Events, res.Dials)
			for _, f := range res.Fails {
				fmt.Printf("FAIL %s: %s\n", f.Class, f.Desc)
				r.Violation(P, "chan/"+f.Class+"/"+c.Name, f.Desc, rp)
			}
		}
		return
	}
	total := 1
	for i := 0; i < depth; i++ {
		total *= len(c20Events)
	}
	type job struct {
		cfg  int
		pre  int
		code int
	}
	jobs := make(chan job, 256)
	var wg sync.WaitGroup
	var smu sync.Mutex
	var evals, nontriv, gaps, resets, postok int64
	var idxCount [12]int64
	sampled := 0
	// Histories run strictly one after the other in a process (parallelism comes
	// from worker processes with GOMAXPROCS=1, see leg.json): go1.25.0 allocates
	// the runtime record that ties a sync.WaitGroup to its bubble without taking
	// the heap's special lock, so WaitGroups used on several Ms at once (here:
	// ClientConn.Close in concurrent bubbles) can spuriously die with "WaitGroup.Add
	// called from multiple synctest bubbles".
	workers := 1
	_ = runtime.GOMAXPROCS
	for w := 0; w < workers; w++ {
		wg.Add(1)
		go func() {
			defer wg.Done()
			for j := range jobs {
				h := append([]int(nil), preambles[j.pre]...)
				x := j.code
				tail := make([]int, depth)
				for k := depth - 1; k >= 0; k-- {
					tail[k] = x % len(c20Events)
					x /= len(c20Events)
				}
				h = append(h, tail...)
				cfg := c20ChanCfgs[j.cfg]
				res := c20RunHistory(t, cfg, h)
				for _, f := range res.Fails {
					if f.Class == "engine" {
						r.EngineError("%s", f.Desc)
						continue
					}
					fh := h
					if res.FailAt <= len(h) {
						fh = h[:res.FailAt]
					}
					evs := make([]string, len(fh))
					for i, e := range fh {
						evs[i] = c20Events[e]
					}
					r.Violation(P, "chan/"+f.Class+"/"+cfg.Name, f.Desc+"\n  config: "+fmt.Sprintf("%+v", cfg.Cfg)+"\n  history: "+c20HistString(fh)+"\n  dials: "+fmt.Sprint(res.Dials), c20Replay{Config: cfg.Name, Events: evs})
				}
				smu.Lock()
				evals++
				if res.Checked > 0 {
					nontriv++
				}
				gaps += int64(res.Checked)
				resets += int64(res.Resets)
				postok += int64(res.PostOK)
				for i, n := range res.IdxCount {
					idxCount[i] += int64(n)
				}
				if cfg.Name == "J0" {
					// fully deterministic config: detailed outcome classes
					r.Outcome(P, fmt.Sprintf("chan:dials=%d,ok=%d,gaps=%d,resetExcused=%d,maxIdx=%d", len(res.Dials), res.Succ, res.Checked, res.Resets, res.MaxIdx))
					if res.PostOK > 0 && res.Resets > 0 && sampled < 2 {
						sampled++
						r.Sample(P, map[string]any{"config": cfg.Name, "history": c20HistString(h), "dials": fmt.Sprint(res.Dials)})
					}
				} else {
					r.Outcome(P, "chan:jitter-config-run")
				}
				smu.Unlock()
			}
		}()
	}
	i := 0
	for c := range c20ChanCfgs {
		for p := range preambles {
			for code := 0; code < total; code++ {
				if r.Mine(i) {
					jobs <- job{c, p, code}
				}
				i++
			}
		}
	}
	close(jobs)
	wg.Wait()
	r.Eval(P, evals)
	r.NontrivialN(P, nontriv)
	r.AddInt(P, "chan_redial_gaps_checked", gaps)
	r.AddInt(P, "chan_short_gaps_excused_by_reset", resets)
	r.AddInt(P, "chan_gaps_checked_for_first_failure_after_success", postok)
	for i, n := range idxCount {
		if n > 0 {
			r.AddInt(P, fmt.Sprintf("chan_gaps_checked_at_retry_index_%02d", i), n)
		}
	}
	lo3, hi3 := c20MinMax(c20ChanCfgs[1].Cfg, 3)
	r.Sample(P, map[string]any{"config": "J0.2", "retry_index": 3, "allowed_wait": fmt.Sprintf("[%v, %v]", lo3, hi3), "big": new(big.Int).SetInt64(int64(hi3)).String()})
	r.Assume(P, "channel leg: one address, default pick_first, passthrough resolver, dials fail or succeed instantly; pick_first's automatic re-connect out of TRANSIENT_FAILURE is assumed (it makes the UPPER bound observable, which is how 'the index resets after a successful connection' is checked)")
	r.Assume(P, "channel leg: with jitter 0.2 the draw is not scripted; the oracle interval is draw-independent, the detailed outcome statistics are taken from the jitter-0 config only")
}
