//go:build verif

package backoff

import (
	"fmt"
	"math"
	"math/big"
	"sort"
	"strings"
	"testing"
	"time"

	grpcbackoff "google.golang.org/grpc/backoff"
	"google.golang.org/grpc/internal/verif/vk"
)

// ---- C20 leg A: Exponential.Backoff over a configuration grid, math/big oracle ----
//
// The package draws its jitter with math/rand/v2.Float64() directly (no seam),
// so the random answer r cannot be scripted. The oracle is therefore an
// interval that must hold for EVERY r in [0,1); each (config, n) is evaluated
// 64 (quick) / 512 (thorough) times so both halves of the jitter range are exercised.

const c20Prec = 8192 // bits; 53*70 < 4096, so every product below is exact

var c20MaxInt64 = big.NewInt(math.MaxInt64)

func c20F(x float64) *big.Float { return new(big.Float).SetPrec(c20Prec).SetFloat64(x) }
func c20I(x int64) *big.Float   { return new(big.Float).SetPrec(c20Prec).SetInt64(x) }

func c20Floor(f *big.Float) *big.Int {
	i, acc := f.Int(nil) // truncates toward zero
	if f.Sign() < 0 && acc != big.Exact {
		i.Sub(i, big.NewInt(1))
	}
	return i
}

func c20Ceil(f *big.Float) *big.Int {
	i, acc := f.Int(nil)
	if f.Sign() > 0 && acc != big.Exact {
		i.Add(i, big.NewInt(1))
	}
	return i
}

// C20Nominal returns min(base x mult^n, max) exactly (the un-jittered delay of
// the statement). Only meaningful for mult >= 1.
func C20Nominal(cfg grpcbackoff.Config, n int) *big.Float {
	x := c20I(int64(cfg.BaseDelay))
	m := c20F(cfg.Multiplier)
	for i := 0; i < n; i++ {
		x.Mul(x, m)
	}
	if mx := c20I(int64(cfg.MaxDelay)); x.Cmp(mx) > 0 {
		x = mx
	}
	return x
}

// C20Bounds returns the inclusive nanosecond interval the statement allows for
// retry count n >= 1, multiplier >= 1, jitter in [0,1]:
// [(1-J),(1+J)] x min(base x mult^n, max), widened by a relative 2^-40 (the
// implementation computes in float64, the statement does not demand exact
// arithmetic) and by truncation to whole nanoseconds, and saturated at MaxInt64.
// clamped reports whether max (not base x mult^n) is the nominal value;
// saturated whether the upper end had to be cut at MaxInt64.
func C20Bounds(cfg grpcbackoff.Config, n int) (lo, hi *big.Int, clamped, saturated bool) {
	x := C20Nominal(cfg, n)
	clamped = x.Cmp(c20I(int64(cfg.MaxDelay))) == 0 && n > 0
	one := c20I(1)
	j := c20F(cfg.Jitter)
	epsAbs := new(big.Float).SetPrec(c20Prec).SetMantExp(one, -50)
	epsRel := new(big.Float).SetPrec(c20Prec).SetMantExp(one, -40)
	fl := new(big.Float).SetPrec(c20Prec).Sub(one, j)
	fl.Sub(fl, epsAbs)
	fh := new(big.Float).SetPrec(c20Prec).Add(one, j)
	fh.Add(fh, epsAbs)
	l := new(big.Float).SetPrec(c20Prec).Mul(fl, x)
	l.Mul(l, new(big.Float).SetPrec(c20Prec).Sub(one, epsRel))
	h := new(big.Float).SetPrec(c20Prec).Mul(fh, x)
	h.Mul(h, new(big.Float).SetPrec(c20Prec).Add(one, epsRel))
	lo, hi = c20Floor(l), c20Ceil(h)
	if lo.Sign() < 0 {
		lo = big.NewInt(0)
	}
	if hi.Cmp(c20MaxInt64) > 0 {
		hi = new(big.Int).Set(c20MaxInt64)
		saturated = true
	}
	if lo.Cmp(c20MaxInt64) > 0 {
		lo = new(big.Int).Set(c20MaxInt64)
	}
	return
}

type c20Case struct {
	Base   int64   `json:"base_ns"`
	Mult   float64 `json:"multiplier"`
	Jitter float64 `json:"jitter"`
	Max    int64   `json:"max_ns"`
	N      int     `json:"retries"`
}

func (c c20Case) cfg() grpcbackoff.Config {
	return grpcbackoff.Config{BaseDelay: time.Duration(c.Base), Multiplier: c.Mult, Jitter: c.Jitter, MaxDelay: time.Duration(c.Max)}
}

func c20DurName(d int64) string {
	switch d {
	case math.MaxInt64:
		return "MaxInt64"
	case 0:
		return "0"
	}
	return time.Duration(d).String()
}

func (c c20Case) String() string {
	return fmt.Sprintf("{Base=%s Mult=%g Jitter=%g Max=%s retries=%d}", c20DurName(c.Base), c.Mult, c.Jitter, c20DurName(c.Max), c.N)
}

// c20Check evaluates one (config, n) with `draws` calls of the real function.
// It returns the failure class ("" if none), a description, and the outcome class.
func c20Check(c c20Case, draws int) (class, desc, outcome string) {
	e := Exponential{Config: c.cfg()}
	ranged := c.N >= 1 && c.Mult >= 1 && c.Jitter >= 0 && c.Jitter <= 1
	var lo, hi *big.Int
	var clamped, saturated bool
	if ranged {
		lo, hi, clamped, saturated = C20Bounds(c.cfg(), c.N)
	}
	for i := 0; i < draws; i++ {
		var got time.Duration
		var pan any
		func() {
			defer func() { pan = recover() }()
			got = e.Backoff(c.N)
		}()
		if pan != nil {
			return "panic", fmt.Sprintf("Backoff panicked for %v: %v", c, pan), "PANIC"
		}
		if got < 0 {
			return "negative/max=" + c20DurName(c.Max), fmt.Sprintf("Backoff%v = %d ns (%v): negative", c, int64(got), got), "NEGATIVE"
		}
		if c.N == 0 {
			if int64(got) != c.Base {
				return "retries0-not-base", fmt.Sprintf("Backoff%v = %d ns, want BaseDelay %d ns", c, int64(got), c.Base), "n0-WRONG"
			}
			continue
		}
		if ranged {
			g := big.NewInt(int64(got))
			if g.Cmp(lo) < 0 {
				return fmt.Sprintf("below-range/max=%s", c20DurName(c.Max)), fmt.Sprintf("Backoff%v = %d ns < (1-J) x min(base x mult^n, max) = %s ns", c, int64(got), lo), "BELOW"
			}
			if g.Cmp(hi) > 0 {
				return fmt.Sprintf("above-range/max=%s", c20DurName(c.Max)), fmt.Sprintf("Backoff%v = %d ns > (1+J) x min(base x mult^n, max) = %s ns", c, int64(got), hi), "ABOVE"
			}
		}
	}
	switch {
	case c.N == 0:
		outcome = "n0-base"
	case !ranged:
		outcome = "nonneg-only(mult<1 or jitter>1)"
	case hi.Sign() == 0:
		outcome = "in-range/zero"
	case saturated:
		outcome = "in-range/saturated-at-MaxInt64"
	case clamped:
		outcome = "in-range/clamped-to-max"
	default:
		outcome = "in-range/growing"
	}
	return "", "", outcome
}

func TestVerif_C20_BackoffFn(t *testing.T) {
	const P = "C20"
	r := vk.Start(t, "c20_backoff_fn", "exploration", P)
	defer r.Finish()
	draws := r.Pick(64, 512)
	r.Rule(P, fmt.Sprintf("every (BaseDelay, Multiplier, Jitter, MaxDelay, retries) in {0,1ns,1s} x {0.5,1,1.6,1e6} x {0,0.2,1,1.5} x {0,1s,120s,MaxInt64} x 0..70, each evaluated %d times on the real Exponential.Backoff (the jitter draw is not controllable; the oracle interval holds for every r in [0,1)); oracle in math/big at %d-bit precision; non-trivial = distinct (config, retries) with retries>=1, multiplier>=1, jitter in [0,1] and a non-zero nominal delay (the ranged clause applies and is not 0=0)", draws, c20Prec))
	if r.ReplayFile() != "" {
		var rp struct {
			Inputs []c20Case `json:"inputs"`
		}
		if err := r.LoadReplay(&rp); err != nil {
			r.EngineError("replay: %v", err)
			return
		}
		for _, c := range rp.Inputs {
			class, desc, out := c20Check(c, draws)
			r.Eval(P, 1)
			fmt.Printf("replay %v: class=%q outcome=%s %s\n", c, class, out, desc)
			if class != "" {
				r.Violation(P, class, desc, map[string]any{"inputs": []c20Case{c}})
			}
		}
		return
	}
	bases := []int64{0, 1, int64(time.Second)}
	mults := []float64{0.5, 1, 1.6, 1e6}
	jits := []float64{0, 0.2, 1, 1.5}
	maxes := []int64{0, int64(time.Second), int64(120 * time.Second), math.MaxInt64}
	type failure struct {
		c    c20Case
		desc string
	}
	fails := map[string][]failure{}
	var evals, nontriv int64
	for _, b := range bases {
		for _, m := range mults {
			for _, j := range jits {
				for _, mx := range maxes {
					for n := 0; n <= 70; n++ {
						c := c20Case{Base: b, Mult: m, Jitter: j, Max: mx, N: n}
						class, desc, out := c20Check(c, draws)
						evals++
						r.Outcome(P, out)
						if class != "" {
							fails[class] = append(fails[class], failure{c, desc})
						}
						if n >= 1 && m >= 1 && j <= 1 && C20Nominal(c.cfg(), n).Sign() > 0 {
							nontriv++
						}
					}
				}
			}
		}
	}
	r.Eval(P, evals)
	r.NontrivialN(P, nontriv)
	r.Set(P, "draws_per_case", draws)
	r.Set(P, "calls_of_real_function", evals*int64(draws))
	classes := make([]string, 0, len(fails))
	for k := range fails {
		classes = append(classes, k)
	}
	sort.Strings(classes)
	for _, k := range classes {
		fs := fails[k]
		var sb strings.Builder
		det := 0
		for _, f := range fs {
			if f.c.Jitter == 0 {
				det++
			}
		}
		fmt.Fprintf(&sb, "%d failing (config, retries) inputs with Jitter=0 (deterministic) and %d with Jitter>0 (whether a borderline one fails depends on the un-scripted jitter draw). First: %s\nFailing inputs (smallest retries per configuration):", det, len(fs)-det, fs[0].desc)
		seen := map[string]bool{}
		var inputs []c20Case
		for _, f := range fs {
			ck := fmt.Sprintf("%d/%g/%g/%d", f.c.Base, f.c.Mult, f.c.Jitter, f.c.Max)
			if seen[ck] {
				continue
			}
			seen[ck] = true
			cnt := 0
			for _, g := range fs {
				if g.c.Base == f.c.Base && g.c.Mult == f.c.Mult && g.c.Jitter == f.c.Jitter && g.c.Max == f.c.Max {
					cnt++
				}
			}
			fmt.Fprintf(&sb, "\n  Base=%s Mult=%g Jitter=%g Max=%s: retries>=%d (%d values up to 70)", c20DurName(f.c.Base), f.c.Mult, f.c.Jitter, c20DurName(f.c.Max), f.c.N, cnt)
			if len(inputs) < 8 {
				inputs = append(inputs, f.c)
			}
		}
		r.Violation(P, k, sb.String(), map[string]any{"inputs": inputs})
	}
	smp := func(c c20Case) {
		lo, hi, _, _ := C20Bounds(c.cfg(), c.N)
		got := Exponential{Config: c.cfg()}.Backoff(c.N)
		r.Sample(P, map[string]any{"input": c.String(), "oracle_lo_ns": lo.String(), "oracle_hi_ns": hi.String(), "real_result_ns": int64(got)})
	}
	smp(c20Case{Base: int64(time.Second), Mult: 1.6, Jitter: 0.2, Max: int64(120 * time.Second), N: 3})
	smp(c20Case{Base: int64(time.Second), Mult: 1.6, Jitter: 0.2, Max: int64(120 * time.Second), N: 40})
	smp(c20Case{Base: int64(time.Second), Mult: 1e6, Jitter: 0, Max: math.MaxInt64, N: 2})
	smp(c20Case{Base: 1, Mult: 1.6, Jitter: 1, Max: math.MaxInt64, N: 70})
	r.Assume(P, "the jitter draw r (math/rand/v2.Float64, no seam in internal/backoff) is not scripted: the interval oracle is r-independent, but the exact extremes r=0 and r=1-2^-53 are not driven")
	r.Assume(P, "tolerance: the allowed interval is widened by 2^-40 relative / 2^-50 on the jitter factor and by truncation to whole ns (float64 evaluation of the statement's real-number formula)")
}
