//go:build verif

package backoff_test

import (
	"context"
	"errors"
	"fmt"
	"net"
	"strings"
	"sync"
	"testing"
	"testing/synctest"
	"time"

	"google.golang.org/grpc"
	"google.golang.org/grpc/balancer"
	"google.golang.org/grpc/balancer/base"
	"google.golang.org/grpc/connectivity"
	"google.golang.org/grpc/credentials/insecure"
	"google.golang.org/grpc/internal/verif/wire"
	"google.golang.org/grpc/resolver"
)

// ---- C20 leg B, second scenario: ONE subchannel driven through the LB-policy API ----
//
// A stub LB policy owns a single SubConn. It connects it when the channel
// leaves idle (cc.Connect), re-connects it by itself when it comes back to
// IDLE after TRANSIENT_FAILURE (like pick_first does), stays idle after a READY
// connection was lost, and lets the harness call SubConn.UpdateAddresses with
// the same / a different / a superset / an empty address list at any moment:
// in IDLE, in CONNECTING with a dial in flight (dial latency pass), in
// TRANSIENT_FAILURE during the backoff, and in READY.
//
// Oracle (statement only, from the dialer's own log): the dials of the
// subchannel are grouped into connection attempts (one pass over the address
// list that was in effect when the pass began; each next address is dialed at
// the instant the previous dial failed). No attempt may start sooner than the
// backoff for the consecutive-failure index after the previous FAILED attempt
// ended, unless ResetConnectBackoff intervened; the index restarts only after a
// successful dial or ResetConnectBackoff - an address-list change does neither.

const c20StubName = "c20_stub_lb"

type c20StubLB struct {
	cc     balancer.ClientConn
	mu     sync.Mutex
	sc     balancer.SubConn
	state  connectivity.State
	wasTF  bool
	closed bool
	wantConnect bool
}

type c20StubBuilder struct{}

var (
	c20StubMu   sync.Mutex
	c20StubLast *c20StubLB
)

func (c20StubBuilder) Name() string { return c20StubName }
func (c20StubBuilder) Build(cc balancer.ClientConn, _ balancer.BuildOptions) balancer.Balancer {
	b := &c20StubLB{cc: cc, state: connectivity.Idle}
	c20StubMu.Lock()
	c20StubLast = b
	c20StubMu.Unlock()
	return b
}

func init() { balancer.Register(c20StubBuilder{}) }

func (b *c20StubLB) UpdateClientConnState(s balancer.ClientConnState) error {
	b.mu.Lock()
	defer b.mu.Unlock()
	if b.sc != nil || b.closed {
		return nil
	}
	sc, err := b.cc.NewSubConn(s.ResolverState.Addresses, balancer.NewSubConnOptions{StateListener: b.onState})
	if err != nil {
		return err
	}
	b.sc = sc
	if b.wantConnect {
		sc.Connect()
	}
	b.cc.UpdateState(balancer.State{ConnectivityState: connectivity.Idle, Picker: base.NewErrPicker(balancer.ErrNoSubConnAvailable)})
	return nil
}

func (b *c20StubLB) onState(s balancer.SubConnState) {
	b.mu.Lock()
	prevTF := b.wasTF
	b.state = s.ConnectivityState
	switch s.ConnectivityState {
	case connectivity.TransientFailure:
		b.wasTF = true
	case connectivity.Ready:
		b.wasTF = false
	}
	sc, closed := b.sc, b.closed
	b.mu.Unlock()
	if closed || s.ConnectivityState == connectivity.Shutdown {
		return
	}
	b.cc.UpdateState(balancer.State{ConnectivityState: s.ConnectivityState, Picker: base.NewErrPicker(balancer.ErrNoSubConnAvailable)})
	if s.ConnectivityState == connectivity.Idle && prevTF {
		// keep re-connecting a failing subchannel; its own backoff paces it
		sc.Connect()
	}
}

func (b *c20StubLB) ResolverError(error)                                      {}
func (b *c20StubLB) UpdateSubConnState(balancer.SubConn, balancer.SubConnState) {}
func (b *c20StubLB) Close() {
	b.mu.Lock()
	b.closed = true
	b.mu.Unlock()
}
func (b *c20StubLB) ExitIdle() {
	b.mu.Lock()
	sc := b.sc
	if sc == nil {
		b.wantConnect = true
	}
	b.mu.Unlock()
	if sc != nil {
		sc.Connect()
	}
}
func (b *c20StubLB) scState() connectivity.State {
	b.mu.Lock()
	defer b.mu.Unlock()
	return b.state
}

var c20LBEvents = []string{"connect", "adv500ms", "adv10s", "reset", "okNext", "srvClose", "updSame", "updDiff", "updSuper", "updEmpty"}

const (
	c20LBConnect = iota
	c20LBAdv500
	c20LBAdv10s
	c20LBReset
	c20LBOkNext
	c20LBSrvClose
	c20LBUpdSame
	c20LBUpdDiff
	c20LBUpdSuper
	c20LBUpdEmpty
)

type c20LBDial struct {
	Start, End time.Duration
	Addr       string
	Res        string   // "fail", "ok", "cancelled", "" while in flight
	List       []string // address list in effect (harness view) when the dial started
}

func (d c20LBDial) String() string {
	return fmt.Sprintf("%v..%v:%s:%s", d.Start, d.End, d.Addr, d.Res)
}

type c20LBResult struct {
	Fails    []c20Fail
	FailAt   int
	Dials    []c20LBDial
	Checked  int
	Resets   int
	Succ     int
	Attempts int
	// UpdateAddresses calls issued, by subchannel state at the time of the call and kind
	Upd map[string]int
	// gaps judged where an address-list change happened between the failed attempt and the next one
	CheckedAfterUpd int
	EmptyAmbig      int // times the retry index became a lower estimate because the list was emptied
	IdxCount        [12]int
}

var c20LBAddrA, c20LBAddrB = "c20.addr.a:1", "c20.addr.b:1"

func c20LBList(names []string) []resolver.Address {
	out := make([]resolver.Address, len(names))
	for i, n := range names {
		out[i] = resolver.Address{Addr: n}
	}
	return out
}

func c20RunLBHistory(t *testing.T, cfg c20ChanCfg, latency time.Duration, hist []int) (res c20LBResult) {
	res.Upd = map[string]int{}
	defer func() {
		if p := recover(); p != nil {
			res.Fails = append(res.Fails, c20Fail{"panic", fmt.Sprint(p)})
		}
	}()
	synctest.Test(t, func(t *testing.T) {
		start := time.Now()
		var mu sync.Mutex
		var dials []c20LBDial
		cur := []string{c20LBAddrA}
		okNext := false
		var live *wire.Peer
		var peers []*wire.Peer
		dialer := func(ctx context.Context, addr string) (net.Conn, error) {
			mu.Lock()
			ok := okNext
			okNext = false
			i := len(dials)
			dials = append(dials, c20LBDial{Start: time.Since(start), Addr: addr, List: append([]string(nil), cur...)})
			mu.Unlock()
			finish := func(r string) {
				mu.Lock()
				dials[i].End, dials[i].Res = time.Since(start), r
				mu.Unlock()
			}
			if latency > 0 {
				tm := time.NewTimer(latency)
				select {
				case <-tm.C:
				case <-ctx.Done():
					tm.Stop()
					finish("cancelled")
					return nil, ctx.Err()
				}
			} else if ctx.Err() != nil {
				finish("cancelled")
				return nil, ctx.Err()
			}
			if !ok {
				finish("fail")
				return nil, errors.New("c20: scripted dial failure")
			}
			c, s := wire.Pipe()
			p := wire.NewServerPeer(s)
			p.AutoAckSettings = true
			p.AutoAckPing = true
			p.WriteSettings()
			mu.Lock()
			live = p
			peers = append(peers, p)
			mu.Unlock()
			finish("ok")
			return c, nil
		}
		c20StubMu.Lock()
		c20StubLast = nil
		c20StubMu.Unlock()
		cc, err := grpc.NewClient("passthrough:///"+c20LBAddrA,
			grpc.WithContextDialer(dialer),
			grpc.WithTransportCredentials(insecure.NewCredentials()),
			grpc.WithDefaultServiceConfig(`{"loadBalancingConfig":[{"`+c20StubName+`":{}}]}`),
			grpc.WithConnectParams(grpc.ConnectParams{Backoff: cfg.Cfg, MinConnectTimeout: time.Second}))
		if err != nil {
			res.Fails = append(res.Fails, c20Fail{"engine", "NewClient: " + err.Error()})
			return
		}
		defer func() {
			cc.Close()
			mu.Lock()
			ps := peers
			mu.Unlock()
			for _, p := range ps {
				p.Close()
			}
			synctest.Wait()
		}()
		var lb *c20StubLB
		getLB := func() *c20StubLB {
			if lb == nil {
				c20StubMu.Lock()
				lb = c20StubLast
				c20StubMu.Unlock()
			}
			return lb
		}
		fail := func(step int, class, f string, a ...any) {
			if len(res.Fails) == 0 {
				res.FailAt = step
			}
			res.Fails = append(res.Fails, c20Fail{class, fmt.Sprintf(f, a...)})
		}

		// ---- reference model ----
		n := 0 // consecutive failed attempts since the last successful dial / reset
		seen := 0
		// current pass
		var passList []string
		passPos := 0          // next index of passList expected
		passOpen := false     // a pass is in progress (last dial of it known)
		var passLastEnd time.Duration
		passLastRes := ""
		// last completed FAILED pass not yet followed by a new pass
		pending := false
		var failAt time.Duration
		failIdx := 0
		resetSince := false
		updSince := false
		emptySince := false
		// ambig: the address list has been empty since the last successful dial /
		// reset. A pass over an empty list dials nothing, so it is invisible to the
		// dialer log and the statement does not say whether it counts as a failed
		// or a successful attempt; from then on n is only a LOWER estimate of the
		// consecutive-failure index (lower bounds stay sound, upper bounds are
		// not judged) until a successful dial or a reset makes it known again.
		ambig := false
		closePass := func() {
			if !passOpen {
				return
			}
			passOpen = false
			switch {
			case passLastRes == "fail" && passPos == len(passList):
				pending, failAt, failIdx = true, passLastEnd, n
				n++
				resetSince, updSince = false, false
				emptySince = len(cur) == 0
			default:
				// succeeded, cancelled or abandoned part-way: no failed attempt
				pending = false
			}
		}
		observe := func(step int) {
			mu.Lock()
			ds := make([]c20LBDial, len(dials))
			copy(ds, dials)
			mu.Unlock()
			for seen < len(ds) {
				d := ds[seen]
				if d.Res == "" {
					break // in flight: judge it once it has ended
				}
				cont := passOpen && passLastRes == "fail" && passPos < len(passList) && d.Start == passLastEnd && d.Addr == passList[passPos]
				if !cont {
					closePass()
					// a new attempt starts with this dial
					res.Attempts++
					if pending {
						lo, _ := c20MinMax(cfg.Cfg, failIdx)
						gap := d.Start - failAt
						if resetSince {
							res.Resets++
						} else {
							res.Checked++
							res.IdxCount[min(failIdx, 11)]++
							if updSince {
								res.CheckedAfterUpd++
							}
							if _, hi := c20MinMax(cfg.Cfg, failIdx); gap > hi && !emptySince && !ambig {
								fail(step, "late-redial", "attempt to %s started at %v, %v after the previous attempt failed at %v; consecutive failure index %d allows at most %v (the index restarts only after READY / ResetConnectBackoff)", d.Addr, d.Start, gap, failAt, failIdx, hi)
							}
							if gap < lo {
								fail(step, "early-redial", "attempt to %s started at %v, only %v after the subchannel's previous attempt failed at %v; that was consecutive failure index %d, so the wait must be >= %v (no ResetConnectBackoff in between; address list changed in between: %v)", d.Addr, d.Start, gap, failAt, failIdx, lo, updSince)
							}
						}
						pending = false
					}
					passList, passPos, passOpen = d.List, 0, true
					if len(passList) == 0 || d.Addr != passList[0] {
						// dial to an address the harness did not expect first: keep
						// it as a one-dial pass
						passList = []string{d.Addr}
					}
				}
				passPos++
				passLastEnd, passLastRes = d.End, d.Res
				if d.Res == "ok" {
					n = 0
					ambig = false
					res.Succ++
					closePass()
				}
				seen++
			}
			// a pass whose last dial failed and which has no address left is over
			if passOpen && passLastRes == "fail" && passPos == len(passList) {
				closePass()
			}
			if passOpen && passLastRes == "cancelled" {
				closePass()
			}
			// the stub re-connects a failed subchannel by itself: once the maximal
			// wait has elapsed a new attempt must have started (only judged while
			// the address list was never empty since the failure).
			if pending && !emptySince && !ambig && !resetSince && seen == len(ds) {
				_, hi := c20MinMax(cfg.Cfg, failIdx)
				if now := time.Since(start); now-failAt > hi {
					fail(step, "no-redial", "at %v: no attempt since the failed attempt ended at %v (index %d, maximal wait %v)", now, failAt, failIdx, hi)
					pending = false
				}
			}
		}
		settle := func(step int) {
			synctest.Wait()
			observe(step)
		}
		update := func(kind string, list []string) {
			b := getLB()
			if b == nil || b.sc == nil {
				return
			}
			st := b.scState().String()
			if st == "CONNECTING" {
				mu.Lock()
				if len(dials) > 0 && dials[len(dials)-1].Res == "" {
					st = "CONNECTING(dial in flight)"
				}
				mu.Unlock()
			}
			if st == "TRANSIENT_FAILURE" {
				st = "TRANSIENT_FAILURE(backoff)"
			}
			res.Upd[kind+"@"+st]++
			same := strings.Join(list, ",") == strings.Join(cur, ",")
			mu.Lock()
			cur = list
			mu.Unlock()
			if !same {
				updSince = true
			}
			if len(list) == 0 {
				emptySince = true
				if !ambig {
					res.EmptyAmbig++
				}
				ambig, n = true, 0
			}
			b.cc.UpdateAddresses(b.sc, c20LBList(list))
		}
		settle(0)
		for i, ev := range hist {
			switch ev {
			case c20LBConnect:
				cc.Connect()
			case c20LBAdv500:
				time.Sleep(500 * time.Millisecond)
			case c20LBAdv10s:
				time.Sleep(10 * time.Second)
			case c20LBReset:
				resetSince = true
				n = 0
				ambig = false
				cc.ResetConnectBackoff()
			case c20LBOkNext:
				mu.Lock()
				okNext = true
				mu.Unlock()
			case c20LBSrvClose:
				mu.Lock()
				p := live
				live = nil
				mu.Unlock()
				if p != nil {
					p.Close()
				}
			case c20LBUpdSame:
				update("same", append([]string(nil), cur...))
			case c20LBUpdDiff:
				if len(cur) == 1 && cur[0] == c20LBAddrB {
					update("different", []string{c20LBAddrA})
				} else {
					update("different", []string{c20LBAddrB})
				}
			case c20LBUpdSuper:
				update("superset", []string{c20LBAddrA, c20LBAddrB})
			case c20LBUpdEmpty:
				update("empty", nil)
			}
			settle(i + 1)
			if len(res.Fails) > 0 {
				break
			}
		}
		mu.Lock()
		res.Dials = append([]c20LBDial(nil), dials...)
		mu.Unlock()
	})
	return
}

func c20LBHistString(h []int) string {
	s := make([]string, len(h))
	for i, e := range h {
		s[i] = c20LBEvents[e]
	}
	return strings.Join(s, ",")
}
