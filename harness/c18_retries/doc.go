//go:build verif

// Package h_c18 hosts the E4 retry harnesses (C18 retries bounded /
// policy-driven / exact replay, and the timing leg of C19): a real
// grpc.ClientConn with a service-config retry policy against scripted raw
// HTTP/2 server peers inside a synctest bubble.
package h_c18
