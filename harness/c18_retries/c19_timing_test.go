//go:build verif

package h_c18

// C19, E4 legs (reuse the C18 kit):
//
//  (1) timing: for every backoff menu entry and every script of 4 failing
//      attempts over {plain UNAVAILABLE, pushback 0, pushback 2000, REFUSED,
//      GOAWAY, connection loss}, the virtual-time gap between the instant the
//      server ended attempt n and the instant attempt n+1's HEADERS reached the
//      server is compared with the statement: exactly the pushback when one was
//      given, otherwise within [0.8, 1.2] x min(initial x multiplier^k, max),
//      k = retries since the last pushback (reference in math/big).
//      stream.go draws the jitter with math/rand/v2's global rand.Float64(): there
//      is no seam to force the extremes, so the interval is asserted for whatever
//      is drawn (thousands of independent draws per run; the observed position
//      inside the interval is tallied per fifth as vacuity statistics).
//
//  (2) throttling integration: sequences of unary RPCs on ONE channel with
//      retryThrottling, each RPC's first attempt(s) scripted; the reference token
//      bucket (big.Rat) carried across RPCs predicts which retries are refused:
//      a retryable failure and a do-not-retry pushback (negative, malformed, two
//      values) remove a token, a successful RPC adds tokenRatio, a retry is
//      refused iff tokens <= maxTokens/2 after the removal.

import (
	"fmt"
	"strings"
	"testing"

	"google.golang.org/grpc/internal/verif/vk"
)

type c19Stats struct {
	hist, gaps, c18fails int64
}

func c19Report(r *vk.Run, c c18Case, obs *c18Obs, problem string, throttleLeg bool, st *c19Stats) {
	r.Eval("C19", 1)
	st.hist++
	if obs == nil {
		r.EngineError("history %s: %s", c, problem)
		return
	}
	j := c18Judge(c, obs)
	if problem != "" {
		r.EngineError("history %s: %s", c, problem)
	}
	for _, en := range j.Engine {
		r.EngineError("history %s: %s", c, en)
	}
	for _, f := range j.Fails {
		if throttleLeg && (f.Class == "extra-attempt" || f.Class == "missing-retry") {
			r.Violation("C19", "throttle|"+c.String()+"|"+f.Class, "retry decision differs from the reference token bucket: "+f.Desc+fmt.Sprintf("\n  history: %s\n  decisions: %s", c, strings.Join(j.Decisions, " ; ")), c)
			continue
		}
		st.c18fails++
		r.AddInt("C19", "histories_with_c18_findings_not_judged_here", 1)
	}
	if j.Retries > 0 {
		r.NontrivialN("C19", 1)
	}
	for _, tm := range j.Timings {
		st.gaps++
		ok, desc, bucket := c18TimingCheck(tm)
		if !ok {
			dir := "outside"
			if !tm.Next.Exact {
				lo, _ := c18BackoffBase(c18Backoffs[c.Cfg.Backoff], tm.Next.K).Float64()
				if float64(tm.Gap) < lo {
					dir = "below"
				} else {
					dir = "above"
				}
				// the key names the policy and exponent, not the history: the jitter draw is not controllable
				r.Violation("C19", fmt.Sprintf("timing|backoff menu %d|k=%d|%s the interval", c.Cfg.Backoff, tm.Next.K, dir), desc+fmt.Sprintf("\n  policy: %+v\n  history: %s (re-running draws new jitter values)", c18Backoffs[c.Cfg.Backoff], c), c)
			} else {
				r.Violation("C19", fmt.Sprintf("timing|%s|%s|%v", c.String(), tm.Next.Why, tm.Next.Delay), desc+"\n  history: "+c.String(), c)
			}
			continue
		}
		r.Outcome("C19", bucket)
	}
	if throttleLeg {
		r.Outcome("C19", "throttle: "+strings.Join(j.Decisions, " ; ")+" tokens "+strings.Join(j.Tokens, ","))
		for _, d := range j.Decisions {
			if strings.Contains(d, "none(throttled)") {
				r.AddInt("C19", "retries_refused_by_the_reference_bucket", 1)
			}
			if strings.Contains(d, "none(maximum attempts reached)") {
				r.AddInt("C19", "rpcs_exhausting_max_attempts", 1)
			}
		}
	}
	if j.Retries >= 3 || (throttleLeg && j.Retries >= 1) {
		var gs []string
		for _, tm := range j.Timings {
			gs = append(gs, fmt.Sprintf("rpc%d after attempt %d: %v (%s)", tm.RPC, tm.Attempt, tm.Gap, tm.Next))
		}
		r.Sample("C19", map[string]any{"history": c.String(), "decisions": j.Decisions, "gaps": gs})
	}
}

func TestVerif_C19_Timing(t *testing.T) {
	r := vk.Start(t, "c19_timing", "exploration", "C19")
	defer r.Finish()
	r.Rule("C19", "timing: (backoff menu entry of 6: capped, never capped with multiplier 1.5, initial above cap, multiplier 0.5, nanosecond scale, seconds scale) x client {unary; thorough also client-stream with the failure noticed inside SendMsg, bidi} x ALL scripts of 4 failing attempts over the alphabet (quick {unavail, push0, push2000, close}; thorough + {refused, goaway}) followed by OK; throttling: maxAttempts in {2,3} x (maxTokens, tokenRatio) in {(3,1),(4,1),(6,1),(5,0.5),(6,0.5),(4,0.25)} (thorough + (5,1),(8,0.5)) x ALL sequences of 3 (thorough 4) unary RPCs on one channel, each RPC scripted per attempt from 12 scripts covering success at once / after retries (also OK trailers carrying pushback -1), non-retryable status, do-not-retry pushback (-1, malformed, two values), pushback 0 and exhausting maxAttempts with retryable failures; the reference bucket (every retryable failure or do-not-retry pushback removes a token whether or not a further attempt is allowed, every successful RPC adds tokenRatio, clamped to [0,maxTokens], retry refused iff tokens <= maxTokens/2 after the removal) is carried across the RPCs and must predict the attempt count of every RPC; non-trivial = at least one retry happened (a gap or a throttle decision was judged); every history is a distinct input")
	r.Assume("C19", "the jitter source (math/rand/v2 global) cannot be driven: the interval is asserted for the values drawn; delays are whole nanoseconds so [0.8b,1.2b] is widened to the enclosing integers; the end of attempt n is the instant the raw server wrote its terminal frame (the driver never lets virtual time pass between that and the client's next stream operation); reconnecting after GOAWAY / connection loss takes no virtual time with the in-memory dialer")
	r.Assume("C19", "throttling leg: committed failures (response headers received, buffer exceeded) are not in the alphabet: whether they should cost a token is read differently by gRFC A6 and the code comment; trusted: synctest virtual time, the raw peer's frame log, the byte-stream time-stamper c18TimedConn")
	st := &c19Stats{}
	if r.ReplayFile() != "" {
		var c c18Case
		if err := r.LoadReplay(&c); err != nil {
			r.EngineError("replay: %v", err)
			return
		}
		obs, problem := c18Run(t, c)
		c19Report(r, c, obs, problem, c.Cfg.Throttle > 0, st)
		return
	}
	idx := 0
	capped := false
	run := func(c c18Case, throttle bool) {
		i := idx
		idx++
		if !r.Mine(i) || capped {
			return
		}
		if r.OverBudget() || r.NViolations("C19") >= c18MaxViolations {
			capped = true
			return
		}
		obs, problem := c18Run(t, c)
		c19Report(r, c, obs, problem, throttle, st)
	}

	// ---- (1) timing
	alpha := []int{c18BUnavail, c18BPush0, c18BPush2000, c18BClose}
	clients := []c18RPCSpec{{Client: "unary", When: c18WhenLate}}
	if r.Thorough() {
		alpha = append(alpha, c18BRefused, c18BGoAway)
		clients = append(clients, c18RPCSpec{Client: "cs2", When: 0}, c18RPCSpec{Client: "bidi", When: c18WhenLate})
	}
	const L = 4
	for bo := range c18Backoffs {
		for _, cl := range clients {
			n := 1
			for i := 0; i < L; i++ {
				n *= len(alpha)
			}
			for code := 0; code < n; code++ {
				s := make([]int, L)
				for i, x := 0, code; i < L; i, x = i+1, x/len(alpha) {
					s[i] = alpha[x%len(alpha)]
				}
				spec := cl
				spec.Script = s
				run(c18Case{Cfg: c18Cfg{MaxAttempts: 7, Buf: 1 << 20, Backoff: bo}, Pad: c18BOK, RPCs: []c18RPCSpec{spec}}, false)
			}
		}
	}
	// ---- (2) throttling across RPCs: the token ledger over sequences of RPCs on one channel
	U, P, I, N, X, V, OK, OKP := c18BUnavail, c18BPush0, c18BInternal, c18BPushNeg, c18BPushBad, c18BPushTwo, c18BOK, c18BOKPushNeg
	// per-RPC attempt scripts (attempts beyond a script are answered OK): every
	// way an RPC can end within maxAttempts - success at once / after retries,
	// non-retryable status, do-not-retry pushback (negative, malformed, two
	// values), pushback 0, and EXHAUSTING maxAttempts with retryable failures.
	scriptsFor := map[int][][]int{
		2: {{OK}, {OKP}, {I}, {N}, {X}, {V}, {U, OK}, {U, U}, {U, I}, {U, N}, {P, OK}, {P, U}},
		3: {{OK}, {OKP}, {I}, {N}, {U, OK}, {U, U, OK}, {U, U, U}, {U, I}, {U, U, N}, {P, U, U}, {U, P, OK}, {U, U, X}},
	}
	type menu struct {
		max   int
		ratio string
	}
	// buckets within a few failures of the half-way refusal boundary
	menus := []menu{{3, ""}, {4, ""}, {6, ""}, {5, "0.5"}, {6, "0.5"}, {4, "0.25"}}
	if r.Thorough() {
		menus = append(menus, menu{5, ""}, menu{8, "0.5"})
	}
	nrpc := r.Pick(3, 4)
	for _, ma := range []int{2, 3} {
		scripts := scriptsFor[ma]
		total := 1
		for i := 0; i < nrpc; i++ {
			total *= len(scripts)
		}
		for _, mn := range menus {
			for code := 0; code < total; code++ {
				var rpcs []c18RPCSpec
				for i, x := 0, code; i < nrpc; i, x = i+1, x/len(scripts) {
					rpcs = append(rpcs, c18RPCSpec{Client: "unary", When: c18WhenLate, Script: scripts[x%len(scripts)]})
				}
				run(c18Case{Cfg: c18Cfg{MaxAttempts: ma, Buf: 1 << 20, Throttle: mn.max, Ratio: mn.ratio}, Pad: c18BOK, RPCs: rpcs}, true)
			}
		}
	}
	if capped {
		r.Cap("C19", "time budget reached (or exploration stopped after the first violations)")
	}
	r.AddInt("C19", "retry_gaps_judged", st.gaps)
	if sh, _ := r.Shard(); sh == 0 {
		r.Set("C19", "histories_total_all_shards", idx)
	}
	if st.hist > 20 && st.gaps == 0 {
		r.EngineError("vacuous: %d histories, no retry gap judged", st.hist)
	}
}
