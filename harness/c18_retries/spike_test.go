//go:build verif

package h_c18

import (
	"encoding/json"
	"os"
	"testing"
)

func TestVerif_C18_Spike(t *testing.T) {
	if os.Getenv("C18_SPIKE") == "" {
		t.Skip()
	}
	var c c18Case
	if err := json.Unmarshal([]byte(os.Getenv("C18_SPIKE")), &c); err != nil {
		t.Fatal(err)
	}
	obs, problem := c18Run(t, c)
	b, _ := json.MarshalIndent(obs, "", " ")
	t.Logf("case %s\nproblem=%q\n%s", c, problem, b)
	if obs != nil {
		j := c18Judge(c, obs)
		t.Logf("fails=%+v engine=%v decisions=%v", j.Fails, j.Engine, j.Decisions)
		for _, tm := range j.Timings {
			ok, d, bk := c18TimingCheck(tm)
			t.Logf("timing rpc%d att%d gap=%v next=%s ok=%v %s %s", tm.RPC, tm.Attempt, tm.Gap, tm.Next, ok, d, bk)
		}
	}
}
