//go:build verif

package h_c18

// C18: retries are bounded, policy-driven and replay the exact request.
//
// Every history = (channel/call configuration, client script, server timing,
// per-attempt server script) runs in its own bubble against the real
// ClientConn (kit_test.go) and is judged against the reference gRFC A6 model
// c18Model written from the property statement.  Server scripts are enumerated
// as a prefix tree: a script is followed by an endless padding of plain
// retryable failures (trailers-only UNAVAILABLE), and a prefix is extended by
// every alphabet symbol exactly when the run made an attempt beyond it, so all
// scripts up to the depth bound that can be told apart are executed once.

import (
	"fmt"
	"strings"
	"testing"

	"google.golang.org/grpc/internal/verif/vk"
)

type c18Root struct {
	Cfg    c18Cfg
	Client string
	When   int
}

func c18Roots(thorough bool) []c18Root {
	const tiny, mid, big = 2, 17, 1 << 20 // messages are 10 payload bytes (15 framed): tiny < 1 message <= mid < 2 messages
	var cfgs []c18Cfg
	if thorough {
		for _, ma := range []int{2, 3, 7} {
			for _, cm := range []int{0, 3} {
				for _, nr := range []bool{false, true} {
					for _, buf := range []int{tiny, mid, big} {
						for _, th := range []int{0, 3} {
							cfgs = append(cfgs, c18Cfg{MaxAttempts: ma, ChanMax: cm, DisableRetry: nr, Buf: buf, Throttle: th})
						}
					}
				}
			}
		}
	} else {
		for _, ma := range []int{2, 3, 7} {
			for _, nr := range []bool{false, true} {
				for _, buf := range []int{tiny, big} {
					cfgs = append(cfgs, c18Cfg{MaxAttempts: ma, DisableRetry: nr, Buf: buf})
				}
			}
		}
		cfgs = append(cfgs,
			c18Cfg{MaxAttempts: 3, Buf: mid},
			c18Cfg{MaxAttempts: 7, Buf: big, Throttle: 3},
			c18Cfg{MaxAttempts: 7, ChanMax: 3, Buf: big})
	}
	whens := []int{0, 1, c18WhenLate}
	if thorough {
		whens = []int{0, 1, 2, c18WhenLate}
	}
	var out []c18Root
	for _, cfg := range cfgs {
		for _, cl := range c18ClientNames {
			if cl == "unary" {
				out = append(out, c18Root{cfg, cl, c18WhenLate})
				continue
			}
			for _, w := range whens {
				out = append(out, c18Root{cfg, cl, w})
			}
		}
	}
	return out
}

// a shard stops exploring once it has recorded this many violations (the run
// fails anyway; every further violation costs a result-file flush)
const c18MaxViolations = 6

type c18Explorer struct {
	t      *testing.T
	r      *vk.Run
	depth  int
	capped bool
	maxAtt int
	stats  struct{ retries, transparent, histories int64 }
}

// one runs a single history and reports; it returns the number of attempts of RPC 0.
func (e *c18Explorer) one(c c18Case) int {
	r := e.r
	obs, problem := c18Run(e.t, c)
	r.Eval("C18", 1)
	e.stats.histories++
	if obs == nil {
		r.EngineError("history %s: %s", c, problem)
		return 0
	}
	j := c18Judge(c, obs)
	for _, f := range j.Fails {
		if f.Prop == "C18" {
			r.Violation("C18", c.String()+"|"+f.Class, f.Desc+fmt.Sprintf("\n  history: %s\n  decisions: %s", c, strings.Join(j.Decisions, " ; ")), c)
		}
	}
	if problem != "" {
		r.EngineError("history %s: %s", c, problem)
	}
	for _, en := range j.Engine {
		r.EngineError("history %s: %s", c, en)
	}
	if j.Failures > 0 {
		r.NontrivialN("C18", 1)
	}
	e.stats.retries += int64(j.Retries)
	r.AddInt("C18", "retry_attempts_observed", int64(j.Retries))
	r.AddInt("C18", "failed_attempts_judged", int64(j.Failures))
	e.maxAtt = max(e.maxAtt, j.MaxReached)
	for _, d := range j.Decisions {
		r.Outcome("C18", d)
	}
	if j.Retries >= 2 {
		r.Sample("C18", map[string]any{"history": c.String(), "decisions": j.Decisions, "attempts": obs.RPCs[0].Attempts})
	}
	if len(obs.RPCs) == 0 {
		return 0
	}
	return len(obs.RPCs[0].Attempts)
}

// explore extends prefix p (whose run made n attempts) by every symbol.
func (e *c18Explorer) explore(root c18Root, p []int, n int) {
	if len(p) >= e.depth || n <= len(p) {
		return
	}
	for x := 0; x < c18NB; x++ {
		if e.r.OverBudget() {
			e.capped = true
			return
		}
		if e.r.NViolations("C18") >= c18MaxViolations {
			return
		}
		q := append(append([]int{}, p...), x)
		nq := n
		if x != c18BUnavail { // the padding symbol: same history as p
			nq = e.one(c18Case{Cfg: root.Cfg, Pad: c18BUnavail, RPCs: []c18RPCSpec{{Client: root.Client, When: root.When, Script: q}}})
		}
		e.explore(root, q, nq)
	}
}

func TestVerif_C18_Retries(t *testing.T) {
	r := vk.Start(t, "c18_retries", "exploration", "C18")
	defer r.Finish()
	depth := r.Pick(3, 5)
	r.Rule("C18", fmt.Sprintf("one history = (retry policy maxAttempts x WithMaxCallAttempts x WithDisableRetry x MaxRetryRPCBufferSize x retryThrottling) x client script {unary, client-stream Send x2+CloseSend, bidi Send/Recv/Send, CloseSend first, CloseSend after the end, Header()} x server timing (acts after 0/1/2 further client ops or only when the client cannot proceed) x per-attempt server script; scripts form a prefix tree over the %d behaviours %v, depth <= %d, padded with trailers-only UNAVAILABLE, a prefix being extended exactly when the run made an attempt beyond it (so every distinguishable script within the depth is run once); non-trivial = at least one attempt failed, i.e. at least one retry decision was judged; each history is a distinct input", c18NB, c18BNames, depth))
	r.Assume("C18", "reference model c18Model (gRFC A6 as restated by the property): transparent retry for the first attempt if refused / above a GOAWAY id (for a later unprocessed attempt both a transparent retry - if none was used yet - and a policy-driven continuation are admitted, the statement and A6 leave this open); REFUSED_STREAM, GOAWAY and connection loss end an attempt with UNAVAILABLE (gRPC HTTP/2 mapping); the replay buffer counts as exceeded when the payload bytes of the SendMsg calls that completed before the attempt failed exceed the limit (sizes are chosen so that counting the 5-byte prefix or not makes no difference)")
	r.Assume("C18", "attempts that never reach the wire (stream creation on a closing transport) are invisible to the raw server and not judged; testing/synctest quiescence and virtual time are trusted; the raw peer's frame log (x/net/http2 framer + hpack) is trusted")
	e := &c18Explorer{t: t, r: r, depth: depth}
	if r.ReplayFile() != "" {
		var c c18Case
		if err := r.LoadReplay(&c); err != nil {
			r.EngineError("replay: %v", err)
			return
		}
		e.one(c)
		return
	}
	roots := c18Roots(r.Thorough())
	for i, root := range roots {
		if !r.Mine(i) {
			continue
		}
		if r.OverBudget() {
			e.capped = true
			break
		}
		if r.NViolations("C18") >= c18MaxViolations {
			r.Cap("C18", "exploration stopped after the first violations")
			break
		}
		n := e.one(c18Case{Cfg: root.Cfg, Pad: c18BUnavail, RPCs: []c18RPCSpec{{Client: root.Client, When: root.When, Script: nil}}})
		e.explore(root, nil, n)
	}
	if e.capped {
		r.Cap("C18", "time budget reached before the prefix tree was exhausted")
	}
	r.Set("C18", "max_attempts_in_one_rpc", e.maxAtt)
	r.Set("C18", "depth_bound", depth)
	if sh, _ := r.Shard(); sh == 0 {
		r.Set("C18", "roots", len(roots))
	}
	if e.stats.histories > 50 && e.stats.retries == 0 {
		r.EngineError("vacuous: %d histories and not a single retry observed", e.stats.histories)
	}
}
