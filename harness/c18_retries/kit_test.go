//go:build verif

package h_c18

// Shared E4 kit of the retry harnesses (C18, C19 timing leg).
//
// One history = one synctest bubble holding a real grpc.ClientConn (pick_first,
// passthrough resolver, default service config carrying the retry policy and
// optionally retryThrottling) whose dialer hands out a fresh scripted raw HTTP/2
// server peer per connection.  The bubble's root goroutine is the driver: it
// releases the application's stream operations one at a time, lets the raw
// server act on every attempt (= every request HEADERS block it sees) according
// to the history's per-attempt script, and advances virtual time only when
// nothing else can happen.  Everything that is checked is read from the raw
// peers' frame logs, from a byte-stream time-stamper wrapped around the server
// end of each connection, and from the driver's own ledger of what the
// application did - never from the implementation's counters.

import (
	"context"
	"encoding/binary"
	"fmt"
	"io"
	"math/big"
	"net"
	"runtime"
	"strconv"
	"strings"
	"sync"
	"testing"
	"testing/synctest"
	"time"

	"golang.org/x/net/http2"
	"google.golang.org/grpc"
	"google.golang.org/grpc/codes"
	"google.golang.org/grpc/credentials/insecure"
	"google.golang.org/grpc/internal/verif/wire"
	"google.golang.org/grpc/mem"
	"google.golang.org/grpc/status"
)

// ---------------------------------------------------------------- codec

type c18Codec struct{}

func (c18Codec) Name() string { return "verif-raw" }
func (c18Codec) Marshal(v any) (mem.BufferSlice, error) {
	switch b := v.(type) {
	case []byte:
		return mem.BufferSlice{mem.SliceBuffer(b)}, nil
	case *[]byte:
		return mem.BufferSlice{mem.SliceBuffer(*b)}, nil
	}
	return nil, fmt.Errorf("c18Codec: unsupported %T", v)
}
func (c18Codec) Unmarshal(data mem.BufferSlice, v any) error {
	p, ok := v.(*[]byte)
	if !ok {
		return fmt.Errorf("c18Codec: unsupported %T", v)
	}
	*p = data.Materialize()
	return nil
}

// ---------------------------------------------------------------- time-stamping conn

// c18TimedConn wraps the server end of a connection and records the virtual
// time at which each request HEADERS frame (END_HEADERS set) was completely
// read by the raw peer.  It parses nothing but the 9-byte frame headers.
type c18TimedConn struct {
	net.Conn
	epoch time.Time
	mu    sync.Mutex
	pre   int // client preface bytes still to skip
	hdr   [9]byte
	nh    int
	left  int // payload bytes left in the current frame
	hdrAt map[uint32]time.Duration
}

func (c *c18TimedConn) Read(p []byte) (int, error) {
	n, err := c.Conn.Read(p)
	if n > 0 {
		c.feed(p[:n])
	}
	return n, err
}

func (c *c18TimedConn) feed(b []byte) {
	c.mu.Lock()
	defer c.mu.Unlock()
	for len(b) > 0 {
		if c.pre > 0 {
			k := min(c.pre, len(b))
			c.pre -= k
			b = b[k:]
			continue
		}
		if c.nh < 9 {
			k := copy(c.hdr[c.nh:], b)
			c.nh += k
			b = b[k:]
			if c.nh == 9 {
				c.left = int(c.hdr[0])<<16 | int(c.hdr[1])<<8 | int(c.hdr[2])
				if c.left == 0 {
					c.frameDone()
				}
			}
			continue
		}
		k := min(c.left, len(b))
		c.left -= k
		b = b[k:]
		if c.left == 0 {
			c.frameDone()
		}
	}
}

func (c *c18TimedConn) frameDone() {
	ftype, flags := c.hdr[3], c.hdr[4]
	sid := binary.BigEndian.Uint32(c.hdr[5:9]) & 0x7fffffff
	if ftype == 0x1 && flags&0x4 != 0 {
		if _, ok := c.hdrAt[sid]; !ok {
			c.hdrAt[sid] = time.Since(c.epoch)
		}
	}
	c.nh = 0
}

func (c *c18TimedConn) headersAt(sid uint32) (time.Duration, bool) {
	c.mu.Lock()
	defer c.mu.Unlock()
	d, ok := c.hdrAt[sid]
	return d, ok
}

// ---------------------------------------------------------------- inputs

// server behaviours (one per attempt)
const (
	c18BOK         = iota // response headers, one message, OK trailers
	c18BUnavail           // trailers-only UNAVAILABLE
	c18BInternal          // trailers-only INTERNAL
	c18BHdrUnavail        // response headers, then UNAVAILABLE trailers
	c18BMsgUnavail        // response headers, one message, then UNAVAILABLE trailers
	c18BRefused           // RST_STREAM(REFUSED_STREAM)
	c18BGoAway            // GOAWAY(last-stream-id below this stream)
	c18BPush0             // trailers-only UNAVAILABLE, grpc-retry-pushback-ms: 0
	c18BPush2000          // ... 2000
	c18BPushNeg           // ... -1
	c18BPushBad           // ... x
	c18BPushTwo           // ... two values (5 and 7)
	c18BClose             // connection closed before any response header
	c18NB                 // size of the C18 alphabet; the behaviours below are used by the C19 legs only
	c18BOKPushNeg         // like OK, but the OK trailers carry grpc-retry-pushback-ms: -1 (still a success)
)

var c18BNames = []string{"ok", "unavail", "internal", "hdr+unavail", "msg+unavail", "refused", "goaway", "push0", "push2000", "push-1", "pushx", "push2v", "close", "(nb)", "ok+push-1"}

// c18Backoff is one retry-policy backoff menu entry; Mult = MultNum/MultDen.
type c18Backoff struct {
	Init, Max        time.Duration
	MultNum, MultDen int64
}

var c18Backoffs = []c18Backoff{
	{10 * time.Millisecond, 35 * time.Millisecond, 2, 1},   // 10, 20, 35 (cap), 35
	{3 * time.Millisecond, time.Hour, 3, 2},                // 3, 4.5, 6.75, 10.125 ms: never capped
	{50 * time.Millisecond, 20 * time.Millisecond, 1, 1},   // initial above the cap: always 20
	{40 * time.Millisecond, 100 * time.Millisecond, 1, 2},  // multiplier below one: 40, 20, 10, 5
	{1, 3, 2, 1},                                           // nanosecond scale: 1, 2, 3, 3 ns
	{500 * time.Millisecond, 10 * time.Second, 4, 1},       // 0.5, 2, 8, 10 s
}

// c18Cfg is the channel / call configuration of a history.
type c18Cfg struct {
	MaxAttempts  int  `json:"max"`      // retryPolicy.maxAttempts in the service config
	ChanMax      int  `json:"chanmax"`  // grpc.WithMaxCallAttempts (0: not set, channel default 5)
	DisableRetry bool `json:"noretry"`  // grpc.WithDisableRetry
	Buf          int  `json:"buf"`      // grpc.MaxRetryRPCBufferSize (bytes)
	Throttle     int  `json:"throttle"` // retryThrottling.maxTokens (0: no throttling)
	Ratio        string `json:"ratio,omitempty"` // retryThrottling.tokenRatio as a decimal literal ("" = 1)
	Backoff      int  `json:"backoff"`  // index into c18Backoffs
}

func (c c18Cfg) String() string {
	thr := fmt.Sprint(c.Throttle)
	if c.Ratio != "" {
		thr += "x" + c.Ratio
	}
	return fmt.Sprintf("max%d/chan%d/noretry=%v/buf%d/thr%s/bo%d", c.MaxAttempts, c.ChanMax, c.DisableRetry, c.Buf, thr, c.Backoff)
}

// effMax is the statement's "effective maximum": policy value capped by the channel limit.
func (c c18Cfg) effMax() int {
	lim := 5 // documented channel default (WithMaxCallAttempts doc)
	if c.ChanMax >= 2 {
		lim = c.ChanMax
	}
	return min(c.MaxAttempts, lim)
}

func (c c18Cfg) ratio() string {
	if c.Ratio == "" {
		return "1"
	}
	return c.Ratio
}

func c18DurJSON(d time.Duration) string {
	return fmt.Sprintf("%d.%09ds", int64(d)/1e9, int64(d)%1e9)
}

func (c c18Cfg) serviceConfig() string {
	bo := c18Backoffs[c.Backoff]
	mult := new(big.Rat).SetFrac64(bo.MultNum, bo.MultDen).FloatString(6)
	sc := fmt.Sprintf(`{"methodConfig":[{"name":[{"service":"s"}],"retryPolicy":{"maxAttempts":%d,"initialBackoff":%q,"maxBackoff":%q,"backoffMultiplier":%s,"retryableStatusCodes":["UNAVAILABLE"]}}]`,
		c.MaxAttempts, c18DurJSON(bo.Init), c18DurJSON(bo.Max), mult)
	if c.Throttle > 0 {
		sc += fmt.Sprintf(`,"retryThrottling":{"maxTokens":%d,"tokenRatio":%s}`, c.Throttle, c.ratio())
	}
	return sc + "}"
}

// client scripts.  N=NewStream S=SendMsg C=CloseSend R=RecvMsg D=RecvMsg until
// error H=Header U=unary Invoke.
var c18Clients = map[string]struct {
	Ops                          []string
	ClientStreams, ServerStreams bool
}{
	"unary": {[]string{"U"}, false, false},
	"cs2":   {[]string{"N", "S", "S", "C", "D"}, true, false},      // client stream: Send x2, CloseSend
	"bidi":  {[]string{"N", "S", "R", "S", "C", "D"}, true, true},  // bidi: Send, Recv, Send
	"early": {[]string{"N", "C", "D"}, true, true},                 // CloseSend before anything else
	"late":  {[]string{"N", "S", "S", "D", "C"}, true, false},      // CloseSend only after the RPC ended
	"hdr":   {[]string{"N", "S", "C", "H", "D"}, true, true},       // waits in Header()
}

var c18ClientNames = []string{"unary", "cs2", "bidi", "early", "late", "hdr"}

const c18WhenLate = 9

// c18RPCSpec is one RPC of a history: the client script, when the server acts
// on an attempt (number of further client ops released after the attempt's
// HEADERS were seen; c18WhenLate = only when the client cannot proceed) and
// the per-attempt server behaviours.  Attempts beyond the script get Pad.
type c18RPCSpec struct {
	Client string `json:"client"`
	When   int    `json:"when"`
	Script []int  `json:"script"`
}

type c18Case struct {
	Cfg  c18Cfg       `json:"cfg"`
	Pad  int          `json:"pad"`
	RPCs []c18RPCSpec `json:"rpcs"`
}

func c18ScriptString(s []int) string {
	var ns []string
	for _, b := range s {
		ns = append(ns, c18BNames[b])
	}
	return strings.Join(ns, ",")
}

func (c c18Case) String() string {
	var rs []string
	for _, r := range c.RPCs {
		rs = append(rs, fmt.Sprintf("%s@%d[%s]", r.Client, r.When, c18ScriptString(r.Script)))
	}
	return fmt.Sprintf("%s pad=%s %s", c.Cfg, c18BNames[c.Pad], strings.Join(rs, ";"))
}

// ---------------------------------------------------------------- world

type c18World struct {
	epoch time.Time
	mu    sync.Mutex
	cc    *grpc.ClientConn
	peers []*wire.Peer
	conns []*c18TimedConn
	seen  map[string]bool
}

func (w *c18World) dial(ctx context.Context, _ string) (net.Conn, error) {
	c, s := wire.Pipe()
	tc := &c18TimedConn{Conn: s, epoch: w.epoch, pre: len(http2.ClientPreface), hdrAt: map[uint32]time.Duration{}}
	p := wire.NewServerPeer(tc)
	p.AutoAckSettings = true
	p.AutoAckPing = true
	p.WriteSettings(http2.Setting{ID: http2.SettingMaxConcurrentStreams, Val: 100})
	w.mu.Lock()
	w.peers = append(w.peers, p)
	w.conns = append(w.conns, tc)
	w.mu.Unlock()
	return c, nil
}

func c18NewWorld(cfg c18Cfg) (*c18World, error) {
	w := &c18World{epoch: time.Now(), seen: map[string]bool{}}
	opts := []grpc.DialOption{
		grpc.WithContextDialer(w.dial),
		grpc.WithTransportCredentials(insecure.NewCredentials()),
		grpc.WithDefaultServiceConfig(cfg.serviceConfig()),
	}
	if cfg.DisableRetry {
		opts = append(opts, grpc.WithDisableRetry())
	}
	if cfg.ChanMax != 0 {
		opts = append(opts, grpc.WithMaxCallAttempts(cfg.ChanMax))
	}
	cc, err := grpc.NewClient("passthrough:///x", opts...)
	if err != nil {
		return nil, err
	}
	w.cc = cc
	return w, nil
}

func (w *c18World) now() time.Duration { return time.Since(w.epoch) }

func (w *c18World) snapshot() ([]*wire.Peer, []*c18TimedConn) {
	w.mu.Lock()
	defer w.mu.Unlock()
	return append([]*wire.Peer(nil), w.peers...), append([]*c18TimedConn(nil), w.conns...)
}

func (w *c18World) close() {
	if w.cc != nil {
		w.cc.Close()
	}
	ps, _ := w.snapshot()
	for _, p := range ps {
		p.Close()
	}
	synctest.Wait()
}

// c18Attempt is one request stream seen by a raw server.
type c18Attempt struct {
	Idx      int           `json:"idx"`  // 1-based, within its RPC
	RPC      int           `json:"rpc"`  // index of the RPC (from :path)
	PeerIdx  int           `json:"peer"` // connection number
	Stream   uint32        `json:"stream"`
	Prev     []string      `json:"prev"` // values of grpc-previous-rpc-attempts
	HdrAt    time.Duration `json:"hdr_at"`
	B        int           `json:"b"` // behaviour applied
	Acted    bool          `json:"acted"`
	ActedAt  time.Duration `json:"acted_at"`
	Payload  int           `json:"payload_bytes"` // bytes the app had sent when the server acted (payload only)
	Framed   int           `json:"framed_bytes"`  // ... including the 5-byte message prefixes
	HistAt   string        `json:"hist_at_act"`   // app send history when the server acted
	LogAt    string        `json:"log_at_act"`    // what this attempt's stream had received then
	Mismatch string        `json:"mismatch,omitempty"`
	peer     *wire.Peer
}

// scanNew returns the request streams (complete HEADERS) not returned before, in
// connection order then log order.
func (w *c18World) scanNew() []*c18Attempt {
	var out []*c18Attempt
	ps, cs := w.snapshot()
	for i, p := range ps {
		for _, f := range p.Log() {
			if f.Type != "HEADERS" || !f.EndHdrs {
				continue
			}
			k := fmt.Sprintf("%d/%d", i, f.Stream)
			if w.seen[k] {
				continue
			}
			w.seen[k] = true
			a := &c18Attempt{PeerIdx: i, Stream: f.Stream, peer: p, RPC: -1}
			for _, kv := range f.Fields {
				switch kv[0] {
				case "grpc-previous-rpc-attempts":
					a.Prev = append(a.Prev, kv[1])
				case ":path":
					if n, err := strconv.Atoi(strings.TrimPrefix(kv[1], "/s/m")); err == nil {
						a.RPC = n
					}
				}
			}
			a.HdrAt, _ = cs[i].headersAt(f.Stream)
			out = append(out, a)
		}
	}
	return out
}

// c18Canon renders a send history: messages joined by '|', '$' = half-close.
func c18Canon(msgs []string, closed bool) string {
	s := strings.Join(msgs, "|")
	if closed {
		s += "$"
	}
	return s
}

// recvLog decodes what the attempt's stream received so far: the DATA payload
// bytes are concatenated and cut into gRPC messages by their 5-byte prefixes
// (independent decoder); '$' is appended if END_STREAM was seen.
func (a *c18Attempt) recvLog() string {
	var data []byte
	es := false
	for _, f := range a.peer.Log() {
		if f.Stream != a.Stream {
			continue
		}
		switch f.Type {
		case "DATA":
			if es {
				return "DATA-after-END_STREAM"
			}
			data = append(data, f.Data...)
			es = es || f.EndStream
		case "HEADERS":
			es = es || f.EndStream
		}
	}
	var msgs []string
	for len(data) > 0 {
		if len(data) < 5 {
			msgs = append(msgs, fmt.Sprintf("<partial prefix %x>", data))
			break
		}
		n := int(binary.BigEndian.Uint32(data[1:5]))
		if data[0] != 0 {
			msgs = append(msgs, "<compressed flag set>")
		}
		if len(data) < 5+n {
			msgs = append(msgs, fmt.Sprintf("<partial message %d of %d bytes>", len(data)-5, n))
			break
		}
		msgs = append(msgs, string(data[5:5+n]))
		data = data[5+n:]
	}
	return c18Canon(msgs, es)
}

var c18RespHdr = [][2]string{{":status", "200"}, {"content-type", "application/grpc"}}

// act applies behaviour b to the attempt's stream.
func (a *c18Attempt) act(b int) {
	p, sid := a.peer, a.Stream
	trailersOnly := func(code codes.Code, extra ...[2]string) {
		h := append([][2]string{}, c18RespHdr...)
		h = append(h, [2]string{"grpc-status", strconv.Itoa(int(code))}, [2]string{"grpc-message", "scripted"})
		h = append(h, extra...)
		p.WriteHeaders(sid, h, true)
	}
	push := func(v ...string) {
		var extra [][2]string
		for _, s := range v {
			extra = append(extra, [2]string{"grpc-retry-pushback-ms", s})
		}
		trailersOnly(codes.Unavailable, extra...)
	}
	switch b {
	case c18BOK:
		p.WriteHeaders(sid, c18RespHdr, false)
		p.WriteData(sid, false, wire.GrpcMsg(false, []byte("reply")))
		p.WriteHeaders(sid, [][2]string{{"grpc-status", "0"}}, true)
	case c18BOKPushNeg:
		p.WriteHeaders(sid, c18RespHdr, false)
		p.WriteData(sid, false, wire.GrpcMsg(false, []byte("reply")))
		p.WriteHeaders(sid, [][2]string{{"grpc-status", "0"}, {"grpc-retry-pushback-ms", "-1"}}, true)
	case c18BUnavail:
		trailersOnly(codes.Unavailable)
	case c18BInternal:
		trailersOnly(codes.Internal)
	case c18BHdrUnavail:
		p.WriteHeaders(sid, c18RespHdr, false)
		p.WriteHeaders(sid, [][2]string{{"grpc-status", "14"}, {"grpc-message", "scripted"}}, true)
	case c18BMsgUnavail:
		p.WriteHeaders(sid, c18RespHdr, false)
		p.WriteData(sid, false, wire.GrpcMsg(false, []byte("reply")))
		p.WriteHeaders(sid, [][2]string{{"grpc-status", "14"}, {"grpc-message", "scripted"}}, true)
	case c18BRefused:
		p.WriteRST(sid, http2.ErrCodeRefusedStream)
	case c18BGoAway:
		last := uint32(0)
		if sid >= 3 {
			last = sid - 2
		}
		p.WriteGoAway(last, http2.ErrCodeNo, nil)
	case c18BPush0:
		push("0")
	case c18BPush2000:
		push("2000")
	case c18BPushNeg:
		push("-1")
	case c18BPushBad:
		push("x")
	case c18BPushTwo:
		push("5", "7")
	case c18BClose:
		p.Close()
	}
}

// ---------------------------------------------------------------- application

type c18OpRec struct {
	Name  string        `json:"op"`
	Res   string        `json:"res"` // nil | EOF | <code> | skipped
	Begin time.Duration `json:"begin"`
	End   time.Duration `json:"end"`
	Done  bool          `json:"done"`
}

// c18App runs one RPC's client script, one op per driver command.
type c18App struct {
	w      *c18World
	rpc    int
	ops    []string
	desc   *grpc.StreamDesc
	opts   []grpc.CallOption
	ctx    context.Context
	cancel context.CancelFunc
	cmd    chan int
	exited chan struct{}

	mu       sync.Mutex
	recs     []c18OpRec
	next     int
	running  bool
	over     bool // the RPC ended (terminal error or EOF): remaining ops are skipped
	sendDead bool // a SendMsg returned io.EOF: the app stops sending (usage protocol)
	sent     []string
	closed   bool
	payload  int
	framed   int
	got      []string
	final    string // "" until the RPC ended; then OK or the code
	finalMsg string
	nsent    int
	cs       grpc.ClientStream
	panicked string
}

func c18StartApp(w *c18World, rpc int, spec c18RPCSpec, buf int) *c18App {
	cl := c18Clients[spec.Client]
	a := &c18App{w: w, rpc: rpc, ops: cl.Ops, cmd: make(chan int), exited: make(chan struct{}),
		desc: &grpc.StreamDesc{StreamName: "m", ClientStreams: cl.ClientStreams, ServerStreams: cl.ServerStreams},
		opts: []grpc.CallOption{grpc.ForceCodecV2(c18Codec{}), grpc.MaxRetryRPCBufferSize(buf)}}
	a.ctx, a.cancel = context.WithCancel(context.Background())
	go func() {
		defer close(a.exited)
		for i := range a.cmd {
			a.run(i)
		}
	}()
	return a
}

func (a *c18App) msg() string {
	a.nsent++
	return fmt.Sprintf("r%d-msg-%03d", a.rpc, a.nsent) // always 10 bytes
}

func c18ErrClass(err error) string {
	switch {
	case err == nil:
		return "nil"
	case err == io.EOF:
		return "EOF"
	}
	return status.Code(err).String()
}

func (a *c18App) end(err error) {
	a.over = true
	if err == nil || err == io.EOF {
		a.final = "OK"
	} else {
		a.final = status.Code(err).String()
		a.finalMsg = err.Error()
	}
}

func (a *c18App) run(i int) {
	op := a.ops[i]
	method := fmt.Sprintf("/s/m%d", a.rpc)
	var err error
	defer func() {
		// a panic inside the client code surfaces on this goroutine: record it as
		// the op's result instead of losing the worker
		if p := recover(); p != nil {
			buf := make([]byte, 2048)
			buf = buf[:runtime.Stack(buf, false)]
			a.mu.Lock()
			a.panicked = fmt.Sprintf("%v\n%s", p, buf)
			a.over, a.final = true, "PANIC"
			r := &a.recs[len(a.recs)-1]
			r.Res, r.End, r.Done = "panic", a.w.now(), true
			a.running = false
			a.mu.Unlock()
		}
	}()
	switch op {
	case "U":
		m := a.msg()
		a.mu.Lock()
		a.sent, a.closed, a.payload, a.framed = []string{m}, true, len(m), len(m)+5
		a.mu.Unlock()
		var reply []byte
		err = a.w.cc.Invoke(a.ctx, method, []byte(m), &reply, a.opts...)
		a.mu.Lock()
		if err == nil {
			a.got = append(a.got, string(reply))
		}
		a.end(err)
		a.mu.Unlock()
	case "N":
		var cs grpc.ClientStream
		cs, err = a.w.cc.NewStream(a.ctx, a.desc, method, a.opts...)
		a.mu.Lock()
		a.cs = cs
		if err != nil {
			a.end(err)
		}
		a.mu.Unlock()
	case "S":
		m := a.msg()
		err = a.cs.SendMsg([]byte(m))
		a.mu.Lock()
		switch {
		case err == nil:
			a.sent = append(a.sent, m)
			a.payload += len(m)
			a.framed += len(m) + 5
		case err == io.EOF:
			a.sendDead = true
		default:
			a.end(err)
		}
		a.mu.Unlock()
	case "C":
		err = a.cs.CloseSend()
		a.mu.Lock()
		a.closed = true
		a.mu.Unlock()
	case "H":
		_, err = a.cs.Header()
	case "R", "D":
		n := 1
		if op == "D" {
			n = 4
		}
		for j := 0; j < n; j++ {
			var m []byte
			err = a.cs.RecvMsg(&m)
			a.mu.Lock()
			if err == nil {
				a.got = append(a.got, string(m))
			} else {
				a.end(err)
			}
			a.mu.Unlock()
			if err != nil {
				break
			}
		}
	}
	a.mu.Lock()
	r := &a.recs[len(a.recs)-1]
	r.Res, r.End, r.Done = c18ErrClass(err), a.w.now(), true
	a.running = false
	a.mu.Unlock()
}

// release starts the next applicable op; false if none is left.
func (a *c18App) release() bool {
	a.mu.Lock()
	for a.next < len(a.ops) {
		op := a.ops[a.next]
		skip := a.over || (op == "S" && a.sendDead)
		if op == "C" && a.over && a.cs != nil {
			skip = false // CloseSend after the end is legal and a no-op on the wire
		}
		if !skip {
			break
		}
		a.recs = append(a.recs, c18OpRec{Name: op, Res: "skipped", Done: true})
		a.next++
	}
	if a.next >= len(a.ops) {
		a.mu.Unlock()
		return false
	}
	i := a.next
	a.next++
	a.running = true
	a.recs = append(a.recs, c18OpRec{Name: a.ops[i], Begin: a.w.now()})
	a.mu.Unlock()
	a.cmd <- i
	return true
}

// state: "running" (inside an op), "idle" (an op could be released), "done".
func (a *c18App) state() string {
	a.mu.Lock()
	defer a.mu.Unlock()
	if a.running {
		return "running"
	}
	for i := a.next; i < len(a.ops); i++ {
		op := a.ops[i]
		if !(a.over || (op == "S" && a.sendDead)) || (op == "C" && a.cs != nil) {
			return "idle"
		}
	}
	return "done"
}

func (a *c18App) history() (string, int, int) {
	a.mu.Lock()
	defer a.mu.Unlock()
	return c18Canon(a.sent, a.closed), a.payload, a.framed
}

func (a *c18App) stop() {
	a.cancel()
	close(a.cmd)
}

// ---------------------------------------------------------------- driver

type c18RPCObs struct {
	Attempts []*c18Attempt `json:"attempts"`
	Ops      []c18OpRec    `json:"ops"`
	Final    string        `json:"final"`
	FinalMsg string        `json:"final_msg,omitempty"`
	Got      []string      `json:"got"`
	Hung     bool          `json:"hung,omitempty"`
	Panic    string        `json:"panic,omitempty"`
	EndAt    time.Duration `json:"end_at"`
}

type c18Obs struct {
	RPCs    []*c18RPCObs `json:"rpcs"`
	Stray   []string     `json:"stray,omitempty"`   // request streams that belong to no running RPC / arrived after its end
	Anomaly []string     `json:"anomaly,omitempty"` // infrastructure problems (engine errors)
}

const c18IdleStep = 5 * time.Second

// c18Drive runs the case inside the current bubble.
func c18Drive(c c18Case) *c18Obs {
	obs := &c18Obs{}
	w, err := c18NewWorld(c.Cfg)
	if err != nil {
		obs.Anomaly = append(obs.Anomaly, "NewClient: "+err.Error())
		return obs
	}
	defer w.close()
	for ri, spec := range c.RPCs {
		ro := &c18RPCObs{}
		obs.RPCs = append(obs.RPCs, ro)
		app := c18StartApp(w, ri, spec, c.Cfg.Buf)
		var live *c18Attempt
		opsSince, sleeps := 0, 0
		for step := 0; ; step++ {
			if step > 400 {
				obs.Anomaly = append(obs.Anomaly, "driver step limit")
				break
			}
			synctest.Wait()
			for _, a := range w.scanNew() {
				if a.RPC != ri {
					obs.Stray = append(obs.Stray, fmt.Sprintf("rpc%d: stream %d/%d of rpc %d", ri, a.PeerIdx, a.Stream, a.RPC))
					continue
				}
				if live != nil && !live.Acted {
					obs.Stray = append(obs.Stray, fmt.Sprintf("rpc%d: attempt %d appeared while attempt %d was still unanswered", ri, len(ro.Attempts)+1, live.Idx))
				}
				a.Idx = len(ro.Attempts) + 1
				ro.Attempts = append(ro.Attempts, a)
				live, opsSince = a, 0
			}
			st := app.state()
			if live != nil && !live.Acted {
				hist, pl, fr := app.history()
				log := live.recvLog()
				if log != hist && live.Mismatch == "" {
					live.Mismatch = fmt.Sprintf("at t=%v the stream of attempt %d had received %q but the application's send history is %q", w.now(), live.Idx, log, hist)
				}
				if opsSince >= spec.When || st != "idle" {
					live.B = c.Pad
					if live.Idx <= len(spec.Script) {
						live.B = spec.Script[live.Idx-1]
					}
					live.Acted, live.ActedAt, live.Payload, live.Framed, live.HistAt, live.LogAt = true, w.now(), pl, fr, hist, log
					live.act(live.B)
					sleeps = 0
					continue
				}
			}
			if st == "idle" {
				if app.release() {
					opsSince++
					sleeps = 0
					continue
				}
				st = "done"
			}
			if st == "done" {
				break
			}
			if sleeps >= 3 {
				ro.Hung = true
				break
			}
			time.Sleep(c18IdleStep)
			sleeps++
		}
		ro.EndAt = w.now()
		// nothing may start after the RPC ended
		time.Sleep(2 * c18IdleStep)
		synctest.Wait()
		for _, a := range w.scanNew() {
			obs.Stray = append(obs.Stray, fmt.Sprintf("rpc%d: request stream %d/%d (rpc %d) appeared after the RPC had ended", ri, a.PeerIdx, a.Stream, a.RPC))
		}
		app.stop()
		synctest.Wait()
		app.mu.Lock()
		ro.Ops, ro.Final, ro.FinalMsg, ro.Got = append([]c18OpRec(nil), app.recs...), app.final, app.finalMsg, append([]string(nil), app.got...)
		ro.Panic = app.panicked
		app.mu.Unlock()
		if ro.Hung {
			break
		}
	}
	return obs
}

// c18Run runs the case in its own bubble; a panic on the driver goroutine or a
// bubble that cannot end is returned as problem.
func c18Run(t *testing.T, c c18Case) (obs *c18Obs, problem string) {
	defer func() {
		if p := recover(); p != nil {
			problem = fmt.Sprintf("bubble: %v", p)
		}
	}()
	synctest.Test(t, func(t *testing.T) {
		defer func() {
			if p := recover(); p != nil {
				buf := make([]byte, 4096)
				buf = buf[:runtime.Stack(buf, false)]
				problem = fmt.Sprintf("panic on driver goroutine: %v\n%s", p, buf)
			}
		}()
		obs = c18Drive(c)
	})
	return obs, problem
}

// ---------------------------------------------------------------- reference model (gRFC A6, from the statements of C18/C19)

// c18Model is the retry state of the channel (token bucket) and of the current RPC.
type c18Model struct {
	cfg       c18Cfg
	tokens    *big.Rat // nil: no throttling configured
	maxTokens *big.Rat
	ratio     *big.Rat

	attempts        int // attempts of the current RPC so far
	policyRetries   int // non-transparent retries of the current RPC so far
	transparentUsed bool
	sincePushback   int
}

func c18NewModel(cfg c18Cfg) *c18Model {
	m := &c18Model{cfg: cfg}
	if cfg.Throttle > 0 && !cfg.DisableRetry {
		m.maxTokens = big.NewRat(int64(cfg.Throttle), 1)
		m.tokens = new(big.Rat).Set(m.maxTokens)
		m.ratio, _ = new(big.Rat).SetString(cfg.ratio())
	}
	return m
}

func (m *c18Model) newRPC() {
	m.attempts, m.policyRetries, m.transparentUsed, m.sincePushback = 0, 0, false, 0
}

// c18Next is one admissible continuation after a finished attempt.
type c18Next struct {
	Kind  string        // none | transparent | policy
	Why   string        // reason
	Prev  int           // grpc-previous-rpc-attempts expected on the next attempt
	Exact bool          // the delay is exactly Delay (server pushback / transparent)
	Delay time.Duration //
	Base  *big.Rat      // otherwise: delay within [0.8, 1.2] x Base nanoseconds
	K     int           // exponent used for Base
	apply func()
}

func (n c18Next) String() string {
	switch {
	case n.Kind == "none":
		return "no retry (" + n.Why + ")"
	case n.Exact:
		return fmt.Sprintf("%s retry after exactly %v, previous-attempts %d", n.Kind, n.Delay, n.Prev)
	}
	return fmt.Sprintf("policy retry after [0.8,1.2]x%sns (k=%d), previous-attempts %d", n.Base.FloatString(3), n.K, n.Prev)
}

func (m *c18Model) failToken() {
	if m.tokens == nil {
		return
	}
	m.tokens.Sub(m.tokens, big.NewRat(1, 1))
	if m.tokens.Sign() < 0 {
		m.tokens.SetInt64(0)
	}
}

func (m *c18Model) successToken() {
	if m.tokens == nil {
		return
	}
	m.tokens.Add(m.tokens, m.ratio)
	if m.tokens.Cmp(m.maxTokens) > 0 {
		m.tokens.Set(m.maxTokens)
	}
}

// c18BackoffBase returns min(initial x multiplier^k, max) in nanoseconds, exactly.
func c18BackoffBase(bo c18Backoff, k int) *big.Rat {
	b := big.NewRat(int64(bo.Init), 1)
	mult := big.NewRat(bo.MultNum, bo.MultDen)
	for i := 0; i < k; i++ {
		b.Mul(b, mult)
	}
	if mx := big.NewRat(int64(bo.Max), 1); b.Cmp(mx) > 0 {
		b = mx
	}
	return b
}

// after returns the admissible continuations once an attempt that was answered
// with behaviour b has ended.  exceeded: the application had produced more
// request bytes than the replay buffer limit when the attempt failed.
func (m *c18Model) after(b int, exceeded bool) []c18Next {
	m.attempts++
	none := func(why string, apply func()) []c18Next {
		return []c18Next{{Kind: "none", Why: why, apply: apply}}
	}
	switch b {
	case c18BOK, c18BOKPushNeg:
		return none("success", m.successToken)
	case c18BHdrUnavail, c18BMsgUnavail:
		// response headers (and a message) were received: committed
		return none("response headers received", nil)
	}
	if exceeded {
		return none("replay buffer limit exceeded", nil)
	}
	var out []c18Next
	if b == c18BRefused || b == c18BGoAway {
		// the server never processed the attempt
		tr := c18Next{Kind: "transparent", Why: "unprocessed", Prev: m.policyRetries, Exact: true, Delay: 0, apply: func() { m.transparentUsed = true }}
		if m.attempts == 1 {
			return []c18Next{tr}
		}
		if !m.transparentUsed {
			// gRFC A6 allows one transparent retry per RPC for an attempt that reached
			// the server library; the statement only says "only for unprocessed
			// attempts": both a transparent and a policy-driven continuation are admitted.
			out = append(out, tr)
		}
	}
	return append(out, m.policy(b)...)
}

func (m *c18Model) policy(b int) []c18Next {
	none := func(why string, apply func()) []c18Next {
		return []c18Next{{Kind: "none", Why: why, apply: apply}}
	}
	if m.cfg.DisableRetry {
		return none("retries disabled", nil)
	}
	var pushback time.Duration
	hasPushback := false
	switch b {
	case c18BPushNeg, c18BPushBad, c18BPushTwo:
		return none("server pushback forbids the retry", m.failToken)
	case c18BPush0:
		hasPushback = true
	case c18BPush2000:
		hasPushback, pushback = true, 2000*time.Millisecond
	}
	if b == c18BInternal {
		return none("status not in retryableStatusCodes", nil)
	}
	// every other behaviour ends the attempt with UNAVAILABLE (status sent by the
	// server, or synthesised for REFUSED_STREAM / GOAWAY / connection loss as the
	// gRPC HTTP/2 protocol mapping prescribes), which is in the policy.
	if m.tokens != nil {
		after := new(big.Rat).Sub(m.tokens, big.NewRat(1, 1))
		if after.Sign() < 0 {
			after.SetInt64(0)
		}
		if after.Cmp(new(big.Rat).Quo(m.maxTokens, big.NewRat(2, 1))) <= 0 {
			return none("throttled", m.failToken)
		}
	}
	if m.policyRetries+1 >= m.cfg.effMax() {
		return none("maximum attempts reached", m.failToken)
	}
	n := c18Next{Kind: "policy", Prev: m.policyRetries + 1}
	if hasPushback {
		n.Exact, n.Delay, n.Why = true, pushback, "pushback"
		n.apply = func() { m.failToken(); m.policyRetries++; m.sincePushback = 0 }
	} else {
		n.K = m.sincePushback
		n.Base, n.Why = c18BackoffBase(c18Backoffs[m.cfg.Backoff], n.K), "backoff"
		n.apply = func() { m.failToken(); m.policyRetries++; m.sincePushback++ }
	}
	return []c18Next{n}
}

// ---------------------------------------------------------------- judging a history

type c18Fail struct {
	Prop  string
	Class string
	Desc  string
}

type c18Timing struct {
	RPC, Attempt int
	Next         c18Next
	Gap          time.Duration
}

type c18Judgement struct {
	Fails      []c18Fail
	Engine     []string
	Decisions  []string // per RPC: kinds of the decisions taken
	Timings    []c18Timing
	Tokens     []string // reference token count after each RPC ("" without throttling)
	Retries    int // number of retry attempts observed
	Failures   int // number of failed attempts (decisions exercised)
	MaxReached int // attempts consumed in the longest RPC
}

// c18Judge replays the observation against the reference model.
func c18Judge(c c18Case, obs *c18Obs) *c18Judgement {
	j := &c18Judgement{}
	fail := func(prop, class, format string, a ...any) {
		j.Fails = append(j.Fails, c18Fail{prop, class, fmt.Sprintf(format, a...)})
	}
	j.Engine = append(j.Engine, obs.Anomaly...)
	for _, s := range obs.Stray {
		fail("C18", "stray-attempt", "%s", s)
	}
	m := c18NewModel(c.Cfg)
	limit := c.Cfg.Buf
	for ri, ro := range obs.RPCs {
		m.newRPC()
		var kinds []string
		if ro.Panic != "" {
			fail("C18", "panic", "rpc %d: the client panicked inside a stream operation: %s", ri, ro.Panic)
		}
		if ro.Hung {
			fail("C18", "hang", "rpc %d never finished (client ops: %+v)", ri, ro.Ops)
		}
		if len(ro.Attempts) == 0 && !ro.Hung {
			j.Engine = append(j.Engine, fmt.Sprintf("rpc %d: no request stream reached a server (final %s %s)", ri, ro.Final, ro.FinalMsg))
			continue
		}
		nonTransparent := 0
		for ai, a := range ro.Attempts {
			if a.Mismatch != "" {
				fail("C18", "replay-mismatch", "rpc %d: %s", ri, a.Mismatch)
			}
			if !a.Acted {
				if !ro.Hung {
					j.Engine = append(j.Engine, fmt.Sprintf("rpc %d attempt %d was never answered", ri, a.Idx))
				}
				break
			}
			if a.B != c18BOK && a.B != c18BOKPushNeg {
				j.Failures++
			}
			// buffer accounting: chosen sizes make the message-prefix convention irrelevant
			exceeded := a.Payload > limit
			if !exceeded && a.Framed > limit {
				j.Engine = append(j.Engine, fmt.Sprintf("buffer limit %d between payload %d and framed %d bytes: ambiguous case generated", limit, a.Payload, a.Framed))
			}
			cands := m.after(a.B, exceeded)
			var next *c18Attempt
			if ai+1 < len(ro.Attempts) {
				next = ro.Attempts[ai+1]
			}
			var want []string
			for _, n := range cands {
				want = append(want, n.String())
			}
			var chosen *c18Next
			if next == nil {
				for i := range cands {
					if cands[i].Kind == "none" {
						chosen = &cands[i]
					}
				}
				if chosen == nil && !ro.Hung {
					fail("C18", "missing-retry", "rpc %d: attempt %d (%s) ended and no further attempt was made (RPC result %s); the policy requires: %s", ri, a.Idx, c18BNames[a.B], ro.Final, strings.Join(want, " or "))
				}
			} else {
				prev, perr := -1, error(nil)
				switch len(next.Prev) {
				case 0:
					prev = 0
				case 1:
					prev, perr = strconv.Atoi(next.Prev[0])
				default:
					perr = fmt.Errorf("%d values", len(next.Prev))
				}
				if perr != nil || (len(next.Prev) == 1 && prev <= 0) {
					fail("C18", "bad-previous-attempts-header", "rpc %d attempt %d carries grpc-previous-rpc-attempts %q", ri, next.Idx, next.Prev)
				}
				for i := range cands {
					if cands[i].Kind != "none" && cands[i].Prev == prev {
						chosen = &cands[i]
					}
				}
				if chosen == nil {
					retryAllowed := false
					for _, n := range cands {
						if n.Kind != "none" {
							retryAllowed = true
						}
					}
					if !retryAllowed {
						fail("C18", "extra-attempt", "rpc %d: attempt %d (%s, app had sent %q = %d payload bytes, buffer limit %d) was followed by attempt %d (previous-attempts %q) but: %s", ri, a.Idx, c18BNames[a.B], a.HistAt, a.Payload, limit, next.Idx, next.Prev, strings.Join(want, " or "))
					} else {
						fail("C18", "wrong-previous-attempts", "rpc %d: attempt %d carries grpc-previous-rpc-attempts %q; admissible after attempt %d (%s): %s", ri, next.Idx, next.Prev, a.Idx, c18BNames[a.B], strings.Join(want, " or "))
					}
				}
			}
			if chosen == nil {
				kinds = append(kinds, "?")
				break
			}
			if chosen.apply != nil {
				chosen.apply()
			}
			k := chosen.Kind
			if k == "none" {
				k = "none(" + chosen.Why + ")"
			} else {
				j.Retries++
				if chosen.Kind == "policy" {
					k = "policy(" + chosen.Why + ")"
					nonTransparent++
				}
				j.Timings = append(j.Timings, c18Timing{RPC: ri, Attempt: a.Idx, Next: *chosen, Gap: next.HdrAt - a.ActedAt})
			}
			kinds = append(kinds, c18BNames[a.B]+">"+k)
		}
		if nonTransparent+1 > c.Cfg.effMax() {
			fail("C18", "too-many-attempts", "rpc %d made %d non-transparent attempts, effective maximum is %d", ri, nonTransparent+1, c.Cfg.effMax())
		}
		if m.tokens != nil {
			j.Tokens = append(j.Tokens, m.tokens.RatString())
		}
		j.MaxReached = max(j.MaxReached, len(ro.Attempts))
		j.Decisions = append(j.Decisions, strings.Join(kinds, " ")+" => "+ro.Final)
	}
	return j
}

// c18TimingCheck judges one retry gap against the C19 statement.  The delay is
// an integer number of nanoseconds, so the real interval [0.8b, 1.2b] is
// widened to the enclosing integers.
func c18TimingCheck(t c18Timing) (ok bool, desc string, bucket string) {
	if t.Next.Exact {
		if t.Gap != t.Next.Delay {
			return false, fmt.Sprintf("%s retry after attempt %d came %v after the attempt ended, want exactly %v", t.Next.Kind, t.Attempt, t.Gap, t.Next.Delay), ""
		}
		return true, "", fmt.Sprintf("%s:exact:%v", t.Next.Why, t.Next.Delay)
	}
	lo := new(big.Rat).Mul(t.Next.Base, big.NewRat(4, 5))
	hi := new(big.Rat).Mul(t.Next.Base, big.NewRat(6, 5))
	loI := new(big.Int).Quo(lo.Num(), lo.Denom()) // floor
	hiI := new(big.Int).Quo(hi.Num(), hi.Denom())
	if !hi.IsInt() {
		hiI.Add(hiI, big.NewInt(1)) // ceil
	}
	g := big.NewInt(int64(t.Gap))
	if g.Cmp(loI) < 0 || g.Cmp(hiI) > 0 {
		return false, fmt.Sprintf("retry after attempt %d came %v (%d ns) after the attempt ended; want within [0.8, 1.2] x min(initial x multiplier^%d, max) = [%s, %s] ns", t.Attempt, t.Gap, int64(t.Gap), t.Next.K, loI, hiI), ""
	}
	// position inside the interval, in fifths (vacuity statistics only)
	span := new(big.Int).Sub(hiI, loI)
	q := 0
	if span.Sign() > 0 {
		off := new(big.Int).Sub(g, loI)
		q = int(new(big.Int).Quo(new(big.Int).Mul(off, big.NewInt(5)), new(big.Int).Add(span, big.NewInt(1))).Int64())
	}
	return true, "", fmt.Sprintf("backoff:k=%d:fifth%d", t.Next.K, q)
}
