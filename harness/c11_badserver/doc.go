//go:build verif

// Package h_c11 is the virtual harness package of property C11 (a misbehaving
// server can never crash or hang the client): a real grpc.ClientConn against a
// raw scripted HTTP/2 server peer, one testing/synctest bubble per frame
// sequence. It exists only in the vcheck overlay.
package h_c11
