//go:build verif

package h_c11

import (
	"bytes"
	"fmt"
	"strings"

	"golang.org/x/net/http2"
	"google.golang.org/grpc/internal/verif/wire"
)

// One symbol of the server-misbehaviour grammar. name is the canonical compact
// spelling used in violation keys / replays ("H1.ok.ES", "D1.win+1", "G.2" ...).
// Stream 1 is the bidi stream, stream 3 the unary RPC, 2 is an (illegal)
// server-initiated id, 9 an idle odd id, 0 the connection.
type c11Sym struct {
	name  string
	kills bool // the peer itself closes the connection as part of the symbol
	emit  func(x *c11Emit)
}

// c11Emit is what a symbol may touch while it is being emitted.
type c11Emit struct {
	p *wire.Peer
}

const (
	c11WinSize      = 65535 // the client's default initial stream window
	c11MaxFrame     = 16384 // the client's advertised SETTINGS_MAX_FRAME_SIZE (default)
	c11MaxHdrList   = 8192  // configured with grpc.WithMaxHeaderListSize
	c11StepDuration = 6     // seconds advanced by the "T6" symbol (unary deadline is 5 s)
)

// c11Raw builds one raw HTTP/2 frame (header says declLen, payload as given).
func c11Raw(declLen int, typ, flags byte, stream uint32, payload []byte) []byte {
	b := []byte{byte(declLen >> 16), byte(declLen >> 8), byte(declLen), typ, flags,
		byte(stream >> 24), byte(stream >> 16), byte(stream >> 8), byte(stream)}
	return append(b, payload...)
}

// header field menus
var (
	c11FOK      = [][2]string{{":status", "200"}, {"content-type", "application/grpc"}}
	c11FOKT     = [][2]string{{":status", "200"}, {"content-type", "application/grpc"}, {"grpc-status", "0"}}
	c11FTr0     = [][2]string{{"grpc-status", "0"}}
	c11FTr13    = [][2]string{{"grpc-status", "13"}, {"grpc-message", "boom%20%zz"}}
	c11FTrX     = [][2]string{{"grpc-status", "x"}}
	c11FNone    = [][2]string{}
	c11F404     = [][2]string{{":status", "404"}, {"content-type", "text/html"}}
	c11F100     = [][2]string{{":status", "100"}}
	c11FStX     = [][2]string{{":status", "x"}}
	c11FNoSt    = [][2]string{{"content-type", "text/html"}}
	c11F200NoCT = [][2]string{{":status", "200"}}
	c11FBadBin  = [][2]string{{":status", "200"}, {"content-type", "application/grpc"}, {"x-bin", "!!!not-base64!!!"}}
	c11FHuge    = [][2]string{{":status", "200"}, {"content-type", "application/grpc"}, {"x-big", strings.Repeat("a", c11MaxHdrList+2000)}}
)

func c11Hdr(name string, stream uint32, fields [][2]string, es, eh bool) c11Sym {
	return c11Sym{name: name, emit: func(x *c11Emit) {
		blk := x.p.Encode(fields)
		x.p.W(func(fr *http2.Framer) error {
			return fr.WriteHeaders(http2.HeadersFrameParam{StreamID: stream, BlockFragment: blk, EndStream: es, EndHeaders: eh})
		})
	}}
}

func c11Data(name string, stream uint32, es bool, data []byte) c11Sym {
	return c11Sym{name: name, emit: func(x *c11Emit) { x.p.WriteData(stream, es, data) }}
}

func c11Settings(name string, ss ...http2.Setting) c11Sym {
	return c11Sym{name: name, emit: func(x *c11Emit) { x.p.WriteSettings(ss...) }}
}

func c11RST(name string, stream uint32, code uint32) c11Sym {
	return c11Sym{name: name, emit: func(x *c11Emit) { x.p.WriteRST(stream, http2.ErrCode(code)) }}
}

func c11GoAway(name string, last uint32, code http2.ErrCode, dbg string) c11Sym {
	return c11Sym{name: name, emit: func(x *c11Emit) { x.p.WriteGoAway(last, code, []byte(dbg)) }}
}

func c11WU(name string, stream, inc uint32) c11Sym {
	return c11Sym{name: name, emit: func(x *c11Emit) {
		// raw: the Framer refuses nothing here, but keep the bytes explicit
		x.p.WriteRaw(c11Raw(4, 0x8, 0, stream, []byte{byte(inc >> 24), byte(inc >> 16), byte(inc >> 8), byte(inc)}))
	}}
}

func c11RawSym(name string, b []byte) c11Sym {
	return c11Sym{name: name, emit: func(x *c11Emit) { x.p.WriteRaw(b) }}
}

// c11Grammar returns the alphabet. The order is fixed (it defines the
// enumeration order and the sharding), the names are unique.
func c11Grammar() []c11Sym {
	emptyMsg := wire.GrpcMsg(false, nil) // 5 bytes: a valid empty gRPC message
	// window+1 bytes on stream 1, split into legal-size frames: one gRPC
	// message whose prefix announces exactly the bytes that follow.
	flood := wire.GrpcMsg(false, make([]byte, c11WinSize+1-5))
	g := []c11Sym{
		// ---- SETTINGS
		{name: "S.ack", emit: func(x *c11Emit) { x.p.WriteSettingsAck() }},
		c11Settings("S.iws0", http2.Setting{ID: http2.SettingInitialWindowSize, Val: 0}),
		c11Settings("S.iws2^31", http2.Setting{ID: http2.SettingInitialWindowSize, Val: 1 << 31}),
		c11Settings("S.mfs1", http2.Setting{ID: http2.SettingMaxFrameSize, Val: 1}),
		c11Settings("S.mcs0", http2.Setting{ID: http2.SettingMaxConcurrentStreams, Val: 0}),
		c11Settings("S.mcs1", http2.Setting{ID: http2.SettingMaxConcurrentStreams, Val: 1}),
		c11RawSym("S.onS1", c11Raw(6, 0x4, 0, 1, []byte{0, 3, 0, 0, 0, 9})),
		// ---- HEADERS
		c11Hdr("H1.ok", 1, c11FOK, false, true),
		c11Hdr("H1.ok.ES", 1, c11FOK, true, true),
		c11Hdr("H1.okT.ES", 1, c11FOKT, true, true),
		c11Hdr("H1.tr0.ES", 1, c11FTr0, true, true),
		c11Hdr("H1.tr13.ES", 1, c11FTr13, true, true),
		c11Hdr("H1.trX.ES", 1, c11FTrX, true, true),
		c11Hdr("H1.none.ES", 1, c11FNone, true, true),
		c11Hdr("H1.404", 1, c11F404, false, true),
		c11Hdr("H1.404.ES", 1, c11F404, true, true),
		c11Hdr("H1.100", 1, c11F100, false, true),
		c11Hdr("H1.100.ES", 1, c11F100, true, true),
		c11Hdr("H1.stX", 1, c11FStX, false, true),
		c11Hdr("H1.noSt", 1, c11FNoSt, false, true),
		c11Hdr("H1.200noCT", 1, c11F200NoCT, false, true),
		c11Hdr("H1.badBin", 1, c11FBadBin, false, true),
		c11Hdr("H1.huge", 1, c11FHuge, false, true),
		c11Hdr("H1.ok.noEH", 1, c11FOK, false, false),
		c11Hdr("H3.ok", 3, c11FOK, false, true),
		c11Hdr("H3.tr0.ES", 3, c11FTr0, true, true),
		c11Hdr("H3.tr13.ES", 3, c11FTr13, true, true),
		c11Hdr("H3.404.ES", 3, c11F404, true, true),
		c11Hdr("H0.ok", 0, c11FOK, false, true),
		c11Hdr("H2.ok", 2, c11FOK, false, true),
		c11Hdr("H9.ok", 9, c11FOK, false, true),
		c11Hdr("H9.tr0.ES", 9, c11FTr0, true, true),
		// ---- CONTINUATION without a preceding HEADERS (empty fragment, END_HEADERS:
		// it legally completes "H1.ok.noEH", anywhere else it is an orphan)
		c11RawSym("C1.EH", c11Raw(0, 0x9, 0x4, 1, nil)),
		// ---- DATA
		c11Data("D1.0", 1, false, nil),
		c11Data("D1.0.ES", 1, true, nil),
		c11Data("D1.msg", 1, false, emptyMsg),
		c11Data("D1.msg.ES", 1, true, emptyMsg),
		c11Data("D3.msg", 3, false, emptyMsg),
		c11Data("D3.msg.ES", 3, true, emptyMsg),
		{name: "D1.pad", emit: func(x *c11Emit) { x.p.WriteDataPadded(1, false, emptyMsg, []byte{0, 0, 0}) }},
		// PADDED flag, pad length 200 > remaining payload
		c11RawSym("D1.pad>len", c11Raw(6, 0x0, 0x8, 1, []byte{200, 0, 0, 0, 0, 0})),
		{name: "D1.win+1", emit: func(x *c11Emit) {
			for off := 0; off < len(flood); off += c11MaxFrame {
				end := off + c11MaxFrame
				if end > len(flood) {
					end = len(flood)
				}
				x.p.WriteData(1, false, flood[off:end])
			}
		}},
		c11Data("D1.frame+1", 1, false, wire.GrpcMsg(false, make([]byte, c11MaxFrame+1-5))),
		// message prefix announces 10 bytes, 3 follow, END_STREAM
		c11Data("D1.part.ES", 1, true, []byte{0, 0, 0, 0, 10, 1, 2, 3}),
		// compressed flag without grpc-encoding
		c11Data("D1.cmp", 1, false, wire.GrpcMsg(true, []byte{1})),
		c11Data("D0.msg", 0, false, emptyMsg),
		c11Data("D9.msg", 9, false, emptyMsg),
		// ---- RST_STREAM
		c11RST("R1.0", 1, 0),
		c11RST("R1.7", 1, 7),
		c11RST("R1.8", 1, 8),
		c11RST("R1.ff", 1, 0xff),
		c11RST("R3.7", 3, 7),
		c11RST("R3.8", 3, 8),
		c11RST("R0.8", 0, 8),
		c11RST("R9.8", 9, 8),
		// ---- PING
		{name: "P", emit: func(x *c11Emit) { x.p.WritePing(false, [8]byte{1, 2, 3, 4, 5, 6, 7, 8}) }},
		{name: "P.ack", emit: func(x *c11Emit) { x.p.WritePing(true, [8]byte{9, 9, 9, 9, 9, 9, 9, 9}) }},
		c11RawSym("P.len7", c11Raw(7, 0x6, 0, 0, []byte{1, 2, 3, 4, 5, 6, 7})),
		// ---- GOAWAY
		c11GoAway("G.0", 0, http2.ErrCodeNo, ""),
		c11GoAway("G.1", 1, http2.ErrCodeNo, ""),
		c11GoAway("G.2", 2, http2.ErrCodeNo, ""),
		c11GoAway("G.3", 3, http2.ErrCodeNo, ""),
		c11GoAway("G.max", 1<<31-1, http2.ErrCodeNo, ""),
		c11GoAway("G.calm", 0, http2.ErrCodeEnhanceYourCalm, "too_many_pings"),
		// ---- WINDOW_UPDATE
		c11WU("W0.0", 0, 0),
		c11WU("W0.1", 0, 1),
		c11WU("W0.max", 0, 1<<31-1),
		c11WU("W1.0", 1, 0),
		c11WU("W1.1", 1, 1),
		c11WU("W1.max", 1, 1<<31-1),
		c11WU("W9.1", 9, 1),
		// ---- frames a gRPC server never sends
		{name: "PP1", emit: func(x *c11Emit) {
			blk := x.p.Encode([][2]string{{":method", "GET"}, {":path", "/"}, {":scheme", "http"}, {":authority", "x"}})
			x.p.W(func(fr *http2.Framer) error {
				return fr.WritePushPromise(http2.PushPromiseParam{StreamID: 1, PromiseID: 2, BlockFragment: blk, EndHeaders: true})
			})
		}},
		{name: "PRI1", emit: func(x *c11Emit) {
			x.p.W(func(fr *http2.Framer) error {
				return fr.WritePriority(1, http2.PriorityParam{StreamDep: 3, Weight: 7})
			})
		}},
		c11RawSym("UNK", c11Raw(4, 0xee, 0xff, 1, []byte{1, 2, 3, 4})),
		c11RawSym("GARB9", []byte{0xff, 0xfe, 0xfd, 0x7f, 0x80, 0x81, 0x00, 0x01, 0x02}),
		{name: "TRUNC", kills: true, emit: func(x *c11Emit) {
			// a DATA frame header announcing 100 bytes, 10 delivered, then EOF
			x.p.WriteRaw(c11Raw(100, 0x0, 0, 1, bytes.Repeat([]byte{7}, 10)))
			x.p.Close()
		}},
		{name: "CLOSE", kills: true, emit: func(x *c11Emit) { x.p.Close() }},
		// ---- virtual time passes (unary deadline 5 s expires, stream deadline 7 s not yet)
		{name: "T6"},
	}
	seen := map[string]bool{}
	for _, s := range g {
		if seen[s.name] || strings.ContainsAny(s.name, " ,") {
			panic(fmt.Sprintf("c11: bad/duplicate symbol name %q", s.name))
		}
		seen[s.name] = true
	}
	return g
}
