//go:build verif

package h_c11

import (
	"context"
	"fmt"
	"io"
	"net"
	"os"
	"runtime"
	"sort"
	"strings"
	"sync"
	"testing"
	"testing/synctest"
	"time"

	"google.golang.org/grpc"
	"google.golang.org/grpc/credentials/insecure"
	"google.golang.org/grpc/internal/verif/wire"
	"google.golang.org/grpc/mem"
	"google.golang.org/grpc/stats"
	"google.golang.org/grpc/status"
)

// c11RawCodec passes []byte / *[]byte through unchanged.
type c11RawCodec struct{}

func (c11RawCodec) Name() string { return "verif-raw" }
func (c11RawCodec) Marshal(v any) (mem.BufferSlice, error) {
	switch b := v.(type) {
	case []byte:
		return mem.BufferSlice{mem.SliceBuffer(b)}, nil
	case *[]byte:
		return mem.BufferSlice{mem.SliceBuffer(*b)}, nil
	}
	return nil, fmt.Errorf("c11RawCodec: unsupported %T", v)
}
func (c11RawCodec) Unmarshal(data mem.BufferSlice, v any) error {
	p, ok := v.(*[]byte)
	if !ok {
		return fmt.Errorf("c11RawCodec: unsupported %T", v)
	}
	*p = data.Materialize()
	return nil
}

// c11Stats counts stats.Begin / stats.End per method (one pair per attempt).
type c11Stats struct {
	mu      sync.Mutex
	begins  map[string]int
	ends    map[string]int
	lastEnd map[string]error
}

type c11MethodKey struct{}

func (h *c11Stats) TagRPC(ctx context.Context, info *stats.RPCTagInfo) context.Context {
	return context.WithValue(ctx, c11MethodKey{}, info.FullMethodName)
}
func (h *c11Stats) HandleRPC(ctx context.Context, s stats.RPCStats) {
	m, _ := ctx.Value(c11MethodKey{}).(string)
	h.mu.Lock()
	defer h.mu.Unlock()
	switch s.(type) {
	case *stats.Begin:
		h.begins[m]++
	case *stats.End:
		h.ends[m]++
		h.lastEnd[m] = s.(*stats.End).Error
	}
}
func (h *c11Stats) TagConn(ctx context.Context, _ *stats.ConnTagInfo) context.Context { return ctx }
func (h *c11Stats) HandleConn(context.Context, stats.ConnStats)                      {}

// Variants of the client-side script / pacing.
const (
	c11VOpen  = "open"  // bidi stream stays open for sending while the frames arrive; quiescence after every frame
	c11VHalf  = "half"  // bidi stream half-closed (CloseSend) before the frames arrive; quiescence after every frame
	c11VBurst = "burst" // like open, but the whole sequence is written back-to-back without waiting
)

const (
	c11UnaryDeadline  = 5 * time.Second
	c11StreamDeadline = 7 * time.Second
	c11Horizon        = 20 * time.Second // virtual time at which both RPCs must long be over
	c11MaxMsgs        = 100000           // safety cap on messages delivered to the stream reader
)

type c11Viol struct {
	Kind string `json:"kind"`
	Desc string `json:"desc"`
}

// c11Result is what one sequence produced (child → supervisor, JSON).
type c11Result struct {
	Key        string    `json:"key"`
	Class      string    `json:"class"`
	Dead       bool      `json:"dead"` // the first connection no longer carries frames to the client after the sequence
	Nontrivial bool      `json:"nontrivial"`
	Viol       []c11Viol `json:"viol,omitempty"`
	Pre        string    `json:"pre,omitempty"`      // harness precondition failure (engine error, not a verdict)
	Poisoned   bool      `json:"poisoned,omitempty"` // goroutines were left behind: the worker must be restarted
	Unary      string    `json:"unary"`
	Stream     string    `json:"stream"`
	NConn      int       `json:"nconn"`
	ClientLog  string    `json:"client_frames,omitempty"`
	// informational (not verdicts unless VERIF_C11_STRICT_RECV=1): what RecvMsg
	// did when called again after it had reported the final status, and whether
	// the status seen by the stats handler's End event equals the returned one.
	PostFinal string `json:"post_final_recv,omitempty"` // same | other-code | delivered-msg
	EndAgrees string `json:"end_event,omitempty"`       // agree | differ
	// informational: a stats.Begin without exactly one stats.End (attempt never finished)
	AttemptEnds string `json:"attempt_ends,omitempty"`
}

func (r *c11Result) viol(kind, format string, a ...any) {
	for _, v := range r.Viol {
		if v.Kind == kind {
			return
		}
	}
	d := fmt.Sprintf(format, a...)
	if len(d) > 1500 {
		d = d[:1500] + "…"
	}
	r.Viol = append(r.Viol, c11Viol{Kind: kind, Desc: d})
}

func c11Key(g []c11Sym, variant string, seq []int) string {
	names := make([]string, len(seq))
	for i, s := range seq {
		names[i] = g[s].name
	}
	return variant + ":" + strings.Join(names, ",")
}

// c11Code classifies an RPC's final error: "OK" for nil / io.EOF, the decimal
// status code for status errors, "nonstatus" otherwise.
func c11Code(err error, eofIsOK bool) (string, int) {
	if err == nil || (eofIsOK && err == io.EOF) {
		return "0", 0
	}
	if st, ok := status.FromError(err); ok {
		return fmt.Sprint(uint32(st.Code())), int(st.Code())
	}
	return "nonstatus", -1
}

type c11RPCObs struct {
	done    chan struct{}
	err     error     // final status
	end     time.Time // virtual time of the first final status
	after   time.Time // virtual time when the post-termination calls had returned
	msgs    int
	err2    error
	err3    error
	nilLate bool   // a RecvMsg after the first error returned nil
	send2   string // result of SendMsg after the end (informational)
}

// c11BubbleGoroutines summarises the goroutines still associated with a bubble.
func c11BubbleGoroutines() string {
	buf := make([]byte, 1<<20)
	buf = buf[:runtime.Stack(buf, true)]
	var out []string
	for _, blk := range strings.Split(string(buf), "\n\n") {
		lines := strings.Split(blk, "\n")
		if len(lines) < 2 || !strings.Contains(lines[0], "synctest bubble") {
			continue
		}
		fn := ""
		for _, l := range lines[1:] {
			if strings.HasPrefix(l, "google.golang.org/grpc") {
				fn = l
				break
			}
		}
		if fn == "" {
			fn = lines[1]
		}
		if i := strings.LastIndex(fn, "("); i > 0 {
			fn = fn[:i]
		}
		hdr := lines[0]
		if i := strings.Index(hdr, "["); i >= 0 {
			hdr = hdr[i:]
		}
		out = append(out, fn+" "+hdr)
	}
	sort.Strings(out)
	if len(out) > 12 {
		out = append(out[:12], "…")
	}
	return strings.Join(out, " | ")
}

// c11RunSeq runs one (variant, sequence) in a fresh bubble and evaluates the
// C11 oracle on it.
func c11RunSeq(t *testing.T, g []c11Sym, variant string, seq []int) (res c11Result) {
	res.Key = c11Key(g, variant, seq)
	defer func() {
		if p := recover(); p != nil {
			// testing/synctest panics on the goroutine that called Test when the
			// bubble cannot end: goroutines are durably blocked for ever.
			res.viol("leak", "bubble cannot end after cc.Close(): %v; remaining: %s", p, c11BubbleGoroutines())
			res.Poisoned = true
		}
	}()
	synctest.Test(t, func(t *testing.T) { c11Scenario(g, variant, seq, &res) })
	return res
}

func c11Scenario(g []c11Sym, variant string, seq []int, res *c11Result) {
	var (
		pmu   sync.Mutex
		peers []*wire.Peer
		cc    *grpc.ClientConn
	)
	allPeers := func() []*wire.Peer {
		pmu.Lock()
		defer pmu.Unlock()
		return append([]*wire.Peer(nil), peers...)
	}
	cleaned := false
	cleanup := func() {
		if cleaned {
			return
		}
		cleaned = true
		if cc != nil {
			cc.Close()
		}
		for _, p := range allPeers() {
			p.Close()
		}
	}
	// No recover() anywhere in the bubble: a panic that escapes the gRPC API (on
	// the caller's goroutine or on one of grpc's own) may leave locks held, so
	// the worker process is allowed to die and the supervisor attributes the
	// crash to this sequence.

	// Every connection the channel dials gets a polite raw server: SETTINGS,
	// acks, nothing else. Only the first one misbehaves (below); RPCs that the
	// client moves to a later connection simply never get an answer.
	dial := func(ctx context.Context, _ string) (net.Conn, error) {
		c, s := wire.Pipe()
		p := wire.NewServerPeer(s)
		p.AutoAckSettings, p.AutoAckPing = true, true
		p.WriteSettings()
		pmu.Lock()
		peers = append(peers, p)
		pmu.Unlock()
		return c, nil
	}
	sh := &c11Stats{begins: map[string]int{}, ends: map[string]int{}, lastEnd: map[string]error{}}
	var err error
	cc, err = grpc.NewClient("passthrough:///c11",
		grpc.WithContextDialer(dial),
		grpc.WithTransportCredentials(insecure.NewCredentials()),
		grpc.WithMaxHeaderListSize(c11MaxHdrList),
		grpc.WithStatsHandler(sh),
		grpc.WithDefaultCallOptions(grpc.ForceCodecV2(c11RawCodec{})))
	if err != nil {
		res.Pre = "NewClient: " + err.Error()
		return
	}
	start := time.Now()
	sctx, scancel := context.WithDeadline(context.Background(), start.Add(c11StreamDeadline))
	defer scancel()
	uctx, ucancel := context.WithDeadline(context.Background(), start.Add(c11UnaryDeadline))
	defer ucancel()

	// ---- set-up: stream 1 = bidi, stream 3 = unary, both requests on the wire
	stream, err := cc.NewStream(sctx, &grpc.StreamDesc{StreamName: "Bidi", ClientStreams: true, ServerStreams: true}, "/c11/Bidi")
	if err != nil {
		res.Pre = "NewStream: " + err.Error()
		cleanup()
		return
	}
	synctest.Wait()
	u := &c11RPCObs{done: make(chan struct{})}
	go func() {
		defer close(u.done)
		var reply []byte
		u.err = cc.Invoke(uctx, "/c11/Unary", []byte("u"), &reply)
		u.end = time.Now()
		u.after = u.end
	}()
	synctest.Wait()
	s := &c11RPCObs{done: make(chan struct{})}
	go func() {
		defer close(s.done)
		if e := stream.SendMsg([]byte("m1")); e != nil {
			s.send2 = "first SendMsg: " + e.Error()
		}
		if variant == c11VHalf {
			stream.CloseSend()
		}
		for {
			var m []byte
			e := stream.RecvMsg(&m)
			if e != nil {
				s.err, s.end = e, time.Now()
				break
			}
			if s.msgs++; s.msgs > c11MaxMsgs {
				s.err, s.end = fmt.Errorf("c11: more than %d messages delivered", c11MaxMsgs), time.Now()
				break
			}
		}
		// the RPC has its final status: everything after must agree with it
		var m []byte
		s.err2 = stream.RecvMsg(&m)
		s.err3 = stream.RecvMsg(&m)
		s.nilLate = s.err2 == nil || s.err3 == nil
		if variant != c11VHalf {
			if e := stream.SendMsg([]byte("m2")); e != nil {
				s.send2 = e.Error()
			} else {
				s.send2 = "nil"
			}
			stream.CloseSend()
		}
		stream.Header()
		stream.Trailer()
		s.after = time.Now()
	}()
	synctest.Wait()

	ps := allPeers()
	if len(ps) != 1 {
		res.Pre = fmt.Sprintf("set-up dialed %d connections", len(ps))
		cleanup()
		return
	}
	p0 := ps[0]
	var sawH1, sawH3, sawD1, sawD3 bool
	for _, f := range p0.Log() {
		switch {
		case f.Type == "HEADERS" && f.Stream == 1:
			path, _ := wire.Field(f.Fields, ":path")
			sawH1 = path == "/c11/Bidi"
		case f.Type == "HEADERS" && f.Stream == 3:
			path, _ := wire.Field(f.Fields, ":path")
			sawH3 = path == "/c11/Unary"
		case f.Type == "DATA" && f.Stream == 1:
			sawD1 = true
		case f.Type == "DATA" && f.Stream == 3:
			sawD3 = f.EndStream
		}
	}
	if !(sawH1 && sawH3 && sawD1 && sawD3) || p0.Closed() {
		res.Pre = "set-up did not put both requests on the wire: " + p0.LogString()
		cleanup()
		return
	}
	setupFrames := len(p0.Log())

	// ---- the misbehaviour
	peerClosed := false
	em := &c11Emit{p: p0}
	for _, si := range seq {
		sym := g[si]
		switch {
		case sym.emit == nil: // T6
			synctest.Wait()
			time.Sleep(c11StepDuration * time.Second)
		default:
			sym.emit(em) // write errors (connection already gone) are irrelevant
			if sym.kills {
				peerClosed = true
			}
		}
		if variant != c11VBurst {
			synctest.Wait()
		}
	}
	synctest.Wait()
	res.Dead = peerClosed || p0.Closed()
	isDone := func(o *c11RPCObs) bool {
		select {
		case <-o.done:
			return true
		default:
			return false
		}
	}

	// ---- past both deadlines
	if d := start.Add(c11Horizon).Sub(time.Now()); d > 0 {
		time.Sleep(d)
	}
	synctest.Wait()
	uDone, sDone := isDone(u), isDone(s)
	if !uDone {
		res.viol("hang-unary", "Invoke has not returned at t=+%v (deadline +%v)", time.Since(start), c11UnaryDeadline)
	}
	if !sDone {
		res.viol("hang-stream", "the bidi stream's reader has not finished at t=+%v (deadline +%v)", time.Since(start), c11StreamDeadline)
	}
	for _, f := range p0.Log()[setupFrames:] {
		res.ClientLog += f.String() + " "
	}
	res.NConn = len(allPeers())

	// ---- close; nothing may be left behind
	cc.Close()
	time.Sleep(30 * time.Second) // let every close-path timer expire
	synctest.Wait()
	open := 0
	for _, p := range allPeers() {
		if !p.Closed() {
			open++
		}
	}
	if open > 0 {
		res.viol("conn-open", "%d of %d connections not closed by the client 30 s after cc.Close()", open, res.NConn)
	}
	cleanup()
	synctest.Wait()
	if !uDone && isDone(u) {
		uDone = true
	}
	if !sDone && isDone(s) {
		sDone = true
	}

	// ---- oracle on what the RPCs returned
	check := func(name string, o *c11RPCObs, done bool, deadline time.Duration, eofOK bool) string {
		if !done {
			return name + "=hung"
		}
		cs, code := c11Code(o.err, eofOK)
		if code < 0 {
			res.viol("nonstatus-"+name, "%s ended with an error that carries no status: %T %v", name, o.err, o.err)
		} else if code > 16 {
			res.viol("illegal-code-"+name, "%s ended with illegal status code %d: %v", name, code, o.err)
		}
		when := "early"
		switch dl := start.Add(deadline); {
		case o.end.After(dl):
			res.viol("late-"+name, "%s ended at +%v, after its deadline +%v: %v", name, o.end.Sub(start), deadline, o.err)
			when = "LATE"
		case o.end.Equal(dl):
			when = "atdl"
		}
		if o.after.After(start.Add(deadline)) && !o.end.After(start.Add(deadline)) {
			res.viol("late-after-"+name, "%s: calls after the final status blocked until +%v (deadline +%v)", name, o.after.Sub(start), deadline)
		}
		return name + "=" + cs + "@" + when
	}
	uc := check("unary", u, uDone, c11UnaryDeadline, false)
	sc := check("stream", s, sDone, c11StreamDeadline, true)
	if sDone {
		strict := os.Getenv("VERIF_C11_STRICT_RECV") != ""
		c1, _ := c11Code(s.err, true)
		c2, _ := c11Code(s.err2, true)
		c3, _ := c11Code(s.err3, true)
		switch {
		case s.nilLate:
			res.PostFinal = "delivered-msg"
			if strict {
				res.viol("recv-nil-after-final", "RecvMsg returned nil after an earlier RecvMsg had returned the final status %v (then %v, %v)", s.err, s.err2, s.err3)
			}
		case c1 != c2 || c1 != c3:
			res.PostFinal = "other-code"
			if strict {
				res.viol("second-status", "the stream reported more than one status: RecvMsg returned %v, then %v, then %v", s.err, s.err2, s.err3)
			}
		default:
			res.PostFinal = "same"
		}
	}
	if uDone {
		res.Unary = fmt.Sprintf("%v @+%v", u.err, u.end.Sub(start))
	}
	if sDone {
		res.Stream = fmt.Sprintf("%v @+%v msgs=%d send2=%s", s.err, s.end.Sub(start), s.msgs, s.send2)
	}
	// Observer's view of the RPCs (stats handler): is every Begin matched by
	// exactly one End once the RPC has returned and the channel is closed?
	sh.mu.Lock()
	res.EndAgrees = "agree"
	for _, m := range []string{"/c11/Bidi", "/c11/Unary"} {
		if sh.begins[m] < 1 || sh.begins[m] != sh.ends[m] {
			// Not a C11 clause (it belongs to C23, "every pick's Done runs exactly
			// once"): recorded as a statistic with the sequences, never a verdict.
			res.AttemptEnds = fmt.Sprintf("%s: %d Begin, %d End", m, sh.begins[m], sh.ends[m])
		}
	}
	if uDone && sDone {
		ca, _ := c11Code(u.err, false)
		cb, _ := c11Code(sh.lastEnd["/c11/Unary"], false)
		cc1, _ := c11Code(s.err, true)
		cd, _ := c11Code(sh.lastEnd["/c11/Bidi"], true)
		if ca != cb || cc1 != cd {
			res.EndAgrees = "differ"
		}
	}
	sh.mu.Unlock()

	conn := "alive"
	switch {
	case peerClosed:
		conn = "peer-closed"
	case res.Dead:
		conn = "client-closed"
	}
	res.Class = fmt.Sprintf("%s %s conn=%s dials=%d", uc, sc, conn, res.NConn)
	// Non-trivial: the frames changed the fate of the connection or of an RPC
	// (anything other than "both RPCs sat there until their deadlines").
	res.Nontrivial = res.Dead || res.NConn > 1 || !strings.Contains(uc, "=4@atdl") || !strings.Contains(sc, "=4@atdl") || (sDone && s.msgs > 0)
}
