//go:build verif

package h_c11

import (
	"bufio"
	"encoding/json"
	"fmt"
	"io"
	"os"
	"os/exec"
	"strings"
	"sync"
	"syscall"
	"testing"
	"time"

	"google.golang.org/grpc/grpclog"
	"google.golang.org/grpc/internal/verif/vk"
)

// The leg runs as a supervisor (this test function, holding the vk evidence)
// plus a worker subprocess (the same test binary with VERIF_C11_WORKER=1) that
// executes one frame sequence per request, each in its own synctest bubble.
// A panic inside one of grpc's own goroutines cannot be recovered: it kills
// the worker; the supervisor then knows exactly which sequence was in flight,
// reports it as a violation and starts a new worker for the rest.

const c11WorkerEnv = "VERIF_C11_WORKER"

type c11Req struct {
	Variant string `json:"v"`
	Seq     []int  `json:"seq"`
}

// c11Replay identifies a case by symbol names (stable if the grammar grows).
type c11Replay struct {
	Variant string   `json:"variant"`
	Seq     []string `json:"seq"`
}

func c11WorkerMain(t *testing.T) {
	grpclog.SetLoggerV2(grpclog.NewLoggerV2(io.Discard, io.Discard, io.Discard))
	g := c11Grammar()
	out := os.NewFile(3, "c11-results")
	if out == nil {
		t.Fatalf("c11 worker: fd 3 missing")
	}
	w := bufio.NewWriter(out)
	in := bufio.NewScanner(os.Stdin)
	in.Buffer(make([]byte, 1<<16), 1<<16)
	for in.Scan() {
		var rq c11Req
		if err := json.Unmarshal(in.Bytes(), &rq); err != nil {
			t.Fatalf("c11 worker: bad request %q: %v", in.Text(), err)
		}
		res := c11RunSeq(t, g, rq.Variant, rq.Seq)
		b, _ := json.Marshal(res)
		w.Write(b)
		w.WriteByte('\n')
		w.Flush()
		if res.Poisoned {
			return // goroutines were leaked into this process: let the supervisor start a clean one
		}
	}
}

// c11Worker is the supervisor's handle on one worker subprocess.
type c11Worker struct {
	cmd    *exec.Cmd
	stdin  io.WriteCloser
	res    *bufio.Reader
	resF   *os.File
	stderr *c11Tail
}

// c11Tail keeps the last bytes written to it.
type c11Tail struct {
	mu  sync.Mutex
	buf []byte
}

func (t *c11Tail) Write(p []byte) (int, error) {
	t.mu.Lock()
	t.buf = append(t.buf, p...)
	if len(t.buf) > 1<<16 {
		t.buf = append([]byte(nil), t.buf[len(t.buf)-(1<<15):]...)
	}
	t.mu.Unlock()
	return len(p), nil
}
func (t *c11Tail) String() string { t.mu.Lock(); defer t.mu.Unlock(); return string(t.buf) }

func c11StartWorker(testName string) (*c11Worker, error) {
	exe, err := os.Executable()
	if err != nil {
		return nil, err
	}
	pr, pw, err := os.Pipe()
	if err != nil {
		return nil, err
	}
	cmd := exec.Command(exe, "-test.run", "^"+testName+"$", "-test.timeout", "0", "-test.count=1")
	cmd.Env = append(os.Environ(), c11WorkerEnv+"=1")
	cmd.ExtraFiles = []*os.File{pw}
	tail := &c11Tail{}
	cmd.Stdout = tail
	cmd.Stderr = tail
	stdin, err := cmd.StdinPipe()
	if err != nil {
		return nil, err
	}
	if err := cmd.Start(); err != nil {
		return nil, err
	}
	pw.Close()
	return &c11Worker{cmd: cmd, stdin: stdin, res: bufio.NewReaderSize(pr, 1<<16), resF: pr, stderr: tail}, nil
}

func (w *c11Worker) stop() {
	w.stdin.Close()
	w.cmd.Process.Kill()
	w.cmd.Wait()
	w.resF.Close()
}

// c11PanicLine extracts the interesting part of a crashed worker's output.
func c11PanicLine(out string) string {
	i := strings.Index(out, "panic: ")
	if j := strings.Index(out, "fatal error: "); j >= 0 && (i < 0 || j < i) {
		i = j
	}
	if i < 0 {
		if len(out) > 600 {
			out = out[len(out)-600:]
		}
		return out
	}
	out = out[i:]
	// keep the message and the first grpc frames
	lines := strings.Split(out, "\n")
	keep := []string{}
	for k, l := range lines {
		if k < 3 || (strings.Contains(l, "google.golang.org/grpc") && !strings.HasPrefix(l, "\t")) {
			keep = append(keep, strings.TrimSpace(l))
		}
		if len(keep) >= 12 {
			break
		}
	}
	return strings.Join(keep, " | ")
}

// c11Sup runs sequences on (re)started workers and feeds the evidence.
type c11Sup struct {
	t          *testing.T
	r          *vk.Run
	g          []c11Sym
	w          *c11Worker
	stall      time.Duration
	crashes    int
	restarts   int
	gaveUp     bool
	kinds      map[string]map[string]bool // key → violation kinds seen when it was run (by this shard)
	suppressed int64
	unended    map[string]any
}

// failsWith reports whether (variant, seq) shows violation kind k (running it
// if this shard has not done so yet; such runs are not counted as evaluations).
func (s *c11Sup) failsWith(variant string, seq []int, k string) bool {
	key := c11Key(s.g, variant, seq)
	ks, ok := s.kinds[key]
	if !ok {
		s.run(variant, seq, false)
		ks = s.kinds[key]
	}
	return ks[k]
}

// minimal reports whether no sequence obtained from seq by deleting one symbol
// shows the same violation kind: only such 1-minimal counterexamples are
// reported (the shorter one is reported by the shard that owns it).
func (s *c11Sup) minimal(variant string, seq []int, k string) bool {
	if len(seq) < 2 {
		return true
	}
	for i := range seq {
		sub := append(append([]int(nil), seq[:i]...), seq[i+1:]...)
		if s.failsWith(variant, sub, k) {
			return false
		}
	}
	return true
}

func (s *c11Sup) report(variant string, seq []int, kind, desc string) {
	key := c11Key(s.g, variant, seq)
	if !s.minimal(variant, seq, kind) {
		s.suppressed++
		return
	}
	s.r.Violation(c11P, key+" !"+kind, desc, s.replayOf(variant, seq))
}

func (s *c11Sup) note(key, kind string) {
	if s.kinds[key] == nil {
		s.kinds[key] = map[string]bool{}
	}
	if kind != "" {
		s.kinds[key][kind] = true
	}
}

const c11P = "C11"

func (s *c11Sup) replayOf(variant string, seq []int) c11Replay {
	rp := c11Replay{Variant: variant}
	for _, i := range seq {
		rp.Seq = append(rp.Seq, s.g[i].name)
	}
	return rp
}

// run executes one sequence; count says whether this shard owns the case (its
// evaluation, outcome and verdicts are recorded) or only needs the "dead" bit.
func (s *c11Sup) run(variant string, seq []int, count bool) (res c11Result, ok bool) {
	if s.gaveUp {
		return res, false
	}
	key := c11Key(s.g, variant, seq)
	if s.w == nil {
		w, err := c11StartWorker(s.t.Name())
		if err != nil {
			s.r.EngineError("cannot start worker: %v", err)
			s.gaveUp = true
			return res, false
		}
		s.w = w
		s.restarts++
	}
	b, _ := json.Marshal(c11Req{Variant: variant, Seq: seq})
	s.w.stdin.Write(append(b, '\n'))
	type rd struct {
		line []byte
		err  error
	}
	ch := make(chan rd, 1)
	w := s.w
	go func() {
		l, err := w.res.ReadBytes('\n')
		ch <- rd{l, err}
	}()
	var got rd
	timer := time.NewTimer(s.stall)
	defer timer.Stop()
	select {
	case got = <-ch:
	case <-timer.C:
		// Watchdog: the worker is neither finished nor quiescent (a goroutine
		// blocked in a way the bubble cannot see, or spinning). Get a dump.
		w.cmd.Process.Signal(syscall.SIGQUIT)
		select {
		case <-ch:
		case <-time.After(20 * time.Second):
		}
		s.w.stop()
		s.w = nil
		dump := w.stderr.String()
		s.crashes += 9 // a hang costs the whole watchdog interval: give up after three
		s.note(key, "hang")
		if count {
			s.r.Eval(c11P, 1)
			s.r.Outcome(c11P, "HANG")
			s.report(variant, seq, "hang", fmt.Sprintf("the client did not come to rest within %v of real time while processing this sequence (worker killed): %s", s.stall, c11HangSummary(dump)))
		}
		return res, false
	}
	if got.err != nil {
		// the worker died: a panic (or runtime fatal error) on one of grpc's goroutines
		w.cmd.Wait()
		out := w.stderr.String()
		s.w.stop()
		s.w = nil
		s.crashes++
		s.note(key, "crash")
		if count {
			s.r.Eval(c11P, 1)
			s.r.Outcome(c11P, "CRASH")
			s.report(variant, seq, "crash", "the client process died while processing this sequence: "+c11PanicLine(out))
		}
		return res, false
	}
	if err := json.Unmarshal(got.line, &res); err != nil {
		s.r.EngineError("bad worker reply for %s: %v", key, err)
		s.gaveUp = true
		return res, false
	}
	if res.Poisoned {
		s.w.stop()
		s.w = nil
	}
	if res.Pre != "" {
		s.r.EngineError("harness precondition failed for %s: %s", key, res.Pre)
		s.gaveUp = true
		return res, false
	}
	s.note(key, "")
	for _, v := range res.Viol {
		s.note(key, v.Kind)
	}
	if res.AttemptEnds != "" {
		s.note(key, "attempt-ends")
	}
	if count {
		s.r.Eval(c11P, 1)
		s.r.Outcome(c11P, res.Class)
		if res.Nontrivial {
			s.r.NontrivialN(c11P, 1)
		}
		if res.PostFinal != "" {
			s.r.AddInt(c11P, "recvmsg_again_after_final_status/"+res.PostFinal, 1)
		}
		if res.EndAgrees != "" {
			s.r.AddInt(c11P, "stats_end_event_status/"+res.EndAgrees, 1)
		}
		if res.AttemptEnds != "" {
			// statistic only (routed to C23); list the 1-minimal sequences
			s.note(key, "attempt-ends")
			s.r.AddInt(c11P, "rpc_attempt_without_exactly_one_stats_End/count", 1)
			if s.minimal(variant, seq, "attempt-ends") {
				s.unended[key+" ("+res.AttemptEnds+")"] = 1
				s.r.Set(c11P, "rpc_attempt_without_exactly_one_stats_End/minimal_sequences", s.unended)
			}
		}
		for _, v := range res.Viol {
			s.report(variant, seq, v.Kind, v.Desc+fmt.Sprintf(" [unary: %s] [stream: %s] [client sent: %s]", res.Unary, res.Stream, res.ClientLog))
		}
	}
	return res, true
}

func c11HangSummary(dump string) string {
	i := strings.Index(dump, "SIGQUIT")
	if i < 0 {
		return "(no goroutine dump)"
	}
	var fns []string
	for _, blk := range strings.Split(dump[i:], "\n\n") {
		lines := strings.Split(blk, "\n")
		if len(lines) < 2 || !strings.HasPrefix(lines[0], "goroutine ") || !strings.Contains(lines[0], "synctest bubble") || strings.Contains(lines[0], "(durable)") {
			continue
		}
		fn := lines[1]
		for _, l := range lines[1:] {
			if strings.HasPrefix(l, "google.golang.org/grpc") && !strings.Contains(l, "internal/verif") {
				fn = l
				break
			}
		}
		if k := strings.LastIndex(fn, "("); k > 0 {
			fn = fn[:k]
		}
		hdr := lines[0]
		if k := strings.Index(hdr, "["); k >= 0 {
			hdr = hdr[k:]
		}
		fns = append(fns, fn+" "+hdr)
		if len(fns) >= 8 {
			break
		}
	}
	return "not durably blocked: " + strings.Join(fns, " | ")
}

func TestVerif_C11_BadServer(t *testing.T) {
	if os.Getenv(c11WorkerEnv) != "" {
		c11WorkerMain(t)
		return
	}
	r := vk.Start(t, "c11_badserver", "fault_enumeration", c11P)
	defer r.Finish()
	g := c11Grammar()
	n := len(g)
	depth := r.Pick(2, 3)
	r.Rule(c11P, fmt.Sprintf("every sequence of 1..%d symbols of a %d-symbol grammar of server frames / bytes (SETTINGS, HEADERS menus, CONTINUATION, DATA, RST_STREAM, PING, GOAWAY, WINDOW_UPDATE, PUSH_PROMISE, PRIORITY, unknown type, garbage, truncation, close, +6 s of virtual time) is sent on the first connection of a real grpc.ClientConn that carries a bidi stream (id 1, deadline 7 s) and a unary RPC (id 3, deadline 5 s), one synctest bubble per sequence, in each of the client variants open (stream still sendable, quiescence after each frame), half (CloseSend first, quiescence after each frame) and burst (like open, frames written back-to-back). In open/half an extension of a prefix after which the first connection no longer exists is not run: it is the same history as the prefix (burst is never pruned). Non-trivial = distinct (variant, sequence) after which the connection was torn down, the channel re-dialed, a message was delivered, or an RPC ended otherwise than DEADLINE_EXCEEDED exactly at its deadline.", depth, n))
	r.Assume(c11P, "testing/synctest quiescence detection and virtual clock; GOMAXPROCS=1 worker processes; the x/net/http2 Framer of the raw peer writes what it is told (AllowIllegalWrites) and raw bytes for what it refuses")
	r.Assume(c11P, "connections the channel dials after the first one reach a silent, well-behaved server (SETTINGS + acks only)")
	r.Assume(c11P, "a worker that neither answers nor dies within the watchdog interval of real time is reported as a hang of the sequence in flight (only reachable when a goroutine is blocked invisibly to the bubble or spins)")
	r.Set(c11P, "alphabet", n)
	r.Set(c11P, "depth_bound", depth)
	sup := &c11Sup{t: t, r: r, g: g, stall: 120 * time.Second, kinds: map[string]map[string]bool{}, unended: map[string]any{}}
	if v := os.Getenv("VERIF_C11_STALL_S"); v != "" {
		var sec int
		fmt.Sscan(v, &sec)
		if sec > 0 {
			sup.stall = time.Duration(sec) * time.Second
		}
	}
	defer func() {
		if sup.w != nil {
			sup.w.stop()
		}
		r.Set(c11P, "worker_starts", sup.restarts)
		r.Set(c11P, "worker_crashes_or_hangs", sup.crashes)
		r.Set(c11P, "violations_not_reported_because_a_shorter_sequence_fails_the_same_way", sup.suppressed)
	}()

	if r.ReplayFile() != "" {
		var rp c11Replay
		if err := r.LoadReplay(&rp); err != nil {
			r.EngineError("replay: %v", err)
			return
		}
		var seq []int
		for _, name := range rp.Seq {
			found := -1
			for i := range g {
				if g[i].name == name {
					found = i
				}
			}
			if found < 0 {
				r.EngineError("replay: unknown symbol %q", name)
				return
			}
			seq = append(seq, found)
		}
		res, ok := sup.run(rp.Variant, seq, true)
		fmt.Printf("[c11 replay] %s ok=%v class=%q unary=%q stream=%q client_frames=%q viol=%v\n", c11Key(g, rp.Variant, seq), ok, res.Class, res.Unary, res.Stream, res.ClientLog, res.Viol)
		r.NontrivialN(c11P, 2) // a replay is a single case; keep the evidence schema satisfied
		r.Sample(c11P, res)
		return
	}

	const maxCrashes = 25
	stop := func() bool {
		if sup.gaveUp {
			return true
		}
		if sup.crashes >= maxCrashes {
			r.Cap(c11P, fmt.Sprintf("stopped after %d worker crashes/hangs in one shard", maxCrashes))
			return true
		}
		if r.OverBudget() {
			r.Cap(c11P, "time budget exhausted before the enumeration finished")
			return true
		}
		return false
	}
	samples := 0
	sample := func(res c11Result) {
		// keep a few varied written-out cases: a different class each time
		if samples < 6 && res.Nontrivial {
			samples++
			r.Sample(c11P, res)
		}
	}
	var pruned int64
	item := 0
	for _, variant := range []string{c11VOpen, c11VHalf, c11VBurst} {
		vdepth := depth
		prune := variant != c11VBurst
		// depth 1: every shard runs all of them (it needs the dead bits), the owner records them
		dead1 := make([]bool, n)
		for a := 0; a < n; a++ {
			if stop() {
				return
			}
			mine := r.Mine(item)
			item++
			res, ok := sup.run(variant, []int{a}, mine)
			dead1[a] = !ok || res.Dead
			if ok && mine && a%7 == 0 {
				sample(res)
			}
		}
		if vdepth < 2 {
			continue
		}
		for a := 0; a < n; a++ {
			for b := 0; b < n; b++ {
				mine := r.Mine(item)
				item++
				if !mine {
					continue
				}
				if stop() {
					return
				}
				if prune && dead1[a] {
					pruned += int64(1)
					if vdepth >= 3 {
						pruned += int64(n)
					}
					continue
				}
				res, ok := sup.run(variant, []int{a, b}, true)
				if ok && (a*n+b)%97 == 0 {
					sample(res)
				}
				if vdepth < 3 {
					continue
				}
				if prune && (!ok || res.Dead) {
					pruned += int64(n)
					continue
				}
				for c := 0; c < n; c++ {
					if stop() {
						return
					}
					sup.run(variant, []int{a, b, c}, true)
				}
			}
		}
	}
	r.Set(c11P, "sequences_pruned_connection_already_gone", pruned)
}
