//go:build verif

package resolver

// C46 (leg b, package internal/xds/resolver): the whole client-side routing
// pipeline, from RouteConfiguration protos to the cluster and request hash an
// RPC gets:
//
//	proto --(production RDS decoder)--> RouteConfigUpdate
//	      --(FindBestMatchingVirtualHost, as xdsdepmgr does)--> virtual host
//	      --(xdsResolver.newConfigSelector)--> configSelector
//	      --(SelectConfig)--> picked cluster, request hash
//
// against a reference evaluator of the route-configuration language written
// from the property sentence. The two random sources are owned: the runtime
// fraction seam xdsresource.RandInt64n is pinned per RPC, and rinternal.NewWRR
// is replaced by a recording WRR whose Next() result the harness chooses (leg
// c46c drives the real randomWRR through all draws).

import (
	"context"
	"fmt"
	"sort"
	"strings"
	"testing"

	v3corepb "github.com/envoyproxy/go-control-plane/envoy/config/core/v3"
	v3routepb "github.com/envoyproxy/go-control-plane/envoy/config/route/v3"
	v3matcherpb "github.com/envoyproxy/go-control-plane/envoy/type/matcher/v3"
	v3typepb "github.com/envoyproxy/go-control-plane/envoy/type/v3"
	"google.golang.org/grpc/internal/grpcsync"
	"google.golang.org/grpc/internal/grpcutil"
	iresolver "google.golang.org/grpc/internal/resolver"
	iringhash "google.golang.org/grpc/internal/ringhash"
	"google.golang.org/grpc/internal/verif/vk"
	"google.golang.org/grpc/internal/wrr"
	"google.golang.org/grpc/internal/xds/balancer/clustermanager"
	"google.golang.org/grpc/internal/xds/bootstrap"
	"google.golang.org/grpc/internal/xds/clients/lrsclient"
	gxdsclient "google.golang.org/grpc/internal/xds/clients/xdsclient"
	"google.golang.org/grpc/internal/xds/httpfilter"
	rinternal "google.golang.org/grpc/internal/xds/resolver/internal"
	"google.golang.org/grpc/internal/xds/xdsclient/xdsresource"
	"google.golang.org/grpc/internal/xds/xdsdepmgr"
	"google.golang.org/grpc/metadata"
	"google.golang.org/protobuf/types/known/anypb"
	"google.golang.org/protobuf/types/known/wrapperspb"
)

const c46bP = "C46"

// ---- specification-level description of a route configuration and an RPC ----

type c46bHdr struct {
	Name string `json:"name"`
	Kind string `json:"kind"` // exact present range
	Pat  string `json:"pat"`
	Flag bool   `json:"present_flag"`
	Lo   int64  `json:"lo"`
	Hi   int64  `json:"hi"`
	Inv  bool   `json:"invert"`
}

type c46bWC struct {
	Name   string `json:"name"`
	Weight uint32 `json:"weight"`
}

type c46bHP struct {
	Kind     string `json:"kind"` // header channel_id
	Header   string `json:"header"`
	Rewrite  bool   `json:"regex_rewrite"` // replace every "a" by "b"
	Terminal bool   `json:"terminal"`
}

type c46bRoute struct {
	PathKind string    `json:"path_kind"` // prefix path regex
	Pat      string    `json:"pat"`
	CI       bool      `json:"case_insensitive"`
	Hdrs     []c46bHdr `json:"headers"`
	Fraction int64     `json:"fraction"` // per million, -1 = none
	Single   string    `json:"cluster"`  // non-empty: RouteAction.cluster
	Weighted []c46bWC  `json:"weighted_clusters"`
	Hash     []c46bHP  `json:"hash_policy"`
}

type c46bVH struct {
	Domains []string    `json:"domains"`
	Routes  []c46bRoute `json:"routes"`
}

type c46bRPC struct {
	Authority string              `json:"authority"`
	Method    string              `json:"method"`
	MD        map[string][]string `json:"md"`
	Extra     map[string][]string `json:"extra_md"`
	Draw      int64               `json:"draw"`      // value of the runtime-fraction random source
	K         int                 `json:"wrr_index"` // WRR.Next returns the K-th added item (mod n)
}

type c46bCase struct {
	Kind   string   `json:"kind"` // route | weights | hash
	VHosts []c46bVH `json:"vhosts"`
	RPC    c46bRPC  `json:"rpc"`
}

// ---- reference evaluator ----

func c46bFold(s string) string {
	b := []byte(s)
	for i, c := range b {
		if c >= 'A' && c <= 'Z' {
			b[i] = c + ('a' - 'A')
		}
	}
	return string(b)
}

func c46bDomainMatch(d, host string) (rank int, ok bool) {
	switch {
	case d == "*":
		return 1, true
	case len(d) > 0 && d[0] == '*':
		return 3, strings.HasSuffix(host, d[1:])
	case len(d) > 0 && d[len(d)-1] == '*':
		return 2, strings.HasPrefix(host, d[:len(d)-1])
	default:
		return 4, d == host
	}
}

// c46bRefVhost: brute force over all matching (vhost, domain) pairs.
func c46bRefVhost(host string, vhs []c46bVH) int {
	type cand struct{ rank, plen, order, vh int }
	var cs []cand
	order := 0
	for i, vh := range vhs {
		for _, d := range vh.Domains {
			if rank, ok := c46bDomainMatch(d, host); ok {
				cs = append(cs, cand{rank, len(d), order, i})
			}
			order++
		}
	}
	if len(cs) == 0 {
		return -1
	}
	sort.Slice(cs, func(a, b int) bool {
		if cs[a].rank != cs[b].rank {
			return cs[a].rank > cs[b].rank
		}
		if cs[a].plen != cs[b].plen {
			return cs[a].plen > cs[b].plen
		}
		return cs[a].order < cs[b].order
	})
	return cs[0].vh
}

func c46bRefPath(rt c46bRoute, method string) bool {
	m, p := method, rt.Pat
	if rt.CI {
		m, p = c46bFold(m), c46bFold(p)
	}
	switch rt.PathKind {
	case "prefix":
		return len(m) >= len(p) && m[:len(p)] == p
	case "path":
		return m == p
	case "regex":
		switch rt.Pat {
		case "/t/.*":
			return len(method) >= 3 && method[:3] == "/t/"
		case "/s/.*":
			return len(method) >= 3 && method[:3] == "/s/"
		}
	}
	panic("c46bRefPath")
}

func c46bRefHdr(h c46bHdr, md map[string][]string) bool {
	vals, present := md[h.Name]
	if h.Kind == "present" {
		return (present == h.Flag) != h.Inv
	}
	if !present {
		return false
	}
	v := strings.Join(vals, ",")
	var base bool
	switch h.Kind {
	case "exact":
		base = v == h.Pat
	case "range":
		n, ok := int64(0), len(v) > 0 && len(v) < 10
		for i := 0; ok && i < len(v); i++ {
			if v[i] < '0' || v[i] > '9' {
				ok = false
			} else {
				n = n*10 + int64(v[i]-'0')
			}
		}
		base = ok && n >= h.Lo && n < h.Hi
	default:
		panic("c46bRefHdr")
	}
	return base != h.Inv
}

// c46bAllMD: what the matchers see = user metadata joined with the extra
// (transport-added) metadata.
func c46bAllMD(rpc c46bRPC) map[string][]string {
	out := map[string][]string{}
	for k, v := range rpc.MD {
		out[k] = append(out[k], v...)
	}
	for k, v := range rpc.Extra {
		out[k] = append(out[k], v...)
	}
	return out
}

func c46bNonZero(rt c46bRoute) []c46bWC {
	if rt.Single != "" {
		return []c46bWC{{rt.Single, 1}}
	}
	var out []c46bWC
	for _, w := range rt.Weighted {
		if w.Weight > 0 {
			out = append(out, w)
		}
	}
	return out
}

// ---- the real pipeline ----

type c46bFakeClient struct{ bc *bootstrap.Config }

func (c *c46bFakeClient) WatchResource(string, string, gxdsclient.ResourceWatcher) func() {
	return func() {}
}
func (c *c46bFakeClient) ReportLoad(*bootstrap.ServerConfig) (*lrsclient.LoadStore, func(context.Context)) {
	return nil, func(context.Context) {}
}
func (c *c46bFakeClient) BootstrapConfig() *bootstrap.Config { return c.bc }

// c46bWRR records Add calls; Next returns the item chosen by the harness.
type c46bWRR struct {
	items   []any
	weights []int64
	env     *c46bEnv
	nexts   int
}

func (w *c46bWRR) Add(item any, weight int64) {
	w.items = append(w.items, item)
	w.weights = append(w.weights, weight)
}

func (w *c46bWRR) Next() any {
	w.nexts++
	if len(w.items) == 0 {
		return nil
	}
	return w.items[w.env.k%len(w.items)]
}

type c46bEnv struct {
	r       *xdsResolver
	dm      *xdsdepmgr.DependencyManager
	dec     gxdsclient.Decoder
	wrrs    []*c46bWRR
	k       int
	fracMem map[[2]int64]bool
	saved   any
}

func c46bNewEnv() (*c46bEnv, error) {
	contents, err := bootstrap.NewContentsForTesting(bootstrap.ConfigOptionsForTesting{
		Servers: []byte(`[{"server_uri": "passthrough:///verif", "channel_creds": [{"type": "insecure"}]}]`),
		Node:    []byte(`{"id": "verif-node"}`),
	})
	if err != nil {
		return nil, fmt.Errorf("bootstrap contents: %v", err)
	}
	bc, err := bootstrap.NewConfigFromContents(contents)
	if err != nil {
		return nil, fmt.Errorf("bootstrap config: %v", err)
	}
	e := &c46bEnv{fracMem: map[[2]int64]bool{}}
	client := &c46bFakeClient{bc: bc}
	r := &xdsResolver{
		xdsClient:      client,
		activeClusters: make(map[string]*clusterInfo),
		activePlugins:  make(map[string]*clusterInfo),
		httpFilters:    make(map[clientFilterKey]httpfilter.ClientFilter),
		channelID:      0x1234567890abcdef,
		target:         "xds:///verif",
	}
	r.logger = prefixLogger(r)
	e.dm = xdsdepmgr.New("verif-listener", "a.b", client, c46bNopWatcher{})
	r.dm = e.dm
	e.r = r
	e.dec = xdsresource.NewRouteConfigResourceTypeDecoder(bc, nil)
	e.saved = rinternal.NewWRR
	rinternal.NewWRR = func() wrr.WRR {
		w := &c46bWRR{env: e}
		e.wrrs = append(e.wrrs, w)
		return w
	}
	return e, nil
}

type c46bNopWatcher struct{}

func (c46bNopWatcher) Update(*xdsresource.XDSConfig) {}
func (c46bNopWatcher) Error(error)                   {}

func (e *c46bEnv) close() {
	rinternal.NewWRR = e.saved
	e.dm.Close()
}

func c46bFraction(f int64) *v3corepb.RuntimeFractionalPercent {
	return &v3corepb.RuntimeFractionalPercent{DefaultValue: &v3typepb.FractionalPercent{Numerator: uint32(f), Denominator: v3typepb.FractionalPercent_MILLION}}
}

func c46bProto(vhs []c46bVH) *v3routepb.RouteConfiguration {
	rc := &v3routepb.RouteConfiguration{Name: "verif-route"}
	for vi, vh := range vhs {
		pv := &v3routepb.VirtualHost{Name: fmt.Sprintf("vh%d", vi), Domains: vh.Domains}
		for _, rt := range vh.Routes {
			m := &v3routepb.RouteMatch{}
			switch rt.PathKind {
			case "prefix":
				m.PathSpecifier = &v3routepb.RouteMatch_Prefix{Prefix: rt.Pat}
			case "path":
				m.PathSpecifier = &v3routepb.RouteMatch_Path{Path: rt.Pat}
			case "regex":
				m.PathSpecifier = &v3routepb.RouteMatch_SafeRegex{SafeRegex: &v3matcherpb.RegexMatcher{Regex: rt.Pat}}
			}
			if rt.CI {
				m.CaseSensitive = wrapperspb.Bool(false)
			}
			for _, h := range rt.Hdrs {
				hm := &v3routepb.HeaderMatcher{Name: h.Name, InvertMatch: h.Inv}
				switch h.Kind {
				case "exact":
					hm.HeaderMatchSpecifier = &v3routepb.HeaderMatcher_ExactMatch{ExactMatch: h.Pat}
				case "present":
					hm.HeaderMatchSpecifier = &v3routepb.HeaderMatcher_PresentMatch{PresentMatch: h.Flag}
				case "range":
					hm.HeaderMatchSpecifier = &v3routepb.HeaderMatcher_RangeMatch{RangeMatch: &v3typepb.Int64Range{Start: h.Lo, End: h.Hi}}
				}
				m.Headers = append(m.Headers, hm)
			}
			if rt.Fraction >= 0 {
				m.RuntimeFraction = c46bFraction(rt.Fraction)
			}
			act := &v3routepb.RouteAction{}
			if rt.Single != "" {
				act.ClusterSpecifier = &v3routepb.RouteAction_Cluster{Cluster: rt.Single}
			} else {
				wc := &v3routepb.WeightedCluster{}
				for _, w := range rt.Weighted {
					wc.Clusters = append(wc.Clusters, &v3routepb.WeightedCluster_ClusterWeight{Name: w.Name, Weight: wrapperspb.UInt32(w.Weight)})
				}
				act.ClusterSpecifier = &v3routepb.RouteAction_WeightedClusters{WeightedClusters: wc}
			}
			for _, hp := range rt.Hash {
				p := &v3routepb.RouteAction_HashPolicy{Terminal: hp.Terminal}
				switch hp.Kind {
				case "header":
					hh := &v3routepb.RouteAction_HashPolicy_Header{HeaderName: hp.Header}
					if hp.Rewrite {
						hh.RegexRewrite = &v3matcherpb.RegexMatchAndSubstitute{Pattern: &v3matcherpb.RegexMatcher{Regex: "a"}, Substitution: "b"}
					}
					p.PolicySpecifier = &v3routepb.RouteAction_HashPolicy_Header_{Header: hh}
				case "channel_id":
					p.PolicySpecifier = &v3routepb.RouteAction_HashPolicy_FilterState_{FilterState: &v3routepb.RouteAction_HashPolicy_FilterState{Key: "io.grpc.channel_id"}}
				}
				act.HashPolicy = append(act.HashPolicy, p)
			}
			pv.Routes = append(pv.Routes, &v3routepb.Route{Match: m, Action: &v3routepb.Route_Route{Route: act}})
		}
		rc.VirtualHosts = append(rc.VirtualHosts, pv)
	}
	return rc
}

// c46bDecode runs the production RDS decoder.
func (e *c46bEnv) decode(vhs []c46bVH) (*xdsresource.RouteConfigUpdate, error) {
	a, err := anypb.New(c46bProto(vhs))
	if err != nil {
		return nil, err
	}
	res, err := e.dec.Decode(gxdsclient.NewAnyProto(a), gxdsclient.DecodeOptions{})
	if err != nil {
		return nil, err
	}
	rd, ok := res.Resource.(*xdsresource.RouteConfigResourceData)
	if !ok {
		return nil, fmt.Errorf("decoder returned %T", res.Resource)
	}
	return &rd.Resource, nil
}

// c46bSelector builds the config selector for the virtual host vh the way the
// resolver does on an update from the dependency manager.
func (e *c46bEnv) selector(rcu *xdsresource.RouteConfigUpdate, vh *xdsresource.VirtualHost) (*configSelector, []*c46bWRR, error) {
	e.wrrs = nil
	e.r.xdsConfig = &xdsresource.XDSConfig{
		Listener:    &xdsresource.ListenerUpdate{APIListener: &xdsresource.HTTPConnectionManagerConfig{RouteConfigName: "verif-route"}},
		RouteConfig: rcu,
		VirtualHost: vh,
		Clusters:    map[string]*xdsresource.ClusterResult{},
	}
	cs, err := e.r.newConfigSelector()
	w := e.wrrs
	e.wrrs = nil
	return cs, w, err
}

func (e *c46bEnv) release(cs *configSelector) {
	cs.stop()
	e.r.pruneActiveClustersAndPlugins()
}

func (e *c46bEnv) withDraw(draw int64, f func()) (calls int) {
	saved := xdsresource.RandInt64n
	defer func() { xdsresource.RandInt64n = saved }()
	xdsresource.RandInt64n = func(int64) int64 { calls++; return draw }
	f()
	return calls
}

// fracVerdict: what the real runtime-fraction matcher alone answers for
// (fraction f, draw d). Its count over all draws is judged in leg c46a.
func (e *c46bEnv) fracVerdict(f, d int64) bool {
	if f < 0 {
		return true
	}
	k := [2]int64{f, d}
	if v, ok := e.fracMem[k]; ok {
		return v
	}
	empty := ""
	fr := uint32(f)
	m := xdsresource.RouteToMatcher(&xdsresource.Route{Prefix: &empty, Fraction: &fr})
	var v bool
	e.withDraw(d, func() { v = m.Match("/", nil) })
	e.fracMem[k] = v
	return v
}

func c46bCtx(rpc c46bRPC) context.Context {
	ctx := context.Background()
	if rpc.MD != nil {
		md := metadata.MD{}
		for k, v := range rpc.MD {
			md[k] = append([]string(nil), v...)
		}
		ctx = metadata.NewOutgoingContext(ctx, md)
	}
	if rpc.Extra != nil {
		md := metadata.MD{}
		for k, v := range rpc.Extra {
			md[k] = append([]string(nil), v...)
		}
		ctx = grpcutil.WithExtraMetadata(ctx, md)
	}
	return ctx
}

type c46bPick struct {
	err     error
	cluster string
	hash    uint64
	hasHash bool
	panicV  any
}

func (e *c46bEnv) pick(cs *configSelector, rpc c46bRPC) (p c46bPick) {
	defer func() {
		if v := recover(); v != nil {
			p.panicV = v
		}
	}()
	e.k = rpc.K
	e.withDraw(rpc.Draw, func() {
		cfg, err := cs.SelectConfig(iresolver.RPCInfo{Context: c46bCtx(rpc), Method: rpc.Method})
		if err != nil {
			p.err = err
			return
		}
		p.cluster = clustermanager.PickedCluster(cfg.Context)
		p.hash, p.hasHash = iringhash.XDSRequestHash(cfg.Context)
		if cfg.OnCommitted != nil {
			cfg.OnCommitted()
		}
	})
	return p
}

// ---- (R) routing: vhost -> first matching route -> K-th cluster ----

// c46bRouteExpect: the reference answer for an RPC: "" = no route (error), else
// the cluster name.
func (e *c46bEnv) routeExpect(vh c46bVH, rpc c46bRPC) (routeIdx int, cluster string, nmatch int) {
	md := c46bAllMD(rpc)
	routeIdx = -1
	for i, rt := range vh.Routes {
		ok := c46bRefPath(rt, rpc.Method)
		for _, h := range rt.Hdrs {
			ok = ok && c46bRefHdr(h, md)
		}
		ok = ok && e.fracVerdict(rt.Fraction, rpc.Draw)
		if ok {
			nmatch++
			if routeIdx < 0 {
				routeIdx = i
			}
		}
	}
	if routeIdx >= 0 {
		nz := c46bNonZero(vh.Routes[routeIdx])
		cluster = "cluster:" + nz[rpc.K%len(nz)].Name
	}
	return
}

// c46bCheckRoute evaluates one (config, RPC); "" = agrees.
func (e *c46bEnv) checkRoute(c c46bCase, rcu *xdsresource.RouteConfigUpdate) (msg string, nontrivial bool, outcome string) {
	wantVh := c46bRefVhost(c.RPC.Authority, c.VHosts)
	got := xdsresource.FindBestMatchingVirtualHost(c.RPC.Authority, rcu.VirtualHosts)
	gotVh := -1
	for i, v := range rcu.VirtualHosts {
		if v == got {
			gotVh = i
		}
	}
	if gotVh != wantVh {
		return fmt.Sprintf("virtual host #%d chosen, reference #%d", gotVh, wantVh), false, ""
	}
	if wantVh < 0 {
		return "", false, "route: no virtual host"
	}
	cs, _, err := e.selector(rcu, got)
	if err != nil {
		return fmt.Sprintf("newConfigSelector: %v", err), false, ""
	}
	defer e.release(cs)
	return e.checkRouteOn(cs, c.VHosts[wantVh], c.RPC)
}

func (e *c46bEnv) checkRouteOn(cs *configSelector, vh c46bVH, rpc c46bRPC) (msg string, nontrivial bool, outcome string) {
	ri, wantCluster, nmatch := e.routeExpect(vh, rpc)
	p := e.pick(cs, rpc)
	if p.panicV != nil {
		return fmt.Sprintf("SelectConfig panicked: %v", p.panicV), false, ""
	}
	if ri < 0 {
		if p.err == nil {
			return fmt.Sprintf("no route matches by the reference, but SelectConfig picked %q", p.cluster), false, ""
		}
		return "", false, "route: no route matches -> RPC fails"
	}
	if p.err != nil {
		return fmt.Sprintf("reference: route #%d -> %s; SelectConfig failed: %v", ri, wantCluster, p.err), false, ""
	}
	if p.cluster != wantCluster {
		return fmt.Sprintf("reference: first matching route #%d -> %s; SelectConfig picked %s", ri, wantCluster, p.cluster), false, ""
	}
	if nmatch >= 2 {
		return "", true, "route: first of >=2 matching routes"
	}
	return "", false, "route: the only matching route"
}

func c46bRouteMenu(thorough bool) []c46bRoute {
	paths := []c46bRoute{
		{PathKind: "prefix", Pat: ""},
		{PathKind: "prefix", Pat: "/s/"},
		{PathKind: "path", Pat: "/s/m", CI: true},
		{PathKind: "regex", Pat: "/t/.*"},
	}
	type hf struct {
		h []c46bHdr
		f int64
	}
	mods := []hf{
		{nil, -1},
		{[]c46bHdr{{Name: "h", Kind: "exact", Pat: "a"}}, -1},
		{nil, 500000},
	}
	if thorough {
		paths = append(paths, c46bRoute{PathKind: "prefix", Pat: "/S/", CI: true})
		mods = append(mods,
			hf{[]c46bHdr{{Name: "h", Kind: "present", Flag: true, Inv: true}}, 1000000},
			hf{[]c46bHdr{{Name: "h", Kind: "range", Lo: 0, Hi: 10}, {Name: "g", Kind: "exact", Pat: "a", Inv: true}}, 0})
	}
	var out []c46bRoute
	for _, p := range paths {
		for _, m := range mods {
			r := p
			r.Hdrs, r.Fraction = m.h, m.f
			out = append(out, r)
		}
	}
	return out
}

// c46bClusters gives route i of vhost v its clusters (distinct names so the
// picked cluster identifies the route): position 0 a single cluster, position
// 1 weighted {0,2,5}, position 2 weighted {1,1}.
func c46bClusters(rt c46bRoute, v, i int) c46bRoute {
	n := func(j int) string { return fmt.Sprintf("v%dr%dc%d", v, i, j) }
	switch i % 3 {
	case 0:
		rt.Single = n(0)
	case 1:
		rt.Weighted = []c46bWC{{n(0), 0}, {n(1), 2}, {n(2), 5}}
	case 2:
		rt.Weighted = []c46bWC{{n(0), 1}, {n(1), 1}}
	}
	return rt
}

func c46bRouting(r *vk.Run, e *c46bEnv) {
	const P = c46bP
	menu := c46bRouteMenu(r.Thorough())
	maxRoutes := 3
	domainPairs := [][2][]string{{{"a.b"}, {"*"}}, {{"*.b"}, {"a.*", "*.a.b"}}, {{"*"}, {"*"}}}
	if !r.Thorough() {
		domainPairs = domainPairs[:2]
	}
	authorities := []string{"a.b", "x.a.b"}
	methods := []string{"/s/m", "/S/M", "/s/x", "/t/m"}
	mds := []map[string][]string{nil, {"h": {"a"}}, {"h": {"a", "a"}}}
	extras := []map[string][]string{nil}
	draws := []int64{0, 500000, 500001}
	ks := []int{0, 1}
	if r.Thorough() {
		mds = append(mds, map[string][]string{"h": {"5"}, "g": {"a"}})
		extras = append(extras, map[string][]string{"h": {"a"}})
		draws = append(draws, 499999)
		authorities = append(authorities, "ab")
	}
	other := c46bRoute{PathKind: "prefix", Pat: "", Fraction: -1, Single: "other"}

	var evals, nontriv, configs int64
	type fail struct {
		c   c46bCase
		msg string
		key string
	}
	var fails []fail
	outcomes := map[string]int64{}

	var lists [][]int
	var rec func(prefix []int)
	rec = func(prefix []int) {
		if len(prefix) > 0 {
			lists = append(lists, append([]int(nil), prefix...))
		}
		if len(prefix) == maxRoutes {
			return
		}
		for i := range menu {
			rec(append(prefix, i))
		}
	}
	rec(nil)

	for li, l := range lists {
		if r.OverBudget() {
			r.Cap(P, fmt.Sprintf("routing: budget exhausted after %d of %d route lists", li, len(lists)))
			break
		}
		routes := make([]c46bRoute, len(l))
		for i, mi := range l {
			routes[i] = c46bClusters(menu[mi], 0, i)
		}
		for _, dp := range domainPairs {
			vhs := []c46bVH{{Domains: dp[0], Routes: routes}, {Domains: dp[1], Routes: []c46bRoute{other}}}
			rcu, err := e.decode(vhs)
			configs++
			if err != nil {
				fails = append(fails, fail{c46bCase{Kind: "route", VHosts: vhs}, "RDS decoder rejected the configuration: " + err.Error(), "decode"})
				continue
			}
			for _, auth := range authorities {
				wantVh := c46bRefVhost(auth, vhs)
				got := xdsresource.FindBestMatchingVirtualHost(auth, rcu.VirtualHosts)
				gotVh := -1
				for i, v := range rcu.VirtualHosts {
					if v == got {
						gotVh = i
					}
				}
				if gotVh != wantVh {
					fails = append(fails, fail{c46bCase{Kind: "route", VHosts: vhs, RPC: c46bRPC{Authority: auth, Method: "/s/m"}}, fmt.Sprintf("virtual host #%d chosen, reference #%d", gotVh, wantVh), "vhost"})
					continue
				}
				if wantVh < 0 {
					evals++
					outcomes["route: no virtual host"]++
					continue
				}
				cs, wr, err := e.selector(rcu, got)
				if err != nil {
					fails = append(fails, fail{c46bCase{Kind: "route", VHosts: vhs, RPC: c46bRPC{Authority: auth}}, "newConfigSelector: " + err.Error(), "selector"})
					continue
				}
				// every route's clusters were handed to the WRR with their weights
				if msg := c46bCheckAdds(vhs[wantVh], wr); msg != "" {
					fails = append(fails, fail{c46bCase{Kind: "route", VHosts: vhs, RPC: c46bRPC{Authority: auth}}, msg, "wrr-add"})
				}
				for _, method := range methods {
					for _, md := range mds {
						for _, ex := range extras {
							for _, d := range draws {
								for _, k := range ks {
									rpc := c46bRPC{Authority: auth, Method: method, MD: md, Extra: ex, Draw: d, K: k}
									msg, nt, out := e.checkRouteOn(cs, vhs[wantVh], rpc)
									evals++
									if nt {
										nontriv++
									}
									if out != "" {
										outcomes[out]++
									}
									if msg != "" && len(fails) < 200 {
										fails = append(fails, fail{c46bCase{Kind: "route", VHosts: vhs, RPC: rpc}, msg, "route"})
									}
								}
							}
						}
					}
				}
				e.release(cs)
			}
		}
	}
	r.Eval(P, evals)
	r.NontrivialN(P, nontriv)
	r.Set(P, "routing_configs_decoded", configs)
	r.Set(P, "routing_route_lists", len(lists))
	r.Set(P, "routing_rpc_evaluations", evals)
	r.Set(P, "routing_outcome_counts", outcomes)
	for k := range outcomes {
		r.Outcome(P, k)
	}
	// smallest failing cases first
	sort.SliceStable(fails, func(i, j int) bool {
		ni, nj := 0, 0
		for _, v := range fails[i].c.VHosts {
			ni += len(v.Routes)
		}
		for _, v := range fails[j].c.VHosts {
			nj += len(v.Routes)
		}
		return ni < nj
	})
	for i, f := range fails {
		if i >= 5 {
			break
		}
		r.Violation(P, fmt.Sprintf("%s vhost0=%+v domains1=%v rpc=%+v", f.key, f.c.VHosts[0], f.c.VHosts[1].Domains, f.c.RPC), f.msg, f.c)
	}
	if len(fails) > 0 {
		r.Set(P, "routing_failures", len(fails))
	}
	r.Sample(P, map[string]any{"vhosts": []any{map[string]any{"domains": []string{"*.b"}, "routes": "[prefix /s/ + header h=a -> v0r0c0] [path /s/m case-insensitive, fraction 500000 -> {c0:0,c1:2,c2:5}]"}, map[string]any{"domains": []string{"a.*", "*.a.b"}, "routes": "[prefix '' -> other]"}}, "rpc": map[string]any{"authority": "x.a.b", "method": "/S/M", "draw": 500001, "wrr_index": 1}, "expected": "vhost #1 (longer suffix) -> cluster:other"})
}

// c46bCheckAdds: route i's WRR received exactly the non-zero-weight clusters of
// the route, in order, each with its weight.
func c46bCheckAdds(vh c46bVH, wr []*c46bWRR) string {
	if len(wr) != len(vh.Routes) {
		return fmt.Sprintf("%d WRRs created for %d routes", len(wr), len(vh.Routes))
	}
	for i, rt := range vh.Routes {
		nz := c46bNonZero(rt)
		if len(wr[i].items) != len(nz) {
			return fmt.Sprintf("route #%d: %d clusters added to the WRR (weights %v), reference %v", i, len(wr[i].items), wr[i].weights, nz)
		}
		for j, it := range wr[i].items {
			rc, ok := it.(*grpcsync.RefCounted[*routeCluster])
			if !ok {
				return fmt.Sprintf("route #%d: WRR item %T", i, it)
			}
			if rc.Value().name != "cluster:"+nz[j].Name || wr[i].weights[j] != int64(nz[j].Weight) {
				return fmt.Sprintf("route #%d: WRR item #%d = (%s, weight %d), reference (cluster:%s, weight %d)", i, j, rc.Value().name, wr[i].weights[j], nz[j].Name, nz[j].Weight)
			}
		}
	}
	return ""
}

// ---- (W) weighted clusters ----

func c46bCheckWeights(e *c46bEnv, c c46bCase) (msg string, outcome string, picks int64) {
	rt := c.VHosts[0].Routes[0]
	nz := c46bNonZero(rt)
	rcu, err := e.decode(c.VHosts)
	if len(nz) == 0 {
		// nothing can be chosen in proportion to zero: the only acceptable
		// outcomes are rejecting the resource or never picking a cluster.
		if err != nil {
			return "", "weights: all zero -> resource rejected", 0
		}
		return "", "weights: all zero accepted (not judged)", 0
	}
	if err != nil {
		return "RDS decoder rejected the configuration: " + err.Error(), "", 0
	}
	vh := xdsresource.FindBestMatchingVirtualHost("a.b", rcu.VirtualHosts)
	if vh == nil {
		return "no virtual host for '*'", "", 0
	}
	cs, wr, err := e.selector(rcu, vh)
	if err != nil {
		return "newConfigSelector: " + err.Error(), "", 0
	}
	defer e.release(cs)
	if m := c46bCheckAdds(c.VHosts[0], wr); m != "" {
		return m, "", 0
	}
	for k := range nz {
		before := wr[0].nexts
		p := e.pick(cs, c46bRPC{Authority: "a.b", Method: "/s/m", K: k})
		picks++
		if p.panicV != nil || p.err != nil {
			return fmt.Sprintf("SelectConfig: err=%v panic=%v", p.err, p.panicV), "", picks
		}
		if wr[0].nexts != before+1 {
			return fmt.Sprintf("SelectConfig consulted WRR.Next %d times", wr[0].nexts-before), "", picks
		}
		if p.cluster != "cluster:"+nz[k].Name {
			return fmt.Sprintf("WRR returned item #%d (%s) but the RPC was sent to %s", k, nz[k].Name, p.cluster), "", picks
		}
	}
	return "", "weights: each cluster added with its weight, WRR choice honoured", picks
}

func c46bWeights(r *vk.Run, e *c46bEnv) {
	const P = c46bP
	menu := []uint32{0, 1, 2, 5}
	N := 3
	if r.Thorough() {
		menu = []uint32{0, 1, 2, 5, 7}
		N = 4
	}
	var evals, nontriv int64
	type wfail struct {
		ws  []uint32
		msg string
		c   c46bCase
	}
	var wfails []wfail
	var rec func(ws []uint32)
	rec = func(ws []uint32) {
		if len(ws) > 0 {
			rt := c46bRoute{PathKind: "prefix", Pat: "", Fraction: -1}
			for j, w := range ws {
				rt.Weighted = append(rt.Weighted, c46bWC{fmt.Sprintf("c%d", j), w})
			}
			c := c46bCase{Kind: "weights", VHosts: []c46bVH{{Domains: []string{"*"}, Routes: []c46bRoute{rt}}}}
			msg, out, picks := c46bCheckWeights(e, c)
			evals += 1 + picks
			if len(c46bNonZero(rt)) >= 2 {
				nontriv += picks
			}
			if out != "" {
				r.Outcome(P, out)
			}
			if msg != "" {
				wfails = append(wfails, wfail{append([]uint32(nil), ws...), msg, c})
			}
		}
		if len(ws) == N {
			return
		}
		for _, w := range menu {
			rec(append(append([]uint32(nil), ws...), w))
		}
	}
	rec(nil)
	// report the 3 smallest failing weight lists (shortest, then smallest weights)
	sort.SliceStable(wfails, func(i, j int) bool {
		a, b := wfails[i].ws, wfails[j].ws
		if len(a) != len(b) {
			return len(a) < len(b)
		}
		return fmt.Sprint(a) < fmt.Sprint(b)
	})
	for i, f := range wfails {
		if i >= 3 {
			break
		}
		r.Violation(P, fmt.Sprintf("weights %v", f.ws), fmt.Sprintf("%s (%d failing weight lists in total)", f.msg, len(wfails)), f.c)
	}
	r.Eval(P, evals)
	r.NontrivialN(P, nontriv)
	r.Set(P, "weights_evaluations", evals)
}

// ---- (H) request hash ----

// c46bConfigured: the inputs the hash policies name.
func c46bConfigured(hps []c46bHP) (hdrs map[string]bool, channelID bool) {
	hdrs = map[string]bool{}
	for _, hp := range hps {
		if hp.Kind == "header" {
			hdrs[hp.Header] = true
		} else {
			channelID = true
		}
	}
	return
}

func (e *c46bEnv) hashOf(cs *configSelector, rpc c46bRPC) (uint64, string) {
	p := e.pick(cs, rpc)
	if p.panicV != nil || p.err != nil {
		return 0, fmt.Sprintf("SelectConfig: err=%v panic=%v", p.err, p.panicV)
	}
	if !p.hasHash {
		return 0, "no request hash in the RPC context"
	}
	return p.hash, ""
}

func c46bCopyMD(m map[string][]string) map[string][]string {
	out := map[string][]string{}
	for k, v := range m {
		out[k] = append([]string(nil), v...)
	}
	return out
}

type c46bPerturb struct {
	Name  string
	Apply func(rpc c46bRPC, cfgHdr map[string]bool) (c46bRPC, bool) // ok=false: touches a configured input, skip
}

func c46bPerturbations() []c46bPerturb {
	setUser := func(name string, vals []string) func(c46bRPC, map[string]bool) (c46bRPC, bool) {
		return func(rpc c46bRPC, cfg map[string]bool) (c46bRPC, bool) {
			if cfg[name] {
				return rpc, false
			}
			rpc.MD = c46bCopyMD(rpc.MD)
			if vals == nil {
				if _, ok := rpc.MD[name]; !ok {
					return rpc, false
				}
				delete(rpc.MD, name)
			} else {
				rpc.MD[name] = vals
			}
			return rpc, true
		}
	}
	setExtra := func(name string, vals []string) func(c46bRPC, map[string]bool) (c46bRPC, bool) {
		return func(rpc c46bRPC, cfg map[string]bool) (c46bRPC, bool) {
			if cfg[name] {
				return rpc, false
			}
			rpc.Extra = c46bCopyMD(rpc.Extra)
			rpc.Extra[name] = vals
			return rpc, true
		}
	}
	return []c46bPerturb{
		{"method", func(rpc c46bRPC, _ map[string]bool) (c46bRPC, bool) { rpc.Method = "/t/x"; return rpc, true }},
		{"authority", func(rpc c46bRPC, _ map[string]bool) (c46bRPC, bool) { rpc.Authority = "x.a.b"; return rpc, true }},
		{"user header z=1", setUser("z", []string{"1"})},
		{"user header z=2,3", setUser("z", []string{"2", "3"})},
		{"user header h1=q", setUser("h1", []string{"q"})},
		{"user header h1 removed", setUser("h1", nil)},
		{"user header h2=q", setUser("h2", []string{"q"})},
		{"user header h2 removed", setUser("h2", nil)},
		{"user header x-bin=q", setUser("x-bin", []string{"q"})},
		{"extra header content-type", setExtra("content-type", []string{"application/grpc"})},
		{"extra header h2=q", setExtra("h2", []string{"q"})},
		{"extra header h1=q", setExtra("h1", []string{"q"})},
		{"fraction draw", func(rpc c46bRPC, _ map[string]bool) (c46bRPC, bool) { rpc.Draw = 999999; return rpc, true }},
	}
}

// c46bCheckHash checks one (policy list, base RPC). Returns "" or a message.
func c46bCheckHash(e *c46bEnv, c c46bCase, st map[string]int64) (msg string, evals, nontriv int64) {
	rt := c.VHosts[0].Routes[0]
	rcu, err := e.decode(c.VHosts)
	if err != nil {
		return "RDS decoder rejected the configuration: " + err.Error(), 1, 0
	}
	vh := xdsresource.FindBestMatchingVirtualHost("a.b", rcu.VirtualHosts)
	cs, _, err := e.selector(rcu, vh)
	if err != nil {
		return "newConfigSelector: " + err.Error(), 1, 0
	}
	defer e.release(cs)
	cfgHdr, cfgChan := c46bConfigured(rt.Hash)
	all := c46bAllMD(c.RPC)
	// is any configured input available to hash? ("-bin" headers are never hashed)
	avail := cfgChan
	for h := range cfgHdr {
		if _, ok := all[h]; ok && !strings.HasSuffix(h, "-bin") {
			avail = true
		}
	}
	h1, m := e.hashOf(cs, c.RPC)
	if m != "" {
		return m, 1, 0
	}
	h2, _ := e.hashOf(cs, c.RPC)
	evals = 2
	if !avail {
		// no configured input exists for this RPC: the hash cannot be a function
		// of configured inputs; a random hash is expected (not judged beyond
		// being present).
		if h1 != h2 {
			st["hash: no configured input present -> random"]++
		} else {
			st["hash: no configured input present -> constant"]++
		}
		return "", evals, 0
	}
	if h1 != h2 {
		return fmt.Sprintf("request hash is not a function of the RPC: the same RPC hashed to %#x and %#x although a configured input is present", h1, h2), evals, 0
	}
	st["hash: function of configured inputs"]++
	for _, pb := range c46bPerturbations() {
		rpc2, ok := pb.Apply(c.RPC, cfgHdr)
		if !ok {
			continue
		}
		hp, m := e.hashOf(cs, rpc2)
		evals++
		nontriv++
		if m != "" {
			return fmt.Sprintf("perturbation %q: %s", pb.Name, m), evals, nontriv
		}
		if hp != h1 {
			return fmt.Sprintf("request hash changed from %#x to %#x when only a NON-configured input changed (%s); hash policies name headers %v channel_id=%v", h1, hp, pb.Name, c46bKeys(cfgHdr), cfgChan), evals, nontriv
		}
	}
	if !cfgChan {
		saved := cs.channelID
		cs.channelID = saved ^ 0xffff
		hp, _ := e.hashOf(cs, c.RPC)
		cs.channelID = saved
		evals++
		nontriv++
		if hp != h1 {
			return fmt.Sprintf("request hash changed from %#x to %#x when only the channel id changed, but no channel_id policy is configured", h1, hp), evals, nontriv
		}
	}
	// sensitivity (vacuity statistics only): does a configured header matter?
	for h := range cfgHdr {
		if strings.HasSuffix(h, "-bin") {
			continue
		}
		rpc2 := c.RPC
		rpc2.MD = c46bCopyMD(rpc2.MD)
		rpc2.MD[h] = []string{"other-value"}
		delete(rpc2.Extra, "")
		if hp, m := e.hashOf(cs, rpc2); m == "" && hp != h1 {
			st["hash: sensitive to a configured header"]++
			break
		}
	}
	return "", evals, nontriv
}

func c46bKeys(m map[string]bool) []string {
	var out []string
	for k := range m {
		out = append(out, k)
	}
	sort.Strings(out)
	return out
}

func c46bHash(r *vk.Run, e *c46bEnv) {
	const P = c46bP
	pols := []c46bHP{
		{Kind: "header", Header: "h1"},
		{Kind: "header", Header: "h1", Terminal: true},
		{Kind: "header", Header: "h2"},
		{Kind: "header", Header: "h1", Rewrite: true},
		{Kind: "channel_id"},
		{Kind: "channel_id", Terminal: true},
		{Kind: "header", Header: "x-bin"},
	}
	maxPol := r.Pick(2, 3)
	var lists [][]c46bHP
	var rec func(p []c46bHP)
	rec = func(p []c46bHP) {
		if len(p) > 0 {
			lists = append(lists, append([]c46bHP(nil), p...))
		}
		if len(p) == maxPol {
			return
		}
		for _, x := range pols {
			rec(append(append([]c46bHP(nil), p...), x))
		}
	}
	rec(nil)
	var bases []c46bRPC
	for _, h1 := range [][]string{nil, {"a"}, {"a", "b"}, {"b"}} {
		for _, h2 := range [][]string{nil, {"c"}} {
			for _, eh1 := range [][]string{nil, {"e"}} {
				rpc := c46bRPC{Authority: "a.b", Method: "/s/m", MD: map[string][]string{"other": {"o"}}, Extra: map[string][]string{}}
				if h1 != nil {
					rpc.MD["h1"] = h1
				}
				if h2 != nil {
					rpc.MD["h2"] = h2
				}
				if eh1 != nil {
					rpc.Extra["h1"] = eh1
				}
				bases = append(bases, rpc)
			}
		}
	}
	st := map[string]int64{}
	var evals, nontriv int64
	nfail := 0
	for _, hps := range lists {
		rt := c46bRoute{PathKind: "prefix", Pat: "", Fraction: -1, Single: "c", Hash: hps}
		for _, b := range bases {
			c := c46bCase{Kind: "hash", VHosts: []c46bVH{{Domains: []string{"*"}, Routes: []c46bRoute{rt}}}, RPC: b}
			msg, ev, nt := c46bCheckHash(e, c, st)
			evals += ev
			nontriv += nt
			if msg != "" && nfail < 3 {
				nfail++
				r.Violation(P, fmt.Sprintf("hash policies=%+v md=%v extra=%v", hps, b.MD, b.Extra), msg, c)
			}
		}
	}
	r.Eval(P, evals)
	r.NontrivialN(P, nontriv)
	r.Set(P, "hash_policy_lists", len(lists))
	r.Set(P, "hash_base_rpcs", len(bases))
	r.Set(P, "hash_evaluations", evals)
	r.Set(P, "hash_outcome_counts", st)
	for k := range st {
		r.Outcome(P, k)
	}
	r.Sample(P, map[string]any{"hash_policy": "[header h1 terminal, channel_id]", "rpc": "h1=[a,b] h2=[c]", "perturbations": "method, authority, z, h2, x-bin, content-type (extra), fraction draw, channel id", "expected": "hash unchanged"})
}

func TestVerif_C46_Resolver(t *testing.T) {
	const P = c46bP
	r := vk.Start(t, "c46b_resolver", "exploration", P)
	defer r.Finish()
	r.Rule(P, "RouteConfiguration protos decoded by the production RDS decoder, virtual host by FindBestMatchingVirtualHost, config selector by xdsResolver.newConfigSelector, RPCs through SelectConfig. (R) every list of 1..3 routes over a menu of 12 routes (quick; 25 thorough) = {prefix '', prefix /s/, path /s/m case-insensitive, regex /t/.*} x {no header, header h exact a, fraction 500000} placed in virtual host #0 of 2 (quick) / 3 (thorough) domain layouts x 2 authorities, x RPCs {4 methods x 3 metadata x 3 fraction draws x 2 WRR choices}; oracle: brute-force best virtual host, FIRST route whose path, header and fraction matchers all hold, the WRR-chosen non-zero-weight cluster of that route; non-trivial = RPCs for which >=2 routes match. (W) every weighted_clusters list of length 1..3 over weights {0,1,2,5}: each non-zero cluster is added to the WRR with exactly its weight and the WRR's choice is the cluster used. (H) every hash-policy list of length 1..2 (3 thorough) over {header h1, h1 terminal, h2, h1 regex-rewrite, channel_id, channel_id terminal, header x-bin} x 16 metadata layouts: the request hash is unchanged by every perturbation of a non-configured input (method, authority, other user headers, extra metadata, fraction draw, channel id when no channel_id policy); non-trivial = perturbed evaluations")

	e, err := c46bNewEnv()
	if err != nil {
		r.EngineError("environment: %v", err)
		return
	}
	defer e.close()

	if f := r.ReplayFile(); f != "" {
		var c c46bCase
		if err := r.LoadReplay(&c); err != nil {
			r.EngineError("replay: %v", err)
			return
		}
		r.Eval(P, 1)
		var msg string
		switch c.Kind {
		case "route":
			rcu, err := e.decode(c.VHosts)
			if err != nil {
				msg = "decode: " + err.Error()
			} else {
				msg, _, _ = e.checkRoute(c, rcu)
			}
		case "weights":
			msg, _, _ = c46bCheckWeights(e, c)
		case "hash":
			msg, _, _ = c46bCheckHash(e, c, map[string]int64{})
		default:
			r.EngineError("replay: unknown kind %q", c.Kind)
			return
		}
		fmt.Printf("replay: %s: %q\n", c.Kind, msg)
		if msg != "" {
			r.Violation(P, "replay", msg, c)
		}
		return
	}

	c46bWeights(r, e)
	c46bHash(r, e)
	c46bRouting(r, e)
	r.Assume(P, "resolver leg: the xDS client, dependency manager watches and LB policies are not running (fake XDSClient that never delivers resources; the config selector is built directly from the decoded RouteConfigUpdate exactly as xdsResolver.Update does). The cluster choice is split: this leg shows every cluster reaches the WRR with its weight and the WRR's answer is used; leg c46c shows wrr.NewRandom returns item j on exactly w_j of sum(w) draws. The fraction verdict per draw comes from the real fraction matcher (its count is judged in leg c46a). Header matchers here use ASCII values only (Unicode folding is C47's subject).")
}
