//go:build verif

package grpc

import (
	"context"
	"errors"
	"fmt"
	"sync"
	"testing"

	"google.golang.org/grpc/balancer"
	"google.golang.org/grpc/codes"
	"google.golang.org/grpc/connectivity"
	"google.golang.org/grpc/internal/transport"
	"google.golang.org/grpc/internal/verif/vk"
	"google.golang.org/grpc/internal/verif/vsched"
	"google.golang.org/grpc/internal/verif/vsync"
	"google.golang.org/grpc/status"
)

type c32Transport struct {
	transport.ClientTransport
	id int
}

// c32Picker is a numbered recording picker with a scripted answer.
type c32Picker struct {
	gen  int
	kind string // nosub | notready | ready | plainerr | statuserr
	sc   *acBalancerWrapper
	led  *c32Ledger
}

type c32Ledger struct {
	mu       sync.Mutex
	curGen   int                 // generation of the latest picker whose publication COMPLETED
	pubBegun int                 // generation whose publication has begun
	picks    map[int][]int       // pick id -> generations its Pick calls used
	startGen map[int]int         // pick id -> curGen when pick() was called
	dones    map[string]int      // "pickid/gen" -> Done calls
	lastTry  map[int]int         // pick id -> last generation tried
	curPick  map[uint64]int      // goroutine -> pick id (unused)
	current  int                 // pick id currently inside Picker.Pick (harness threads are serialised)
}

func (p *c32Picker) Pick(info balancer.PickInfo) (balancer.PickResult, error) {
	id := info.Ctx.Value(c32Key{}).(int)
	p.led.mu.Lock()
	p.led.picks[id] = append(p.led.picks[id], p.gen)
	p.led.lastTry[id] = p.gen
	p.led.mu.Unlock()
	key := fmt.Sprintf("%d/%d", id, p.gen)
	done := func(balancer.DoneInfo) {
		p.led.mu.Lock()
		p.led.dones[key]++
		p.led.mu.Unlock()
	}
	switch p.kind {
	case "nosub":
		return balancer.PickResult{}, balancer.ErrNoSubConnAvailable
	case "plainerr":
		return balancer.PickResult{}, errors.New("lb policy says no")
	case "statuserr":
		return balancer.PickResult{}, status.Error(codes.ResourceExhausted, "drop")
	}
	return balancer.PickResult{SubConn: p.sc, Done: done}, nil
}

type c32Key struct{}

func c32Scenario(name string, script []string, failfast []bool, withClose bool, bound int) vsched.Scenario {
	return vsched.Scenario{Name: name, Bound: bound, MinOutcomes: 1, Body: func(x *vsched.X) {
		pw := newPickerWrapper()
		led := &c32Ledger{picks: map[int][]int{}, startGen: map[int]int{}, dones: map[string]int{}, lastTry: map[int]int{}}
		readyAC := &addrConn{state: connectivity.Ready, transport: &c32Transport{id: 1}}
		// connected but not READY (e.g. health check still failing): the transport is set although the state is not READY
		notReadyAC := &addrConn{state: connectivity.TransientFailure, transport: &c32Transport{id: 2}}
		readySC := &acBalancerWrapper{ac: readyAC}
		notReadySC := &acBalancerWrapper{ac: notReadyAC}
		// ccMu plays the role of ClientConn.mu: the channel publishes a picker
		// only while it is not closed (balancer wrapper's UpdateState checks
		// cc.conns == nil under cc.mu), and Close marks the channel closed under
		// the same lock before closing the picker wrapper.
		var ccMu vsync.Mutex
		closed := false
		x.Go("lb", func() {
			for i, kind := range script {
				p := &c32Picker{gen: i + 1, kind: kind, led: led}
				switch kind {
				case "ready":
					p.sc = readySC
				case "notready":
					p.sc = notReadySC
				}
				ccMu.Lock()
				if closed {
					ccMu.Unlock()
					return
				}
				led.mu.Lock()
				led.pubBegun = i + 1
				led.mu.Unlock()
				pw.updatePicker(p)
				led.mu.Lock()
				led.curGen = i + 1
				led.mu.Unlock()
				ccMu.Unlock()
			}
		})
		type res struct {
			returned bool
			p        pick
			err      error
		}
		results := make([]*res, len(failfast))
		ctx, cancel := context.WithCancel(context.Background())
		for i, ff := range failfast {
			id := i
			rs := &res{}
			results[i] = rs
			x.Go(fmt.Sprintf("pick%d(failfast=%v)", id, ff), func() {
				led.mu.Lock()
				led.startGen[id] = led.curGen
				led.mu.Unlock()
				pctx := context.WithValue(ctx, c32Key{}, id)
				p, err := pw.pick(pctx, ff, balancer.PickInfo{Ctx: pctx, FullMethodName: "/s/m"})
				led.mu.Lock()
				rs.returned, rs.p, rs.err = true, p, err
				if err == nil {
					// the subchannel must be READY at the moment the pick returns
					acbw := p.result.SubConn.(*acBalancerWrapper)
					if acbw.ac.state != connectivity.Ready || p.transport == nil {
						x.Fail("C32", "transport-not-ready", "pick %d returned a transport although the picked subchannel is %v", id, acbw.ac.state)
					}
				}
				led.mu.Unlock()
			})
		}
		if withClose {
			x.Go("close", func() {
				vsched.Yield()
				ccMu.Lock()
				led.mu.Lock()
				closed = true
				led.mu.Unlock()
				ccMu.Unlock()
				pw.close()
			})
		}
		released := false
		x.OnStuck(func() bool {
			if released {
				return false
			}
			released = true
			led.mu.Lock()
			for id, rs := range results {
				if !rs.returned && led.lastTry[id] != led.curGen && !closed {
					x.Fail("C32", "pick-missed-picker-update", "pick %d is blocked although picker generation %d was published after the last one it tried (%d)", id, led.curGen, led.lastTry[id])
				}
				if !rs.returned && closed {
					x.Fail("C32", "pick-blocked-after-close", "pick %d still blocked after the picker wrapper was closed", id)
				}
			}
			led.mu.Unlock()
			cancel() // release remaining blocked picks through their context
			return true
		})
		x.Final(func(x *vsched.X) {
			for _, p := range x.Panics {
				x.Fail("C32", "panic", "%s", p)
			}
			if x.Stuck != "" {
				x.Fail("C32", "deadlock", "%s", x.Stuck)
			}
			led.mu.Lock()
			defer led.mu.Unlock()
			out := ""
			for id, rs := range results {
				gens := led.picks[id]
				out += fmt.Sprintf("p%d=%v:", id, gens)
				for k := 1; k < len(gens); k++ {
					if gens[k] < gens[k-1] {
						x.Fail("C32", "picker-went-backwards", "pick %d used picker generations %v", id, gens)
					}
					if gens[k] == gens[k-1] {
						x.Fail("C32", "same-picker-twice", "pick %d called the same picker twice without a newer one being published: %v", id, gens)
					}
				}
				if len(gens) > 0 && gens[0] < led.startGen[id] {
					x.Fail("C32", "stale-picker", "pick %d started when generation %d was current but first used generation %d", id, led.startGen[id], gens[0])
				}
				if !rs.returned {
					out += "blocked "
					continue
				}
				if rs.err == nil {
					out += "ok "
					last := gens[len(gens)-1]
					if script[last-1] != "ready" {
						x.Fail("C32", "picked-from-non-ready-answer", "pick %d returned a transport from picker %d whose answer was %q", id, last, script[last-1])
					}
				} else {
					out += status.Code(rs.err).String() + " "
					last := 0
					if len(gens) > 0 {
						last = gens[len(gens)-1]
					}
					if de, ok := rs.err.(dropError); ok {
						rs.err = de.error
					}
					justified := false
					switch {
					case rs.err == ErrClientConnClosing:
						justified = closed
					case status.Code(rs.err) == codes.Canceled:
						justified = released // only the harness' own release cancels
					case last > 0 && script[last-1] == "statuserr":
						justified = status.Code(rs.err) == codes.ResourceExhausted
					case last > 0 && script[last-1] == "plainerr" && failfast[id]:
						justified = status.Code(rs.err) == codes.Unavailable
					}
					if !justified {
						x.Fail("C32", "pick-failed-instead-of-blocking", "pick %d (failfast=%v) failed with %v after picker answers %v; it must block until a newer picker is published", id, failfast[id], rs.err, gens)
					}
				}
				// Done bookkeeping (C23): a result obtained from a picker whose
				// subchannel turned out not READY must have its Done called once
				for _, g := range gens {
					n := led.dones[fmt.Sprintf("%d/%d", id, g)]
					switch script[g-1] {
					case "notready":
						if n != 1 {
							x.Fail("C23", "done-not-once-for-unready-pick", "pick %d: Done of the result from picker %d (subchannel not READY) ran %d times", id, g, n)
						}
					case "ready":
						if n != 0 {
							x.Fail("C23", "done-called-by-pick-on-success", "pick %d: Done ran %d times inside pick for a successful result (it must run when the RPC ends)", id, n)
						}
					}
				}
			}
			x.Outcome(out)
		})
		x.Cleanup(func() { cancel() })
	}}
}

func TestVerif_C32_PickerWrapper(t *testing.T) {
	r := vk.Start(t, "c32_pickerwrapper", "exploration", "C32", "C23")
	defer r.Finish()
	rule := "every schedule with at most B preemptions (quick 2, thorough 3) of the instrumented real pickerWrapper: an LB thread publishing numbered recording pickers with scripted answers (ErrNoSubConnAvailable, non-READY subchannel, plain error, status error, READY subchannel) racing 2 picks (fail-fast and wait-for-ready) and optionally close; oracle: picker generations used by a pick never decrease and never repeat, never older than the one current at its start, a transport is returned only from a READY subchannel, failures are only those the statement allows, a blocked pick has always tried the latest published picker; non-trivial = executions deviating from the default schedule"
	r.Rule("C32", rule)
	r.Rule("C23", rule+"; C23 part: Done of a result whose subchannel was not READY runs exactly once, and blocked picks are woken by every picker update")
	b := r.Pick(2, 3)
	scs := []vsched.Scenario{
		c32Scenario("nosub,notready,ready/ff+wfr", []string{"nosub", "notready", "ready"}, []bool{true, false}, false, b),
		c32Scenario("plainerr,ready/ff+wfr", []string{"plainerr", "ready"}, []bool{true, false}, false, b+1),
		c32Scenario("notready,statuserr/wfr+wfr", []string{"notready", "statuserr"}, []bool{false, false}, false, b),
		c32Scenario("nosub,ready/ff+wfr+close", []string{"nosub", "ready"}, []bool{true, false}, true, b),
	}
	vsched.RunScenarios(t, r, []string{"C32", "C23"}, scs)
	for _, p := range []string{"C32", "C23"} {
		r.Sample(p, map[string]any{"scenario": "nosub,notready,ready/ff+wfr", "threads": []string{"lb: updatePicker(P1 ErrNoSubConnAvailable); updatePicker(P2 non-READY subchannel); updatePicker(P3 READY subchannel)", "pick0: pick(failfast)", "pick1: pick(wait-for-ready)"}})
	}
}
