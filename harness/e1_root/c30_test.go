//go:build verif

package grpc

import (
	"context"
	"fmt"
	"sync"
	"testing"

	"google.golang.org/grpc/connectivity"
	"google.golang.org/grpc/internal/channelz"
	"google.golang.org/grpc/internal/verif/vk"
	"google.golang.org/grpc/internal/verif/vsched"
)

func c30Scenario(name string, updates []connectivity.State, waitFor []connectivity.State, bound int) vsched.Scenario {
	return vsched.Scenario{Name: name, Bound: bound, MinOutcomes: 2, Body: func(x *vsched.X) {
		ctx, cancel := context.WithCancel(context.Background())
		ch := channelz.RegisterChannel(nil, "verif")
		cc := &ClientConn{csMgr: newConnectivityStateManager(ctx, ch)}
		var mu sync.Mutex
		published := []connectivity.State{connectivity.Idle} // effective states, in order
		changesBegun := 0
		type waiter struct {
			src          connectivity.State
			begunAt      int // changesBegun when the call started
			stateAtStart connectivity.State
			returned     bool
			result       bool
			changesAtRet int
		}
		ws := make([]*waiter, len(waitFor))
		x.Go("updater", func() {
			for _, s := range updates {
				mu.Lock()
				changesBegun++
				mu.Unlock()
				cc.csMgr.updateState(s)
				mu.Lock()
				last := published[len(published)-1]
				if last != connectivity.Shutdown && last != s {
					published = append(published, s)
				}
				mu.Unlock()
			}
		})
		for i, src := range waitFor {
			w := &waiter{src: src}
			ws[i] = w
			wctx, wcancel := context.WithCancel(ctx)
			_ = wcancel
			x.Go(fmt.Sprintf("waiter%d(%v)", i, src), func() {
				mu.Lock()
				w.begunAt = changesBegun
				w.stateAtStart = published[len(published)-1]
				mu.Unlock()
				res := cc.WaitForStateChange(wctx, w.src)
				mu.Lock()
				w.returned, w.result, w.changesAtRet = true, res, changesBegun
				mu.Unlock()
			})
		}
		x.Go("getstate", func() {
			// GetState returns a state that was current at some instant of the call
			mu.Lock()
			lo := len(published) - 1
			mu.Unlock()
			got := cc.GetState()
			mu.Lock()
			ok := false
			for _, s := range published[lo:] {
				if s == got {
					ok = true
				}
			}
			// a change may be in flight (applied, ledger not yet updated)
			if !ok && changesBegun > 0 && changesBegun <= len(updates) && updates[changesBegun-1] == got {
				ok = true
			}
			if !ok {
				x.Fail("C30", "getstate-not-published", "GetState returned %v which was not the published state during the call (published %v)", got, published)
			}
			mu.Unlock()
		})
		x.OnStuck(func() bool {
			// quiescent: classify parked waiters, then release them
			select {
			case <-ctx.Done():
				return false
			default:
			}
			mu.Lock()
			final := published[len(published)-1]
			for i, w := range ws {
				if !w.returned && final != w.src {
					x.Fail("C30", "wait-missed-change", "WaitForStateChange(%v) #%d is still blocked although the channel state is %v (history %v)", w.src, i, final, published)
				}
			}
			mu.Unlock()
			cancel()
			return true
		})
		x.Final(func(x *vsched.X) {
			for _, p := range x.Panics {
				x.Fail("C30", "panic", "%s", p)
			}
			if x.Stuck != "" {
				x.Fail("C30", "deadlock", "%s", x.Stuck)
			}
			mu.Lock()
			defer mu.Unlock()
			final := published[len(published)-1]
			if got := cc.csMgr.getState(); got != final {
				x.Fail("C30", "final-state-wrong", "GetState=%v at the end but the last published state is %v (%v)", got, final, published)
			}
			out := ""
			for i, w := range ws {
				out += fmt.Sprintf("w%d=%v/%v ", i, w.returned, w.result)
				if w.returned && w.result {
					// true needs a reason: state differed from src at the start, or some change began before it returned
					if w.stateAtStart == w.src && w.changesAtRet == w.begunAt && w.changesAtRet == 0 {
						x.Fail("C30", "wait-spurious-true", "WaitForStateChange(%v) returned true although the state never differed from it", w.src)
					}
				}
			}
			x.Outcome(out + fmt.Sprint(published))
		})
		x.Cleanup(func() { cancel(); channelz.RemoveEntry(ch.ID) })
	}}
}

func TestVerif_C30_StateManagerSched(t *testing.T) {
	const P = "C30"
	r := vk.Start(t, "c30_csm_sched", "exploration", P)
	defer r.Finish()
	r.Rule(P, "every schedule with at most B preemptions (quick 3, thorough 4) of the instrumented real connectivityStateManager + ClientConn.WaitForStateChange/GetState: an updater publishing 3 states (incl. returning to the source state and SHUTDOWN followed by a further update) racing 2 waiters and a GetState call; at quiescence a waiter may remain blocked only if the state equals its source state; non-trivial = executions deviating from the default schedule")
	r.Assume(P, "a transient excursion away from and back to the source state that completes entirely before the waiter samples the state is not required to wake it (conservative reading); subchannel transition legality and FIFO delivery to the LB policy are decided by the history-level leg")
	b := r.Pick(3, 4)
	C, R, I, S := connectivity.Connecting, connectivity.Ready, connectivity.Idle, connectivity.Shutdown
	scs := []vsched.Scenario{
		c30Scenario("C,R,I/wait(I),wait(C)", []connectivity.State{C, R, I}, []connectivity.State{I, C}, b),
		c30Scenario("C,I,R/wait(I),wait(I)", []connectivity.State{C, I, R}, []connectivity.State{I, I}, b),
		c30Scenario("R,S,C/wait(I),wait(R)", []connectivity.State{R, S, C}, []connectivity.State{I, R}, b),
	}
	vsched.RunScenarios(t, r, []string{P}, scs)
	r.Sample(P, map[string]any{"scenario": "C,R,I/wait(I),wait(C)", "threads": []string{"updater: updateState(CONNECTING); updateState(READY); updateState(IDLE)", "waiter0: WaitForStateChange(IDLE)", "waiter1: WaitForStateChange(CONNECTING)", "getstate: GetState()"}})
}
