//go:build verif

package grpc

import (
	"fmt"
	"sync"
	"testing"

	"google.golang.org/grpc/internal/verif/vk"
	"google.golang.org/grpc/internal/verif/vsched"
)

// The server's per-connection handler quota: acquire is called synchronously
// by the connection's reader for each new stream, release asynchronously by
// each finishing handler.
func c25Scenario(n, streams, bound int) vsched.Scenario {
	return vsched.Scenario{Name: fmt.Sprintf("quota%d/streams%d", n, streams), Bound: bound, Body: func(x *vsched.X) {
		q := newHandlerQuota(uint32(n))
		var mu sync.Mutex
		running, maxRunning, started := 0, 0, 0
		x.Go("reader", func() {
			for i := 0; i < streams; i++ {
				q.acquire()
				mu.Lock()
				running++
				started++
				if running > maxRunning {
					maxRunning = running
				}
				if running > n {
					x.Fail("C25", "handlers-over-limit", "%d handlers running with MaxConcurrentStreams=%d", running, n)
				}
				mu.Unlock()
				id := i
				vsched.GoNamed(fmt.Sprintf("handler%d", id), func() {
					vsched.Yield() // the handler runs for a while
					mu.Lock()
					running--
					mu.Unlock()
					q.release()
				})
			}
		})
		x.Final(func(x *vsched.X) {
			for _, p := range x.Panics {
				x.Fail("C25", "panic", "%s", p)
			}
			mu.Lock()
			defer mu.Unlock()
			if x.Stuck != "" {
				x.Fail("C25", "quota-deadlock", "reader blocked in acquire with %d handlers running, %d/%d streams started: %s", running, started, streams, x.Stuck)
			}
			if x.Stuck == "" && q.n.Load() != int64(n) {
				x.Fail("C25", "quota-not-restored", "quota is %d after all handlers finished, want %d", q.n.Load(), n)
			}
			x.Outcome(fmt.Sprintf("max=%d", maxRunning))
		})
	}}
}

func TestVerif_C25_HandlerQuota(t *testing.T) {
	const P = "C25"
	r := vk.Start(t, "c25_handlerquota", "exploration", P)
	defer r.Finish()
	r.Rule(P, "every schedule with at most B preemptions (quick 3, thorough 4) of the instrumented real atomicSemaphore used as the per-connection handler quota: one synchronous acquirer (the connection reader) starting 3-4 handlers that release asynchronously, limits 1 and 2; oracle: running handlers <= limit at every acquire, no deadlock, quota restored; non-trivial = executions deviating from the default schedule")
	b := r.Pick(3, 4)
	scs := []vsched.Scenario{c25Scenario(1, 3, b), c25Scenario(2, 4, b)}
	vsched.RunScenarios(t, r, []string{P}, scs)
	r.Sample(P, map[string]any{"scenario": "quota1/streams3", "threads": []string{"reader: (acquire; start handler) x3", "handler_i: run; release"}})
}
