//go:build verif

package server

// C49: server filter chain selection is the most specific match.
//
// E3 (bounded-exhaustive input enumeration). Every listener configuration of
// the stated grammar is turned into a real v3 Listener proto, pushed through
// the real LDS decoder (so that VALIDATION is part of the system under test),
// and - when accepted - through newFilterChainManager + lookup for every
// connection of the stated menu. The oracle is a brute-force set filter over
// the chain specifications (no trie, no netip prefix arithmetic).

import (
	"fmt"
	"net/netip"
	"runtime"
	"sort"
	"strings"
	"sync"
	"testing"

	v3corepb "github.com/envoyproxy/go-control-plane/envoy/config/core/v3"
	v3listenerpb "github.com/envoyproxy/go-control-plane/envoy/config/listener/v3"
	v3routerpb "github.com/envoyproxy/go-control-plane/envoy/extensions/filters/http/router/v3"
	v3httppb "github.com/envoyproxy/go-control-plane/envoy/extensions/filters/network/http_connection_manager/v3"
	"google.golang.org/grpc/internal/verif/vk"
	"google.golang.org/grpc/internal/xds/bootstrap"
	"google.golang.org/grpc/internal/xds/clients/xdsclient"
	"google.golang.org/grpc/internal/xds/xdsclient/xdsresource"
	"google.golang.org/protobuf/types/known/anypb"
	"google.golang.org/protobuf/types/known/wrapperspb"

	_ "google.golang.org/grpc/internal/xds/httpfilter/router" // registers the router HTTP filter
)

// ---------------------------------------------------------------- input grammar

// c49Prefix is one entry of the prefix menu. bits < 0 means "no prefix
// specified in the match".
type c49Prefix struct {
	Addr string
	Bits int
}

var c49PrefixMenu = []c49Prefix{
	{"", -1},
	{"10.0.0.0", 8},
	{"10.1.0.0", 16},
	{"10.1.2.3", 32},
	{"::", 0},
	{"fd00::", 8},
}

// source types: 0 any, 1 same_ip_or_loopback, 2 external
var c49SrcTypeNames = []string{"any", "same_ip_or_loopback", "external"}

var c49PortMenu = [][]uint32{nil, {80}, {80, 81}}

var c49AddrMenu = []string{"10.1.2.3", "10.9.9.9", "fd00::1", "127.0.0.1"}
var c49ConnPortMenu = []int{80, 81, 82}

const c49ChainSpecs = 6 * 3 * 6 * 3 // 324

// c49Chain is one filter chain match specification (indices into the menus).
type c49Chain struct {
	Dst, St, Src, Ports int
}

func c49ChainFromIndex(i int) c49Chain {
	return c49Chain{Dst: i % 6, St: (i / 6) % 3, Src: (i / 18) % 6, Ports: (i / 108) % 3}
}

func (c c49Chain) String() string {
	p := func(x c49Prefix) string {
		if x.Bits < 0 {
			return "-"
		}
		return fmt.Sprintf("%s/%d", x.Addr, x.Bits)
	}
	return fmt.Sprintf("{dst=%s st=%s src=%s ports=%v}", p(c49PrefixMenu[c.Dst]), c49SrcTypeNames[c.St], p(c49PrefixMenu[c.Src]), c49PortMenu[c.Ports])
}

// c49Config is one listener configuration.
type c49Config struct {
	Chains  []int `json:"chains"` // chain spec indices, in listener order
	Default bool  `json:"default"`
}

func (c c49Config) String() string {
	var sb strings.Builder
	sb.WriteString("[")
	for i, ci := range c.Chains {
		if i > 0 {
			sb.WriteString(" ")
		}
		sb.WriteString(c49ChainFromIndex(ci).String())
	}
	sb.WriteString("]")
	if c.Default {
		sb.WriteString("+default")
	}
	return sb.String()
}

// c49Conn is one incoming connection.
type c49Conn struct {
	Local, Remote int // indices into c49AddrMenu
	Port          int // index into c49ConnPortMenu
	Wildcard      bool
}

func (c c49Conn) String() string {
	return fmt.Sprintf("{local=%s remote=%s:%d wildcard_listener=%v}", c49AddrMenu[c.Local], c49AddrMenu[c.Remote], c49ConnPortMenu[c.Port], c.Wildcard)
}

func c49AllConns() []c49Conn {
	var out []c49Conn
	for _, w := range []bool{true, false} {
		for l := range c49AddrMenu {
			for rm := range c49AddrMenu {
				for p := range c49ConnPortMenu {
					out = append(out, c49Conn{Local: l, Remote: rm, Port: p, Wildcard: w})
				}
			}
		}
	}
	return out
}

// ---------------------------------------------------------------- reference (brute force, from the statement)

// c49Bytes returns the 4- or 16-byte form of a textual address (parsing is
// trusted stdlib; everything after it is done on raw bytes here).
func c49Bytes(s string) []byte {
	if b, ok := c49BytesCache[s]; ok {
		return b
	}
	a := netip.MustParseAddr(s)
	return a.AsSlice()
}

// c49BytesCache / c49NetipCache: the menu addresses parsed once (read-only
// after init; pure speed-up).
var c49BytesCache = func() map[string][]byte {
	m := map[string][]byte{}
	for _, a := range c49AddrMenu {
		m[a] = netip.MustParseAddr(a).AsSlice()
	}
	for _, p := range c49PrefixMenu {
		if p.Bits >= 0 {
			m[p.Addr] = netip.MustParseAddr(p.Addr).AsSlice()
		}
	}
	return m
}()

var c49NetipCache = func() []netip.Addr {
	var out []netip.Addr
	for _, a := range c49AddrMenu {
		out = append(out, netip.MustParseAddr(a).Unmap())
	}
	return out
}()

// c49Contains: does prefix p (specified) contain address a? Different address
// families never match.
func c49Contains(p c49Prefix, a []byte) bool {
	pb := c49Bytes(p.Addr)
	if len(pb) != len(a) {
		return false
	}
	for bit := 0; bit < p.Bits; bit++ {
		m := byte(0x80) >> (bit % 8)
		if pb[bit/8]&m != a[bit/8]&m {
			return false
		}
	}
	return true
}

func c49IsLoopback(a []byte) bool {
	if len(a) == 4 {
		return a[0] == 127
	}
	for i := 0; i < 15; i++ {
		if a[i] != 0 {
			return false
		}
	}
	return a[15] == 1
}

func c49SameBytes(a, b []byte) bool {
	if len(a) != len(b) {
		return false
	}
	for i := range a {
		if a[i] != b[i] {
			return false
		}
	}
	return true
}

// c49Ref results
const (
	c49RefNone = -1 // no chain matches: default chain if configured, else no chain
	c49RefTie  = -2 // two or more chains are equally specific after all stages
)

// c49Keep narrows set to the members with the highest score; members with
// score < 0... are dropped by the caller using ok=false.
func c49Narrow(set []int, score func(i int) (int, bool)) []int {
	best := -1 << 30
	var out []int
	for _, i := range set {
		s, ok := score(i)
		if !ok {
			continue
		}
		if s > best {
			best = s
			out = out[:0]
		}
		if s == best {
			out = append(out, i)
		}
	}
	return out
}

// c49Reference is the most-specific-match algorithm of the statement: narrow
// the chain set by destination prefix (longest matching prefix; an unspecified
// prefix matches every address and is less specific than a /0), then source
// type (the specific type beats ANY), then source prefix (as for destination),
// then source port (a listed port beats "no ports listed"). No back-tracking:
// an empty set at any stage means that no chain matches. Returns the position
// of the chosen chain in chains, c49RefNone or c49RefTie.
//
// Assumption R2 (from the code comment in filterByDestinationPrefixes, not from
// the statement): on a listener that is NOT bound to the wildcard address the
// destination-prefix stage is skipped, i.e. every chain passes it with equal
// specificity.
func c49Reference(chains []c49Chain, cn c49Conn) int {
	set := c49ReferenceSet(chains, cn)
	switch len(set) {
	case 0:
		return c49RefNone
	case 1:
		return set[0]
	}
	return c49RefTie
}

// c49ReferenceSet returns the chains left after all four stages.
func c49ReferenceSet(chains []c49Chain, cn c49Conn) []int {
	_, s4 := c49ReferenceStages(chains, cn)
	return s4
}

// c49ReferenceStages returns the chains left after the source-prefix stage
// and after the final (source port) stage.
func c49ReferenceStages(chains []c49Chain, cn c49Conn) (afterSrcPrefix, final []int) {
	local, remote := c49Bytes(c49AddrMenu[cn.Local]), c49Bytes(c49AddrMenu[cn.Remote])
	port := uint32(c49ConnPortMenu[cn.Port])
	set := make([]int, len(chains))
	for i := range chains {
		set[i] = i
	}
	prefixScore := func(p c49Prefix, a []byte) (int, bool) {
		if p.Bits < 0 {
			return -1, true
		}
		if !c49Contains(p, a) {
			return 0, false
		}
		return p.Bits, true
	}
	if cn.Wildcard {
		set = c49Narrow(set, func(i int) (int, bool) { return prefixScore(c49PrefixMenu[chains[i].Dst], local) })
	}
	connType := 2 // external
	if c49SameBytes(local, remote) || c49IsLoopback(remote) {
		connType = 1
	}
	set = c49Narrow(set, func(i int) (int, bool) {
		switch chains[i].St {
		case 0:
			return 0, true
		case connType:
			return 1, true
		}
		return 0, false
	})
	set = c49Narrow(set, func(i int) (int, bool) { return prefixScore(c49PrefixMenu[chains[i].Src], remote) })
	afterSrcPrefix = append([]int(nil), set...)
	set = c49Narrow(set, func(i int) (int, bool) {
		ps := c49PortMenu[chains[i].Ports]
		if len(ps) == 0 {
			return 0, true
		}
		for _, p := range ps {
			if p == port {
				return 1, true
			}
		}
		return 0, false
	})
	return afterSrcPrefix, set
}

// c49SyntacticOverlap: two chains whose match criteria are literally the same
// in destination prefix, source type and source prefix, and whose port lists
// are both empty or intersect. (Used only to classify rejections.)
func c49SyntacticOverlap(chains []c49Chain) bool {
	for i := range chains {
		for j := i + 1; j < len(chains); j++ {
			a, b := chains[i], chains[j]
			if a.Dst != b.Dst || a.St != b.St || a.Src != b.Src {
				continue
			}
			pa, pb := c49PortMenu[a.Ports], c49PortMenu[b.Ports]
			if len(pa) == 0 && len(pb) == 0 {
				return true
			}
			for _, x := range pa {
				for _, y := range pb {
					if x == y {
						return true
					}
				}
			}
		}
	}
	return false
}

// ---------------------------------------------------------------- system under test

type c49Env struct {
	decoder xdsclient.Decoder
	hcm     []*anypb.Any // per chain position (0..3) and [4] = default
}

func c49RouteName(pos int) string { return fmt.Sprintf("rc-%d", pos) }

const c49DefaultRoute = "rc-default"

func c49NewEnv() (*c49Env, error) {
	bc, err := bootstrap.NewConfigFromContents([]byte(`{
		"xds_servers": [{"server_uri": "ipv4:///127.0.0.1:443", "channel_creds": [{"type": "insecure"}]}]
	}`))
	if err != nil {
		return nil, fmt.Errorf("bootstrap: %v", err)
	}
	e := &c49Env{decoder: xdsresource.NewListenerResourceTypeDecoder(bc, nil)}
	routerAny, err := anypb.New(&v3routerpb.Router{})
	if err != nil {
		return nil, err
	}
	mk := func(route string) (*anypb.Any, error) {
		return anypb.New(&v3httppb.HttpConnectionManager{
			RouteSpecifier: &v3httppb.HttpConnectionManager_Rds{Rds: &v3httppb.Rds{
				ConfigSource:    &v3corepb.ConfigSource{ConfigSourceSpecifier: &v3corepb.ConfigSource_Ads{Ads: &v3corepb.AggregatedConfigSource{}}},
				RouteConfigName: route,
			}},
			HttpFilters: []*v3httppb.HttpFilter{{Name: "router", ConfigType: &v3httppb.HttpFilter_TypedConfig{TypedConfig: routerAny}}},
		})
	}
	for pos := 0; pos < 4; pos++ {
		a, err := mk(c49RouteName(pos))
		if err != nil {
			return nil, err
		}
		e.hcm = append(e.hcm, a)
	}
	a, err := mk(c49DefaultRoute)
	if err != nil {
		return nil, err
	}
	e.hcm = append(e.hcm, a)
	return e, nil
}

func c49Cidr(p c49Prefix) []*v3corepb.CidrRange {
	if p.Bits < 0 {
		return nil
	}
	return []*v3corepb.CidrRange{{AddressPrefix: p.Addr, PrefixLen: &wrapperspb.UInt32Value{Value: uint32(p.Bits)}}}
}

func (e *c49Env) listener(cfg c49Config) *v3listenerpb.Listener {
	lis := &v3listenerpb.Listener{
		Name: "c49-listener",
		Address: &v3corepb.Address{Address: &v3corepb.Address_SocketAddress{SocketAddress: &v3corepb.SocketAddress{
			Address: "0.0.0.0", PortSpecifier: &v3corepb.SocketAddress_PortValue{PortValue: 8080}}}},
	}
	for pos, ci := range cfg.Chains {
		c := c49ChainFromIndex(ci)
		lis.FilterChains = append(lis.FilterChains, &v3listenerpb.FilterChain{
			Name: fmt.Sprintf("fc-%d", pos),
			FilterChainMatch: &v3listenerpb.FilterChainMatch{
				PrefixRanges:       c49Cidr(c49PrefixMenu[c.Dst]),
				SourceType:         v3listenerpb.FilterChainMatch_ConnectionSourceType(c.St),
				SourcePrefixRanges: c49Cidr(c49PrefixMenu[c.Src]),
				SourcePorts:        c49PortMenu[c.Ports],
			},
			Filters: []*v3listenerpb.Filter{{Name: "hcm", ConfigType: &v3listenerpb.Filter_TypedConfig{TypedConfig: e.hcm[pos]}}},
		})
	}
	if cfg.Default {
		lis.DefaultFilterChain = &v3listenerpb.FilterChain{
			Name:    "fc-default",
			Filters: []*v3listenerpb.Filter{{Name: "hcm", ConfigType: &v3listenerpb.Filter_TypedConfig{TypedConfig: e.hcm[4]}}},
		}
	}
	return lis
}

// build pushes cfg through the real LDS decoder and newFilterChainManager.
// accepted=false means validation rejected the listener.
func (e *c49Env) build(cfg c49Config) (fcm *filterChainManager, accepted bool, rejectErr string, panicked any) {
	defer func() {
		if p := recover(); p != nil {
			panicked = p
		}
	}()
	lAny, err := anypb.New(e.listener(cfg))
	if err != nil {
		panic("harness: anypb.New: " + err.Error())
	}
	res, err := e.decoder.Decode(xdsclient.NewAnyProto(lAny), xdsclient.DecodeOptions{})
	if err != nil {
		return nil, false, err.Error(), nil
	}
	lrd, ok := res.Resource.(*xdsresource.ListenerResourceData)
	if !ok || lrd.Resource.TCPListener == nil {
		return nil, false, fmt.Sprintf("decoded resource is not a TCP listener: %T", res.Resource), nil
	}
	il := lrd.Resource.TCPListener
	return newFilterChainManager(&il.FilterChains, &il.DefaultFilterChain), true, "", nil
}

// c49Lookup: result is "rc-<pos>", "rc-default", or "" with err text.
func c49Lookup(fcm *filterChainManager, cn c49Conn) (route string, errText string, panicked any) {
	defer func() {
		if p := recover(); p != nil {
			panicked = p
		}
	}()
	// Same conversion as listenerWrapper.Accept: netip address, unmapped.
	fc, err := fcm.lookup(lookupParams{
		isUnspecifiedListener: cn.Wildcard,
		dstAddr:               c49NetipCache[cn.Local],
		srcAddr:               c49NetipCache[cn.Remote],
		srcPort:               c49ConnPortMenu[cn.Port],
	})
	if err != nil {
		return "", err.Error(), nil
	}
	if fc == nil {
		return "", "lookup returned (nil, nil)", nil
	}
	return fc.routeConfigName, "", nil
}

// ---------------------------------------------------------------- checking one configuration

type c49Fail struct {
	Class string // short class
	Key   string // canonical key
	Desc  string
	Cfg   c49Config
	Conn  *c49Conn
	order [2]int64 // (config ordinal, connection ordinal) for deterministic minimum
}

type c49Stats struct {
	evals, lookups                    int64
	accepted, rejected                int64
	rejectedTieWitnessed, rejectedDry int64
	nontrivial                        int64 // accepted configs with >=2 chains where >=2 different chains (or chain+default) are selected over the connection menu
	strictDstWouldDiffer              int64
	outcomes                          map[string]int64
	fails                             []c49Fail
	overReject                        []string
}

func c49ScopeOf(cn c49Conn) string {
	if cn.Wildcard {
		return "wildcard"
	}
	return "nonwildcard"
}

// c49CheckConfig evaluates one configuration against every connection.
func c49CheckConfig(e *c49Env, cfg c49Config, ord int64, conns []c49Conn, st *c49Stats) {
	chains := make([]c49Chain, len(cfg.Chains))
	for i, ci := range cfg.Chains {
		chains[i] = c49ChainFromIndex(ci)
	}
	st.evals++
	// fail records a violation. specific=true: the key names the exact
	// configuration and connection. specific=false is used only for the one
	// root cause that the unchanged tree exhibits on non-wildcard listeners
	// (chains that differ in their destination prefix are all kept by the
	// skipped destination stage): there the key is the class, so that it is
	// stable across tiers and can be listed as a known finding.
	fail := func(class string, specific bool, cn *c49Conn, ci int, format string, a ...any) {
		scope := "config"
		if cn != nil {
			scope = c49ScopeOf(*cn)
		}
		if !specific {
			scope += "/chains-differ-only-in-destination-prefix"
		}
		key := scope + "/" + class
		if specific {
			key += "/" + cfg.String()
			if cn != nil {
				key += "/" + cn.String()
			}
		}
		st.fails = append(st.fails, c49Fail{Class: scope + "/" + class, Key: key, Desc: fmt.Sprintf(format, a...), Cfg: cfg, Conn: cn, order: [2]int64{ord, int64(ci)}})
	}
	// knownRoot: on a non-wildcard listener, do the chains that are still
	// equally specific after the source-prefix stage (by the reference) carry
	// two or more different destination prefixes? That is exactly the
	// situation in which keeping every destination entry leaves lookup with
	// several source-prefix entries.
	knownRoot := func(cn c49Conn) bool {
		if cn.Wildcard {
			return false
		}
		s3, _ := c49ReferenceStages(chains, cn)
		d := map[int]bool{}
		for _, i := range s3 {
			d[chains[i].Dst] = true
		}
		return len(d) >= 2
	}
	fcm, accepted, rejErr, pan := e.build(cfg)
	if pan != nil {
		fail("panic-in-validation", true, nil, -1, "listener %v: panic while decoding/building: %v", cfg, pan)
		return
	}
	// reference answers for every connection
	refs := make([]int, len(conns))
	tieAt := map[bool]int{true: -1, false: -1} // first connection with a tie, per listener kind
	for i, cn := range conns {
		refs[i] = c49Reference(chains, cn)
		if refs[i] == c49RefTie && tieAt[cn.Wildcard] < 0 {
			tieAt[cn.Wildcard] = i
		}
	}
	if !accepted {
		st.rejected++
		switch {
		case tieAt[true] >= 0 || tieAt[false] >= 0:
			st.rejectedTieWitnessed++
			st.outcomes["rejected: reference finds a tie for some connection"]++
		case c49SyntacticOverlap(chains):
			st.rejectedDry++
			st.outcomes["rejected: literally overlapping chains (no connection of the menu reaches both)"]++
		default:
			st.outcomes["rejected: NO overlapping chains"]++
			if len(st.overReject) < 3 {
				st.overReject = append(st.overReject, fmt.Sprintf("%v: %s", cfg, rejErr))
			}
		}
		return
	}
	st.accepted++
	defer fcm.stop()
	// A tie in the reference means validation had to reject.
	for _, w := range []bool{true, false} {
		if i := tieAt[w]; i >= 0 {
			cn := conns[i]
			tied := c49ReferenceSet(chains, cn)
			allDiffer := true
			for x := range tied {
				for y := x + 1; y < len(tied); y++ {
					if chains[tied[x]].Dst == chains[tied[y]].Dst {
						allDiffer = false
					}
				}
			}
			fail("tie-not-rejected", w || !allDiffer, &cn, i, "listener %v was ACCEPTED by validation although for connection %v two chains are equally specific after destination prefix, source type, source prefix and source port", cfg, cn)
		}
	}
	chosen := map[string]bool{}
	for i, cn := range conns {
		st.lookups++
		got, errText, pan := c49Lookup(fcm, cn)
		if pan != nil {
			fail("panic-in-lookup", true, &cn, i, "listener %v connection %v: lookup panicked: %v", cfg, cn, pan)
			continue
		}
		if strings.Contains(errText, "multiple matching filter chains") {
			st.outcomes["lookup: run-time multiple-matching error ("+c49ScopeOf(cn)+")"]++
			fail("runtime-multiple-matching", !knownRoot(cn), &cn, i, "listener %v (accepted by validation) connection %v: lookup failed at run time with %q; reference result: %s", cfg, cn, errText, c49RefString(refs[i], cfg))
			continue
		}
		if refs[i] == c49RefTie {
			continue // already reported as tie-not-rejected
		}
		want := ""
		switch {
		case refs[i] >= 0:
			want = c49RouteName(refs[i])
		case cfg.Default:
			want = c49DefaultRoute
		}
		if got != want {
			class := "wrong-chain"
			switch {
			case got == c49DefaultRoute:
				class = "default-used-although-a-chain-matches"
			case want == c49DefaultRoute:
				class = "default-not-used-although-no-chain-matches"
			case want == "":
				class = "chain-selected-although-none-matches"
			case got == "":
				class = "no-chain-although-one-matches"
			}
			fail(class, true, &cn, i, "listener %v connection %v: lookup chose %q (err=%q), most-specific-match reference says %s", cfg, cn, got, errText, c49RefString(refs[i], cfg))
			continue
		}
		switch {
		case refs[i] >= 0:
			st.outcomes["lookup: most specific chain selected"]++
		case cfg.Default:
			st.outcomes["lookup: no chain matches -> default chain"]++
		default:
			st.outcomes["lookup: no chain matches, no default -> error"]++
		}
		chosen[got] = true
		// informational: would the strict reading (destination prefixes also
		// matched on non-wildcard listeners) give a different answer?
		if !cn.Wildcard {
			w := cn
			w.Wildcard = true
			if c49Reference(chains, w) != refs[i] {
				st.strictDstWouldDiffer++
			}
		}
	}
	if len(chains) >= 2 && len(chosen) >= 2 {
		st.nontrivial++
	}
}

func c49RefString(ref int, cfg c49Config) string {
	switch {
	case ref == c49RefTie:
		return "TIE (configuration should have been rejected)"
	case ref >= 0:
		return fmt.Sprintf("chain #%d %v (%s)", ref, c49ChainFromIndex(cfg.Chains[ref]), c49RouteName(ref))
	case cfg.Default:
		return "no chain matches -> default chain (" + c49DefaultRoute + ")"
	}
	return "no chain matches and no default chain -> error"
}

// ---------------------------------------------------------------- enumeration

// c49ConfigAt maps an ordinal to a configuration: ordinals enumerate, for
// n = 0..N chains, every ordered n-tuple of chain specifications; for n = 1, 2
// each tuple without and with a default chain, for n = 0 and n = 3 only with a
// default chain (the default chain takes no part in validation or in the four
// matching stages; the "no default -> error" path is covered by n <= 2).
func c49ConfigAt(ord int64, maxChains int) (c49Config, bool) {
	if ord == 0 {
		return c49Config{Default: true}, true
	}
	ord--
	block := int64(1)
	for n := 1; n <= maxChains; n++ {
		block *= c49ChainSpecs
		variants := c49DefaultVariants(n)
		if ord < variants*block {
			def := variants == 1 || ord%2 == 1
			x := ord / variants
			ch := make([]int, n)
			for k := n - 1; k >= 0; k-- {
				ch[k] = int(x % c49ChainSpecs)
				x /= c49ChainSpecs
			}
			return c49Config{Chains: ch, Default: def}, true
		}
		ord -= variants * block
	}
	return c49Config{}, false
}

func c49DefaultVariants(n int) int64 {
	if n <= 2 {
		return 2
	}
	return 1
}

func c49Total(maxChains int) int64 {
	t, block := int64(1), int64(1)
	for n := 1; n <= maxChains; n++ {
		block *= c49ChainSpecs
		t += c49DefaultVariants(n) * block
	}
	return t
}

type c49Replay struct {
	Cfg  c49Config `json:"cfg"`
	Conn *c49Conn  `json:"conn,omitempty"`
}

func TestVerif_C49_FilterChain(t *testing.T) {
	const P = "C49"
	r := vk.Start(t, "c49_filterchain", "exploration", P)
	defer r.Finish()
	maxChains := r.Pick(2, 3)
	r.Rule(P, fmt.Sprintf("every ordered tuple of 0..%d filter chains (1-2 chains: without and with a default chain; 0 or 3 chains: with a default chain) whose match is drawn from destination prefix {none,10.0.0.0/8,10.1.0.0/16,10.1.2.3/32,::/0,fd00::/8} x source type {any,same_ip_or_loopback,external} x source prefix (same menu) x source ports {none,[80],[80,81]} is built as a v3 Listener proto (HCM + router filter, RDS route name identifies the chain), decoded by the real LDS decoder (validation) and, if accepted, looked up for every connection local{10.1.2.3,10.9.9.9,fd00::1,127.0.0.1} x remote(same) x remote port{80,81,82} x wildcard listener{t,f} (96); oracle = brute-force most-specific-match over the chain specs; non-trivial = accepted configuration with >=2 chains in which the connection menu selects at least two different chains (or a chain and the default/none)", maxChains))
	r.Assume(P, "R2: on a listener not bound to the wildcard address the destination-prefix stage is skipped (every chain passes with equal specificity), as documented in filterByDestinationPrefixes; the stricter reading (always match the destination prefix) would flag a superset of cases")
	r.Assume(P, "source type: a connection is same_ip_or_loopback iff remote IP == local IP or remote IP is loopback (127.0.0.0/8, ::1), otherwise external; ANY matches both and is less specific")
	r.Assume(P, "an unspecified prefix matches every address of either family and is less specific than a /0 prefix; prefixes of the other address family never match")
	r.Assume(P, "one prefix per match field (the menu entry); the Listener.address field is 0.0.0.0:8080 in every generated proto, for non-wildcard cases the listener is taken to be bound to the connection's local address")
	r.Assume(P, "chains are identified through their RDS route configuration name; trusted: protobuf marshalling, netip.ParseAddr")

	env, err := c49NewEnv()
	if err != nil {
		r.EngineError("setup: %v", err)
		return
	}
	conns := c49AllConns()

	if r.ReplayFile() != "" {
		var rp c49Replay
		if err := r.LoadReplay(&rp); err != nil {
			r.EngineError("replay: %v", err)
			return
		}
		cs := conns
		if rp.Conn != nil {
			cs = []c49Conn{*rp.Conn}
		}
		st := &c49Stats{outcomes: map[string]int64{}}
		c49CheckConfig(env, rp.Cfg, 0, cs, st)
		r.Eval(P, st.evals)
		for _, f := range st.fails {
			r.Violation(P, f.Key, f.Desc, c49Replay{Cfg: f.Cfg, Conn: f.Conn})
			fmt.Println("replay: VIOLATION", f.Key, f.Desc)
		}
		if len(st.fails) == 0 {
			fmt.Println("replay: no violation for", rp.Cfg, rp.Conn)
		}
		return
	}

	// self-test of the reference on hand-computed cases (infrastructure guard)
	if msg := c49SelfTest(); msg != "" {
		r.EngineError("reference self-test: %s", msg)
		return
	}

	total := c49Total(maxChains)
	_, nshards := r.Shard()
	nw := runtime.GOMAXPROCS(0)
	const chunk = 4096
	var next int64
	var nmu sync.Mutex
	grab := func() (int64, int64) {
		nmu.Lock()
		defer nmu.Unlock()
		a := next
		if a >= total {
			return 0, 0
		}
		next += chunk
		b := next
		if b > total {
			b = total
		}
		return a, b
	}
	stats := make([]*c49Stats, nw)
	var wg sync.WaitGroup
	var capped sync.Once
	for w := 0; w < nw; w++ {
		st := &c49Stats{outcomes: map[string]int64{}}
		stats[w] = st
		wg.Add(1)
		go func() {
			defer wg.Done()
			for {
				a, b := grab()
				if a == b {
					return
				}
				if r.OverBudget() {
					capped.Do(func() { r.Cap(P, "time budget reached before all configurations were evaluated") })
					return
				}
				for ord := a; ord < b; ord++ {
					if nshards > 1 && !r.Mine(int(ord%int64(1<<30))) {
						continue
					}
					cfg, ok := c49ConfigAt(ord, maxChains)
					if !ok {
						continue
					}
					c49CheckConfig(env, cfg, ord, conns, st)
				}
				// keep only the smallest failures per class (deterministic, bounded memory)
				st.fails = c49Smallest(st.fails, 8)
			}
		}()
	}
	wg.Wait()

	sum := &c49Stats{outcomes: map[string]int64{}}
	for _, st := range stats {
		sum.evals += st.evals
		sum.lookups += st.lookups
		sum.accepted += st.accepted
		sum.rejected += st.rejected
		sum.rejectedTieWitnessed += st.rejectedTieWitnessed
		sum.rejectedDry += st.rejectedDry
		sum.nontrivial += st.nontrivial
		sum.strictDstWouldDiffer += st.strictDstWouldDiffer
		for k, v := range st.outcomes {
			sum.outcomes[k] += v
		}
		sum.fails = append(sum.fails, st.fails...)
		sum.overReject = append(sum.overReject, st.overReject...)
	}
	r.Eval(P, sum.evals)
	r.NontrivialN(P, sum.nontrivial)
	okeys := make([]string, 0, len(sum.outcomes))
	for k := range sum.outcomes {
		okeys = append(okeys, k)
	}
	sort.Strings(okeys)
	for _, k := range okeys {
		r.Outcome(P, k)
		r.Set(P, "n["+k+"]", sum.outcomes[k])
	}
	r.Set(P, "configurations", sum.evals)
	r.Set(P, "configurations_accepted", sum.accepted)
	r.Set(P, "configurations_rejected", sum.rejected)
	r.Set(P, "configurations_rejected_with_tie_witnessed_by_reference", sum.rejectedTieWitnessed)
	r.Set(P, "lookups_compared", sum.lookups)
	r.Set(P, "connections_per_configuration", len(conns))
	r.Set(P, "max_chains", maxChains)
	r.Set(P, "info_nonwildcard_lookups_where_strict_destination_matching_would_differ", sum.strictDstWouldDiffer)
	if n := sum.outcomes["rejected: NO overlapping chains"]; n > 0 {
		sort.Strings(sum.overReject)
		r.EngineError("vacuity: %d generated listeners without overlapping chains were rejected by validation (harness protos not accepted as intended), e.g. %v", n, sum.overReject[:1])
	}
	if sum.accepted == 0 {
		r.EngineError("vacuity: no generated listener was accepted")
	}
	if sum.outcomes["lookup: most specific chain selected"] == 0 || sum.outcomes["lookup: no chain matches -> default chain"] == 0 {
		r.EngineError("vacuity: outcome classes missing: %v", sum.outcomes)
	}
	for _, f := range c49Smallest(sum.fails, 4) {
		r.Violation(P, f.Key, f.Desc, c49Replay{Cfg: f.Cfg, Conn: f.Conn})
	}
	// written-out samples
	for _, s := range []c49Config{
		{Chains: []int{c49Idx(1, 0, 0, 0), c49Idx(2, 0, 0, 0)}, Default: true},
		{Chains: []int{c49Idx(0, 1, 0, 0), c49Idx(0, 2, 1, 1)}, Default: false},
	} {
		chains := []c49Chain{c49ChainFromIndex(s.Chains[0]), c49ChainFromIndex(s.Chains[1])}
		cn := c49Conn{Local: 0, Remote: 1, Port: 0, Wildcard: true}
		fcm, acc, _, _ := env.build(s)
		got := "(rejected)"
		if acc {
			got, _, _ = c49Lookup(fcm, cn)
			fcm.stop()
		}
		r.Sample(P, map[string]any{"listener": s.String(), "connection": cn.String(), "reference": c49RefString(c49Reference(chains, cn), s), "lookup": got})
	}
}

func c49Idx(dst, st, src, ports int) int { return dst + 6*st + 18*src + 108*ports }

// c49Smallest keeps, per class, the k failures with the smallest (config,
// connection) ordinals; result sorted by class then ordinal.
func c49Smallest(fs []c49Fail, k int) []c49Fail {
	sort.Slice(fs, func(i, j int) bool {
		if fs[i].Class != fs[j].Class {
			return fs[i].Class < fs[j].Class
		}
		if fs[i].order[0] != fs[j].order[0] {
			return fs[i].order[0] < fs[j].order[0]
		}
		return fs[i].order[1] < fs[j].order[1]
	})
	var out []c49Fail
	n, cur := 0, ""
	seen := map[string]bool{}
	for _, f := range fs {
		if f.Class != cur {
			cur, n = f.Class, 0
		}
		if seen[f.Key] {
			continue
		}
		if n < k {
			seen[f.Key] = true
			out = append(out, f)
			n++
		}
	}
	return out
}

// c49SelfTest checks the reference on cases worked out by hand from the
// statement (Envoy/A36 matching order).
func c49SelfTest() string {
	type tc struct {
		chains []c49Chain
		cn     c49Conn
		want   int
	}
	A := func(dst, st, src, ports int) c49Chain { return c49Chain{dst, st, src, ports} }
	tests := []tc{
		// longest destination prefix wins
		{[]c49Chain{A(1, 0, 0, 0), A(2, 0, 0, 0), A(3, 0, 0, 0)}, c49Conn{0, 1, 0, true}, 2},
		{[]c49Chain{A(1, 0, 0, 0), A(2, 0, 0, 0), A(3, 0, 0, 0)}, c49Conn{1, 1, 0, true}, 0},
		// unspecified destination is less specific than ::/0 for a v6 address, only match for 127.0.0.1
		{[]c49Chain{A(0, 0, 0, 0), A(4, 0, 0, 0)}, c49Conn{2, 0, 0, true}, 1},
		{[]c49Chain{A(0, 0, 0, 0), A(4, 0, 0, 0)}, c49Conn{3, 0, 0, true}, 0},
		// no back-tracking: the /16 chain wins the destination stage, then fails on source type
		{[]c49Chain{A(1, 0, 0, 0), A(2, 1, 0, 0)}, c49Conn{0, 1, 0, true}, c49RefNone},
		// source type: same ip, loopback, external
		{[]c49Chain{A(0, 1, 0, 0), A(0, 2, 0, 0), A(0, 0, 0, 0)}, c49Conn{0, 0, 0, true}, 0},
		{[]c49Chain{A(0, 1, 0, 0), A(0, 2, 0, 0), A(0, 0, 0, 0)}, c49Conn{0, 3, 0, true}, 0},
		{[]c49Chain{A(0, 1, 0, 0), A(0, 2, 0, 0), A(0, 0, 0, 0)}, c49Conn{0, 1, 0, true}, 1},
		// source prefix then port
		{[]c49Chain{A(0, 0, 1, 0), A(0, 0, 2, 1)}, c49Conn{1, 0, 2, true}, c49RefNone},
		{[]c49Chain{A(0, 0, 1, 0), A(0, 0, 2, 1)}, c49Conn{1, 0, 0, true}, 1},
		{[]c49Chain{A(0, 0, 0, 0), A(0, 0, 0, 2)}, c49Conn{1, 0, 1, true}, 1},
		{[]c49Chain{A(0, 0, 0, 0), A(0, 0, 0, 2)}, c49Conn{1, 0, 2, true}, 0},
		// tie
		{[]c49Chain{A(0, 0, 0, 1), A(0, 0, 0, 2)}, c49Conn{1, 0, 0, true}, c49RefTie},
		{[]c49Chain{A(0, 0, 0, 1), A(0, 0, 0, 2)}, c49Conn{1, 0, 1, true}, 1},
	}
	for i, tst := range tests {
		if got := c49Reference(tst.chains, tst.cn); got != tst.want {
			return fmt.Sprintf("case %d: reference(%v, %v) = %d, hand-computed %d", i, tst.chains, tst.cn, got, tst.want)
		}
	}
	return ""
}
