//go:build verif

package xdsresource

// C46 (leg a, package xdsresource):
//
//	(A) FindBestMatchingVirtualHost on every (authority, virtual-host list) of
//	    the grammar against "exact > suffix > prefix > wildcard, longer pattern
//	    first, first listed on a full tie";
//	(B) the runtime-fraction matcher with the RandInt64n seam driven through
//	    ALL 10^6 draws: a fraction of f per million matches exactly f draws;
//	(C) CompositeMatcher (built by routesProtoToSlice + RouteToMatcher from
//	    route protos) = path AND headers AND fraction, on every (route, RPC,
//	    draw) of the grammar.

import (
	"fmt"
	"runtime"
	"sort"
	"strings"
	"sync"
	"testing"

	v3corepb "github.com/envoyproxy/go-control-plane/envoy/config/core/v3"
	v3routepb "github.com/envoyproxy/go-control-plane/envoy/config/route/v3"
	v3matcherpb "github.com/envoyproxy/go-control-plane/envoy/type/matcher/v3"
	v3typepb "github.com/envoyproxy/go-control-plane/envoy/type/v3"
	"google.golang.org/grpc/internal/verif/vk"
	"google.golang.org/grpc/metadata"
	"google.golang.org/protobuf/types/known/wrapperspb"
)

const (
	c46aP           = "C46"
	c46aKeyFraction = "fraction-matches-f+1-draws"
	c46aMillion     = 1000000
)

// ---------------------------------------------------------------- (A) vhost

func c46aFoldStr(s string) string {
	b := []byte(s)
	for i, c := range b {
		if c >= 'A' && c <= 'Z' {
			b[i] = c + ('a' - 'A')
		}
	}
	return string(b)
}

// c46aReading fixes the two points the property sentence leaves open: whether
// domain patterns are compared case-sensitively and whether the '*' of a
// suffix/prefix pattern may stand for the empty string. The real code must be
// right under ONE reading for every case of the run.
type c46aReading struct {
	Fold      bool `json:"ascii_case_insensitive"`
	EmptyWild bool `json:"wildcard_may_be_empty"`
}

var c46aReadings = [4]c46aReading{{false, true}, {false, false}, {true, true}, {true, false}}

func (rd c46aReading) String() string {
	s := "case-sensitive"
	if rd.Fold {
		s = "ASCII-case-insensitive"
	}
	if rd.EmptyWild {
		return s + ", '*' may be empty"
	}
	return s + ", '*' is non-empty"
}

// c46aDomainMatch: pattern type rank (4 exact, 3 suffix "*x", 2 prefix "x*", 1
// universe "*") and whether host matches the pattern under reading rd.
func c46aDomainMatch(d, host string, rd c46aReading) (rank int, ok bool) {
	if rd.Fold {
		d, host = c46aFoldStr(d), c46aFoldStr(host)
	}
	switch {
	case d == "*":
		return 1, true
	case len(d) > 0 && d[0] == '*':
		suf := d[1:]
		ok = len(host) >= len(suf) && host[len(host)-len(suf):] == suf
		return 3, ok && (rd.EmptyWild || len(host) > len(suf))
	case len(d) > 0 && d[len(d)-1] == '*':
		pre := d[:len(d)-1]
		ok = len(host) >= len(pre) && host[:len(pre)] == pre
		return 2, ok && (rd.EmptyWild || len(host) > len(pre))
	default:
		return 4, d == host
	}
}

// c46aCand is one matching (virtual host, domain) pair.
type c46aCand struct{ rank, plen, order, vh int }

// c46aPreferred is the sentence: exact > suffix > prefix > wildcard; within a
// type the longer pattern first; on a full tie the first listed.
func c46aPreferred(a, b c46aCand) bool {
	if a.rank != b.rank {
		return a.rank > b.rank
	}
	if a.plen != b.plen {
		return a.plen > b.plen
	}
	return a.order < b.order
}

// c46aRefBest lists every matching (vhost, domain) pair and returns the vhost of
// the most preferred one (-1: none), the number of matching pairs, and whether
// the winner's pattern is shorter than a matching pattern of a worse type.
func c46aRefBest(host string, vhs [][]string, rd c46aReading) (best, ncand int, typeBeatsLength bool) {
	var cs []c46aCand
	order := 0
	for i, doms := range vhs {
		for _, d := range doms {
			if rank, ok := c46aDomainMatch(d, host, rd); ok {
				cs = append(cs, c46aCand{rank, len(d), order, i})
			}
			order++
		}
	}
	if len(cs) == 0 {
		return -1, 0, false
	}
	w := cs[0]
	for _, c := range cs[1:] {
		if c46aPreferred(c, w) {
			w = c
		}
	}
	for _, c := range cs {
		if c.rank < w.rank && c.plen > w.plen {
			typeBeatsLength = true
		}
	}
	return w.vh, len(cs), typeBeatsLength
}

type c46aVhostCase struct {
	Kind      string     `json:"kind"` // "vhost"
	Authority string     `json:"authority"`
	VHosts    [][]string `json:"vhosts"`
	Reading   int        `json:"reading"` // index into c46aReadings the case was judged under
}

// c46aVhostEval runs the real function; returns index of the chosen vhost (-1
// none, -2 panic).
func c46aVhostEval(host string, objs []*VirtualHost) (idx int) {
	defer func() {
		if recover() != nil {
			idx = -2
		}
	}()
	got := FindBestMatchingVirtualHost(host, objs)
	if got == nil {
		return -1
	}
	for i, o := range objs {
		if o == got {
			return i
		}
	}
	return -3
}

func c46aVhostSize(vhs [][]string) int {
	n := 0
	for _, v := range vhs {
		n += 1 + len(v)
	}
	return n
}

type c46aVhostFail struct {
	c    c46aVhostCase
	desc string
	size int
	ord  string
}

// c46aVhostKeep inserts f into the (<=3, sorted) list of smallest failures.
func c46aVhostKeep(l []c46aVhostFail, f c46aVhostFail) []c46aVhostFail {
	for _, x := range l {
		if x.ord == f.ord {
			return l
		}
	}
	l = append(l, f)
	sort.Slice(l, func(i, j int) bool { return l[i].ord < l[j].ord })
	if len(l) > 3 {
		l = l[:3]
	}
	return l
}

type c46aVhostStats struct {
	evals, nontriv, typeBeatsLen, none, single int64
	nfail                                      [4]int64
	fails                                      [4][]c46aVhostFail
}

func c46aVhost(r *vk.Run) {
	const P = c46aP
	// One authority (a.b.c) is matched by ALL four pattern types with patterns
	// of different lengths, including suffix/prefix patterns longer than the
	// exact one; the others are matched by subsets; x.* / *.x match nothing and
	// A.B.C matches only under a case-insensitive reading.
	authorities := []string{"a.b.c", "A.B.C", "a.b", "x.a.b.c"}
	domains := []string{"a.b.c", "a.b", "*.c", "*.b.c", "*a.b.c", "a.*", "a.b.*", "a.b.c*", "*", "x.*", "*.x", "A.B.C"}
	if r.Thorough() {
		authorities = append(authorities, "", "a.b.c.d")
		domains = append(domains, "*c", "a*", "*.a.b.c")
	}
	nd := len(domains)
	// match table per reading
	var tab [4][][]int8
	for ri, rd := range c46aReadings {
		tab[ri] = make([][]int8, len(authorities))
		for ai, a := range authorities {
			tab[ri][ai] = make([]int8, nd)
			for di, d := range domains {
				if rank, ok := c46aDomainMatch(d, a, rd); ok {
					tab[ri][ai][di] = int8(rank)
				}
			}
		}
	}
	// ordered domain lists per vhost: 1 or 2 domains
	var lists [][]int
	for d := 0; d < nd; d++ {
		lists = append(lists, []int{d})
	}
	for d := 0; d < nd; d++ {
		for e := 0; e < nd; e++ {
			lists = append(lists, []int{d, e})
		}
	}
	nl := len(lists)
	listStr := make([][]string, nl)
	for i, l := range lists {
		for _, d := range l {
			listStr[i] = append(listStr[i], domains[d])
		}
	}
	// distinct VirtualHost objects per position so that the returned pointer
	// identifies the position
	objs := make([][]*VirtualHost, 3)
	for p := 0; p < 3; p++ {
		objs[p] = make([]*VirtualHost, nl)
		for i := range lists {
			objs[p][i] = &VirtualHost{Domains: listStr[i]}
		}
	}
	type item struct{ n, a int }
	var items []item
	for a := 0; a < nl; a++ {
		items = append(items, item{1, a}, item{2, a}, item{3, a})
	}
	var mu sync.Mutex
	var total c46aVhostStats
	var wg sync.WaitGroup
	var next int
	var nmu sync.Mutex
	for w := 0; w < runtime.GOMAXPROCS(0); w++ {
		wg.Add(1)
		go func() {
			defer wg.Done()
			var st c46aVhostStats
			ob := make([]*VirtualHost, 0, 3)
			check := func(idx []int) {
				ob = ob[:0]
				size := 0
				for p, i := range idx {
					ob = append(ob, objs[p][i])
					size += 1 + len(lists[i])
				}
				for ai, host := range authorities {
					got := c46aVhostEval(host, ob)
					st.evals++
					for ri := 0; ri < 4; ri++ {
						var win c46aCand
						have := false
						n, order := 0, 0
						var maxLen [5]int
						for p, li := range idx {
							for _, di := range lists[li] {
								if rk := int(tab[ri][ai][di]); rk > 0 {
									c := c46aCand{rk, len(domains[di]), order, p}
									n++
									if c.plen > maxLen[rk] {
										maxLen[rk] = c.plen
									}
									if !have || c46aPreferred(c, win) {
										win, have = c, true
									}
								}
								order++
							}
						}
						ref := -1
						if have {
							ref = win.vh
						}
						if ri == 0 {
							switch {
							case n == 0:
								st.none++
							case n == 1:
								st.single++
							default:
								st.nontriv++
							}
							for rk := 1; have && rk < win.rank; rk++ {
								if maxLen[rk] > win.plen {
									st.typeBeatsLen++
									break
								}
							}
						}
						if got != ref {
							st.nfail[ri]++
							fl := st.fails[ri]
							if len(fl) < 3 || size <= fl[len(fl)-1].size {
								vhs := make([][]string, len(idx))
								for p, i := range idx {
									vhs[p] = listStr[i]
								}
								c := c46aVhostCase{Kind: "vhost", Authority: host, VHosts: vhs, Reading: ri}
								st.fails[ri] = c46aVhostKeep(fl, c46aVhostFail{c, fmt.Sprintf("got vhost #%d, reference #%d", got, ref), size, fmt.Sprintf("%03d|%q|%q", size, host, vhs)})
							}
						}
					}
				}
			}
			for {
				nmu.Lock()
				i := next
				next++
				nmu.Unlock()
				if i >= len(items) {
					break
				}
				it := items[i]
				switch it.n {
				case 1:
					check([]int{it.a})
				case 2:
					for b := 0; b < nl; b++ {
						check([]int{it.a, b})
					}
				case 3:
					for b := 0; b < nl; b++ {
						for c := 0; c < nl; c++ {
							check([]int{it.a, b, c})
						}
					}
				}
			}
			mu.Lock()
			total.evals += st.evals
			total.nontriv += st.nontriv
			total.typeBeatsLen += st.typeBeatsLen
			total.none += st.none
			total.single += st.single
			for ri := 0; ri < 4; ri++ {
				total.nfail[ri] += st.nfail[ri]
				for _, f := range st.fails[ri] {
					total.fails[ri] = c46aVhostKeep(total.fails[ri], f)
				}
			}
			mu.Unlock()
		}()
	}
	wg.Wait()
	r.Eval(P, total.evals)
	r.NontrivialN(P, total.nontriv)
	r.Set(P, "vhost_evaluations", total.evals)
	r.Set(P, "vhost_domain_alphabet", domains)
	r.Set(P, "vhost_authorities", authorities)
	r.Set(P, "vhost_ordered_domain_lists_per_vhost", nl)
	r.Set(P, "vhost_cases_with_2_or_more_matching_domains", total.nontriv)
	r.Set(P, "vhost_cases_where_type_beats_a_longer_pattern", total.typeBeatsLen)
	r.Outcome(P, "vhost: evaluated")
	if total.none > 0 {
		r.Outcome(P, "vhost: none matches")
	}
	if total.single > 0 {
		r.Outcome(P, "vhost: single matching domain")
	}
	if total.nontriv > 0 {
		r.Outcome(P, "vhost: best of >=2 matching domains")
	}
	if total.typeBeatsLen > 0 {
		r.Outcome(P, "vhost: better type wins over a longer pattern of a worse type")
	}
	// the reading that explains the real code best (0 failures = holds)
	bestR := 0
	for ri := 1; ri < 4; ri++ {
		if total.nfail[ri] < total.nfail[bestR] {
			bestR = ri
		}
	}
	fr := map[string]int64{}
	for ri, rd := range c46aReadings {
		fr[rd.String()] = total.nfail[ri]
	}
	r.Set(P, "vhost_mismatches_per_reading", fr)
	r.Set(P, "vhost_reading_judged", c46aReadings[bestR].String())
	if total.nfail[bestR] > 0 {
		for _, f := range total.fails[bestR] {
			r.Violation(P, fmt.Sprintf("vhost authority=%q domains=%q", f.c.Authority, f.c.VHosts),
				fmt.Sprintf("FindBestMatchingVirtualHost(%q, %q): %s. No reading of the open points explains the code; under the closest one (%s) %d configurations fail (mismatches per reading: %v)", f.c.Authority, f.c.VHosts, f.desc, c46aReadings[bestR], total.nfail[bestR], fr), f.c)
		}
	}
	r.Sample(P, map[string]any{"authority": "a.b.c", "vhosts": [][]string{{"*.c"}, {"a.b.*", "*"}, {"*.c"}}, "expected_vhost": 0, "why": "suffix beats the longer prefix pattern and the universe; first listed on the full tie"})
	r.Sample(P, map[string]any{"authority": "a.b.c", "vhosts": [][]string{{"a.*", "*.c"}, {"*.b.c"}}, "expected_vhost": 1, "why": "longer suffix first within the type"})
}

// ---------------------------------------------------------------- (B) fraction

type c46aFracCase struct {
	Kind        string `json:"kind"` // "fraction"
	Numerator   uint32 `json:"numerator"`
	Denominator string `json:"denominator"` // HUNDRED TEN_THOUSAND MILLION
}

func (c c46aFracCase) perMillion() int64 {
	switch c.Denominator {
	case "HUNDRED":
		return int64(c.Numerator) * 10000
	case "TEN_THOUSAND":
		return int64(c.Numerator) * 100
	}
	return int64(c.Numerator)
}

func c46aRouteProto(match *v3routepb.RouteMatch) *v3routepb.Route {
	return &v3routepb.Route{Match: match, Action: &v3routepb.Route_Route{Route: &v3routepb.RouteAction{ClusterSpecifier: &v3routepb.RouteAction_Cluster{Cluster: "c"}}}}
}

func c46aFraction(num uint32, den string) *v3corepb.RuntimeFractionalPercent {
	d := v3typepb.FractionalPercent_MILLION
	switch den {
	case "HUNDRED":
		d = v3typepb.FractionalPercent_HUNDRED
	case "TEN_THOUSAND":
		d = v3typepb.FractionalPercent_TEN_THOUSAND
	}
	return &v3corepb.RuntimeFractionalPercent{DefaultValue: &v3typepb.FractionalPercent{Numerator: num, Denominator: d}}
}

func c46aBuild(match *v3routepb.RouteMatch) (*CompositeMatcher, error) {
	routes, _, err := routesProtoToSlice([]*v3routepb.Route{c46aRouteProto(match)}, nil, nil, nil)
	if err != nil {
		return nil, err
	}
	if len(routes) != 1 {
		return nil, fmt.Errorf("routesProtoToSlice returned %d routes", len(routes))
	}
	return RouteToMatcher(routes[0]), nil
}

// c46aFracCount drives the random seam through all 10^6 draws for a route that
// matches every path and has only the runtime fraction; returns how many draws
// match, the smallest matching draw and the smallest non-matching draw.
func c46aFracCount(c c46aFracCase) (count int64, firstMatch, firstMiss int64, err string) {
	m, e := c46aBuild(&v3routepb.RouteMatch{PathSpecifier: &v3routepb.RouteMatch_Prefix{Prefix: ""}, RuntimeFraction: c46aFraction(c.Numerator, c.Denominator)})
	if e != nil {
		return 0, -1, -1, e.Error()
	}
	saved := RandInt64n
	defer func() { RandInt64n = saved }()
	var draw int64
	var calls int64
	var badN int64 = -1
	RandInt64n = func(n int64) int64 {
		calls++
		if n != c46aMillion {
			badN = n
		}
		return draw
	}
	firstMatch, firstMiss = -1, -1
	for draw = 0; draw < c46aMillion; draw++ {
		if m.Match("/s/m", nil) {
			count++
			if firstMatch < 0 {
				firstMatch = draw
			}
		} else if firstMiss < 0 {
			firstMiss = draw
		}
	}
	if badN >= 0 {
		return count, firstMatch, firstMiss, fmt.Sprintf("random source asked for [0,%d), not [0,1000000)", badN)
	}
	if calls != c46aMillion {
		return count, firstMatch, firstMiss, fmt.Sprintf("random source consulted %d times for 1000000 matches", calls)
	}
	return count, firstMatch, firstMiss, ""
}

func c46aFractions(r *vk.Run) {
	const P = c46aP
	cases := []c46aFracCase{
		{"fraction", 0, "MILLION"}, {"fraction", 1, "MILLION"}, {"fraction", 500000, "MILLION"}, {"fraction", 999999, "MILLION"}, {"fraction", 1000000, "MILLION"},
		{"fraction", 0, "HUNDRED"}, {"fraction", 1, "TEN_THOUSAND"}, {"fraction", 50, "HUNDRED"},
	}
	if r.Thorough() {
		for _, n := range []uint32{2, 3, 10, 1000, 250000, 999998} {
			cases = append(cases, c46aFracCase{"fraction", n, "MILLION"})
		}
		cases = append(cases, c46aFracCase{"fraction", 99, "HUNDRED"}, c46aFracCase{"fraction", 9999, "TEN_THOUSAND"}, c46aFracCase{"fraction", 100, "HUNDRED"})
	}
	var offByOne []string
	var firstOff *c46aFracCase
	for i := range cases {
		c := cases[i]
		f := c.perMillion()
		count, fm, fmiss, err := c46aFracCount(c)
		r.Eval(P, c46aMillion)
		if f > 0 && f < c46aMillion {
			r.NontrivialN(P, c46aMillion) // both verdicts occur among the draws
		}
		r.Outcome(P, fmt.Sprintf("fraction: f=%d", f))
		switch {
		case err != "":
			r.Violation(P, fmt.Sprintf("fraction f=%d/%s: %s", c.Numerator, c.Denominator, err), err, c)
		case count == f:
			r.Outcome(P, "fraction: matches exactly f draws")
		case count == f+1:
			r.Outcome(P, "fraction: matches f+1 draws")
			miss := fmt.Sprintf("first non-matching draw %d", fmiss)
			if fmiss < 0 {
				miss = "no draw fails to match"
			}
			offByOne = append(offByOne, fmt.Sprintf("%d/%s (=%d per million) matched %d of 1000000 draws (draws 0..%d match, %s)", c.Numerator, c.Denominator, f, count, f, miss))
			if firstOff == nil {
				firstOff = &cases[i]
			}
		default:
			r.Violation(P, fmt.Sprintf("fraction f=%d matched %d draws", f, count), fmt.Sprintf("runtime fraction %d/%s (= %d per million) matched %d of the 1000000 possible draws (first match %d, first miss %d); the property demands exactly %d", c.Numerator, c.Denominator, f, count, fm, fmiss, f), c)
		}
	}
	if firstOff != nil {
		r.Violation(P, c46aKeyFraction, "a runtime fraction of f per million matches f+1 of the 10^6 draws; in particular fraction=0 matches draw 0 (must never match). "+strings.Join(offByOne, "; "), *firstOff)
	}
	r.Set(P, "fraction_values_driven_through_all_draws", len(cases))
	r.Sample(P, map[string]any{"fraction_per_million": 0, "draws": c46aMillion, "expected_matching_draws": 0})
}

// ---------------------------------------------------------------- (C) composite

type c46aPathSpec struct {
	Kind string `json:"kind"` // prefix path regex
	Pat  string `json:"pat"`
	CI   bool   `json:"case_insensitive"`
}

type c46aHdrSpec struct {
	Name string `json:"name"`
	Kind string `json:"kind"` // exact prefix present range sm-exact-ic
	Pat  string `json:"pat"`
	Lo   int64  `json:"lo"`
	Hi   int64  `json:"hi"`
	Flag bool   `json:"present_flag"`
	Inv  bool   `json:"invert"`
}

type c46aRouteSpec struct {
	Path     c46aPathSpec  `json:"path"`
	Hdrs     []c46aHdrSpec `json:"headers"`
	Fraction int64         `json:"fraction"` // -1 = none
}

type c46aCompCase struct {
	Kind   string              `json:"kind"` // "composite"
	Route  c46aRouteSpec       `json:"route"`
	Method string              `json:"method"`
	MD     map[string][]string `json:"md"`
	Draw   int64               `json:"draw"`
}

func c46aEqFold(a, b string, fold bool) bool {
	if fold {
		return c46aFoldStr(a) == c46aFoldStr(b)
	}
	return a == b
}

// c46aRefPath: ASCII-only grammar, so folding ASCII letters is all there is.
func c46aRefPath(p c46aPathSpec, method string) bool {
	switch p.Kind {
	case "prefix":
		return len(method) >= len(p.Pat) && c46aEqFold(method[:len(p.Pat)], p.Pat, p.CI)
	case "path":
		return c46aEqFold(method, p.Pat, p.CI)
	case "regex":
		switch p.Pat {
		case "/s/.*":
			return len(method) >= 3 && method[:3] == "/s/"
		case "/./m":
			return len(method) == 4 && method[0] == '/' && method[2:] == "/m"
		}
	}
	panic("c46aRefPath")
}

func c46aIsDecimal(v string) (int64, bool) {
	s := v
	neg := false
	if len(s) > 0 && (s[0] == '-' || s[0] == '+') {
		neg = s[0] == '-'
		s = s[1:]
	}
	if len(s) == 0 || len(s) > 9 {
		return 0, false
	}
	var n int64
	for i := 0; i < len(s); i++ {
		if s[i] < '0' || s[i] > '9' {
			return 0, false
		}
		n = n*10 + int64(s[i]-'0')
	}
	if neg {
		n = -n
	}
	return n, true
}

func c46aRefHdr(h c46aHdrSpec, md map[string][]string) bool {
	vals, present := md[h.Name]
	if h.Kind == "present" {
		return (present == h.Flag) != h.Inv
	}
	if !present {
		return false
	}
	v := strings.Join(vals, ",")
	var base bool
	switch h.Kind {
	case "exact":
		base = v == h.Pat
	case "prefix":
		base = len(v) >= len(h.Pat) && v[:len(h.Pat)] == h.Pat
	case "sm-exact-ic":
		base = c46aFoldStr(v) == c46aFoldStr(h.Pat)
	case "range":
		n, ok := c46aIsDecimal(v)
		base = ok && n >= h.Lo && n < h.Hi
	default:
		panic("c46aRefHdr")
	}
	return base != h.Inv
}

func c46aRouteMatchProto(rs c46aRouteSpec) *v3routepb.RouteMatch {
	m := &v3routepb.RouteMatch{}
	switch rs.Path.Kind {
	case "prefix":
		m.PathSpecifier = &v3routepb.RouteMatch_Prefix{Prefix: rs.Path.Pat}
	case "path":
		m.PathSpecifier = &v3routepb.RouteMatch_Path{Path: rs.Path.Pat}
	case "regex":
		m.PathSpecifier = &v3routepb.RouteMatch_SafeRegex{SafeRegex: &v3matcherpb.RegexMatcher{Regex: rs.Path.Pat}}
	}
	if rs.Path.CI {
		m.CaseSensitive = wrapperspb.Bool(false)
	}
	for _, h := range rs.Hdrs {
		hm := &v3routepb.HeaderMatcher{Name: h.Name, InvertMatch: h.Inv}
		switch h.Kind {
		case "exact":
			hm.HeaderMatchSpecifier = &v3routepb.HeaderMatcher_ExactMatch{ExactMatch: h.Pat}
		case "prefix":
			hm.HeaderMatchSpecifier = &v3routepb.HeaderMatcher_PrefixMatch{PrefixMatch: h.Pat}
		case "present":
			hm.HeaderMatchSpecifier = &v3routepb.HeaderMatcher_PresentMatch{PresentMatch: h.Flag}
		case "range":
			hm.HeaderMatchSpecifier = &v3routepb.HeaderMatcher_RangeMatch{RangeMatch: &v3typepb.Int64Range{Start: h.Lo, End: h.Hi}}
		case "sm-exact-ic":
			hm.HeaderMatchSpecifier = &v3routepb.HeaderMatcher_StringMatch{StringMatch: &v3matcherpb.StringMatcher{MatchPattern: &v3matcherpb.StringMatcher_Exact{Exact: h.Pat}, IgnoreCase: true}}
		}
		m.Headers = append(m.Headers, hm)
	}
	if rs.Fraction >= 0 {
		m.RuntimeFraction = c46aFraction(uint32(rs.Fraction), "MILLION")
	}
	return m
}

// c46aWithDraw runs f with the random seam pinned to draw.
func c46aWithDraw(draw int64, f func()) (calls int) {
	saved := RandInt64n
	defer func() { RandInt64n = saved }()
	RandInt64n = func(int64) int64 { calls++; return draw }
	f()
	return calls
}

func c46aCompEval(m, fracOnly *CompositeMatcher, c c46aCompCase) (fail string) {
	defer func() {
		if p := recover(); p != nil {
			fail = fmt.Sprintf("panic: %v", p)
		}
	}()
	md := metadata.MD{}
	for k, v := range c.MD {
		md[k] = v
	}
	// verdict of the real fraction matcher alone on this draw (its count over
	// all draws is judged in part (B); here only the conjunction is judged)
	frac := true
	if c.Route.Fraction >= 0 {
		c46aWithDraw(c.Draw, func() { frac = fracOnly.Match("/", nil) })
	}
	want := c46aRefPath(c.Route.Path, c.Method)
	for _, h := range c.Route.Hdrs {
		want = want && c46aRefHdr(h, c.MD)
	}
	want = want && frac
	var got bool
	calls := c46aWithDraw(c.Draw, func() { got = m.Match(c.Method, md) })
	if calls > 1 {
		return fmt.Sprintf("random source consulted %d times in one Match", calls)
	}
	if got != want {
		return fmt.Sprintf("Match=%v, reference path AND headers AND fraction-verdict(%v) = %v", got, frac, want)
	}
	return ""
}

func c46aComposite(r *vk.Run) {
	const P = c46aP
	paths := []c46aPathSpec{
		{"prefix", "", false}, {"prefix", "/s/", false}, {"path", "/s/m", false}, {"regex", "/s/.*", false}, {"regex", "/./m", false},
		{"prefix", "/s/", true}, {"path", "/s/m", true}, {"prefix", "/S/", true}, {"path", "/S/M", false}, {"path", "/S/M", true}, {"prefix", "/S/", false},
	}
	hdrs := [][]c46aHdrSpec{
		nil,
		{{Name: "h", Kind: "exact", Pat: "a"}},
		{{Name: "h", Kind: "exact", Pat: "a", Inv: true}},
		{{Name: "h", Kind: "exact", Pat: "a,a"}},
		{{Name: "h", Kind: "present", Flag: true}},
		{{Name: "h", Kind: "present", Flag: true, Inv: true}},
		{{Name: "h", Kind: "present", Flag: false}},
		{{Name: "h", Kind: "range", Lo: 0, Hi: 10}},
		{{Name: "h", Kind: "range", Lo: 0, Hi: 10, Inv: true}},
		{{Name: "h", Kind: "prefix", Pat: "a"}},
		{{Name: "h", Kind: "sm-exact-ic", Pat: "A"}},
		{{Name: "h", Kind: "exact", Pat: "a"}, {Name: "g", Kind: "present", Flag: true}},
		{{Name: "g", Kind: "present", Flag: true}, {Name: "h", Kind: "exact", Pat: "a", Inv: true}},
	}
	fractions := []int64{-1, 0, 1, 500000, 999999, 1000000}
	methods := []string{"/s/m", "/S/M", "/s/x", "/t/m"}
	mds := []map[string][]string{
		{}, {"h": {"a"}}, {"h": {"A"}}, {"h": {"a", "a"}}, {"h": {"5"}}, {"h": {"10"}}, {"h": {"a"}, "g": {"1"}}, {"g": {"1"}}, {"h": {"ab"}, "g": {"1"}},
	}
	draws := []int64{0, 1, 2, 499999, 500000, 500001, 999998, 999999}
	fracOnly := map[int64]*CompositeMatcher{}
	for _, f := range fractions {
		if f >= 0 {
			m, err := c46aBuild(c46aRouteMatchProto(c46aRouteSpec{Path: c46aPathSpec{"prefix", "", false}, Fraction: f}))
			if err != nil {
				r.EngineError("fraction-only route: %v", err)
				return
			}
			fracOnly[f] = m
		}
	}
	var evals, nontriv int64
	var fails []c46aCompCase
	var failDesc []string
	for _, p := range paths {
		for _, hs := range hdrs {
			for _, f := range fractions {
				rs := c46aRouteSpec{Path: p, Hdrs: hs, Fraction: f}
				m, err := c46aBuild(c46aRouteMatchProto(rs))
				if err != nil {
					r.Violation(P, fmt.Sprintf("route rejected %+v", rs), err.Error(), nil)
					continue
				}
				for _, method := range methods {
					for _, md := range mds {
						ds := draws
						if f < 0 {
							ds = draws[:1]
						}
						for _, d := range ds {
							c := c46aCompCase{Kind: "composite", Route: rs, Method: method, MD: md, Draw: d}
							evals++
							pathOK := c46aRefPath(p, method)
							hdrOK := true
							for _, h := range hs {
								hdrOK = hdrOK && c46aRefHdr(h, md)
							}
							if pathOK && hdrOK {
								nontriv++ // the verdict depends on every component
							}
							if msg := c46aCompEval(m, fracOnly[f], c); msg != "" {
								fails = append(fails, c)
								failDesc = append(failDesc, msg)
							}
						}
					}
				}
			}
		}
	}
	r.Eval(P, evals)
	r.NontrivialN(P, nontriv)
	r.Set(P, "composite_evaluations", evals)
	r.Set(P, "composite_routes", len(paths)*len(hdrs)*len(fractions))
	r.Outcome(P, "composite: evaluated")
	for i, c := range fails {
		if i >= 5 {
			break
		}
		r.Violation(P, fmt.Sprintf("composite route=%+v method=%s md=%v draw=%d", c.Route, c.Method, c.MD, c.Draw), failDesc[i], c)
	}
	if len(fails) > 0 {
		r.Set(P, "composite_failures", len(fails))
	}
	r.Sample(P, map[string]any{"route": "prefix /s/ case_sensitive=false, header h exact a invert, fraction 500000", "rpc": "/S/M h=A", "draw": 499999, "expected": "match"})
}

func TestVerif_C46_XDSResource(t *testing.T) {
	const P = c46aP
	r := vk.Start(t, "c46a_xdsresource", "exploration", P)
	defer r.Finish()
	r.Rule(P, "(A) every authority of {a.b.c, A.B.C, a.b, x.a.b.c} x every ORDERED list of 1..3 virtual hosts each with an ORDERED list of 1..2 domains over the 12-pattern alphabet {exact a.b.c, a.b, A.B.C; suffix *.c, *.b.c, *a.b.c, *.x; prefix a.*, a.b.*, a.b.c*, x.*; universe *} (authority a.b.c is matched by all four types with patterns of lengths 1,3,5,6, others by subsets, x.* and *.x by none; thorough: 2 more authorities, 3 more patterns): 156+156^2+156^3 lists x 4 authorities; oracle = most preferred of ALL matching (vhost,domain) pairs under 'exact > suffix > prefix > universe, longer pattern first within a type, first listed on a full tie'; the two points the sentence leaves open (case sensitivity of domains, whether '*' may be empty) are fixed by ONE reading for the whole run: the code must agree with the reference on every case under at least one of the 4 readings; non-trivial = >=2 matching (vhost,domain) pairs (case-sensitive, '*' may be empty); also counted: cases where the winner is shorter than a matching pattern of a worse type. (B) runtime fractions {0,1,500000,999999,1000000 per million, 0/100, 1/10000, 50/100} each driven through ALL 10^6 values of RandInt64n, oracle = exactly f matching draws; non-trivial = draws of fractions strictly between 0 and 10^6. (C) 11 path matchers x 13 header-matcher lists x 6 fractions built from route protos by routesProtoToSlice+RouteToMatcher x 4 methods x 9 metadata maps x 8 draws, oracle = reference path AND reference headers AND verdict of the real fraction matcher alone on the same draw; non-trivial = path and headers hold so that the fraction decides")

	if f := r.ReplayFile(); f != "" {
		var k struct {
			Kind string `json:"kind"`
		}
		if err := r.LoadReplay(&k); err != nil {
			r.EngineError("replay: %v", err)
			return
		}
		r.Eval(P, 1)
		switch k.Kind {
		case "vhost":
			var c c46aVhostCase
			r.LoadReplay(&c)
			ob := make([]*VirtualHost, len(c.VHosts))
			for i, d := range c.VHosts {
				ob[i] = &VirtualHost{Domains: d}
			}
			got := c46aVhostEval(c.Authority, ob)
			if c.Reading < 0 || c.Reading > 3 {
				c.Reading = 0
			}
			for ri, rd := range c46aReadings {
				ref, n, _ := c46aRefBest(c.Authority, c.VHosts, rd)
				fmt.Printf("replay: vhost got #%d; reference #%d of %d matching domains under reading %d (%s)\n", got, ref, n, ri, rd)
			}
			if ref, _, _ := c46aRefBest(c.Authority, c.VHosts, c46aReadings[c.Reading]); got != ref {
				r.Violation(P, "replay", fmt.Sprintf("got #%d want #%d", got, ref), c)
			}
		case "fraction":
			var c c46aFracCase
			r.LoadReplay(&c)
			count, fm, fmiss, err := c46aFracCount(c)
			fmt.Printf("replay: fraction %d/%s matched %d draws (first match %d, first miss %d) %s\n", c.Numerator, c.Denominator, count, fm, fmiss, err)
			if count != c.perMillion() || err != "" {
				r.Violation(P, "replay", fmt.Sprintf("fraction %d per million matched %d draws", c.perMillion(), count), c)
			}
		case "composite":
			var c c46aCompCase
			r.LoadReplay(&c)
			m, err := c46aBuild(c46aRouteMatchProto(c.Route))
			if err != nil {
				r.EngineError("replay: %v", err)
				return
			}
			var fo *CompositeMatcher
			if c.Route.Fraction >= 0 {
				fo, _ = c46aBuild(c46aRouteMatchProto(c46aRouteSpec{Path: c46aPathSpec{"prefix", "", false}, Fraction: c.Route.Fraction}))
			}
			msg := c46aCompEval(m, fo, c)
			fmt.Printf("replay: composite %q\n", msg)
			if msg != "" {
				r.Violation(P, "replay", msg, c)
			}
		default:
			r.EngineError("replay: unknown kind %q", k.Kind)
		}
		return
	}

	c46aVhost(r)
	c46aFractions(r)
	c46aComposite(r)
	r.Assume(P, "xdsresource leg: RandInt64n is the only random source of the fraction matcher and math/rand/v2.Int64N(10^6) is uniform (trusted). The sentence does not say whether domains compare case-sensitively or whether '*' may stand for the empty string: the code must agree with the reference on EVERY case under one single reading of these two points (4 readings tried; mismatch counts per reading are in the evidence). Invalid domains (empty, '*' in the middle) are outside the grammar. In (C) the fraction verdict for a draw is taken from the real fraction matcher (whose count is judged in (B)), so (C) judges the conjunction only.")
}
