//go:build verif

package xdsresource

// C46 (leg a, package xdsresource):
//
//	(A) FindBestMatchingVirtualHost on every (authority, virtual-host list) of
//	    the grammar against "exact > suffix > prefix > wildcard, longer pattern
//	    first, first listed on a full tie";
//	(B) the runtime-fraction matcher with the RandInt64n seam driven through
//	    ALL 10^6 draws: a fraction of f per million matches exactly f draws;
//	(C) CompositeMatcher (built by routesProtoToSlice + RouteToMatcher from
//	    route protos) = path AND headers AND fraction, on every (route, RPC,
//	    draw) of the grammar.

import (
	"fmt"
	"runtime"
	"sort"
	"strings"
	"sync"
	"testing"

	v3corepb "github.com/envoyproxy/go-control-plane/envoy/config/core/v3"
	v3routepb "github.com/envoyproxy/go-control-plane/envoy/config/route/v3"
	v3matcherpb "github.com/envoyproxy/go-control-plane/envoy/type/matcher/v3"
	v3typepb "github.com/envoyproxy/go-control-plane/envoy/type/v3"
	"google.golang.org/grpc/internal/verif/vk"
	"google.golang.org/grpc/metadata"
	"google.golang.org/protobuf/types/known/wrapperspb"
)

const (
	c46aP           = "C46"
	c46aKeyFraction = "fraction-matches-f+1-draws"
	c46aMillion     = 1000000
)

// ---------------------------------------------------------------- (A) vhost

func c46aFoldStr(s string) string {
	b := []byte(s)
	for i, c := range b {
		if c >= 'A' && c <= 'Z' {
			b[i] = c + ('a' - 'A')
		}
	}
	return string(b)
}

// c46aDomainMatch: pattern kind rank (4 exact, 3 suffix, 2 prefix, 1
// universal) and whether host matches the pattern.
func c46aDomainMatch(d, host string, fold bool) (rank int, ok bool) {
	if fold {
		d, host = c46aFoldStr(d), c46aFoldStr(host)
	}
	switch {
	case d == "*":
		return 1, true
	case len(d) > 0 && d[0] == '*':
		suf := d[1:]
		return 3, len(host) >= len(suf) && host[len(host)-len(suf):] == suf
	case len(d) > 0 && d[len(d)-1] == '*':
		pre := d[:len(d)-1]
		return 2, len(host) >= len(pre) && host[:len(pre)] == pre
	default:
		return 4, d == host
	}
}

// c46aRefBest: brute force - list every matching (vhost, domain), order by
// (kind rank desc, pattern length desc, listing order asc), take the first.
func c46aRefBest(host string, vhs [][]string, fold bool) int {
	type cand struct{ rank, plen, order, vh int }
	var cs []cand
	order := 0
	for i, doms := range vhs {
		for _, d := range doms {
			if rank, ok := c46aDomainMatch(d, host, fold); ok {
				cs = append(cs, cand{rank, len(d), order, i})
			}
			order++
		}
	}
	if len(cs) == 0 {
		return -1
	}
	sort.Slice(cs, func(a, b int) bool {
		if cs[a].rank != cs[b].rank {
			return cs[a].rank > cs[b].rank
		}
		if cs[a].plen != cs[b].plen {
			return cs[a].plen > cs[b].plen
		}
		return cs[a].order < cs[b].order
	})
	return cs[0].vh
}

type c46aVhostCase struct {
	Kind      string     `json:"kind"` // "vhost"
	Authority string     `json:"authority"`
	VHosts    [][]string `json:"vhosts"`
}

// c46aVhostEval runs the real function; returns index of the chosen vhost (-1
// none, -2 panic).
func c46aVhostEval(host string, objs []*VirtualHost) (idx int) {
	defer func() {
		if recover() != nil {
			idx = -2
		}
	}()
	got := FindBestMatchingVirtualHost(host, objs)
	if got == nil {
		return -1
	}
	for i, o := range objs {
		if o == got {
			return i
		}
	}
	return -3
}

func c46aVhostSize(c c46aVhostCase) int {
	n := 0
	for _, v := range c.VHosts {
		n += 1 + len(v)
	}
	return n
}

func c46aVhostOrd(c c46aVhostCase) string {
	return fmt.Sprintf("%03d|%q|%q", c46aVhostSize(c), c.Authority, c.VHosts)
}

// c46aVhostTrim keeps the 3 smallest failures of st, sorted.
func c46aVhostTrim(st *c46aVhostStats) {
	idx := make([]int, len(st.fails))
	for i := range idx {
		idx[i] = i
	}
	sort.Slice(idx, func(a, b int) bool { return c46aVhostOrd(st.fails[idx[a]]) < c46aVhostOrd(st.fails[idx[b]]) })
	if len(idx) > 3 {
		idx = idx[:3]
	}
	f := make([]c46aVhostCase, len(idx))
	d := make([]string, len(idx))
	for i, j := range idx {
		f[i], d[i] = st.fails[j], st.failDesc[j]
	}
	st.fails, st.failDesc = f, d
}

type c46aVhostStats struct {
	evals, nontriv            int64
	ambiguous, tookCS, tookCI int64
	nfail                     int64
	outcomes                  map[string]int64
	fails                     []c46aVhostCase
	failDesc                  []string
}

func c46aVhost(r *vk.Run) {
	const P = c46aP
	authorities := []string{"a.b", "x.a.b", "a.b.c", "ab", ""}
	domains := []string{"a.b", "*.a.b", "*.b", "a.*", "a.b.*", "*", "A.B"}
	if r.Thorough() {
		authorities = append(authorities, "A.B", "x.y.a.b")
		domains = append(domains, "x.a.b", "*b", "*.y.a.b")
	}
	// domain lists per vhost: 0, 1 or 2 domains (ordered)
	lists := [][]string{{}}
	for _, d := range domains {
		lists = append(lists, []string{d})
	}
	for _, d := range domains {
		for _, e := range domains {
			lists = append(lists, []string{d, e})
		}
	}
	nl := len(lists)
	// distinct VirtualHost objects per position so that the returned pointer
	// identifies the position
	objs := make([][]*VirtualHost, 3)
	for p := 0; p < 3; p++ {
		objs[p] = make([]*VirtualHost, nl)
		for i, l := range lists {
			objs[p][i] = &VirtualHost{Domains: l}
		}
	}
	// work items: first index a in [0,nl) plus the special item -1 for the
	// configs with 0 and 1 vhosts... simpler: enumerate (n, a, b, c).
	type item struct{ n, a int }
	var items []item
	items = append(items, item{0, 0})
	for a := 0; a < nl; a++ {
		items = append(items, item{1, a}, item{2, a}, item{3, a})
	}
	var mu sync.Mutex
	total := c46aVhostStats{outcomes: map[string]int64{}}
	var wg sync.WaitGroup
	var next int
	var nmu sync.Mutex
	for w := 0; w < runtime.GOMAXPROCS(0); w++ {
		wg.Add(1)
		go func() {
			defer wg.Done()
			st := c46aVhostStats{outcomes: map[string]int64{}}
			var octr [8]int64
			check := func(idx []int) {
				vhs := make([][]string, len(idx))
				ob := make([]*VirtualHost, len(idx))
				for p, i := range idx {
					vhs[p] = lists[i]
					ob[p] = objs[p][i]
				}
				for _, host := range authorities {
					cs := c46aRefBest(host, vhs, false)
					ci := c46aRefBest(host, vhs, true)
					got := c46aVhostEval(host, ob)
					st.evals++
					// non-trivial: at least two (vhost, domain) candidates match
					nm := 0
					for _, doms := range vhs {
						for _, d := range doms {
							if _, ok := c46aDomainMatch(d, host, false); ok {
								nm++
							}
						}
					}
					if nm >= 2 {
						st.nontriv++
					}
					if cs != ci {
						st.ambiguous++
						if got == cs {
							st.tookCS++
						} else if got == ci {
							st.tookCI++
						}
					}
					switch {
					case got == cs && cs == -1:
						octr[0]++
					case got == cs && nm >= 2:
						octr[1]++
					case got == cs:
						octr[2]++
					case got == ci:
						octr[3]++
					}
					if got != cs && got != ci {
						octr[4]++
						// keep the 3 smallest failing configurations (deterministic
						// whatever the goroutine interleaving)
						size := 0
						for _, v := range vhs {
							size += 1 + len(v)
						}
						if len(st.fails) < 3 || size <= c46aVhostSize(st.fails[len(st.fails)-1]) {
							st.fails = append(st.fails, c46aVhostCase{Kind: "vhost", Authority: host, VHosts: vhs})
							st.failDesc = append(st.failDesc, fmt.Sprintf("got vhost #%d, reference (case-sensitive) #%d, (ASCII-case-insensitive) #%d", got, cs, ci))
							c46aVhostTrim(&st)
						}
					}
				}
			}
			for {
				nmu.Lock()
				i := next
				next++
				nmu.Unlock()
				if i >= len(items) {
					break
				}
				it := items[i]
				switch it.n {
				case 0:
					check(nil)
				case 1:
					check([]int{it.a})
				case 2:
					for b := 0; b < nl; b++ {
						check([]int{it.a, b})
					}
				case 3:
					for b := 0; b < nl; b++ {
						for c := 0; c < nl; c++ {
							check([]int{it.a, b, c})
						}
					}
				}
			}
			names := []string{"vhost: none matches", "vhost: best of >=2 matching domains", "vhost: single matching domain", "vhost: case-insensitive reading taken", "vhost: MISMATCH"}
			mu.Lock()
			total.evals += st.evals
			total.nontriv += st.nontriv
			total.ambiguous += st.ambiguous
			total.tookCS += st.tookCS
			total.tookCI += st.tookCI
			for i, n := range names {
				if octr[i] > 0 {
					total.outcomes[n] += octr[i]
				}
			}
			total.fails = append(total.fails, st.fails...)
			total.failDesc = append(total.failDesc, st.failDesc...)
			total.nfail += octr[4]
			mu.Unlock()
		}()
	}
	wg.Wait()
	r.Eval(P, total.evals)
	r.NontrivialN(P, total.nontriv)
	r.Set(P, "vhost_evaluations", total.evals)
	r.Set(P, "vhost_domain_lists_per_vhost", nl)
	r.Set(P, "vhost_cases_where_case_readings_differ", total.ambiguous)
	r.Set(P, "vhost_case_sensitive_reading_taken", total.tookCS)
	r.Set(P, "vhost_case_insensitive_reading_taken", total.tookCI)
	for k := range total.outcomes {
		r.Outcome(P, k)
	}
	r.Set(P, "vhost_outcome_counts", total.outcomes)
	if total.tookCS > 0 && total.tookCI > 0 {
		r.Violation(P, "vhost-domain-case-handling-inconsistent", fmt.Sprintf("where case-sensitive and case-insensitive domain matching differ the code took the case-sensitive answer %d times and the case-insensitive one %d times", total.tookCS, total.tookCI), nil)
	}
	// report the smallest failing configurations (deterministic order)
	type fd struct {
		c c46aVhostCase
		d string
		k string
	}
	var fds []fd
	for i, c := range total.fails {
		fds = append(fds, fd{c, total.failDesc[i], c46aVhostOrd(c)})
	}
	sort.Slice(fds, func(i, j int) bool { return fds[i].k < fds[j].k })
	for i, f := range fds {
		if i >= 3 {
			break
		}
		r.Violation(P, fmt.Sprintf("vhost authority=%q domains=%q", f.c.Authority, f.c.VHosts), fmt.Sprintf("FindBestMatchingVirtualHost(%q, %q): %s (%d failing configurations in total)", f.c.Authority, f.c.VHosts, f.d, total.nfail), f.c)
	}
	r.Sample(P, map[string]any{"authority": "x.a.b", "vhosts": [][]string{{"*.b"}, {"*", "*.a.b"}, {"*.a.b"}}, "expected_vhost": 1, "why": "suffix beats universal, longer suffix first, first listed on the full tie"})
}

// ---------------------------------------------------------------- (B) fraction

type c46aFracCase struct {
	Kind        string `json:"kind"` // "fraction"
	Numerator   uint32 `json:"numerator"`
	Denominator string `json:"denominator"` // HUNDRED TEN_THOUSAND MILLION
}

func (c c46aFracCase) perMillion() int64 {
	switch c.Denominator {
	case "HUNDRED":
		return int64(c.Numerator) * 10000
	case "TEN_THOUSAND":
		return int64(c.Numerator) * 100
	}
	return int64(c.Numerator)
}

func c46aRouteProto(match *v3routepb.RouteMatch) *v3routepb.Route {
	return &v3routepb.Route{Match: match, Action: &v3routepb.Route_Route{Route: &v3routepb.RouteAction{ClusterSpecifier: &v3routepb.RouteAction_Cluster{Cluster: "c"}}}}
}

func c46aFraction(num uint32, den string) *v3corepb.RuntimeFractionalPercent {
	d := v3typepb.FractionalPercent_MILLION
	switch den {
	case "HUNDRED":
		d = v3typepb.FractionalPercent_HUNDRED
	case "TEN_THOUSAND":
		d = v3typepb.FractionalPercent_TEN_THOUSAND
	}
	return &v3corepb.RuntimeFractionalPercent{DefaultValue: &v3typepb.FractionalPercent{Numerator: num, Denominator: d}}
}

func c46aBuild(match *v3routepb.RouteMatch) (*CompositeMatcher, error) {
	routes, _, err := routesProtoToSlice([]*v3routepb.Route{c46aRouteProto(match)}, nil, nil, nil)
	if err != nil {
		return nil, err
	}
	if len(routes) != 1 {
		return nil, fmt.Errorf("routesProtoToSlice returned %d routes", len(routes))
	}
	return RouteToMatcher(routes[0]), nil
}

// c46aFracCount drives the random seam through all 10^6 draws for a route that
// matches every path and has only the runtime fraction; returns how many draws
// match, the smallest matching draw and the smallest non-matching draw.
func c46aFracCount(c c46aFracCase) (count int64, firstMatch, firstMiss int64, err string) {
	m, e := c46aBuild(&v3routepb.RouteMatch{PathSpecifier: &v3routepb.RouteMatch_Prefix{Prefix: ""}, RuntimeFraction: c46aFraction(c.Numerator, c.Denominator)})
	if e != nil {
		return 0, -1, -1, e.Error()
	}
	saved := RandInt64n
	defer func() { RandInt64n = saved }()
	var draw int64
	var calls int64
	var badN int64 = -1
	RandInt64n = func(n int64) int64 {
		calls++
		if n != c46aMillion {
			badN = n
		}
		return draw
	}
	firstMatch, firstMiss = -1, -1
	for draw = 0; draw < c46aMillion; draw++ {
		if m.Match("/s/m", nil) {
			count++
			if firstMatch < 0 {
				firstMatch = draw
			}
		} else if firstMiss < 0 {
			firstMiss = draw
		}
	}
	if badN >= 0 {
		return count, firstMatch, firstMiss, fmt.Sprintf("random source asked for [0,%d), not [0,1000000)", badN)
	}
	if calls != c46aMillion {
		return count, firstMatch, firstMiss, fmt.Sprintf("random source consulted %d times for 1000000 matches", calls)
	}
	return count, firstMatch, firstMiss, ""
}

func c46aFractions(r *vk.Run) {
	const P = c46aP
	cases := []c46aFracCase{
		{"fraction", 0, "MILLION"}, {"fraction", 1, "MILLION"}, {"fraction", 500000, "MILLION"}, {"fraction", 999999, "MILLION"}, {"fraction", 1000000, "MILLION"},
		{"fraction", 0, "HUNDRED"}, {"fraction", 1, "TEN_THOUSAND"}, {"fraction", 50, "HUNDRED"},
	}
	if r.Thorough() {
		for _, n := range []uint32{2, 3, 10, 1000, 250000, 999998} {
			cases = append(cases, c46aFracCase{"fraction", n, "MILLION"})
		}
		cases = append(cases, c46aFracCase{"fraction", 99, "HUNDRED"}, c46aFracCase{"fraction", 9999, "TEN_THOUSAND"}, c46aFracCase{"fraction", 100, "HUNDRED"})
	}
	var offByOne []string
	var firstOff *c46aFracCase
	for i := range cases {
		c := cases[i]
		f := c.perMillion()
		count, fm, fmiss, err := c46aFracCount(c)
		r.Eval(P, c46aMillion)
		if f > 0 && f < c46aMillion {
			r.NontrivialN(P, c46aMillion) // both verdicts occur among the draws
		}
		r.Outcome(P, fmt.Sprintf("fraction: f=%d", f))
		switch {
		case err != "":
			r.Violation(P, fmt.Sprintf("fraction f=%d/%s: %s", c.Numerator, c.Denominator, err), err, c)
		case count == f:
			r.Outcome(P, "fraction: matches exactly f draws")
		case count == f+1:
			r.Outcome(P, "fraction: matches f+1 draws")
			miss := fmt.Sprintf("first non-matching draw %d", fmiss)
			if fmiss < 0 {
				miss = "no draw fails to match"
			}
			offByOne = append(offByOne, fmt.Sprintf("%d/%s (=%d per million) matched %d of 1000000 draws (draws 0..%d match, %s)", c.Numerator, c.Denominator, f, count, f, miss))
			if firstOff == nil {
				firstOff = &cases[i]
			}
		default:
			r.Violation(P, fmt.Sprintf("fraction f=%d matched %d draws", f, count), fmt.Sprintf("runtime fraction %d/%s (= %d per million) matched %d of the 1000000 possible draws (first match %d, first miss %d); the property demands exactly %d", c.Numerator, c.Denominator, f, count, fm, fmiss, f), c)
		}
	}
	if firstOff != nil {
		r.Violation(P, c46aKeyFraction, "a runtime fraction of f per million matches f+1 of the 10^6 draws; in particular fraction=0 matches draw 0 (must never match). "+strings.Join(offByOne, "; "), *firstOff)
	}
	r.Set(P, "fraction_values_driven_through_all_draws", len(cases))
	r.Sample(P, map[string]any{"fraction_per_million": 0, "draws": c46aMillion, "expected_matching_draws": 0})
}

// ---------------------------------------------------------------- (C) composite

type c46aPathSpec struct {
	Kind string `json:"kind"` // prefix path regex
	Pat  string `json:"pat"`
	CI   bool   `json:"case_insensitive"`
}

type c46aHdrSpec struct {
	Name string `json:"name"`
	Kind string `json:"kind"` // exact prefix present range sm-exact-ic
	Pat  string `json:"pat"`
	Lo   int64  `json:"lo"`
	Hi   int64  `json:"hi"`
	Flag bool   `json:"present_flag"`
	Inv  bool   `json:"invert"`
}

type c46aRouteSpec struct {
	Path     c46aPathSpec  `json:"path"`
	Hdrs     []c46aHdrSpec `json:"headers"`
	Fraction int64         `json:"fraction"` // -1 = none
}

type c46aCompCase struct {
	Kind   string              `json:"kind"` // "composite"
	Route  c46aRouteSpec       `json:"route"`
	Method string              `json:"method"`
	MD     map[string][]string `json:"md"`
	Draw   int64               `json:"draw"`
}

func c46aEqFold(a, b string, fold bool) bool {
	if fold {
		return c46aFoldStr(a) == c46aFoldStr(b)
	}
	return a == b
}

// c46aRefPath: ASCII-only grammar, so folding ASCII letters is all there is.
func c46aRefPath(p c46aPathSpec, method string) bool {
	switch p.Kind {
	case "prefix":
		return len(method) >= len(p.Pat) && c46aEqFold(method[:len(p.Pat)], p.Pat, p.CI)
	case "path":
		return c46aEqFold(method, p.Pat, p.CI)
	case "regex":
		switch p.Pat {
		case "/s/.*":
			return len(method) >= 3 && method[:3] == "/s/"
		case "/./m":
			return len(method) == 4 && method[0] == '/' && method[2:] == "/m"
		}
	}
	panic("c46aRefPath")
}

func c46aIsDecimal(v string) (int64, bool) {
	s := v
	neg := false
	if len(s) > 0 && (s[0] == '-' || s[0] == '+') {
		neg = s[0] == '-'
		s = s[1:]
	}
	if len(s) == 0 || len(s) > 9 {
		return 0, false
	}
	var n int64
	for i := 0; i < len(s); i++ {
		if s[i] < '0' || s[i] > '9' {
			return 0, false
		}
		n = n*10 + int64(s[i]-'0')
	}
	if neg {
		n = -n
	}
	return n, true
}

func c46aRefHdr(h c46aHdrSpec, md map[string][]string) bool {
	vals, present := md[h.Name]
	if h.Kind == "present" {
		return (present == h.Flag) != h.Inv
	}
	if !present {
		return false
	}
	v := strings.Join(vals, ",")
	var base bool
	switch h.Kind {
	case "exact":
		base = v == h.Pat
	case "prefix":
		base = len(v) >= len(h.Pat) && v[:len(h.Pat)] == h.Pat
	case "sm-exact-ic":
		base = c46aFoldStr(v) == c46aFoldStr(h.Pat)
	case "range":
		n, ok := c46aIsDecimal(v)
		base = ok && n >= h.Lo && n < h.Hi
	default:
		panic("c46aRefHdr")
	}
	return base != h.Inv
}

func c46aRouteMatchProto(rs c46aRouteSpec) *v3routepb.RouteMatch {
	m := &v3routepb.RouteMatch{}
	switch rs.Path.Kind {
	case "prefix":
		m.PathSpecifier = &v3routepb.RouteMatch_Prefix{Prefix: rs.Path.Pat}
	case "path":
		m.PathSpecifier = &v3routepb.RouteMatch_Path{Path: rs.Path.Pat}
	case "regex":
		m.PathSpecifier = &v3routepb.RouteMatch_SafeRegex{SafeRegex: &v3matcherpb.RegexMatcher{Regex: rs.Path.Pat}}
	}
	if rs.Path.CI {
		m.CaseSensitive = wrapperspb.Bool(false)
	}
	for _, h := range rs.Hdrs {
		hm := &v3routepb.HeaderMatcher{Name: h.Name, InvertMatch: h.Inv}
		switch h.Kind {
		case "exact":
			hm.HeaderMatchSpecifier = &v3routepb.HeaderMatcher_ExactMatch{ExactMatch: h.Pat}
		case "prefix":
			hm.HeaderMatchSpecifier = &v3routepb.HeaderMatcher_PrefixMatch{PrefixMatch: h.Pat}
		case "present":
			hm.HeaderMatchSpecifier = &v3routepb.HeaderMatcher_PresentMatch{PresentMatch: h.Flag}
		case "range":
			hm.HeaderMatchSpecifier = &v3routepb.HeaderMatcher_RangeMatch{RangeMatch: &v3typepb.Int64Range{Start: h.Lo, End: h.Hi}}
		case "sm-exact-ic":
			hm.HeaderMatchSpecifier = &v3routepb.HeaderMatcher_StringMatch{StringMatch: &v3matcherpb.StringMatcher{MatchPattern: &v3matcherpb.StringMatcher_Exact{Exact: h.Pat}, IgnoreCase: true}}
		}
		m.Headers = append(m.Headers, hm)
	}
	if rs.Fraction >= 0 {
		m.RuntimeFraction = c46aFraction(uint32(rs.Fraction), "MILLION")
	}
	return m
}

// c46aWithDraw runs f with the random seam pinned to draw.
func c46aWithDraw(draw int64, f func()) (calls int) {
	saved := RandInt64n
	defer func() { RandInt64n = saved }()
	RandInt64n = func(int64) int64 { calls++; return draw }
	f()
	return calls
}

func c46aCompEval(m, fracOnly *CompositeMatcher, c c46aCompCase) (fail string) {
	defer func() {
		if p := recover(); p != nil {
			fail = fmt.Sprintf("panic: %v", p)
		}
	}()
	md := metadata.MD{}
	for k, v := range c.MD {
		md[k] = v
	}
	// verdict of the real fraction matcher alone on this draw (its count over
	// all draws is judged in part (B); here only the conjunction is judged)
	frac := true
	if c.Route.Fraction >= 0 {
		c46aWithDraw(c.Draw, func() { frac = fracOnly.Match("/", nil) })
	}
	want := c46aRefPath(c.Route.Path, c.Method)
	for _, h := range c.Route.Hdrs {
		want = want && c46aRefHdr(h, c.MD)
	}
	want = want && frac
	var got bool
	calls := c46aWithDraw(c.Draw, func() { got = m.Match(c.Method, md) })
	if calls > 1 {
		return fmt.Sprintf("random source consulted %d times in one Match", calls)
	}
	if got != want {
		return fmt.Sprintf("Match=%v, reference path AND headers AND fraction-verdict(%v) = %v", got, frac, want)
	}
	return ""
}

func c46aComposite(r *vk.Run) {
	const P = c46aP
	paths := []c46aPathSpec{
		{"prefix", "", false}, {"prefix", "/s/", false}, {"path", "/s/m", false}, {"regex", "/s/.*", false}, {"regex", "/./m", false},
		{"prefix", "/s/", true}, {"path", "/s/m", true}, {"prefix", "/S/", true}, {"path", "/S/M", false}, {"path", "/S/M", true}, {"prefix", "/S/", false},
	}
	hdrs := [][]c46aHdrSpec{
		nil,
		{{Name: "h", Kind: "exact", Pat: "a"}},
		{{Name: "h", Kind: "exact", Pat: "a", Inv: true}},
		{{Name: "h", Kind: "exact", Pat: "a,a"}},
		{{Name: "h", Kind: "present", Flag: true}},
		{{Name: "h", Kind: "present", Flag: true, Inv: true}},
		{{Name: "h", Kind: "present", Flag: false}},
		{{Name: "h", Kind: "range", Lo: 0, Hi: 10}},
		{{Name: "h", Kind: "range", Lo: 0, Hi: 10, Inv: true}},
		{{Name: "h", Kind: "prefix", Pat: "a"}},
		{{Name: "h", Kind: "sm-exact-ic", Pat: "A"}},
		{{Name: "h", Kind: "exact", Pat: "a"}, {Name: "g", Kind: "present", Flag: true}},
		{{Name: "g", Kind: "present", Flag: true}, {Name: "h", Kind: "exact", Pat: "a", Inv: true}},
	}
	fractions := []int64{-1, 0, 1, 500000, 999999, 1000000}
	methods := []string{"/s/m", "/S/M", "/s/x", "/t/m"}
	mds := []map[string][]string{
		{}, {"h": {"a"}}, {"h": {"A"}}, {"h": {"a", "a"}}, {"h": {"5"}}, {"h": {"10"}}, {"h": {"a"}, "g": {"1"}}, {"g": {"1"}}, {"h": {"ab"}, "g": {"1"}},
	}
	draws := []int64{0, 1, 2, 499999, 500000, 500001, 999998, 999999}
	fracOnly := map[int64]*CompositeMatcher{}
	for _, f := range fractions {
		if f >= 0 {
			m, err := c46aBuild(c46aRouteMatchProto(c46aRouteSpec{Path: c46aPathSpec{"prefix", "", false}, Fraction: f}))
			if err != nil {
				r.EngineError("fraction-only route: %v", err)
				return
			}
			fracOnly[f] = m
		}
	}
	var evals, nontriv int64
	var fails []c46aCompCase
	var failDesc []string
	for _, p := range paths {
		for _, hs := range hdrs {
			for _, f := range fractions {
				rs := c46aRouteSpec{Path: p, Hdrs: hs, Fraction: f}
				m, err := c46aBuild(c46aRouteMatchProto(rs))
				if err != nil {
					r.Violation(P, fmt.Sprintf("route rejected %+v", rs), err.Error(), nil)
					continue
				}
				for _, method := range methods {
					for _, md := range mds {
						ds := draws
						if f < 0 {
							ds = draws[:1]
						}
						for _, d := range ds {
							c := c46aCompCase{Kind: "composite", Route: rs, Method: method, MD: md, Draw: d}
							evals++
							pathOK := c46aRefPath(p, method)
							hdrOK := true
							for _, h := range hs {
								hdrOK = hdrOK && c46aRefHdr(h, md)
							}
							if pathOK && hdrOK {
								nontriv++ // the verdict depends on every component
							}
							if msg := c46aCompEval(m, fracOnly[f], c); msg != "" {
								fails = append(fails, c)
								failDesc = append(failDesc, msg)
							}
						}
					}
				}
			}
		}
	}
	r.Eval(P, evals)
	r.NontrivialN(P, nontriv)
	r.Set(P, "composite_evaluations", evals)
	r.Set(P, "composite_routes", len(paths)*len(hdrs)*len(fractions))
	r.Outcome(P, "composite: evaluated")
	for i, c := range fails {
		if i >= 5 {
			break
		}
		r.Violation(P, fmt.Sprintf("composite route=%+v method=%s md=%v draw=%d", c.Route, c.Method, c.MD, c.Draw), failDesc[i], c)
	}
	if len(fails) > 0 {
		r.Set(P, "composite_failures", len(fails))
	}
	r.Sample(P, map[string]any{"route": "prefix /s/ case_sensitive=false, header h exact a invert, fraction 500000", "rpc": "/S/M h=A", "draw": 499999, "expected": "match"})
}

func TestVerif_C46_XDSResource(t *testing.T) {
	const P = c46aP
	r := vk.Start(t, "c46a_xdsresource", "exploration", P)
	defer r.Finish()
	r.Rule(P, "(A) every authority of {a.b,x.a.b,a.b.c,ab,\"\"} x every list of <=3 virtual hosts each with 0..2 ordered domains over {a.b,*.a.b,*.b,a.*,a.b.*,*,A.B} (thorough: 2 more authorities, 3 more domains), oracle = brute-force best of all matching (vhost,domain) by (exact>suffix>prefix>universal, longer pattern, first listed); a case where case-sensitive and ASCII-case-insensitive domain comparison differ accepts either; non-trivial = >=2 matching domains. (B) runtime fractions {0,1,500000,999999,1000000 per million, 0/100, 1/10000, 50/100} each driven through ALL 10^6 values of RandInt64n, oracle = exactly f matching draws; non-trivial = draws of fractions strictly between 0 and 10^6. (C) 11 path matchers x 13 header-matcher lists x 6 fractions built from route protos by routesProtoToSlice+RouteToMatcher x 4 methods x 9 metadata maps x 8 draws, oracle = reference path AND reference headers AND verdict of the real fraction matcher alone on the same draw; non-trivial = path and headers hold so that the fraction decides")

	if f := r.ReplayFile(); f != "" {
		var k struct {
			Kind string `json:"kind"`
		}
		if err := r.LoadReplay(&k); err != nil {
			r.EngineError("replay: %v", err)
			return
		}
		r.Eval(P, 1)
		switch k.Kind {
		case "vhost":
			var c c46aVhostCase
			r.LoadReplay(&c)
			ob := make([]*VirtualHost, len(c.VHosts))
			for i, d := range c.VHosts {
				ob[i] = &VirtualHost{Domains: d}
			}
			got, cs, ci := c46aVhostEval(c.Authority, ob), c46aRefBest(c.Authority, c.VHosts, false), c46aRefBest(c.Authority, c.VHosts, true)
			fmt.Printf("replay: vhost got #%d reference #%d (case-insensitive #%d)\n", got, cs, ci)
			if got != cs && got != ci {
				r.Violation(P, "replay", fmt.Sprintf("got #%d want #%d", got, cs), c)
			}
		case "fraction":
			var c c46aFracCase
			r.LoadReplay(&c)
			count, fm, fmiss, err := c46aFracCount(c)
			fmt.Printf("replay: fraction %d/%s matched %d draws (first match %d, first miss %d) %s\n", c.Numerator, c.Denominator, count, fm, fmiss, err)
			if count != c.perMillion() || err != "" {
				r.Violation(P, "replay", fmt.Sprintf("fraction %d per million matched %d draws", c.perMillion(), count), c)
			}
		case "composite":
			var c c46aCompCase
			r.LoadReplay(&c)
			m, err := c46aBuild(c46aRouteMatchProto(c.Route))
			if err != nil {
				r.EngineError("replay: %v", err)
				return
			}
			var fo *CompositeMatcher
			if c.Route.Fraction >= 0 {
				fo, _ = c46aBuild(c46aRouteMatchProto(c46aRouteSpec{Path: c46aPathSpec{"prefix", "", false}, Fraction: c.Route.Fraction}))
			}
			msg := c46aCompEval(m, fo, c)
			fmt.Printf("replay: composite %q\n", msg)
			if msg != "" {
				r.Violation(P, "replay", msg, c)
			}
		default:
			r.EngineError("replay: unknown kind %q", k.Kind)
		}
		return
	}

	c46aVhost(r)
	c46aFractions(r)
	c46aComposite(r)
	r.Assume(P, "xdsresource leg: RandInt64n is the only random source of the fraction matcher and math/rand/v2.Int64N(10^6) is uniform (trusted). Domain patterns are compared case-sensitively OR ASCII-case-insensitively (the sentence does not say; either is accepted, consistently). Invalid domains (empty, '*' in the middle) are outside the grammar. In (C) the fraction verdict for a draw is taken from the real fraction matcher (whose count is judged in (B)), so (C) judges the conjunction only.")
}
