//go:build verif

package gzip

// C06, interleaved codec sessions on the registered gzip compressor.
//
// Every receive/send of a compressed message is one "session" on the
// registered encoding.Compressor: Decompress(r) -> Read... -> Close, or
// Compress(w) -> Write... -> Close, exactly as grpc.decompress()/compress() use
// it. Sessions of different streams overlap in time and share the compressor's
// sync.Pools. E2 (seqx): explicit-state BFS over ALL interleavings of the ops of
// 2-3 concurrently open sessions up to a depth bound, on the REAL registered
// compressor, single goroutine, GOMAXPROCS=1, GC only between histories (so the
// pools behave deterministically), starting from empty pools ("fresh") and after
// completed sessions whose objects were recycled ("warm").
//
// Oracle (property text): every session's output is exactly its own message,
// no error on valid input, no panic; and an object handed out by the pool is
// never held by two open sessions at once (pointer identity of *reader/*writer
// and of the embedded compress/gzip objects).
// The state key contains the harness' model of every session AND the real pool
// contents (drained at the end of each history, canonical object numbering).

import (
	"bytes"
	stdgzip "compress/gzip"
	"fmt"
	"io"
	"runtime"
	"runtime/debug"
	"strings"
	"sync"
	"testing"

	"google.golang.org/grpc/encoding"
	"google.golang.org/grpc/internal/verif/seqx"
	"google.golang.org/grpc/internal/verif/vk"
)

const c06cP = "C06"

// c06cMsg returns the message of slot i, kind k (0: 3 bytes, 1: 70000 bytes,
// 2: the 6000-byte message a compress session sends); distinct for every (i,k).
var c06cMsgCache = map[[2]int][]byte{}

func c06cMsg(i, k int) []byte {
	if b, ok := c06cMsgCache[[2]int{i, k}]; ok {
		return b
	}
	b := c06cMakeMsg(i, k)
	c06cMsgCache[[2]int{i, k}] = b
	return b
}

func c06cMakeMsg(i, k int) []byte {
	n := []int{3, 70000, 6000}[k]
	b := make([]byte, n)
	x := uint32(i*7+k+1)*2654435761 + 1
	for j := range b {
		x = x*1664525 + 1013904223
		b[j] = byte('a'+i*3+k) ^ byte(x>>28) // moderately compressible
	}
	return b
}

func c06cStdGzip(p []byte) []byte {
	var b bytes.Buffer
	zw := stdgzip.NewWriter(&b)
	zw.Write(p)
	zw.Close()
	return b.Bytes()
}

func c06cStdGunzip(z []byte) ([]byte, error) {
	zr, err := stdgzip.NewReader(bytes.NewReader(z))
	if err != nil {
		return nil, err
	}
	return io.ReadAll(zr)
}

const (
	c06cIdle = iota
	c06cDec
	c06cCom
)

type c06cSlot struct {
	state    int
	kind     int       // message kind of a decompress session
	rd       io.Reader // object handed out by Decompress
	wr       io.WriteCloser
	got      []byte // bytes read so far (decompress)
	eof      bool
	partial  int // partial reads/writes done
	written  int // bytes written so far (compress)
	out      *bytes.Buffer
	doneDec  int // completed sessions (capped in the key)
	doneCom  int
	earlyDec int // sessions closed before EOF
}

type c06cWorld struct {
	c      *compressor
	nslots int
	slots  []c06cSlot
	seen   map[any]bool // every object ever handed out in this history
	fails  []seqx.Fail
	reuse  bool
}

var c06cSavedNew func() any

// c06cDrain empties a pool on this P and returns its contents in Get order.
func c06cDrain(p *sync.Pool) []any {
	nw := p.New
	p.New = nil
	var out []any
	for {
		x := p.Get()
		if x == nil {
			break
		}
		out = append(out, x)
	}
	p.New = nw
	return out
}

func (w *c06cWorld) fail(key, format string, a ...any) {
	w.fails = append(w.fails, seqx.Fail{Prop: c06cP, Key: key, Desc: fmt.Sprintf(format, a...)})
}

// inner returns the embedded compress/gzip object of a handed-out reader/writer.
func c06cInner(x any) any {
	switch v := x.(type) {
	case *reader:
		return v.Reader
	case *writer:
		return v.Writer
	}
	return nil
}

// checkShared is the structural oracle: no object is held by two open sessions.
func (w *c06cWorld) checkShared(i int) {
	var mine any
	if w.slots[i].state == c06cDec {
		mine = w.slots[i].rd
	} else {
		mine = w.slots[i].wr
	}
	for j := range w.slots {
		if j == i || w.slots[j].state == c06cIdle {
			continue
		}
		var other any
		if w.slots[j].state == c06cDec {
			other = w.slots[j].rd
		} else {
			other = w.slots[j].wr
		}
		if mine == other || c06cInner(mine) != nil && c06cInner(mine) == c06cInner(other) {
			w.fail("object-shared-by-open-sessions", "session %d was handed a %T which open session %d still holds (not closed yet)", i, mine, j)
		}
	}
	if w.seen[mine] {
		w.reuse = true
	}
	w.seen[mine] = true
}

func (w *c06cWorld) dopen(i, kind int) {
	s := &w.slots[i]
	z := c06cZ[[2]int{i, kind}]
	rd, err := w.c.Decompress(bytes.NewReader(z))
	if err != nil {
		w.fail("error-on-valid-input", "session %d: Decompress of a valid gzip stream failed: %v", i, err)
		return
	}
	*s = c06cSlot{state: c06cDec, kind: kind, rd: rd, doneDec: s.doneDec, doneCom: s.doneCom, earlyDec: s.earlyDec}
	w.checkShared(i)
}

func (w *c06cWorld) dread(i, n int) {
	s := &w.slots[i]
	want := c06cMsg(i, s.kind)
	var p []byte
	var err error
	if n < 0 {
		p, err = io.ReadAll(s.rd)
		if err == nil {
			err = io.EOF
		}
	} else {
		buf := make([]byte, n)
		var k int
		k, err = s.rd.Read(buf)
		p = buf[:k]
		s.partial++
	}
	s.got = append(s.got, p...)
	if err != nil && err != io.EOF {
		w.fail("error-on-valid-input", "session %d: reading its valid gzip stream failed after %d bytes: %v", i, len(s.got), err)
		s.eof = true
		return
	}
	if len(s.got) > len(want) || !bytes.Equal(s.got, want[:len(s.got)]) {
		w.fail("wrong-output", "session %d (message of %d bytes) read %d bytes that are not a prefix of ITS message (first bytes %x, want %x)", i, len(want), len(s.got), c06cHead(s.got), c06cHead(want))
		s.eof = true
		return
	}
	if err == io.EOF {
		s.eof = true
		if len(s.got) != len(want) {
			w.fail("wrong-output", "session %d reached EOF after %d of %d bytes", i, len(s.got), len(want))
		}
	}
}

func (w *c06cWorld) dclose(i int) {
	s := &w.slots[i]
	if c, ok := s.rd.(io.Closer); ok {
		if err := c.Close(); err != nil {
			w.fail("error-on-valid-input", "session %d: Close: %v", i, err)
		}
	}
	if s.eof {
		s.doneDec++
	} else {
		s.earlyDec++
	}
	*s = c06cSlot{doneDec: s.doneDec, doneCom: s.doneCom, earlyDec: s.earlyDec}
}

func (w *c06cWorld) copen(i int) {
	s := &w.slots[i]
	out := &bytes.Buffer{}
	wr, err := w.c.Compress(out)
	if err != nil {
		w.fail("error-on-valid-input", "session %d: Compress: %v", i, err)
		return
	}
	*s = c06cSlot{state: c06cCom, wr: wr, out: out, doneDec: s.doneDec, doneCom: s.doneCom, earlyDec: s.earlyDec}
	w.checkShared(i)
}

func (w *c06cWorld) cwrite(i, n int) {
	s := &w.slots[i]
	msg := c06cMsg(i, 2)
	end := len(msg)
	if n > 0 && s.written+n < end {
		end = s.written + n
	}
	k, err := s.wr.Write(msg[s.written:end])
	if err != nil || k != end-s.written {
		w.fail("error-on-valid-input", "session %d: Write returned %d, %v", i, k, err)
	}
	s.written = end
	s.partial++
}

func (w *c06cWorld) cclose(i int) {
	s := &w.slots[i]
	if err := s.wr.Close(); err != nil {
		w.fail("error-on-valid-input", "session %d: compress Close: %v", i, err)
	}
	plain, err := c06cStdGunzip(s.out.Bytes())
	want := c06cMsg(i, 2)[:s.written]
	if err != nil || !bytes.Equal(plain, want) {
		w.fail("wrong-output", "session %d wrote %d bytes; its output decodes to %d bytes (err=%v) that are not what it wrote", i, s.written, len(plain), err)
	}
	s.doneCom++
	*s = c06cSlot{doneDec: s.doneDec, doneCom: s.doneCom, earlyDec: s.earlyDec}
}

func c06cHead(b []byte) []byte {
	if len(b) > 8 {
		return b[:8]
	}
	return b
}

var c06cZ = map[[2]int][]byte{}

// c06cOps is the alphabet for one slot.
var c06cOpNames = []string{"dopenS", "dopenL", "dread1", "dread4k", "dreadAll", "dclose", "copen", "cwrite1", "cwriteRest", "cclose"}

func c06cCap(n, c int) int {
	if n > c {
		return c
	}
	return n
}

// c06cMS is the part of a slot's model state that decides which ops apply.
type c06cMS struct {
	state   int
	eof     bool
	partial int
	written int
}

var c06cModel = map[string][]c06cMS{}

func c06cApplicable(op string, s *c06cMS) bool {
	switch op {
	case "dopenS", "dopenL", "copen":
		return s.state == c06cIdle
	case "dread1", "dread4k":
		return s.state == c06cDec && !s.eof && s.partial < 2
	case "dreadAll":
		return s.state == c06cDec && !s.eof
	case "dclose":
		return s.state == c06cDec
	case "cwrite1":
		return s.state == c06cCom && s.partial < 2 && s.written < 6000
	case "cwriteRest":
		return s.state == c06cCom && s.written < 6000
	case "cclose":
		return s.state == c06cCom
	}
	return false
}

var (
	c06cRuns       int
	c06cReuseSeen  = map[string]int{}
	c06cFreshAlloc = map[string]int{}
)

// c06cRun applies one history to the registered compressor, starting from
// drained pools (+ the scenario's warm-up sessions).
func c06cRun(c *compressor, scenario string, nslots int, warm bool, ops []string, hist []int) (out seqx.Outcome) {
	// applicability of the last op is decided on the parent's recorded model state
	// (BFS ran the parent before), without touching the real compressor
	hk := func(h []int) string { return scenario + fmt.Sprint(h) }
	if len(hist) > 0 {
		if ps, ok := c06cModel[hk(hist[:len(hist)-1])]; ok {
			name := ops[hist[len(hist)-1]]
			var i int
			fmt.Sscanf(name[strings.IndexByte(name, '(')+1:], "%d", &i)
			if !c06cApplicable(name[:strings.IndexByte(name, '(')], &ps[i]) {
				return seqx.Outcome{Skip: true}
			}
		}
	}
	c06cRuns++
	if c06cRuns%24 == 0 {
		runtime.GC() // GC only between histories: sync.Pool contents are deterministic inside one
	}
	c06cDrain(&c.poolDecompressor)
	c06cDrain(&c.poolCompressor)
	w := &c06cWorld{c: c, nslots: nslots, slots: make([]c06cSlot, nslots), seen: map[any]bool{}}
	applicable := true
	func() {
		defer func() {
			if p := recover(); p != nil {
				w.fail("panic", "panic in the codec: %v", p)
				out.Terminal = true
			}
		}()
		if warm {
			// one complete decompress and one complete compress session; their objects are recycled
			w.dopen(0, 1)
			w.dread(0, -1)
			w.dclose(0)
			w.copen(0)
			w.cwrite(0, 0)
			w.cclose(0)
			w.slots[0] = c06cSlot{}
			w.fails = nil // a failure here is reported by the fresh scenario with a shorter history
		}
		for k, h := range hist {
			last := k == len(hist)-1
			name := ops[h]
			var i int
			fmt.Sscanf(name[strings.IndexByte(name, '(')+1:], "%d", &i)
			s := &w.slots[i]
			op := name[:strings.IndexByte(name, '(')]
			ok := c06cApplicable(op, &c06cMS{s.state, s.eof, s.partial, s.written})
			if !ok {
				if last {
					applicable = false
				}
				return
			}
			switch op {
			case "dopenS":
				w.dopen(i, 0)
			case "dopenL":
				w.dopen(i, 1)
			case "dread1":
				w.dread(i, 1)
			case "dread4k":
				w.dread(i, 4096)
			case "dreadAll":
				w.dread(i, -1)
			case "dclose":
				w.dclose(i)
			case "copen":
				w.copen(i)
			case "cwrite1":
				w.cwrite(i, 1)
			case "cwriteRest":
				w.cwrite(i, 0)
			case "cclose":
				w.cclose(i)
			}
			for _, f := range w.fails {
				if f.Key != "object-shared-by-open-sessions" { // keep exploring past a sharing violation: its consequences are further classes
					out.Terminal = true
					return
				}
			}
		}
	}()
	if !applicable {
		return seqx.Outcome{Skip: true}
	}
	ms := make([]c06cMS, nslots)
	for i := range w.slots {
		ms[i] = c06cMS{w.slots[i].state, w.slots[i].eof, w.slots[i].partial, w.slots[i].written}
	}
	c06cModel[hk(hist)] = ms
	// state key: model of every slot + canonical identity of held objects + REAL pool contents
	ids := map[any]int{}
	id := func(x any) int {
		if x == nil {
			return -1
		}
		if v, ok := ids[x]; ok {
			return v
		}
		ids[x] = len(ids)
		return ids[x]
	}
	var sb strings.Builder
	for i := range w.slots {
		s := &w.slots[i]
		switch s.state {
		case c06cIdle:
			fmt.Fprintf(&sb, "[idle")
		case c06cDec:
			fmt.Fprintf(&sb, "[D k%d pos%d eof%v p%d o%d/%d", s.kind, len(s.got), s.eof, s.partial, id(s.rd), id(c06cInner(s.rd)))
		case c06cCom:
			fmt.Fprintf(&sb, "[C w%d p%d o%d/%d", s.written, s.partial, id(s.wr), id(c06cInner(s.wr)))
		}
		fmt.Fprintf(&sb, " done%d/%d/%d]", c06cCap(s.doneDec, 1), c06cCap(s.earlyDec, 1), c06cCap(s.doneCom, 1))
	}
	sb.WriteString(" poolD")
	for _, x := range c06cDrain(&c.poolDecompressor) {
		fmt.Fprintf(&sb, ":%d/%d", id(x), id(c06cInner(x)))
	}
	sb.WriteString(" poolC")
	for _, x := range c06cDrain(&c.poolCompressor) {
		fmt.Fprintf(&sb, ":%d/%d", id(x), id(c06cInner(x)))
	}
	out.Key = sb.String()
	out.Fails = w.fails
	if w.reuse {
		c06cReuseSeen[scenario]++
		out.Obs = "a-pooled-object-was-reused"
	} else if len(w.seen) > 0 {
		c06cFreshAlloc[scenario]++
		out.Obs = "only-new-objects"
	}
	if len(w.fails) > 0 {
		out.Obs = "FAIL:" + w.fails[0].Key
	}
	return out
}

func TestVerif_C06c_GzipSessions(t *testing.T) {
	const P = c06cP
	r := vk.Start(t, "c06c_gzip_sessions", "exploration", P)
	defer r.Finish()
	r.Rule(P, "BFS over all interleavings of the ops {dopenS,dopenL,dread1,dread4k,dreadAll,dclose,copen,cwrite1,cwriteRest,cclose} x slot of 2 (and 3) concurrently open sessions on the registered gzip encoding.Compressor, from drained pools and after one completed decompress + compress session; a state = model of every session + identity of held objects + drained real pool contents")
	c, ok := encoding.GetCompressor(Name).(*compressor)
	if !ok {
		r.EngineError("registered gzip compressor has unexpected type %T", encoding.GetCompressor(Name))
		return
	}
	if runtime.GOMAXPROCS(0) != 1 {
		runtime.GOMAXPROCS(1) // sync.Pool is per-P: one P makes Put/Get order deterministic
	}
	defer debug.SetGCPercent(debug.SetGCPercent(-1))
	for i := 0; i < 3; i++ {
		for k := 0; k < 2; k++ {
			c06cZ[[2]int{i, k}] = c06cStdGzip(c06cMsg(i, k))
		}
	}
	type scen struct {
		name   string
		slots  int
		warm   bool
		depth  int
		minSt  int64
		states int64
	}
	scens := []scen{
		{"fresh2", 2, false, r.Pick(6, 9), 200, 0},
		{"warm2", 2, true, r.Pick(5, 8), 100, 0},
		{"fresh3", 3, false, r.Pick(4, 6), 100, 0},
		{"warm3", 3, true, r.Pick(3, 5), 50, 0},
	}
	for _, sc := range scens {
		var ops []string
		for _, o := range c06cOpNames {
			for i := 0; i < sc.slots; i++ {
				ops = append(ops, fmt.Sprintf("%s(%d)", o, i))
			}
		}
		sc := sc
		seqx.BFS(r, []string{P}, seqx.Config{
			Name: sc.name, Ops: ops, MaxDepth: sc.depth, MinStates: sc.minSt,
			Run: func(hist []int) seqx.Outcome { return c06cRun(c, sc.name, sc.slots, sc.warm, ops, hist) },
		})
		if r.ReplayFile() == "" && c06cReuseSeen[sc.name] == 0 {
			r.EngineError("scenario %s is vacuous: no history ever got a recycled pool object back", sc.name)
		}
	}
	r.Set(P, "histories_in_which_a_pooled_object_was_reused", c06cReuseSeen)
	r.Set(P, "histories_run", c06cRuns)
	r.Assume(P, "single goroutine, GOMAXPROCS=1, GC only between histories: sync.Pool then behaves as a deterministic per-P LIFO; concurrency is modelled as interleaving of whole codec calls (Decompress/Read/Close/Compress/Write/Close are not preempted internally)")
	r.Assume(P, "a session owns the object it was handed until it calls Close (encoding.Compressor contract: gRPC calls Close exactly once)")
}
