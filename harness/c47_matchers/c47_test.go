//go:build verif

package matcher

// C47 (leg 1 of 2): header matchers and StringMatcher of internal/xds/matcher
// against a reference evaluator written from the property sentence:
//
//   - every header matcher evaluates the comma-joined values of the header;
//   - exact / prefix / suffix / contains / regex(full-string) compare as
//     specified; range matches base-10 integers in [start,end);
//   - invert flips the result only when the header is present; present_match
//     compares presence;
//   - StringMatcher with ignore_case compares ASCII case-insensitively (only
//     the 26 ASCII letters fold).
//
// Bounded-exhaustive: every matcher of the grammar x every header map of the
// grammar. The reference never calls strings.ToLower/ToUpper/EqualFold.

import (
	"fmt"
	"math/big"
	"regexp"
	"runtime"
	"sort"
	"strings"
	"sync"
	"testing"
	"unicode/utf8"

	v3matcherpb "github.com/envoyproxy/go-control-plane/envoy/type/matcher/v3"
	"google.golang.org/grpc/internal/verif/vk"
	"google.golang.org/grpc/metadata"
)

const (
	c47P      = "C47"
	c47Header = "h"

	c47KeyUnicodeFold  = "stringmatcher-ignorecase-unicode-fold"
	c47KeyPresentEmpty = "header-present-empty-value-treated-absent"
)

// The alphabet of DESIGN.md: ASCII letters, the three non-ASCII runes whose
// Unicode case mapping lands on an ASCII letter (KELVIN SIGN -> k, LONG S -> S,
// DOTLESS I -> I, I WITH DOT ABOVE -> i), digits, sign, empty, comma.
var c47Symbols = []string{"a", "A", "k", "\u212a", "s", "\u017f", "i", "\u0131", "\u0130", "1", "-1", "", ","}
var c47Ints = []string{"-1", "0", "9", "10", "09", "+1", "1 "}

// c47Strings returns every distinct concatenation of at most n symbols, in
// generation order (shorter first).
func c47Strings(syms []string, n int) []string {
	seen := map[string]bool{}
	var out []string
	level := []string{""}
	add := func(s string) {
		if !seen[s] {
			seen[s] = true
			out = append(out, s)
		}
	}
	add("")
	for l := 1; l <= n; l++ {
		var next []string
		for _, p := range level {
			for _, s := range syms {
				next = append(next, p+s)
				add(p + s)
			}
		}
		level = next
	}
	return out
}

func c47Dedupe(xs ...[]string) []string {
	seen := map[string]bool{}
	var out []string
	for _, l := range xs {
		for _, s := range l {
			if !seen[s] {
				seen[s] = true
				out = append(out, s)
			}
		}
	}
	return out
}

// c47Spec is one matcher configuration.
type c47Spec struct {
	Kind string `json:"kind"` // exact prefix suffix contains regex range present sm-exact sm-prefix sm-suffix sm-contains sm-regex
	Pat  string `json:"pat"`
	IC   bool   `json:"ignore_case"`
	Inv  bool   `json:"invert"`
	Via  string `json:"via"` // "ctor" (New*Matcher) or "proto" (StringMatcherFromProto)
	Lo   int64  `json:"lo"`
	Hi   int64  `json:"hi"`
	Want bool   `json:"present_flag"`
}

// c47Case is one evaluated (matcher, header map) pair.
type c47Case struct {
	Spec    c47Spec  `json:"matcher"`
	Present bool     `json:"header_present"`
	Values  []string `json:"values"`
}

var c47KindOrder = map[string]int{"exact": 0, "prefix": 1, "suffix": 2, "contains": 3, "sm-exact": 4, "sm-prefix": 5, "sm-suffix": 6, "sm-contains": 7, "regex": 8, "sm-regex": 9, "range": 10, "present": 11}

// ---- reference evaluator (from the sentence) ----

func c47Join(values []string) string {
	s := ""
	for i, v := range values {
		if i > 0 {
			s += ","
		}
		s += v
	}
	return s
}

// c47Fold folds the 26 ASCII upper-case letters and nothing else.
func c47Fold(b byte) byte {
	if b >= 'A' && b <= 'Z' {
		return b + ('a' - 'A')
	}
	return b
}

func c47EqAt(v string, off int, p string, fold bool) bool {
	if off < 0 || off+len(p) > len(v) {
		return false
	}
	for i := 0; i < len(p); i++ {
		x, y := v[off+i], p[i]
		if fold {
			x, y = c47Fold(x), c47Fold(y)
		}
		if x != y {
			return false
		}
	}
	return true
}

func c47RefString(kind, v, p string, fold bool) bool {
	switch kind {
	case "exact":
		return len(v) == len(p) && c47EqAt(v, 0, p, fold)
	case "prefix":
		return c47EqAt(v, 0, p, fold)
	case "suffix":
		return c47EqAt(v, len(v)-len(p), p, fold)
	case "contains":
		for off := 0; off+len(p) <= len(v); off++ {
			if c47EqAt(v, off, p, fold) {
				return true
			}
		}
		return false
	}
	panic("c47RefString: kind " + kind)
}

// The regex menu: each pattern comes with a hand-written description of its
// language (full-string). The harness cross-checks these predicates against Go's
// regexp in leftmost-longest mode before using them.
type c47Regex struct {
	Pat  string
	Lang func(v string) bool
}

func c47AllBytes(v string, ok func(b byte) bool) bool {
	for i := 0; i < len(v); i++ {
		if !ok(v[i]) {
			return false
		}
	}
	return true
}

var c47Regexes = []c47Regex{
	{"a", func(v string) bool { return v == "a" }},
	{"k", func(v string) bool { return v == "k" }},
	{"a.*", func(v string) bool { return len(v) >= 1 && v[0] == 'a' }},
	{"a|k", func(v string) bool { return v == "a" || v == "k" }},
	{"a|k.*", func(v string) bool { return v == "a" || (len(v) >= 1 && v[0] == 'k') }},
	{"[a-k]+", func(v string) bool {
		return len(v) > 0 && c47AllBytes(v, func(b byte) bool { return b >= 'a' && b <= 'k' })
	}},
	{".*", func(v string) bool { return true }},
	{"", func(v string) bool { return v == "" }},
	{"1?", func(v string) bool { return v == "" || v == "1" }},
	{"-?[0-9]+", func(v string) bool {
		d := strings.TrimPrefix(v, "-")
		return len(d) > 0 && c47AllBytes(d, func(b byte) bool { return b >= '0' && b <= '9' })
	}},
	{".*,.*", func(v string) bool { return strings.IndexByte(v, ',') >= 0 }},
}

func c47RegexLang(pat string) func(string) bool {
	for _, r := range c47Regexes {
		if r.Pat == pat {
			return r.Lang
		}
	}
	return nil
}

var c47IntSyntax = regexp.MustCompile(`^[+-]?[0-9]+$`)

func c47RefRange(v string, lo, hi int64) bool {
	if !c47IntSyntax.MatchString(v) {
		return false
	}
	n, ok := new(big.Int).SetString(v, 10)
	if !ok {
		return false
	}
	return n.Cmp(big.NewInt(lo)) >= 0 && n.Cmp(big.NewInt(hi)) < 0
}

// c47RefBase is the un-inverted verdict on a present header value.
func c47RefBase(s c47Spec, v string) bool {
	switch s.Kind {
	case "exact", "prefix", "suffix", "contains":
		return c47RefString(s.Kind, v, s.Pat, false)
	case "sm-exact", "sm-prefix", "sm-suffix", "sm-contains":
		return c47RefString(s.Kind[3:], v, s.Pat, s.IC)
	case "regex", "sm-regex":
		return c47RegexLang(s.Pat)(v)
	case "range":
		return c47RefRange(v, s.Lo, s.Hi)
	}
	panic("c47RefBase: kind " + s.Kind)
}

func c47Ref(c c47Case) bool {
	if c.Spec.Kind == "present" {
		return (c.Present == c.Spec.Want) != c.Spec.Inv
	}
	if !c.Present {
		return false
	}
	return c47RefBase(c.Spec, c47Join(c.Values)) != c.Spec.Inv
}

// ---- construction of the real matchers ----

// c47Build returns the real header matcher (and the underlying StringMatcher
// for sm-* kinds). ok=false means the production constructor rejected the
// configuration (e.g. empty prefix in a StringMatcher proto): not judged.
func c47Build(s c47Spec) (hm HeaderMatcher, sm *StringMatcher, ok bool, err error) {
	switch s.Kind {
	case "exact":
		return NewHeaderExactMatcher(c47Header, s.Pat, s.Inv), nil, true, nil
	case "prefix":
		return NewHeaderPrefixMatcher(c47Header, s.Pat, s.Inv), nil, true, nil
	case "suffix":
		return NewHeaderSuffixMatcher(c47Header, s.Pat, s.Inv), nil, true, nil
	case "contains":
		return NewHeaderContainsMatcher(c47Header, s.Pat, s.Inv), nil, true, nil
	case "regex":
		re, e := CompileSafeRegex(s.Pat)
		if e != nil {
			return nil, nil, false, e
		}
		return NewHeaderRegexMatcher(c47Header, re, s.Inv), nil, true, nil
	case "range":
		return NewHeaderRangeMatcher(c47Header, s.Lo, s.Hi, s.Inv), nil, true, nil
	case "present":
		return NewHeaderPresentMatcher(c47Header, s.Want, s.Inv), nil, true, nil
	}
	var m StringMatcher
	if s.Via == "proto" {
		p := &v3matcherpb.StringMatcher{IgnoreCase: s.IC}
		switch s.Kind {
		case "sm-exact":
			p.MatchPattern = &v3matcherpb.StringMatcher_Exact{Exact: s.Pat}
		case "sm-prefix":
			p.MatchPattern = &v3matcherpb.StringMatcher_Prefix{Prefix: s.Pat}
		case "sm-suffix":
			p.MatchPattern = &v3matcherpb.StringMatcher_Suffix{Suffix: s.Pat}
		case "sm-contains":
			p.MatchPattern = &v3matcherpb.StringMatcher_Contains{Contains: s.Pat}
		case "sm-regex":
			p.MatchPattern = &v3matcherpb.StringMatcher_SafeRegex{SafeRegex: &v3matcherpb.RegexMatcher{Regex: s.Pat}}
		}
		var e error
		m, e = StringMatcherFromProto(p)
		if e != nil {
			return nil, nil, false, e
		}
	} else {
		switch s.Kind {
		case "sm-exact":
			m = NewExactStringMatcher(s.Pat, s.IC)
		case "sm-prefix":
			m = NewPrefixStringMatcher(s.Pat, s.IC)
		case "sm-suffix":
			m = NewSuffixStringMatcher(s.Pat, s.IC)
		case "sm-contains":
			m = NewContainsStringMatcher(s.Pat, s.IC)
		case "sm-regex":
			re, e := CompileSafeRegex(s.Pat)
			if e != nil {
				return nil, nil, false, e
			}
			m = NewRegexStringMatcher(re)
		}
	}
	return NewHeaderStringMatcher(c47Header, m, s.Inv), &m, true, nil
}

func c47MD(present bool, values []string) metadata.MD {
	md := metadata.MD{"hh": []string{"a"}, "g": []string{"k", "1"}} // decoys: must not be read
	if present {
		md[c47Header] = values
	}
	return md
}

// ---- failure bookkeeping ----

type c47Fail struct {
	Case c47Case
	Got  string
	Want bool
	ord  string
}

func c47NonASCII(s string) bool {
	for i := 0; i < len(s); i++ {
		if s[i] >= 0x80 {
			return true
		}
	}
	return false
}

// c47Class maps a failing case to the canonical key of its defect class, or ""
// if it belongs to none of the narrow, purely input-defined classes.
func c47Class(c c47Case) string {
	v := c47Join(c.Values)
	switch c.Spec.Kind {
	case "sm-exact", "sm-prefix", "sm-suffix", "sm-contains":
		if c.Spec.IC && c.Present && (c47NonASCII(c.Spec.Pat) || c47NonASCII(v)) {
			return c47KeyUnicodeFold
		}
	case "present":
		if c.Present && len(c.Values) == 1 && v == "" {
			return c47KeyPresentEmpty
		}
	}
	return ""
}

func c47Shape(c c47Case) string {
	sh := "absent"
	if c.Present {
		sh = "present"
	}
	return fmt.Sprintf("kind=%s header=%s", c.Spec.Kind, sh)
}

// c47Ord is a total order: fewest runes first, then kind, pattern, value...
func c47Ord(c c47Case) string {
	v := c47Join(c.Values)
	size := utf8.RuneCountInString(c.Spec.Pat) + utf8.RuneCountInString(v) + len(c.Values)
	b2 := func(b bool) int {
		if b {
			return 1
		}
		return 0
	}
	return fmt.Sprintf("%05d|%02d|%d|%d|%s|%q|%q|%d|%d|%d", size, c47KindOrder[c.Spec.Kind], b2(c.Spec.Inv), b2(!c.Spec.IC), c.Spec.Via, c.Spec.Pat, c.Values, c.Spec.Lo, c.Spec.Hi, b2(c.Spec.Want))
}

func (c c47Case) String() string {
	s := c.Spec
	var m string
	switch s.Kind {
	case "range":
		m = fmt.Sprintf("range[%d,%d)", s.Lo, s.Hi)
	case "present":
		m = fmt.Sprintf("present_match=%v", s.Want)
	default:
		m = fmt.Sprintf("%s(%+q)", s.Kind, s.Pat)
		if strings.HasPrefix(s.Kind, "sm-") {
			m += fmt.Sprintf(" ignore_case=%v via=%s", s.IC, s.Via)
		}
	}
	h := "header absent"
	if c.Present {
		h = fmt.Sprintf("header values=%+q (joined bytes % x)", c.Values, c47Join(c.Values))
	}
	return fmt.Sprintf("%s invert=%v on %s", m, s.Inv, h)
}

type c47Bucket struct {
	n    int64
	best []c47Fail // up to 6 smallest by ord
}

func (b *c47Bucket) add(f c47Fail) {
	b.n++
	b.best = append(b.best, f)
	sort.Slice(b.best, func(i, j int) bool { return b.best[i].ord < b.best[j].ord })
	if len(b.best) > 6 {
		b.best = b.best[:6]
	}
}

type c47Tally struct {
	evals, match int64
	rejected     int64
	outcomes     map[string]int64
	fails        map[string]*c47Bucket // class key or shape
}

func c47NewTally() *c47Tally {
	return &c47Tally{outcomes: map[string]int64{}, fails: map[string]*c47Bucket{}}
}

func (t *c47Tally) fail(c c47Case, got string, want bool) {
	k := c47Class(c)
	if k == "" {
		k = "shape:" + c47Shape(c)
	}
	b := t.fails[k]
	if b == nil {
		b = &c47Bucket{}
		t.fails[k] = b
	}
	// cheap pre-filter: only build the order key when it can enter the top 6
	f := c47Fail{Case: c, Got: got, Want: want, ord: c47Ord(c)}
	if len(b.best) == 6 && f.ord >= b.best[5].ord {
		b.n++
		return
	}
	cp := make([]string, len(c.Values))
	copy(cp, c.Values)
	f.Case.Values = cp
	b.add(f)
}

func (t *c47Tally) merge(o *c47Tally) {
	t.evals += o.evals
	t.match += o.match
	t.rejected += o.rejected
	for k, v := range o.outcomes {
		t.outcomes[k] += v
	}
	for k, ob := range o.fails {
		b := t.fails[k]
		if b == nil {
			b = &c47Bucket{}
			t.fails[k] = b
		}
		n := b.n + ob.n
		for _, f := range ob.best {
			b.add(f)
		}
		b.n = n
	}
}

// c47Flush adds per-spec outcome counters to the tally.
func c47Flush(s c47Spec, cnt *[2][2]int64, t *c47Tally) {
	for pi := 0; pi < 2; pi++ {
		for wi := 0; wi < 2; wi++ {
			if cnt[pi][wi] > 0 {
				t.outcomes[c47Outcome(s, pi == 1, wi == 1)] += cnt[pi][wi]
			}
		}
	}
}

// c47OutcomeKeys caches the outcome-class strings.
var c47OutcomeKeys sync.Map

func c47Outcome(s c47Spec, present, want bool) string {
	type k struct {
		kind               string
		inv, present, want bool
	}
	kk := k{s.Kind, s.Inv, present, want}
	if v, ok := c47OutcomeKeys.Load(kk); ok {
		return v.(string)
	}
	pr := "absent"
	if present {
		pr = "present"
	}
	v := fmt.Sprintf("%s/inv=%v/%s/want=%v", s.Kind, s.Inv, pr, want)
	c47OutcomeKeys.Store(kk, v)
	return v
}

func c47SafeMatch(hm HeaderMatcher, md metadata.MD) (got bool, pan any) {
	defer func() { pan = recover() }()
	return hm.Match(md), nil
}

func c47SafeSM(sm *StringMatcher, v string) (got bool, pan any) {
	defer func() { pan = recover() }()
	return sm.Match(v), nil
}

// c47Eval evaluates one case on the real matcher and records a failure when
// it disagrees with the reference. md must be c47MD(c.Present, c.Values).
func c47Eval(hm HeaderMatcher, sm *StringMatcher, c c47Case, md metadata.MD, t *c47Tally, cnt *[2][2]int64) {
	want := c47Ref(c)
	got, pan := c47SafeMatch(hm, md)
	t.evals++
	if want {
		t.match++
	}
	pi, wi := 0, 0
	if c.Present {
		pi = 1
	}
	if want {
		wi = 1
	}
	cnt[pi][wi]++
	if pan != nil {
		t.fail(c, fmt.Sprintf("panic: %v", pan), want)
		return
	}
	if got != want {
		t.fail(c, fmt.Sprint(got), want)
		return
	}
	// The underlying StringMatcher, queried directly with the joined value.
	if sm != nil && c.Present && !c.Spec.Inv {
		v := c47Join(c.Values)
		base := c47RefBase(c.Spec, v)
		g2, pan := c47SafeSM(sm, v)
		if pan != nil || g2 != base {
			t.fail(c, fmt.Sprintf("StringMatcher.Match(%+q)=%v panic=%v", v, g2, pan), base)
		}
	}
}

func c47Par(n int, f func(i int, t *c47Tally)) *c47Tally {
	w := runtime.GOMAXPROCS(0)
	if w < 1 {
		w = 1
	}
	total := c47NewTally()
	var mu sync.Mutex
	var wg sync.WaitGroup
	next := 0
	var nmu sync.Mutex
	for k := 0; k < w; k++ {
		wg.Add(1)
		go func() {
			defer wg.Done()
			t := c47NewTally()
			for {
				nmu.Lock()
				i := next
				next++
				nmu.Unlock()
				if i >= n {
					break
				}
				f(i, t)
			}
			mu.Lock()
			total.merge(t)
			mu.Unlock()
		}()
	}
	wg.Wait()
	return total
}

func TestVerif_C47_Matchers(t *testing.T) {
	const P = c47P
	r := vk.Start(t, "c47_matchers", "exploration", P)
	defer r.Finish()
	r.Rule(P, "every matcher {header exact/prefix/suffix/contains, StringMatcher exact/prefix/suffix/contains x ignore_case{f,t} x built by constructor and by StringMatcherFromProto, safe-regex menu (header and StringMatcher), range [0,10) [-5,5) [5,5) [-1,0) [10,11), present_match{t,f}} x invert{f,t} with every pattern that is a concatenation of <=L symbols of {a,A,k,U+212A,s,U+017F,i,U+0131,U+0130,1,-1,\"\",\",\"} (L=2 quick, 3 thorough), evaluated on every header map {absent; one value: every string of <=L symbols or one of the integers {-1,0,9,10,09,+1,'1 '}; two values: every ordered pair of single symbols/integers}; oracle = reference evaluator folding ASCII letters only; non-trivial = (matcher, header map) pairs on which the reference says MATCH (all pairs are distinct by construction)")

	if f := r.ReplayFile(); f != "" {
		var c c47Case
		if err := r.LoadReplay(&c); err != nil {
			r.EngineError("replay: %v", err)
			return
		}
		hm, sm, ok, err := c47Build(c.Spec)
		if !ok {
			r.EngineError("replay: matcher rejected: %v", err)
			return
		}
		tl := c47NewTally()
		var cnt [2][2]int64
		c47Eval(hm, sm, c, c47MD(c.Present, c.Values), tl, &cnt)
		c47Flush(c.Spec, &cnt, tl)
		r.Eval(P, 1)
		for k, b := range tl.fails {
			f := b.best[0]
			r.Violation(P, k, fmt.Sprintf("%s: real=%s reference=%v", f.Case, f.Got, f.Want), f.Case)
			fmt.Printf("replay: VIOLATION %s: %s real=%s reference=%v\n", k, f.Case, f.Got, f.Want)
		}
		if len(tl.fails) == 0 {
			fmt.Printf("replay: agrees with reference (%v): %s\n", c47Ref(c), c)
		}
		return
	}

	L := r.Pick(2, 3)
	pats := c47Strings(c47Symbols, L)
	singles := c47Dedupe(c47Symbols, c47Ints)
	oneVals := c47Dedupe(pats, c47Ints)

	// header maps
	type hdr struct {
		present bool
		values  []string
		md      metadata.MD // built once, only read by the matchers
	}
	hdrs := []hdr{{false, nil, c47MD(false, nil)}}
	for _, v := range oneVals {
		hdrs = append(hdrs, hdr{true, []string{v}, c47MD(true, []string{v})})
	}
	for _, x := range singles {
		for _, y := range singles {
			hdrs = append(hdrs, hdr{true, []string{x, y}, c47MD(true, []string{x, y})})
		}
	}

	// oracle self-check: the hand-written regex languages agree with Go's
	// regexp in leftmost-longest mode (an independent statement of "the whole
	// string is in the language") on every joined value of the grammar.
	for _, rx := range c47Regexes {
		re := regexp.MustCompile(rx.Pat)
		re.Longest()
		for _, h := range hdrs {
			if !h.present {
				continue
			}
			v := c47Join(h.values)
			loc := re.FindStringIndex(v)
			full := loc != nil && loc[0] == 0 && loc[1] == len(v)
			if full != rx.Lang(v) {
				r.EngineError("oracle self-check: regex %q value %q: hand-written language says %v, leftmost-longest full match says %v", rx.Pat, v, rx.Lang(v), full)
				return
			}
		}
	}

	// matchers
	var specs []c47Spec
	for _, inv := range []bool{false, true} {
		for _, k := range []string{"exact", "prefix", "suffix", "contains"} {
			for _, p := range pats {
				specs = append(specs, c47Spec{Kind: k, Pat: p, Inv: inv, Via: "ctor"})
			}
		}
		for _, k := range []string{"sm-exact", "sm-prefix", "sm-suffix", "sm-contains"} {
			for _, ic := range []bool{false, true} {
				for _, via := range []string{"ctor", "proto"} {
					for _, p := range pats {
						specs = append(specs, c47Spec{Kind: k, Pat: p, IC: ic, Inv: inv, Via: via})
					}
				}
			}
		}
		for _, rx := range c47Regexes {
			specs = append(specs, c47Spec{Kind: "regex", Pat: rx.Pat, Inv: inv, Via: "ctor"})
			specs = append(specs, c47Spec{Kind: "sm-regex", Pat: rx.Pat, Inv: inv, Via: "ctor"})
			specs = append(specs, c47Spec{Kind: "sm-regex", Pat: rx.Pat, Inv: inv, Via: "proto"})
			specs = append(specs, c47Spec{Kind: "sm-regex", Pat: rx.Pat, IC: true, Inv: inv, Via: "proto"}) // ignore_case has no effect on regex
		}
		for _, rg := range [][2]int64{{0, 10}, {-5, 5}, {5, 5}, {-1, 0}, {10, 11}} {
			specs = append(specs, c47Spec{Kind: "range", Lo: rg[0], Hi: rg[1], Inv: inv, Via: "ctor"})
		}
		for _, w := range []bool{true, false} {
			specs = append(specs, c47Spec{Kind: "present", Want: w, Inv: inv, Via: "ctor"})
		}
	}

	var rejMu sync.Mutex
	rejected := map[string]int{}
	total := c47Par(len(specs), func(i int, tl *c47Tally) {
		s := specs[i]
		hm, sm, ok, err := c47Build(s)
		if !ok {
			tl.rejected++
			rejMu.Lock()
			rejected[fmt.Sprintf("%s via=%s pat=%q: %v", s.Kind, s.Via, s.Pat, err)]++
			rejMu.Unlock()
			return
		}
		var cnt [2][2]int64
		for _, h := range hdrs {
			c47Eval(hm, sm, c47Case{Spec: s, Present: h.present, Values: h.values}, h.md, tl, &cnt)
		}
		c47Flush(s, &cnt, tl)
	})

	// A rejected configuration is only legitimate for an empty pattern of a
	// proto-built prefix/suffix/contains StringMatcher (Envoy's min_len:1).
	rk := make([]string, 0, len(rejected))
	for k := range rejected {
		rk = append(rk, k)
	}
	sort.Strings(rk)
	for _, k := range rk {
		if !(strings.Contains(k, "via=proto pat=\"\"") && !strings.HasPrefix(k, "sm-exact") && !strings.HasPrefix(k, "sm-regex")) {
			r.Violation(P, "constructor-rejected "+k, "production constructor rejected a matcher configuration of the grammar: "+k, nil)
		}
	}

	r.Eval(P, total.evals)
	r.NontrivialN(P, total.match)
	r.Set(P, "matchers", len(specs))
	r.Set(P, "matchers_rejected_by_constructor", total.rejected)
	r.Set(P, "header_maps", len(hdrs))
	r.Set(P, "patterns", len(pats))
	r.Set(P, "max_symbols", L)
	r.Set(P, "reference_says_match", total.match)
	ok := make([]string, 0, len(total.outcomes))
	for k := range total.outcomes {
		ok = append(ok, k)
	}
	sort.Strings(ok)
	for _, k := range ok {
		r.Outcome(P, k)
	}
	r.Set(P, "outcome_counts", total.outcomes)

	fk := make([]string, 0, len(total.fails))
	for k := range total.fails {
		fk = append(fk, k)
	}
	sort.Strings(fk)
	for _, k := range fk {
		b := total.fails[k]
		f := b.best[0]
		key := k
		if strings.HasPrefix(k, "shape:") {
			key = fmt.Sprintf("%s | minimal: %s", strings.TrimPrefix(k, "shape:"), f.Case)
		}
		desc := fmt.Sprintf("%d failing (matcher, header map) pairs in this class. Minimal: %s: real code answered %s, reference (ASCII-only folding, sentence semantics) says %v.", b.n, f.Case, f.Got, f.Want)
		for i, g := range b.best {
			if i == 0 {
				continue
			}
			desc += fmt.Sprintf(" | also: %s: real=%s ref=%v", g.Case, g.Got, g.Want)
		}
		r.Violation(P, key, desc, f.Case)
	}

	r.Sample(P, map[string]any{"matcher": "sm-exact(\"k\") ignore_case=true", "header": []string{"K"}, "reference": true})
	r.Sample(P, map[string]any{"matcher": "sm-exact(\"k\") ignore_case=true", "header": []string{"\u212a"}, "reference": false, "note": "KELVIN SIGN is not an ASCII letter"})
	r.Sample(P, map[string]any{"matcher": "range[0,10) invert=true", "header": "absent", "reference": false})
	r.Sample(P, map[string]any{"matcher": "exact(\"a,A\")", "header": []string{"a", "A"}, "reference": true, "note": "comma-join of two values"})
	r.Sample(P, map[string]any{"matcher": "regex(\"a|k.*\")", "header": []string{"ka"}, "reference": true, "note": "full-string match of the alternation"})
	r.Assume(P, "Trusted for the oracle: byte comparison with a 26-letter ASCII fold, math/big integer parsing, Go regexp in leftmost-longest mode (only to cross-check the hand-written regex languages). A header present with the single value \"\" counts as present. '+1' and '09' are base-10 integers; '1 ' is not.")
	r.Assume(P, "Header maps with an empty value list (key present, zero values) and invalid UTF-8 values are outside the grammar.")
}
