//go:build verif

// Package h_c23 hosts the E4 harness of property C23 (every pick result's Done
// callback runs exactly once): a real grpc.ClientConn with a scripted LB
// policy, against scripted raw HTTP/2 server peers, inside synctest bubbles.
package h_c23
