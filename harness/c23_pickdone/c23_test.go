//go:build verif

package h_c23

import (
	"context"
	"encoding/json"
	"fmt"
	"os"
	"strings"
	"sync"
	"testing"
	"testing/synctest"
	"time"

	"golang.org/x/net/http2"
	"google.golang.org/grpc"
	"google.golang.org/grpc/codes"
	"google.golang.org/grpc/connectivity"
	"google.golang.org/grpc/internal/verif/vk"
	"google.golang.org/grpc/internal/verif/wire"
	"google.golang.org/grpc/status"
)

// Service config: the scripted LB policy; retry policy (2 attempts, UNAVAILABLE)
// for service "s" only; service "n" has no retry policy.
const c23ServiceConfig = `{
 "loadBalancingConfig": [{"` + c23LBName + `": {}}],
 "methodConfig": [{
   "name": [{"service": "s"}],
   "retryPolicy": {"maxAttempts": 2, "initialBackoff": "0.1s", "maxBackoff": "1s", "backoffMultiplier": 2, "retryableStatusCodes": ["UNAVAILABLE"]}
 }]
}`

// c23KNone: prelude element "no picker published yet" (only legal first).
const c23KNone = -1

// c23Case is one history: the picker behaviours the RPC meets while it is
// blocked in pick (Prelude), how the pick phase ends (Term) and, when it ends
// with a READY SubConn, what happens to the attempt(s) on the wire.
type c23Case struct {
	WFR     bool   `json:"wfr"`
	Prelude []int  `json:"prelude"`
	Term    string `json:"term"` // statuserr | plainerr | cancel | deadline | ready:<outcome>
	API     string `json:"api"`  // unary | stream
}

func (c c23Case) String() string {
	var ps []string
	for _, k := range c.Prelude {
		if k == c23KNone {
			ps = append(ps, "nopicker")
		} else {
			ps = append(ps, c23KindNames[k])
		}
	}
	m := "ff"
	if c.WFR {
		m = "wfr"
	}
	return fmt.Sprintf("%s/%s/[%s]/%s", c.API, m, strings.Join(ps, ","), c.Term)
}

// Wire outcomes after a READY pick.
var c23Outcomes = []string{
	"success", "statuserr", "closeBeforeResp", "hdrsThenClose", "rstRefused", "goAwayBelow",
	"policyRetryOK", "policyRetryExhaust", "policyRetryCancelBackoff",
	"cancelMid", "cancelAfterHdrs", "deadlineMid", "ccCloseMid",
	"nsHdrList", "nsQuotaGoAway", "nsQuotaClose",
	// the server answers a non-server-streaming RPC with TWO response messages
	// (HEADERS, DATA(msg), DATA(msg)), without / with trailers after them
	"unary2Resp", "unary2RespTrailers",
	// a RETRY attempt (by policy after trailers-only UNAVAILABLE, or transparent after
	// REFUSED_STREAM) whose pick succeeds but which then fails while the buffered ops are
	// replayed (its NewStream fails) or right after the replay
	"retry2CredsFail", "tretry2CredsFail", "retry2HdrList", "retry2QuotaDeadline", "retry2ConnClose", "retry2RST",
}

// c23FlakyCreds: call-level per-RPC credentials that succeed on the first
// GetRequestMetadata call and fail (UNAUTHENTICATED, not retryable) from the second on.
type c23FlakyCreds struct {
	mu    sync.Mutex
	calls int
}

func (c *c23FlakyCreds) GetRequestMetadata(context.Context, ...string) (map[string]string, error) {
	c.mu.Lock()
	defer c.mu.Unlock()
	c.calls++
	if c.calls >= 2 {
		return nil, status.Error(codes.Unauthenticated, "scripted creds failure on the retry attempt")
	}
	return map[string]string{"x-c23": "v"}, nil
}
func (*c23FlakyCreds) RequireTransportSecurity() bool { return false }

// c23KeySecondResponse is the single canonical key of the known finding "a
// second response message on a non-server-streaming RPC makes Invoke /
// clientStreamWrapper.RecvMsg return INTERNAL (cardinality violation) without
// finishing the client stream, so the pick's Done is never invoked".
const c23KeySecondResponse = "done-never-called/second-response-on-unary-rpc"

// c23Expect: scenario knowledge used for the "error info consistent with the
// attempt" part of the oracle and for script-drift detection: the code the
// application must see, and the code the LAST attempt's Done must carry
// (codes.OK = nil error).
type c23Expect struct {
	final    []codes.Code // acceptable application codes
	lastDone []codes.Code // acceptable codes of the last READY pick's DoneInfo.Err
	attempts int          // READY picks that reached a transport stream attempt (lower bound on READY Done records)
}

func c23Expected(term string) c23Expect {
	one := func(c codes.Code) []codes.Code { return []codes.Code{c} }
	switch term {
	case "statuserr":
		return c23Expect{final: one(codes.ResourceExhausted)}
	case "plainerr":
		return c23Expect{final: one(codes.Unavailable)}
	case "cancel":
		return c23Expect{final: one(codes.Canceled)}
	case "deadline":
		return c23Expect{final: one(codes.DeadlineExceeded)}
	}
	switch strings.TrimPrefix(term, "ready:") {
	case "success":
		return c23Expect{one(codes.OK), one(codes.OK), 1}
	case "statuserr":
		return c23Expect{one(codes.InvalidArgument), one(codes.InvalidArgument), 1}
	case "closeBeforeResp", "hdrsThenClose":
		return c23Expect{one(codes.Unavailable), one(codes.Unavailable), 1}
	case "rstRefused", "goAwayBelow", "policyRetryOK", "nsQuotaGoAway", "nsQuotaClose":
		return c23Expect{one(codes.OK), one(codes.OK), 2}
	case "policyRetryExhaust":
		return c23Expect{one(codes.Unavailable), one(codes.Unavailable), 2}
	case "policyRetryCancelBackoff":
		return c23Expect{one(codes.Canceled), one(codes.Unavailable), 1}
	case "cancelMid", "cancelAfterHdrs":
		return c23Expect{one(codes.Canceled), one(codes.Canceled), 1}
	case "deadlineMid":
		return c23Expect{one(codes.DeadlineExceeded), one(codes.DeadlineExceeded), 1}
	case "ccCloseMid":
		return c23Expect{[]codes.Code{codes.Canceled, codes.Unavailable}, []codes.Code{codes.Canceled, codes.Unavailable}, 1}
	case "nsHdrList", "unary2Resp", "unary2RespTrailers":
		return c23Expect{one(codes.Internal), one(codes.Internal), 1}
	case "retry2CredsFail", "tretry2CredsFail":
		return c23Expect{one(codes.Unauthenticated), one(codes.Unauthenticated), 2}
	case "retry2HdrList":
		return c23Expect{one(codes.Internal), one(codes.Internal), 2}
	case "retry2QuotaDeadline":
		return c23Expect{one(codes.DeadlineExceeded), one(codes.DeadlineExceeded), 2}
	case "retry2ConnClose", "retry2RST":
		return c23Expect{one(codes.Unavailable), one(codes.Unavailable), 2}
	}
	panic("c23: unknown term " + term)
}

func c23CodeIn(c codes.Code, set []codes.Code) bool {
	for _, x := range set {
		if x == c {
			return true
		}
	}
	return false
}

type c23Fail struct{ Class, Desc string }

type c23Result struct {
	Fails   []c23Fail
	Engine  string
	Outcome string
	Trace   string
	NDone   int
	NWoken  int
}

func c23Cases(maxPrelude int) []c23Case {
	var cases []c23Case
	var terms []string
	for _, o := range c23Outcomes {
		terms = append(terms, "ready:"+o)
	}
	terms = append(terms, "statuserr", "plainerr", "cancel", "deadline")
	for _, wfr := range []bool{false, true} {
		alpha := []int{c23KNoSC, c23KNonReady}
		if wfr {
			alpha = append(alpha, c23KPlain) // a plain picker error blocks only wait-for-ready RPCs
		}
		var preludes [][]int
		var gen func(cur []int)
		gen = func(cur []int) {
			preludes = append(preludes, append([]int(nil), cur...))
			if len(cur) == maxPrelude {
				return
			}
			if len(cur) == 0 {
				gen([]int{c23KNone})
			}
			for _, k := range alpha {
				gen(append(append([]int(nil), cur...), k))
			}
		}
		gen(nil)
		for _, p := range preludes {
			for _, term := range terms {
				if (term == "cancel" || term == "deadline") && len(p) == 0 {
					continue // nothing to be blocked on
				}
				if term == "plainerr" && wfr {
					continue // blocks instead of terminating: it is a prelude element there
				}
				for _, api := range []string{"unary", "stream"} {
					cases = append(cases, c23Case{WFR: wfr, Prelude: p, Term: term, API: api})
				}
			}
		}
	}
	return cases
}

func c23Run(t *testing.T, c c23Case) (res c23Result) {
	problem := c23Bubble(t, func(t *testing.T) {
		c23RunInBubble(t, c, &res)
	})
	if problem != "" {
		if res.Engine == "" && len(res.Fails) == 0 {
			res.Engine = problem
		} else {
			res.Trace += " | " + problem
		}
	}
	return res
}

func c23RunInBubble(t *testing.T, c c23Case, res *c23Result) {
	outcome := strings.TrimPrefix(c.Term, "ready:")
	isReady := strings.HasPrefix(c.Term, "ready:")
	exp := c23Expected(c.Term)
	plan := func(n int) c23ConnPlan {
		p := c23ConnPlan{Settings: []http2.Setting{{ID: http2.SettingMaxConcurrentStreams, Val: 100}}}
		if n == 0 && isReady {
			switch outcome {
			case "nsHdrList":
				p.Settings = append(p.Settings, http2.Setting{ID: http2.SettingMaxHeaderListSize, Val: 16})
			case "nsQuotaGoAway", "nsQuotaClose":
				p.Settings = []http2.Setting{{ID: http2.SettingMaxConcurrentStreams, Val: 0}}
			}
		}
		return p
	}
	w := c23NewWorld(t, c23ServiceConfig, true, plan)
	defer w.close()
	fail := func(class, format string, a ...any) {
		res.Fails = append(res.Fails, c23Fail{class, fmt.Sprintf(format, a...)})
	}
	if w.cc == nil {
		res.Engine = w.engineErr()
		return
	}
	w.connect()
	lb := w.getLB()
	if lb == nil || lb.state0() != connectivity.Ready {
		res.Engine = "set-up: LB/SubConn not ready: " + w.engineErr()
		return
	}

	method := "/n/m"
	if strings.HasPrefix(outcome, "policyRetry") || strings.HasPrefix(outcome, "retry2") {
		method = "/s/m"
	}
	timeout := time.Duration(0)
	if c.Term == "deadline" || (isReady && (outcome == "deadlineMid" || outcome == "retry2QuotaDeadline")) {
		timeout = time.Second
	}
	ctx, cancel := w.ctx(timeout)
	var opts []grpc.CallOption
	if c.WFR {
		opts = append(opts, grpc.WaitForReady(true))
	}
	nsend := 1
	if isReady && strings.Contains(outcome, "retry2") {
		nsend = 2 // two buffered sends to replay
		if strings.HasSuffix(outcome, "CredsFail") {
			opts = append(opts, grpc.PerRPCCredentials(&c23FlakyCreds{}))
		}
	}

	publishTerm := func() *c23Picker {
		switch {
		case isReady:
			return w.publish(c23KReady, nil)
		case c.Term == "statuserr":
			return w.publish(c23KStatus, status.Error(codes.ResourceExhausted, "scripted picker status"))
		case c.Term == "plainerr":
			return w.publish(c23KPlain, fmt.Errorf("scripted plain picker error"))
		}
		return nil
	}
	var termPicker *c23Picker
	publishKind := func(k int) *c23Picker {
		if k == c23KPlain {
			return w.publish(k, fmt.Errorf("scripted plain picker error"))
		}
		return w.publish(k, nil)
	}

	// Picker in force when the RPC starts.
	var cur *c23Picker
	if len(c.Prelude) == 0 {
		publishTerm()
	} else if c.Prelude[0] != c23KNone {
		cur = publishKind(c.Prelude[0])
	}
	synctest.Wait()
	var rpc *c23RPC
	if c.API == "unary" {
		rpc = w.startUnary(ctx, method, []byte("req"), opts...)
	} else if isReady && strings.HasPrefix(outcome, "unary2Resp") {
		// client-streaming, non-server-streaming RPC used CloseAndRecv style: one RecvMsg
		rpc = w.startStreamDesc(ctx, c23ClientStreamDesc, 1, method, []byte("req"), 1, opts...)
	} else {
		rpc = w.startStream(ctx, method, []byte("req"), nsend, opts...)
	}
	synctest.Wait()

	// Prelude: the RPC must sit blocked in pick; every picker update must wake it
	// (the new picker is consulted) until the terminal event.
	for i := range c.Prelude {
		if rpc.finished() {
			e, _ := rpc.final()
			res.Engine = fmt.Sprintf("script drift: RPC finished (%v) while the picker said %s", e, c23KindName(c.Prelude[i]))
			break
		}
		if cur != nil {
			if n := cur.nPicks(); n == 0 {
				fail("not-woken-by-picker-update", "picker generation %d (%s) was published while the RPC was blocked in pick but was never consulted", cur.gen, c23KindNames[cur.kind])
			} else {
				res.NWoken++
			}
		}
		if i+1 < len(c.Prelude) {
			cur = publishKind(c.Prelude[i+1])
			synctest.Wait()
		}
	}

	// Terminal event of the pick phase.
	switch {
	case c.Term == "cancel":
		cancel()
		synctest.Wait()
		if !rpc.finished() {
			fail("not-woken-by-cancel", "RPC blocked in pick did not return within the quiescence step of its context's cancellation")
		}
	case c.Term == "deadline":
		time.Sleep(2 * time.Second)
		synctest.Wait()
		if !rpc.finished() {
			fail("not-woken-by-deadline", "RPC blocked in pick did not return when its deadline passed")
		} else if _, at := rpc.final(); at != time.Second {
			fail("deadline-time", "RPC blocked in pick returned at %v, deadline was at 1s", at)
		}
	default:
		if len(c.Prelude) > 0 && !rpc.finished() {
			termPicker = publishTerm()
			synctest.Wait()
		}
		if isReady {
			c23ReadyFlow(w, outcome, rpc, cancel, res)
		}
	}
	synctest.Wait()
	if termPicker != nil {
		// the terminal picker was published while the RPC was blocked in pick: it must have been consulted
		if termPicker.nPicks() == 0 {
			fail("not-woken-by-picker-update", "terminal picker generation %d (%s) was published while the RPC was blocked in pick but was never consulted", termPicker.gen, c23KindNames[termPicker.kind])
		} else {
			res.NWoken++
		}
	}

	finished := rpc.finished()
	if !finished {
		fail("rpc-not-finished", "RPC still running at the end of the history: %s", rpc)
	}
	ferr, _ := rpc.final()
	fcode := status.Code(ferr)

	// ---- ledger oracle: every pick result's Done exactly once ----
	checkLedger := func(when string) {
		w.mu.Lock()
		defer w.mu.Unlock()
		for _, d := range w.dones {
			switch n := len(d.Calls); {
			case n == 0 && finished:
				fail("done-missed", "%s: pick #%d (picker gen %d, %s SubConn) was handed to the channel but its Done was never called", when, d.ID, d.Gen, c23KindNames[d.Kind])
			case n > 1:
				fail("done-twice", "%s: pick #%d (picker gen %d, %s SubConn): Done called %d times: %+v", when, d.ID, d.Gen, c23KindNames[d.Kind], n, d.Calls)
			}
		}
	}
	checkLedger("at quiescence after the RPC finished")

	// ---- DoneInfo consistent with the attempt ----
	w.mu.Lock()
	var ready, nonready []*c23DoneRec
	for _, d := range w.dones {
		if d.Kind == c23KReady {
			ready = append(ready, d)
		} else {
			nonready = append(nonready, d)
		}
	}
	for _, d := range nonready {
		for _, call := range d.Calls {
			if call.HasErr || call.BytesSent || call.BytesReceived || call.HasTrailer {
				fail("doneinfo-nonready", "pick #%d returned a SubConn that is not READY; Done must get the zero DoneInfo, got %+v", d.ID, call)
			}
		}
	}
	if finished && isReady && len(ready) > 0 && len(ready[len(ready)-1].Calls) == 1 {
		call := ready[len(ready)-1].Calls[0]
		if !c23CodeIn(call.Code, exp.lastDone) {
			fail("doneinfo-code", "last attempt's Done got Err code %v (%q), the attempt ended with %v", call.Code, call.ErrText, exp.lastDone)
		}
		if call.Code == codes.OK && fcode == codes.OK && (!call.BytesSent || !call.BytesReceived) {
			fail("doneinfo-bytes", "successful attempt's Done got BytesSent=%v BytesReceived=%v", call.BytesSent, call.BytesReceived)
		}
	}
	nReady, nNonReady := len(ready), len(nonready)
	w.mu.Unlock()
	if finished && !c23CodeIn(fcode, exp.final) {
		// the scripted history did not produce the scenario it stands for
		res.Engine = fmt.Sprintf("script drift: RPC ended with %v (%v), scenario expects %v; %s", fcode, ferr, exp.final, rpc)
	}
	if finished && isReady && nReady < exp.attempts && res.Engine == "" && len(res.Fails) == 0 {
		res.Engine = fmt.Sprintf("script drift: %d READY picks, scenario expects >= %d; %s", nReady, exp.attempts, rpc)
	}
	picks := 0
	w.mu.Lock()
	for _, p := range w.pickers {
		picks += p.picks
	}
	w.mu.Unlock()
	res.NDone = nReady + nNonReady
	res.Outcome = fmt.Sprintf("final=%v readyDone=%d nonreadyDone=%d", fcode, nReady, nNonReady)
	res.Trace = fmt.Sprintf("%s | picks=%d dials=%d | %s", rpc, picks, w.dials, c23Ledger(w))

	w.close()
	checkLedger("after ClientConn.Close")
	if e := w.engineErr(); e != "" && res.Engine == "" {
		res.Engine = e
	}
}

func c23KindName(k int) string {
	if k == c23KNone {
		return "nopicker"
	}
	return c23KindNames[k]
}

func c23Ledger(w *c23World) string {
	w.mu.Lock()
	defer w.mu.Unlock()
	var sb strings.Builder
	for _, d := range w.dones {
		fmt.Fprintf(&sb, "pick#%d(gen%d,%s):", d.ID, d.Gen, c23KindNames[d.Kind])
		for _, c := range d.Calls {
			if c.HasErr {
				fmt.Fprintf(&sb, "Done{%v,sent=%v,recv=%v}@%v", c.Code, c.BytesSent, c.BytesReceived, c.At)
			} else {
				fmt.Fprintf(&sb, "Done{nil,sent=%v,recv=%v}@%v", c.BytesSent, c.BytesReceived, c.At)
			}
		}
		sb.WriteByte(' ')
	}
	return strings.TrimSpace(sb.String())
}

// c23ReadyFlow plays the server side (and client events) of one wire outcome
// after a READY picker is in force.
func c23ReadyFlow(w *c23World, outcome string, rpc *c23RPC, cancel func(), res *c23Result) {
	need := func(republish bool) (c23Stream, bool) {
		s, ok := w.awaitStream(republish)
		if !ok && res.Engine == "" {
			res.Engine = fmt.Sprintf("flow %s: expected a request stream on the wire, none arrived; %s", outcome, rpc)
		}
		return s, ok
	}
	pushback := func(ms int) [2]string { return [2]string{"grpc-retry-pushback-ms", fmt.Sprint(ms)} }
	switch outcome {
	case "success":
		if s, ok := need(false); ok {
			s.respondOK()
		}
	case "statuserr":
		if s, ok := need(false); ok {
			s.trailersOnly(int(codes.InvalidArgument))
		}
	case "closeBeforeResp":
		if s, ok := need(false); ok {
			s.Peer.Close()
		}
	case "hdrsThenClose":
		if s, ok := need(false); ok {
			s.Peer.WriteHeaders(s.ID, c23RespHdr, false)
			synctest.Wait()
			s.Peer.Close()
		}
	case "rstRefused":
		if s, ok := need(false); ok {
			s.Peer.WriteRST(s.ID, http2.ErrCodeRefusedStream)
			if s2, ok := need(true); ok {
				s2.respondOK()
			}
		}
	case "goAwayBelow":
		if s, ok := need(false); ok {
			s.Peer.WriteGoAway(0, http2.ErrCodeNo, nil)
			if s2, ok := need(true); ok {
				s2.respondOK()
			}
		}
	case "policyRetryOK":
		if s, ok := need(false); ok {
			s.trailersOnly(int(codes.Unavailable), pushback(50))
			synctest.Wait()
			time.Sleep(50 * time.Millisecond)
			if s2, ok := need(true); ok {
				s2.respondOK()
			}
		}
	case "policyRetryExhaust":
		if s, ok := need(false); ok {
			s.trailersOnly(int(codes.Unavailable), pushback(50))
			synctest.Wait()
			time.Sleep(50 * time.Millisecond)
			if s2, ok := need(true); ok {
				s2.trailersOnly(int(codes.Unavailable), pushback(50))
			}
		}
	case "policyRetryCancelBackoff":
		if s, ok := need(false); ok {
			s.trailersOnly(int(codes.Unavailable), pushback(1000))
			synctest.Wait()
			time.Sleep(100 * time.Millisecond)
			synctest.Wait()
			cancel()
		}
	case "cancelMid":
		if _, ok := need(false); ok {
			cancel()
		}
	case "cancelAfterHdrs":
		if s, ok := need(false); ok {
			s.Peer.WriteHeaders(s.ID, c23RespHdr, false)
			synctest.Wait()
			cancel()
		}
	case "deadlineMid":
		if _, ok := need(false); ok {
			time.Sleep(2 * time.Second)
		}
	case "ccCloseMid":
		if _, ok := need(false); ok {
			w.cc.Close()
		}
	case "unary2Resp", "unary2RespTrailers":
		if s, ok := need(false); ok {
			s.Peer.WriteHeaders(s.ID, c23RespHdr, false)
			s.Peer.WriteData(s.ID, false, wire.GrpcMsg(false, []byte("first")))
			s.Peer.WriteData(s.ID, false, wire.GrpcMsg(false, []byte("second")))
			if outcome == "unary2RespTrailers" {
				s.Peer.WriteHeaders(s.ID, [][2]string{{"grpc-status", "0"}}, true)
			}
		}
	case "retry2CredsFail", "retry2HdrList", "retry2QuotaDeadline", "retry2ConnClose", "retry2RST", "tretry2CredsFail":
		s, ok := need(false)
		if !ok {
			break
		}
		// settings changes that make the NEXT attempt's NewStream fail are sent first
		switch outcome {
		case "retry2HdrList":
			s.Peer.WriteSettings(http2.Setting{ID: http2.SettingMaxHeaderListSize, Val: 16})
		case "retry2QuotaDeadline":
			s.Peer.WriteSettings(http2.Setting{ID: http2.SettingMaxConcurrentStreams, Val: 0})
		}
		if outcome == "tretry2CredsFail" {
			s.Peer.WriteRST(s.ID, http2.ErrCodeRefusedStream) // transparent retry
		} else {
			s.trailersOnly(int(codes.Unavailable), pushback(50)) // retry by policy after 50 ms
			synctest.Wait()
			time.Sleep(50 * time.Millisecond)
		}
		synctest.Wait()
		switch outcome {
		case "retry2ConnClose":
			if s2, ok := need(true); ok {
				s2.Peer.Close()
			}
		case "retry2RST":
			if s2, ok := need(true); ok {
				s2.Peer.WriteRST(s2.ID, http2.ErrCodeRefusedStream)
			}
		case "retry2QuotaDeadline":
			if ss := w.newStreams(); len(ss) != 0 && res.Engine == "" {
				res.Engine = "flow retry2QuotaDeadline: the retry attempt reached the wire although MAX_CONCURRENT_STREAMS=0"
			}
			time.Sleep(2 * time.Second)
		default:
			if ss := w.newStreams(); len(ss) != 0 && res.Engine == "" {
				res.Engine = "flow " + outcome + ": the retry attempt reached the wire although its NewStream had to fail"
			}
		}
	case "nsHdrList":
		synctest.Wait()
		if ss := w.newStreams(); len(ss) != 0 && res.Engine == "" {
			res.Engine = "flow nsHdrList: request headers reached the wire"
		}
	case "nsQuotaGoAway", "nsQuotaClose":
		synctest.Wait()
		if ss := w.newStreams(); len(ss) != 0 && res.Engine == "" {
			res.Engine = "flow nsQuota: request headers reached the wire although MAX_CONCURRENT_STREAMS=0"
		}
		if rpc.finished() && res.Engine == "" {
			res.Engine = "flow nsQuota: RPC finished instead of waiting for stream quota"
		}
		ps := w.peerList()
		if len(ps) == 0 {
			res.Engine = "flow nsQuota: no peer"
			return
		}
		if outcome == "nsQuotaGoAway" {
			ps[0].WriteGoAway(0, http2.ErrCodeNo, nil)
		} else {
			ps[0].Close()
		}
		if s2, ok := need(true); ok {
			s2.respondOK()
		}
	default:
		panic("c23: unknown outcome " + outcome)
	}
	synctest.Wait()
}

func TestVerif_C23_PickDone(t *testing.T) {
	const P = "C23"
	r := vk.Start(t, "c23_pickdone", "exploration", P)
	defer r.Finish()
	maxPrelude := r.Pick(2, 4)
	r.Rule(P, fmt.Sprintf("every history = {fail-fast, wait-for-ready} x every sequence (length <= %d) of blocking picker behaviours met while the RPC is blocked in pick "+
		"(no picker yet [first only], ErrNoSubConnAvailable, non-READY SubConn with Done, plain error [wait-for-ready only]) x terminal event "+
		"(status-error picker, plain-error picker [fail-fast], ctx cancel, deadline, or READY SubConn with Done followed by one of %d wire outcomes: %s) x {Invoke, NewStream/SendMsg/CloseSend/RecvMsg}; "+
		"one synctest bubble per history on a real ClientConn with a scripted LB policy and raw HTTP/2 server peers; "+
		"a history is non-trivial when at least one pick result carrying a Done callback was handed to the channel or a blocked pick had to be woken (distinct by history)",
		maxPrelude, len(c23Outcomes), strings.Join(c23Outcomes, ", ")))
	r.Assume(P, "testing/synctest quiescence (synctest.Wait) = 'nothing more will happen without a new event'; the raw peer's independent x/net/http2 framer; picks whose SubConn is not one returned by NewSubConn are out of protocol (balancer.PickResult doc) and not generated")
	r.Assume(P, "one RPC per history; concurrent blocked picks and racing picker updates are the business of the E1 leg on pickerWrapper (C32)")

	if r.ReplayFile() != "" {
		var c c23Case
		if err := r.LoadReplay(&c); err != nil {
			r.EngineError("replay: %v", err)
			return
		}
		c23Evaluate(r, c)
		return
	}
	c23StartWatchdog(r)
	cases := c23Cases(maxPrelude)
	if sh, _ := r.Shard(); sh == 0 {
		r.Set(P, "histories_total", len(cases))
	}
	r.Set(P, "max_prelude_len", maxPrelude)
	for i, c := range cases {
		if !r.Mine(i) {
			continue
		}
		if r.OverBudget() {
			r.Cap(P, "time budget")
			break
		}
		c23WatchCase(c.String(), c)
		c23Evaluate(r, c)
	}
	c23WatchCase("", nil)
}

func c23Evaluate(r *vk.Run, c c23Case) {
	const P = "C23"
	res := c23Run(r.T, c)
	r.Eval(P, 1)
	for _, f := range res.Fails {
		key := f.Class + ": " + c.String()
		desc := f.Desc
		if f.Class == "done-missed" && strings.HasPrefix(c.Term, "ready:unary2Resp") {
			// one canonical key for every history of this family (quick and thorough alike)
			key = c23KeySecondResponse
			desc = "raw server answers a non-server-streaming RPC (cc.Invoke, or NewStream with ServerStreams=false + SendMsg/CloseSend/RecvMsg) with HEADERS(:status 200), DATA(gRPC message), DATA(second gRPC message) [+ optional trailers grpc-status 0]: the call returns INTERNAL 'cardinality violation' but the client stream is not finished, so the READY pick's Done callback is never invoked (not by quiescence after the RPC returned; for Invoke not even after ClientConn.Close). First history: " + c.String() + " | " + f.Desc
		}
		r.Violation(P, key, desc+" | trace: "+res.Trace, c)
	}
	if res.Engine != "" {
		if len(res.Fails) == 0 {
			r.EngineError("%s: %s", c, res.Engine)
		}
		return
	}
	if res.NDone > 0 || res.NWoken > 0 {
		r.Nontrivial(P, c.String())
	}
	r.Outcome(P, res.Outcome)
	r.AddInt(P, "done_callbacks_ledgered", int64(res.NDone))
	r.AddInt(P, "blocked_picks_woken", int64(res.NWoken))
	if c.Term == "ready:goAwayBelow" || c.Term == "ready:policyRetryCancelBackoff" || (len(c.Prelude) == 2 && c.Term == "ready:success") {
		b, _ := json.Marshal(c)
		r.Sample(P, map[string]any{"case": json.RawMessage(b), "name": c.String(), "outcome": res.Outcome, "trace": res.Trace})
	}
}

// c23Watch turns a history that cannot reach quiescence (a goroutine parked on
// a non-durable primitive such as a mutex held across a wait, or a zero-time
// livelock) into a verdict instead of a worker killed by the driver's timeout:
// a goroutine OUTSIDE the bubbles (real clock) watches the current case.
type c23WatchState struct {
	mu    sync.Mutex
	name  string
	c     any
	since time.Time
}

var c23Watched c23WatchState

const c23HangLimit = 150 * time.Second // real time; a history normally takes milliseconds

func c23WatchCase(name string, c any) {
	c23Watched.mu.Lock()
	c23Watched.name, c23Watched.c, c23Watched.since = name, c, time.Now()
	c23Watched.mu.Unlock()
}

func c23StartWatchdog(r *vk.Run) {
	go func() {
		for {
			time.Sleep(time.Second)
			c23Watched.mu.Lock()
			name, c, since := c23Watched.name, c23Watched.c, c23Watched.since
			c23Watched.mu.Unlock()
			if name != "" && time.Since(since) > c23HangLimit {
				r.Violation("C23", "hang: "+name, fmt.Sprintf("the history did not reach quiescence within %v of real time: some goroutine is neither runnable-to-completion nor durably blocked (e.g. parked on a mutex that is held across a timer wait), so virtual time cannot advance and the call never ends", c23HangLimit), c)
				os.Exit(3)
			}
		}
	}()
}
