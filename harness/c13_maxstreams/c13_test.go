//go:build verif

package transport

// C13 (+ the NewStream-waiter clause of C17), engine E4: a real http2Client
// over an in-memory connection against a scripted raw HTTP/2 server peer.
// Every bounded event history runs in its own synctest bubble with a
// run-to-quiescence (synctest.Wait) after every event. The oracle is a
// concurrency ledger computed from the peer's decoded frame log (HEADERS /
// RST_STREAM / END_STREAM / SETTINGS-ACK positions) and from what the
// application sees (NewStream returned? with an error?). No counter of the
// implementation is read.

import (
	"context"
	"errors"
	"fmt"
	"math"
	"net"
	"sort"
	"strings"
	"sync"
	"testing"
	"testing/synctest"

	"golang.org/x/net/http2"
	"google.golang.org/grpc/codes"
	"google.golang.org/grpc/internal/verif/vk"
	"google.golang.org/grpc/internal/verif/wire"
	"google.golang.org/grpc/mem"
	"google.golang.org/grpc/metadata"
	"google.golang.org/grpc/resolver"
	"google.golang.org/grpc/status"
)

const (
	c13MaxCalls  = 4
	c13Unlimited = uint64(math.MaxUint64)
	c13InitNone  = -1 // the server preface carries no MAX_CONCURRENT_STREAMS
	// MAX_HEADER_LIST_SIZE menu: an ordinary gRPC request header list is a few
	// hundred bytes, the "big" call carries c13BigMD extra bytes of metadata.
	c13HLSSmall = uint32(2048)
	c13HLSLarge = uint32(1 << 20)
	c13BigMD    = 4096
)

// c13Ev is one event of a history.
type c13Ev struct {
	kind string // new newBig srvEnd srvRST appClose cancel mcs hls goaway close
	k    int    // k-th open stream (ascending id) / k-th waiting call (issue order)
	v    uint32 // MAX_CONCURRENT_STREAMS value
}

func (e c13Ev) String() string {
	switch e.kind {
	case "srvEnd", "srvRST", "appClose", "cancel":
		return fmt.Sprintf("%s(%d)", e.kind, e.k)
	case "mcs":
		return fmt.Sprintf("mcs=%d", e.v)
	case "hls":
		return fmt.Sprintf("hls=%d", e.v)
	}
	return e.kind
}

type c13Call struct {
	idx      int
	cancel   context.CancelFunc
	returned bool
	s        *ClientStream
	err      error
	// harness-side bookkeeping
	wasParked bool // seen un-returned at a quiescent point
	cancelled bool
	big       bool // carries c13BigMD bytes of metadata
}

type c13Fail struct{ prop, class, desc string }

type c13Res struct {
	events  []string
	fails   []c13Fail
	engine  string
	log     string
	steps   int
	widths  []int
	nondet  string
	outcome string
	// statistics for the non-triviality rule / outcome classes
	parkedEver, loweredBelowOpen, zeroLimit     bool
	wokenByClose, wokenByRaise                  int
	relCancel, relGoAway, relClose, failedAfter int
	maxOpen, admitted                           int
	unackedSettings                             bool
	// first mismatch of the in-package cross-check, and the history prefix at which it was seen
	cross       *c13Fail
	crossEvents []string
	// calls with an oversize header list
	bigRejected, bigRejectedWhileParked, bigRejectedAtZero, bigOnWire, bigParked int
}

// c13Ledger is the wire-level concurrency ledger (server's point of view).
type c13Ledger struct {
	seen      int
	sentMCS   []uint64 // effective MAX_CONCURRENT_STREAMS after the j-th SETTINGS the server sent
	acks      int      // SETTINGS ACK frames received
	bindFloor int      // SETTINGS sent before the current step: bind whether ACKed or not (the client was quiescent since)
	open      map[uint32]*c13WireStream
	lastID    uint32
	headers   []uint32
	goAwayOut bool // client sent GOAWAY
}

type c13WireStream struct{ srvEnded, cliEnded bool }

// limit returns the largest MAX_CONCURRENT_STREAMS value the client may
// legitimately be using at the current log position: the value of the latest
// SETTINGS it has ACKed (or that it received before the previous quiescent
// point), or any value advertised later and not ACKed yet.
func (l *c13Ledger) limit() uint64 {
	acked := max(l.acks, l.bindFloor)
	acked = min(acked, len(l.sentMCS))
	lim := c13Unlimited // RFC 7540: initially unlimited
	if acked > 0 {
		lim = l.sentMCS[acked-1]
	}
	for j := acked; j < len(l.sentMCS); j++ {
		lim = max(lim, l.sentMCS[j])
	}
	return lim
}

func (l *c13Ledger) openIDs() []uint32 {
	var ids []uint32
	for id, st := range l.open {
		if !st.srvEnded {
			ids = append(ids, id)
		}
	}
	sort.Slice(ids, func(i, j int) bool { return ids[i] < ids[j] })
	return ids
}

func c13LimStr(v uint64) string {
	if v == c13Unlimited {
		return "unlimited"
	}
	return fmt.Sprint(v)
}

// c13Run executes one history. choose is asked at every step for the index of
// the next event among the applicable ones (-1 = stop).
// hls0 is the MAX_HEADER_LIST_SIZE of the server preface (0 = not advertised:
// then the header-list events are not part of the alphabet).
func c13Run(t *testing.T, init int, hls0 uint32, depth int, choose func(step int, evs []c13Ev) int) (res c13Res) {
	synctest.Test(t, func(t *testing.T) {
		var (
			mu       sync.Mutex
			calls    []*c13Call
			onCloses int
		)
		defer func() {
			if p := recover(); p != nil {
				res.fails = append(res.fails, c13Fail{"C13", "panic", fmt.Sprintf("panic: %v", p)})
			}
		}()
		cconn, sconn := wire.Pipe()
		peer := wire.NewServerPeer(sconn)
		peer.AutoAckSettings = true
		peer.AutoAckPing = true
		led := &c13Ledger{open: map[uint32]*c13WireStream{}}
		var ss0 []http2.Setting
		if init == c13InitNone {
			led.sentMCS = append(led.sentMCS, c13Unlimited)
		} else {
			ss0 = append(ss0, http2.Setting{ID: http2.SettingMaxConcurrentStreams, Val: uint32(init)})
			led.sentMCS = append(led.sentMCS, uint64(init))
		}
		if hls0 != 0 {
			ss0 = append(ss0, http2.Setting{ID: http2.SettingMaxHeaderListSize, Val: hls0})
		}
		peer.WriteSettings(ss0...)
		advertised := led.sentMCS[0]
		hlsNow := hls0
		ctx, cancelAll := context.WithCancel(context.Background())
		defer cancelAll()
		dial := func(context.Context, string) (net.Conn, error) { return cconn, nil }
		ct, err := NewHTTP2Client(ctx, ctx, resolver.Address{Addr: "x"}, ConnectOptions{Dialer: dial, BufferPool: mem.DefaultBufferPool(), StaticWindowSize: true}, func(GoAwayInfo) {
			mu.Lock()
			onCloses++
			mu.Unlock()
		})
		if err != nil {
			res.engine = "NewHTTP2Client: " + err.Error()
			peer.Close()
			return
		}
		tr := ct.(*http2Client)
		closedByApp := false
		defer func() {
			res.log = peer.LogString()
			cancelAll()
			if !closedByApp {
				tr.Close(errors.New("verif: history finished"))
			}
			peer.Close()
			synctest.Wait()
			mu.Lock()
			for _, c := range calls {
				if !c.returned && res.engine == "" {
					res.engine = fmt.Sprintf("NewStream call #%d did not return after the transport was closed", c.idx)
				}
			}
			mu.Unlock()
		}()
		synctest.Wait()

		goAwaySent := false
		fail := func(prop, class, format string, a ...any) {
			res.fails = append(res.fails, c13Fail{prop, class, fmt.Sprintf(format, a...)})
		}
		// scan consumes new frames of the client->server log, position by position.
		scan := func() {
			lg := peer.Log()
			for ; led.seen < len(lg); led.seen++ {
				f := lg[led.seen]
				switch f.Type {
				case "SETTINGS":
					if f.Ack {
						led.acks++
					}
				case "HEADERS":
					id := f.Stream
					if id%2 != 1 {
						fail("C13", "id-not-odd", "frame #%d: client opened stream %d (even id)", f.Seq, id)
					}
					if id <= led.lastID {
						fail("C13", "id-not-increasing", "frame #%d: client sent HEADERS for stream %d after stream %d", f.Seq, id, led.lastID)
					}
					lim := led.limit()
					if uint64(len(led.open))+1 > lim {
						fail("C13", "over-limit", "frame #%d: HEADERS(s%d) makes %d streams open (open before: %v) but the largest MAX_CONCURRENT_STREAMS the client may be using here is %s (SETTINGS sent: %d, ACKed: %d, advertised values: %v)", f.Seq, id, len(led.open)+1, led.openIDs(), c13LimStr(lim), len(led.sentMCS), led.acks, c13Lims(led.sentMCS))
					}
					led.open[id] = &c13WireStream{cliEnded: f.EndStream}
					led.lastID = max(led.lastID, id)
					led.headers = append(led.headers, id)
					res.maxOpen = max(res.maxOpen, len(led.open))
				case "DATA":
					if st := led.open[f.Stream]; st != nil && f.EndStream {
						st.cliEnded = true
						if st.srvEnded {
							delete(led.open, f.Stream)
						}
					}
				case "RST_STREAM":
					delete(led.open, f.Stream)
				case "GOAWAY":
					led.goAwayOut = true
				}
			}
		}
		snapshot := func() (waiting, appOpen []*c13Call, okN, errN int) {
			mu.Lock()
			defer mu.Unlock()
			for _, c := range calls {
				switch {
				case !c.returned:
					waiting = append(waiting, c)
				case c.err != nil:
					errN++
				default:
					okN++
					select {
					case <-c.s.Done():
					default:
						appOpen = append(appOpen, c)
					}
				}
			}
			return
		}
		scan()

		for step := 0; step < depth; step++ {
			waiting, appOpen, _, _ := snapshot()
			wireOpen := led.openIDs()
			connGone := peer.Closed() || closedByApp
			// ---- applicable events, in a canonical order ----
			var evs []c13Ev
			if len(calls) < c13MaxCalls {
				evs = append(evs, c13Ev{kind: "new"})
				if hls0 != 0 {
					evs = append(evs, c13Ev{kind: "newBig"})
				}
			}
			if !connGone {
				for k := range wireOpen {
					evs = append(evs, c13Ev{kind: "srvEnd", k: k})
				}
				for k := range wireOpen {
					evs = append(evs, c13Ev{kind: "srvRST", k: k})
				}
				for k := range appOpen {
					evs = append(evs, c13Ev{kind: "appClose", k: k})
				}
				for k := range waiting {
					evs = append(evs, c13Ev{kind: "cancel", k: k})
				}
				if !goAwaySent {
					for _, v := range []uint32{0, 1, 2, 3} {
						if uint64(v) != advertised {
							evs = append(evs, c13Ev{kind: "mcs", v: v})
						}
					}
					if hls0 != 0 {
						if hlsNow == c13HLSSmall {
							evs = append(evs, c13Ev{kind: "hls", v: c13HLSLarge})
						} else {
							evs = append(evs, c13Ev{kind: "hls", v: c13HLSSmall})
						}
					}
					evs = append(evs, c13Ev{kind: "goaway"})
				}
				evs = append(evs, c13Ev{kind: "close"})
			}
			res.widths = append(res.widths, len(evs))
			if len(evs) == 0 {
				break
			}
			ci := choose(step, evs)
			if ci < 0 || ci >= len(evs) {
				if ci >= len(evs) {
					res.nondet = fmt.Sprintf("step %d: choice %d but only %d applicable events", step, ci, len(evs))
				}
				res.widths = res.widths[:len(res.widths)-1]
				break
			}
			ev := evs[ci]
			res.events = append(res.events, ev.String())
			res.steps++
			for _, c := range waiting {
				c.wasParked = true
			}
			led.bindFloor = len(led.sentMCS)
			var newCall, target *c13Call

			// ---- apply ----
			openAtStart, waitingAtStart, limAtStart := len(led.open), len(waiting), led.limit()
			switch ev.kind {
			case "new", "newBig":
				cctx, cancel := context.WithCancel(ctx)
				c := &c13Call{idx: len(calls), cancel: cancel, big: ev.kind == "newBig"}
				if c.big {
					cctx = metadata.NewOutgoingContext(cctx, metadata.Pairs("verif-big", strings.Repeat("x", c13BigMD)))
				}
				mu.Lock()
				calls = append(calls, c)
				mu.Unlock()
				newCall = c
				go func() {
					s, err := tr.NewStream(cctx, &CallHdr{Host: "x", Method: "/s/m"}, nil)
					mu.Lock()
					c.returned, c.s, c.err = true, s, err
					mu.Unlock()
				}()
			case "srvEnd":
				id := wireOpen[ev.k]
				st := led.open[id]
				st.srvEnded = true
				if st.cliEnded {
					delete(led.open, id)
				}
				peer.WriteHeaders(id, [][2]string{{":status", "200"}, {"content-type", "application/grpc"}, {"grpc-status", "0"}}, true)
			case "srvRST":
				id := wireOpen[ev.k]
				delete(led.open, id)
				peer.WriteRST(id, http2.ErrCodeCancel)
			case "appClose":
				target = appOpen[ev.k]
				target.s.Close(status.Error(codes.Canceled, "verif: application cancelled the RPC"))
			case "cancel":
				target = waiting[ev.k]
				target.cancelled = true
				target.cancel()
			case "mcs":
				peer.WriteSettings(http2.Setting{ID: http2.SettingMaxConcurrentStreams, Val: ev.v})
				led.sentMCS = append(led.sentMCS, uint64(ev.v))
				advertised = uint64(ev.v)
			case "hls":
				// a SETTINGS frame without MAX_CONCURRENT_STREAMS leaves the limit unchanged
				peer.WriteSettings(http2.Setting{ID: http2.SettingMaxHeaderListSize, Val: ev.v})
				led.sentMCS = append(led.sentMCS, led.sentMCS[len(led.sentMCS)-1])
				hlsNow = ev.v
			case "goaway":
				goAwaySent = true
				peer.WriteGoAway(1<<31-1, http2.ErrCodeNo, nil)
			case "close":
				closedByApp = true
				tr.Close(errors.New("verif: application closed the transport"))
			}
			synctest.Wait()

			// ---- observe + oracle ----
			nfail := len(res.fails)
			scan()
			// from here on every SETTINGS sent so far binds (the client is quiescent)
			led.bindFloor = len(led.sentMCS)
			if led.acks < len(led.sentMCS) && !peer.Closed() && !closedByApp {
				res.unackedSettings = true
			}
			waiting2, _, okN, errN := snapshot()
			lim := led.limit()
			connGone = peer.Closed() || closedByApp
			if lim == 0 {
				res.zeroLimit = true
			}
			if lim != c13Unlimited && uint64(len(led.open)) > lim {
				res.loweredBelowOpen = true
			}
			if len(waiting2) > 0 {
				res.parkedEver = true
			}
			res.admitted = okN
			// (a) every successful NewStream is exactly one HEADERS on the wire, none without
			if okN != len(led.headers) {
				fail("C13", "calls-vs-headers", "after %s: %d NewStream calls returned a stream but the server saw %d HEADERS frames %v", ev, okN, len(led.headers), led.headers)
			}
			mu.Lock()
			for _, c := range calls {
				if c.returned && c.err == nil {
					found := false
					for _, id := range led.headers {
						if id == c.s.id {
							found = true
						}
					}
					if !found {
						fail("C13", "calls-vs-headers", "after %s: NewStream call #%d returned stream id %d but the server never saw its HEADERS", ev, c.idx, c.s.id)
					}
				}
			}
			mu.Unlock()
			crossNow := false
			// (a') the client's own count of active streams is the wire's: a call that
			// was rejected locally (or is parked) holds no stream
			if !connGone {
				tr.mu.Lock()
				nActive := len(tr.activeStreams)
				var aids []uint32
				for id := range tr.activeStreams {
					aids = append(aids, id)
				}
				tr.mu.Unlock()
				sort.Slice(aids, func(i, j int) bool { return aids[i] < aids[j] })
				if nActive != len(led.open) {
					// secondary (in-package) check: remembered, reported only if no
					// property-text oracle fires later in this history
					crossNow = true
					if res.cross == nil {
						res.cross = &c13Fail{"C13", "client-active-count-vs-wire", fmt.Sprintf("after %s: the client holds %d active streams %v but %d streams are open on the wire %v", ev, nActive, aids, len(led.open), led.openIDs())}
						res.crossEvents = append([]string(nil), res.events...)
					}
				}
			}
			// (b) a parked call is released, with an error, by ctx cancel / GOAWAY / Close
			stillWaiting := func(c *c13Call) bool {
				for _, w := range waiting2 {
					if w == c {
						return true
					}
				}
				return false
			}
			if ev.kind == "newBig" {
				switch {
				case stillWaiting(newCall):
					res.bigParked++
				case newCall.err == nil:
					res.bigOnWire++
				default:
					res.bigRejected++
					if waitingAtStart > 0 {
						res.bigRejectedWhileParked++
					}
					if limAtStart != c13Unlimited && uint64(openAtStart) >= limAtStart {
						res.bigRejectedAtZero++
					}
				}
			}
			switch ev.kind {
			case "cancel":
				if stillWaiting(target) {
					fail("C13", "waiter-not-released-on-cancel", "after %s: NewStream call #%d is still blocked although its context was cancelled", ev, target.idx)
				} else if target.err != nil {
					res.relCancel++
				}
			case "goaway", "close":
				for _, w := range waiting2 {
					fail("C13", "waiter-not-released-on-"+ev.kind, "after %s: NewStream call #%d is still blocked", ev, w.idx)
				}
				for _, c := range waiting {
					if !stillWaiting(c) && c.err != nil {
						if ev.kind == "goaway" {
							res.relGoAway++
						} else {
							res.relClose++
						}
					}
				}
			case "new":
				if (goAwaySent || connGone) && !stillWaiting(newCall) && newCall.err != nil {
					res.failedAfter++
				}
			}
			if (goAwaySent || connGone) && len(waiting2) > 0 && ev.kind != "goaway" && ev.kind != "close" {
				for _, w := range waiting2 {
					fail("C13", "waiter-parked-on-dead-transport", "after %s: NewStream call #%d is blocked although the transport is draining/closed (goaway=%v closed=%v)", ev, w.idx, goAwaySent, connGone)
				}
			}
			// (c) never parked while quota is free
			if !goAwaySent && !connGone && len(waiting2) > 0 && (lim == c13Unlimited || uint64(len(led.open)) < lim) {
				var ws []int
				for _, w := range waiting2 {
					ws = append(ws, w.idx)
				}
				d := fmt.Sprintf("after %s: NewStream calls %v are parked while %d streams are open %v and MAX_CONCURRENT_STREAMS is %s; the transport is neither draining nor closed", ev, ws, len(led.open), led.openIDs(), c13LimStr(lim))
				// Sub-class with its own canonical key: in this very step a call that had been
				// parked returned with a local error although nobody cancelled it and the
				// transport is healthy, i.e. it was woken by the freed quota, failed on its
				// own, and the wake-up did not reach the calls that are still parked.
				sub := ""
				if ev.kind != "cancel" && !crossNow && res.cross == nil {
					for _, c := range waiting {
						if !stillWaiting(c) && c.err != nil && !c.cancelled {
							sub = "/wakeup-consumed-by-locally-rejected-waiter"
							d += fmt.Sprintf("; call #%d, parked until this step, returned %q in it", c.idx, c.err.Error())
						}
					}
				}
				fail("C13", "waiter-not-admitted"+sub, "%s", d)
				fail("C17", "newstream-parked-while-quota-free"+sub, "%s", d)
			}
			// statistics: who woke the waiters
			for _, c := range waiting {
				if !stillWaiting(c) && c.err == nil {
					switch ev.kind {
					case "srvEnd", "srvRST", "appClose":
						res.wokenByClose++
					case "mcs":
						res.wokenByRaise++
					}
				}
			}
			_ = errN
			if len(res.fails) > nfail {
				break // the first failing step identifies the case; later steps would only repeat it
			}
		}
		mu.Lock()
		res.outcome = fmt.Sprintf("admitted=%d maxopen=%d parked=%v woken(close=%d,raise=%d) released(cancel=%d,goaway=%d,close=%d) refused-after-goaway/close=%d lowered-below-open=%v zero-limit=%v closed-by-peer=%v",
			res.admitted, res.maxOpen, res.parkedEver, min(res.wokenByClose, 2), min(res.wokenByRaise, 2), min(res.relCancel, 1), min(res.relGoAway, 1), min(res.relClose, 1), min(res.failedAfter, 1), res.loweredBelowOpen, res.zeroLimit, peer.Closed() && !closedByApp)
		if hls0 != 0 {
			res.outcome += fmt.Sprintf(" oversize(rejected=%d,while-others-parked=%v,at-zero-quota=%v,on-wire=%d,parked=%d)", min(res.bigRejected, 2), res.bigRejectedWhileParked > 0, res.bigRejectedAtZero > 0, min(res.bigOnWire, 1), min(res.bigParked, 1))
		}
		mu.Unlock()
	})
	return res
}

func c13Lims(v []uint64) []string {
	var s []string
	for _, x := range v {
		s = append(s, c13LimStr(x))
	}
	return s
}

// c13Odo is the stateless depth-first enumerator: path[j] is the index chosen
// at step j among width[j] applicable events (widths are learnt by running).
type c13Odo struct {
	path, width []int
	fixed       int // path[:fixed] never changes
	bad         string
}

func (o *c13Odo) choose(step, n int) int {
	if step < len(o.path) {
		if step < len(o.width) && o.width[step] != n && o.bad == "" {
			o.bad = fmt.Sprintf("step %d had %d applicable events, now %d (path %v)", step, o.width[step], n, o.path)
		}
		if step >= len(o.width) {
			o.width = append(o.width, n)
		}
		return o.path[step]
	}
	o.path = append(o.path, 0)
	o.width = append(o.width, n)
	return 0
}

// next moves to the next leaf; false when the subtree below path[:fixed] is exhausted.
func (o *c13Odo) next() bool {
	// a run may have ended before consuming the whole path (cannot happen for a
	// deterministic system, guarded by bad)
	for len(o.path) > o.fixed {
		last := len(o.path) - 1
		if o.path[last]+1 < o.width[last] {
			o.path[last]++
			o.width = o.width[:last+1]
			return true
		}
		o.path = o.path[:last]
		o.width = o.width[:last]
	}
	return false
}

type c13Replay struct {
	Init    int      `json:"init"`
	HLS     uint32   `json:"hls"`
	Choices []int    `json:"choices"`
	Events  []string `json:"events"`
}

func c13InitStr(init int) string {
	if init == c13InitNone {
		return "none"
	}
	return fmt.Sprint(init)
}

// c13Cfg is one initial configuration (server preface).
type c13Cfg struct {
	init int
	hls  uint32
}

func (c c13Cfg) String() string {
	if c.hls == 0 {
		return c13InitStr(c.init)
	}
	return fmt.Sprintf("%s,hls=%d", c13InitStr(c.init), c.hls)
}

func TestVerif_C13_MaxStreams(t *testing.T) {
	const P, Q = "C13", "C17"
	r := vk.Start(t, "c13_maxstreams", "exploration", P, Q)
	defer r.Finish()
	depth := r.Pick(6, 8)
	// the header-list configurations have two more events per step: one level less
	depthHLS := r.Pick(5, 7)
	var cfgs []c13Cfg
	for _, init := range []int{c13InitNone, 0, 1, 2, 3} {
		cfgs = append(cfgs, c13Cfg{init: init})
	}
	for _, init := range []int{0, 1, 2, 3} {
		cfgs = append(cfgs, c13Cfg{init: init, hls: c13HLSSmall})
	}
	// oversize calls can park on quota only while the advertised limit is large
	for _, init := range []int{1, 2} {
		cfgs = append(cfgs, c13Cfg{init: init, hls: c13HLSLarge})
	}
	rule := fmt.Sprintf("every event history of length %d (the oracle runs after every event, so all shorter histories are covered as prefixes) for each initial MAX_CONCURRENT_STREAMS in {none,0,1,2,3}, over the alphabet {newStream (async, <=%d calls), server trailers END_STREAM on the k-th open stream, server RST_STREAM on it, application Close(err) of it, ctx-cancel of the k-th parked NewStream, server SETTINGS(MAX_CONCURRENT_STREAMS in {0,1,2,3} != last advertised), server GOAWAY(2^31-1), transport Close}; plus every history of length %d for initial (MAX_CONCURRENT_STREAMS, MAX_HEADER_LIST_SIZE) in {0,1,2,3}x{%d} and {1,2}x{1048576} in the server preface, over the same alphabet extended by {newStream whose header list carries %d bytes of metadata (rejected locally while the advertised MAX_HEADER_LIST_SIZE is %d, sent while it is %d), server SETTINGS(MAX_HEADER_LIST_SIZE toggled between the two)}; inapplicable events pruned; real http2Client against a scripted raw server, one synctest bubble per history, run to quiescence after every event", depth, c13MaxCalls, depthHLS, c13HLSSmall, c13BigMD, c13HLSSmall, c13HLSLarge)
	r.Rule(P, rule+"; non-trivial = a history in which a NewStream call was parked at some quiescent point, the limit was lowered below the open count, or a call was rejected locally for its header list size")
	r.Rule(Q, rule+"; non-trivial = a history in which a parked NewStream call was woken (by a stream close or a SETTINGS raise) or released (ctx cancel, GOAWAY, Close)")
	for _, p := range []string{P, Q} {
		r.Assume(p, "history level only: inside one big step the goroutine order is the Go scheduler's at GOMAXPROCS=1 (schedules are the business of an E1 leg)")
		r.Assume(p, "a new limit binds from the client's SETTINGS ACK in the client->server frame log (or from the next quiescent point at the latest); between the server's SETTINGS and that ACK the larger of the old and new value is allowed")
	}
	r.Assume(P, "a stream counts as open from its HEADERS until the client's RST_STREAM, the server's RST_STREAM, or END_STREAM in both directions (RFC 7540 5.1.2: half-closed streams count)")
	r.Assume(P, "a NewStream call that fails locally (header list larger than the advertised MAX_HEADER_LIST_SIZE) holds no stream: it must not change what later calls are admitted; stream ids need only be odd and strictly increasing (gaps are not judged); len(http2Client.activeStreams) is read in-package only to cross-check it against the wire ledger's open count")

	report := func(cfg c13Cfg, o *c13Odo, res c13Res) {
		if res.engine != "" {
			r.EngineError("init=%s history=%v: %s", cfg, res.events, res.engine)
		}
		if len(res.fails) == 0 && res.cross != nil {
			key := fmt.Sprintf("%s|init=%s|%s", res.cross.class, cfg, strings.Join(res.crossEvents, ","))
			r.Violation(res.cross.prop, key, fmt.Sprintf("%s\n  initial MAX_CONCURRENT_STREAMS=%s history: %s\n  client frames: %s", res.cross.desc, cfg, strings.Join(res.crossEvents, ","), res.log),
				c13Replay{Init: cfg.init, HLS: cfg.hls, Choices: append([]int(nil), o.path[:min(len(o.path), len(res.crossEvents))]...), Events: res.crossEvents})
		}
		for _, f := range res.fails {
			key := fmt.Sprintf("%s|init=%s|%s", f.class, cfg, strings.Join(res.events, ","))
			if strings.HasSuffix(f.class, "/wakeup-consumed-by-locally-rejected-waiter") {
				// one canonical key per property: every history of this shape shows the same thing
				key = f.class
			}
			r.Violation(f.prop, key, fmt.Sprintf("%s\n  initial MAX_CONCURRENT_STREAMS=%s history: %s\n  client frames: %s", f.desc, cfg, strings.Join(res.events, ","), res.log),
				c13Replay{Init: cfg.init, HLS: cfg.hls, Choices: append([]int(nil), o.path[:min(len(o.path), res.steps)]...), Events: res.events})
		}
	}
	if r.ReplayFile() != "" {
		var rp c13Replay
		if err := r.LoadReplay(&rp); err != nil {
			r.EngineError("replay: %v", err)
			return
		}
		cfg := c13Cfg{init: rp.Init, hls: rp.HLS}
		o := &c13Odo{path: rp.Choices, fixed: len(rp.Choices)}
		res := c13Run(t, cfg.init, cfg.hls, len(rp.Choices), func(step int, evs []c13Ev) int {
			if step >= len(rp.Choices) {
				return -1
			}
			return rp.Choices[step]
		})
		r.Eval(P, 1)
		r.Eval(Q, 1)
		fmt.Printf("replay init=%s events=%v fails=%v outcome=%s\n  log=%s\n", cfg, res.events, res.fails, res.outcome, res.log)
		report(cfg, o, res)
		return
	}

	const prefixDepth = 2
	var hist, steps, histHLS, rejectedHist int64
	item := 0
	capped := false
	nsampBig := 0
outer:
	for _, cfg := range cfgs {
		d := depth
		if cfg.hls != 0 {
			d = depthHLS
		}
		// phase 1: every shard enumerates the (few) prefixes of length prefixDepth
		var prefixes [][]int
		po := &c13Odo{}
		for {
			res := c13Run(t, cfg.init, cfg.hls, prefixDepth, func(step int, evs []c13Ev) int { return po.choose(step, len(evs)) })
			if res.engine != "" || po.bad != "" {
				r.EngineError("prefix enumeration init=%s path=%v: %s %s", cfg, po.path, res.engine, po.bad)
				break outer
			}
			prefixes = append(prefixes, append([]int(nil), po.path...))
			if !po.next() {
				break
			}
		}
		// phase 2: depth-first below the prefixes that belong to this shard
		for _, pre := range prefixes {
			item++
			if !r.Mine(item) {
				continue
			}
			o := &c13Odo{path: append([]int(nil), pre...), fixed: len(pre)}
			for {
				if r.OverBudget() {
					capped = true
					break outer
				}
				res := c13Run(t, cfg.init, cfg.hls, d, func(step int, evs []c13Ev) int { return o.choose(step, len(evs)) })
				if o.bad != "" || res.nondet != "" {
					r.EngineError("non-deterministic applicability, init=%s: %s %s", cfg, o.bad, res.nondet)
					break outer
				}
				hist++
				if cfg.hls != 0 {
					histHLS++
				}
				steps += int64(res.steps)
				hkey := cfg.String() + "|" + strings.Join(res.events, ",")
				r.Outcome(P, res.outcome)
				if res.parkedEver || res.loweredBelowOpen || res.bigRejected > 0 {
					r.Nontrivial(P, hkey)
					if res.wokenByClose+res.wokenByRaise > 0 && res.relCancel+res.relGoAway+res.relClose > 0 {
						r.Sample(P, map[string]any{"init": cfg.String(), "history": res.events, "client_frames": res.log, "outcome": res.outcome})
					}
				}
				if res.bigRejected > 0 {
					rejectedHist++
					if nsampBig < 1 && res.bigRejectedWhileParked > 0 && res.wokenByClose+res.wokenByRaise > 0 {
						if sh, _ := r.Shard(); sh < 2 {
							nsampBig++
							r.Sample(P, map[string]any{"init": cfg.String(), "history": res.events, "client_frames": res.log, "outcome": res.outcome})
						}
					}
				}
				woke := res.wokenByClose+res.wokenByRaise+res.relCancel+res.relGoAway+res.relClose > 0
				if woke {
					r.Nontrivial(Q, hkey)
					if res.wokenByClose > 0 && res.wokenByRaise > 0 {
						r.Sample(Q, map[string]any{"init": cfg.String(), "history": res.events, "client_frames": res.log, "outcome": res.outcome})
					}
				}
				r.Outcome(Q, fmt.Sprintf("parked=%v woken-by-close=%v woken-by-raise=%v released(cancel=%v,goaway=%v,close=%v)", res.parkedEver, res.wokenByClose > 0, res.wokenByRaise > 0, res.relCancel > 0, res.relGoAway > 0, res.relClose > 0))
				if res.unackedSettings {
					r.AddInt(P, "histories_with_unacked_settings", 1)
				}
				report(cfg, o, res)
				if !o.next() {
					break
				}
			}
		}
	}
	for _, p := range []string{P, Q} {
		r.Eval(p, hist)
		r.AddInt(p, "steps", steps)
		r.Set(p, "depth_bound", depth)
		if capped {
			r.Cap(p, "time budget reached before all histories were run")
		}
	}
	r.AddInt(P, "histories_with_header_list_limit", histHLS)
	r.AddInt(P, "histories_with_locally_rejected_call", rejectedHist)
	r.Set(P, "depth_bound_header_list_configs", depthHLS)
}
