//go:build verif

package transport

// C12, in-package leg (engine E3/E4 hybrid, level fault_enumeration): the real
// (*http2Server).operateHeaders is called directly with synthesised
// http2.MetaHeadersFrames — bypassing the x/net framer's own validation, so
// e.g. a repeated :authority reaches gRPC's check — for EVERY ordered
// selection of <= 4 distinct fields from a menu, with and without END_STREAM.
// Oracle: the same reference admission as the wire leg, written from the
// statement: the stream handler callback must not be invoked for a forbidden
// field list; operateHeaders must not panic.

import (
	"context"
	"encoding/base64"
	"errors"
	"fmt"
	"io"
	"math"
	"regexp"
	"sort"
	"strings"
	"testing"
	"testing/synctest"
	"time"

	"golang.org/x/net/http2"
	"golang.org/x/net/http2/hpack"
	"google.golang.org/grpc/grpclog"
	"google.golang.org/grpc/internal/verif/vk"
	"google.golang.org/grpc/internal/verif/wire"
	"google.golang.org/grpc/mem"
)

var c12ohMenu = [][2]string{
	{":method", "POST"}, {":method", "GET"},
	{":path", "/s/m"},
	{":authority", "a.test"}, {":authority", "b.test"},
	{"host", "h.test"}, {"host", "g.test"},
	{"content-type", "application/grpc"}, {"content-type", "application/grpc+proto"}, {"content-type", "text/html"},
	{"grpc-timeout", "1S"}, {"grpc-timeout", "x"}, {"grpc-timeout", ""}, {"grpc-timeout", "123456789S"},
	{"connection", "keep-alive"},
	{"x-bin", "AQI="}, {"x-bin", "!!!"},
	{"te", "trailers"},
}

var (
	c12ohReCT = regexp.MustCompile(`^application/grpc([+;].*)?$`)
	c12ohReTO = regexp.MustCompile(`^[0-9]{1,8}[HMSmun]$`)
)

// c12ohReasons: why a request with this literal field list must never reach a
// handler (statement of C12), and what the statement is silent about.
func c12ohReasons(fields [][2]string) (forbid, dontcare []string) {
	vals := map[string][]string{}
	for _, f := range fields {
		vals[f[0]] = append(vals[f[0]], f[1])
	}
	posts := 0
	for _, v := range vals[":method"] {
		if v == "POST" {
			posts++
		}
	}
	if posts == 0 {
		forbid = append(forbid, "non-POST")
	} else if posts < len(vals[":method"]) {
		dontcare = append(dontcare, "mixed-methods") // not expressible on the wire (the framer rejects repeated pseudo-headers)
	}
	ct := vals["content-type"]
	switch {
	case len(ct) == 0:
		forbid = append(forbid, "bad-content-type")
	default:
		good, bad := 0, 0
		for _, v := range ct {
			if c12ohReCT.MatchString(v) {
				good++
			} else {
				bad++
			}
		}
		if good == 0 {
			forbid = append(forbid, "bad-content-type")
		} else if bad > 0 {
			dontcare = append(dontcare, "mixed-content-types")
		}
	}
	for _, v := range vals["grpc-timeout"] {
		if !c12ohReTO.MatchString(v) {
			forbid = append(forbid, "bad-grpc-timeout")
			break
		}
	}
	if len(vals[":authority"]) > 1 || (len(vals[":authority"]) == 0 && len(vals["host"]) > 1) {
		forbid = append(forbid, "dup-authority")
	} else if len(vals["host"]) > 1 {
		dontcare = append(dontcare, "dup-host-with-authority")
	}
	var names []string
	for n := range vals {
		names = append(names, n)
	}
	sort.Strings(names)
	for _, n := range names {
		if !strings.HasSuffix(n, "-bin") {
			continue
		}
		for _, v := range vals[n] {
			_, e1 := base64.StdEncoding.DecodeString(v)
			_, e2 := base64.RawStdEncoding.DecodeString(v)
			if e1 != nil && e2 != nil {
				forbid = append(forbid, "bad-bin-metadata")
				break
			}
		}
	}
	if len(vals["connection"]) > 0 {
		dontcare = append(dontcare, "connection-header")
	}
	return forbid, dontcare
}

type c12ohCase struct {
	Fields [][2]string `json:"fields"`
	ES     bool        `json:"end_stream"`
}

func (c c12ohCase) String() string {
	var ss []string
	for _, f := range c.Fields {
		ss = append(ss, f[0]+"="+f[1])
	}
	return fmt.Sprintf("[%s] es=%v", strings.Join(ss, ", "), c.ES)
}

func TestVerif_C12_OperateHeaders(t *testing.T) {
	grpclog.SetLoggerV2(grpclog.NewLoggerV2(io.Discard, io.Discard, io.Discard))
	const P = "C12"
	r := vk.Start(t, "c12_opheaders", "fault_enumeration", P)
	defer r.Finish()
	maxF := 4
	r.Rule(P, fmt.Sprintf("every ordered selection of <= %d distinct fields from a menu of %d header fields (:method POST/GET, :path, two :authority values, two host values, three content-types, four grpc-timeout values, connection, valid/invalid -bin, te), each with and without END_STREAM, is turned into an http2.MetaHeadersFrame on the next odd stream id and passed to the real (*http2Server).operateHeaders of a live server transport; non-trivial: the reference admission forbids the field list; counted once per distinct case", maxF, len(c12ohMenu)))
	r.Assume(P, "operateHeaders is called from the test goroutine instead of HandleStreams (same single-caller protocol); accepted streams are closed with closeStream before the next case; statement silent about `connection`, about a good and a bad content-type together, about :method POST and GET together and about two host fields next to an :authority: enumerated, not judged")

	// enumerate cases
	var cases []c12ohCase
	var rec func(cur []int)
	rec = func(cur []int) {
		fs := make([][2]string, len(cur))
		for i, x := range cur {
			fs[i] = c12ohMenu[x]
		}
		cases = append(cases, c12ohCase{fs, false}, c12ohCase{fs, true})
		if len(cur) == maxF {
			return
		}
	next:
		for x := range c12ohMenu {
			for _, y := range cur {
				if x == y {
					continue next
				}
			}
			rec(append(append([]int(nil), cur...), x))
		}
	}
	rec(nil)

	if r.ReplayFile() != "" {
		var c c12ohCase
		if err := r.LoadReplay(&c); err != nil {
			r.EngineError("replay: %v", err)
			return
		}
		cases = []c12ohCase{c}
	}

	const chunk = 1024
	var nEval, nNontriv int64
	for lo := 0; lo < len(cases); lo += chunk {
		if r.ReplayFile() == "" && !r.Mine(lo/chunk) {
			continue
		}
		if r.OverBudget() {
			r.Cap(P, "soft time budget reached")
			break
		}
		hi := lo + chunk
		if hi > len(cases) {
			hi = len(cases)
		}
		batch := cases[lo:hi]
		synctest.Test(t, func(t *testing.T) {
			cconn, sconn := wire.Pipe()
			peer := wire.NewClientPeer(cconn)
			peer.AutoAckSettings, peer.AutoAckPing = true, true
			peer.WriteSettings()
			tr, err := NewServerTransport(sconn, &ServerConfig{MaxStreams: math.MaxUint32, BufferPool: mem.DefaultBufferPool()})
			if err != nil || tr == nil {
				r.EngineError("NewServerTransport: %v", err)
				peer.Close()
				return
			}
			st := tr.(*http2Server)
			synctest.Wait()
			id := uint32(1)
			for i, c := range batch {
				forbid, dontcare := c12ohReasons(c.Fields)
				hfs := make([]hpack.HeaderField, len(c.Fields))
				for j, f := range c.Fields {
					hfs[j] = hpack.HeaderField{Name: f[0], Value: f[1]}
				}
				var fl http2.Flags = http2.FlagHeadersEndHeaders
				if c.ES {
					fl |= http2.FlagHeadersEndStream
				}
				frame := &http2.MetaHeadersFrame{HeadersFrame: &http2.HeadersFrame{FrameHeader: http2.FrameHeader{Type: http2.FrameHeaders, Flags: fl, StreamID: id, Length: 10}}, Fields: hfs}
				var got *ServerStream
				var opErr error
				panicked := func() (p any) {
					defer func() { p = recover() }()
					opErr = st.operateHeaders(context.Background(), frame, func(s *ServerStream) { got = s })
					return nil
				}()
				id += 2
				nEval++
				cls := "admissible"
				if len(forbid) > 0 {
					cls = strings.Join(forbid, "+")
					nNontriv++
				} else if len(dontcare) > 0 {
					cls = "unspecified:" + strings.Join(dontcare, "+")
				}
				switch {
				case panicked != nil:
					r.Violation(P, "operateHeaders-panic/"+cls, fmt.Sprintf("operateHeaders panicked (%v) for %s", panicked, c), c)
					r.Outcome(P, cls+" -> panic")
				case got != nil:
					r.Outcome(P, cls+" -> handler")
					if len(forbid) > 0 {
						r.Violation(P, "operateHeaders-handler-invoked/"+cls, fmt.Sprintf("the stream handler was invoked for %s which must be rejected: %v", c, forbid), c)
					}
					st.closeStream(got, true, http2.ErrCodeCancel, false)
				case opErr != nil:
					r.Outcome(P, cls+" -> connection error")
				default:
					r.Outcome(P, cls+" -> rejected")
				}
				if i%64 == 63 {
					synctest.Wait() // let loopy drain the answers
				}
			}
			synctest.Wait()
			st.Close(errors.New("verif: batch finished"))
			peer.Close()
			time.Sleep(2 * time.Second) // loopy's goroutine waits up to 1 s for a reader that never ran
			synctest.Wait()
		})
	}
	r.Eval(P, nEval)
	r.NontrivialN(P, nNontriv)
	r.Set(P, "max_menu", len(c12ohMenu))
	if s, _ := r.Shard(); s == 0 && len(cases) > 40 {
		r.Sample(P, cases[37])
	}
}
