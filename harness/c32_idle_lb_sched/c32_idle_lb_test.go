//go:build verif

package grpc

import (
	"context"
	"errors"
	"fmt"
	"sync"
	"testing"
	"testing/synctest"

	"google.golang.org/grpc/balancer"
	"google.golang.org/grpc/connectivity"
	"google.golang.org/grpc/credentials/insecure"
	"google.golang.org/grpc/internal/verif/vk"
	"google.golang.org/grpc/internal/verif/vsched"
)

// An LB policy that publishes state from its own goroutine (as rls / xds /
// grpclb style policies do) racing the channel's entry into idle mode, on a
// real ClientConn (root package instrumented: cc.mu, the balancer wrapper's
// mutex, the serializers and the picker wrapper are scheduling points).

const c32LazyLB = "verif_c32_lazy"

type c32LazyBuilder struct{}

var (
	c32mu  sync.Mutex
	c32ccs []balancer.ClientConn // the ClientConn handed to each built policy instance
)

func (c32LazyBuilder) Name() string { return c32LazyLB }
func (c32LazyBuilder) Build(cc balancer.ClientConn, _ balancer.BuildOptions) balancer.Balancer {
	c32mu.Lock()
	c32ccs = append(c32ccs, cc)
	c32mu.Unlock()
	return &c32LazyBalancer{}
}

// the policy waits for "control-plane data": it publishes nothing by itself
type c32LazyBalancer struct{}

func (*c32LazyBalancer) UpdateClientConnState(balancer.ClientConnState) error { return nil }
func (*c32LazyBalancer) ResolverError(error)                                  {}
func (*c32LazyBalancer) UpdateSubConnState(balancer.SubConn, balancer.SubConnState) {
}
func (*c32LazyBalancer) Close()    {}
func (*c32LazyBalancer) ExitIdle() {}

type c32TagPicker struct{ tag string }

func (p *c32TagPicker) Pick(balancer.PickInfo) (balancer.PickResult, error) {
	return balancer.PickResult{}, errors.New("picker " + p.tag)
}

func init() { balancer.Register(c32LazyBuilder{}) }

func c32IdleLBScenario(name string, st connectivity.State, updates int, bound int) vsched.Scenario {
	return vsched.Scenario{Name: name, Bound: bound, Horizon: 20000, Body: func(x *vsched.X) {
		x.BackgroundSetup()
		c32mu.Lock()
		c32ccs = nil
		c32mu.Unlock()
		cc, err := NewClient("passthrough:///c32", WithTransportCredentials(insecure.NewCredentials()),
			WithDefaultServiceConfig(`{"loadBalancingConfig":[{"`+c32LazyLB+`":{}}]}`))
		if err != nil {
			x.Fail("C32", "setup", "NewClient: %v", err)
			return
		}
		cc.Connect()
		synctest.Wait()
		c32mu.Lock()
		var lbcc balancer.ClientConn
		if len(c32ccs) > 0 {
			lbcc = c32ccs[len(c32ccs)-1]
		}
		c32mu.Unlock()
		if lbcc == nil {
			cc.Close()
			x.Fail("C32", "setup", "the LB policy was not built after Connect")
			return
		}
		idleDone := false
		var mu sync.Mutex
		x.Go("lb-goroutine", func() {
			for i := 0; i < updates; i++ {
				vsched.Yield()
				lbcc.UpdateState(balancer.State{ConnectivityState: st, Picker: &c32TagPicker{tag: fmt.Sprintf("of-the-pre-idle-policy#%d", i)}})
			}
		})
		x.Go("idle", func() {
			vsched.Yield()
			cc.enterIdleMode()
			mu.Lock()
			idleDone = true
			mu.Unlock()
		})
		x.Final(func(x *vsched.X) {
			for _, p := range x.Panics {
				x.Fail("C32", "panic", "%s", p)
			}
			mu.Lock()
			done := idleDone
			mu.Unlock()
			if !done {
				x.Fail("C30", "enter-idle-hangs", "enterIdleMode has not returned (%s)", x.Stuck)
				return
			}
			synctest.Wait()
			// the channel is idle now: no resolver, no LB policy, no subchannels
			if s := cc.csMgr.getState(); s != connectivity.Idle {
				x.Fail("C30", "state-of-closed-policy-published-while-idle", "the channel entered idle mode but reports %v (published by the LB policy that idle entry closed)", s)
			}
			if p := cc.pickerWrapper.pickerGen.Load().picker; p != nil {
				tag := fmt.Sprintf("%T", p)
				if tp, ok := p.(*c32TagPicker); ok {
					tag = tp.tag
				}
				x.Fail("C32", "stale-picker-after-idle-entry", "after idle entry the picker wrapper holds picker %q of the closed LB policy: the next RPC would be decided by it instead of waiting for the new policy's picker", tag)
			} else {
				// an RPC that takes the channel out of idle must wait for the NEW policy's picker
				ctx, cancel := context.WithCancel(context.Background())
				type res struct {
					err error
				}
				var r *res
				go func() {
					cc.exitIdleMode()
					_, e := cc.pickerWrapper.pick(ctx, true, balancer.PickInfo{Ctx: ctx, FullMethodName: "/s/m"})
					mu.Lock()
					r = &res{e}
					mu.Unlock()
				}()
				synctest.Wait()
				mu.Lock()
				if r != nil {
					x.Fail("C32", "pick-decided-without-new-picker", "a fail-fast pick after idle exit returned (%v) although the new LB policy has not published any picker", r.err)
				}
				mu.Unlock()
				cancel()
				synctest.Wait()
			}
			x.Outcome(fmt.Sprintf("state=%v", cc.csMgr.getState()))
		})
		x.Cleanup(func() {
			cc.Close()
		})
	}}
}

func TestVerif_C32_IdleLBUpdateSched(t *testing.T) {
	props := []string{"C32", "C30"}
	r := vk.Start(t, "c32_idle_lb_sched", "exploration", props...)
	defer r.Finish()
	for _, p := range props {
		r.Rule(p, "every schedule with at most B preemptions (quick 2, thorough 3) of a real ClientConn (root package instrumented) whose LB policy publishes 1-2 states (READY / TRANSIENT_FAILURE with a tagged picker) from its own goroutine while the channel enters idle mode: once enterIdleMode has returned the channel reports IDLE (C30) and the picker wrapper holds no picker of the closed policy, and a fail-fast pick after idle exit blocks until the new policy publishes (C32); non-trivial = executions deviating from the default schedule")
		r.Assume(p, "scheduling points at sync/atomic/channel operations of the root package suffice; gracefulswitch, grpcsync and resolver packages are not instrumented (their goroutines run to quiescence between steps)")
	}
	b := r.Pick(2, 3)
	scs := []vsched.Scenario{
		c32IdleLBScenario("idle-vs-lbupdate/TF/1", connectivity.TransientFailure, 1, b),
		c32IdleLBScenario("idle-vs-lbupdate/READY/2", connectivity.Ready, 2, b),
	}
	vsched.RunScenarios(t, r, props, scs)
	for _, p := range props {
		r.Sample(p, map[string]any{"scenario": "idle-vs-lbupdate/TF/1", "threads": []string{"lb-goroutine: balancer.ClientConn.UpdateState(TF, tagged picker)", "idle: cc.enterIdleMode()", "background: resolver / balancer serializers"}})
	}
}
