//go:build verif

package health

import (
	"context"
	"fmt"
	"sync"
	"testing"

	"google.golang.org/grpc"
	healthpb "google.golang.org/grpc/health/grpc_health_v1"
	"google.golang.org/grpc/internal/verif/vk"
	"google.golang.org/grpc/internal/verif/vsched"
)

type c54Status = healthpb.HealthCheckResponse_ServingStatus

const (
	c54Unknown    = healthpb.HealthCheckResponse_SERVICE_UNKNOWN
	c54Serving    = healthpb.HealthCheckResponse_SERVING
	c54NotServing = healthpb.HealthCheckResponse_NOT_SERVING
)

// c54Ledger: the statuses the service has had, in order (single setter thread,
// updated in the same scheduling step as the setter's critical section).
type c54Ledger struct {
	mu   sync.Mutex
	hist map[string][]c54Status
}

func (l *c54Ledger) cur(svc string) c54Status {
	h := l.hist[svc]
	if len(h) == 0 {
		return c54Unknown
	}
	return h[len(h)-1]
}

func (l *c54Ledger) set(svc string, s c54Status) {
	if l.cur(svc) != s || len(l.hist[svc]) == 0 {
		l.hist[svc] = append(l.hist[svc], s)
	}
}

// c54Stream is the fake Watch stream; Send is slow (its own scheduling step).
type c54Stream struct {
	grpc.ServerStream
	id      int
	ctx     context.Context
	cancel  context.CancelFunc
	l       *c54Ledger
	svc     string
	startAt int // len(hist[svc]) when Watch was called
	sent    []c54Status
}

func (s *c54Stream) VerifOrder() int          { return s.id }
func (s *c54Stream) Context() context.Context { return s.ctx }
func (s *c54Stream) Send(r *healthpb.HealthCheckResponse) error {
	vsched.Yield() // flow-controlled client: sending takes a step
	s.l.mu.Lock()
	s.sent = append(s.sent, r.Status)
	s.l.mu.Unlock()
	return nil
}

type c54Op struct {
	kind string // set | shutdown | resume
	svc  string
	st   c54Status
}

func c54Scenario(name string, ops []c54Op, watchSvcs []string, check bool, bound int, clientCancel ...bool) vsched.Scenario {
	return vsched.Scenario{Name: name, Bound: bound, MinOutcomes: 2, Body: func(x *vsched.X) {
		srv := NewServer()
		l := &c54Ledger{hist: map[string][]c54Status{"": {c54Serving}}}
		srv.SetServingStatus("svc", c54Serving)
		l.set("svc", c54Serving)
		shutdown := false
		x.Go("setter", func() {
			for _, op := range ops {
				switch op.kind {
				case "set":
					srv.SetServingStatus(op.svc, op.st)
					l.mu.Lock()
					if !shutdown {
						l.set(op.svc, op.st)
					}
					l.mu.Unlock()
				case "shutdown":
					srv.Shutdown()
					l.mu.Lock()
					shutdown = true
					for svc := range l.hist {
						l.set(svc, c54NotServing)
					}
					l.mu.Unlock()
				case "resume":
					srv.Resume()
					l.mu.Lock()
					shutdown = false
					for svc := range l.hist {
						l.set(svc, c54Serving)
					}
					l.mu.Unlock()
				}
			}
		})
		var streams []*c54Stream
		for i, svc := range watchSvcs {
			ctx, cancel := context.WithCancel(context.Background())
			st := &c54Stream{id: i, ctx: ctx, cancel: cancel, l: l, svc: svc}
			streams = append(streams, st)
			x.Go(fmt.Sprintf("watch%d(%s)", i, svc), func() {
				l.mu.Lock()
				st.startAt = len(l.hist[svc])
				l.mu.Unlock()
				srv.Watch(&healthpb.HealthCheckRequest{Service: svc}, st)
			})
		}
		if check {
			x.Go("check", func() {
				for i := 0; i < 2; i++ {
					resp, err := srv.Check(context.Background(), &healthpb.HealthCheckRequest{Service: "svc"})
					l.mu.Lock()
					want := l.cur("svc")
					l.mu.Unlock()
					if err != nil || resp.Status != want {
						x.Fail("C54", "check-not-latest", "Check returned %v (err %v) but the latest status is %v", resp.GetStatus(), err, want)
					}
				}
			})
		}
		goneEarly := map[int]bool{}
		if len(clientCancel) > 0 && clientCancel[0] {
			// the client of watcher 0 goes away at an arbitrary moment
			x.Go("clientGone0", func() {
				vsched.Yield()
				goneEarly[0] = true
				streams[0].cancel()
			})
		}
		cancelled := false
		var atQuiescence [][]c54Status
		x.OnStuck(func() bool {
			if cancelled {
				return false
			}
			cancelled = true
			// quiescent: all status changes applied, all sends done. Snapshot
			// what was sent, then end the Watch RPCs.
			l.mu.Lock()
			for _, st := range streams {
				atQuiescence = append(atQuiescence, append([]c54Status(nil), st.sent...))
			}
			l.mu.Unlock()
			for _, st := range streams {
				st.cancel()
			}
			return true
		})
		x.Final(func(x *vsched.X) {
			for _, p := range x.Panics {
				x.Fail("C54", "panic", "%s", p)
			}
			if x.Stuck != "" {
				x.Fail("C54", "deadlock", "threads blocked after the Watch contexts were cancelled: %s", x.Stuck)
			}
			l.mu.Lock()
			defer l.mu.Unlock()
			out := ""
			for i, st := range streams {
				sent := st.sent
				if i < len(atQuiescence) {
					sent = atQuiescence[i]
				}
				out += fmt.Sprintf("w%d=%v ", i, sent)
				h := l.hist[st.svc]
				if goneEarly[i] {
					// a cancelled stream only has to respect order/no-repeat
					if len(sent) == 0 {
						continue
					}
				}
				if len(sent) == 0 {
					x.Fail("C54", "nothing-sent", "watcher %d(%s) was sent nothing; service history %v", i, st.svc, h)
					continue
				}
				for k := 1; k < len(sent); k++ {
					if sent[k] == sent[k-1] {
						x.Fail("C54", "same-status-twice", "watcher %d(%s) was sent %v: same status twice in a row", i, st.svc, sent)
					}
				}
				// sent must be an order-preserving subsequence of the statuses the
				// service had since Watch was called (UNKNOWN first if unregistered then)
				var avail []c54Status
				if st.startAt == 0 {
					avail = append(avail, c54Unknown)
					avail = append(avail, h...)
				} else {
					avail = append(avail, h[st.startAt-1:]...)
				}
				j := 0
				ok := true
				for _, s := range sent {
					for j < len(avail) && avail[j] != s {
						j++
					}
					if j == len(avail) {
						ok = false
						break
					}
					j++
				}
				if !ok {
					x.Fail("C54", "status-never-had", "watcher %d(%s) was sent %v which is not a subsequence of the statuses the service had since the Watch began %v", i, st.svc, sent, avail)
				}
				want := c54Unknown
				if len(h) > 0 {
					want = h[len(h)-1]
				}
				if !goneEarly[i] && sent[len(sent)-1] != want {
					x.Fail("C54", "not-converged", "at quiescence watcher %d(%s) last received %v but the latest status is %v (sent %v, history %v)", i, st.svc, sent[len(sent)-1], want, sent, h)
				}
			}
			x.Outcome(out)
		})
		x.Cleanup(func() {
			for _, st := range streams {
				st.cancel()
			}
		})
	}}
}

// Shutdown called by one goroutine while another one is in SetServingStatus:
// "Shutdown sets all serving status to NOT_SERVING, and configures the server to
// ignore all future status changes" — once Shutdown has returned, Check must
// report NOT_SERVING whatever the interleaving with the concurrent setter, and
// a Watch stream's last message must be NOT_SERVING.
func c54ShutdownRaceScenario(name string, nSetters int, bound int) vsched.Scenario {
	return vsched.Scenario{Name: name, Bound: bound, MinOutcomes: 1, Body: func(x *vsched.X) {
		srv := NewServer()
		srv.SetServingStatus("svc", c54NotServing)
		var mu sync.Mutex
		l := &c54Ledger{hist: map[string][]c54Status{}}
		ctx, cancel := context.WithCancel(context.Background())
		st := &c54Stream{id: 0, ctx: ctx, cancel: cancel, l: l, svc: "svc"}
		x.Go("watch0(svc)", func() {
			srv.Watch(&healthpb.HealthCheckRequest{Service: "svc"}, st)
		})
		for i := 0; i < nSetters; i++ {
			x.Go(fmt.Sprintf("setter%d", i), func() {
				vsched.Yield()
				srv.SetServingStatus("svc", c54Serving)
			})
		}
		shutdownReturned := false
		x.Go("shutdown", func() {
			vsched.Yield()
			srv.Shutdown()
			mu.Lock()
			shutdownReturned = true
			mu.Unlock()
		})
		released := false
		x.OnStuck(func() bool {
			// quiescent: setters and Shutdown are done, the watcher is parked
			if released {
				return false
			}
			released = true
			cancel()
			return true
		})
		x.Final(func(x *vsched.X) {
			for _, p := range x.Panics {
				x.Fail("C54", "panic", "%s", p)
			}
			mu.Lock()
			ret := shutdownReturned
			mu.Unlock()
			if !ret {
				x.Fail("C54", "shutdown-hangs", "Shutdown has not returned (%s)", x.Stuck)
				return
			}
			resp, err := srv.Check(context.Background(), &healthpb.HealthCheckRequest{Service: "svc"})
			if err != nil || resp.Status != c54NotServing {
				x.Fail("C54", "serving-after-shutdown", "Shutdown returned, every SetServingStatus call has returned, yet Check reports %v (err %v): a status change was applied after Shutdown", resp.GetStatus(), err)
			}
			l.mu.Lock()
			sent := append([]c54Status(nil), st.sent...)
			l.mu.Unlock()
			if n := len(sent); n > 0 && sent[n-1] != c54NotServing {
				x.Fail("C54", "watch-last-not-latest-after-shutdown", "the Watch stream's last message is %v after Shutdown returned (sent %v)", sent[n-1], sent)
			}
			x.Outcome(fmt.Sprintf("sent=%v", sent))
		})
		x.Cleanup(cancel)
	}}
}

func TestVerif_C54_Health(t *testing.T) {
	const P = "C54"
	r := vk.Start(t, "c54_health", "exploration", P)
	defer r.Finish()
	r.Rule(P, "every schedule with at most B preemptions (quick 2, thorough 3) of the instrumented real health.Server: a setter thread (3 status changes, or change/Shutdown/ignored change/Resume) racing 1-2 Watch RPCs on registered and unregistered services whose stream.Send is a separate slow step, plus a Check thread; oracle = per-service status history ledger (subsequence, no repeats, convergence at quiescence, Check == latest); non-trivial = executions deviating from the default schedule")
	r.Assume(P, "scheduling points at sync/channel operations suffice; map ranges over watchers iterate in explorer-owned order")
	b := r.Pick(2, 3)
	set := func(svc string, s c54Status) c54Op { return c54Op{kind: "set", svc: svc, st: s} }
	scs := []vsched.Scenario{
		c54Scenario("set3/watch1", []c54Op{set("svc", c54NotServing), set("svc", c54Serving), set("svc", c54NotServing)}, []string{"svc"}, false, b+1),
		c54Scenario("set3/watch2+check", []c54Op{set("svc", c54NotServing), set("svc", c54Serving), set("svc", c54NotServing)}, []string{"svc", "svc"}, true, b-1),
		c54Scenario("register/watch-unknown", []c54Op{set("new", c54NotServing), set("new", c54Serving)}, []string{"new"}, false, b+1),
		c54Scenario("shutdown-resume/watch1+check", []c54Op{set("svc", c54NotServing), {kind: "shutdown"}, set("svc", c54Serving), {kind: "resume"}}, []string{"svc"}, true, b),
	}
	scs = append(scs, c54ShutdownRaceScenario("shutdown-vs-setter/1", 1, b), c54ShutdownRaceScenario("shutdown-vs-setter/2", 2, b-1))
	scs = append(scs, c54Scenario("set3/watch2+clientgone", []c54Op{set("svc", c54NotServing), set("svc", c54Serving), set("svc", c54NotServing)}, []string{"svc", "svc"}, false, b-1, true))
	vsched.RunScenarios(t, r, []string{P}, scs)
	r.Sample(P, map[string]any{"scenario": "shutdown-resume/watch1+check", "threads": []string{"setter: Set(svc,NOT_SERVING); Shutdown; Set(svc,SERVING) [ignored]; Resume", "watch0: Watch(svc) with slow Send", "check: Check(svc) x2"}})
}
